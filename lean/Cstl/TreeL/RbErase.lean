import Cstl.TreeL.RbErasePath
import Cstl.TreeL.RbInsert
/-
__cstl_rbtree_erase at link level: cstl_rbtree_fix_deletion is one level of the
functional `fixL` / `fixR`; the loop (with its stack-local stand-in for a
missing child) is the way back up of `del` (`unwindD`).
-/
set_option linter.unusedSimpArgs false
namespace Cstl.TreeL
open Cstl.SList (Mem upd upd_same upd_other)
open Cstl.Tree (Color Elem Tree)
open Cstl.Tree.Color Cstl.Tree.Tree

/-- the address of a subtree's root is determined by the tree -/
theorem Shape.root_eq {m m' : TM} {a a' p p' : Nat} {t : Tree} (h : Shape m a p t) (h' : Shape m' a' p' t) :
    a = a' := by
  cases t with
  | nil => exact (show a = 0 from h).trans (show a' = 0 from h').symm
  | node c l e r => rw [← h.id_eq, ← h'.id_eq]

theorem blackOrNull_iff {m : TM} {a p : Nat} {t : Tree} (h : Shape m a p t) :
    blackOrNull m a = !t.isRed := by
  cases t with
  | nil => have : a = 0 := h; simp [blackOrNull, this, Tree.isRed]
  | node c l e r =>
    simp only [Shape_node] at h
    cases c <;> simp [blackOrNull, Tree.isRed, h.1, h.2.2.1]

/-- what the fix-up loop needs to know about its `x` besides the focus: `x->p` is the hole's parent
and `x` is none of the other nodes (it is the root of the focused subtree, or the stand-in) -/
structure XOk (m : TM) (K : Ctx) (p x : Nat) : Prop where
  pr : m.pr x = p
  ne0 : x ≠ 0
  out : x ∉ ctxIds K

/-- first `if` of fix_deletion, red sibling: after the rotation the sibling is the former near nephew -/
theorem fixDelSibling_red {m : TM} {h : Hd} {K : Ctx} {a p x : Nat} {d : Bool} {c : Color} {pe we : Elem}
    {tx wn wf : Tree}
    (hz : Zip m h.root (mkFrame d c pe (mkNode d red wn we wf) :: K) a p tx)
    (hx : XOk m (mkFrame d c pe (mkNode d red wn we wf) :: K) p x) :
    ∃ m' h' w', fixDelSibling m h x d = some (m', h', w') ∧ h'.size = h.size ∧ m'.key = m.key ∧
      Zip m' h'.root (mkFrame d red pe wn :: mkFrame d black we wf :: K) a p tx ∧
      XOk m' (mkFrame d red pe wn :: mkFrame d black we wf :: K) p x ∧ w' = chR m' d p ∧
      (∀ z, z ≠ 0 → z ∉ tx.ids → z ∉ ctxIds (mkFrame d c pe (mkNode d red wn we wf) :: K) → Agree m m' z) := by
  obtain ⟨hp0, hpid, hpc, hpl, hsw, _⟩ := hz.frameD
  have hw := hsw
  rw [Shape_mkNode] at hw
  obtain ⟨hw0, hwe, hwc, _, _, _⟩ := hw
  have hweid : we.id = chR m d p := by simp [hwe]
  have hxk := hx.out
  simp only [mem_ctxIds_mkFrame, mem_mkNode_ids, not_or, hpid, hweid] at hxk
  obtain ⟨hxp, ⟨hxw, hxwn, hxwf⟩, hxK⟩ := hxk
  have Zp := hz.upD
  have Z1 := (Zp.downD'.setC_rootD black).upD
  rw [mkNode_not] at Z1
  have Z2 := Z1.setC_rootD red
  obtain ⟨m', h', hrot, Z3, hsz, hcl, hkey, hfr⟩ := rotate_spec (h := h) Z2
  have Z4 := Z3.downD
  have e1 : chL m' d we.id = p := by rw [← hpid]; exact Z4.sub.id_eqD.symm
  rw [e1] at Z4
  have Z5 := Z4.downD
  have e2 : chL m' d p = a := Shape.root_eq Z5.sub hz.sub
  rw [e2] at Z5
  have hgp : x ≠ m.pr p := by
    intro e'
    have := Zp.ctx.parent_mem (by rw [← e']; exact hx.ne0)
    exact hxK (e' ▸ this)
  have hagx : Agree m m' x := by
    refine ((Agree.setC black hxw).trans (Agree.setC red hxp)).trans (hfr x hxp (by rw [hweid]; exact hxw) hgp hxwn)
  obtain ⟨_, _, _, _, hswn, _⟩ := Z5.frameD
  refine ⟨m', h', chR m' d p, ?_, hsz, by rw [hkey]; rfl, Z5, ⟨by rw [hagx.1]; exact hx.pr, hx.ne0, ?_⟩, rfl, ?_⟩
  · simp only [fixDelSibling, hx.pr, hw0, if_false, hwc, if_true, setC_pr, hrot]
    rw [hagx.1, hx.pr]
  · simp only [mem_ctxIds_mkFrame, not_or, hpid, hweid]
    exact ⟨hxp, hxwn, hxw, hxwf, hxK⟩
  · intro z hz0 hzt hzk
    simp only [mem_ctxIds_mkFrame, mem_mkNode_ids, not_or, hpid, hweid] at hzk
    obtain ⟨hzp, ⟨hzw, hzwn, hzwf⟩, hzK⟩ := hzk
    refine ((Agree.setC black hzw).trans (Agree.setC red hzp)).trans (hfr z hzp (by rw [hweid]; exact hzw) ?_ hzwn)
    intro e'
    have e'' : z = m.pr p := e'
    have := Zp.ctx.parent_mem (by rw [← e'']; exact hz0)
    exact hzK (e'' ▸ this)

/-- second `if` of fix_deletion: both nephews black: the sibling is painted red, `x` moves to the parent -/
theorem fixDelCases_black {m : TM} {h : Hd} {K : Ctx} {a p x : Nat} {d : Bool} {c cw : Color} {pe we : Elem}
    {tx wn wf : Tree}
    (hz : Zip m h.root (mkFrame d c pe (mkNode d cw wn we wf) :: K) a p tx)
    (hx : XOk m (mkFrame d c pe (mkNode d cw wn we wf) :: K) p x)
    (hn : wn.isRed = false) (hf : wf.isRed = false) :
    fixDelCases m h x d (chR m d p) = some (setC m (chR m d p) red, h, p) ∧
      Zip (setC m (chR m d p) red) h.root K p (m.pr p) (mkNode d c tx pe (mkNode d red wn we wf)) ∧
      (∀ z, z ≠ chR m d p → Agree m (setC m (chR m d p) red) z) ∧ chR m d p ∈ (mkNode d cw wn we wf).ids := by
  obtain ⟨hp0, hpid, hpc, hpl, hsw, _⟩ := hz.frameD
  have hw := hsw
  rw [Shape_mkNode] at hw
  obtain ⟨hw0, hwe, hwc, _, hswn, hswf⟩ := hw
  have Zp := hz.upD
  have Z1 := (Zp.downD'.setC_rootD red).upD
  rw [mkNode_not] at Z1
  refine ⟨?_, Z1, fun z hz' => Agree.setC red hz', ?_⟩
  · simp only [fixDelCases, hw0, if_false, blackOrNull_iff hswn, blackOrNull_iff hswf, hn, hf, Bool.not_false,
      Bool.and_self, if_true, setC_pr, hx.pr]
  · rw [mem_mkNode_ids]; left; simp [hwe]

theorem blacken_mkNode (d : Bool) (c : Color) (l r : Tree) (e : Elem) :
    (mkNode d c l e r).blacken = mkNode d black l e r := by cases d <;> rfl

/-- last part of fix_deletion: the far nephew is red -/
theorem fixDelFar_spec {m : TM} {h : Hd} {K : Ctx} {a p x : Nat} {d : Bool} {c cw : Color} {pe we : Elem}
    {tx wn wf : Tree}
    (hz : Zip m h.root (mkFrame d c pe (mkNode d cw wn we wf) :: K) a p tx)
    (hx : XOk m (mkFrame d c pe (mkNode d cw wn we wf) :: K) p x) (hf : wf.isRed = true) :
    ∃ m' h' gp, fixDelFar m h x d (chR m d p) = some (m', h', h'.root) ∧ h'.size = h.size ∧ m'.key = m.key ∧
      Zip m' h'.root K we.id gp (mkNode d c (mkNode d black tx pe wn) we wf.blacken) ∧
      (∀ z, z ≠ 0 → z ∉ tx.ids → z ∉ ctxIds (mkFrame d c pe (mkNode d cw wn we wf) :: K) → Agree m m' z) := by
  obtain ⟨hp0, hpid, hpc, hpl, hsw, _⟩ := hz.frameD
  have hw := hsw
  rw [Shape_mkNode] at hw
  obtain ⟨hw0, hwe, hwc, hprw, hswn, hswf⟩ := hw
  have hweid : we.id = chR m d p := by simp [hwe]
  have hfr0 := (isRed_iff hswf).mp hf
  cases wf with
  | nil => simp [Tree.isRed] at hf
  | node cf fa fe fb =>
  have hcf : cf = red := by cases cf <;> simp [Tree.isRed] at hf ⊢
  subst hcf
  have hfeid : fe.id = chR m d (chR m d p) := hswf.id_eq
  have Zp := hz.upD
  have Z1 := (Zp.downD'.setC_rootD c).upD
  rw [mkNode_not] at Z1
  have Z2 := Z1.setC_rootD black
  have Z3 := ((Z2.downD'.downD'.setC_root black).upD).upD
  rw [mkNode_not, mkNode_not] at Z3
  simp only [chR_setC, chL_setC, setC_pr, hprw] at Z3
  obtain ⟨m', h', hrot, Z4, hsz, hcl, hkey, hfr⟩ := rotate_spec (h := h) Z3
  refine ⟨m', h', _, ?_, hsz, by rw [hkey]; rfl, by simpa [Tree.blacken] using Z4, ?_⟩
  · simp only [fixDelFar, hw0, if_false, setC_pr, hx.pr, hpc, chR_setC, hfr0.1, hrot]
  · intro z hz0 hzt hzk
    simp only [mem_ctxIds_mkFrame, mem_mkNode_ids, not_or, hpid, hweid, Cstl.Tree.ids_node, List.mem_append,
      List.mem_cons, hfeid] at hzk
    obtain ⟨hzp, ⟨hzw, hzwn, hzfa, hzfe, hzfb⟩, hzK⟩ := hzk
    refine (((Agree.setC c hzw).trans (Agree.setC black hzp)).trans (Agree.setC black hzfe)).trans
      (hfr z hzp (by rw [hweid]; exact hzw) ?_ hzwn)
    intro e'
    have e'' : z = m.pr p := e'
    have := Zp.ctx.parent_mem (by rw [← e'']; exact hz0)
    exact hzK (e'' ▸ this)

/-- red far nephew: the second part goes straight to the last part -/
theorem fixDelCases_far {m : TM} {h : Hd} {K : Ctx} {a p x : Nat} {d : Bool} {c cw : Color} {pe we : Elem}
    {tx wn wf : Tree}
    (hz : Zip m h.root (mkFrame d c pe (mkNode d cw wn we wf) :: K) a p tx) (hf : wf.isRed = true) :
    fixDelCases m h x d (chR m d p) = fixDelFar m h x d (chR m d p) := by
  obtain ⟨hp0, hpid, hpc, hpl, hsw, _⟩ := hz.frameD
  rw [Shape_mkNode] at hsw
  obtain ⟨hw0, hwe, hwc, hprw, hswn, hswf⟩ := hsw
  simp only [fixDelCases, hw0, if_false, blackOrNull_iff hswf, hf, Bool.not_true, Bool.and_false,
    Bool.false_eq_true]

/-- black far nephew, red near nephew: the sibling is rotated so that the far nephew is red -/
theorem fixDelCases_near {m : TM} {h : Hd} {K : Ctx} {a p x : Nat} {d : Bool} {c cw : Color} {pe we ne : Elem}
    {tx na nb wf : Tree}
    (hz : Zip m h.root (mkFrame d c pe (mkNode d cw (mkNode d red na ne nb) we wf) :: K) a p tx)
    (hx : XOk m (mkFrame d c pe (mkNode d cw (mkNode d red na ne nb) we wf) :: K) p x)
    (hf : wf.isRed = false) :
    ∃ m' h' gp, fixDelCases m h x d (chR m d p) = some (m', h', h'.root) ∧ h'.size = h.size ∧ m'.key = m.key ∧
      Zip m' h'.root K ne.id gp (mkNode d c (mkNode d black tx pe na) ne (mkNode d black nb we wf)) ∧
      (∀ z, z ≠ 0 → z ∉ tx.ids → z ∉ ctxIds (mkFrame d c pe (mkNode d cw (mkNode d red na ne nb) we wf) :: K) →
        Agree m m' z) := by
  obtain ⟨hp0, hpid, hpc, hpl, hsw, _⟩ := hz.frameD
  have hw := hsw
  rw [Shape_mkNode] at hw
  obtain ⟨hw0, hwe, hwc, hprw, hswn, hswf⟩ := hw
  have hweid : we.id = chR m d p := by simp [hwe]
  have hn := hswn
  rw [Shape_mkNode] at hn
  obtain ⟨hn0, hne, hnc, hprn, _, _⟩ := hn
  have hneid : ne.id = chL m d (chR m d p) := by simp [hne]
  have hxk := hx.out
  simp only [mem_ctxIds_mkFrame, mem_mkNode_ids, not_or, hpid, hweid, hneid] at hxk
  obtain ⟨hxp, ⟨hxw, ⟨hxn, hxna, hxnb⟩, hxwf⟩, hxK⟩ := hxk
  have Zp := hz.upD
  have Zw := Zp.downD'
  have Z1 := ((Zw.downD.setC_rootD black).upD).setC_rootD red
  simp only [chR_setC, chL_setC, setC_pr, hprn] at Z1
  have e1 : mkNode d red (mkNode d black na ne nb) we wf =
      mkNode (!d) red wf we (mkNode (!d) black nb ne na) := by simp [mkNode_not]
  rw [e1] at Z1
  obtain ⟨m4, h4, hrot, Z2, hsz, hcl, hkey, hfr⟩ := rotate_spec (h := h) Z1
  have e2 : mkNode (!d) black (mkNode (!d) red wf we nb) ne na =
      mkNode d black na ne (mkNode d red nb we wf) := by simp [mkNode_not]
  rw [e2] at Z2
  have Z3 := Z2.upD
  rw [mkNode_not] at Z3
  simp only [hprw] at Z3
  have Z4 := Z3.downD
  have e3 : chL m4 d p = a := Shape.root_eq Z4.sub hz.sub
  rw [e3] at Z4
  have agree4 : ∀ z, z ≠ chL m d (chR m d p) → z ≠ chR m d p → z ≠ p → z ∉ nb.ids → Agree m m4 z := by
    intro z h1 h2 h3 h4
    exact ((Agree.setC black h1).trans (Agree.setC red h2)).trans (hfr z h2 (by rw [hneid]; exact h1) (by rw [hprw]; exact h3) h4)
  have hagx := agree4 x hxn hxw hxp hxnb
  have hx4 : XOk m4 (mkFrame d c pe (mkNode d black na ne (mkNode d red nb we wf)) :: K) p x := by
    refine ⟨by rw [hagx.1]; exact hx.pr, hx.ne0, ?_⟩
    simp only [mem_ctxIds_mkFrame, mem_mkNode_ids, not_or, hpid, hweid, hneid]
    exact ⟨hxp, ⟨hxn, hxna, hxw, hxnb, hxwf⟩, hxK⟩
  obtain ⟨_, _, _, _, hsw4, _⟩ := Z4.frameD
  have hneid4 : ne.id = chR m4 d p := (hsw4.id_eqD).symm ▸ rfl
  obtain ⟨m', h', gp, f1, f2, f3, f4, f5⟩ := fixDelFar_spec Z4 hx4 (by cases d <;> rfl)
  rw [blacken_mkNode] at f4
  refine ⟨m', h', gp, ?_, by rw [f2, hsz], by rw [f3, hkey]; rfl, f4, ?_⟩
  · simp only [fixDelCases, hw0, if_false, blackOrNull_iff hswn, blackOrNull_iff hswf, hf, Bool.not_false,
      Bool.and_true, Bool.false_eq_true, if_true, hn0, hrot, hagx.1, hx.pr]
    have : (mkNode d red na ne nb).isRed = true := by cases d <;> rfl
    simp only [this, Bool.not_true, Bool.false_eq_true, if_false]
    exact f1
  · intro z hz0 hzt hzk
    have hzk' := hzk
    simp only [mem_ctxIds_mkFrame, mem_mkNode_ids, not_or, hpid, hweid, hneid] at hzk
    obtain ⟨hzp, ⟨hzw, ⟨hzn, hzna, hznb⟩, hzwf⟩, hzK⟩ := hzk
    refine (agree4 z hzn hzw hzp hznb).trans (f5 z hz0 hzt ?_)
    simp only [mem_ctxIds_mkFrame, mem_mkNode_ids, not_or, hpid, hweid, hneid]
    exact ⟨hzp, ⟨hzn, hzna, hzw, hznb, hzwf⟩, hzK⟩

@[simp] theorem ids_blacken (t : Tree) : t.blacken.ids = t.ids := by cases t <;> rfl

theorem Zip.focusD {m : TM} {root a p : Nat} {K : Ctx} {d : Bool} {c : Color} {l r : Tree} {e : Elem}
    (h : Zip m root K a p (mkNode d c l e r)) : m.cl a = c ∧ a ≠ 0 ∧ e.id = a := by
  have hs := h.sub
  rw [Shape_mkNode] at hs
  exact ⟨hs.2.2.1, hs.1, by simp [hs.2.1]⟩

theorem node_as_mkNode (d : Bool) (c : Color) (l r : Tree) (e : Elem) :
    ∃ wn wf, Tree.node c l e r = mkNode d c wn e wf := by
  cases d
  · exact ⟨r, l, rfl⟩
  · exact ⟨l, r, rfl⟩

theorem isRed_mkNode (d : Bool) (c : Color) (l r : Tree) (e : Elem) : (mkNode d c l e r).isRed = (c == red) := by
  cases d <;> cases c <;> rfl

theorem fixDelSibling_black {m : TM} {h : Hd} {K : Ctx} {a p x : Nat} {d : Bool} {c : Color} {pe we : Elem}
    {tx wn wf : Tree}
    (hz : Zip m h.root (mkFrame d c pe (mkNode d black wn we wf) :: K) a p tx) (hpx : m.pr x = p) :
    fixDelSibling m h x d = some (m, h, chR m d p) := by
  obtain ⟨hp0, hpid, hpc, hpl, hsw, _⟩ := hz.frameD
  rw [Shape_mkNode] at hsw
  obtain ⟨hw0, hwe, hwc, _, _, _⟩ := hsw
  simp [fixDelSibling, hpx, hw0, hwc]

/-- the three ways one call of `cstl_rbtree_fix_deletion` leaves the loop -/
def DelOut (m' : TM) (h' : Hd) (x' : Nat) (K' : Ctx) (res : Tree × Bool) (old : Tree) : Prop :=
  (∃ gp T1, Zip m' h'.root K' x' gp T1 ∧ T1.isRed = false ∧ m'.cl x' = black ∧ x' ≠ 0 ∧ res = (T1, true) ∧
      (∀ z, z ∈ T1.ids ↔ z ∈ old.ids)) ∨
  (∃ Kc top gp T1, Zip m' h'.root (Kc ++ K') top gp T1 ∧ top ≠ 0 ∧ x' = h'.root ∧ res = (plug Kc T1, false) ∧
      (∀ z, z ∈ (plug Kc T1).ids ↔ z ∈ old.ids)) ∨
  (∃ Kc gp T1, Zip m' h'.root (Kc ++ K') x' gp T1 ∧ x' ≠ 0 ∧ m'.cl x' = red ∧ res = (plug Kc T1.blacken, false) ∧
      (∀ z, z ∈ (plug Kc T1).ids ↔ z ∈ old.ids))

/-- the part of the step below the first `if`, in a context `Kc ++ K'` whose inner part `Kc` is
rebuilt unchanged on the way up -/
theorem fixDelCases_step {m : TM} {h : Hd} {Kc K' : Ctx} {a p x : Nat} {d : Bool} {c cw : Color} {pe we : Elem}
    {tx wn wf : Tree}
    (hz : Zip m h.root (mkFrame d c pe (mkNode d cw wn we wf) :: (Kc ++ K')) a p tx)
    (hx : XOk m (mkFrame d c pe (mkNode d cw wn we wf) :: (Kc ++ K')) p x)
    (hKc : Kc = [] ∨ c = red) {r : Tree × Bool} (hres : fixBD d c tx pe (mkNode d cw wn we wf) = some r) :
    ∃ m' h' x', fixDelCases m h x d (chR m d p) = some (m', h', x') ∧ h'.size = h.size ∧ m'.key = m.key ∧
      (∀ z, z ≠ 0 → z ∉ tx.ids → z ∉ ctxIds (mkFrame d c pe (mkNode d cw wn we wf) :: (Kc ++ K')) →
        Agree m m' z) ∧
      DelOut m' h' x' K' (plug Kc r.1, if Kc = [] then r.2 else false)
        (plug Kc (mkNode d c tx pe (mkNode d cw wn we wf))) := by
  cases hf : wf.isRed with
  | true =>
    obtain ⟨m', h', gp, f1, f2, f3, f4, f5⟩ := fixDelFar_spec hz hx hf
    rw [fixBD_far d c cw tx pe we wn wf hf, Option.some.injEq] at hres
    subst hres
    have htop := f4.focusD
    refine ⟨m', h', h'.root, by rw [fixDelCases_far hz hf, f1], f2, f3, f5, Or.inr (Or.inl ⟨Kc, _, _, _, f4, htop.2.1, rfl, ?_, ?_⟩)⟩
    · simp
    · intro z
      simp only [mem_plug_ids, mem_mkNode_ids, ids_blacken]
      grind
  | false =>
    cases hn : wn.isRed with
    | true =>
      cases wn with
      | nil => simp [Tree.isRed] at hn
      | node cn nl ne nr =>
      have hcn : cn = red := by cases cn <;> simp [Tree.isRed] at hn ⊢
      subst hcn
      obtain ⟨na, nb, hnn⟩ := node_as_mkNode d red nl nr ne
      rw [hnn] at hz hx hres ⊢
      obtain ⟨m', h', gp, f1, f2, f3, f4, f5⟩ := fixDelCases_near hz hx hf
      rw [fixBD_near d c cw tx pe we ne na nb wf hf, Option.some.injEq] at hres
      subst hres
      have htop := f4.focusD
      refine ⟨m', h', h'.root, f1, f2, f3, f5, Or.inr (Or.inl ⟨Kc, _, _, _, f4, htop.2.1, rfl, ?_, ?_⟩)⟩
      · simp
      · intro z
        simp only [mem_plug_ids, mem_mkNode_ids]
        grind
    | false =>
      obtain ⟨f1, f2, f3, f4⟩ := fixDelCases_black hz hx hn hf
      rw [fixBD_none d c cw tx pe we wn wf hn hf, Option.some.injEq] at hres
      subst hres
      have htop := f2.focusD
      obtain ⟨hp0, hpid, hpc, _, _, _⟩ := hz.frameD
      have hids : ∀ z, z ∈ (plug Kc (mkNode d c tx pe (mkNode d red wn we wf))).ids ↔
          z ∈ (plug Kc (mkNode d c tx pe (mkNode d cw wn we wf))).ids := by
        intro z; simp only [mem_plug_ids, mem_mkNode_ids]
      refine ⟨_, h, p, f1, rfl, rfl, ?_, ?_⟩
      · intro z _ _ hzk
        refine f3 z ?_
        intro e'
        apply hzk
        rw [mem_ctxIds_mkFrame]
        right; left; rw [e']; exact f4
      · cases c with
        | red =>
          refine Or.inr (Or.inr ⟨Kc, _, _, f2, hp0, htop.1, ?_, hids⟩)
          rw [blacken_mkNode]
          rcases hKc with rfl | _ <;> simp
        | black =>
          rcases hKc with rfl | hc
          · refine Or.inl ⟨_, _, f2, by rw [isRed_mkNode]; rfl, htop.1, hp0, by simp, ?_⟩
            intro z; simpa using hids z
          · cases hc

theorem DelOut.congr_old {m' : TM} {h' : Hd} {x' : Nat} {K' : Ctx} {res : Tree × Bool} {old old' : Tree}
    (h : DelOut m' h' x' K' res old) (hids : ∀ z, z ∈ old.ids ↔ z ∈ old'.ids) : DelOut m' h' x' K' res old' := by
  rcases h with ⟨gp, T1, a1, a2, a3, a4, a5, a6⟩ | ⟨Kc, top, gp, T1, a1, a2, a3, a4, a5⟩ | ⟨Kc, gp, T1, a1, a2, a3, a4, a5⟩
  · exact Or.inl ⟨gp, T1, a1, a2, a3, a4, a5, fun z => (a6 z).trans (hids z)⟩
  · exact Or.inr (Or.inl ⟨Kc, top, gp, T1, a1, a2, a3, a4, fun z => (a5 z).trans (hids z)⟩)
  · exact Or.inr (Or.inr ⟨Kc, gp, T1, a1, a2, a3, a4, fun z => (a5 z).trans (hids z)⟩)

/-- one call of `cstl_rbtree_fix_deletion` is one level of the functional `fixL` / `fixR` -/
theorem fixDeletion_step {m : TM} {h : Hd} {K' : Ctx} {a p x : Nat} {d : Bool} {c : Color} {pe : Elem}
    {tx w : Tree}
    (hz : Zip m h.root (mkFrame d c pe w :: K') a p tx) (hx : XOk m (mkFrame d c pe w :: K') p x)
    {r : Tree × Bool} (hres : fixD d c tx pe w = some r) :
    ∃ m' h' x', fixDeletion m h x d = some (m', h', x') ∧ h'.size = h.size ∧ m'.key = m.key ∧
      (∀ z, z ≠ 0 → z ∉ tx.ids → z ∉ ctxIds (mkFrame d c pe w :: K') → Agree m m' z) ∧
      DelOut m' h' x' K' r (mkNode d c tx pe w) := by
  cases w with
  | nil =>
    rw [fixD_notRed d c tx pe .nil rfl, fixBD_nil] at hres
    cases hres
  | node cw wl we wr =>
    obtain ⟨wn, wf, hw⟩ := node_as_mkNode d cw wl wr we
    rw [hw] at hz hx hres ⊢
    cases cw with
    | black =>
      rw [fixD_notRed d c tx pe _ (by rw [isRed_mkNode]; rfl)] at hres
      obtain ⟨m', h', x', f1, f2, f3, f4, f5⟩ := fixDelCases_step (Kc := []) hz hx (Or.inl rfl) hres
      refine ⟨m', h', x', ?_, f2, f3, f4, by simpa using f5⟩
      simp only [fixDeletion, fixDelSibling_black hz hx.pr, f1]
    | red =>
      obtain ⟨m1, h1, w1, s1, s2, s3, Z1, hx1, hw1, s4⟩ := fixDelSibling_red hz hx
      rw [fixD_red] at hres
      cases hr0 : fixBD d red tx pe wn with
      | none => rw [hr0] at hres; cases hres
      | some r0 =>
        rw [hr0, Option.map_some, Option.some.injEq] at hres
        cases wn with
        | nil => rw [fixBD_nil] at hr0; cases hr0
        | node cn nl ne nr =>
          obtain ⟨nn, nf, hnn⟩ := node_as_mkNode d cn nl nr ne
          rw [hnn] at Z1 hx1 hr0 s4 ⊢
          obtain ⟨m', h', x', f1, f2, f3, f4, f5⟩ := fixDelCases_step (Kc := [mkFrame d black we wf]) (K' := K')
            Z1 hx1 (Or.inr rfl) hr0
          refine ⟨m', h', x', ?_, by rw [f2, s2], by rw [f3, s3], ?_, ?_⟩
          · simp only [fixDeletion, s1, hw1, f1]
          · intro z hz0 hzt hzk
            refine (s4 z hz0 hzt hzk).trans (f4 z hz0 hzt ?_)
            simp only [List.singleton_append, mem_ctxIds_mkFrame, mem_mkNode_ids, not_or] at hzk ⊢
            obtain ⟨g1, ⟨g2, g3, g4⟩, g5⟩ := hzk
            exact ⟨g1, g3, g2, g4, g5⟩
          · rw [← hres]
            have : (if [mkFrame d black we wf] = [] then r0.2 else false) = false := by simp
            rw [this] at f5
            refine DelOut.congr_old (by simpa using f5) ?_
            intro z
            simp only [mem_mkNode_ids]
            grind
theorem delFixLoop_exit {m : TM} {h : Hd} {x : Nat} (sx fuel : Nat) (hx0 : x ≠ 0)
    (hc : ¬ (m.pr x ≠ 0 ∧ m.cl x = black)) : delFixLoop sx fuel m h x = some (m, h, x) := by
  cases fuel <;> simp only [delFixLoop, hx0, hc, if_false]

/-- the side test of the erase loop, including the clause for the stand-in -/
theorem del_dir_test {m : TM} {root a p x sx : Nat} {K' : Ctx} {d : Bool} {c : Color} {pe : Elem} {w tx : Tree}
    (hz : Zip m root (mkFrame d c pe w :: K') a p tx) (hw : w ≠ .nil)
    (hxa : (x = a ∧ a ≠ 0) ∨ (x = sx ∧ a = 0)) (hsxt : sx ∉ tx.ids) (hsxw : sx ∉ w.ids) (hsx0 : sx ≠ 0) :
    (decide (x = m.lf p) || (decide (x = sx) && decide (m.lf p = 0))) = d := by
  rcases hxa with ⟨rfl, ha0⟩ | ⟨rfl, ha0⟩
  · have h1 := hz.side_test ha0
    cases d
    · have : x ≠ sx := fun e' => hsxt (e' ▸ hz.sub.root_mem ha0)
      simp [h1, this]
    · simp [h1]
  · subst ha0
    obtain ⟨hp0, _, _, hpl, hsw, _⟩ := hz.frameD
    cases d
    · simp only [chL, chR, Bool.false_eq_true, if_false] at hpl hsw
      have hl0 : m.lf p ≠ 0 := fun e' => hw (hsw.zero_iff.mp e')
      have : x ≠ m.lf p := fun e' => hsxw (e' ▸ hsw.root_mem hl0)
      simp [this, hl0]
    · simp only [chL, if_true] at hpl
      simp [hpl, hsx0]

/-- the erase fix-up loop refines the way back up of the functional `del` -/
theorem delFixLoop_spec (sx : Nat) (hsx0 : sx ≠ 0) : ∀ (K : Ctx) (fuel : Nat) (m : TM) (h : Hd) (a p x : Nat)
    (tx T : Tree) (s : Bool),
    K.length ≤ fuel → Zip m h.root K a p tx → XOk m K p x → tx.isRed = false → m.cl x = black →
    ((x = a ∧ a ≠ 0) ∨ (x = sx ∧ a = 0)) → sx ∉ (plug K tx).ids →
    unwindD K (tx, true) = some (T, s) →
    ∃ m' h' x' T'', delFixLoop sx fuel m h x = some (m', h', x') ∧
      IsTree (setC m' x' black) h'.root 0 T'' ∧ (T'' = T.blacken ∨ (s = false ∧ T'' = T)) ∧
      h'.size = h.size ∧ m'.key = m.key ∧
      (∀ z, z ≠ 0 → z ≠ sx → z ∉ (plug K tx).ids → Agree m (setC m' x' black) z) := by
  intro K
  induction K with
  | nil =>
    intro fuel m h a p x tx T s _ hz hx htx hcx hxa hsx hun
    obtain ⟨hp, hr⟩ := hz.slot_nil
    simp only [unwindD, Option.some.injEq, Prod.mk.injEq] at hun
    obtain ⟨rfl, rfl⟩ := hun
    refine ⟨m, h, x, tx.blacken, delFixLoop_exit sx fuel hx.ne0 (by rw [hx.pr, hp]; simp), ?_, Or.inl rfl, rfl, rfl, ?_⟩
    · rcases hxa with ⟨rfl, ha0⟩ | ⟨rfl, ha0⟩
      · rw [← hr]; exact hz.isTree_nil.blacken_root
      · have : tx = .nil := hz.sub.zero_iff.mp ha0
        subst this
        refine ⟨?_, by simp [Tree.blacken]⟩
        simp [Tree.blacken, hr, ha0]
    · intro z _ hzs hzt
      refine Agree.setC black ?_
      rcases hxa with ⟨rfl, ha0⟩ | ⟨rfl, ha0⟩
      · intro e'; exact hzt (by simpa [e'] using hz.sub.root_mem ha0)
      · exact hzs
  | cons f K' ih =>
    intro fuel m h a p x tx T s hlen hz hx htx hcx hxa hsx hun
    obtain ⟨d, c, pe, w, rfl⟩ := frame_cases f
    obtain ⟨hp0, hpid, hpc, hpl, hsw, _⟩ := hz.frameD
    cases fuel with
    | zero => simp at hlen
    | succ fuel' =>
    simp only [List.length_cons] at hlen
    rw [unwindD_mkFrame] at hun
    cases hr : fixD d c tx pe w with
    | none => rw [hr] at hun; cases hun
    | some r =>
    rw [hr, Option.bind_some] at hun
    have hw : w ≠ .nil := by
      intro e'; subst e'
      rw [fixD_notRed d c tx pe .nil rfl, fixBD_nil] at hr
      cases hr
    rw [plug_mkFrame, mem_plug_ids, mem_mkNode_ids, not_or, not_or, not_or] at hsx
    have hdir := del_dir_test hz hw hxa hsx.1.2.1 hsx.1.2.2 hsx0
    obtain ⟨m1, h1, x1, s1, s2, s3, s4, s5⟩ := fixDeletion_step hz hx hr
    have hloop : delFixLoop sx (fuel' + 1) m h x = delFixLoop sx fuel' m1 h1 x1 := by
      simp only [delFixLoop, hx.ne0, if_false, hx.pr, hp0, hcx, ne_eq, not_false_eq_true, and_self, if_true,
        hdir, s1]
    have hframe1 : ∀ z, z ≠ 0 → z ∉ (plug (mkFrame d c pe w :: K') tx).ids → Agree m m1 z := by
      intro z hz0 hzt
      rw [mem_plug_ids, not_or] at hzt
      exact s4 z hz0 hzt.1 hzt.2
    have hplugids : ∀ z, z ∈ (plug (mkFrame d c pe w :: K') tx).ids ↔ z ∈ (mkNode d c tx pe w).ids ∨ z ∈ ctxIds K' := by
      intro z; rw [plug_mkFrame, mem_plug_ids]
    rcases s5 with ⟨gp, T1, Z1, t1, t2, t3, t4, t5⟩ | ⟨Kc, top, gp, T1, Z1, t1, t2, t3, t4⟩ |
      ⟨Kc, gp, T1, Z1, t1, t2, t3, t4⟩
    · -- the loop continues one level up
      subst t4
      have hx1 : XOk m1 K' gp x1 := by
        refine ⟨Z1.pr_focus t3, t3, ?_⟩
        intro hc'
        exact (List.nodup_append.mp Z1.nodup).2.2 x1 (Z1.sub.root_mem t3) x1 hc' rfl
      have hsx1 : sx ∉ (plug K' T1).ids := by
        rw [mem_plug_ids, t5, not_or, mem_mkNode_ids, not_or, not_or]
        exact hsx
      obtain ⟨m', h', x', T'', l1, l2, l3, l4, l5, l6⟩ := ih fuel' m1 h1 x1 gp x1 T1 T s (by omega) Z1 hx1 t1 t2
        (Or.inl ⟨rfl, t3⟩) hsx1 hun
      refine ⟨m', h', x', T'', by rw [hloop, l1], l2, l3, by rw [l4, s2], by rw [l5, s3], ?_⟩
      intro z hz0 hzs hzt
      refine (hframe1 z hz0 hzt).trans (l6 z hz0 hzs ?_)
      rw [mem_plug_ids, t5]
      exact fun hc' => hzt ((hplugids z).mpr hc')
    · -- the loop ends at the root
      subst t3
      rw [unwindD_false, Option.some.injEq, Prod.mk.injEq] at hun
      obtain ⟨rfl, rfl⟩ := hun
      have hT := Z1.isTree
      rw [plug_append] at hT
      have hroot0 : h1.root ≠ 0 := by
        intro e'
        have h2 := (hT.shape.zero_iff).mp e'
        have h3 : top ∈ (plug K' (plug Kc T1)).ids := by
          rw [← plug_append, mem_plug_ids]; exact Or.inl (Z1.sub.root_mem t1)
        rw [h2] at h3; simp at h3
      have hrootp : m1.pr h1.root = 0 := hT.shape.parent hroot0
      refine ⟨m1, h1, h1.root, (plug K' (plug Kc T1)).blacken, ?_, hT.blacken_root, Or.inl rfl, s2, s3, ?_⟩
      · rw [hloop, t2]; exact delFixLoop_exit sx fuel' hroot0 (by rw [hrootp]; simp)
      · intro z hz0 hzs hzt
        refine (hframe1 z hz0 hzt).trans (Agree.setC black ?_)
        intro e'
        have := hT.shape.root_mem hroot0
        rw [← e', mem_plug_ids, t4] at this
        exact hzt ((hplugids z).mpr this)
    · -- the loop ends at a red node, which is painted black
      subst t3
      rw [unwindD_false, Option.some.injEq, Prod.mk.injEq] at hun
      obtain ⟨rfl, rfl⟩ := hun
      cases T1 with
      | nil => exact absurd Z1.sub t1
      | node c1 l1 e1 r1 =>
      have Z2 := Z1.setC_root black
      have hT := Z2.isTree
      rw [plug_append] at hT
      refine ⟨m1, h1, x1, _, ?_, hT, Or.inr ⟨rfl, rfl⟩, s2, s3, ?_⟩
      · rw [hloop]; exact delFixLoop_exit sx fuel' t1 (by rw [t2]; simp)
      · intro z hz0 hzs hzt
        refine (hframe1 z hz0 hzt).trans (Agree.setC black ?_)
        intro e'
        have : x1 ∈ (plug Kc (Tree.node c1 l1 e1 r1)).ids := by
          rw [mem_plug_ids]; exact Or.inl (Z1.sub.root_mem t1)
        rw [← e', t4] at this
        exact hzt ((hplugids z).mpr (Or.inl this))
/-- a focused tree only depends on the fields of its nodes -/
theorem Zip.transfer {m m' : TM} {root a p : Nat} {K : Ctx} {t : Tree} (h : Zip m root K a p t)
    (hag : ∀ z, z ∈ t.ids ∨ z ∈ ctxIds K → Agree m m' z) : Zip m' root K a p t :=
  ⟨h.ctx.frame (fun z hz => hag z (Or.inr hz)), h.sub.frame (fun z hz => hag z (Or.inl hz)), h.nodup⟩

/-- the black-node block of `__cstl_rbtree_erase` after the node `n` has been unlinked: `n` is left
with the child that took its place (or none), and `n->p` is that child's parent -/
theorem rbEraseFix_spec {m : TM} {h : Hd} {K : Ctx} {a p n sx fuel : Nat} {tx T0 : Tree} {s : Bool}
    (hz : Zip m h.root K a p tx) (hsel : (m.lf n = a ∧ a ≠ 0) ∨ (m.lf n = 0 ∧ m.rt n = a)) (hpn : m.pr n = p)
    (hsx0 : sx ≠ 0) (hsx : sx ∉ (plug K tx).ids) (hfuel : K.length ≤ fuel)
    (hun : unwindD K (Cstl.Tree.removeOne black tx) = some (T0, s)) :
    ∃ m' h' T'', rbEraseFix m h n sx fuel = some (m', h') ∧ IsTree m' h'.root 0 T'' ∧
      (T'' = T0.blacken ∨ (s = false ∧ T'' = T0)) ∧ h'.size = h.size ∧ m'.key = m.key ∧
      (∀ z, z ≠ 0 → z ≠ sx → z ∉ (plug K tx).ids → Agree m m' z) := by
  have hsx' := hsx
  rw [mem_plug_ids, not_or] at hsx'
  by_cases ha0 : a = 0
  · -- no child: the stand-in
    subst ha0
    have htx : tx = .nil := hz.sub.zero_iff.mp rfl
    subst htx
    have hl : m.lf n = 0 := by rcases hsel with ⟨_, h0⟩ | ⟨h0, _⟩; exact absurd rfl h0; exact h0
    have hr : m.rt n = 0 := by rcases hsel with ⟨_, h0⟩ | ⟨_, h0⟩; exact absurd rfl h0; exact h0
    have hag : ∀ z, z ≠ sx → Agree m (setC (setP m sx p) sx black) z := fun z hz' =>
      (Agree.setP p hz').trans (Agree.setC black hz')
    have Z3 : Zip (setC (setP m sx p) sx black) h.root K 0 p .nil :=
      hz.transfer (fun z hz' => hag z (by
        rcases hz' with h' | h'
        · simp at h'
        · exact fun e' => hsx'.2 (e' ▸ h')))
    have hx3 : XOk (setC (setP m sx p) sx black) K p sx := ⟨by simp [upd_apply], hsx0, hsx'.2⟩
    simp only [Cstl.Tree.removeOne, Tree.isRed, Bool.false_eq_true, if_false] at hun
    obtain ⟨m', h', x', T'', l1, l2, l3, l4, l5, l6⟩ := delFixLoop_spec sx hsx0 K fuel _ h 0 p sx .nil T0 s hfuel Z3
      hx3 rfl (by simp [updC_apply]) (Or.inr ⟨rfl, rfl⟩) hsx hun
    refine ⟨setC m' x' black, h', T'', ?_, l2, l3, l4, by rw [setC_key, l5]; rfl, ?_⟩
    · simp only [rbEraseFix, hl, hr, ne_eq, not_true_eq_false, if_false, hpn, l1]
    · intro z hz0 hzs hzt
      exact (hag z hzs).trans (l6 z hz0 hzs hzt)
  · -- a child took the place of n
    have hxa : (if m.lf n ≠ 0 then (m, m.lf n) else if m.rt n ≠ 0 then (m, m.rt n)
        else (setC (setP m sx (m.pr n)) sx black, sx)) = (m, a) := by
      rcases hsel with ⟨h1, _⟩ | ⟨h1, h2⟩
      · simp [h1, ha0]
      · simp [h1, h2, ha0]
    have hcx := blackOrNull_iff hz.sub
    have hxk : a ∉ ctxIds K := fun hc' =>
      (List.nodup_append.mp hz.nodup).2.2 a (hz.sub.root_mem ha0) a hc' rfl
    cases hred : tx.isRed with
    | true =>
      -- a red child: the loop does not run, the child is painted black
      have hca : m.cl a = red := ((isRed_iff hz.sub).mp hred).2
      simp only [Cstl.Tree.removeOne, hred, if_true, unwindD_false, Option.some.injEq, Prod.mk.injEq] at hun
      obtain ⟨rfl, rfl⟩ := hun
      cases tx with
      | nil => simp [Tree.isRed] at hred
      | node c1 l1 e1 r1 =>
      have Z2 := hz.setC_root black
      refine ⟨setC m a black, h, _, ?_, Z2.isTree, Or.inr ⟨rfl, rfl⟩, rfl, rfl, ?_⟩
      · simp only [rbEraseFix, hxa, delFixLoop_exit sx fuel ha0 (by rw [hca]; simp)]
      · intro z _ _ hzt
        refine Agree.setC black ?_
        intro e'
        exact hzt (mem_plug_ids.mpr (Or.inl (e' ▸ hz.sub.root_mem ha0)))
    | false =>
      have hca : m.cl a = black := by
        rw [hred] at hcx
        simpa [blackOrNull, ha0] using hcx
      simp only [Cstl.Tree.removeOne, hred, Bool.false_eq_true, if_false] at hun
      have hx : XOk m K p a := ⟨hz.pr_focus ha0, ha0, hxk⟩
      obtain ⟨m', h', x', T'', l1, l2, l3, l4, l5, l6⟩ := delFixLoop_spec sx hsx0 K fuel m h a p a tx T0 s hfuel hz
        hx hred hca (Or.inl ⟨rfl, ha0⟩) hsx hun
      refine ⟨setC m' x' black, h', T'', ?_, l2, l3, l4, by rw [setC_key, l5], l6⟩
      simp only [rbEraseFix, hxa, l1]
theorem setC_self_agree (m : TM) (a z : Nat) : Agree m (setC m a (m.cl a)) z := by
  refine ⟨rfl, rfl, rfl, ?_, rfl⟩
  simp only [setC_cl, updC_apply]
  split
  · rename_i e; rw [e]
  · rfl

theorem onlyChild_ids_sub {l r : Tree} {z : Nat} (h : z ∈ (onlyChild l r).ids) : z ∈ l.ids ∨ z ∈ r.ids := by
  unfold onlyChild at h
  split at h
  · exact Or.inr h
  · exact Or.inl h

/-- `__cstl_rbtree_erase(t, n)`, `n` with at most one child -/
theorem rbEraseNode_one {m : TM} {h : Hd} {k : Ctx} {a p sx : Nat} {c : Color} {l r : Tree} {e : Elem}
    {T0 : Tree} {s : Bool}
    (hz : Zip m h.root k a p (.node c l e r)) (hone : l = .nil ∨ r = .nil) (hsx0 : sx ≠ 0)
    (hsx : sx ∉ (plug k (.node c l e r)).ids) (hfuel : k.length ≤ h.size + 1)
    (hun : unwindD k (Cstl.Tree.removeOne c (onlyChild l r)) = some (T0, s)) :
    ∃ m' h' T'', rbEraseNode m h a sx = some (m', h') ∧ IsTree m' h'.root 0 T'' ∧
      (T'' = T0.blacken ∨ (s = false ∧ T'' = T0)) ∧ h'.size = h.size - 1 ∧ m'.key = m.key ∧
      (∀ z, z ≠ 0 → z ≠ sx → z ∉ (plug k (.node c l e r)).ids → Agree m m' z) := by
  have hs := hz.sub
  simp only [Shape_node] at hs
  obtain ⟨ha0, he, hc, hpa, hsl, hsr⟩ := hs
  have heid : e.id = a := by simp [he]
  obtain ⟨m1, h1, x, b1, b2, b3, b4, b5, b6, b7⟩ := btEraseNode_one hz hone
  have hn := hz.nodup
  simp only [Cstl.Tree.ids_node, heid] at hn
  have hn1 := (List.nodup_append.mp hn).1
  have hal : a ∉ l.ids := fun hc' => (List.nodup_append.mp hn1).2.2 a hc' a (by simp) rfl
  have har : a ∉ r.ids := (List.nodup_cons.mp (List.nodup_append.mp hn1).2.1).1
  have hak : a ∉ ctxIds k := fun hc' => (List.nodup_append.mp hn).2.2 a (by simp) a hc' rfl
  have hax : a ≠ x := by
    intro e'
    by_cases h0 : x = 0
    · exact ha0 (e'.trans h0)
    · have := b3.sub.root_mem h0
      rw [← e'] at this
      rcases onlyChild_ids_sub this with h' | h'
      · exact hal h'
      · exact har h'
  have hap : a ≠ p := by
    intro e'
    have := hz.ctx.parent_mem (by rw [← e']; exact ha0)
    exact hak (e' ▸ this)
  have haga : Agree m m1 a := b7 a hax hap
  have hc1 : m1.cl a = c := by rw [b5]; exact hc
  -- the colour assignment `*BN_COLOR(y) = n->c` with y = n changes nothing
  have Z2 : Zip (setC m1 a (m1.cl a)) h1.root k x p (onlyChild l r) :=
    b3.transfer (fun z _ => setC_self_agree m1 a z)
  have hplug : ∀ z, z ∈ (plug k (onlyChild l r)).ids → z ∈ (plug k (Tree.node c l e r)).ids := by
    intro z hz'
    rw [mem_plug_ids] at hz' ⊢
    rcases hz' with h' | h'
    · left
      simp only [Cstl.Tree.ids_node, List.mem_append, List.mem_cons]
      rcases onlyChild_ids_sub h' with h'' | h''
      · exact Or.inl h''
      · exact Or.inr (Or.inr h'')
    · exact Or.inr h'
  have hframe1 : ∀ z, z ≠ 0 → z ∉ (plug k (Tree.node c l e r)).ids → Agree m (setC m1 a (m1.cl a)) z := by
    intro z hz0 hzt
    refine (b7 z ?_ ?_).trans (setC_self_agree m1 a z)
    · intro e'
      by_cases h0 : x = 0
      · exact hz0 (e'.trans h0)
      · exact hzt (hplug z (mem_plug_ids.mpr (Or.inl (e' ▸ b3.sub.root_mem h0))))
    · intro e'
      have := hz.ctx.parent_mem (by rw [← e']; exact hz0)
      exact hzt (mem_plug_ids.mpr (Or.inr (e' ▸ this)))
  cases c with
  | red =>
    simp only [Cstl.Tree.removeOne, unwindD_false, Option.some.injEq, Prod.mk.injEq] at hun
    obtain ⟨rfl, rfl⟩ := hun
    refine ⟨_, h1, _, ?_, Z2.isTree, Or.inr ⟨rfl, rfl⟩, b4, by rw [setC_key, b6], fun z hz0 _ hzt => hframe1 z hz0 hzt⟩
    simp only [rbEraseNode, b1, hc1]
    simp
  | black =>
    have hsel : ((setC m1 a (m1.cl a)).lf a = x ∧ x ≠ 0) ∨ ((setC m1 a (m1.cl a)).lf a = 0 ∧ (setC m1 a (m1.cl a)).rt a = x) := by
      simp only [setC_lf, setC_rt, haga.2.1, haga.2.2.1]
      by_cases h0 : m.lf a = 0
      · right; simp [b2, h0]
      · left; simp [b2, h0]
    obtain ⟨m', h', T'', f1, f2, f3, f4, f5, f6⟩ := rbEraseFix_spec (n := a) (fuel := h.size + 1) Z2 hsel
      (by simp [haga.1, hpa]) hsx0 (fun hc' => hsx (hplug sx hc')) hfuel hun
    refine ⟨m', h', T'', ?_, f2, f3, by rw [f4, b4], by rw [f5, setC_key, b6], ?_⟩
    · rw [hc1] at f1
      simp only [rbEraseNode, b1, hc1, if_true]
      exact f1
    · intro z hz0 hzs hzt
      exact (hframe1 z hz0 hzt).trans (f6 z hz0 hzs (fun hc' => hzt (hplug z hc')))

theorem minSub_ids {r ry : Tree} {cy : Color} {ye : Elem} (hm : minSub r = .node cy .nil ye ry) (z : Nat) :
    z ∈ r.ids ↔ z = ye.id ∨ z ∈ (plug (spine r) ry).ids := by
  have h1 : z ∈ (plug (spine r) (minSub r)).ids ↔ z ∈ r.ids := by rw [plug_spine]
  rw [← h1, hm, mem_plug_ids, mem_plug_ids]
  simp only [Cstl.Tree.ids_node, Cstl.Tree.ids_nil, List.nil_append, List.mem_cons]
  grind

theorem ctxParent_append_R (s k : Ctx) (c1 c2 : Color) (l : Tree) (e : Elem) :
    ctxParent (s ++ .R c1 l e :: k) = ctxParent (s ++ .R c2 l e :: k) := by
  cases s with
  | nil => rfl
  | cons f s => cases f <;> rfl

/-- `__cstl_rbtree_erase(t, n)`, `n` with two children -/
theorem rbEraseNode_two {m : TM} {h : Hd} {k : Ctx} {a p sx : Nat} {c cy : Color} {l r ry : Tree} {e ye : Elem}
    {T0 : Tree} {s : Bool}
    (hz : Zip m h.root k a p (.node c l e r)) (hl : l ≠ .nil) (hr : r ≠ .nil)
    (hm : minSub r = .node cy .nil ye ry) (hsx0 : sx ≠ 0)
    (hsx : sx ∉ (plug k (.node c l e r)).ids) (hfuel1 : r.height ≤ h.size + 1)
    (hfuel : (spine r ++ .R c l ye :: k).length ≤ h.size + 1)
    (hun : unwindD (spine r ++ .R c l ye :: k) (Cstl.Tree.removeOne cy ry) = some (T0, s)) :
    ∃ m' h' T'', rbEraseNode m h a sx = some (m', h') ∧ IsTree m' h'.root 0 T'' ∧
      (T'' = T0.blacken ∨ (s = false ∧ T'' = T0)) ∧ h'.size = h.size - 1 ∧ m'.key = m.key ∧
      (∀ z, z ≠ 0 → z ≠ sx → z ∉ (plug k (.node c l e r)).ids → Agree m m' z) := by
  have hs := hz.sub
  simp only [Shape_node] at hs
  obtain ⟨ha0, he, hc, hpa, hsl, hsr⟩ := hs
  have heid : e.id = a := by simp [he]
  obtain ⟨m1, h1, b1, yne, Z1, b4, b5, b6, b7, b8, b9, b10, hsry⟩ := btEraseNode_two hz hl hr hm hfuel1
  have hcy1 : m1.cl ye.id = cy := by have := Z1.sub; simp only [Shape_node] at this; exact this.2.2.1
  have hca1 : m1.cl a = c := by rw [b5]; exact hc
  have Z2 := Z1.setC_root c
  have hplug : ∀ z, z ∈ (plug k (Tree.node c l ye (plug (spine r) ry))).ids → z ∈ (plug k (Tree.node c l e r)).ids := by
    intro z hz'
    rw [mem_plug_ids] at hz' ⊢
    rcases hz' with h' | h'
    · left
      simp only [Cstl.Tree.ids_node, List.mem_append, List.mem_cons] at h' ⊢
      rcases h' with h'' | h'' | h''
      · exact Or.inl h''
      · exact Or.inr (Or.inr ((minSub_ids hm z).mpr (Or.inl h'')))
      · exact Or.inr (Or.inr ((minSub_ids hm z).mpr (Or.inr h'')))
    · exact Or.inr h'
  have hyin : ye.id ∈ (plug k (Tree.node c l e r)).ids := by
    rw [mem_plug_ids]; left
    simp only [Cstl.Tree.ids_node, List.mem_append, List.mem_cons]
    exact Or.inr (Or.inr ((minSub_ids hm _).mpr (Or.inl rfl)))
  have hframe2 : ∀ z, z ≠ 0 → z ∉ (plug k (Tree.node c l e r)).ids → Agree m (setC m1 ye.id c) z := by
    intro z hz0 hzt
    refine (b10 z hz0 (fun hc' => hzt (mem_plug_ids.mpr (Or.inl hc'))) ?_).trans (Agree.setC c ?_)
    · intro e'
      have := hz.ctx.parent_mem (by rw [← e']; exact hz0)
      exact hzt (mem_plug_ids.mpr (Or.inr (e' ▸ this)))
    · intro e'; exact hzt (e' ▸ hyin)
  have hTeq : plug (spine r ++ Frame.R c l ye :: k) ry = plug k (Tree.node c l ye (plug (spine r) ry)) := by
    rw [plug_append]; rfl
  cases cy with
  | red =>
    simp only [Cstl.Tree.removeOne, unwindD_false, Option.some.injEq, Prod.mk.injEq] at hun
    obtain ⟨rfl, rfl⟩ := hun
    refine ⟨_, h1, _, ?_, Z2.isTree, Or.inr ⟨rfl, hTeq.symm⟩, b4, by rw [setC_key, b6],
      fun z hz0 _ hzt => hframe2 z hz0 hzt⟩
    simp only [rbEraseNode, b1, hcy1, hca1]
    simp
  | black =>
    obtain ⟨a', p', Z3⟩ := Zip.unplug (spine r) Z2.downR
    have ha' : a' = m.rt ye.id := Shape.root_eq Z3.sub hsry
    have hp' : p' = m1.pr a := by
      rw [Z3.ctx.parent_eq, b9]; exact ctxParent_append_R _ _ _ _ _ _
    have hsel : ((setC m1 ye.id c).lf a = a' ∧ a' ≠ 0) ∨ ((setC m1 ye.id c).lf a = 0 ∧ (setC m1 ye.id c).rt a = a') := by
      right; simp [b7, b8, ha']
    obtain ⟨m', h', T'', f1, f2, f3, f4, f5, f6⟩ := rbEraseFix_spec (n := a) (fuel := h.size + 1) Z3 hsel
      (by simp [hp']) hsx0 (fun hc' => hsx (hplug sx (hTeq ▸ hc'))) hfuel hun
    refine ⟨m', h', T'', ?_, f2, f3, by rw [f4, b4], by rw [f5, setC_key, b6], ?_⟩
    · simp only [rbEraseNode, b1, hcy1, hca1, if_true]
      exact f1
    · intro z hz0 hzs hzt
      exact (hframe2 z hz0 hzt).trans (f6 z hz0 hzs (fun hc' => hzt (hplug z (hTeq ▸ hc'))))
theorem spine_length_lt {r : Tree} (hr : r ≠ .nil) : (spine r).length + 1 ≤ r.size := by
  have h1 := length_add_size_le_plug (spine r) (minSub r)
  rw [plug_spine] at h1
  obtain ⟨cy, ye, ry, hm⟩ := minSub_form hr
  rw [hm] at h1
  simp only [Tree.size] at h1
  omega

/-- `cstl_rbtree_erase` refines `rbErase` on every tree whose functional result has a black root
(in particular on every tree that satisfies the red-black rules, `rbErase_inv`) -/
theorem rbErase_refines {m : TM} {h : Hd} {t T : Tree} {res : Option Elem} (key : Int) (sx : Nat)
    (ht : IsTree m h.root 0 t) (hsz : h.size = t.size) (hsx0 : sx ≠ 0) (hsxt : sx ∉ t.ids)
    (hf : Cstl.Tree.rbErase key t = some (T, res)) (hrb : T.blacken = T) :
    ∃ m' h', rbErase m h key sx = some (m', h', idOpt res) ∧ IsTree m' h'.root 0 T ∧ h'.size = T.size ∧
      m'.key = m.key ∧ (∀ z, z ≠ 0 → z ≠ sx → z ∉ t.ids → Agree m m' z) := by
  have hfind := btFind_spec key ht hsz
  cases hfe : (Cstl.Tree.find key t).1 with
  | none =>
    simp only [Cstl.Tree.rbErase, hfe, Option.some.injEq, Prod.mk.injEq] at hf
    obtain ⟨rfl, rfl⟩ := hf
    exact ⟨m, h, by simp [rbErase, hfind, hfe], ht, hsz, rfl, fun z _ _ _ => Agree.rfl' m z⟩
  | some e =>
    have hsome := hf
    obtain ⟨k, c, l, r, htk, hpath, hkey⟩ := find_decomp (q := none) hfe
    subst htk
    obtain ⟨a, p, hz⟩ := Zip.of_plug ht
    have ha : e.id = a := hz.sub.id_eq
    have ha0 : a ≠ 0 := by have := hz.sub; simp only [Shape_node] at this; exact this.1
    have hdel : Cstl.Tree.del key (plug k (.node c l e r)) = (Cstl.Tree.delRoot c l e r).bind (unwindD k) := by
      rw [del_plug k _ hpath]; simp [Cstl.Tree.del, hkey]
    simp only [Cstl.Tree.rbErase, hfe, hdel] at hf
    have hszk := length_add_size_le_plug k (.node c l e r)
    simp only [Tree.size] at hszk
    -- both cases end with the same bookkeeping
    have finish : ∀ {T0 : Tree} {s : Bool},
        (Cstl.Tree.delRoot c l e r).bind (unwindD k) = some (T0, s) →
        (∃ m' h' T'', rbEraseNode m h a sx = some (m', h') ∧ IsTree m' h'.root 0 T'' ∧
          (T'' = T0.blacken ∨ (s = false ∧ T'' = T0)) ∧ h'.size = h.size - 1 ∧ m'.key = m.key ∧
          (∀ z, z ≠ 0 → z ≠ sx → z ∉ (plug k (.node c l e r)).ids → Agree m m' z)) →
        ∃ m' h', rbErase m h key sx = some (m', h', idOpt res) ∧ IsTree m' h'.root 0 T ∧ h'.size = T.size ∧
          m'.key = m.key ∧ (∀ z, z ≠ 0 → z ≠ sx → z ∉ (plug k (.node c l e r)).ids → Agree m m' z) := by
      intro T0 s hd ⟨m', h', T'', g1, g2, g3, g4, g5, g6⟩
      rw [hd] at hf
      simp only [Option.some.injEq, Prod.mk.injEq] at hf
      obtain ⟨hT, hres⟩ := hf
      subst hres
      have hTT : T'' = T := by
        cases s with
        | true =>
          simp only [if_true] at hT
          rcases g3 with g | ⟨g, _⟩
          · rw [g, hT]
          · cases g
        | false =>
          simp only [Bool.false_eq_true, if_false] at hT
          rcases g3 with g | ⟨_, g⟩
          · rw [g, hT, hrb]
          · rw [g, hT]
      subst hTT
      have hs2 := (Cstl.Tree.rbErase_some hsome).2.2.2.2
      refine ⟨m', h', ?_, g2, by omega, g5, g6⟩
      simp only [rbErase, hfind, hfe, idOpt_some, ha, ha0, if_false, g1]
    by_cases hone : l = .nil ∨ r = .nil
    · rw [delRoot_one c l r e hone, Option.bind_some] at hf
      cases hun : unwindD k (Cstl.Tree.removeOne c (onlyChild l r)) with
      | none => rw [hun] at hf; cases hf
      | some r0 =>
        obtain ⟨T0, s⟩ := r0
        refine finish (by rw [delRoot_one c l r e hone, Option.bind_some, hun]) ?_
        exact rbEraseNode_one hz hone hsx0 hsxt (by omega) hun
    · have hl : l ≠ .nil := fun e' => hone (Or.inl e')
      have hr : r ≠ .nil := fun e' => hone (Or.inr e')
      obtain ⟨cy, ye, ry, hm⟩ := minSub_form hr
      have hd2 : (Cstl.Tree.delRoot c l e r).bind (unwindD k) =
          unwindD (spine r ++ .R c l ye :: k) (Cstl.Tree.removeOne cy ry) := by
        rw [delRoot_two c e hl hr hm]
        have : spine r ++ Frame.R c l ye :: k = (spine r ++ [Frame.R c l ye]) ++ k := by simp
        rw [this, unwindD_append (spine r ++ [Frame.R c l ye]) k]
      cases hun : unwindD (spine r ++ .R c l ye :: k) (Cstl.Tree.removeOne cy ry) with
      | none => rw [hd2, hun] at hf; cases hf
      | some r0 =>
        obtain ⟨T0, s⟩ := r0
        refine finish (by rw [hd2, hun]) ?_
        have h1 := height_le_size r
        have h2 := spine_length_lt hr
        refine rbEraseNode_two hz hl hr hm hsx0 hsxt (by omega) ?_ hun
        simp only [List.length_append, List.length_cons]
        omega
end Cstl.TreeL
