import Cstl.Gen.TreeLC3
import Cstl.TreeL.Model
import Cstl.TreeL.Lemmas
import Cstl.Tree.Events
/-
Translator tie, part 3, for src/bintree.c: the entry points around the traversal.

`Cstl/Gen/TreeLC3.lean` is regenerated from /repo's current src/bintree.c by tools/c2lean_tree2.py on every
check run (tools/areas/hashtree_tie.py); the fixed theorems below are re-checked by the kernel against the
regenerated definitions.

  __cstl_bintree_foreach       re-proved against this module (as `foreach_refines` in Tie2.lean): = the functional
                               `Cstl.Tree.walk` on every memory that represents a tree, for the logging callback
  cstl_bintree_foreach_visit   hands node and order on to the client function (`foreachVisit_tie`)
  cstl_bintree_foreach         `foreachEntry_tie`: nothing for an empty tree; FWD = the recursion with the selector
                               pair (left, right), REV = with (right, left), any other value: no visit, result 0;
                               `foreachEntry_refines`: = `Cstl.Tree.foreach fwd visit t`
  __cstl_bintree_foreach for callbacks that keep the links and never stop (`foreach_quiet`): the fold of the
                               callback over `Cstl.Tree.events`
  __cstl_bintree_clear_visit   fires the client function exactly on POST and LEAF (`clearVisit_tie`)
  cstl_bintree_clear           `clear_tie`: the client function gets `Cstl.Tree.clearOrder t` (the list
                               `Tree.clear_spec` is about), the links are not written, the header is `clearHd`
  __cstl_bintree_height        on a LEAF visit: the number of nodes up to the root through the parent links,
                               folded into min / max (`heightVisit_leaf`, `upLoop_tie`)
  cstl_bintree_height          `height_tie`: (min, max) = (`Tree.minLeaf t`, `Tree.height t`)
  cstl_bintree_swap            `swap_tie`: the two headers trade places (so do the trees they root)
  __cstl_bintree_prev          `prev_mirror`: prev on `m` is next on the mirrored memory (l and r exchanged);
                               `prev_tie`: under `bn->l != NULL` the rightmost node of the left subtree
-/
namespace Cstl.TreeL.Tie3
open Cstl.TreeL Cstl.Gen.TreeLC3
open Cstl.Tree (Color Elem Tree Ord Ev WSt walk doVisit events clearOrder)
open Cstl.Tree.Color Cstl.Tree.Tree

/-! ### __cstl_bintree_foreach (recursion; tied to the functional traversal `Cstl.Tree.walk`) -/

/-- the numbers of `cstl_bintree_visit_order_t` -/
def ordOf : Nat → Ord
  | 0 => .pre
  | 1 => .mid
  | 2 => .post
  | _ => .leaf

/-- the callback of the translated traversal that stands for a functional visit function: it logs the
visit, leaves the link memory alone and answers what `visit` answers -/
def visitL (visit : Nat → Elem → Ord → Int) (log : List Ev) (m : TM) (a o : Nat) : List Ev × TM × Int :=
  (log ++ [(elemAt m a, ordOf o)], m, visit log.length (elemAt m a) (ordOf o))

theorem walk_done (fwd : Bool) (visit : Nat → Elem → Ord → Int) (t : Tree) (r : Int) (log : List Ev) (hr : r ≠ 0) :
    walk fwd visit t (r, log) = (r, log) := by
  rw [Cstl.Tree.walk_eq_runVisits]; exact Cstl.Tree.runVisits_done visit _ log hr

theorem shape_isNil {m : TM} {a p : Nat} {t : Tree} (h : Shape m a p t) : t.isNil = true ↔ a = 0 := by
  cases t with
  | nil => simpa [Tree.isNil] using h
  | node c l e r => simp only [Shape_node] at h; simp [Tree.isNil, h.1]

/-- one `if (res == 0 && child != NULL) res = __cstl_bintree_foreach(child, …)` step -/
theorem childStep (visit : Nat → Elem → Ord → Int) (d : Bool) (m : TM) (fuel ac a : Nat) (tc : Tree)
    (hS : Shape m ac a tc) (hh : tc.height ≤ fuel)
    (ih : ∀ log, ac ≠ 0 → c_priv_cstl_bintree_foreach (visitL visit) fuel log m ac d =
        some ((walk d visit tc (0, log)).2, m, (walk d visit tc (0, log)).1))
    (res : Int) (log : List Ev) :
    (if res = 0 ∧ ¬ac = 0 then c_priv_cstl_bintree_foreach (visitL visit) fuel log m ac d
      else some (log, m, res)) =
      some ((walk d visit tc (res, log)).2, m, (walk d visit tc (res, log)).1) := by
  by_cases hr : res = 0
  · subst hr
    by_cases ha : ac = 0
    · have : tc = .nil := by
        cases tc with
        | nil => rfl
        | node c l e r => simp only [Shape_node] at hS; exact absurd ha hS.1
      subst this
      simp [ha, walk]
    · simp only [ha, not_false_eq_true, and_self, if_true]
      rw [ih log ha]
  · simp only [hr, false_and, if_false]
    rw [walk_done d visit tc res log hr]


theorem foreach_refines (visit : Nat → Elem → Ord → Int) (d : Bool) (m : TM) (t : Tree) :
    ∀ (a p : Nat) (log : List Ev) (fuel : Nat), Shape m a p t → a ≠ 0 → t.height ≤ fuel →
      c_priv_cstl_bintree_foreach (visitL visit) fuel log m a d =
        some ((walk d visit t (0, log)).2, m, (walk d visit t (0, log)).1) := by
  induction t with
  | nil => intro a p log fuel hS ha; exact absurd (by simpa using hS) ha
  | node c l e r ihl ihr =>
    intro a p log fuel hS ha hh
    cases fuel with
    | zero => simp [Tree.height] at hh
    | succ f =>
      simp only [Shape_node] at hS
      obtain ⟨_, he, _, _, hl, hr⟩ := hS
      simp only [Tree.height] at hh
      have hhl : l.height ≤ f := by omega
      have hhr : r.height ≤ f := by omega
      have nl := shape_isNil hl
      have nr := shape_isNil hr
      subst he
      cases d
      · -- reverse: `l` = right, `r` = left
        have cl := childStep visit false m f (m.rt a) a r hr hhr (fun log h0 => ihr _ _ log f hr h0 hhr)
        have cr := childStep visit false m f (m.lf a) a l hl hhl (fun log h0 => ihl _ _ log f hl h0 hhl)
        unfold c_priv_cstl_bintree_foreach
        simp only [chL, chR, Bool.false_eq_true, if_false]
        by_cases hA : m.rt a = 0 ∧ m.lf a = 0
        · have e1 : r = .nil := by cases r <;> simp_all [Tree.isNil]
          have e2 : l = .nil := by cases l <;> simp_all [Tree.isNil]
          subst e1 e2
          simp [hA.1, hA.2, visitL, ordOf, walk, doVisit, Tree.isNil]
        · have hleaf : (l.isNil && r.isNil) = false := by
            cases hb : (l.isNil && r.isNil) with
            | false => rfl
            | true => simp only [Bool.and_eq_true] at hb; exact absurd ⟨nr.1 hb.2, nl.1 hb.1⟩ hA
          simp only [if_neg hA, true_and, if_true, ne_eq, not_true_eq_false, if_false, visitL]
          rw [cl]
          simp only [ite_self]
          rw [cr]
          simp only [and_true]
          simp only [walk, hleaf, Bool.false_eq_true, if_false, ordOf]
          have hpre : doVisit visit (elemAt m a) .pre (0, log) =
              (visit log.length (elemAt m a) .pre, log ++ [(elemAt m a, .pre)]) := by simp [doVisit]
          rw [hpre]
          generalize walk false visit r (visit log.length (elemAt m a) .pre, log ++ [(elemAt m a, .pre)]) = s2
          obtain ⟨r2, l2⟩ := s2
          have hmid : (if r2 = 0 then visit l2.length (elemAt m a) .mid else r2,
              if r2 = 0 then l2 ++ [(elemAt m a, Ord.mid)] else l2) = doVisit visit (elemAt m a) .mid (r2, l2) := by
            by_cases h0 : r2 = 0 <;> simp [doVisit, h0]
          simp only [hmid]
          generalize walk false visit l (doVisit visit (elemAt m a) .mid (r2, l2)) = s4
          obtain ⟨r4, l4⟩ := s4
          by_cases h0 : r4 = 0 <;> simp [doVisit, h0]
      · -- forward
        have cl := childStep visit true m f (m.lf a) a l hl hhl (fun log h0 => ihl _ _ log f hl h0 hhl)
        have cr := childStep visit true m f (m.rt a) a r hr hhr (fun log h0 => ihr _ _ log f hr h0 hhr)
        unfold c_priv_cstl_bintree_foreach
        simp only [chL, chR, if_true]
        by_cases hA : m.lf a = 0 ∧ m.rt a = 0
        · have e1 : r = .nil := by cases r <;> simp_all [Tree.isNil]
          have e2 : l = .nil := by cases l <;> simp_all [Tree.isNil]
          subst e1 e2
          simp [hA.1, hA.2, visitL, ordOf, walk, doVisit, Tree.isNil]
        · have hleaf : (l.isNil && r.isNil) = false := by
            cases hb : (l.isNil && r.isNil) with
            | false => rfl
            | true => simp only [Bool.and_eq_true] at hb; exact absurd ⟨nl.1 hb.1, nr.1 hb.2⟩ hA
          simp only [if_neg hA, true_and, if_true, ne_eq, not_true_eq_false, if_false, visitL]
          rw [cl]
          simp only [ite_self]
          rw [cr]
          simp only [and_true]
          simp only [walk, hleaf, Bool.false_eq_true, if_false, if_true, ordOf]
          have hpre : doVisit visit (elemAt m a) .pre (0, log) =
              (visit log.length (elemAt m a) .pre, log ++ [(elemAt m a, .pre)]) := by simp [doVisit]
          rw [hpre]
          generalize walk true visit l (visit log.length (elemAt m a) .pre, log ++ [(elemAt m a, .pre)]) = s2
          obtain ⟨r2, l2⟩ := s2
          have hmid : (if r2 = 0 then visit l2.length (elemAt m a) .mid else r2,
              if r2 = 0 then l2 ++ [(elemAt m a, Ord.mid)] else l2) = doVisit visit (elemAt m a) .mid (r2, l2) := by
            by_cases h0 : r2 = 0 <;> simp [doVisit, h0]
          simp only [hmid]
          generalize walk true visit r (doVisit visit (elemAt m a) .mid (r2, l2)) = s4
          obtain ⟨r4, l4⟩ := s4
          by_cases h0 : r4 = 0 <;> simp [doVisit, h0]


/-- `cstl_bintree_foreach` on a memory that represents the tree `t`: the recursion started at the root
(`bt->root != NULL`) with fuel `t.height` makes exactly the visits of the functional `foreach` -/
theorem foreach_root_refines (visit : Nat → Elem → Ord → Int) (fwd : Bool) (m : TM) (h : Hd) (t : Tree)
    (ht : IsTree m h.root 0 t) (hroot : h.root ≠ 0) :
    c_priv_cstl_bintree_foreach (visitL visit) t.height [] m h.root fwd =
      some ((Cstl.Tree.foreach fwd visit t).2, m, (Cstl.Tree.foreach fwd visit t).1) :=
  foreach_refines visit fwd m t h.root 0 [] t.height ht.shape hroot (Nat.le_refl _)

/-! ### cstl_bintree_foreach: the visit wrapper and the `switch (dir)` -/

/-- `cstl_bintree_foreach_visit`: node (= element, offset 0) and order go to the client function unchanged -/
theorem foreachVisit_tie {σ : Type} (visit : σ → TM → Nat → Nat → σ × TM × Int) :
    c_cstl_bintree_foreach_visit visit = visit := rfl

/-- `cstl_bintree_foreach(bt, visit, priv, dir)`: an empty tree is not visited; `FWD` runs the recursion with
the selector pair (left, right), `REV` with (right, left); any other `dir`: no visit, result 0 -/
theorem foreachEntry_tie {σ : Type} (visit : σ → TM → Nat → Nat → σ × TM × Int) (f1 f2 : Nat) (st : σ) (m : TM)
    (bt : Hd) (dir : Nat) :
    c_cstl_bintree_foreach visit f1 f2 st m bt dir =
      if bt.root = 0 then some (st, m, 0)
      else if dir = cstl_bintree_foreach_dir_fwd then c_priv_cstl_bintree_foreach visit f1 st m bt.root true
      else if dir = cstl_bintree_foreach_dir_rev then c_priv_cstl_bintree_foreach visit f2 st m bt.root false
      else some (st, m, 0) := by
  unfold c_cstl_bintree_foreach
  rw [foreachVisit_tie]
  by_cases hr : bt.root = 0
  · simp [hr]
  · rcases dir with _ | _ | n
    · simp only [ne_eq, hr, not_false_eq_true, if_true, if_false, cstl_bintree_foreach_dir_fwd]
      cases c_priv_cstl_bintree_foreach visit f1 st m bt.root true <;> rfl
    · simp only [ne_eq, hr, not_false_eq_true, if_true, if_false, cstl_bintree_foreach_dir_fwd,
        cstl_bintree_foreach_dir_rev, Nat.succ_ne_self]
      cases c_priv_cstl_bintree_foreach visit f2 st m bt.root false <;> rfl
    · simp [hr, cstl_bintree_foreach_dir_fwd, cstl_bintree_foreach_dir_rev]

/-- the number of a direction -/
def dirOf (fwd : Bool) : Nat := if fwd then cstl_bintree_foreach_dir_fwd else cstl_bintree_foreach_dir_rev

/-- `cstl_bintree_foreach` on a memory that represents the tree `t` (empty or not), in either direction:
exactly the visits and the result of the functional `Cstl.Tree.foreach` -/
theorem foreachEntry_refines (visit : Nat → Elem → Ord → Int) (fwd : Bool) (m : TM) (h : Hd) (t : Tree)
    (ht : IsTree m h.root 0 t) :
    c_cstl_bintree_foreach (visitL visit) t.height t.height [] m h (dirOf fwd) =
      some ((Cstl.Tree.foreach fwd visit t).2, m, (Cstl.Tree.foreach fwd visit t).1) := by
  rw [foreachEntry_tie]
  by_cases hr : h.root = 0
  · have : t = .nil := (ht.shape.zero_iff).1 hr
    subst this
    simp [hr, Cstl.Tree.foreach, walk]
  · rw [if_neg hr]
    cases fwd
    · simp only [dirOf, Bool.false_eq_true, if_false, cstl_bintree_foreach_dir_fwd, cstl_bintree_foreach_dir_rev,
        Nat.succ_ne_self, if_true]
      exact foreach_root_refines visit false m h t ht hr
    · simp only [dirOf, if_true]
      exact foreach_root_refines visit true m h t ht hr

/-! ### the traversal for callbacks that keep the links and never stop -/

/-- the number of a visit order (inverse of `ordOf`) -/
def ordCode : Ord → Nat
  | .pre => 0
  | .mid => 1
  | .post => 2
  | .leaf => 3

/-- a callback that leaves the link memory `m` alone and never stops the traversal -/
def Quiet {σ : Type} (v : σ → TM → Nat → Nat → σ × TM × Int) (m : TM) : Prop :=
  ∀ st a o, (v st m a o).2.1 = m ∧ (v st m a o).2.2 = 0

/-- the client state after the listed visits -/
def foldEv {σ : Type} (v : σ → TM → Nat → Nat → σ × TM × Int) (m : TM) (st : σ) (evs : List Ev) : σ :=
  evs.foldl (fun st ev => (v st m ev.1.id (ordCode ev.2)).1) st

theorem foldEv_append {σ : Type} (v : σ → TM → Nat → Nat → σ × TM × Int) (m : TM) (st : σ) (a b : List Ev) :
    foldEv v m st (a ++ b) = foldEv v m (foldEv v m st a) b := by simp [foldEv, List.foldl_append]

theorem childQ {σ : Type} (v : σ → TM → Nat → Nat → σ × TM × Int) (d : Bool) (m : TM) (fuel ac a : Nat) (tc : Tree)
    (hS : Shape m ac a tc)
    (ih : ∀ st, ac ≠ 0 → c_priv_cstl_bintree_foreach v fuel st m ac d = some (foldEv v m st (events d tc), m, 0))
    (st : σ) :
    (if ¬ac = 0 then c_priv_cstl_bintree_foreach v fuel st m ac d else some (st, m, 0)) =
      some (foldEv v m st (events d tc), m, 0) := by
  by_cases ha : ac = 0
  · have : tc = .nil := by
      cases tc with
      | nil => rfl
      | node c l e r => simp only [Shape_node] at hS; exact absurd ha hS.1
    subst this
    simp [ha, events, foldEv]
  · simp only [ha, not_false_eq_true, if_true]
    exact ih st ha

theorem isNil_eq {t : Tree} (h : t.isNil = true) : t = .nil := by
  cases t with
  | nil => rfl
  | node c l e r => simp [Tree.isNil] at h

/-- `__cstl_bintree_foreach` with a quiet callback on a memory that represents `t`: the callback is folded
over the complete visit list `Cstl.Tree.events`, the links are untouched, the result is 0 -/
theorem foreach_quiet {σ : Type} (v : σ → TM → Nat → Nat → σ × TM × Int) (m : TM) (hq : Quiet v m) (d : Bool)
    (t : Tree) : ∀ (a p : Nat) (st : σ) (fuel : Nat), Shape m a p t → a ≠ 0 → t.height ≤ fuel →
      c_priv_cstl_bintree_foreach v fuel st m a d = some (foldEv v m st (events d t), m, 0) := by
  induction t with
  | nil => intro a p st fuel hS ha; exact absurd (by simpa using hS) ha
  | node c l e r ihl ihr =>
    intro a p st fuel hS ha hh
    cases fuel with
    | zero => simp [Tree.height] at hh
    | succ f =>
      simp only [Shape_node] at hS
      obtain ⟨_, he, _, _, hl, hr⟩ := hS
      simp only [Tree.height] at hh
      have hhl : l.height ≤ f := by omega
      have hhr : r.height ≤ f := by omega
      have nl := shape_isNil hl
      have nr := shape_isNil hr
      have hid : e.id = a := by rw [he]; rfl
      have q0 := fun st o => (hq st a o).1
      have q1 := fun st o => (hq st a o).2
      cases d
      · -- reverse: `l` = right, `r` = left
        have cl := childQ v false m f (m.rt a) a r hr (fun st h0 => ihr _ _ st f hr h0 hhr)
        have cr := childQ v false m f (m.lf a) a l hl (fun st h0 => ihl _ _ st f hl h0 hhl)
        unfold c_priv_cstl_bintree_foreach
        simp only [chL, chR, Bool.false_eq_true, if_false]
        by_cases hA : m.rt a = 0 ∧ m.lf a = 0
        · have e1 : r = .nil := isNil_eq (nr.2 (by simp [hA]))
          have e2 : l = .nil := isNil_eq (nl.2 (by simp [hA]))
          subst e1 e2
          simp [hA.1, hA.2, events, Tree.isNil, foldEv, ordCode, hid, q0, q1]
        · have hleaf : (l.isNil && r.isNil) = false := by
            cases hb : (l.isNil && r.isNil) with
            | false => rfl
            | true => simp only [Bool.and_eq_true] at hb; exact absurd ⟨nr.1 hb.2, nl.1 hb.1⟩ hA
          simp only [if_neg hA, true_and, if_true, ne_eq, not_true_eq_false, if_false, q0, q1]
          rw [cl]
          simp only [if_true, true_and, q0, q1]
          rw [cr]
          simp only [and_self, if_true, q0, q1]
          simp [events, hleaf, foldEv, ordCode, hid]
      · -- forward
        have cl := childQ v true m f (m.lf a) a l hl (fun st h0 => ihl _ _ st f hl h0 hhl)
        have cr := childQ v true m f (m.rt a) a r hr (fun st h0 => ihr _ _ st f hr h0 hhr)
        unfold c_priv_cstl_bintree_foreach
        simp only [chL, chR, if_true]
        by_cases hA : m.lf a = 0 ∧ m.rt a = 0
        · have e1 : r = .nil := isNil_eq (nr.2 (by simp [hA]))
          have e2 : l = .nil := isNil_eq (nl.2 (by simp [hA]))
          subst e1 e2
          simp [hA.1, hA.2, events, Tree.isNil, foldEv, ordCode, hid, q0, q1]
        · have hleaf : (l.isNil && r.isNil) = false := by
            cases hb : (l.isNil && r.isNil) with
            | false => rfl
            | true => simp only [Bool.and_eq_true] at hb; exact absurd ⟨nl.1 hb.1, nr.1 hb.2⟩ hA
          simp only [if_neg hA, true_and, if_true, ne_eq, not_true_eq_false, if_false, q0, q1]
          rw [cl]
          simp only [if_true, true_and, q0, q1]
          rw [cr]
          simp only [and_self, if_true, q0, q1]
          simp [events, hleaf, foldEv, ordCode, hid]

/-! ### cstl_bintree_clear -/

/-- `__cstl_bintree_clear_visit`: the client function is called exactly on the POST and the LEAF visit;
its result is ignored, the traversal always goes on -/
theorem clearVisit_tie {σ : Type} (clr : σ → TM → Nat → σ × TM) (st : σ) (m : TM) (a o : Nat) :
    c_priv_cstl_bintree_clear_visit clr st m a o =
      if o = ordCode .post ∨ o = ordCode .leaf then ((clr st m a).1, (clr st m a).2, 0) else (st, m, 0) := by
  unfold c_priv_cstl_bintree_clear_visit
  simp only [ordCode]
  by_cases h : o = 2 ∨ o = 3
  · simp only [h, if_true]
  · simp only [h, if_false]

/-- the client clear function that logs the element it is given and leaves the links alone -/
def clrL (log : List Elem) (m : TM) (a : Nat) : List Elem × TM := (log ++ [elemAt m a], m)

theorem clearVisit_quiet (m : TM) : Quiet (c_priv_cstl_bintree_clear_visit clrL) m := by
  intro st a o
  rw [clearVisit_tie]
  split <;> exact ⟨rfl, rfl⟩

/-- every visit of a traversal of a memory that represents `t` presents the element stored at the node -/
theorem shape_events_elem (m : TM) (d : Bool) (t : Tree) : ∀ (a p : Nat), Shape m a p t →
    ∀ ev ∈ events d t, elemAt m ev.1.id = ev.1 := by
  induction t with
  | nil => intro a p _ ev hev; simp [events] at hev
  | node c l e r ihl ihr =>
    intro a p hS ev hev
    simp only [Shape_node] at hS
    obtain ⟨_, he, _, _, hl, hr⟩ := hS
    have hE : elemAt m e.id = e := by rw [he]; rfl
    have hL := ihl _ _ hl
    have hR := ihr _ _ hr
    simp only [events] at hev
    split at hev
    · simp only [List.mem_singleton] at hev; subst hev; exact hE
    · have key : ∀ o, ev = (e, o) → elemAt m ev.1.id = ev.1 := by intro o h; subst h; exact hE
      cases d <;>
        simp only [Bool.false_eq_true, if_false, if_true, List.mem_cons, List.mem_append,
          List.not_mem_nil, or_false] at hev
      · rcases hev with ((h | h) | (h | h)) | h
        · exact key _ h
        · exact hR ev h
        · exact key _ h
        · exact hL ev h
        · exact key _ h
      · rcases hev with ((h | h) | (h | h)) | h
        · exact key _ h
        · exact hL ev h
        · exact key _ h
        · exact hR ev h
        · exact key _ h

theorem foldEv_clear (m : TM) : ∀ (evs : List Ev) (log : List Elem), (∀ ev ∈ evs, elemAt m ev.1.id = ev.1) →
    foldEv (c_priv_cstl_bintree_clear_visit clrL) m log evs =
      log ++ (evs.filter (fun ev => ev.2 = .post ∨ ev.2 = .leaf)).map (·.1)
  | [], log, _ => by simp [foldEv]
  | ev :: evs, log, h => by
    have h1 := h ev (by simp)
    have ih := foldEv_clear m evs
    simp only [foldEv, List.foldl_cons] at ih ⊢
    rw [ih _ (fun x hx => h x (by simp [hx])), clearVisit_tie]
    obtain ⟨x, o⟩ := ev
    cases o <;> simp_all [ordCode, clrL]

/-- `cstl_bintree_clear(bt, clr, priv)` on a memory that represents `t`: the client function gets exactly
`clearOrder t` (of which `Tree.clear_spec` says that it is a permutation of the elements held: every element
once), the links are not written, the header is re-initialised (`clearHd`: root NULL, size 0) -/
theorem clear_tie (m : TM) (h : Hd) (t : Tree) (hS : Shape m h.root 0 t) :
    c_cstl_bintree_clear clrL t.height [] m h = some (clearOrder t, m, clearHd h) := by
  unfold c_cstl_bintree_clear
  by_cases hr : h.root = 0
  · have : t = .nil := (hS.zero_iff).1 hr
    subst this
    simp [hr, clearHd, clearOrder, events]
  · simp only [ne_eq, hr, not_false_eq_true, if_true]
    rw [foreach_quiet _ m (clearVisit_quiet m) true t h.root 0 [] t.height hS hr (Nat.le_refl _),
      foldEv_clear m _ [] (shape_events_elem m true t _ _ hS)]
    simp [clearHd, hr, clearOrder]

/-! ### cstl_bintree_height -/

/-- `a` has `k` nodes on its way up to the root through the parent links (itself included; NULL has 0) -/
inductive UpLen (m : TM) : Nat → Nat → Prop where
  | null : UpLen m 0 0
  | step {a k : Nat} : a ≠ 0 → UpLen m (m.pr a) k → UpLen m a (k + 1)

/-- the loop `for (h = 0; bn != NULL; h++, bn = bn->p) ;` of `__cstl_bintree_height` counts the nodes up to
the root -/
theorem upLoop_tie (m : TM) : ∀ (fuel a k h : Nat), UpLen m a k → k ≤ fuel →
    c_priv_cstl_bintree_height_loop1 m fuel h a = some (h + k, 0)
  | 0, a, k, h, hu, hk => by
    cases hu with
    | null => simp [c_priv_cstl_bintree_height_loop1]
    | step _ _ => omega
  | fuel + 1, a, k, h, hu, hk => by
    cases hu with
    | null => simp [c_priv_cstl_bintree_height_loop1]
    | step ha hu' =>
      rename_i k'
      unfold c_priv_cstl_bintree_height_loop1
      rw [if_pos ha, upLoop_tie m fuel _ k' (h + 1) hu' (by omega)]
      congr 2; omega

theorem minLeaf_ln {c : Color} {e : Elem} {r : Tree} (h : r.isNil = false) :
    (Tree.node c .nil e r).minLeaf = r.minLeaf + 1 := by
  cases r with
  | nil => simp [Tree.isNil] at h
  | node c' l' e' r' => simp [Tree.minLeaf]

theorem minLeaf_rn {c : Color} {e : Elem} {l : Tree} (h : l.isNil = false) :
    (Tree.node c l e .nil).minLeaf = l.minLeaf + 1 := by
  cases l with
  | nil => simp [Tree.isNil] at h
  | node c' l' e' r' => simp [Tree.minLeaf]

theorem minLeaf_nn {c : Color} {e : Elem} {l r : Tree} (hl : l.isNil = false) (hr : r.isNil = false) :
    (Tree.node c l e r).minLeaf = min l.minLeaf r.minLeaf + 1 := by
  cases l with
  | nil => simp [Tree.isNil] at hl
  | node c' l' e' r' =>
    cases r with
    | nil => simp [Tree.isNil] at hr
    | node c'' l'' e'' r'' => simp [Tree.minLeaf]

/-- `__cstl_bintree_height` on a LEAF visit: the path length folded into min and max -/
theorem heightVisit_leaf (m : TM) (fuel a k : Nat) (st : HeightP) (hu : UpLen m a k) (hk : k ≤ fuel) :
    c_priv_cstl_bintree_height fuel st m a (ordCode .leaf) =
      some ({ min := min st.min k, max := max st.max k }, m, 0) := by
  unfold c_priv_cstl_bintree_height
  simp only [ordCode, if_true, upLoop_tie m fuel a k 0 hu hk, Nat.zero_add]
  have e1 : min st.min k = if k < st.min then k else st.min := by
    by_cases h : k < st.min
    · rw [if_pos h]; omega
    · rw [if_neg h]; omega
  have e2 : max st.max k = if k > st.max then k else st.max := by
    by_cases h : k > st.max
    · rw [if_pos h]; omega
    · rw [if_neg h]; omega
  rw [e1, e2]
  by_cases h1 : k < st.min <;> by_cases h2 : k > st.max <;> simp [h1, h2]

/-- `__cstl_bintree_height` on every other visit: nothing -/
theorem heightVisit_other (m : TM) (fuel a o : Nat) (st : HeightP) (ho : o ≠ ordCode .leaf) :
    c_priv_cstl_bintree_height fuel st m a o = some (st, m, 0) := by
  unfold c_priv_cstl_bintree_height
  simp only [ordCode] at ho
  simp [ho]

theorem heightVisit_frame (m : TM) (fuel a o : Nat) (st : HeightP) (r : HeightP × TM × Int)
    (h : c_priv_cstl_bintree_height fuel st m a o = some r) : r.2.1 = m ∧ r.2.2 = 0 := by
  unfold c_priv_cstl_bintree_height at h
  by_cases ho : o = 3
  · simp only [ho, if_true] at h
    cases hl : c_priv_cstl_bintree_height_loop1 m fuel 0 a with
    | none => simp [hl] at h
    | some l =>
      simp only [hl, Option.bind_eq_bind, Option.bind_some, Option.pure_def] at h
      split at h <;> (try simp only [Option.bind_some] at h) <;> split at h <;>
        (try simp only [Option.some.injEq] at h) <;> (subst h; exact ⟨rfl, rfl⟩)
  · simp only [ho, if_false] at h
    cases h; exact ⟨rfl, rfl⟩

theorem heightVisit_quiet (m : TM) (fuel : Nat) : Quiet (liftVisit (c_priv_cstl_bintree_height fuel)) m := by
  intro st a o
  cases st with
  | none => exact ⟨rfl, rfl⟩
  | some hp =>
    simp only [liftVisit]
    cases hv : c_priv_cstl_bintree_height fuel hp m a o with
    | none => exact ⟨rfl, rfl⟩
    | some r => exact heightVisit_frame m fuel a o hp r hv

/-- the LEAF visits of the subtree `t` below a node with `k` nodes above it fold (shortest, longest) root-to-leaf
path into (min, max) -/
theorem foldEv_height (m : TM) (fuel : Nat) (t : Tree) : ∀ (a p k : Nat) (hp : HeightP), Shape m a p t → a ≠ 0 →
    UpLen m p k → k + t.height ≤ fuel →
    foldEv (liftVisit (c_priv_cstl_bintree_height fuel)) m (some hp) (events true t) =
      some { min := min hp.min (k + t.minLeaf), max := max hp.max (k + t.height) } := by
  induction t with
  | nil => intro a p k hp hS ha; exact absurd (by simpa using hS) ha
  | node c l e r ihl ihr =>
    intro a p k hp hS ha hu hk
    simp only [Shape_node] at hS
    obtain ⟨_, he, _, hpa, hl, hr⟩ := hS
    have hid : e.id = a := by rw [he]; rfl
    have hua : UpLen m a (k + 1) := UpLen.step ha (hpa ▸ hu)
    simp only [Tree.height] at hk
    have other : ∀ (st : HeightP) (o : Ord), o ≠ .leaf →
        (liftVisit (c_priv_cstl_bintree_height fuel) (some st) m a (ordCode o)).1 = some st := by
      intro st o ho
      simp only [liftVisit]
      rw [heightVisit_other m fuel a (ordCode o) st (by cases o <;> simp_all [ordCode])]
    -- the subtrees: nothing for an empty one
    have subL : ∀ st : HeightP, foldEv (liftVisit (c_priv_cstl_bintree_height fuel)) m (some st) (events true l) =
        if l.isNil then some st else
          some { min := min st.min (k + 1 + l.minLeaf), max := max st.max (k + 1 + l.height) } := by
      intro st
      cases hl0 : l with
      | nil => simp [events, foldEv, Tree.isNil]
      | node c' l' e' r' =>
        rw [← hl0]
        have hne : m.lf a ≠ 0 := by intro h0; rw [hl0] at hl; simp only [Shape_node] at hl; exact hl.1 h0
        rw [ihl _ _ (k + 1) st hl hne hua (by omega)]
        simp [hl0, Tree.isNil]
    have subR : ∀ st : HeightP, foldEv (liftVisit (c_priv_cstl_bintree_height fuel)) m (some st) (events true r) =
        if r.isNil then some st else
          some { min := min st.min (k + 1 + r.minLeaf), max := max st.max (k + 1 + r.height) } := by
      intro st
      cases hr0 : r with
      | nil => simp [events, foldEv, Tree.isNil]
      | node c' l' e' r' =>
        rw [← hr0]
        have hne : m.rt a ≠ 0 := by intro h0; rw [hr0] at hr; simp only [Shape_node] at hr; exact hr.1 h0
        rw [ihr _ _ (k + 1) st hr hne hua (by omega)]
        simp [hr0, Tree.isNil]
    simp only [events]
    by_cases hleaf : (l.isNil && r.isNil) = true
    · obtain ⟨rfl, rfl⟩ := Cstl.Tree.events_leaf hleaf
      simp only [Tree.isNil, Bool.and_self, if_true, foldEv, List.foldl_cons, List.foldl_nil, hid, liftVisit,
        heightVisit_leaf m fuel a (k + 1) hp hua (by omega), Tree.minLeaf, Tree.height]
      congr 2 <;> omega
    · simp only [hleaf, Bool.false_eq_true, if_false, if_true]
      have step : ∀ (st : Option HeightP) (o : Ord) (rest : List Ev),
          foldEv (liftVisit (c_priv_cstl_bintree_height fuel)) m st ((e, o) :: rest) =
            foldEv (liftVisit (c_priv_cstl_bintree_height fuel)) m
              ((liftVisit (c_priv_cstl_bintree_height fuel) st m a (ordCode o)).1) rest := by
        intro st o rest; simp [foldEv, hid]
      rw [foldEv_append, foldEv_append, step (some hp) .pre, other hp .pre (by simp), subL]
      by_cases hln : l.isNil = true
      · have := isNil_eq hln
        subst this
        have hrn : r.isNil = false := by
          cases h : r.isNil with
          | false => rfl
          | true => exact absurd (by rw [hln, h]; rfl) hleaf
        simp only [Tree.isNil, if_true]
        rw [step (some hp) .mid, other hp .mid (by simp), subR, step _ .post]
        simp only [hrn, Bool.false_eq_true, if_false]
        rw [other _ .post (by simp)]
        simp only [foldEv, List.foldl_nil, minLeaf_ln hrn, Tree.height]
        congr 2 <;> omega
      · have hln' : l.isNil = false := by cases h : l.isNil <;> simp_all
        simp only [hln', Bool.false_eq_true, if_false]
        rw [step (some _) .mid, other _ .mid (by simp), subR, step _ .post]
        by_cases hrn : r.isNil = true
        · have := isNil_eq hrn
          subst this
          simp only [Tree.isNil, if_true]
          rw [other _ .post (by simp)]
          simp only [foldEv, List.foldl_nil, minLeaf_rn hln', Tree.height]
          congr 2 <;> omega
        · have hrn' : r.isNil = false := by cases h : r.isNil <;> simp_all
          simp only [hrn', Bool.false_eq_true, if_false]
          rw [other _ .post (by simp)]
          simp only [foldEv, List.foldl_nil, minLeaf_nn hln' hrn', Tree.height]
          congr 2 <;> omega

/-- `cstl_bintree_height(bt, &min, &max)` on a memory that represents `t`: min = nodes on the shortest
root-to-leaf path (`Tree.minLeaf`), max = on the longest (`Tree.height`); (0, 0) for an empty tree.
(`min` starts at SIZE_MAX: the statement needs `t.minLeaf ≤ SIZE_MAX`.) -/
theorem height_tie (m : TM) (h : Hd) (t : Tree) (f1 f2 : Nat) (hS : Shape m h.root 0 t)
    (h1 : t.height ≤ f1) (h2 : t.height ≤ f2) (hsz : t.minLeaf ≤ 18446744073709551615) :
    c_cstl_bintree_height f1 f2 m h = some (m, t.minLeaf, t.height) := by
  unfold c_cstl_bintree_height
  by_cases hr : h.root = 0
  · have : t = .nil := (hS.zero_iff).1 hr
    subst this
    simp [hr, Tree.minLeaf, Tree.height]
  · simp only [ne_eq, hr, not_false_eq_true, if_true]
    rw [foreach_quiet _ m (heightVisit_quiet m f1) true t h.root 0 _ f2 hS hr h2,
      foldEv_height m f1 t h.root 0 0 _ hS hr UpLen.null (by omega)]
    simp only [Option.bind_eq_bind, Option.bind_some, Option.pure_def, Nat.zero_add]
    have e1 : min 18446744073709551615 t.minLeaf = t.minLeaf := by omega
    have e2 : max 0 t.height = t.height := by omega
    rw [e1, e2]

/-! ### cstl_bintree_swap -/

/-- `cstl_bintree_swap(a, b)`: the two headers trade places -/
theorem swap_tie (a b : Hd) : c_cstl_bintree_swap a b = (b, a) := rfl

/-- … and so do the trees they root (nothing else has to move: the root's parent link is NULL) -/
theorem swap_trees (m : TM) (a b : Hd) (ta tb : Tree) (ha : Shape m a.root 0 ta) (hb : Shape m b.root 0 tb) :
    Shape m (c_cstl_bintree_swap a b).1.root 0 tb ∧ Shape m (c_cstl_bintree_swap a b).2.root 0 ta ∧
      (c_cstl_bintree_swap a b).1.size = b.size ∧ (c_cstl_bintree_swap a b).2.size = a.size :=
  ⟨hb, ha, rfl, rfl⟩

/-! ### __cstl_bintree_prev: the mirror image of __cstl_bintree_next -/

/-- the memory with the `l` and `r` links of every node exchanged -/
def mirrorM (m : TM) : TM := { m with lf := m.rt, rt := m.lf }

theorem chL_mirror (m : TM) (d : Bool) (a : Nat) : chL (mirrorM m) d a = chL m (!d) a := by cases d <;> rfl

theorem slideLoop_mirror (m : TM) (d : Bool) : ∀ (fuel bn c : Nat),
    c_cstl_bintree_slide_loop1 (mirrorM m) d fuel bn c = c_cstl_bintree_slide_loop1 m (!d) fuel bn c
  | 0, bn, c => by simp only [c_cstl_bintree_slide_loop1, chL_mirror]
  | fuel + 1, bn, c => by
    simp only [c_cstl_bintree_slide_loop1, chL_mirror]
    split
    · exact slideLoop_mirror m d fuel _ _
    · rfl

theorem adjLoop_mirror (m : TM) (d : Bool) : ∀ (fuel bn : Nat),
    c_priv_cstl_bintree_adjacent_loop1 (mirrorM m) d fuel bn = c_priv_cstl_bintree_adjacent_loop1 m (!d) fuel bn
  | 0, bn => by
    simp only [c_priv_cstl_bintree_adjacent_loop1, chL_mirror]; rfl
  | fuel + 1, bn => by
    simp only [c_priv_cstl_bintree_adjacent_loop1, chL_mirror]
    have hp : (mirrorM m).pr = m.pr := rfl
    simp only [hp]
    split
    · exact adjLoop_mirror m d fuel _
    · rfl

/-- `__cstl_bintree_adjacent` with the selector pair exchanged is `__cstl_bintree_adjacent` on the mirrored memory -/
theorem adjacent_mirror (m : TM) (f1 f2 bn : Nat) (d : Bool) :
    c_priv_cstl_bintree_adjacent f1 f2 m bn (!d) =
      (c_priv_cstl_bintree_adjacent f1 f2 (mirrorM m) bn d).map (fun r => (m, r.2)) := by
  unfold c_priv_cstl_bintree_adjacent c_cstl_bintree_slide
  have hp : (mirrorM m).pr = m.pr := rfl
  simp only [chL_mirror, slideLoop_mirror, adjLoop_mirror, hp]
  split
  · cases c_cstl_bintree_slide_loop1 m (!!d) f1 (chL m (!d) bn) 0 <;> rfl
  · cases c_priv_cstl_bintree_adjacent_loop1 m (!d) f2 bn <;> rfl

/-- `__cstl_bintree_prev` is `__cstl_bintree_next` on the mirrored memory (same node, links untouched) -/
theorem prev_mirror (m : TM) (f1 f2 bn : Nat) :
    c_priv_cstl_bintree_prev f1 f2 m bn = (c_priv_cstl_bintree_next f1 f2 (mirrorM m) bn).map (fun r => (m, r.2)) :=
  adjacent_mirror m f1 f2 bn false

/-- the loop of `cstl_bintree_slide` is the model's `slide` -/
theorem slide_tie (m : TM) (d : Bool) (fuel a c : Nat) (r : Nat) (hr : slide m d fuel a = some r) :
    c_cstl_bintree_slide_loop1 m d fuel a c = some (r, 0) := by
  induction fuel generalizing a c with
  | zero =>
    unfold slide at hr
    unfold c_cstl_bintree_slide_loop1
    split at hr
    · rename_i hc; cases hr; simp [hc]
    · cases hr
  | succ f ih =>
    unfold slide at hr
    unfold c_cstl_bintree_slide_loop1
    split at hr
    · rename_i hc; cases hr; simp [hc]
    · rename_i hc
      simp only [ne_eq, hc, not_false_eq_true, if_true]
      exact ih _ _ hr

/-- `__cstl_bintree_prev(bn)` under `bn->l != NULL`: the slide to the rightmost node of the left subtree
(mirror image of `next_tie` of Tie2.lean) -/
theorem prev_tie (m : TM) (fuel f2 bn y : Nat) (hlf : m.lf bn ≠ 0) (hs : slide m false fuel (m.lf bn) = some y) :
    c_priv_cstl_bintree_prev fuel f2 m bn = some (m, y) := by
  unfold c_priv_cstl_bintree_prev c_priv_cstl_bintree_adjacent c_cstl_bintree_slide
  have h1 : chL m true bn = m.lf bn := rfl
  simp only [h1, if_pos hlf, Bool.not_true]
  rw [slide_tie m false fuel (m.lf bn) 0 y hs]

/-! ### the hypotheses are satisfiable: a three-node tree  2 ← 1 → 3  (root 1) -/

def exM : TM :=
  { pr := fun x => if x = 2 ∨ x = 3 then 1 else 0, lf := fun x => if x = 1 then 2 else 0,
    rt := fun x => if x = 1 then 3 else 0, cl := fun _ => .black, key := fun x => (x : Int) }
def exT : Tree :=
  .node .black (.node .black .nil (elemAt exM 2) .nil) (elemAt exM 1) (.node .black .nil (elemAt exM 3) .nil)
def exH : Hd := { root := 1, size := 3 }

theorem exShape : Shape exM exH.root 0 exT := by simp [Shape, exT, exH, exM]

example : c_cstl_bintree_clear clrL 2 [] exM exH =
    some ([elemAt exM 2, elemAt exM 3, elemAt exM 1], exM, { root := 0, size := 0 }) :=
  clear_tie exM exH exT exShape
example : c_cstl_bintree_height 2 2 exM exH = some (exM, 2, 2) :=
  height_tie exM exH exT 2 2 exShape (by decide) (by decide) (by decide)

end Cstl.TreeL.Tie3
