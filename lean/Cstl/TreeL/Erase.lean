import Cstl.TreeL.Prim
import Cstl.TreeL.Path
/-
__cstl_bintree_erase at link level.  The function is the composition of
`unlink` (a node with at most one child is taken out: its child moves up) and,
when the node taken out was the in-order successor `y` of the node `bn` to be
erased, `substNode` (`y` takes over `bn`'s position and links, `bn` receives
`y`'s saved links, with the `bn->p == bn` correction).
-/
set_option linter.unusedSimpArgs false
set_option linter.unnecessarySimpa false
namespace Cstl.TreeL
open Cstl.SList (Mem upd upd_same upd_other)
open Cstl.Tree (Color Elem Tree)
open Cstl.Tree.Color Cstl.Tree.Tree

/-- first half of `__cstl_bintree_erase`: `y` (at most one child `x`) is taken out of the tree:
`x->p = y->p`, `y`'s parent (or the root) points at `x` -/
def unlink (m : TM) (h : Hd) (y : Nat) : TM × Hd :=
  let x := if m.lf y ≠ 0 then m.lf y else m.rt y
  let m1 := if x ≠ 0 then setP m x (m.pr y) else m
  replaceChild m1 h y x

/-- second half (`y != bn`): `y` takes `bn`'s place, `bn` gets `y`'s saved links -/
def substNode (m2 : TM) (h2 : Hd) (bn y : Nat) : TM × Hd :=
  let tp := m2.pr y
  let tl := m2.lf y
  let tr := m2.rt y
  let r3 := replaceChild m2 h2 bn y
  let m3 := r3.1
  let h3 := r3.2
  let m4 := if m3.lf bn ≠ 0 then setP m3 (m3.lf bn) y else m3
  let m5 := if m4.rt bn ≠ 0 then setP m4 (m4.rt bn) y else m4
  let m6 := setRt (setLf (setP m5 y (m5.pr bn)) y (m5.lf bn)) y (m5.rt bn)
  let m7 := setRt (setLf (setP m6 bn tp) bn tl) bn tr
  let m8 := if m7.pr bn = bn then setP m7 bn y else m7
  (m8, h3)

theorem btEraseNode_eq (m : TM) (h : Hd) (bn : Nat) :
    btEraseNode m h bn =
      match (if m.lf bn ≠ 0 ∧ m.rt bn ≠ 0 then slide m true h.size (m.rt bn) else some bn) with
      | none => none
      | some y =>
        if y ≠ bn then
          some ((substNode (unlink m h y).1 (unlink m h y).2 bn y).1,
            { (substNode (unlink m h y).1 (unlink m h y).2 bn y).2 with
              size := (substNode (unlink m h y).1 (unlink m h y).2 bn y).2.size - 1 }, y)
        else some ((unlink m h y).1, { (unlink m h y).2 with size := (unlink m h y).2.size - 1 }, y) := rfl

structure UnlinkRes (m : TM) (h : Hd) (y x : Nat) (m' : TM) (h' : Hd) : Prop where
  cl : m'.cl = m.cl
  key : m'.key = m.key
  size : h'.size = h.size
  root : h'.root = if m.pr y = 0 then x else h.root
  pr : ∀ z, m'.pr z = if z = x ∧ x ≠ 0 then m.pr y else m.pr z
  lf : ∀ z, m'.lf z = if z = m.pr y ∧ z ≠ 0 ∧ m.lf z = y then x else m.lf z
  rt : ∀ z, m'.rt z = if z = m.pr y ∧ z ≠ 0 ∧ m.lf z ≠ y then x else m.rt z

theorem unlink_fields (m : TM) (h : Hd) (y : Nat)
    (hxy : (if m.lf y ≠ 0 then m.lf y else m.rt y) ≠ y) :
    UnlinkRes m h y (if m.lf y ≠ 0 then m.lf y else m.rt y) (unlink m h y).1 (unlink m h y).2 := by
  generalize hx : (if m.lf y ≠ 0 then m.lf y else m.rt y) = x at hxy
  have hyx : y ≠ x := fun e => hxy e.symm
  by_cases hx0 : x = 0 <;> by_cases hp0 : m.pr y = 0
  all_goals
    constructor
    · simp [unlink, replaceChild, hx, hx0, hp0, upd_apply, hyx, apply_ite TM.cl]
    · simp [unlink, replaceChild, hx, hx0, hp0, upd_apply, hyx, apply_ite TM.key]
    · simp [unlink, replaceChild, hx, hx0, hp0, upd_apply, hyx]
    · simp [unlink, replaceChild, hx, hx0, hp0, upd_apply, hyx]
    · intro z
      simp [unlink, replaceChild, hx, hx0, hp0, upd_apply, hyx, apply_ite TM.pr, apply_ite TM.lf, apply_ite TM.rt]
      try grind [upd_apply]
    · intro z
      simp [unlink, replaceChild, hx, hx0, hp0, upd_apply, hyx, apply_ite TM.pr, apply_ite TM.lf, apply_ite TM.rt]
      try grind [upd_apply]
    · intro z
      simp [unlink, replaceChild, hx, hx0, hp0, upd_apply, hyx, apply_ite TM.pr, apply_ite TM.lf, apply_ite TM.rt]
      try grind [upd_apply]

structure SubstRes (m : TM) (h : Hd) (bn y : Nat) (m' : TM) (h' : Hd) : Prop where
  cl : m'.cl = m.cl
  key : m'.key = m.key
  size : h'.size = h.size
  root : h'.root = if m.pr bn = 0 then y else h.root
  pr : ∀ z, m'.pr z = if z = bn then (if m.pr y = bn then y else m.pr y) else if z = y then m.pr bn
        else if (z = m.lf bn ∨ z = m.rt bn) ∧ z ≠ 0 then y else m.pr z
  lf : ∀ z, m'.lf z = if z = bn then m.lf y else if z = y then m.lf bn
        else if z = m.pr bn ∧ z ≠ 0 ∧ m.lf z = bn then y else m.lf z
  rt : ∀ z, m'.rt z = if z = bn then m.rt y else if z = y then m.rt bn
        else if z = m.pr bn ∧ z ≠ 0 ∧ m.lf z ≠ bn then y else m.rt z

theorem substNode_fields (m : TM) (h : Hd) (bn y : Nat) (hyb : y ≠ bn) (hyp : y ≠ m.pr bn) (hyl : y ≠ m.lf bn)
    (hyr : y ≠ m.rt bn) (hbp : bn ≠ m.pr bn) (hbl : bn ≠ m.lf bn) (hbr : bn ≠ m.rt bn) :
    SubstRes m h bn y (substNode m h bn y).1 (substNode m h bn y).2 := by
  have e1 := hyb.symm
  have e2 := hyp.symm
  have e3 := hyl.symm
  have e4 := hyr.symm
  have e5 := hbp.symm
  have e6 := hbl.symm
  have e7 := hbr.symm
  by_cases hp0 : m.pr bn = 0 <;> by_cases hl0 : m.lf bn = 0 <;> by_cases hr0 : m.rt bn = 0
  all_goals
    constructor
    · simp [substNode, replaceChild, hp0, hl0, hr0, upd_apply, apply_ite TM.cl, apply_ite TM.lf, apply_ite TM.rt, apply_ite TM.pr, *]
      try grind [upd_apply]
    · simp [substNode, replaceChild, hp0, hl0, hr0, upd_apply, apply_ite TM.key, apply_ite TM.lf, apply_ite TM.rt, apply_ite TM.pr, *]
      try grind [upd_apply]
    · simp [substNode, replaceChild, hp0, hl0, hr0, upd_apply, *]
    · simp [substNode, replaceChild, hp0, hl0, hr0, upd_apply, *]
    · intro z
      simp [substNode, replaceChild, hp0, hl0, hr0, upd_apply, apply_ite TM.pr, apply_ite TM.lf, apply_ite TM.rt, *]
      try grind [upd_apply]
    · intro z
      simp [substNode, replaceChild, hp0, hl0, hr0, upd_apply, apply_ite TM.pr, apply_ite TM.lf, apply_ite TM.rt, *]
      try grind [upd_apply]
    · intro z
      simp [substNode, replaceChild, hp0, hl0, hr0, upd_apply, apply_ite TM.pr, apply_ite TM.lf, apply_ite TM.rt, *]
      try grind [upd_apply]

/-- the child that takes the place of a node with at most one child -/
def onlyChild (l r : Tree) : Tree := if l.isNil then r else l

/-- taking a node with at most one child out of the tree -/
theorem unlink_spec {m : TM} {h : Hd} {K : Ctx} {y py : Nat} {cy : Color} {l r : Tree} {ye : Elem}
    (hz : Zip m h.root K y py (.node cy l ye r)) (hone : l = .nil ∨ r = .nil) :
    ∃ x, x = (if m.lf y ≠ 0 then m.lf y else m.rt y) ∧
      Zip (unlink m h y).1 (unlink m h y).2.root K x py (onlyChild l r) ∧
      (unlink m h y).2.size = h.size ∧ (unlink m h y).1.cl = m.cl ∧ (unlink m h y).1.key = m.key ∧
      (∀ z, z ≠ x → z ≠ py → Agree m (unlink m h y).1 z) := by
  have hs := hz.sub
  simp only [Shape_node] at hs
  obtain ⟨hy0, hye, hcy, hpy, hsl, hsr⟩ := hs
  have hyid : ye.id = y := by simp [hye]
  have hn := hz.nodup
  simp only [Cstl.Tree.ids_node, hyid] at hn
  -- the child and its address
  obtain ⟨x, hx, hsx, hcids⟩ : ∃ x, x = (if m.lf y ≠ 0 then m.lf y else m.rt y) ∧ Shape m x y (onlyChild l r) ∧
      (∀ z ∈ (onlyChild l r).ids, z ∈ l.ids ∨ z ∈ r.ids) := by
    rcases hone with rfl | rfl
    · have : m.lf y = 0 := hsl
      exact ⟨m.rt y, by simp [this], by simpa [onlyChild, Tree.isNil] using hsr, fun z hz' => Or.inr (by simpa [onlyChild, Tree.isNil] using hz')⟩
    · cases l with
      | nil =>
        have : m.lf y = 0 := hsl
        exact ⟨m.rt y, by simp [this], by simpa [onlyChild, Tree.isNil] using hsr, fun z hz' => Or.inr (by simpa [onlyChild, Tree.isNil] using hz')⟩
      | node c' l' e' r' =>
        have : m.lf y ≠ 0 := by simp only [Shape_node] at hsl; exact hsl.1
        exact ⟨m.lf y, by simp [this], by simpa [onlyChild, Tree.isNil] using hsl, fun z hz' => Or.inl (by simpa [onlyChild, Tree.isNil] using hz')⟩
  have hcnd : ((onlyChild l r).ids ++ ctxIds K).Nodup := by
    rcases hone with rfl | rfl
    · simp only [onlyChild, Tree.isNil, if_true]
      have : (y :: (r.ids ++ ctxIds K)).Nodup := by simpa using hn
      exact (List.nodup_cons.mp this).2
    · have e : onlyChild l .nil = l := by cases l <;> rfl
      rw [e]
      simp only [Cstl.Tree.ids_nil] at hn
      have : ((l.ids ++ ctxIds K) ++ [y]).Nodup := by
        refine (List.Perm.nodup_iff ?_).mp hn
        simp only [List.append_assoc]
        exact (List.perm_middle).trans ((List.perm_append_comm (l₁ := [y])).trans (by simp))
      exact (List.nodup_append.mp this).1
  have hxy : x ≠ y := by
    intro e
    by_cases h0 : x = 0
    · exact hy0 (e ▸ h0)
    · have hm := hsx.root_mem h0
      rcases hcids x hm with h1 | h1
      · rw [e] at h1
        exact (List.nodup_append.mp (List.nodup_append.mp hn).1).2.2 y h1 y (by simp) rfl
      · rw [e] at h1
        have := (List.nodup_append.mp (List.nodup_append.mp hn).1).2.1
        exact (List.nodup_cons.mp this).1 h1
  have R := unlink_fields m h y (by rw [← hx]; exact hxy)
  rw [← hx] at R
  have hpm : py ≠ 0 → py ∈ ctxIds K := hz.ctx.parent_mem
  have hck : ∀ z ∈ (onlyChild l r).ids, z ∉ ctxIds K := by
    intro z hz' hk
    exact (List.nodup_append.mp hcnd).2.2 z hz' z hk rfl
  have hxpy : x ≠ 0 → x ≠ py := by
    intro h0 e
    have := hsx.root_mem h0
    rw [e] at this h0
    exact hck py this (hpm h0)
  have agree_of : ∀ z, z ≠ x → z ≠ py → Agree m (unlink m h y).1 z := by
    intro z h1 h2
    have a1 := R.pr z
    have a2 := R.lf z
    have a3 := R.rt z
    rw [hpy] at a1 a2 a3
    refine ⟨?_, ?_, ?_, by rw [R.cl], by rw [R.key]⟩ <;> grind
  refine ⟨x, hx, ?_, R.size, R.cl, R.key, agree_of⟩
  refine hz.replace ?_ ?_ ?_ hcnd
  · refine hsx.reparent (List.nodup_append.mp hcnd).1 (fun z hz' hne => ?_) (fun h0 => ?_)
    · refine agree_of z hne ?_
      intro e
      have z0 := hsx.ids_ne_zero z hz'
      rw [e] at hz' z0
      exact hck py hz' (hpm z0)
    · have a1 := R.pr x
      have a2 := R.lf x
      have a3 := R.rt x
      rw [hpy] at a1 a2 a3
      have := hxpy h0
      refine ⟨?_, ?_, ?_, by rw [R.cl], by rw [R.key]⟩ <;> grind
  · intro z hz' hne
    refine agree_of z ?_ hne
    intro e
    by_cases h0 : x = 0
    · have := hz.ctx.ids_ne_zero z hz'; exact this (e.trans h0)
    · rw [e] at hz'
      exact hck x (hsx.root_mem h0) hz'
  · cases K with
    | nil =>
      have := hz.slot_nil
      simp only [SlotUpd]
      rw [R.root, hpy, this.1]; simp
    | cons f K =>
      have hp0 : py ≠ 0 := fun e => by have := hz.ctx.parent_zero_iff.mp e; simp at this
      have hroot : (unlink m h y).2.root = h.root := by rw [R.root, hpy]; simp [hp0]
      have a1 := R.pr py
      have a2 := R.lf py
      have a3 := R.rt py
      rw [hpy] at a1 a2 a3
      have hx2 : x ≠ 0 → py ≠ x := fun h0 e => hxpy h0 e.symm
      cases f with
      | L c0 e0 r0 =>
        obtain ⟨_, s2, s3⟩ := hz.slot_L hy0
        simp only [SlotUpd]
        refine ⟨hroot, ?_, ?_, ?_, by rw [R.cl], by rw [R.key]⟩ <;> grind
      | R c0 l0 e0 =>
        obtain ⟨_, s2, s3⟩ := hz.slot_R hy0
        simp only [SlotUpd]
        refine ⟨hroot, ?_, ?_, ?_, by rw [R.cl], by rw [R.key]⟩ <;> grind

/-- `y` (not in the tree) takes the place of the node `bn` at the focus -/
theorem substNode_spec {m : TM} {h : Hd} {k : Ctx} {bn p y : Nat} {c : Color} {l r : Tree} {e : Elem}
    (hz : Zip m h.root k bn p (.node c l e r)) (hy0 : y ≠ 0) (hyt : y ∉ (Tree.node c l e r).ids)
    (hyk : y ∉ ctxIds k) :
    Zip (substNode m h bn y).1 (substNode m h bn y).2.root k y p (.node (m.cl y) l (elemAt m y) r) ∧
      (substNode m h bn y).2.size = h.size ∧ (substNode m h bn y).1.cl = m.cl ∧
      (substNode m h bn y).1.key = m.key ∧
      (substNode m h bn y).1.pr bn = (if m.pr y = bn then y else m.pr y) ∧
      (substNode m h bn y).1.lf bn = m.lf y ∧ (substNode m h bn y).1.rt bn = m.rt y ∧
      (∀ z, z ≠ bn → z ≠ y → z ≠ p → z ≠ m.lf bn → z ≠ m.rt bn → Agree m (substNode m h bn y).1 z) := by
  have hs := hz.sub
  simp only [Shape_node] at hs
  obtain ⟨hb0, he, hc, hpb, hsl, hsr⟩ := hs
  have heid : e.id = bn := by simp [he]
  have hn := hz.nodup
  simp only [Cstl.Tree.ids_node, heid] at hn hyt
  simp only [List.mem_append, List.mem_cons, not_or] at hyt
  obtain ⟨hyl, hyb, hyr⟩ := hyt
  have hn1 := (List.nodup_append.mp hn).1
  have hbl : bn ∉ l.ids := fun hc' => (List.nodup_append.mp hn1).2.2 bn hc' bn (by simp) rfl
  have hbr : bn ∉ r.ids := (List.nodup_cons.mp (List.nodup_append.mp hn1).2.1).1
  have hlr : ∀ z ∈ l.ids, z ∉ r.ids := fun z h1 h2 => (List.nodup_append.mp hn1).2.2 z h1 z (by simp [h2]) rfl
  have hbk : bn ∉ ctxIds k := fun hc' => (List.nodup_append.mp hn).2.2 bn (by simp) bn hc' rfl
  have hlk : ∀ z ∈ l.ids, z ∉ ctxIds k := fun z h1 h2 => (List.nodup_append.mp hn).2.2 z (by simp [h1]) z h2 rfl
  have hrk : ∀ z ∈ r.ids, z ∉ ctxIds k := fun z h1 h2 => (List.nodup_append.mp hn).2.2 z (by simp [h1]) z h2 rfl
  have hpm : p ≠ 0 → p ∈ ctxIds k := hz.ctx.parent_mem
  have hlm : m.lf bn ≠ 0 → m.lf bn ∈ l.ids := hsl.root_mem
  have hrm : m.rt bn ≠ 0 → m.rt bn ∈ r.ids := hsr.root_mem
  have f1 : y ≠ m.pr bn := by rw [hpb]; intro e'; rw [← e'] at hpm; exact hyk (hpm hy0)
  have f2 : y ≠ m.lf bn := by intro e'; rw [← e'] at hlm; exact hyl (hlm hy0)
  have f3 : y ≠ m.rt bn := by intro e'; rw [← e'] at hrm; exact hyr (hrm hy0)
  have f4 : bn ≠ m.pr bn := by rw [hpb]; intro e'; rw [← e'] at hpm; exact hbk (hpm hb0)
  have f5 : bn ≠ m.lf bn := by intro e'; rw [← e'] at hlm; exact hbl (hlm hb0)
  have f6 : bn ≠ m.rt bn := by intro e'; rw [← e'] at hrm; exact hbr (hrm hb0)
  have R := substNode_fields m h bn y hyb f1 f2 f3 f4 f5 f6
  rw [hpb] at f1 f4
  have agree_of : ∀ z, z ≠ bn → z ≠ y → z ≠ p → (z = m.lf bn → z = 0) → (z = m.rt bn → z = 0) →
      Agree m (substNode m h bn y).1 z := by
    intro z h1 h2 h3 h4 h5
    have a1 := R.pr z
    have a2 := R.lf z
    have a3 := R.rt z
    rw [hpb] at a1 a2 a3
    refine ⟨?_, ?_, ?_, by rw [R.cl], by rw [R.key]⟩ <;> grind
  have child_of : ∀ z, z ≠ bn → z ≠ y → z ≠ p → z ≠ 0 → (z = m.lf bn ∨ z = m.rt bn) →
      (substNode m h bn y).1.pr z = y ∧ (substNode m h bn y).1.lf z = m.lf z ∧
      (substNode m h bn y).1.rt z = m.rt z ∧ (substNode m h bn y).1.cl z = m.cl z ∧
      (substNode m h bn y).1.key z = m.key z := by
    intro z h1 h2 h3 h4 h5
    have a1 := R.pr z
    have a2 := R.lf z
    have a3 := R.rt z
    rw [hpb] at a1 a2 a3
    refine ⟨?_, ?_, ?_, by rw [R.cl], by rw [R.key]⟩ <;> grind
  have hnd' : ((Tree.node (m.cl y) l (elemAt m y) r).ids ++ ctxIds k).Nodup := by
    simp only [Cstl.Tree.ids_node, elemAt_id]
    have hperm : ((l.ids ++ y :: r.ids) ++ ctxIds k).Perm (y :: ((l.ids ++ r.ids) ++ ctxIds k)) := by
      simp only [List.append_assoc, List.cons_append]
      exact List.perm_middle
    have hperm2 : ((l.ids ++ bn :: r.ids) ++ ctxIds k).Perm (bn :: ((l.ids ++ r.ids) ++ ctxIds k)) := by
      simp only [List.append_assoc, List.cons_append]
      exact List.perm_middle
    refine hperm.nodup_iff.mpr ?_
    have := hperm2.nodup_iff.mp hn
    refine List.nodup_cons.mpr ⟨?_, (List.nodup_cons.mp this).2⟩
    simp only [List.mem_append, not_or]
    exact ⟨⟨hyl, hyr⟩, hyk⟩
  have r1 := R.pr y
  have r2 := R.lf y
  have r3 := R.rt y
  have r4 := R.pr bn
  have r5 := R.lf bn
  have r6 := R.rt bn
  simp only [hyb, if_false, if_true, hpb] at r1 r2 r3 r4 r5 r6
  refine ⟨?_, R.size, R.cl, R.key, r4, r5, r6, ?_⟩
  · refine hz.replace ?_ ?_ ?_ hnd'
    · simp only [Shape_node]
      refine ⟨hy0, by simp [elemAt, R.key], by rw [R.cl], r1, ?_, ?_⟩
      · rw [r2]
        refine hsl.reparent (List.nodup_append.mp hn1).1 (fun z hz' hne => ?_) (fun h0 => ?_)
        · have z0 := hsl.ids_ne_zero z hz'
          refine agree_of z (fun e' => hbl (e' ▸ hz')) (fun e' => hyl (e' ▸ hz')) ?_ (fun e' => absurd e' hne) ?_
          · intro e'; rw [e'] at hz' z0; exact hlk p hz' (hpm z0)
          · intro e'; exfalso; rw [e'] at hz' z0; exact hlr _ hz' (hrm z0)
        · have hm := hlm h0
          refine child_of _ (fun e' => hbl (e' ▸ hm)) (fun e' => hyl (e' ▸ hm)) ?_ h0 (Or.inl rfl)
          intro e'; rw [e'] at hm h0; exact hlk p hm (hpm h0)
      · rw [r3]
        refine hsr.reparent (List.nodup_cons.mp (List.nodup_append.mp hn1).2.1).2 (fun z hz' hne => ?_) (fun h0 => ?_)
        · have z0 := hsr.ids_ne_zero z hz'
          refine agree_of z (fun e' => hbr (e' ▸ hz')) (fun e' => hyr (e' ▸ hz')) ?_ ?_ (fun e' => absurd e' hne)
          · intro e'; rw [e'] at hz' z0; exact hrk p hz' (hpm z0)
          · intro e'; exfalso; rw [e'] at hz' z0; exact hlr _ (hlm z0) hz'
        · have hm := hrm h0
          refine child_of _ (fun e' => hbr (e' ▸ hm)) (fun e' => hyr (e' ▸ hm)) ?_ h0 (Or.inr rfl)
          intro e'; rw [e'] at hm h0; exact hrk p hm (hpm h0)
    · intro z hz' hne
      have z0 := hz.ctx.ids_ne_zero z hz'
      refine agree_of z (fun e' => hbk (e' ▸ hz')) (fun e' => hyk (e' ▸ hz')) hne ?_ ?_
      · intro e'; exfalso; rw [e'] at hz' z0; exact hlk _ (hlm z0) hz'
      · intro e'; exfalso; rw [e'] at hz' z0; exact hrk _ (hrm z0) hz'
    · cases k with
      | nil =>
        have := hz.slot_nil
        simp only [SlotUpd]
        rw [R.root, hpb, this.1]; simp
      | cons f k =>
        have hp0 : p ≠ 0 := fun e' => by have := hz.ctx.parent_zero_iff.mp e'; simp at this
        have hroot : (substNode m h bn y).2.root = h.root := by rw [R.root, hpb]; simp [hp0]
        have a1 := R.pr p
        have a2 := R.lf p
        have a3 := R.rt p
        rw [hpb] at a1 a2 a3
        have hpk := hpm hp0
        have g1 : p ≠ m.lf bn := fun e' => by rw [e'] at hpk hp0; exact hlk _ (hlm hp0) hpk
        have g2 : p ≠ m.rt bn := fun e' => by rw [e'] at hpk hp0; exact hrk _ (hrm hp0) hpk
        cases f with
        | L c0 e0 r0 =>
          obtain ⟨_, s2, s3⟩ := hz.slot_L hb0
          simp only [SlotUpd]
          refine ⟨hroot, ?_, ?_, ?_, by rw [R.cl], by rw [R.key]⟩ <;> grind
        | R c0 l0 e0 =>
          obtain ⟨_, s2, s3⟩ := hz.slot_R hb0
          simp only [SlotUpd]
          refine ⟨hroot, ?_, ?_, ?_, by rw [R.cl], by rw [R.key]⟩ <;> grind
  · intro z h1 h2 h3 h4 h5
    exact agree_of z h1 h2 h3 (fun e' => absurd e' h4) (fun e' => absurd e' h5)
/-- `cstl_bintree_slide(a, left)` from the focus ends at the leftmost node of the focused subtree -/
theorem slide_spec {m : TM} {root : Nat} : ∀ (t : Tree) (K : Ctx) (a p fuel : Nat),
    Zip m root K a p t → t ≠ .nil → t.height ≤ fuel + 1 →
    ∃ y py, slide m true fuel a = some y ∧ Zip m root (spine t ++ K) y py (minSub t) := by
  intro t
  induction t with
  | nil => intro K a p fuel _ ht; exact absurd rfl ht
  | node c l e r ihl _ =>
    intro K a p fuel hz _ hfuel
    cases l with
    | nil =>
      have hs := hz.sub
      simp only [Shape_node, Shape_nil] at hs
      refine ⟨a, p, ?_, by simpa [spine, minSub] using hz⟩
      cases fuel <;> simp [slide, chL, hs.2.2.2.2.1]
    | node lc ll le lr =>
      have hs := hz.sub
      simp only [Shape_node] at hs
      have hl0 : m.lf a ≠ 0 := hs.2.2.2.2.1.1
      simp only [Tree.height] at hfuel
      cases fuel with
      | zero => omega
      | succ f =>
        obtain ⟨y, py, h1, h2⟩ := ihl (.L c e r :: K) (m.lf a) a f hz.downL (by simp)
          (by simp only [Tree.height]; omega)
        refine ⟨y, py, ?_, ?_⟩
        · simp only [slide, chL, if_true, hl0, if_false]; exact h1
        · simpa [spine, minSub, List.append_assoc] using h2

theorem size_le_plug (k : Ctx) (t : Tree) : t.size ≤ (plug k t).size := by
  induction k generalizing t with
  | nil => exact Nat.le_refl _
  | cons f k ih =>
    cases f with
    | L c e r => exact Nat.le_trans (by simp only [Tree.size]; omega) (ih (.node c t e r))
    | R c l e => exact Nat.le_trans (by simp only [Tree.size]; omega) (ih (.node c l e t))

/-- `__cstl_bintree_erase(bt, bn)`, `bn` with at most one child: the child moves up; `bn`'s own
fields keep their values -/
theorem btEraseNode_one {m : TM} {h : Hd} {k : Ctx} {bn p : Nat} {c : Color} {l r : Tree} {e : Elem}
    (hz : Zip m h.root k bn p (.node c l e r)) (hone : l = .nil ∨ r = .nil) :
    ∃ m' h' x, btEraseNode m h bn = some (m', h', bn) ∧
      x = (if m.lf bn ≠ 0 then m.lf bn else m.rt bn) ∧
      Zip m' h'.root k x p (onlyChild l r) ∧ h'.size = h.size - 1 ∧ m'.cl = m.cl ∧ m'.key = m.key ∧
      (∀ z, z ≠ x → z ≠ p → Agree m m' z) := by
  obtain ⟨x, hx, h1, h2, h3, h4, h5⟩ := unlink_spec hz hone
  have hs := hz.sub
  simp only [Shape_node] at hs
  have hcond : ¬ (m.lf bn ≠ 0 ∧ m.rt bn ≠ 0) := by
    rcases hone with rfl | rfl
    · have : m.lf bn = 0 := hs.2.2.2.2.1; simp [this]
    · have : m.rt bn = 0 := hs.2.2.2.2.2; simp [this]
  refine ⟨(unlink m h bn).1, { (unlink m h bn).2 with size := (unlink m h bn).2.size - 1 }, x, ?_, hx, h1, ?_,
    h3, h4, h5⟩
  · rw [btEraseNode_eq]; simp only [hcond, if_false, ne_eq, not_true_eq_false]
  · simp [h2]


theorem plug_ctx_perm (k K : Ctx) (t : Tree) :
    ((plug k t).ids ++ ctxIds K).Perm (t.ids ++ ctxIds (k ++ K)) := by
  rw [ctxIds_append, ← List.append_assoc]
  exact (plug_ids_perm k t).append_right _

theorem spine_ids_sub (r : Tree) : ∀ z ∈ ctxIds (spine r), z ∈ r.ids := by
  intro z hz
  have := plug_ids_perm (spine r) (minSub r)
  rw [plug_spine] at this
  exact this.mem_iff.mpr (by simp [hz])

/-- `__cstl_bintree_erase(bt, bn)`, `bn` with two children: the in-order successor `y` (leftmost node
of the right subtree) is taken out and put in `bn`'s place; `bn` is left with `y`'s former links, its
parent link corrected to `y` when `y` was its right child -/
theorem btEraseNode_two {m : TM} {h : Hd} {k : Ctx} {bn p : Nat} {c cy : Color} {l r ry : Tree} {e ye : Elem}
    (hz : Zip m h.root k bn p (.node c l e r)) (hl : l ≠ .nil) (hr : r ≠ .nil)
    (hm : minSub r = .node cy .nil ye ry) (hfuel : r.height ≤ h.size + 1) :
    ∃ m' h', btEraseNode m h bn = some (m', h', ye.id) ∧ ye.id ≠ bn ∧
      Zip m' h'.root k ye.id p (.node cy l ye (plug (spine r) ry)) ∧
      h'.size = h.size - 1 ∧ m'.cl = m.cl ∧ m'.key = m.key ∧
      m'.lf bn = 0 ∧ m'.rt bn = m.rt ye.id ∧ m'.pr bn = ctxParent (spine r ++ .R cy l ye :: k) ∧
      (∀ z, z ≠ 0 → z ∉ (Tree.node c l e r).ids → z ≠ p → Agree m m' z) ∧
      Shape m (m.rt ye.id) ye.id ry := by
  have hs := hz.sub
  simp only [Shape_node] at hs
  obtain ⟨hb0, he, hc, hpb, hsl, hsr⟩ := hs
  have heid : e.id = bn := by simp [he]
  have hl0 : m.lf bn ≠ 0 := fun e' => hl (hsl.zero_iff.mp e')
  have hr0 : m.rt bn ≠ 0 := fun e' => hr (hsr.zero_iff.mp e')
  obtain ⟨y, py, hslide, hzy⟩ := slide_spec r (.R c l e :: k) (m.rt bn) bn h.size hz.downR hr hfuel
  rw [hm] at hzy
  have hyid : ye.id = y := hzy.sub.id_eq
  have hsy := hzy.sub
  simp only [Shape_node, Shape_nil] at hsy
  obtain ⟨hy0, hye, hcy, hpy, hyl0, hsry⟩ := hsy
  have hny := hzy.nodup
  simp only [Cstl.Tree.ids_node, Cstl.Tree.ids_nil, List.nil_append, hyid, List.cons_append, List.nodup_cons,
    List.mem_append, not_or] at hny
  obtain ⟨⟨hyry, hyK⟩, hnrest⟩ := hny
  have hyb : y ≠ bn := by
    intro e'
    apply hyK
    rw [ctxIds_append]
    simp [heid, e']
  -- take y out
  obtain ⟨x, hx, hz2, hsz2, hcl2, hkey2, hfr2⟩ := unlink_spec hzy (Or.inl rfl)
  simp only [hyl0, ne_eq, not_true_eq_false, if_false] at hx
  have honly : onlyChild .nil ry = ry := rfl
  rw [honly] at hz2
  have hxy : y ≠ x := by
    intro e'
    by_cases h0 : x = 0
    · exact hy0 (e'.trans h0)
    · rw [← e'] at h0; rw [← e'] at hx
      have := hsry.root_mem (by rw [← hx]; exact h0)
      rw [← hx] at this
      exact hyry this
  have hpy2 : y ≠ py := by
    intro e'
    have := hzy.ctx.parent_mem (by rw [← e']; exact hy0)
    rw [← e'] at this
    exact hyK this
  have hagy : Agree m (unlink m h y).1 y := hfr2 y hxy hpy2
  -- widen the focus back to bn
  obtain ⟨a', p', hz3⟩ := Zip.plugUp (spine r) hz2
  have hp' : p' = bn := by rw [hz3.ctx.parent_eq]; simp [ctxParent, heid]
  subst hp'
  have hz4 := hz3.upR
  have hpp : (unlink m h y).1.pr p' = p := by rw [hz4.ctx.parent_eq, ← hz.ctx.parent_eq]
  rw [hpp] at hz4
  -- y is not a node of what is left
  have hperm := plug_ctx_perm (spine r) (.R c l e :: k) ry
  have hy_not : y ∉ (plug (spine r) ry).ids ++ ctxIds (.R c l e :: k) := by
    intro hc'
    have := hperm.mem_iff.mp hc'
    simp only [List.mem_append] at this
    rcases this with h1 | h1
    · exact hyry h1
    · exact hyK h1
  simp only [ctxIds_cons, Frame.ids_R, List.mem_append, List.mem_cons, not_or, heid] at hy_not
  obtain ⟨hy1, ⟨hy2, hy3⟩, hy4⟩ := hy_not
  have hyt : y ∉ (Tree.node c l e (plug (spine r) ry)).ids := by
    simp only [Cstl.Tree.ids_node, List.mem_append, List.mem_cons, not_or, heid]
    exact ⟨hy3, hy2, hy1⟩
  obtain ⟨s1, s2, s3, s4, s5, s6, s7, s8⟩ := substNode_spec hz4 hy0 hyt hy4
  refine ⟨(substNode (unlink m h y).1 (unlink m h y).2 p' y).1,
    { (substNode (unlink m h y).1 (unlink m h y).2 p' y).2 with
      size := (substNode (unlink m h y).1 (unlink m h y).2 p' y).2.size - 1 }, ?_, ?_, ?_, ?_, ?_, ?_, ?_, ?_, ?_, ?_,
    by rw [hyid]; exact hsry⟩
  · rw [btEraseNode_eq]
    simp only [hl0, hr0, ne_eq, not_false_eq_true, and_self, if_true, hslide, hyb, hyid]
  · rw [hyid]; exact hyb
  · rw [hyid]
    have e1 : (unlink m h y).1.cl y = cy := by rw [hcl2]; exact hcy
    have e2 : elemAt (unlink m h y).1 y = ye := by rw [hye]; simp [elemAt, hkey2]
    rw [e1, e2] at s1
    exact s1
  · simp [s2, hsz2]
  · rw [s3, hcl2]
  · rw [s4, hkey2]
  · rw [s6, hagy.2.1]; exact hyl0
  · rw [s7, hagy.2.2.1, hyid]
  · rw [s5, hagy.1, hpy]
    have hpe := hzy.ctx.parent_eq
    cases hsp : spine r with
    | nil =>
      rw [hsp] at hpe
      simp only [List.nil_append, ctxParent, heid] at hpe
      simp [ctxParent, hpe, hyid]
    | cons f s =>
      rw [hsp] at hpe
      have hpin : py ∈ r.ids := by
        apply spine_ids_sub
        rw [hsp]
        cases f <;> simp [ctxParent] at hpe <;> simp [hpe]
      have hne : py ≠ p' := by
        intro e'
        have hn := hz.nodup
        simp only [Cstl.Tree.ids_node, heid] at hn
        have := (List.nodup_cons.mp (List.nodup_append.mp (List.nodup_append.mp hn).1).2.1).1
        exact this (e' ▸ hpin)
      simp only [hne, if_false]
      cases f <;> simp [ctxParent] at hpe ⊢ <;> exact hpe
  · intro z hz0 hzt hzp
    simp only [Cstl.Tree.ids_node, List.mem_append, List.mem_cons, not_or, heid] at hzt
    obtain ⟨hzl, hzb, hzr⟩ := hzt
    have hrperm : r.ids.Perm ((y :: ry.ids) ++ ctxIds (spine r)) := by
      have := plug_ids_perm (spine r) (minSub r)
      rw [plug_spine, hm] at this
      simpa [hyid] using this
    have hyr : y ∈ r.ids := hrperm.mem_iff.mpr (by simp)
    have hsub1 : ∀ w ∈ ry.ids, w ∈ r.ids := fun w hw => hrperm.mem_iff.mpr (by simp [hw])
    have hsub2 : ∀ w ∈ (plug (spine r) ry).ids, w ∈ r.ids := by
      intro w hw
      have := (plug_ids_perm (spine r) ry).mem_iff.mp hw
      simp only [List.mem_append] at this
      rcases this with h1 | h1
      · exact hsub1 w h1
      · exact spine_ids_sub r w h1
    have hs4 := hz4.sub
    simp only [Shape_node] at hs4
    refine (hfr2 z ?_ ?_).trans (s8 z hzb ?_ hzp ?_ ?_)
    · intro e'
      by_cases h0 : x = 0
      · exact hz0 (e'.trans h0)
      · rw [← e'] at h0
        have := hsry.root_mem (by rw [← hx, ← e']; exact h0)
        rw [← hx, ← e'] at this
        exact hzr (hsub1 z this)
    · intro e'
      have hpe := hzy.ctx.parent_eq
      cases hsp : spine r with
      | nil =>
        rw [hsp] at hpe
        simp only [List.nil_append, ctxParent, heid] at hpe
        exact hzb (e'.trans hpe)
      | cons f s =>
        rw [hsp] at hpe
        have hpin : py ∈ r.ids := by
          apply spine_ids_sub
          rw [hsp]
          cases f <;> simp [ctxParent] at hpe <;> simp [hpe]
        exact hzr (e' ▸ hpin)
    · intro e'; exact hzr (e' ▸ hyr)
    · intro e'
      have := hs4.2.2.2.2.1.root_mem (by rw [← e']; exact hz0)
      rw [← e'] at this
      exact hzl this
    · intro e'
      have := hs4.2.2.2.2.2.root_mem (by rw [← e']; exact hz0)
      rw [← e'] at this
      exact hzr (hsub2 z this)
end Cstl.TreeL
