import Cstl.Base.Driver
import Cstl.Tree.Model
import Cstl.TreeL.Model
/-
Driver for the link-level tree model (`m_treel`).  Same line protocol and the
same output lines as lean/Cstl/Tree/Main.lean / harness/tree.c for the `bt` and
`rb` containers (the map is not modelled at link level: `map …` is a bad op
here; tools/areas/treel.py only sends `bt`/`rb`/`mode` lines).

Node addresses are the element ids 1..600, NULL is 0, the stack-local stand-in
node of `__cstl_rbtree_erase` lives at address 601.  Every state dump is
computed by walking the link fields from the root (`readTree`): a child whose
parent link does not point back is reported as `links=bad@<id>` exactly like
the harness does.  The link memories are functions in the model; the driver
keeps them tabulated in arrays between operations.

  mode full|hash
  bt|rb ins <id> <key>          insert(e, NULL)   (id 0 = lowest id not in the tree)
  bt|rb insh <id> <key>         find(key, &par); insert(e, par)
  bt|rb insat <id> <key> <hint> insert(e, hint)
  bt|rb insatr <key> <rank>     insert(lowest free id, hint = in-order element number rank mod size)
  bt|rb find <key>              -> id p=<par>
  bt|rb erase <key>             -> id
  bt|rb fe fwd|rev <k>          foreach (does not write; evaluated on the tree read off the links)
  bt|rb clear                   callback order read off the links; root = NULL, size = 0
  bt|rb show
-/
open Cstl Cstl.Tree Cstl.TreeL

def maxId : Nat := 600
def sxAddr : Nat := maxId + 1

/-- one container: the tabulated memory and the header -/
structure Cont where
  pr : Array Nat := Array.replicate (maxId + 2) 0
  lf : Array Nat := Array.replicate (maxId + 2) 0
  rt : Array Nat := Array.replicate (maxId + 2) 0
  cl : Array Color := Array.replicate (maxId + 2) Color.black
  key : Array Int := Array.replicate (maxId + 2) 0
  hd : Hd := { root := 0, size := 0 }
  /-- header of the other operand of `swap` (same element pool, initially empty) -/
  hd2 : Hd := { root := 0, size := 0 }
  /-- highest element address handed to the library so far -/
  hi : Nat := 0

def Cont.tm (c : Cont) : TM :=
  { pr := fun a => c.pr.getD a 0, lf := fun a => c.lf.getD a 0, rt := fun a => c.rt.getD a 0,
    cl := fun a => c.cl.getD a Color.black, key := fun a => c.key.getD a 0 }

/-- tabulate the memory the model returned (addresses 0..hi and the stand-in) -/
def Cont.store (c : Cont) (m : TM) (hd : Hd) : Cont :=
  let addrs := sxAddr :: List.range (c.hi + 1)
  { c with
    pr := addrs.foldl (fun a i => a.setIfInBounds i (m.pr i)) c.pr
    lf := addrs.foldl (fun a i => a.setIfInBounds i (m.lf i)) c.lf
    rt := addrs.foldl (fun a i => a.setIfInBounds i (m.rt i)) c.rt
    cl := addrs.foldl (fun a i => a.setIfInBounds i (m.cl i)) c.cl
    hd := hd }

structure TState where
  bt : Cont := {}
  rb : Cont := {}
  hash : Bool := false

def colS : Color → String
  | .red => "R"
  | .black => "B"

partial def shape (kind : Nat) : Tree → String
  | .nil => "."
  | .node c l e r =>
    let lbl := match kind with
      | 0 => s!"{e.id}:{e.key}"
      | _ => s!"{e.id}:{e.key}{colS c}"
    "(" ++ lbl ++ " " ++ shape kind l ++ " " ++ shape kind r ++ ")"

def mix (h : UInt64) (x : UInt64) : UInt64 := h * 1099511628211 + x

def keyTok (k : Int) : UInt64 := (Int.toNat (k % (2 ^ 64 : Int))).toUInt64

def digest (kind : Nat) : Tree → UInt64 → UInt64
  | .nil, h => mix h 0
  | .node c l e r, h =>
    let h := mix h 7
    let h := mix h e.id.toUInt64
    let h := mix h (keyTok e.key)
    let h := if kind = 0 then h else mix h (if c = .red then 1 else 2)
    digest kind r (digest kind l h)

/-- the tree read off the links, or the node whose parent link is wrong -/
def Cont.read (c : Cont) : Except Int Tree :=
  let lim := c.hd.size + maxId + 8
  match readTree c.tm (lim + 1) c.hd.root 0 lim with
  | .error e => .error e
  | .ok (t, _) => .ok t

def dumpCont (kind : Nat) (hash : Bool) (c : Cont) : String :=
  match c.read with
  | .error e => s!"n={c.hd.size} links=bad@{e}"
  | .ok t =>
    let hd := s!"n={c.hd.size} h={t.minLeaf}/{t.height} "
    if hash then hd ++ s!"x={(digest kind t 1469598103934665603).toNat}"
    else hd ++ shape kind t

def ordS : Ord → String
  | .pre => "P" | .mid => "M" | .post => "O" | .leaf => "L"

def evsS (evs : List Ev) : String :=
  "[" ++ ",".intercalate (evs.map fun (e, o) => s!"{e.id}:{ordS o}") ++ "]"

def lowestFree (ids : List Nat) : Nat :=
  let used := ids.foldl (fun (a : Array Bool) i => if i < a.size then a.set! i true else a)
    (Array.replicate (maxId + 2) false)
  ((List.range' 1 (maxId + 1)).find? (fun i => !used[i]!)).getD (maxId + 1)

def tstep (s : TState) (ws : List String) : TState × String :=
  let bad := (s, "STOP bad-op")
  let segv := (s, "STOP segv")
  match ws with
  | ["mode", m] =>
    if m = "hash" then ({ s with hash := true }, "ok |")
    else if m = "full" then ({ s with hash := false }, "ok |")
    else bad
  | c :: rest =>
    if c ≠ "bt" ∧ c ≠ "rb" then bad else
    let isRb := c = "rb"
    let ct : Cont := if isRb then s.rb else s.bt
    let kind := if isRb then 1 else 0
    let t : Tree := match ct.read with
      | .ok t => t
      | .error _ => .nil
    let fin (ct' : Cont) (r : String) (full : Bool := false) : TState × String :=
      (if isRb then { s with rb := ct' } else { s with bt := ct' },
       r ++ " | " ++ dumpCont kind (s.hash && !full) ct')
    -- ids in use: the tree and its swap partner
    let auxT : Tree := match ({ ct with hd := ct.hd2 } : Cont).read with
      | .ok t => t
      | .error _ => .nil
    let used : List Nat := t.ids ++ auxT.ids
    let fresh (id : Nat) : Bool := id ≥ 1 ∧ id ≤ maxId ∧ !(used.contains id)
    let auto (id : Nat) : Nat := if id = 0 then lowestFree used else id
    -- the standard operations are one `btStepL` / `rbStepL` (Model.lean): the step functions of the
    -- history theorems of Props.lean
    let run (op : LOp) (hi : Nat) (fmt : Nat → Nat → String) : TState × String :=
      let ct1 : Cont := { ct with hi := max ct.hi hi }
      let ct1 : Cont := match op with
        | .ins n k => { ct1 with key := ct1.key.setIfInBounds n k }
        | .insHint n k => { ct1 with key := ct1.key.setIfInBounds n k }
        | _ => ct1
      match (if isRb then rbStepL sxAddr ⟨ct.tm, ct.hd⟩ op else btStepL ⟨ct.tm, ct.hd⟩ op) with
      | none => segv
      | some (s', n, par) => fin (ct1.store s'.m s'.h) (fmt n par)
    -- insert with an arbitrary hint (not a history operation): store the key, call insert(e, hint)
    let insert (id : Nat) (k : Int) (hint : Nat) (r : String) : TState × String :=
      let ct1 : Cont := { ct with key := ct.key.setIfInBounds id k, hi := max ct.hi id }
      match (if isRb then rbInsert ct1.tm ct1.hd id hint else btInsert ct1.tm ct1.hd id hint) with
      | none => segv
      | some (m', hd') => fin (ct1.store m' hd') r
    match rest with
    | ["ins", id, k] =>
      match id.toNat?, parseInt? k with
      | some id, some k =>
        let id := auto id
        if !fresh id then bad else run (.ins id k) id (fun _ _ => "ok")
      | _, _ => bad
    | ["insh", id, k] =>
      match id.toNat?, parseInt? k with
      | some id, some k =>
        let id := auto id
        if !fresh id then bad else run (.insHint id k) id (fun _ par => s!"ok h={par}")
      | _, _ => bad
    | ["insat", id, k, h] =>
      match id.toNat?, parseInt? k, h.toNat? with
      | some id, some k, some h =>
        let id := auto id
        if !fresh id ∨ !(t.ids.contains h) then bad else insert id k h "ok"
      | _, _, _ => bad
    | ["insatr", k, r] =>
      match parseInt? k, r.toNat? with
      | some k, some r =>
        let io := t.inorder
        if io.isEmpty then bad else
        match io[r % io.length]? with
        | none => bad
        | some hint =>
          let id := lowestFree used
          if !fresh id then bad else insert id k hint.id s!"ok h={hint.id}"
      | _, _ => bad
    | ["find", k] =>
      match parseInt? k with
      | some k => run (.find k) 0 (fun n par => s!"{n} p={par}")
      | none => bad
    | ["erase", k] =>
      match parseInt? k with
      | some k => run (.erase k) 0 (fun n _ => s!"{n}")
      | none => bad
    | ["fe", d, k] =>
      match parseInt? k with
      | some k =>
        if d ≠ "fwd" ∧ d ≠ "rev" then bad else
        let r := foreach (d = "fwd") (fun i _ _ => if (i : Int) = k then stopValue k else 0) t
        fin ct s!"{r.1} {evsS r.2}"
      | none => bad
    | ["clear"] =>
      run .clear 0 (fun _ _ => showList ((clearOrder t).map (·.id)) ++ " p=1")
    | ["alt"] => fin { ct with hd := ct.hd2, hd2 := ct.hd } "ok"
    | ["swap"] =>
      -- `cstl_bintree_swap` (`cstl_rbtree_swap`): the two headers trade places (Tie3.swap_tie)
      fin { ct with hd := ct.hd2, hd2 := ct.hd } "ok"
    | ["show"] => fin ct "ok" true
    | _ => bad
  | _ => bad

def main : IO Unit := runArea { init := {}, step := tstep }
