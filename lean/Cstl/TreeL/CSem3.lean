import Cstl.TreeL.Model
/-
Vocabulary of the third tree translator (tools/c2lean_tree2.py).  Hand-written and fixed; core Lean only.
-/
namespace Cstl.TreeL

/-- `struct cstl_bintree_height_priv` -/
structure HeightP where
  min : Nat
  max : Nat
deriving Repr, DecidableEq, Inhabited

/-- a callback that contains a loop (it may run out of fuel: `none`) under the total callback interface of
the translated `__cstl_bintree_foreach`: the client state becomes `Option σ`, `none` = fuel exhausted (sticky;
the traversal goes on with result 0 and the caller finds `none` at the end) -/
def liftVisit {σ : Type} (v : σ → TM → Nat → Nat → Option (σ × TM × Int)) :
    Option σ → TM → Nat → Nat → Option σ × TM × Int
  | none, m, _, _ => (none, m, 0)
  | some st, m, a, o =>
    match v st m a o with
    | none => (none, m, 0)
    | some r => (some r.1, r.2.1, r.2.2)

end Cstl.TreeL
