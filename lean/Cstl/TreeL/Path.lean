import Cstl.TreeL.Lemmas
/-
Functional facts that connect the recursive model of Cstl.Tree (insert / erase
written as recursion over the tree) with contexts: the path an operation takes
from the root, and what the recursion does on the way back up (`unwind`).
-/
namespace Cstl.TreeL
open Cstl.Tree (Color Elem Tree InsRes)
open Cstl.Tree.Color Cstl.Tree.Tree
open Cstl.Tree

/-! ### insert -/

/-- the path the insert descent takes in `t` (innermost frame first); the hole it ends at is empty -/
def insPath (key : Int) : Tree → Ctx
  | .nil => []
  | .node c l e r => if key < e.key then insPath key l ++ [.L c e r] else insPath key r ++ [.R c l e]

theorem plug_insPath (key : Int) (t u : Tree) (k : Ctx) :
    plug (insPath key t ++ k) u = plug k (plug (insPath key t) u) := plug_append _ _ _

theorem plug_insPath_nil (key : Int) (t : Tree) : plug (insPath key t) .nil = t := by
  induction t with
  | nil => rfl
  | node c l e r ihl ihr =>
    simp only [insPath]
    split
    · rw [plug_append, ihl]; rfl
    · rw [plug_append, ihr]; rfl

theorem btIns_plug (x : Elem) (t : Tree) : btIns x t = plug (insPath x.key t) (.node black .nil x .nil) := by
  induction t with
  | nil => rfl
  | node c l e r ihl ihr =>
    simp only [btIns, insPath]
    split
    · rw [plug_append, ← ihl]; rfl
    · rw [plug_append, ← ihr]; rfl

/-- what the recursion of `ins` does on the way back up through a context -/
def unwind : Ctx → InsRes → InsRes
  | [], res => res
  | .L c e r :: k, res => unwind k (balInsL c res e r)
  | .R c l e :: k, res => unwind k (balInsR c l e res)

theorem unwind_append (k1 k2 : Ctx) (res : InsRes) : unwind (k1 ++ k2) res = unwind k2 (unwind k1 res) := by
  induction k1 generalizing res with
  | nil => rfl
  | cons f k ih => cases f <;> simp [unwind, ih]

theorem ins_unwind (x : Elem) (t : Tree) : ins x t = unwind (insPath x.key t) (.newRed .nil x .nil) := by
  induction t with
  | nil => rfl
  | node c l e r ihl ihr =>
    simp only [ins, insPath]
    split
    · rw [unwind_append, ← ihl]; rfl
    · rw [unwind_append, ← ihr]; rfl

/-- once the loop is over, the rest of the way up only rebuilds the tree -/
theorem unwind_ok (k : Ctx) (t : Tree) : unwind k (.ok t) = .ok (plug k t) := by
  induction k generalizing t with
  | nil => rfl
  | cons f k ih => cases f <;> simp [unwind, balInsL, balInsR, ih]

theorem btInsAt_none {h : Nat} (x : Elem) {t : Tree} (hm : h ∉ t.ids) : btInsAt h x t = none := by
  induction t with
  | nil => rfl
  | node c l e r ihl ihr =>
    simp only [Cstl.Tree.ids_node, List.mem_append, List.mem_cons, not_or] at hm
    simp only [btInsAt]
    rw [if_neg (fun e' => hm.2.1 e'.symm), ihl hm.1, ihr hm.2.2]

theorem insAt_none {h : Nat} (x : Elem) {t : Tree} (hm : h ∉ t.ids) : insAt h x t = none := by
  induction t with
  | nil => rfl
  | node c l e r ihl ihr =>
    simp only [Cstl.Tree.ids_node, List.mem_append, List.mem_cons, not_or] at hm
    simp only [insAt]
    rw [if_neg (fun e' => hm.2.1 e'.symm), ihl hm.1, ihr hm.2.2]

theorem btInsAt_plug {h : Nat} (x : Elem) (k : Ctx) : ∀ {t t' : Tree}, h ∉ ctxIds k → btInsAt h x t = some t' →
    btInsAt h x (plug k t) = some (plug k t') := by
  induction k with
  | nil => intro t t' _ ht; exact ht
  | cons f k ih =>
    intro t t' hk ht
    cases f with
    | L c e r =>
      simp only [ctxIds_cons, Frame.ids_L, List.cons_append, List.mem_cons, List.mem_append, not_or] at hk
      refine ih (by simp [hk.2.2]) ?_
      simp only [btInsAt]
      rw [if_neg (fun e' => hk.1 e'.symm), ht]
    | R c l e =>
      simp only [ctxIds_cons, Frame.ids_R, List.cons_append, List.mem_cons, List.mem_append, not_or] at hk
      refine ih (by simp [hk.2.2]) ?_
      simp only [btInsAt]
      rw [if_neg (fun e' => hk.1 e'.symm), btInsAt_none x hk.2.1, ht]

theorem insAt_plug {h : Nat} (x : Elem) (k : Ctx) : ∀ {t : Tree} {res : InsRes}, h ∉ ctxIds k →
    insAt h x t = some res → insAt h x (plug k t) = some (unwind k res) := by
  induction k with
  | nil => intro t res _ ht; exact ht
  | cons f k ih =>
    intro t res hk ht
    cases f with
    | L c e r =>
      simp only [ctxIds_cons, Frame.ids_L, List.cons_append, List.mem_cons, List.mem_append, not_or] at hk
      refine ih (by simp [hk.2.2]) ?_
      simp only [insAt]
      rw [if_neg (fun e' => hk.1 e'.symm), ht]
    | R c l e =>
      simp only [ctxIds_cons, Frame.ids_R, List.cons_append, List.mem_cons, List.mem_append, not_or] at hk
      refine ih (by simp [hk.2.2]) ?_
      simp only [insAt]
      rw [if_neg (fun e' => hk.1 e'.symm), insAt_none x hk.2.1, ht]

/-- every node of a tree is the focus of some context -/
theorem exists_ctx_of_mem {t : Tree} {h : Nat} (hm : h ∈ t.ids) :
    ∃ k c l e r, t = plug k (.node c l e r) ∧ e.id = h := by
  induction t with
  | nil => simp at hm
  | node c l e r ihl ihr =>
    simp only [Cstl.Tree.ids_node, List.mem_append, List.mem_cons] at hm
    rcases hm with hm | hm | hm
    · obtain ⟨k, c', l', e', r', ht, he⟩ := ihl hm
      exact ⟨k ++ [.L c e r], c', l', e', r', by rw [plug_append, ← ht]; rfl, he⟩
    · exact ⟨[], c, l, e, r, rfl, hm.symm⟩
    · obtain ⟨k, c', l', e', r', ht, he⟩ := ihr hm
      exact ⟨k ++ [.R c l e], c', l', e', r', by rw [plug_append, ← ht]; rfl, he⟩

/-! ### the in-order successor: leftmost node of a subtree -/

/-- frames from the leftmost node's parent up to the root of `t` (innermost first) -/
def spine : Tree → Ctx
  | .nil => []
  | .node _ .nil _ _ => []
  | .node c (.node lc ll le lr) e r => spine (.node lc ll le lr) ++ [.L c e r]

/-- the subtree rooted at the leftmost node -/
def minSub : Tree → Tree
  | .nil => .nil
  | .node c .nil e r => .node c .nil e r
  | .node _ (.node lc ll le lr) _ _ => minSub (.node lc ll le lr)

theorem plug_spine (t : Tree) : plug (spine t) (minSub t) = t := by
  induction t with
  | nil => rfl
  | node c l e r ihl _ =>
    cases l with
    | nil => rfl
    | node lc ll le lr => simp only [spine, minSub, plug_append, ihl]; rfl

theorem minSub_form {t : Tree} (ht : t ≠ .nil) : ∃ cy ye ry, minSub t = .node cy .nil ye ry := by
  induction t with
  | nil => exact absurd rfl ht
  | node c l e r ihl _ =>
    cases l with
    | nil => exact ⟨c, e, r, rfl⟩
    | node lc ll le lr => simpa [minSub] using ihl (by simp)

theorem btPopMin_eq {t : Tree} {cy : Color} {ye : Elem} {ry : Tree} (hm : minSub t = .node cy .nil ye ry) :
    btPopMin t = some (ye, plug (spine t) ry) := by
  induction t with
  | nil => simp [minSub] at hm
  | node c l e r ihl _ =>
    cases l with
    | nil =>
      simp only [minSub, Tree.node.injEq] at hm
      obtain ⟨rfl, _, rfl, rfl⟩ := hm
      simp [btPopMin, spine]
    | node lc ll le lr =>
      simp only [minSub] at hm
      have h1 := ihl hm
      rw [show btPopMin (.node c (.node lc ll le lr) e r) =
        (match btPopMin (.node lc ll le lr) with
          | none => some (e, r)
          | some (m, l') => some (m, .node c l' e r)) from rfl, h1]
      simp only [spine, plug_append]
      rfl

end Cstl.TreeL
