import Cstl.TreeL.Prim
import Cstl.TreeL.Path
/-
Direction-generic view of frames and focus moves: `d = true` is the code path
called with (`l`, `r`) = (left, right), `d = false` the mirrored call.
-/
set_option linter.unusedSimpArgs false
namespace Cstl.TreeL
open Cstl.SList (Mem upd upd_same upd_other)
open Cstl.Tree (Color Elem Tree InsRes)
open Cstl.Tree.Color Cstl.Tree.Tree

/-- the frame whose hole is on the `l`-side; `s` is the sibling subtree -/
def mkFrame (d : Bool) (c : Color) (e : Elem) (s : Tree) : Frame := if d then .L c e s else .R c s e

@[simp] theorem mkFrame_true (c : Color) (e : Elem) (s : Tree) : mkFrame true c e s = .L c e s := rfl
@[simp] theorem mkFrame_false (c : Color) (e : Elem) (s : Tree) : mkFrame false c e s = .R c s e := rfl

theorem frame_cases (f : Frame) : ∃ d c e s, f = mkFrame d c e s := by
  cases f with
  | L c e r => exact ⟨true, c, e, r, rfl⟩
  | R c l e => exact ⟨false, c, e, l, rfl⟩

@[simp] theorem plug_mkFrame (d : Bool) (c : Color) (e : Elem) (s : Tree) (K : Ctx) (t : Tree) :
    plug (mkFrame d c e s :: K) t = plug K (mkNode d c t e s) := by cases d <;> rfl

theorem mem_ctxIds_mkFrame {d : Bool} {c : Color} {e : Elem} {s : Tree} {K : Ctx} {z : Nat} :
    z ∈ ctxIds (mkFrame d c e s :: K) ↔ z = e.id ∨ z ∈ s.ids ∨ z ∈ ctxIds K := by
  cases d <;> simp [or_assoc]

theorem Zip.upD {m : TM} {root a p : Nat} {d : Bool} {c : Color} {e : Elem} {s t : Tree} {K : Ctx}
    (h : Zip m root (mkFrame d c e s :: K) a p t) : Zip m root K p (m.pr p) (mkNode d c t e s) := by
  cases d
  · exact h.upR
  · exact h.upL

theorem Zip.downD {m : TM} {root a p : Nat} {d : Bool} {c : Color} {e : Elem} {l r : Tree} {K : Ctx}
    (h : Zip m root K a p (mkNode d c l e r)) : Zip m root (mkFrame d c e r :: K) (chL m d a) a l := by
  cases d
  · exact h.downR
  · exact h.downL

theorem Zip.downD' {m : TM} {root a p : Nat} {d : Bool} {c : Color} {e : Elem} {l r : Tree} {K : Ctx}
    (h : Zip m root K a p (mkNode d c l e r)) : Zip m root (mkFrame (!d) c e l :: K) (chR m d a) a r := by
  cases d
  · exact h.downL
  · exact h.downR

theorem Zip.setC_rootD {m : TM} {root a p : Nat} {K : Ctx} {d : Bool} {c : Color} {l r : Tree} {e : Elem}
    (h : Zip m root K a p (mkNode d c l e r)) (c' : Color) :
    Zip (setC m a c') root K a p (mkNode d c' l e r) := by
  cases d
  · exact h.setC_root c'
  · exact h.setC_root c'

/-- what the code reads at the hole's parent -/
theorem Zip.frameD {m : TM} {root a p : Nat} {d : Bool} {c : Color} {e : Elem} {s t : Tree} {K : Ctx}
    (h : Zip m root (mkFrame d c e s :: K) a p t) :
    p ≠ 0 ∧ e.id = p ∧ m.cl p = c ∧ chL m d p = a ∧ Shape m (chR m d p) p s ∧ (a ≠ 0 → chR m d p ≠ a) := by
  cases d
  · have hc := h.ctx
    simp only [mkFrame_false, CtxShape_R] at hc
    refine ⟨hc.1, by simp [hc.2.1], hc.2.2.1, hc.2.2.2.1, hc.2.2.2.2.1, fun ha => (h.slot_R ha).2.2⟩
  · have hc := h.ctx
    simp only [mkFrame_true, CtxShape_L] at hc
    refine ⟨hc.1, by simp [hc.2.1], hc.2.2.1, hc.2.2.2.1, hc.2.2.2.2.1, fun ha => (h.slot_L ha).2.2⟩

theorem Shape.id_eqD {m : TM} {a p : Nat} {d : Bool} {c : Color} {l r : Tree} {e : Elem}
    (h : Shape m a p (mkNode d c l e r)) : e.id = a := by
  cases d <;> exact Shape.id_eq h

theorem Zip.pr_focus {m : TM} {root a p : Nat} {K : Ctx} {t : Tree} (h : Zip m root K a p t) (ha : a ≠ 0) :
    m.pr a = p := h.sub.parent ha

/-- which side of its parent the focus is on, as the C test `x->p == x->p->p->l` sees it -/
theorem Zip.side_test {m : TM} {root a p : Nat} {d : Bool} {c : Color} {e : Elem} {s t : Tree} {K : Ctx}
    (h : Zip m root (mkFrame d c e s :: K) a p t) (ha : a ≠ 0) : decide (a = m.lf p) = d := by
  cases d
  · have := (h.slot_R ha).2.2
    simp only [decide_eq_false_iff_not]
    exact fun e' => this e'.symm
  · have := (h.slot_L ha).2.1
    simp [this]

/-! ### direction-generic functional steps of the insert fix-up -/

theorem unwind_mkFrame (d : Bool) (c : Color) (e : Elem) (s : Tree) (K : Ctx) (res : InsRes) :
    unwind (mkFrame d c e s :: K) res =
      unwind K (if d then Cstl.Tree.balInsL c res e s else Cstl.Tree.balInsR c s e res) := by
  cases d <;> rfl

theorem isRed_iff {m : TM} {a p : Nat} {t : Tree} (h : Shape m a p t) : t.isRed = true ↔ (a ≠ 0 ∧ m.cl a = red) := by
  cases t with
  | nil => simp [Tree.isRed]; intro h0; exact absurd h h0
  | node c l e r =>
    simp only [Shape_node] at h
    cases c <;> simp [Tree.isRed, h.1, h.2.2.1]

end Cstl.TreeL
