import Cstl.TreeL.Lemmas
/-
Specifications of the link-mutating primitives as transformations of a focused
tree (`Zip`): colour write at the focus, leaf attach, replace-child, rotation.
-/
set_option linter.unusedSimpArgs false
namespace Cstl.TreeL
open Cstl.SList (Mem upd upd_same upd_other)
open Cstl.Tree (Color Elem Tree)
open Cstl.Tree.Color Cstl.Tree.Tree

theorem Shape.id_eq {m : TM} {a p : Nat} {c : Color} {l r : Tree} {e : Elem}
    (h : Shape m a p (.node c l e r)) : e.id = a := by
  simp at h; simp [h.2.1]

theorem Shape.key_eq {m : TM} {a p : Nat} {c : Color} {l r : Tree} {e : Elem}
    (h : Shape m a p (.node c l e r)) : e.key = m.key a := by
  simp at h; simp [h.2.1]

theorem Agree.setC {m : TM} {a z : Nat} (c : Color) (h : z ≠ a) : Agree m (setC m a c) z :=
  ⟨rfl, rfl, rfl, by simp [updC_apply, h], rfl⟩
theorem Agree.setP {m : TM} {a z : Nat} (v : Nat) (h : z ≠ a) : Agree m (setP m a v) z :=
  ⟨by simp [upd_apply, h], rfl, rfl, rfl, rfl⟩
theorem Agree.setLf {m : TM} {a z : Nat} (v : Nat) (h : z ≠ a) : Agree m (setLf m a v) z :=
  ⟨rfl, by simp [upd_apply, h], rfl, rfl, rfl⟩
theorem Agree.setRt {m : TM} {a z : Nat} (v : Nat) (h : z ≠ a) : Agree m (setRt m a v) z :=
  ⟨rfl, rfl, by simp [upd_apply, h], rfl, rfl⟩

/-- replace the focus -/
theorem Zip.replace {m m' : TM} {root root' a a' p : Nat} {k : Ctx} {t t' : Tree} (h : Zip m root k a p t)
    (hs : Shape m' a' p t') (hag : ∀ z ∈ ctxIds k, z ≠ p → Agree m m' z)
    (hslot : SlotUpd m m' root root' k p a') (hnd : (t'.ids ++ ctxIds k).Nodup) : Zip m' root' k a' p t' :=
  ⟨h.ctx.replace (List.nodup_append.mp h.nodup).2.1 hag hslot, hs, hnd⟩

/-- the same context around a new subtree in the same slot -/
theorem Zip.frame {m m' : TM} {root a p : Nat} {k : Ctx} {t t' : Tree} (h : Zip m root k a p t)
    (hs : Shape m' a p t') (hag : ∀ z ∈ ctxIds k, Agree m m' z) (hnd : (t'.ids ++ ctxIds k).Nodup) :
    Zip m' root k a p t' :=
  ⟨h.ctx.frame hag, hs, hnd⟩

/-- what the tests `x == x->p->l`, `x->p == NULL` see at a non-empty focus -/
theorem Zip.slot_nil {m : TM} {root a p : Nat} {t : Tree} (h : Zip m root [] a p t) : p = 0 ∧ root = a := by
  have := h.ctx; simp at this; simp [this]

theorem Zip.slot_L {m : TM} {root a p : Nat} {k : Ctx} {t : Tree} {c : Color} {e : Elem} {r : Tree}
    (h : Zip m root (.L c e r :: k) a p t) (ha : a ≠ 0) : p ≠ 0 ∧ m.lf p = a ∧ m.rt p ≠ a := by
  have hmem := h.sub.root_mem ha
  have hc := h.ctx
  simp at hc
  obtain ⟨h1, h2, h3, h4, h5, h6⟩ := hc
  refine ⟨h1, h4, ?_⟩
  intro hr
  have hm2 : a ∈ r.ids := by rw [← hr]; exact h5.root_mem (by rw [hr]; exact ha)
  have := h.nodup
  simp only [ctxIds_cons, Frame.ids_L] at this
  exact (List.nodup_append.mp this).2.2 a hmem a (by simp [hm2]) rfl

theorem Zip.slot_R {m : TM} {root a p : Nat} {k : Ctx} {t : Tree} {c : Color} {e : Elem} {l : Tree}
    (h : Zip m root (.R c l e :: k) a p t) (ha : a ≠ 0) : p ≠ 0 ∧ m.rt p = a ∧ m.lf p ≠ a := by
  have hmem := h.sub.root_mem ha
  have hc := h.ctx
  simp at hc
  obtain ⟨h1, h2, h3, h4, h5, h6⟩ := hc
  refine ⟨h1, h4, ?_⟩
  intro hr
  have hm2 : a ∈ l.ids := by rw [← hr]; exact h5.root_mem (by rw [hr]; exact ha)
  have := h.nodup
  simp only [ctxIds_cons, Frame.ids_R] at this
  exact (List.nodup_append.mp this).2.2 a hmem a (by simp [hm2]) rfl

/-- `*BN_COLOR(a) = c'` at the focus -/
theorem Zip.setC_root {m : TM} {root a p : Nat} {k : Ctx} {c : Color} {l r : Tree} {e : Elem}
    (h : Zip m root k a p (.node c l e r)) (c' : Color) :
    Zip (setC m a c') root k a p (.node c' l e r) := by
  have hn := h.nodup
  have hid := h.sub.id_eq
  simp only [Cstl.Tree.ids_node, hid] at hn
  have hs := h.sub
  simp at hs
  obtain ⟨h1, h2, h3, h4, h5, h6⟩ := hs
  have hal : a ∉ l.ids := fun hc => by
    have := (List.nodup_append.mp (List.nodup_append.mp hn).1).2.2 a hc a (by simp) rfl
    exact this
  have har : a ∉ r.ids := by
    have := (List.nodup_append.mp (List.nodup_append.mp hn).1).2.1
    exact (List.nodup_cons.mp this).1
  have hak : a ∉ ctxIds k := fun hc =>
    (List.nodup_append.mp hn).2.2 a (by simp) a hc rfl
  refine h.frame ?_ (fun z hz => Agree.setC c' (fun e => hak (e ▸ hz))) (by simpa [hid] using hn)
  simp only [Shape_node, setC_pr, setC_lf, setC_rt, setC_cl, updC_same]
  refine ⟨h1, by simpa [elemAt] using h2, trivial, h4, ?_, ?_⟩
  · exact h5.frame (fun z hz => Agree.setC c' (fun e => hal (e ▸ hz)))
  · exact h6.frame (fun z hz => Agree.setC c' (fun e => har (e ▸ hz)))

/-! ### __cstl_bintree_rotate: the fields after the call -/

structure RotRes (m : TM) (h : Hd) (x : Nat) (d : Bool) (m' : TM) (h' : Hd) : Prop where
  cl : m'.cl = m.cl
  key : m'.key = m.key
  size : h'.size = h.size
  root : h'.root = if m.pr x = 0 then chR m d x else h.root
  pr : ∀ z, m'.pr z = if z = x then chR m d x else if z = chR m d x then m.pr x
        else if z = chL m d (chR m d x) ∧ z ≠ 0 then x else m.pr z
  chl : ∀ z, chL m' d z = if z = chR m d x then x
        else if z = m.pr x ∧ z ≠ 0 ∧ chL m d z = x then chR m d x else chL m d z
  chr : ∀ z, chR m' d z = if z = x then chL m d (chR m d x)
        else if z = m.pr x ∧ z ≠ 0 ∧ chL m d z ≠ x then chR m d x else chR m d z

theorem rotate_fields (m : TM) (h : Hd) (x : Nat) (d : Bool) (hx0 : x ≠ 0) (hy0 : chR m d x ≠ 0)
    (hxy : x ≠ chR m d x) (hbx : chL m d (chR m d x) ≠ x) (hpx : m.pr x ≠ x) (hpy : m.pr x ≠ chR m d x) :
    ∃ m' h', rotate m h x d = some (m', h') ∧ RotRes m h x d m' h' := by
  cases d
  · simp only [chR, chL, Bool.false_eq_true, if_false] at hy0 hxy hbx hpy
    by_cases hb0 : m.rt (m.lf x) = 0 <;> by_cases hp0 : m.pr x = 0
    all_goals
      refine ⟨_, _, by simp [rotate, chR, chL, setChR, setChL, hx0, hy0]; exact ⟨rfl, rfl⟩, ?_⟩
    all_goals
      constructor
      · simp [hb0, hp0, upd_apply, hxy, hxy.symm, hbx, hbx.symm, hpx, hpx.symm, hpy, hpy.symm, apply_ite TM.cl]
      · simp [hb0, hp0, upd_apply, hxy, hxy.symm, hbx, hbx.symm, hpx, hpx.symm, hpy, hpy.symm, apply_ite TM.key]
      · simp [hb0, hp0, upd_apply, hxy, hxy.symm, hbx, hbx.symm, hpx, hpx.symm, hpy, hpy.symm]
      · simp [hb0, hp0, upd_apply, hxy, hxy.symm, hbx, hbx.symm, hpx, hpx.symm, hpy, hpy.symm, chR]
      · intro z
        simp [hb0, hp0, upd_apply, hxy, hxy.symm, hbx, hbx.symm, hpx, hpx.symm, hpy, hpy.symm, chR, chL,
          apply_ite TM.pr, apply_ite TM.lf, apply_ite TM.rt]
        try grind [upd_apply]
      · intro z
        simp [hb0, hp0, upd_apply, hxy, hxy.symm, hbx, hbx.symm, hpx, hpx.symm, hpy, hpy.symm, chR, chL,
          apply_ite TM.pr, apply_ite TM.lf, apply_ite TM.rt]
        try grind [upd_apply]
      · intro z
        simp [hb0, hp0, upd_apply, hxy, hxy.symm, hbx, hbx.symm, hpx, hpx.symm, hpy, hpy.symm, chR, chL,
          apply_ite TM.pr, apply_ite TM.lf, apply_ite TM.rt]
        try grind [upd_apply]
  · simp only [chR, chL, if_true] at hy0 hxy hbx hpy
    by_cases hb0 : m.lf (m.rt x) = 0 <;> by_cases hp0 : m.pr x = 0
    all_goals
      refine ⟨_, _, by simp [rotate, chR, chL, setChR, setChL, hx0, hy0]; exact ⟨rfl, rfl⟩, ?_⟩
    all_goals
      constructor
      · simp [hb0, hp0, upd_apply, hxy, hxy.symm, hbx, hbx.symm, hpx, hpx.symm, hpy, hpy.symm, apply_ite TM.cl]
      · simp [hb0, hp0, upd_apply, hxy, hxy.symm, hbx, hbx.symm, hpx, hpx.symm, hpy, hpy.symm, apply_ite TM.key]
      · simp [hb0, hp0, upd_apply, hxy, hxy.symm, hbx, hbx.symm, hpx, hpx.symm, hpy, hpy.symm]
      · simp [hb0, hp0, upd_apply, hxy, hxy.symm, hbx, hbx.symm, hpx, hpx.symm, hpy, hpy.symm, chR]
      · intro z
        simp [hb0, hp0, upd_apply, hxy, hxy.symm, hbx, hbx.symm, hpx, hpx.symm, hpy, hpy.symm, chR, chL,
          apply_ite TM.pr, apply_ite TM.lf, apply_ite TM.rt]
        try grind [upd_apply]
      · intro z
        simp [hb0, hp0, upd_apply, hxy, hxy.symm, hbx, hbx.symm, hpx, hpx.symm, hpy, hpy.symm, chR, chL,
          apply_ite TM.pr, apply_ite TM.lf, apply_ite TM.rt]
        try grind [upd_apply]
      · intro z
        simp [hb0, hp0, upd_apply, hxy, hxy.symm, hbx, hbx.symm, hpx, hpx.symm, hpy, hpy.symm, chR, chL,
          apply_ite TM.pr, apply_ite TM.lf, apply_ite TM.rt]
        try grind [upd_apply]

/-! ### direction-generic nodes -/

/-- a node whose `l`-side child (in the sense of the `l`/`r` function parameters) is `l` -/
def mkNode (d : Bool) (c : Color) (l : Tree) (e : Elem) (r : Tree) : Tree :=
  if d then .node c l e r else .node c r e l

@[simp] theorem mkNode_true (c : Color) (l r : Tree) (e : Elem) : mkNode true c l e r = .node c l e r := rfl
@[simp] theorem mkNode_false (c : Color) (l r : Tree) (e : Elem) : mkNode false c l e r = .node c r e l := rfl

theorem mkNode_not (d : Bool) (c : Color) (l r : Tree) (e : Elem) : mkNode (!d) c l e r = mkNode d c r e l := by
  cases d <;> rfl

theorem Shape_mkNode (m : TM) (a p : Nat) (d : Bool) (c : Color) (l r : Tree) (e : Elem) :
    Shape m a p (mkNode d c l e r) ↔
      a ≠ 0 ∧ e = elemAt m a ∧ m.cl a = c ∧ m.pr a = p ∧ Shape m (chL m d a) a l ∧ Shape m (chR m d a) a r := by
  cases d <;> simp [chL, chR]
  intro _ _ _ _; exact And.comm

theorem mkNode_ids_perm (d : Bool) (c : Color) (l r : Tree) (e : Elem) :
    (mkNode d c l e r).ids.Perm (e.id :: (l.ids ++ r.ids)) := by
  cases d
  · simp only [mkNode_false, Cstl.Tree.ids_node]
    exact (List.perm_middle).trans (List.Perm.cons _ List.perm_append_comm)
  · simp only [mkNode_true, Cstl.Tree.ids_node]
    exact List.perm_middle

theorem mem_mkNode_ids {d : Bool} {c : Color} {l r : Tree} {e : Elem} {z : Nat} :
    z ∈ (mkNode d c l e r).ids ↔ z = e.id ∨ z ∈ l.ids ∨ z ∈ r.ids := by
  rw [(mkNode_ids_perm d c l r e).mem_iff]; simp

/-- everything the rotation did not touch -/
theorem RotRes.agree {m m' : TM} {h h' : Hd} {x : Nat} {d : Bool} (R : RotRes m h x d m' h') {z : Nat}
    (h1 : z ≠ x) (h2 : z ≠ chR m d x) (h3 : z ≠ m.pr x) (h4 : z = chL m d (chR m d x) → z = 0) :
    Agree m m' z := by
  have a1 := R.pr z
  have a2 := R.chl z
  have a3 := R.chr z
  refine ⟨?_, ?_, ?_, by rw [R.cl], by rw [R.key]⟩
  · grind
  · cases d <;> simp only [chL, chR, Bool.false_eq_true, if_false, if_true] at a2 a3 h2 <;> grind
  · cases d <;> simp only [chL, chR, Bool.false_eq_true, if_false, if_true] at a2 a3 h2 <;> grind

/-- the rotation does not change the link fields of anything but `x`, `y`, `x`'s parent; of the moved
child only the parent link -/
theorem RotRes.agree_child {m m' : TM} {h h' : Hd} {x : Nat} {d : Bool} (R : RotRes m h x d m' h') {z : Nat}
    (h1 : z ≠ x) (h2 : z ≠ chR m d x) (h3 : z ≠ m.pr x) :
    m'.lf z = m.lf z ∧ m'.rt z = m.rt z ∧ m'.cl z = m.cl z ∧ m'.key z = m.key z := by
  have a2 := R.chl z
  have a3 := R.chr z
  refine ⟨?_, ?_, by rw [R.cl], by rw [R.key]⟩
  · cases d <;> simp only [chL, chR, Bool.false_eq_true, if_false, if_true] at a2 a3 h2 <;> grind
  · cases d <;> simp only [chL, chR, Bool.false_eq_true, if_false, if_true] at a2 a3 h2 <;> grind

/-- `__cstl_bintree_rotate(t, x, l, r)` at the focus: `x` with `r`-side child `y` becomes `y` with
`l`-side child `x`; `y`'s former `l`-side subtree `b` is re-parented to `x`; the slot of `x` now holds
`y`; nothing else is written -/
theorem rotate_spec {m : TM} {h : Hd} {k : Ctx} {x p : Nat} {d : Bool} {cx cy : Color} {a b c : Tree}
    {ex ey : Elem} (hz : Zip m h.root k x p (mkNode d cx a ex (mkNode d cy b ey c))) :
    ∃ m' h', rotate m h x d = some (m', h') ∧
      Zip m' h'.root k ey.id p (mkNode d cy (mkNode d cx a ex b) ey c) ∧ h'.size = h.size ∧
      m'.cl = m.cl ∧ m'.key = m.key ∧
      (∀ z, z ≠ x → z ≠ ey.id → z ≠ p → z ∉ b.ids → Agree m m' z) := by
  have hs := hz.sub
  simp only [Shape_mkNode] at hs
  obtain ⟨hx0, hex, hcx, hpx, hsa, hy0, hey, hcy, hpy, hsb, hsc⟩ := hs
  have hexid : ex.id = x := by simp [hex]
  have heyid : ey.id = chR m d x := by simp [hey]
  -- distinctness in a canonical order
  have hnd : (x :: chR m d x :: (a.ids ++ (b.ids ++ (c.ids ++ ctxIds k)))).Nodup := by
    have h1 := hz.nodup
    have p1 : ((mkNode d cx a ex (mkNode d cy b ey c)).ids ++ ctxIds k).Perm
        (x :: chR m d x :: (a.ids ++ (b.ids ++ (c.ids ++ ctxIds k)))) := by
      have q1 := mkNode_ids_perm d cx a (mkNode d cy b ey c) ex
      have q2 := mkNode_ids_perm d cy b c ey
      rw [hexid] at q1
      rw [heyid] at q2
      have q3 : (x :: (a.ids ++ (mkNode d cy b ey c).ids)).Perm (x :: chR m d x :: (a.ids ++ (b.ids ++ c.ids))) := by
        refine List.Perm.cons _ ?_
        refine (List.Perm.append_left _ q2).trans ?_
        exact List.perm_middle
      have := (q1.trans q3).append_right (ctxIds k)
      simpa [List.append_assoc] using this
    exact p1.nodup_iff.mp h1
  have hnd' : ((mkNode d cy (mkNode d cx a ex b) ey c).ids ++ ctxIds k).Nodup := by
    have p1 : ((mkNode d cy (mkNode d cx a ex b) ey c).ids ++ ctxIds k).Perm
        (x :: chR m d x :: (a.ids ++ (b.ids ++ (c.ids ++ ctxIds k)))) := by
      have q1 := mkNode_ids_perm d cy (mkNode d cx a ex b) c ey
      have q2 := mkNode_ids_perm d cx a b ex
      rw [hexid] at q2
      rw [heyid] at q1
      have q3 : (chR m d x :: ((mkNode d cx a ex b).ids ++ c.ids)).Perm
          (x :: chR m d x :: (a.ids ++ (b.ids ++ c.ids))) := by
        refine (List.Perm.cons _ (List.Perm.append_right _ q2)).trans ?_
        simp only [List.cons_append, List.append_assoc]
        exact List.Perm.swap _ _ _
      have := (q1.trans q3).append_right (ctxIds k)
      simpa [List.append_assoc] using this
    exact p1.nodup_iff.mpr hnd
  simp only [List.nodup_cons, List.mem_cons, List.mem_append, not_or] at hnd
  obtain ⟨⟨hxy, hxa, hxb, hxc, hxk⟩, ⟨hya, hyb, hyc, hyk⟩, hrest⟩ := hnd
  obtain ⟨_, hrest2, dab⟩ := List.nodup_append.mp hrest
  obtain ⟨hbn, hrest3, dbc⟩ := List.nodup_append.mp hrest2
  obtain ⟨_, _, dck⟩ := List.nodup_append.mp hrest3
  have hbm : chL m d (chR m d x) ≠ 0 → chL m d (chR m d x) ∈ b.ids := hsb.root_mem
  have hpm : p ≠ 0 → p ∈ ctxIds k := hz.ctx.parent_mem
  have hp0k : p = 0 ↔ k = [] := hz.ctx.parent_zero_iff
  have hpx' : m.pr x ≠ x := by
    rw [hpx]; intro e; rw [e] at hpm; exact hxk (hpm hx0)
  have hpy' : m.pr x ≠ chR m d x := by
    rw [hpx]; intro e; rw [e] at hpm; exact hyk (hpm hy0)
  have hbx' : chL m d (chR m d x) ≠ x := by
    intro e; rw [e] at hbm; exact hxb (hbm hx0)
  obtain ⟨m', h', hrot, R⟩ := rotate_fields m h x d hx0 hy0 hxy hbx' hpx' hpy'
  -- membership facts as disequalities, for the automation
  have dA : ∀ z ∈ a.ids, z ≠ x ∧ z ≠ chR m d x ∧ z ≠ p ∧ z ∉ b.ids ∧ z ≠ 0 := by
    intro z hz'
    have z0 := hsa.ids_ne_zero z hz'
    refine ⟨fun e => hxa (e ▸ hz'), fun e => hya (e ▸ hz'), ?_, fun hb => dab z hz' z (by simp [hb]) rfl, z0⟩
    intro e; rw [← e] at hpm; exact dab z hz' z (by simp [hpm z0]) rfl
  have dB : ∀ z ∈ b.ids, z ≠ x ∧ z ≠ chR m d x ∧ z ≠ p ∧ z ≠ 0 := by
    intro z hz'
    have z0 := hsb.ids_ne_zero z hz'
    refine ⟨fun e => hxb (e ▸ hz'), fun e => hyb (e ▸ hz'), ?_, z0⟩
    intro e; rw [← e] at hpm; exact dbc z hz' z (by simp [hpm z0]) rfl
  have dC : ∀ z ∈ c.ids, z ≠ x ∧ z ≠ chR m d x ∧ z ≠ p ∧ z ∉ b.ids ∧ z ≠ 0 := by
    intro z hz'
    have z0 := hsc.ids_ne_zero z hz'
    refine ⟨fun e => hxc (e ▸ hz'), fun e => hyc (e ▸ hz'), ?_, fun hb => dbc z hb z (by simp [hz']) rfl, z0⟩
    intro e; rw [← e] at hpm; exact dck z hz' z (hpm z0) rfl
  have dK : ∀ z ∈ ctxIds k, z ≠ x ∧ z ≠ chR m d x ∧ z ∉ b.ids := by
    intro z hz'
    exact ⟨fun e => hxk (e ▸ hz'), fun e => hyk (e ▸ hz'), fun hb => dbc z hb z (by simp [hz']) rfl⟩
  have agree_of : ∀ z, z ≠ x → z ≠ chR m d x → z ≠ p → z ∉ b.ids → Agree m m' z := by
    intro z h1 h2 h3 h4
    refine R.agree h1 h2 (by rw [hpx]; exact h3) ?_
    intro e
    by_cases h0 : chL m d (chR m d x) = 0
    · rw [e, h0]
    · rw [← e] at hbm h0; exact absurd (hbm h0) h4
  have r1 := R.pr x
  have r2 := R.pr (chR m d x)
  have r3 := R.chl x
  have r4 := R.chl (chR m d x)
  have r5 := R.chr x
  have r6 := R.chr (chR m d x)
  have hyx : chR m d x ≠ x := fun e => hxy e.symm
  have hxp : x ≠ p := by rw [← hpx]; exact hpx'.symm
  have hyp : chR m d x ≠ p := by rw [← hpx]; exact hpy'.symm
  simp only [if_true, hxy, hyx, if_false, hpx, hxp, hyp, false_and] at r1 r2 r3 r4 r5 r6
  refine ⟨m', h', hrot, ?_, R.size, R.cl, R.key, ?_⟩
  · rw [heyid]
    refine hz.replace ?_ ?_ ?_ (by exact hnd')
    · -- the rotated subtree
      simp only [Shape_mkNode]
      refine ⟨hy0, ?_, by rw [R.cl]; exact hcy, r2, ⟨?_, ?_, by rw [r4, R.cl]; exact hcx, ?_, ?_, ?_⟩, ?_⟩
      · rw [hey]; simp [elemAt, R.key]
      · rw [r4]; exact hx0
      · rw [r4, hex]; simp [elemAt, R.key]
      · rw [r4]; exact r1
      · rw [r4, r3]
        exact hsa.frame (fun z hz' => agree_of z (dA z hz').1 (dA z hz').2.1 (dA z hz').2.2.1 (dA z hz').2.2.2.1)
      · rw [r4, r5]
        refine hsb.reparent hbn (fun z hz' hne => ?_) (fun h0 => ?_)
        · exact R.agree (dB z hz').1 (dB z hz').2.1 (by rw [hpx]; exact (dB z hz').2.2.1) (fun e => absurd e hne)
        · have hb := dB _ (hbm h0)
          have r7 := R.pr (chL m d (chR m d x))
          simp only [hb.1, hb.2.1, if_false, true_and, h0, ne_eq, not_false_eq_true, and_self, if_true] at r7
          exact ⟨r7, R.agree_child hb.1 hb.2.1 (by rw [hpx]; exact hb.2.2.1)⟩
      · rw [r6]
        exact hsc.frame (fun z hz' => agree_of z (dC z hz').1 (dC z hz').2.1 (dC z hz').2.2.1 (dC z hz').2.2.2.1)
    · intro z hz' hzp
      exact agree_of z (dK z hz').1 (dK z hz').2.1 hzp (dK z hz').2.2
    · -- the slot of the hole
      cases k with
      | nil =>
        have := hz.slot_nil
        simp only [SlotUpd]
        rw [R.root, hpx, this.1]; simp
      | cons f k =>
        have hp0 : p ≠ 0 := fun e => by simp [hp0k] at e
        have hpk := hpm hp0
        have rp := R.pr p
        have rl := R.chl p
        have rr := R.chr p
        have hpb : p = chL m d (chR m d x) → p = 0 := fun e => by
          by_cases h0 : chL m d (chR m d x) = 0
          · rw [e, h0]
          · rw [← e] at hbm h0; exact absurd (hbm h0) (dK p hpk).2.2
        have hroot : h'.root = h.root := by rw [R.root, hpx]; simp [hp0]
        cases f with
        | L c0 e0 r0 =>
          obtain ⟨_, s2, s3⟩ := hz.slot_L hx0
          simp only [SlotUpd]
          refine ⟨hroot, ?_, ?_, ?_, by rw [R.cl], by rw [R.key]⟩
          · cases d <;> simp only [chL, chR, Bool.false_eq_true, if_false, if_true] at * <;> grind
          · cases d <;> simp only [chL, chR, Bool.false_eq_true, if_false, if_true] at * <;> grind
          · grind
        | R c0 l0 e0 =>
          obtain ⟨_, s2, s3⟩ := hz.slot_R hx0
          simp only [SlotUpd]
          refine ⟨hroot, ?_, ?_, ?_, by rw [R.cl], by rw [R.key]⟩
          · cases d <;> simp only [chL, chR, Bool.false_eq_true, if_false, if_true] at * <;> grind
          · cases d <;> simp only [chL, chR, Bool.false_eq_true, if_false, if_true] at * <;> grind
          · grind
  · intro z h1 h2 h3 h4
    exact agree_of z h1 (by rw [← heyid]; exact h2) h3 h4
end Cstl.TreeL
