import Cstl.TreeL.Dir
import Cstl.TreeL.Insert
import Cstl.TreeL.Erase
/-
cstl_rbtree_insert at link level: one call of cstl_rbtree_fix_insertion is the
grandparent level of the functional `balInsL` / `balInsR`; the loop is the way
back up of the recursion (`unwind`).
-/
set_option linter.unusedSimpArgs false
namespace Cstl.TreeL
open Cstl.SList (Mem upd upd_same upd_other)
open Cstl.Tree (Color Elem Tree InsRes)
open Cstl.Tree.Color Cstl.Tree.Tree

/-! ### functional: one level of the loop (two frames) -/

theorem func_redUncle (d' d : Bool) (cg : Color) (pe ge : Elem) (ps u X : Tree) (a b : Tree) (xe : Elem) (K : Ctx)
    (hX : X = .node red a xe b) (hu : u.isRed = true) :
    unwind (mkFrame d' red pe ps :: mkFrame d cg ge u :: K) (.newRed a xe b) =
      unwind K (if d then .newRed (mkNode d' black X pe ps) ge u.blacken
                else .newRed u.blacken ge (mkNode d' black X pe ps)) := by
  subst hX
  cases d <;> cases d' <;> simp [unwind, Cstl.Tree.balInsL, Cstl.Tree.balInsR, hu]

theorem func_outer (d : Bool) (cg : Color) (pe ge : Elem) (ps u : Tree) (a b : Tree) (xe : Elem) (K : Ctx)
    (hu : u.isRed = false) :
    unwind (mkFrame d red pe ps :: mkFrame d cg ge u :: K) (.newRed a xe b) =
      .ok (plug K (mkNode d black (.node red a xe b) pe (mkNode d red ps ge u))) := by
  cases d <;> simp [unwind, Cstl.Tree.balInsL, Cstl.Tree.balInsR, hu, unwind_ok]

theorem func_inner (d : Bool) (cg : Color) (pe ge : Elem) (ps u : Tree) (xa xb : Tree) (xe : Elem) (K : Ctx)
    (hu : u.isRed = false) :
    unwind (mkFrame (!d) red pe ps :: mkFrame d cg ge u :: K)
        (if d then .newRed xa xe xb else .newRed xb xe xa) =
      .ok (plug K (mkNode d black (mkNode d red ps pe xa) xe (mkNode d red xb ge u))) := by
  cases d <;> simp [unwind, Cstl.Tree.balInsL, Cstl.Tree.balInsR, hu, unwind_ok]

/-- the two outcomes of one call of `cstl_rbtree_fix_insertion` -/
def InsStep (m' : TM) (h' : Hd) (x' : Nat) (K : Ctx) (res : InsRes) (old : Tree) : Prop :=
  (∃ p' a' e' b', Zip m' h'.root K x' p' (.node red a' e' b') ∧ res = unwind K (.newRed a' e' b') ∧
      (∀ z, z ∈ (Tree.node red a' e' b').ids ↔ z ∈ old.ids)) ∨
  (∃ top p' T, Zip m' h'.root K top p' T ∧ res = .ok (plug K T) ∧ m'.pr x' ≠ 0 ∧ m'.cl (m'.pr x') = black ∧
      (∀ z, z ∈ T.ids ↔ z ∈ old.ids))

theorem fixIns_redUncle {m : TM} {h : Hd} {K : Ctx} {x p : Nat} {d' d : Bool} {cg : Color} {pe ge xe : Elem}
    {ps u a b : Tree}
    (hz : Zip m h.root (mkFrame d' red pe ps :: mkFrame d cg ge u :: K) x p (.node red a xe b))
    (hu : u.isRed = true) :
    ∃ m' x', fixInsertion m h x d = some (m', h, x') ∧ m'.key = m.key ∧
      (∀ z, z ≠ 0 → z ∉ (mkNode d cg (mkNode d' red (.node red a xe b) pe ps) ge u).ids → z ∉ ctxIds K →
        Agree m m' z) ∧
      InsStep m' h x' K (unwind (mkFrame d' red pe ps :: mkFrame d cg ge u :: K) (.newRed a xe b))
        (mkNode d cg (mkNode d' red (.node red a xe b) pe ps) ge u) := by
  have hx0 : x ≠ 0 := by have := hz.sub; simp only [Shape_node] at this; exact this.1
  have hpx := hz.pr_focus hx0
  obtain ⟨hp0, hpid, hpc, hpl, hps, hpr⟩ := hz.frameD
  have Zp := hz.upD
  obtain ⟨hg0, hgid, hgc, hgl, hgu, hgr⟩ := Zp.frameD
  have hy := (isRed_iff hgu).mp hu
  cases u with
  | nil => simp [Tree.isRed] at hu
  | node cu ul ue ur =>
  have hcu : cu = red := by cases cu <;> simp [Tree.isRed] at hu ⊢
  subst hcu
  have Z1 := (Zp.setC_rootD black).upD
  have Z2 := (Z1.downD'.setC_root black).upD
  rw [mkNode_not] at Z2
  have Z3 := Z2.setC_rootD red
  have hfun := func_redUncle d' d cg pe ge ps (.node red ul ue ur) (.node red a xe b) a b xe K rfl hu
  refine ⟨setC (setC (setC m p black) (chR m d (m.pr p)) black) (m.pr p) red, m.pr p, ?_, rfl, ?_, Or.inl ?_⟩
  · simp only [fixInsertion, hpx, hp0, hg0, if_false, hy, ne_eq, not_false_eq_true, and_self, if_true]
  · intro z _ hz' _
    simp only [mem_mkNode_ids, hgid, hpid, not_or] at hz'
    have hym : chR m d (m.pr p) ∈ (Tree.node red ul ue ur).ids := hgu.root_mem hy.1
    refine ((Agree.setC black (z := z) ?_).trans (Agree.setC black ?_)).trans (Agree.setC red ?_)
    · exact hz'.2.1.1
    · intro e'; exact hz'.2.2 (e' ▸ hym)
    · exact hz'.1
  · cases d
    · refine ⟨_, _, _, _, Z3, ?_, ?_⟩
      · rw [hfun]; rfl
      · intro z; simp only [mem_mkNode_ids, Cstl.Tree.ids_node, List.mem_append, List.mem_cons]; grind
    · refine ⟨_, _, _, _, Z3, ?_, ?_⟩
      · rw [hfun]; rfl
      · intro z; simp only [mem_mkNode_ids, Cstl.Tree.ids_node, List.mem_append, List.mem_cons]; grind

theorem fixIns_outer {m : TM} {h : Hd} {K : Ctx} {x p : Nat} {d : Bool} {cg : Color} {pe ge xe : Elem}
    {ps u a b : Tree}
    (hz : Zip m h.root (mkFrame d red pe ps :: mkFrame d cg ge u :: K) x p (.node red a xe b))
    (hu : u.isRed = false) :
    ∃ m' h' x', fixInsertion m h x d = some (m', h', x') ∧ h'.size = h.size ∧ m'.key = m.key ∧
      (∀ z, z ≠ 0 → z ∉ (mkNode d cg (mkNode d red (.node red a xe b) pe ps) ge u).ids → z ∉ ctxIds K →
        Agree m m' z) ∧
      InsStep m' h' x' K (unwind (mkFrame d red pe ps :: mkFrame d cg ge u :: K) (.newRed a xe b))
        (mkNode d cg (mkNode d red (.node red a xe b) pe ps) ge u) := by
  have hx0 : x ≠ 0 := by have := hz.sub; simp only [Shape_node] at this; exact this.1
  have hxid : xe.id = x := hz.sub.id_eq
  have hpx := hz.pr_focus hx0
  obtain ⟨hp0, hpid, hpc, hpl, hps, hpr⟩ := hz.frameD
  have Zp := hz.upD
  obtain ⟨hg0, hgid, hgc, hgl, hgu, hgr⟩ := Zp.frameD
  have hy : ¬ (chR m d (m.pr p) ≠ 0 ∧ m.cl (chR m d (m.pr p)) = red) := by
    rw [← isRed_iff hgu, hu]; simp
  have hxr : x ≠ chR m d p := fun e' => hpr hx0 e'.symm
  have Z1 := ((Zp.setC_rootD black).upD).setC_rootD red
  have e1 : mkNode d red (mkNode d black (Tree.node red a xe b) pe ps) ge u =
      mkNode (!d) red u ge (mkNode (!d) black ps pe (Tree.node red a xe b)) := by simp [mkNode_not]
  rw [e1] at Z1
  obtain ⟨m', h', hrot, Z2, hsz, hcl, hkey, hfr⟩ := rotate_spec (h := h) Z1
  have e2 : mkNode (!d) black (mkNode (!d) red u ge ps) pe (Tree.node red a xe b) =
      mkNode d black (Tree.node red a xe b) pe (mkNode d red ps ge u) := by simp [mkNode_not]
  rw [e2] at Z2
  have Zx := Z2.downD
  have hxa : chL m' d pe.id = x := by rw [← hxid]; exact Zx.sub.id_eq.symm
  rw [hxa] at Zx
  have hpx' := Zx.pr_focus hx0
  obtain ⟨_, _, hpc', _, _, _⟩ := Zx.frameD
  refine ⟨m', h', x, ?_, hsz, hkey, ?_, Or.inr ⟨_, _, _, Z2, func_outer d cg pe ge ps u a b xe K hu, ?_, ?_, ?_⟩⟩
  · simp only [fixInsertion, hpx, hp0, hg0, if_false, hy, hxr, setC_pr, hrot]
  · intro z hz0 hz' hzk
    simp only [mem_mkNode_ids, hgid, hpid, not_or] at hz'
    refine ((Agree.setC black (z := z) hz'.2.1.1).trans (Agree.setC red hz'.1)).trans
      (hfr z hz'.1 (by rw [hpid]; exact hz'.2.1.1) ?_ hz'.2.1.2.2)
    intro e'
    have := Z1.ctx.parent_mem (by rw [← e']; exact hz0)
    exact hzk (e' ▸ this)
  · rw [hpx', hpid]; exact hp0
  · rw [hpx']; exact hpc'
  · intro z; simp only [mem_mkNode_ids, Cstl.Tree.ids_node, List.mem_append, List.mem_cons]; grind

theorem fixIns_inner {m : TM} {h : Hd} {K : Ctx} {x p : Nat} {d : Bool} {cg : Color} {pe ge xe : Elem}
    {ps u xa xb : Tree}
    (hz : Zip m h.root (mkFrame (!d) red pe ps :: mkFrame d cg ge u :: K) x p (mkNode d red xa xe xb))
    (hu : u.isRed = false) :
    ∃ m' h' x', fixInsertion m h x d = some (m', h', x') ∧ h'.size = h.size ∧ m'.key = m.key ∧
      (∀ z, z ≠ 0 → z ∉ (mkNode d cg (mkNode (!d) red (mkNode d red xa xe xb) pe ps) ge u).ids → z ∉ ctxIds K →
        Agree m m' z) ∧
      InsStep m' h' x' K
        (unwind (mkFrame (!d) red pe ps :: mkFrame d cg ge u :: K)
          (if d then .newRed xa xe xb else .newRed xb xe xa))
        (mkNode d cg (mkNode (!d) red (mkNode d red xa xe xb) pe ps) ge u) := by
  have hs := hz.sub
  rw [Shape_mkNode] at hs
  have hx0 : x ≠ 0 := hs.1
  have hxid : xe.id = x := by simp [hs.2.1]
  have hpx := hz.pr_focus hx0
  obtain ⟨hp0, hpid, hpc, hpl, hps, hpr⟩ := hz.frameD
  have Zp := hz.upD
  obtain ⟨hg0, hgid, hgc, hgl, hgu, hgr⟩ := Zp.frameD
  have hy : ¬ (chR m d (m.pr p) ≠ 0 ∧ m.cl (chR m d (m.pr p)) = red) := by
    rw [← isRed_iff hgu, hu]; simp
  have hxr : x = chR m d p := by rw [← hpl]; cases d <;> rfl
  rw [mkNode_not] at Zp
  obtain ⟨m1, h1, hrot1, Zr, hsz1, hcl1, hkey1, hfr1⟩ := rotate_spec (h := h) Zp
  rw [hxid] at Zr
  -- after the first rotation x is where p was, p is its `l`-side child
  have Zpp := Zr.downD
  have hpa : chL m1 d x = p := by rw [← hpid]; exact Zpp.sub.id_eqD.symm
  rw [hpa] at Zpp
  have hpp1 := Zpp.pr_focus hp0
  have hgx1 : m1.pr x = m.pr p := Zr.pr_focus hx0
  have Z1 := ((Zr.setC_rootD black).upD).setC_rootD red
  have e1 : mkNode d red (mkNode d black (mkNode d red ps pe xa) xe xb) ge u =
      mkNode (!d) red u ge (mkNode (!d) black xb xe (mkNode d red ps pe xa)) := by simp [mkNode_not]
  rw [e1] at Z1
  obtain ⟨m', h', hrot, Z2, hsz, hcl, hkey, hfr⟩ := rotate_spec (h := h1) Z1
  have e2 : mkNode (!d) black (mkNode (!d) red u ge xb) xe (mkNode d red ps pe xa) =
      mkNode d black (mkNode d red ps pe xa) xe (mkNode d red xb ge u) := by simp [mkNode_not]
  rw [e2] at Z2
  have Zx := Z2.downD
  have hpa' : chL m' d xe.id = p := by rw [← hpid]; exact Zx.sub.id_eqD.symm
  rw [hpa'] at Zx
  have hpp' := Zx.pr_focus hp0
  obtain ⟨_, _, hxc', _, _, _⟩ := Zx.frameD
  refine ⟨m', h', p, ?_, by rw [hsz, hsz1], by rw [hkey, setC_key, setC_key, hkey1], ?_,
    Or.inr ⟨_, _, _, Z2, func_inner d cg pe ge ps u xa xb xe K hu, ?_, ?_, ?_⟩⟩
  · simp only [fixInsertion, hpx, hp0, hg0, if_false, hy, hxr.symm, if_true, hrot1, hpp1, hx0, setC_pr, hgx1]
    simp only [hrot]
  · intro z hz0 hz' hzk
    simp only [mem_mkNode_ids, hgid, hpid, hxid, not_or] at hz'
    have hzg : z ≠ m.pr p := hz'.1
    have hzx : z ≠ x := hz'.2.1.2.1.1
    have hzp : z ≠ p := hz'.2.1.1
    refine (hfr1 z hzp (by rw [hxid]; exact hzx) hzg hz'.2.1.2.1.2.1).trans ?_
    refine ((Agree.setC black (z := z) hzx).trans (Agree.setC red hzg)).trans
      (hfr z hzg (by rw [hxid]; exact hzx) ?_ hz'.2.1.2.1.2.2)
    intro e'
    have := Z1.ctx.parent_mem (by rw [← e']; exact hz0)
    exact hzk (e' ▸ this)
  · rw [hpp', hxid]; exact hx0
  · rw [hpp']; exact hxc'
  · intro z; simp only [mem_mkNode_ids, Cstl.Tree.ids_node, List.mem_append, List.mem_cons]; grind
theorem mem_plug_ids {K : Ctx} {t : Tree} {z : Nat} : z ∈ (plug K t).ids ↔ z ∈ t.ids ∨ z ∈ ctxIds K := by
  rw [(plug_ids_perm K t).mem_iff]; simp

/-- painting the root black (`*BN_COLOR(t->root) = B`) -/
theorem IsTree.blacken_root {m : TM} {root : Nat} {t : Tree} (h : IsTree m root 0 t) :
    IsTree (setC m root black) root 0 t.blacken := by
  cases t with
  | nil =>
    refine ⟨?_, h.nodup⟩
    have : root = 0 := h.shape
    simp [Tree.blacken, this]
  | node c l e r => exact ((Zip.of_isTree h).setC_root black).isTree_nil

theorem insFixLoop_exit {m : TM} {h : Hd} {x : Nat} (fuel : Nat)
    (hc : ¬ (m.pr x ≠ 0 ∧ m.cl (m.pr x) = red)) : insFixLoop fuel m h x = some (m, h) := by
  cases fuel <;> simp only [insFixLoop, hc, if_false]

/-- the insert fix-up loop refines the way back up of the functional `ins` -/
theorem insFixLoop_spec : ∀ (fuel : Nat) (K : Ctx) (m : TM) (h : Hd) (x p : Nat) (a b : Tree) (xe : Elem) (T : Tree),
    K.length ≤ fuel → Zip m h.root K x p (.node red a xe b) →
    Cstl.Tree.finishIns (unwind K (.newRed a xe b)) = some T →
    ∃ m' h', insFixLoop fuel m h x = some (m', h') ∧ h'.root ≠ 0 ∧
      IsTree (setC m' h'.root black) h'.root 0 T ∧ h'.size = h.size ∧ m'.key = m.key ∧
      (∀ z, z ≠ 0 → z ∉ (plug K (.node red a xe b)).ids → Agree m (setC m' h'.root black) z) := by
  intro fuel
  induction fuel using Nat.strongRecOn with
  | _ fuel ih =>
  intro K m h x p a b xe T hlen hz hfin
  have hx0 : x ≠ 0 := by have := hz.sub; simp only [Shape_node] at this; exact this.1
  have hxid : xe.id = x := hz.sub.id_eq
  have hpx := hz.pr_focus hx0
  have hroot0 : h.root ≠ 0 := by
    have := hz.isTree.shape
    intro e'
    have h2 := (this.zero_iff).mp e'
    have : x ∈ (plug K (Tree.node red a xe b)).ids := mem_plug_ids.mpr (Or.inl (by simp [hxid]))
    rw [h2] at this
    simp at this
  have hrootmem : h.root ∈ (plug K (Tree.node red a xe b)).ids := hz.isTree.shape.root_mem hroot0
  have exit_case : ¬ (m.pr x ≠ 0 ∧ m.cl (m.pr x) = red) → T = (plug K (.node red a xe b)).blacken →
      ∃ m' h', insFixLoop fuel m h x = some (m', h') ∧ h'.root ≠ 0 ∧
        IsTree (setC m' h'.root black) h'.root 0 T ∧ h'.size = h.size ∧ m'.key = m.key ∧
        (∀ z, z ≠ 0 → z ∉ (plug K (.node red a xe b)).ids → Agree m (setC m' h'.root black) z) := by
    intro hc hT
    refine ⟨m, h, insFixLoop_exit fuel hc, hroot0, ?_, rfl, rfl, ?_⟩
    · rw [hT]; exact hz.isTree.blacken_root
    · intro z _ hz'
      exact Agree.setC black (fun e' => hz' (e' ▸ hrootmem))
  cases K with
  | nil =>
    obtain ⟨hp, _⟩ := hz.slot_nil
    refine exit_case (by rw [hpx, hp]; simp) ?_
    simp only [unwind, Cstl.Tree.finishIns, Option.some.injEq] at hfin
    rw [← hfin]; rfl
  | cons f K1 =>
    obtain ⟨d', c, pe, ps, rfl⟩ := frame_cases f
    obtain ⟨hp0, hpid, hpc, hpl, hps, hpr⟩ := hz.frameD
    cases c with
    | black =>
      refine exit_case (by rw [hpx, hpc]; simp) ?_
      have : unwind (mkFrame d' black pe ps :: K1) (.newRed a xe b) =
          .ok (plug (mkFrame d' black pe ps :: K1) (.node red a xe b)) := by
        cases d' <;> simp [unwind, Cstl.Tree.balInsL, Cstl.Tree.balInsR, unwind_ok]
      rw [this] at hfin
      simp only [Cstl.Tree.finishIns, Option.some.injEq] at hfin
      exact hfin.symm
    | red =>
      cases K1 with
      | nil =>
        exfalso
        cases d' <;> simp [unwind, Cstl.Tree.balInsL, Cstl.Tree.balInsR, Cstl.Tree.finishIns] at hfin
      | cons g K2 =>
        obtain ⟨d, cg, ge, u, rfl⟩ := frame_cases g
        have Zp := hz.upD
        obtain ⟨hg0, hgid, hgc, hgl, hgu, hgr⟩ := Zp.frameD
        have hside := Zp.side_test hp0
        cases fuel with
        | zero => simp at hlen
        | succ fuel' =>
        simp only [List.length_cons] at hlen
        -- one call of fix_insertion
        have step : ∃ m1 h1 x1, fixInsertion m h x d = some (m1, h1, x1) ∧ h1.size = h.size ∧ m1.key = m.key ∧
            (∀ z, z ≠ 0 → z ∉ (mkNode d cg (mkNode d' red (.node red a xe b) pe ps) ge u).ids → z ∉ ctxIds K2 →
              Agree m m1 z) ∧
            InsStep m1 h1 x1 K2 (unwind (mkFrame d' red pe ps :: mkFrame d cg ge u :: K2) (.newRed a xe b))
              (mkNode d cg (mkNode d' red (.node red a xe b) pe ps) ge u) := by
          cases hu : u.isRed with
          | true =>
            obtain ⟨m1, x1, s1, s2, s3, s4⟩ := fixIns_redUncle hz hu
            exact ⟨m1, h, x1, s1, rfl, s2, s3, s4⟩
          | false =>
            cases d <;> cases d'
            · exact fixIns_outer (d := false) hz hu
            · exact fixIns_inner (d := false) (xa := b) (xb := a) hz hu
            · exact fixIns_inner (d := true) (xa := a) (xb := b) hz hu
            · exact fixIns_outer (d := true) hz hu
        obtain ⟨m1, h1, x1, s1, s2, s3, s4, s5⟩ := step
        have hloop : insFixLoop (fuel' + 1) m h x = insFixLoop fuel' m1 h1 x1 := by
          simp only [insFixLoop, hpx, hp0, hpc, ne_eq, not_false_eq_true, and_self, if_true, hg0, if_false, hside, s1]
        have hplug : plug (mkFrame d' red pe ps :: mkFrame d cg ge u :: K2) (.node red a xe b) =
            plug K2 (mkNode d cg (mkNode d' red (.node red a xe b) pe ps) ge u) := by simp
        rcases s5 with ⟨p', a', e', b', Z', hres, hids⟩ | ⟨top, p', T', Z', hres, hx1, hx1c, hids⟩
        · rw [hres] at hfin
          obtain ⟨m', h', l1, l2, l3, l4, l5, l6⟩ := ih fuel' (Nat.lt_succ_self _) K2 m1 h1 x1 p' a' b' e' T
            (by omega) Z' hfin
          refine ⟨m', h', by rw [hloop, l1], l2, l3, by rw [l4, s2], by rw [l5, s3], ?_⟩
          intro z hz0 hz'
          rw [hplug, mem_plug_ids, not_or] at hz'
          refine (s4 z hz0 hz'.1 hz'.2).trans (l6 z hz0 ?_)
          rw [mem_plug_ids, not_or, hids z]
          exact hz'
        · rw [hres] at hfin
          simp only [Cstl.Tree.finishIns, Option.some.injEq] at hfin
          have hr1 : h1.root ≠ 0 := by
            intro e'
            have h2 := (Z'.isTree.shape.zero_iff).mp e'
            have h3 : x ∈ (plug K2 T').ids :=
              mem_plug_ids.mpr (Or.inl ((hids x).mpr (by simp [mem_mkNode_ids, hxid])))
            rw [h2] at h3; simp at h3
          refine ⟨m1, h1, by rw [hloop]; exact insFixLoop_exit fuel' (by rw [hx1c]; simp), hr1, ?_, s2, s3, ?_⟩
          · rw [← hfin]; exact Z'.isTree.blacken_root
          · intro z hz0 hz'
            rw [hplug, mem_plug_ids, not_or] at hz'
            refine (s4 z hz0 hz'.1 hz'.2).trans (Agree.setC black ?_)
            intro e'
            have := Z'.isTree.shape.root_mem hr1
            rw [mem_plug_ids, hids] at this
            rw [← e'] at this
            exact absurd this (by rw [not_or]; exact hz')
theorem insPath_length_le (key : Int) (t : Tree) : (insPath key t).length ≤ t.height := by
  induction t with
  | nil => simp [insPath]
  | node c l e r ihl ihr =>
    simp only [insPath, Tree.height]
    split <;> simp only [List.length_append, List.length_singleton] <;> omega

theorem length_add_size_le_plug (k : Ctx) : ∀ t : Tree, k.length + t.size ≤ (plug k t).size := by
  induction k with
  | nil => intro t; simp
  | cons f k ih =>
    intro t
    cases f with
    | L c e r => have := ih (.node c t e r); simp only [plug_L, List.length_cons, Tree.size] at *; omega
    | R c l e => have := ih (.node c l e t); simp only [plug_R, List.length_cons, Tree.size] at *; omega

/-- `cstl_rbtree_insert(t, n, hint)` from a focused tree (see `btInsert_zip`) -/
theorem rbInsert_zip {m : TM} {h : Hd} {k : Ctx} {a p n hint : Nat} {t T : Tree} (hz : Zip m h.root k a p t)
    (h0 : hint = 0 → k = []) (h1 : hint ≠ 0 → hint = a) (hsz : (plug k t).size ≤ h.size) (hn0 : n ≠ 0)
    (hnt : n ∉ (plug k t).ids)
    (hfin : Cstl.Tree.finishIns (unwind k (Cstl.Tree.ins (elemAt m n) t)) = some T) :
    ∃ m' h', rbInsert m h n hint = some (m', h') ∧ IsTree m' h'.root 0 T ∧ h'.size = h.size + 1 ∧
      m'.key = m.key ∧ (∀ z, z ≠ 0 → z ≠ n → z ∉ (plug k t).ids → Agree m m' z) := by
  have hnt' := hnt
  rw [mem_plug_ids, not_or] at hnt'
  have hfuel : t.height ≤ h.size + 1 := by
    have := height_le_size t
    have := size_le_plug k t
    omega
  obtain ⟨P, m1, h1', b1, b2, b3, b4, b5, b6⟩ := btInsert_zip hz h0 h1 hfuel hn0 hnt'.1 hnt'.2
  have Z2 := b2.setC_root red
  have hx : elemAt m1 n = elemAt m n := by simp [elemAt, b5]
  rw [ins_unwind, ← unwind_append] at hfin
  have hlen : (insPath (m.key n) t ++ k).length ≤ h1'.size + 1 := by
    have e1 := insPath_length_le (m.key n) t
    have e2 := height_le_size t
    have e3 := length_add_size_le_plug k t
    simp only [List.length_append]
    omega
  obtain ⟨m3, h3, l1, l2, l3, l4, l5, l6⟩ := insFixLoop_spec (h1'.size + 1) _ _ h1' n P .nil .nil (elemAt m n) T hlen
    Z2 (by simpa using hfin)
  refine ⟨setC m3 h3.root black, h3, ?_, l3, by rw [l4, b3], by rw [setC_key, l5, setC_key, b5], ?_⟩
  · simp only [rbInsert, b1, l1, l2, if_false]
  · intro z hz0 hzn hzt
    have hzP : z ≠ P := by
      intro e'
      have := b2.ctx.parent_mem (by rw [← e']; exact hz0)
      rw [← e', ctxIds_append] at this
      apply hzt
      rw [mem_plug_ids]
      have hp2 := plug_ids_perm (insPath (m.key n) t) .nil
      rw [plug_insPath_nil] at hp2
      simp only [List.mem_append] at this
      rcases this with h' | h'
      · exact Or.inl (hp2.mem_iff.mpr (by simp [h']))
      · exact Or.inr h'
    refine ((b6 z hzn hzP).trans (Agree.setC red hzn)).trans (l6 z hz0 ?_)
    rw [plug_insPath, mem_plug_ids, not_or]
    have hp2 : ∀ w, w ∈ (plug (insPath (m.key n) t) (Tree.node red .nil (elemAt m n) .nil)).ids ↔ w = n ∨ w ∈ t.ids := by
      intro w
      rw [mem_plug_ids]
      have hp3 := plug_ids_perm (insPath (m.key n) t) .nil
      rw [plug_insPath_nil] at hp3
      rw [hp3.mem_iff]
      simp
    rw [mem_plug_ids, not_or] at hzt
    rw [hp2, not_or]
    exact ⟨⟨hzn, hzt.1⟩, hzt.2⟩

/-- `cstl_rbtree_insert(t, n, NULL)` refines `rbInsert` -/
theorem rbInsert_refines {m : TM} {h : Hd} {t T : Tree} {n : Nat} (ht : IsTree m h.root 0 t) (hsz : h.size = t.size)
    (hn0 : n ≠ 0) (hnt : n ∉ t.ids) (hf : Cstl.Tree.rbInsert (elemAt m n) t = some T) :
    ∃ m' h', rbInsert m h n 0 = some (m', h') ∧ IsTree m' h'.root 0 T ∧ h'.size = h.size + 1 ∧
      m'.key = m.key ∧ (∀ z, z ≠ 0 → z ≠ n → z ∉ t.ids → Agree m m' z) :=
  rbInsert_zip (hint := 0) (k := []) (Zip.of_isTree ht) (fun _ => rfl) (fun e => absurd rfl e)
    (by simp [hsz]) hn0 (by simpa using hnt) (by simpa [unwind, Cstl.Tree.rbInsert] using hf)

/-- `cstl_rbtree_insert(t, n, hint)` with a hint that is a node of the tree refines `rbInsertAt` -/
theorem rbInsertAt_refines {m : TM} {h : Hd} {t T : Tree} {n hint : Nat} (ht : IsTree m h.root 0 t)
    (hsz : h.size = t.size) (hn0 : n ≠ 0) (hnt : n ∉ t.ids) (hh : hint ∈ t.ids)
    (hf : Cstl.Tree.rbInsertAt hint (elemAt m n) t = some (some T)) :
    ∃ m' h', rbInsert m h n hint = some (m', h') ∧ IsTree m' h'.root 0 T ∧ h'.size = h.size + 1 ∧
      m'.key = m.key ∧ (∀ z, z ≠ 0 → z ≠ n → z ∉ t.ids → Agree m m' z) := by
  obtain ⟨k, c, l, e, r, htk, heid⟩ := exists_ctx_of_mem hh
  subst htk
  obtain ⟨a, p, hz⟩ := Zip.of_plug ht
  have ha : a = hint := by rw [← heid]; exact hz.sub.id_eq.symm
  subst ha
  have h0 : a ≠ 0 := by have := hz.sub; simp only [Shape_node] at this; exact this.1
  have hak : a ∉ ctxIds k := by
    intro hc'
    exact (List.nodup_append.mp hz.nodup).2.2 a (by simp [heid]) a hc' rfl
  refine rbInsert_zip (hint := a) hz (fun e' => absurd e' h0) (fun _ => rfl) (by simp [hsz]) hn0 hnt ?_
  have h1 : Cstl.Tree.insAt a (elemAt m n) (Tree.node c l e r) =
      some (Cstl.Tree.ins (elemAt m n) (Tree.node c l e r)) := by simp [Cstl.Tree.insAt, heid]
  have h2 := insAt_plug (elemAt m n) k hak h1
  simp only [Cstl.Tree.rbInsertAt, h2, Option.map_some, Option.some.injEq] at hf
  exact hf

end Cstl.TreeL
