import Cstl.Gen.TreeLC2
import Cstl.TreeL.Model
import Cstl.TreeL.Lemmas
import Cstl.Tree.Events
/-
Translator tie, part 2, for the pointer-manipulating code of src/bintree.c and src/rbtree.c.

`Cstl/Gen/TreeLC2.lean` is regenerated from /repo's current sources by tools/c2lean_tree.py on every
check run (tools/areas/treel_tie.py: `tie2_run`); the fixed theorems below are re-checked by the kernel
against the regenerated definitions.

Form of the ties.  The translation is total (a read through NULL reads address 0, as in TreeLC); the
hand-written model (TreeL/Model.lean) stops with `none` where the C code would dereference NULL and where a
loop runs out of fuel.  Every tie says: WHEREVER THE MODEL DOES NOT STOP IT IS THE TRANSLATION,

    model … = some r  →  translation … = some r          (loop-free C functions:  translation … = r)

with the fuel the model uses (`h.size`, `h.size + 1`, …) handed to the translated loops; loops by induction
on the fuel.  `rb_history_no_stop` / `bt_history_refines` (Props) show that the model never stops on a
reachable state, so on those states model and translation are equal.

Parameters of the translation and how the ties instantiate them
* `d : Bool` – the `(l, r)` child-selector pair (`true`: `l = __cstl_bintree_left`); the loops of
  `cstl_rbtree_insert` / `__cstl_rbtree_erase` call the fix-up translation with `true` / `false` where the
  model computes `decide …`.
* `cmp : Nat → Nat → Int` – `__cstl_bintree_cmp` on node addresses; insert needs `cmp a b < 0 ↔ key a < key b`,
  find needs `CmpProbe` (the probe element orders like the key `k` the model is given).
* `adr_x` – the address of the stack-local stand-in `_x` of `__cstl_rbtree_erase` = the model's `sx`.
* `par`, `par_cell` – the out parameter of `cstl_bintree_find` (address, content before); the content after
  is an extra result.
* `visit : σ → TM → Nat → Nat → σ × TM × Int` – the callback of `__cstl_bintree_foreach`.  There is no
  link-level model of the traversal; `foreach_refines` ties the translation directly to the functional
  `Cstl.Tree.walk` (the function the C01 traversal theorems are about) on every memory that represents a
  tree (`Shape`), for the callback `visitL visit` that logs the visit and leaves the links alone.
-/
namespace Cstl.TreeL.Tie2
open Cstl.TreeL Cstl.Gen.TreeLC2
open Cstl.Tree (Color Elem Tree Ord Ev WSt walk doVisit)
open Cstl.Tree.Color Cstl.Tree.Tree

theorem rotate_tie (m : TM) (h : Hd) (x : Nat) (d : Bool) :
    rotate m h x d =
      if x = 0 then none else if chR m d x = 0 then none else some (c_priv_cstl_bintree_rotate m h x d) := by
  by_cases hx : x = 0
  · simp [rotate, hx]
  · by_cases hy : chR m d x = 0
    · simp [rotate, hx, hy]
    · simp only [rotate, c_priv_cstl_bintree_rotate, hx, hy, if_false]

@[simp] theorem setC_pr (m : TM) (a : Nat) (c : Color) : (setC m a c).pr = m.pr := rfl
@[simp] theorem setC_lf (m : TM) (a : Nat) (c : Color) : (setC m a c).lf = m.lf := rfl
@[simp] theorem setC_rt (m : TM) (a : Nat) (c : Color) : (setC m a c).rt = m.rt := rfl
@[simp] theorem chL_setC (m : TM) (a : Nat) (c : Color) (d : Bool) (x : Nat) : chL (setC m a c) d x = chL m d x := rfl
@[simp] theorem chR_setC (m : TM) (a : Nat) (c : Color) (d : Bool) (x : Nat) : chR (setC m a c) d x = chR m d x := rfl

theorem ite_none_some {α : Type} {c : Prop} [Decidable c] {a r : α}
    (h : (if c then none else some a) = some r) : a = r := by
  split at h
  · cases h
  · cases h; rfl

theorem fixInsertion_tie (m : TM) (h : Hd) (x : Nat) (d : Bool) (r : TM × Hd × Nat)
    (hr : fixInsertion m h x d = some r) : c_cstl_rbtree_fix_insertion m h x d = r := by
  unfold fixInsertion at hr
  simp only [rotate_tie] at hr
  unfold c_cstl_rbtree_fix_insertion
  by_cases hp : m.pr x = 0
  · simp [hp] at hr
  by_cases hg : m.pr (m.pr x) = 0
  · simp [hp, hg] at hr
  simp only [hp, hg, if_false] at hr
  by_cases hy : chR m d (m.pr (m.pr x)) ≠ 0 ∧ m.cl (chR m d (m.pr (m.pr x))) = red
  · rw [if_pos hy] at hr
    cases hr
    simp [hy]
  rw [if_neg hy] at hr
  simp only [if_neg hy]
  by_cases hc : x = chR m d (m.pr x)
  · simp only [if_pos hc] at hr ⊢
    by_cases h0 : chR m d (m.pr x) = 0
    · simp [h0] at hr
    simp only [h0, if_false] at hr
    generalize c_priv_cstl_bintree_rotate m h (m.pr x) d = R at hr ⊢
    obtain ⟨m1, h1⟩ := R
    simp only [setC_pr] at hr ⊢
    by_cases hp1 : m1.pr (m.pr x) = 0
    · simp [hp1] at hr
    by_cases hg1 : m1.pr (m1.pr (m.pr x)) = 0
    · simp [hp1, hg1] at hr
    simp only [hp1, hg1, if_false] at hr
    split at hr
    · cases hr
    · rename_i heq
      cases hr
      rw [ite_none_some heq]
  · simp only [if_neg hc] at hr ⊢
    simp only [setC_pr, hp, hg, if_false] at hr ⊢
    split at hr
    · cases hr
    · rename_i heq
      cases hr
      rw [ite_none_some heq]

/-! ### the loop of cstl_rbtree_insert -/

theorem insFixLoop_tie (fuel : Nat) (m : TM) (h : Hd) (x : Nat) (r : TM × Hd)
    (hr : insFixLoop fuel m h x = some r) :
    (c_cstl_rbtree_insert_loop1 fuel m h x).map (fun s => (s.1, s.2.1)) = some r := by
  induction fuel generalizing m h x with
  | zero =>
    unfold insFixLoop at hr
    unfold c_cstl_rbtree_insert_loop1
    by_cases hc : m.pr x ≠ 0 ∧ m.cl (m.pr x) = red
    · rw [if_pos hc] at hr; cases hr
    · rw [if_neg hc] at hr; rw [if_neg hc]; cases hr; rfl
  | succ f ih =>
    unfold insFixLoop at hr
    unfold c_cstl_rbtree_insert_loop1
    by_cases hc : m.pr x ≠ 0 ∧ m.cl (m.pr x) = red
    · rw [if_pos hc] at hr; rw [if_pos hc]
      by_cases hg : m.pr (m.pr x) = 0
      · simp [hg] at hr
      simp only [hg, if_false] at hr
      by_cases hd : m.pr x = m.lf (m.pr (m.pr x))
      · rw [decide_eq_true hd] at hr
        simp only [if_pos hd]
        split at hr
        · cases hr
        · rename_i m' h' x' heq
          rw [fixInsertion_tie _ _ _ _ _ heq]
          exact ih _ _ _ hr
      · rw [decide_eq_false hd] at hr
        simp only [if_neg hd]
        split at hr
        · cases hr
        · rename_i m' h' x' heq
          rw [fixInsertion_tie _ _ _ _ _ heq]
          exact ih _ _ _ hr
    · rw [if_neg hc] at hr; rw [if_neg hc]; cases hr; rfl


/-! ### cstl_bintree_insert -/

theorem insLoop_tie (cmp : Nat → Nat → Int) (m : TM) (h : Hd) (bn : Nat)
    (hcmp : ∀ a b, cmp a b < 0 ↔ m.key a < m.key b) (fuel bp : Nat) (bc : Loc) (r : Nat × Loc)
    (hr : insLoop m h bn fuel bp bc = some r) :
    c_cstl_bintree_insert_loop1 cmp m h bn fuel bc bp = some (r.2, r.1) := by
  induction fuel generalizing bp bc with
  | zero =>
    unfold insLoop at hr
    unfold c_cstl_bintree_insert_loop1
    by_cases hc : rdLoc m h bp bc = 0
    · rw [if_pos hc] at hr; cases hr; simp [hc]
    · rw [if_neg hc] at hr; cases hr
  | succ f ih =>
    unfold insLoop at hr
    unfold c_cstl_bintree_insert_loop1
    by_cases hc : rdLoc m h bp bc = 0
    · rw [if_pos hc] at hr; cases hr; simp [hc]
    · rw [if_neg hc] at hr
      rw [if_pos (by simpa using hc)]
      by_cases hk : m.key bn < m.key (rdLoc m h bp bc)
      · simp only [hk, if_true] at hr
        simp only [(hcmp _ _).2 hk, if_true]
        exact ih _ _ hr
      · simp only [hk, if_false] at hr
        simp only [mt (hcmp _ _).1 hk, if_false]
        exact ih _ _ hr

theorem btInsert_tie (cmp : Nat → Nat → Int) (m : TM) (h : Hd) (bn p : Nat)
    (hcmp : ∀ a b, cmp a b < 0 ↔ m.key a < m.key b) (r : TM × Hd)
    (hr : btInsert m h bn p = some r) :
    c_cstl_bintree_insert cmp (h.size + 1) m h bn p = some r := by
  unfold btInsert at hr
  unfold c_cstl_bintree_insert
  by_cases hp : p ≠ 0
  · simp only [if_pos hp] at hr ⊢
    split at hr
    · cases hr
    · rename_i bp bc heq
      rw [insLoop_tie cmp m h bn hcmp _ _ _ _ heq]
      cases hr
      cases bc <;> rfl
  · simp only [if_neg hp, rdLoc] at hr ⊢
    split at hr
    · cases hr
    · rename_i bp bc heq
      rw [insLoop_tie cmp m h bn hcmp _ _ _ _ heq]
      cases hr
      cases bc <;> rfl

theorem btInsert_size (m : TM) (h : Hd) (bn p : Nat) (r : TM × Hd) (hr : btInsert m h bn p = some r) :
    r.2.size = h.size + 1 := by
  unfold btInsert at hr
  simp only at hr
  split at hr
  · cases hr
  · rename_i bp bc heq
    cases hr
    cases bc <;> rfl

/-! ### cstl_rbtree_insert -/

theorem rbInsert_tie (cmp : Nat → Nat → Int) (m : TM) (h : Hd) (n p : Nat)
    (hcmp : ∀ a b, cmp a b < 0 ↔ m.key a < m.key b) (r : TM × Hd)
    (hr : rbInsert m h n p = some r) :
    c_cstl_rbtree_insert cmp (h.size + 1) (h.size + 2) m h n p = some r := by
  unfold rbInsert at hr
  unfold c_cstl_rbtree_insert
  split at hr
  · cases hr
  · rename_i m1 h1 heq
    rw [btInsert_tie cmp m h n p hcmp _ heq]
    have hs := btInsert_size _ _ _ _ _ heq
    simp only at hs
    rw [hs] at hr
    simp only at hr
    split at hr
    · cases hr
    · rename_i m3 h3 heq2
      have hl := insFixLoop_tie _ _ _ _ _ heq2
      simp only
      cases hc : c_cstl_rbtree_insert_loop1 (h.size + 1 + 1) (setC m1 n red) h1 n with
      | none => simp [hc] at hl
      | some s =>
        obtain ⟨m6, t5, x5⟩ := s
        simp [hc] at hl
        obtain ⟨e1, e2⟩ := hl
        subst e1; subst e2
        split at hr
        · cases hr
        · cases hr; rfl


/-! ### cstl_rbtree_fix_deletion -/

theorem rotate_some (m : TM) (h : Hd) (x : Nat) (d : Bool) (r : TM × Hd) (hr : rotate m h x d = some r) :
    c_priv_cstl_bintree_rotate m h x d = r := by
  rw [rotate_tie] at hr
  split at hr
  · cases hr
  · exact ite_none_some hr

theorem fixDeletion_tie (m : TM) (h : Hd) (x : Nat) (d : Bool) (r : TM × Hd × Nat)
    (hr : fixDeletion m h x d = some r) : c_cstl_rbtree_fix_deletion m h x d = r := by
  unfold fixDeletion at hr
  split at hr
  · cases hr
  rename_i m1 h1 w1 hs
  unfold c_cstl_rbtree_fix_deletion
  extract_lets w ma mb R1 m4 t2 m3 w3 m6 m7 R2 m9 t4 m8 w5 m10 m11 m12 R3 m14 t6 m5 t5 x3
  have key : m4 = m1 ∧ t2 = h1 ∧ w3 = w1 := by
    unfold fixDelSibling at hs
    simp only at hs
    split at hs
    · cases hs
    split at hs
    · rename_i hred
      split at hs
      · cases hs
      · rename_i ma' ha' heq
        have := rotate_some _ _ _ _ _ heq
        cases hs
        simp only [m4, t2, w3, m3, if_pos hred, R1, mb, ma, w]
        simp only [setC_pr] at this ⊢
        rw [this]
        simp
    · rename_i hred
      cases hs
      simp only [m4, t2, w3, if_neg hred, w]
      simp
  obtain ⟨e1, e2, e3⟩ := key
  clear_value m4 t2 w3
  subst e1 e2 e3
  clear hs
  unfold fixDelCases at hr
  have hb : ∀ a, blackOrNull m4 a = true ↔ (a = 0 ∨ m4.cl a = black) := by
    intro a; simp [blackOrNull]
  split at hr
  · cases hr
  split at hr
  · rename_i hbb
    simp only [Bool.and_eq_true, hb] at hbb
    cases hr
    simp only [m14, t6, x3, if_pos hbb, m5]
  · rename_i hbb
    simp only [Bool.and_eq_true, hb] at hbb
    split at hr
    · cases hr
    rename_i m2' h2' w2' hn
    have key2 : m9 = m2' ∧ t4 = h2' ∧ w5 = w2' := by
      split at hn
      · rename_i hbr
        rw [hb] at hbr
        split at hn
        · cases hn
        simp only at hn
        split at hn
        · cases hn
        rename_i mr hr' heq
        have := rotate_some _ _ _ _ _ heq
        cases hn
        simp only [m9, t4, w5, if_pos hbr, m8, R2, m7, m6]
        rw [this]
        simp
      · rename_i hbr
        rw [hb] at hbr
        cases hn
        simp only [m9, t4, w5, if_neg hbr]
        simp
    obtain ⟨e1, e2, e3⟩ := key2
    clear_value m9 t4 w5
    subst e1 e2 e3
    clear hn
    unfold fixDelFar at hr
    split at hr
    · cases hr
    simp only at hr
    split at hr
    · cases hr
    split at hr
    · cases hr
    rename_i m6' h6' heq
    have := rotate_some _ _ _ _ _ heq
    cases hr
    simp only [m14, t6, x3, if_neg hbb, t5, R3, m12, m11, m10]
    simp only [setC_pr, chR_setC] at this ⊢
    rw [this]

/-! ### the loop and the stand-in node of __cstl_rbtree_erase -/

theorem delFixLoop_tie (sx fuel : Nat) (m : TM) (h : Hd) (x : Nat) (r : TM × Hd × Nat)
    (hr : delFixLoop sx fuel m h x = some r) :
    c_priv_cstl_rbtree_erase_loop1 sx fuel m h x = some r := by
  induction fuel generalizing m h x with
  | zero =>
    unfold delFixLoop at hr
    unfold c_priv_cstl_rbtree_erase_loop1
    split at hr
    · cases hr
    split at hr
    · cases hr
    · rename_i hc; rw [if_neg hc]; exact hr
  | succ f ih =>
    unfold delFixLoop at hr
    unfold c_priv_cstl_rbtree_erase_loop1
    split at hr
    · cases hr
    split at hr
    · rename_i hc
      rw [if_pos hc]
      simp only at hr
      by_cases hD : x = m.lf (m.pr x) ∨ (x = sx ∧ m.lf (m.pr x) = 0)
      · have hd : (decide (x = m.lf (m.pr x)) || (decide (x = sx) && decide (m.lf (m.pr x) = 0))) = true := by
          simpa using hD
        rw [hd] at hr
        simp only [if_pos hD]
        split at hr
        · cases hr
        · rename_i m' h' x' heq
          rw [fixDeletion_tie _ _ _ _ _ heq]
          exact ih _ _ _ hr
      · have hd : (decide (x = m.lf (m.pr x)) || (decide (x = sx) && decide (m.lf (m.pr x) = 0))) = false := by
          simpa using hD
        rw [hd] at hr
        simp only [if_neg hD]
        split at hr
        · cases hr
        · rename_i m' h' x' heq
          rw [fixDeletion_tie _ _ _ _ _ heq]
          exact ih _ _ _ hr
    · rename_i hc; rw [if_neg hc]; exact hr


/-! ### cstl_bintree_slide, __cstl_bintree_next, __cstl_bintree_erase -/

theorem slide_tie (m : TM) (d : Bool) (fuel a c : Nat) (r : Nat) (hr : slide m d fuel a = some r) :
    c_cstl_bintree_slide_loop1 m d fuel a c = some (r, 0) := by
  induction fuel generalizing a c with
  | zero =>
    unfold slide at hr
    unfold c_cstl_bintree_slide_loop1
    split at hr
    · rename_i hc; cases hr; simp [hc]
    · cases hr
  | succ f ih =>
    unfold slide at hr
    unfold c_cstl_bintree_slide_loop1
    split at hr
    · rename_i hc; cases hr; simp [hc]
    · rename_i hc
      simp only [ne_eq, hc, not_false_eq_true, if_true]
      exact ih _ _ hr

/-- `__cstl_bintree_next(bn)` under `bn->r != NULL` (the only way `__cstl_bintree_erase` calls it) is the
slide to the leftmost node of the right subtree; the walk-up loop (fuel `f2`) is not entered -/
theorem next_tie (m : TM) (fuel f2 bn y : Nat) (hrt : m.rt bn ≠ 0) (hs : slide m true fuel (m.rt bn) = some y) :
    c_priv_cstl_bintree_next fuel f2 m bn = some (m, y) := by
  unfold c_priv_cstl_bintree_next c_priv_cstl_bintree_adjacent c_cstl_bintree_slide
  have h1 : chL m false bn = m.rt bn := rfl
  simp only [h1, if_pos hrt, Bool.not_false]
  rw [slide_tie m true fuel (m.rt bn) 0 y hs]

theorem btEraseNode_tie (m : TM) (h : Hd) (bn f2 : Nat) (r : TM × Hd × Nat)
    (hr : btEraseNode m h bn = some r) :
    c_priv_cstl_bintree_erase h.size f2 m h bn = some r := by
  unfold btEraseNode at hr
  unfold c_priv_cstl_bintree_erase
  by_cases hc : m.lf bn ≠ 0 ∧ m.rt bn ≠ 0
  · rw [if_pos hc] at hr
    simp only [if_pos hc]
    split at hr
    · cases hr
    rename_i y hs
    rw [next_tie m h.size f2 bn y hc.2 hs]
    simp only
    by_cases hy : y = bn
    · simp only [replaceChild, hy, ne_eq, not_true_eq_false, if_false] at hr ⊢
      exact hr
    · simp only [replaceChild, hy, ne_eq, not_false_eq_true, if_true] at hr ⊢
      exact hr
  · rw [if_neg hc] at hr
    simp only [if_neg hc]
    simp only [replaceChild, ne_eq, not_true_eq_false, if_false] at hr ⊢
    exact hr


/-! ### __cstl_rbtree_erase -/

theorem rbEraseNode_tie (m : TM) (h : Hd) (n sx f2 : Nat) (r : TM × Hd)
    (hr : rbEraseNode m h n sx = some r) :
    c_priv_cstl_rbtree_erase h.size f2 (h.size + 1) m h n sx = some r := by
  unfold rbEraseNode at hr
  unfold c_priv_cstl_rbtree_erase
  split at hr
  · cases hr
  rename_i m1 h1 y he
  rw [btEraseNode_tie m h n f2 _ he]
  simp only at hr ⊢
  by_cases hc : m1.cl y = black
  · rw [if_pos hc] at hr
    simp only [if_pos hc]
    unfold rbEraseFix at hr
    simp only at hr
    by_cases hl : (setC m1 y (m1.cl n)).lf n ≠ 0
    · simp only [if_pos hl] at hr ⊢
      split at hr
      · cases hr
      rename_i m4 h4 x4 hd
      rw [delFixLoop_tie _ _ _ _ _ _ hd]
      exact hr
    · simp only [if_neg hl] at hr ⊢
      by_cases hrt : (setC m1 y (m1.cl n)).rt n ≠ 0
      · simp only [if_pos hrt] at hr ⊢
        split at hr
        · cases hr
        rename_i m4 h4 x4 hd
        rw [delFixLoop_tie _ _ _ _ _ _ hd]
        exact hr
      · simp only [if_neg hrt] at hr ⊢
        split at hr
        · cases hr
        rename_i m4 h4 x4 hd
        rw [delFixLoop_tie _ _ _ _ _ _ hd]
        exact hr
  · rw [if_neg hc] at hr
    simp only [if_neg hc]
    exact hr


/-! ### cstl_bintree_find, cstl_rbtree_find -/

/-- what the tie needs of the comparison function: on the probe element `f` it orders like the key `k` -/
def CmpProbe (cmp : Nat → Nat → Int) (m : TM) (f : Nat) (k : Int) : Prop :=
  ∀ b, (cmp f b = 0 ↔ k = m.key b) ∧ (cmp f b < 0 ↔ k < m.key b)

theorem findLoop_tie (cmp : Nat → Nat → Int) (m : TM) (f : Nat) (k : Int) (hcmp : CmpProbe cmp m f k)
    (fuel bn p : Nat) (r : Nat × Nat) (hr : findLoop m k fuel bn p = some r) :
    c_cstl_bintree_find_loop1 cmp m f fuel bn p = some r := by
  induction fuel generalizing bn p with
  | zero =>
    unfold findLoop at hr
    unfold c_cstl_bintree_find_loop1
    split at hr
    · rename_i hb; subst hb; simpa using hr
    · cases hr
  | succ n ih =>
    unfold findLoop at hr
    unfold c_cstl_bintree_find_loop1
    split at hr
    · rename_i hb; subst hb; simpa using hr
    rename_i hb
    rw [if_pos (by simpa using hb)]
    simp only
    split at hr
    · rename_i he
      rw [if_pos ((hcmp bn).1.2 he)]
      exact hr
    rename_i he
    rw [if_neg (mt (hcmp bn).1.1 he)]
    split at hr
    · rename_i hlt
      simp only [if_pos ((hcmp bn).2.2 hlt)]
      exact ih _ _ hr
    · rename_i hlt
      simp only [if_neg (mt (hcmp bn).2.1 hlt)]
      exact ih _ _ hr

theorem btFind_tie (cmp : Nat → Nat → Int) (m : TM) (h : Hd) (f : Nat) (k : Int) (hcmp : CmpProbe cmp m f k)
    (par cell : Nat) (r : Nat × Nat) (hr : btFind m h k = some r) :
    c_cstl_bintree_find cmp (h.size + 1) m h f par cell =
      some (m, h, r.1, if par ≠ 0 then r.2 else cell) := by
  unfold btFind at hr
  unfold c_cstl_bintree_find
  simp only
  rw [findLoop_tie cmp m f k hcmp _ _ _ _ hr]
  obtain ⟨n, p⟩ := r
  simp only
  have hp : (if p = 0 then 0 else p) = p := by split <;> simp_all
  rw [hp]
  split
  · rfl
  · rename_i hn
    have : n = 0 := by simpa using hn
    subst this; rfl

theorem rbFind_tie (cmp : Nat → Nat → Int) (m : TM) (h : Hd) (f : Nat) (k : Int) (hcmp : CmpProbe cmp m f k)
    (par cell : Nat) (r : Nat × Nat) (hr : btFind m h k = some r) :
    c_cstl_rbtree_find cmp (h.size + 1) m h f par cell =
      some (m, h, r.1, if par ≠ 0 then r.2 else cell) := by
  unfold c_cstl_rbtree_find
  rw [btFind_tie cmp m h f k hcmp par cell r hr]

/-! ### cstl_bintree_erase, cstl_rbtree_erase (find, then erase the node found) -/

theorem btErase_tie (cmp : Nat → Nat → Int) (m : TM) (h : Hd) (f : Nat) (k : Int) (hcmp : CmpProbe cmp m f k)
    (f3 : Nat) (r : TM × Hd × Nat) (hr : btErase m h k = some r) :
    c_cstl_bintree_erase cmp (h.size + 1) h.size f3 m h f = some r := by
  unfold btErase at hr
  unfold c_cstl_bintree_erase
  split at hr
  · cases hr
  rename_i n p hf
  rw [btFind_tie cmp m h f k hcmp 0 0 _ hf]
  simp only
  split at hr
  · rename_i hn; subst hn; cases hr; rfl
  rename_i hn
  simp only [ne_eq, hn, not_false_eq_true, if_true]
  split at hr
  · cases hr
  rename_i m' h' y he
  rw [btEraseNode_tie m h n f3 _ he]
  exact hr

theorem rbErase_tie (cmp : Nat → Nat → Int) (m : TM) (h : Hd) (f : Nat) (k : Int) (hcmp : CmpProbe cmp m f k)
    (sx f3 : Nat) (r : TM × Hd × Nat) (hr : rbErase m h k sx = some r) :
    c_cstl_rbtree_erase cmp (h.size + 1) h.size f3 (h.size + 1) m h f sx = some r := by
  unfold rbErase at hr
  unfold c_cstl_rbtree_erase
  split at hr
  · cases hr
  rename_i n p hf
  rw [rbFind_tie cmp m h f k hcmp 0 0 _ hf]
  simp only
  split at hr
  · rename_i hn; subst hn; cases hr; rfl
  rename_i hn
  simp only [ne_eq, hn, not_false_eq_true, if_true]
  split at hr
  · cases hr
  rename_i m' h' he
  rw [rbEraseNode_tie m h n sx f3 _ he]
  exact hr


/-! ### __cstl_bintree_foreach (recursion; tied to the functional traversal `Cstl.Tree.walk`) -/

/-- the numbers of `cstl_bintree_visit_order_t` -/
def ordOf : Nat → Ord
  | 0 => .pre
  | 1 => .mid
  | 2 => .post
  | _ => .leaf

/-- the callback of the translated traversal that stands for a functional visit function: it logs the
visit, leaves the link memory alone and answers what `visit` answers -/
def visitL (visit : Nat → Elem → Ord → Int) (log : List Ev) (m : TM) (a o : Nat) : List Ev × TM × Int :=
  (log ++ [(elemAt m a, ordOf o)], m, visit log.length (elemAt m a) (ordOf o))

theorem walk_done (fwd : Bool) (visit : Nat → Elem → Ord → Int) (t : Tree) (r : Int) (log : List Ev) (hr : r ≠ 0) :
    walk fwd visit t (r, log) = (r, log) := by
  rw [Cstl.Tree.walk_eq_runVisits]; exact Cstl.Tree.runVisits_done visit _ log hr

theorem shape_isNil {m : TM} {a p : Nat} {t : Tree} (h : Shape m a p t) : t.isNil = true ↔ a = 0 := by
  cases t with
  | nil => simpa [Tree.isNil] using h
  | node c l e r => simp only [Shape_node] at h; simp [Tree.isNil, h.1]

/-- one `if (res == 0 && child != NULL) res = __cstl_bintree_foreach(child, …)` step -/
theorem childStep (visit : Nat → Elem → Ord → Int) (d : Bool) (m : TM) (fuel ac a : Nat) (tc : Tree)
    (hS : Shape m ac a tc) (hh : tc.height ≤ fuel)
    (ih : ∀ log, ac ≠ 0 → c_priv_cstl_bintree_foreach (visitL visit) fuel log m ac d =
        some ((walk d visit tc (0, log)).2, m, (walk d visit tc (0, log)).1))
    (res : Int) (log : List Ev) :
    (if res = 0 ∧ ¬ac = 0 then c_priv_cstl_bintree_foreach (visitL visit) fuel log m ac d
      else some (log, m, res)) =
      some ((walk d visit tc (res, log)).2, m, (walk d visit tc (res, log)).1) := by
  by_cases hr : res = 0
  · subst hr
    by_cases ha : ac = 0
    · have : tc = .nil := by
        cases tc with
        | nil => rfl
        | node c l e r => simp only [Shape_node] at hS; exact absurd ha hS.1
      subst this
      simp [ha, walk]
    · simp only [ha, not_false_eq_true, and_self, if_true]
      rw [ih log ha]
  · simp only [hr, false_and, if_false]
    rw [walk_done d visit tc res log hr]


theorem foreach_refines (visit : Nat → Elem → Ord → Int) (d : Bool) (m : TM) (t : Tree) :
    ∀ (a p : Nat) (log : List Ev) (fuel : Nat), Shape m a p t → a ≠ 0 → t.height ≤ fuel →
      c_priv_cstl_bintree_foreach (visitL visit) fuel log m a d =
        some ((walk d visit t (0, log)).2, m, (walk d visit t (0, log)).1) := by
  induction t with
  | nil => intro a p log fuel hS ha; exact absurd (by simpa using hS) ha
  | node c l e r ihl ihr =>
    intro a p log fuel hS ha hh
    cases fuel with
    | zero => simp [Tree.height] at hh
    | succ f =>
      simp only [Shape_node] at hS
      obtain ⟨_, he, _, _, hl, hr⟩ := hS
      simp only [Tree.height] at hh
      have hhl : l.height ≤ f := by omega
      have hhr : r.height ≤ f := by omega
      have nl := shape_isNil hl
      have nr := shape_isNil hr
      subst he
      cases d
      · -- reverse: `l` = right, `r` = left
        have cl := childStep visit false m f (m.rt a) a r hr hhr (fun log h0 => ihr _ _ log f hr h0 hhr)
        have cr := childStep visit false m f (m.lf a) a l hl hhl (fun log h0 => ihl _ _ log f hl h0 hhl)
        unfold c_priv_cstl_bintree_foreach
        simp only [chL, chR, Bool.false_eq_true, if_false]
        by_cases hA : m.rt a = 0 ∧ m.lf a = 0
        · have e1 : r = .nil := by cases r <;> simp_all [Tree.isNil]
          have e2 : l = .nil := by cases l <;> simp_all [Tree.isNil]
          subst e1 e2
          simp [hA.1, hA.2, visitL, ordOf, walk, doVisit, Tree.isNil]
        · have hleaf : (l.isNil && r.isNil) = false := by
            cases hb : (l.isNil && r.isNil) with
            | false => rfl
            | true => simp only [Bool.and_eq_true] at hb; exact absurd ⟨nr.1 hb.2, nl.1 hb.1⟩ hA
          simp only [if_neg hA, true_and, if_true, ne_eq, not_true_eq_false, if_false, visitL]
          rw [cl]
          simp only [ite_self]
          rw [cr]
          simp only [and_true]
          simp only [walk, hleaf, Bool.false_eq_true, if_false, ordOf]
          have hpre : doVisit visit (elemAt m a) .pre (0, log) =
              (visit log.length (elemAt m a) .pre, log ++ [(elemAt m a, .pre)]) := by simp [doVisit]
          rw [hpre]
          generalize walk false visit r (visit log.length (elemAt m a) .pre, log ++ [(elemAt m a, .pre)]) = s2
          obtain ⟨r2, l2⟩ := s2
          have hmid : (if r2 = 0 then visit l2.length (elemAt m a) .mid else r2,
              if r2 = 0 then l2 ++ [(elemAt m a, Ord.mid)] else l2) = doVisit visit (elemAt m a) .mid (r2, l2) := by
            by_cases h0 : r2 = 0 <;> simp [doVisit, h0]
          simp only [hmid]
          generalize walk false visit l (doVisit visit (elemAt m a) .mid (r2, l2)) = s4
          obtain ⟨r4, l4⟩ := s4
          by_cases h0 : r4 = 0 <;> simp [doVisit, h0]
      · -- forward
        have cl := childStep visit true m f (m.lf a) a l hl hhl (fun log h0 => ihl _ _ log f hl h0 hhl)
        have cr := childStep visit true m f (m.rt a) a r hr hhr (fun log h0 => ihr _ _ log f hr h0 hhr)
        unfold c_priv_cstl_bintree_foreach
        simp only [chL, chR, if_true]
        by_cases hA : m.lf a = 0 ∧ m.rt a = 0
        · have e1 : r = .nil := by cases r <;> simp_all [Tree.isNil]
          have e2 : l = .nil := by cases l <;> simp_all [Tree.isNil]
          subst e1 e2
          simp [hA.1, hA.2, visitL, ordOf, walk, doVisit, Tree.isNil]
        · have hleaf : (l.isNil && r.isNil) = false := by
            cases hb : (l.isNil && r.isNil) with
            | false => rfl
            | true => simp only [Bool.and_eq_true] at hb; exact absurd ⟨nl.1 hb.1, nr.1 hb.2⟩ hA
          simp only [if_neg hA, true_and, if_true, ne_eq, not_true_eq_false, if_false, visitL]
          rw [cl]
          simp only [ite_self]
          rw [cr]
          simp only [and_true]
          simp only [walk, hleaf, Bool.false_eq_true, if_false, if_true, ordOf]
          have hpre : doVisit visit (elemAt m a) .pre (0, log) =
              (visit log.length (elemAt m a) .pre, log ++ [(elemAt m a, .pre)]) := by simp [doVisit]
          rw [hpre]
          generalize walk true visit l (visit log.length (elemAt m a) .pre, log ++ [(elemAt m a, .pre)]) = s2
          obtain ⟨r2, l2⟩ := s2
          have hmid : (if r2 = 0 then visit l2.length (elemAt m a) .mid else r2,
              if r2 = 0 then l2 ++ [(elemAt m a, Ord.mid)] else l2) = doVisit visit (elemAt m a) .mid (r2, l2) := by
            by_cases h0 : r2 = 0 <;> simp [doVisit, h0]
          simp only [hmid]
          generalize walk true visit r (doVisit visit (elemAt m a) .mid (r2, l2)) = s4
          obtain ⟨r4, l4⟩ := s4
          by_cases h0 : r4 = 0 <;> simp [doVisit, h0]


/-- `cstl_bintree_foreach` on a memory that represents the tree `t`: the recursion started at the root
(`bt->root != NULL`) with fuel `t.height` makes exactly the visits of the functional `foreach` -/
theorem foreach_root_refines (visit : Nat → Elem → Ord → Int) (fwd : Bool) (m : TM) (h : Hd) (t : Tree)
    (ht : IsTree m h.root 0 t) (hroot : h.root ≠ 0) :
    c_priv_cstl_bintree_foreach (visitL visit) t.height [] m h.root fwd =
      some ((Cstl.Tree.foreach fwd visit t).2, m, (Cstl.Tree.foreach fwd visit t).1) :=
  foreach_refines visit fwd m t h.root 0 [] t.height ht.shape hroot (Nat.le_refl _)

/-! ### the hypotheses on `cmp` are satisfiable (the comparison the harness installs: by key) -/

example (m : TM) : ∀ a b, (fun a b => m.key a - m.key b) a b < 0 ↔ m.key a < m.key b := by
  intro a b; simp only; omega

example (m : TM) (f : Nat) : CmpProbe (fun a b => m.key a - m.key b) m f (m.key f) := by
  intro b; simp only; constructor <;> omega

end Cstl.TreeL.Tie2
