import Cstl.TreeL.Prim
import Cstl.TreeL.Path
/-
cstl_bintree_insert at link level: the descent loop ends at the empty hole of
the functional insert path; the leaf attach fills it.
-/
set_option linter.unusedSimpArgs false
namespace Cstl.TreeL
open Cstl.SList (Mem upd upd_same upd_other)
open Cstl.Tree (Color Elem Tree)
open Cstl.Tree.Color Cstl.Tree.Tree

/-- the location `bc` that is the slot of the hole of a context -/
def slot : Ctx → Nat → Loc
  | [], _ => .root
  | .L .. :: _, p => .lf p
  | .R .. :: _, p => .rt p

/-- leaf attach: `bn->p = bp; bn->l = NULL; bn->r = NULL; *bc = bn; size++` at an empty focus -/
theorem attach_spec {m : TM} {h : Hd} {k : Ctx} {P n : Nat} (hz : Zip m h.root k 0 P .nil) (hn0 : n ≠ 0)
    (hnk : n ∉ ctxIds k) :
    Zip (attach m h n P (slot k P)).1 (attach m h n P (slot k P)).2.root k n P
        (.node (m.cl n) .nil (elemAt m n) .nil) ∧
      (attach m h n P (slot k P)).2.size = h.size + 1 ∧
      (attach m h n P (slot k P)).1.cl = m.cl ∧ (attach m h n P (slot k P)).1.key = m.key ∧
      (∀ z, z ≠ n → z ≠ P → Agree m (attach m h n P (slot k P)).1 z) := by
  have hpm : P ≠ 0 → P ∈ ctxIds k := hz.ctx.parent_mem
  have hnP : n ≠ P := by
    intro e; rw [← e] at hpm; exact hnk (hpm hn0)
  have hnd : ((Tree.node (m.cl n) .nil (elemAt m n) .nil).ids ++ ctxIds k).Nodup := by
    have := hz.nodup
    simp only [Cstl.Tree.ids_nil, List.nil_append] at this
    simp [this, hnk]
  cases k with
  | nil =>
    refine ⟨?_, ?_, ?_, ?_, ?_⟩
    · refine hz.replace ?_ (by simp) (by simp [SlotUpd, attach, slot]) hnd
      simp [attach, slot, upd_apply, hn0, elemAt]
    · simp [attach, slot]
    · simp [attach, slot]
    · simp [attach, slot]
    · intro z h1 h2; simp [attach, slot, Agree, upd_apply, h1]
  | cons f k =>
    have hp0 : P ≠ 0 := fun e => by have := hz.ctx.parent_zero_iff.mp e; simp at this
    cases f with
    | L c e r =>
      refine ⟨?_, ?_, ?_, ?_, ?_⟩
      · refine hz.replace ?_ ?_ ?_ hnd
        · simp [attach, slot, upd_apply, hn0, elemAt, hnP]
        · intro z hz' hzp
          have : z ≠ n := fun e => hnk (e ▸ hz')
          simp [attach, slot, Agree, upd_apply, this, hzp]
        · simp [SlotUpd, attach, slot, upd_apply, hnP.symm]
      · simp [attach, slot]
      · simp [attach, slot]
      · simp [attach, slot]
      · intro z h1 h2; simp [attach, slot, Agree, upd_apply, h1, h2]
    | R c l e =>
      refine ⟨?_, ?_, ?_, ?_, ?_⟩
      · refine hz.replace ?_ ?_ ?_ hnd
        · simp [attach, slot, upd_apply, hn0, elemAt, hnP]
        · intro z hz' hzp
          have : z ≠ n := fun e => hnk (e ▸ hz')
          simp [attach, slot, Agree, upd_apply, this, hzp]
        · simp [SlotUpd, attach, slot, upd_apply, hnP.symm]
      · simp [attach, slot]
      · simp [attach, slot]
      · simp [attach, slot]
      · intro z h1 h2; simp [attach, slot, Agree, upd_apply, h1, h2]

theorem height_le_size (t : Tree) : t.height ≤ t.size := by
  induction t with
  | nil => simp [Tree.height, Tree.size]
  | node c l e r ihl ihr => simp only [Tree.height, Tree.size]; omega

/-- the descent loop of `cstl_bintree_insert` started at the focus follows the functional insert
path and stops at its empty hole, with `bp` the hole's parent and `bc` the hole's slot -/
theorem insLoop_spec {m : TM} {h : Hd} {n : Nat} : ∀ (t : Tree) (k : Ctx) (a p bp : Nat) (bc : Loc) (fuel : Nat),
    Zip m h.root k a p t → rdLoc m h bp bc = a → (t = .nil → bp = p ∧ bc = slot k p) → t.height ≤ fuel →
    ∃ P, insLoop m h n fuel bp bc = some (P, slot (insPath (m.key n) t ++ k) P) ∧
      Zip m h.root (insPath (m.key n) t ++ k) 0 P .nil := by
  intro t
  induction t with
  | nil =>
    intro k a p bp bc fuel hz hrd hnil _
    obtain ⟨rfl, rfl⟩ := hnil rfl
    have ha : a = 0 := hz.sub
    subst ha
    refine ⟨bp, ?_, by simpa [insPath] using hz⟩
    cases fuel <;> simp [insLoop, hrd, insPath]
  | node c l e r ihl ihr =>
    intro k a p bp bc fuel hz hrd _ hfuel
    have hs := hz.sub
    simp only [Shape_node] at hs
    obtain ⟨ha0, he, _, _, _, _⟩ := hs
    cases fuel with
    | zero => simp [Tree.height] at hfuel
    | succ f =>
      simp only [Tree.height] at hfuel
      simp only [insLoop, hrd, ha0, if_false]
      have hk : e.key = m.key a := by simp [he]
      simp only [insPath, hk]
      by_cases hlt : m.key n < m.key a
      · simp only [hlt, if_true]
        obtain ⟨P, h1, h2⟩ := ihl (.L c e r :: k) (m.lf a) a a (.lf a) f hz.downL rfl (fun _ => ⟨rfl, rfl⟩) (by omega)
        refine ⟨P, ?_, ?_⟩
        · simpa [List.append_assoc] using h1
        · simpa [List.append_assoc] using h2
      · simp only [hlt, if_false]
        obtain ⟨P, h1, h2⟩ := ihr (.R c l e :: k) (m.rt a) a a (.rt a) f hz.downR rfl (fun _ => ⟨rfl, rfl⟩) (by omega)
        refine ⟨P, ?_, ?_⟩
        · simpa [List.append_assoc] using h1
        · simpa [List.append_assoc] using h2

/-- `cstl_bintree_insert(bt, n, hint)` from a focused tree: without a hint the focus is the whole
tree, with a hint it is the subtree rooted at the hinted node -/
theorem btInsert_zip {m : TM} {h : Hd} {k : Ctx} {a p n hint : Nat} {t : Tree} (hz : Zip m h.root k a p t)
    (h0 : hint = 0 → k = []) (h1 : hint ≠ 0 → hint = a) (hfuel : t.height ≤ h.size + 1) (hn0 : n ≠ 0)
    (hnt : n ∉ t.ids) (hnk : n ∉ ctxIds k) :
    ∃ P m' h', btInsert m h n hint = some (m', h') ∧
      Zip m' h'.root (insPath (m.key n) t ++ k) n P (.node (m.cl n) .nil (elemAt m n) .nil) ∧
      h'.size = h.size + 1 ∧ m'.cl = m.cl ∧ m'.key = m.key ∧ (∀ z, z ≠ n → z ≠ P → Agree m m' z) := by
  have key : ∃ P, insLoop m h n (h.size + 1) (if hint ≠ 0 then (hint, Loc.bp) else (h.root, Loc.root)).1
      (if hint ≠ 0 then (hint, Loc.bp) else (h.root, Loc.root)).2 = some (P, slot (insPath (m.key n) t ++ k) P) ∧
      Zip m h.root (insPath (m.key n) t ++ k) 0 P .nil := by
    by_cases hh : hint = 0
    · have hk := h0 hh
      subst hk
      obtain ⟨hp, hr⟩ := hz.slot_nil
      simp only [hh, ne_eq, not_true_eq_false, if_false]
      refine insLoop_spec t [] a p h.root .root _ hz (by simp [rdLoc, hr]) ?_ hfuel
      intro ht
      have : a = 0 := by rw [ht] at hz; exact hz.sub
      simp [slot, hp, hr, this]
    · have ha := h1 hh
      simp only [hh, ne_eq, not_false_eq_true, if_true]
      refine insLoop_spec t k a p hint .bp _ hz (by simp [rdLoc, ha]) ?_ hfuel
      intro ht
      have : a = 0 := by rw [ht] at hz; exact hz.sub
      exact absurd (ha.trans this) hh
  obtain ⟨P, hloop, hz'⟩ := key
  have hnk' : n ∉ ctxIds (insPath (m.key n) t ++ k) := by
    intro hc
    have hperm := plug_ids_perm (insPath (m.key n) t ++ k) .nil
    rw [plug_insPath] at hperm
    have h2 := plug_ids_perm k t
    have : n ∈ (plug k (plug (insPath (m.key n) t) .nil)).ids := hperm.mem_iff.mpr (by simp [hc])
    rw [show plug (insPath (m.key n) t) .nil = t from plug_insPath_nil _ _] at this
    have := h2.mem_iff.mp this
    simp only [List.mem_append] at this
    rcases this with h3 | h3
    · exact hnt h3
    · exact hnk h3
  obtain ⟨a1, a2, a3, a4, a5⟩ := attach_spec hz' hn0 hnk'
  refine ⟨P, _, _, ?_, a1, a2, a3, a4, a5⟩
  simp only [btInsert, hloop]

end Cstl.TreeL
