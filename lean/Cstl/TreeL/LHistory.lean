import Cstl.TreeL.BtRefine
import Cstl.TreeL.RbErase
/-
Operation histories at link level (`btStepL`, `rbStepL` of Model.lean — the
step functions the driver executes) refine the functional histories of
Cstl/Tree/History.lean step by step.
-/
set_option linter.unusedSimpArgs false
namespace Cstl.TreeL
open Cstl.SList (Mem upd upd_same upd_other)
open Cstl.Tree (Color Elem Tree TS Op Out)
open Cstl.Tree.Color Cstl.Tree.Tree

/-- the functional operation a link-level operation stands for -/
def toOp : LOp → Op
  | .ins n key => .ins { key := key, id := n }
  | .insHint n key => .insHint { key := key, id := n }
  | .find key => .find key
  | .erase key => .erase key
  | .clear => .clear

/-- the address a functional result stands for -/
def outAddr : Out → Nat
  | .done => 0
  | .found r => idOpt r
  | .erased r => idOpt r
  | .visited _ _ => 0
  | .cleared _ => 0

/-- the elements handed to insert are objects (non-NULL) other than the stand-in node -/
def OpOk (sx : Nat) : LOp → Prop
  | .ins n _ => n ≠ 0 ∧ n ≠ sx
  | .insHint n _ => n ≠ 0 ∧ n ≠ sx
  | _ => True

/-- a link-level container represents a functional one -/
structure Rep (s : LS) (ts : TS) : Prop where
  tree : IsTree s.m s.h.root 0 ts.t
  size : s.h.size = ts.t.size

theorem Rep.init (m : TM) : Rep ⟨m, ⟨0, 0⟩⟩ {} := ⟨⟨rfl, by simp⟩, rfl⟩

theorem setKey_agree (m : TM) (n : Nat) (key : Int) {z : Nat} (h : z ≠ n) : Agree m (setKey m n key) z :=
  ⟨rfl, rfl, rfl, rfl, show updK m.key n key z = m.key z by simp [updK, h]⟩

theorem IsTree.setKey {m : TM} {root : Nat} {t : Tree} (h : IsTree m root 0 t) {n : Nat} (hn : n ∉ t.ids)
    (key : Int) : IsTree (setKey m n key) root 0 t :=
  ⟨h.shape.frame (fun _ hz => setKey_agree m n key (fun e => hn (e ▸ hz))), h.nodup⟩

theorem elemAt_setKey (m : TM) (n : Nat) (key : Int) : elemAt (setKey m n key) n = { key := key, id := n } := by
  simp [elemAt, setKey, updK]

theorem IsTree.clear {m : TM} {t : Tree} {h : Hd} (ht : IsTree m h.root 0 t) (hsz : h.size = t.size) :
    IsTree m (clearHd h).root 0 .nil ∧ (clearHd h).size = 0 := by
  unfold clearHd
  split
  · exact ⟨⟨rfl, by simp⟩, rfl⟩
  · rename_i h0
    have h0' : h.root = 0 := by simpa using h0
    have : t = .nil := ht.shape.zero_iff.mp h0'
    subst this
    exact ⟨⟨h0', by simp⟩, by simpa [Tree.size] using hsz⟩

/-- the bintree never writes colours; its functional model paints every node black -/
def AllBlack (m : TM) : Prop := ∀ a, m.cl a = black

theorem find_par_id_mem {key : Int} {t : Tree} {p : Elem} (h : (Cstl.Tree.find key t).2 = some p) : p.id ∈ t.ids :=
  Cstl.Tree.mem_ids.2 ⟨p, Cstl.Tree.find_par_mem h, rfl⟩

/-- one bintree operation at link level refines `btStep` -/
theorem btStepL_refines {s : LS} {ts ts' : TS} {op : LOp} {o : Out} (hr : Rep s ts) (hb : AllBlack s.m)
    (hop : OpOk 0 op) (hf : Cstl.Tree.btStep ts (toOp op) = .ok (ts', o)) :
    ∃ s' r, btStepL s op = some (s', r) ∧ Rep s' ts' ∧ AllBlack s'.m ∧ r.1 = outAddr o := by
  obtain ⟨ht, hsz⟩ := hr
  cases op with
  | ins n key =>
    simp only [toOp, Cstl.Tree.btStep] at hf
    split at hf
    · cases hf
    · rename_i hnt
      simp only [Except.ok.injEq, Prod.mk.injEq] at hf
      obtain ⟨rfl, rfl⟩ := hf
      obtain ⟨m', h', g1, g2, g3, g4, _, _⟩ := btInsert_refines (n := n) (ht.setKey hnt key) hsz hop.1 hnt (hb n)
      rw [elemAt_setKey] at g2 g3
      exact ⟨⟨m', h'⟩, (0, 0), by simp [btStepL, g1], ⟨g2, g3⟩, fun a => by rw [g4]; exact hb a, rfl⟩
  | insHint n key =>
    simp only [toOp, Cstl.Tree.btStep] at hf
    split at hf
    · cases hf
    · rename_i hnt
      have hfind := btFind_spec key ht hsz
      cases hp : (Cstl.Tree.find key ts.t).2 with
      | none =>
        simp only [hp, Except.ok.injEq, Prod.mk.injEq] at hf
        obtain ⟨rfl, rfl⟩ := hf
        obtain ⟨m', h', g1, g2, g3, g4, _, _⟩ := btInsert_refines (n := n) (ht.setKey hnt key) hsz hop.1 hnt (hb n)
        rw [elemAt_setKey] at g2 g3
        exact ⟨⟨m', h'⟩, (0, 0), by simp [btStepL, hfind, hp, g1], ⟨g2, g3⟩, fun a => by rw [g4]; exact hb a, rfl⟩
      | some p =>
        simp only [hp] at hf
        obtain ⟨m', h', t', g0, g1, g2, g3, g4, _, _⟩ := btInsertAt_refines (n := n) (hint := p.id) (ht.setKey hnt key)
          hsz hop.1 hnt (hb n) (find_par_id_mem hp)
        rw [elemAt_setKey] at g0
        rw [g0] at hf
        simp only [Except.ok.injEq, Prod.mk.injEq] at hf
        obtain ⟨rfl, rfl⟩ := hf
        have hsz' : h'.size = t'.size := by
          have e1 := (Cstl.Tree.btInsertAt_find_eq { key := key, id := n } ht.nodup hp)
          rw [g0, Option.some.injEq] at e1
          rw [g3, e1, (Cstl.Tree.btInsert_spec _ ts.t).2.2, hsz]
        exact ⟨⟨m', h'⟩, (0, p.id), by simp [btStepL, hfind, hp, g1], ⟨g2, hsz'⟩, fun a => by rw [g4]; exact hb a, rfl⟩
  | find key =>
    simp only [toOp, Cstl.Tree.btStep, Except.ok.injEq, Prod.mk.injEq] at hf
    obtain ⟨rfl, rfl⟩ := hf
    have hfind := btFind_spec key ht hsz
    exact ⟨s, (idOpt (Cstl.Tree.find key ts.t).1, idOpt (Cstl.Tree.find key ts.t).2), by simp [btStepL, hfind],
      ⟨ht, hsz⟩, hb, rfl⟩
  | erase key =>
    obtain ⟨m', h', g1, g2, g3, g4, _, _⟩ := btErase_refines key ht hsz hb
    simp only [toOp, Cstl.Tree.btStep] at hf
    cases he : Cstl.Tree.btErase key ts.t with
    | mk t' r =>
      rw [he] at hf g1 g2 g3
      cases r with
      | none =>
        simp only [Except.ok.injEq, Prod.mk.injEq] at hf
        obtain ⟨rfl, rfl⟩ := hf
        have ht' : t' = ts.t := by
          have : (Cstl.Tree.btErase key ts.t).1 = ts.t := by
            unfold Cstl.Tree.btErase at he ⊢
            split at he <;> simp_all
          rw [he] at this; exact this
        subst ht'
        exact ⟨⟨m', h'⟩, (0, 0), by simp [btStepL, g1], ⟨g2, g3⟩, fun a => by rw [g4]; exact hb a, rfl⟩
      | some e =>
        simp only [Except.ok.injEq, Prod.mk.injEq] at hf
        obtain ⟨rfl, rfl⟩ := hf
        exact ⟨⟨m', h'⟩, (e.id, 0), by simp [btStepL, g1], ⟨g2, g3⟩, fun a => by rw [g4]; exact hb a, rfl⟩
  | clear =>
    simp only [toOp, Cstl.Tree.btStep, Except.ok.injEq, Prod.mk.injEq] at hf
    obtain ⟨rfl, rfl⟩ := hf
    obtain ⟨c1, c2⟩ := ht.clear hsz
    exact ⟨_, _, rfl, ⟨c1, by simpa [Tree.size] using c2⟩, hb, rfl⟩

theorem rootBlack_blacken {t : Tree} (h : Cstl.Tree.RootBlack t) : t.blacken = t := by
  cases t with
  | nil => rfl
  | node c l e r => simp only [Cstl.Tree.RootBlack] at h; subst h; rfl

theorem not_mem_ids_of_perm_cons {t t' : Tree} {x : Elem} {z : Nat} (hp : t'.inorder.Perm (x :: t.inorder))
    (hzx : z ≠ x.id) (hzt : z ∉ t.ids) : z ∉ t'.ids := by
  intro hc
  obtain ⟨e, he, hid⟩ := Cstl.Tree.mem_ids.1 hc
  have := hp.mem_iff.mp he
  rcases List.mem_cons.mp this with h1 | h1
  · exact hzx (by rw [← hid, h1])
  · exact hzt (Cstl.Tree.mem_ids.2 ⟨e, h1, hid⟩)

theorem not_mem_ids_of_perm_erase {t t' : Tree} {x : Elem} {z : Nat} (hp : t.inorder.Perm (x :: t'.inorder))
    (hzt : z ∉ t.ids) : z ∉ t'.ids := by
  intro hc
  obtain ⟨e, he, hid⟩ := Cstl.Tree.mem_ids.1 hc
  exact hzt (Cstl.Tree.mem_ids.2 ⟨e, hp.mem_iff.mpr (List.mem_cons_of_mem _ he), hid⟩)

/-- one red-black operation at link level refines `rbStep` -/
theorem rbStepL_refines {sx : Nat} {s : LS} {ts ts' : TS} {op : LOp} {o : Out} (hr : Rep s ts)
    (hinv : Cstl.Tree.Inv ts.t) (hsx0 : sx ≠ 0) (hsx : sx ∉ ts.t.ids) (hop : OpOk sx op)
    (hf : Cstl.Tree.rbStep ts (toOp op) = .ok (ts', o)) :
    ∃ s' r, rbStepL sx s op = some (s', r) ∧ Rep s' ts' ∧ sx ∉ ts'.t.ids ∧ r.1 = outAddr o := by
  obtain ⟨ht, hsz⟩ := hr
  cases op with
  | ins n key =>
    simp only [toOp, Cstl.Tree.rbStep] at hf
    split at hf
    · cases hf
    · rename_i hnt
      cases hi : Cstl.Tree.rbInsert { key := key, id := n } ts.t with
      | none => rw [hi] at hf; cases hf
      | some T =>
        rw [hi] at hf
        simp only [Except.ok.injEq, Prod.mk.injEq] at hf
        obtain ⟨rfl, rfl⟩ := hf
        have hi' := hi
        rw [← elemAt_setKey s.m n key] at hi'
        obtain ⟨m', h', g1, g2, g3, _, _⟩ := rbInsert_refines (n := n) (ht.setKey hnt key) hsz hop.1 hnt hi'
        have hsp := Cstl.Tree.rbInsert_spec hi
        refine ⟨⟨m', h'⟩, (0, 0), by simp [rbStepL, g1], ⟨g2, by rw [g3, hsp.2.2, hsz]⟩, ?_, rfl⟩
        exact not_mem_ids_of_perm_cons hsp.1 (Ne.symm hop.2) hsx
  | insHint n key =>
    simp only [toOp, Cstl.Tree.rbStep] at hf
    split at hf
    · cases hf
    · rename_i hnt
      have hfind := btFind_spec key ht hsz
      cases hp : (Cstl.Tree.find key ts.t).2 with
      | none =>
        simp only [hp] at hf
        cases hi : Cstl.Tree.rbInsert { key := key, id := n } ts.t with
        | none => rw [hi] at hf; cases hf
        | some T =>
          rw [hi] at hf
          simp only [Except.ok.injEq, Prod.mk.injEq] at hf
          obtain ⟨rfl, rfl⟩ := hf
          have hi' := hi
          rw [← elemAt_setKey s.m n key] at hi'
          obtain ⟨m', h', g1, g2, g3, _, _⟩ := rbInsert_refines (n := n) (ht.setKey hnt key) hsz hop.1 hnt hi'
          have hsp := Cstl.Tree.rbInsert_spec hi
          refine ⟨⟨m', h'⟩, (0, 0), by simp [rbStepL, hfind, hp, g1], ⟨g2, by rw [g3, hsp.2.2, hsz]⟩, ?_, rfl⟩
          exact not_mem_ids_of_perm_cons hsp.1 (Ne.symm hop.2) hsx
      | some p =>
        simp only [hp] at hf
        cases hi : Cstl.Tree.rbInsertAt p.id { key := key, id := n } ts.t with
        | none => rw [hi] at hf; cases hf
        | some r0 =>
          cases r0 with
          | none => rw [hi] at hf; cases hf
          | some T =>
            rw [hi] at hf
            simp only [Except.ok.injEq, Prod.mk.injEq] at hf
            obtain ⟨rfl, rfl⟩ := hf
            have hi' := hi
            rw [← elemAt_setKey s.m n key] at hi'
            obtain ⟨m', h', g1, g2, g3, _, _⟩ := rbInsertAt_refines (n := n) (hint := p.id) (ht.setKey hnt key) hsz
              hop.1 hnt (find_par_id_mem hp) hi'
            have e1 := Cstl.Tree.rbInsertAt_find_eq { key := key, id := n } ht.nodup hp
            rw [hi, Option.some.injEq] at e1
            have hsp := Cstl.Tree.rbInsert_spec e1.symm
            refine ⟨⟨m', h'⟩, (0, p.id), by simp [rbStepL, hfind, hp, g1], ⟨g2, by rw [g3, hsp.2.2, hsz]⟩, ?_, rfl⟩
            exact not_mem_ids_of_perm_cons hsp.1 (Ne.symm hop.2) hsx
  | find key =>
    simp only [toOp, Cstl.Tree.rbStep, Except.ok.injEq, Prod.mk.injEq] at hf
    obtain ⟨rfl, rfl⟩ := hf
    have hfind := btFind_spec key ht hsz
    exact ⟨s, (idOpt (Cstl.Tree.find key ts.t).1, idOpt (Cstl.Tree.find key ts.t).2), by simp [rbStepL, hfind],
      ⟨ht, hsz⟩, hsx, rfl⟩
  | erase key =>
    obtain ⟨T, r, he, hinv'⟩ := Cstl.Tree.rbErase_inv key hinv
    obtain ⟨m', h', g1, g2, g3, _, _⟩ := rbErase_refines key sx ht hsz hsx0 hsx he (rootBlack_blacken hinv'.1)
    simp only [toOp, Cstl.Tree.rbStep, he] at hf
    cases r with
    | none =>
      simp only [Except.ok.injEq, Prod.mk.injEq] at hf
      obtain ⟨rfl, rfl⟩ := hf
      have hT : T = ts.t := by
        unfold Cstl.Tree.rbErase at he
        split at he
        · simp only [Option.some.injEq, Prod.mk.injEq] at he; exact he.1.symm
        · split at he <;> simp at he
      subst hT
      exact ⟨⟨m', h'⟩, (0, 0), by simp [rbStepL, g1], ⟨g2, g3⟩, hsx, rfl⟩
    | some e =>
      simp only [Except.ok.injEq, Prod.mk.injEq] at hf
      obtain ⟨rfl, rfl⟩ := hf
      refine ⟨⟨m', h'⟩, (e.id, 0), by simp [rbStepL, g1], ⟨g2, g3⟩, ?_, rfl⟩
      exact not_mem_ids_of_perm_erase (Cstl.Tree.rbErase_some he).2.2.1 hsx
  | clear =>
    simp only [toOp, Cstl.Tree.rbStep, Except.ok.injEq, Prod.mk.injEq] at hf
    obtain ⟨rfl, rfl⟩ := hf
    obtain ⟨c1, c2⟩ := ht.clear hsz
    exact ⟨_, _, rfl, ⟨c1, by simpa [Tree.size] using c2⟩, by simp, rfl⟩

/-! ### histories -/

/-- a bintree history at link level refines the functional history (`btRun` when started from the
empty tree) operation by operation: it never dereferences NULL or overruns a loop, every state
represents the functional state, every result is the address of the functional result -/
theorem bt_runL_refines : ∀ (ops : List LOp) (s : LS) (ts ts' : TS) (outs : List Out),
    Rep s ts → AllBlack s.m → (∀ op ∈ ops, OpOk 0 op) →
    Cstl.Tree.runFrom Cstl.Tree.btStep ts (ops.map toOp) = .ok (ts', outs) →
    ∃ s' rs, runL btStepL s ops = some (s', rs) ∧ Rep s' ts' ∧ AllBlack s'.m ∧
      rs.map (·.1) = outs.map outAddr := by
  intro ops
  induction ops with
  | nil =>
    intro s ts ts' outs hr hb _ hf
    simp only [List.map_nil, Cstl.Tree.runFrom, Except.ok.injEq, Prod.mk.injEq] at hf
    obtain ⟨rfl, rfl⟩ := hf
    exact ⟨s, [], rfl, hr, hb, rfl⟩
  | cons op ops ih =>
    intro s ts ts' outs hr hb hok hf
    rw [List.map_cons, Cstl.Tree.runFrom_cons_ok] at hf
    obtain ⟨ts1, o, os, h1, h2, rfl⟩ := hf
    obtain ⟨s1, r, g1, g2, g3, g4⟩ := btStepL_refines hr hb (hok op (by simp)) h1
    obtain ⟨s', rs, l1, l2, l3, l4⟩ := ih s1 ts1 ts' os g2 g3 (fun op' h' => hok op' (by simp [h'])) h2
    exact ⟨s', r :: rs, by simp [runL, g1, l1], l2, l3, by simp [g4, l4]⟩

/-- the same for the red-black tree -/
theorem rb_runL_refines {sx : Nat} (hsx0 : sx ≠ 0) : ∀ (ops : List LOp) (s : LS) (ts ts' : TS) (outs : List Out),
    Rep s ts → Cstl.Tree.Inv ts.t → sx ∉ ts.t.ids → (∀ op ∈ ops, OpOk sx op) →
    Cstl.Tree.runFrom Cstl.Tree.rbStep ts (ops.map toOp) = .ok (ts', outs) →
    ∃ s' rs, runL (rbStepL sx) s ops = some (s', rs) ∧ Rep s' ts' ∧ Cstl.Tree.Inv ts'.t ∧
      rs.map (·.1) = outs.map outAddr := by
  intro ops
  induction ops with
  | nil =>
    intro s ts ts' outs hr hinv _ _ hf
    simp only [List.map_nil, Cstl.Tree.runFrom, Except.ok.injEq, Prod.mk.injEq] at hf
    obtain ⟨rfl, rfl⟩ := hf
    exact ⟨s, [], rfl, hr, hinv, rfl⟩
  | cons op ops ih =>
    intro s ts ts' outs hr hinv hsx hok hf
    rw [List.map_cons, Cstl.Tree.runFrom_cons_ok] at hf
    obtain ⟨ts1, o, os, h1, h2, rfl⟩ := hf
    obtain ⟨s1, r, g1, g2, g3, g4⟩ := rbStepL_refines hr hinv hsx0 hsx (hok op (by simp)) h1
    have hinv1 := (Cstl.Tree.rbStep_inv hinv (toOp op)).2 ts1 o h1
    obtain ⟨s', rs, l1, l2, l3, l4⟩ := ih s1 ts1 ts' os g2 hinv1 g3 (fun op' h' => hok op' (by simp [h'])) h2
    exact ⟨s', r :: rs, by simp [runL, g1, l1], l2, l3, by simp [g4, l4]⟩

end Cstl.TreeL
