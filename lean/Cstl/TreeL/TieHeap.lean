import Cstl.Gen.HeapLC
import Cstl.TreeL.Model
/-
Translator tie for `cstl_heap_promote_child` (src/heap.c): `Cstl/Gen/HeapLC.lean`
is regenerated from the C AST by tools/c2lean.py on every check run; the
hand-written `promoteChild` of Model.lean (the function Promote.lean proves
to exchange the positions of a node and its parent) is that translation.
-/
namespace Cstl.TreeL.TieHeap
open Cstl.TreeL Cstl.Gen.HeapLC

theorem promoteChild_tie (m : TM) (h : Hd) (c : Nat) :
    promoteChild m h c = c_cstl_heap_promote_child m h c := by
  simp only [promoteChild, c_cstl_heap_promote_child]

end Cstl.TreeL.TieHeap
