import Cstl.TreeL.LHistory
import Cstl.TreeL.Promote
/-
Property theorems of the link-level tree model (pointer level of C01 / C02).

  abstraction      `IsTree m root parent t` (Lemmas.lean): the structure reachable from `root`
                   through `lf` / `rt` is exactly the functional tree `t` (ids = addresses, keys,
                   colours, shape), every node's `pr` is its parent, addresses distinct, non-NULL
  primitives       rotate left / right, leaf attach, erase link surgery (one child / two children,
                   incl. successor = right child and the `bn->p == bn` correction): `IsTree … t` to
                   `IsTree … t'`, with the frame (what else may have been written)
  loops            find, bintree insert (with / without hint) and erase, red-black insert and erase
                   (fix-up loops with parent-pointer navigation and the stack-local stand-in node)
                   REFINE `find` / `btIns` / `btInsAt` / `btErase` / `rbInsert` / `rbInsertAt` /
                   `rbErase` of Cstl.Tree: from `IsTree m root 0 t` the link-level operation finishes
                   (never `none`) and ends in `IsTree m' root' 0 t'`, `t'` the functional result
  histories        `runL btStepL` / `runL (rbStepL sx)` (the step functions the driver `m_treel`
                   executes) refine `btRun` / `rbRun` operation by operation
  parent links     after every operation of every history every child's parent link points back

Helper lemmas: Lemmas (Shape, contexts, Zip), Prim (setters, rotate), Dir, Path (functional paths),
Insert, Erase, BtRefine, RbInsert, RbErasePath, RbErase, LHistory.
Not modelled at link level: the traversal (`foreach`, the callback order of `clear`) — it does not
write; the driver evaluates it on the tree read off the links.
-/
set_option linter.unusedSimpArgs false
namespace Cstl.TreeL
open Cstl.SList (Mem upd)
open Cstl.Tree (Color Elem Tree TS Op Out)
open Cstl.Tree.Color Cstl.Tree.Tree

/-! ### what the abstraction says about the links -/

theorem Shape.links {m : TM} {a p : Nat} {t : Tree} (h : Shape m a p t) :
    ∀ z ∈ t.ids, z ≠ 0 ∧ (m.lf z ≠ 0 → m.pr (m.lf z) = z) ∧ (m.rt z ≠ 0 → m.pr (m.rt z) = z) := by
  induction t generalizing a p with
  | nil => simp
  | node c l e r ihl ihr =>
    simp only [Shape_node] at h
    obtain ⟨h1, h2, _, _, h5, h6⟩ := h
    intro z hz
    simp only [Cstl.Tree.ids_node, List.mem_append, List.mem_cons] at hz
    rcases hz with hz | hz | hz
    · exact ihl h5 z hz
    · have : z = a := by rw [hz, h2]; rfl
      subst this
      exact ⟨h1, h5.parent, h6.parent⟩
    · exact ihr h6 z hz

/-- C02 "every child's parent link points back at its parent" (and the root's is NULL), for every
memory that represents a tree -/
theorem parent_links_ok {m : TM} {root : Nat} {t : Tree} (h : IsTree m root 0 t) :
    (root ≠ 0 → m.pr root = 0) ∧
    ∀ a ∈ t.ids, a ≠ 0 ∧ (m.lf a ≠ 0 → m.pr (m.lf a) = a) ∧ (m.rt a ≠ 0 → m.pr (m.rt a) = a) :=
  ⟨h.shape.parent, h.shape.links⟩

/-- the state dump of the driver (`readTree`: walk the links, check every parent link) returns
exactly the represented tree -/
theorem readTree_spec {m : TM} : ∀ (t : Tree) (a p fuel b : Nat), Shape m a p t → t.height ≤ fuel → t.size ≤ b →
    readTree m fuel a p b = .ok (t, b - t.size) := by
  intro t
  induction t with
  | nil =>
    intro a p fuel b h _ _
    have : a = 0 := h
    subst this
    cases fuel <;> simp [readTree, Tree.size]
  | node c l e r ihl ihr =>
    intro a p fuel b h hf hb
    simp only [Shape_node] at h
    obtain ⟨h1, h2, h3, h4, h5, h6⟩ := h
    simp only [Tree.height, Tree.size] at hf hb
    cases fuel with
    | zero => omega
    | succ f =>
      have hb0 : b ≠ 0 := by omega
      simp only [readTree, h1, if_false, hb0, h4, ne_eq, not_true_eq_false]
      rw [ihl (m.lf a) a f (b - 1) h5 (by omega) (by omega)]
      simp only []
      rw [ihr (m.rt a) a f (b - 1 - l.size) h6 (by omega) (by omega)]
      simp only [h2, h3, Tree.size]
      congr 2
      omega

/-! ### the link-mutating primitives -/

/-- `__cstl_bintree_rotate(bt, x, left, right)` anywhere in a tree -/
theorem rotate_left_refines {m : TM} {h : Hd} {k : Ctx} {cx cy : Color} {a b c : Tree} {ex ey : Elem}
    (ht : IsTree m h.root 0 (plug k (.node cx a ex (.node cy b ey c)))) :
    ∃ m' h', rotate m h ex.id true = some (m', h') ∧
      IsTree m' h'.root 0 (plug k (.node cy (.node cx a ex b) ey c)) ∧ h'.size = h.size ∧
      m'.cl = m.cl ∧ m'.key = m.key ∧
      (∀ z, z ≠ ex.id → z ≠ ey.id → z ≠ ctxParent k → z ∉ b.ids → Agree m m' z) := by
  obtain ⟨x, p, hz⟩ := Zip.of_plug ht
  have hx : ex.id = x := hz.sub.id_eq
  have hp := hz.ctx.parent_eq
  obtain ⟨m', h', r1, r2, r3, r4, r5, r6⟩ := rotate_spec (d := true) (h := h) hz
  exact ⟨m', h', by rw [hx]; exact r1, r2.isTree, r3, r4, r5, fun z h1 h2 h3 h4 => r6 z (hx ▸ h1) h2 (hp ▸ h3) h4⟩

/-- `__cstl_bintree_rotate(bt, x, right, left)` anywhere in a tree -/
theorem rotate_right_refines {m : TM} {h : Hd} {k : Ctx} {cx cy : Color} {a b c : Tree} {ex ey : Elem}
    (ht : IsTree m h.root 0 (plug k (.node cx (.node cy c ey b) ex a))) :
    ∃ m' h', rotate m h ex.id false = some (m', h') ∧
      IsTree m' h'.root 0 (plug k (.node cy c ey (.node cx b ex a))) ∧ h'.size = h.size ∧
      m'.cl = m.cl ∧ m'.key = m.key ∧
      (∀ z, z ≠ ex.id → z ≠ ey.id → z ≠ ctxParent k → z ∉ b.ids → Agree m m' z) := by
  obtain ⟨x, p, hz⟩ := Zip.of_plug ht
  have hx : ex.id = x := hz.sub.id_eq
  have hp := hz.ctx.parent_eq
  obtain ⟨m', h', r1, r2, r3, r4, r5, r6⟩ := rotate_spec (d := false) (h := h) hz
  exact ⟨m', h', by rw [hx]; exact r1, r2.isTree, r3, r4, r5, fun z h1 h2 h3 h4 => r6 z (hx ▸ h1) h2 (hp ▸ h3) h4⟩

/-- the leaf attach of `cstl_bintree_insert` (`bn->p = bp; bn->l = bn->r = NULL; *bc = bn; size++`)
at any empty position of a tree -/
theorem attach_leaf_refines {m : TM} {h : Hd} {k : Ctx} {n : Nat} (ht : IsTree m h.root 0 (plug k .nil))
    (hn0 : n ≠ 0) (hnt : n ∉ (plug k .nil).ids) :
    IsTree (attach m h n (ctxParent k) (slot k (ctxParent k))).1 (attach m h n (ctxParent k) (slot k (ctxParent k))).2.root 0
        (plug k (.node (m.cl n) .nil (elemAt m n) .nil)) ∧
      (attach m h n (ctxParent k) (slot k (ctxParent k))).2.size = h.size + 1 ∧
      (∀ z, z ≠ n → z ≠ ctxParent k → Agree m (attach m h n (ctxParent k) (slot k (ctxParent k))).1 z) := by
  obtain ⟨a, p, hz⟩ := Zip.of_plug ht
  have ha : a = 0 := hz.sub
  subst ha
  have hp := hz.ctx.parent_eq
  subst hp
  obtain ⟨a1, a2, _, _, a5⟩ := attach_spec (h := h) hz hn0 (fun hc => hnt (mem_plug_ids.mpr (Or.inr hc)))
  exact ⟨a1.isTree, a2, a5⟩

/-- the link surgery of `__cstl_bintree_erase` on a node with at most one child -/
theorem erase_surgery_one_child {m : TM} {h : Hd} {k : Ctx} {c : Color} {l r : Tree} {e : Elem}
    (ht : IsTree m h.root 0 (plug k (.node c l e r))) (hone : l = .nil ∨ r = .nil) :
    ∃ m' h', btEraseNode m h e.id = some (m', h', e.id) ∧ IsTree m' h'.root 0 (plug k (onlyChild l r)) ∧
      h'.size = h.size - 1 ∧ m'.cl = m.cl ∧ m'.key = m.key ∧
      (∀ z, z ≠ 0 → z ∉ (onlyChild l r).ids → z ≠ ctxParent k → Agree m m' z) := by
  obtain ⟨a, p, hz⟩ := Zip.of_plug ht
  have ha : e.id = a := hz.sub.id_eq
  have hp := hz.ctx.parent_eq
  obtain ⟨m', h', x, b1, _, b3, b4, b5, b6, b7⟩ := btEraseNode_one hz hone
  refine ⟨m', h', by rw [ha]; exact b1, b3.isTree, b4, b5, b6, ?_⟩
  intro z hz0 hzc hzp
  refine b7 z ?_ (hp ▸ hzp)
  intro e'
  by_cases h0 : x = 0
  · exact hz0 (e'.trans h0)
  · exact hzc (e' ▸ b3.sub.root_mem h0)

/-- the link surgery of `__cstl_bintree_erase` on a node with two children: the in-order successor
(leftmost node of the right subtree; possibly the right child itself) takes the node's place -/
theorem erase_surgery_two_children {m : TM} {h : Hd} {k : Ctx} {c cy : Color} {l r ry : Tree} {e ye : Elem}
    (ht : IsTree m h.root 0 (plug k (.node c l e r))) (hsz : h.size = (plug k (.node c l e r)).size)
    (hl : l ≠ .nil) (hr : r ≠ .nil) (hm : minSub r = .node cy .nil ye ry) :
    ∃ m' h', btEraseNode m h e.id = some (m', h', ye.id) ∧
      IsTree m' h'.root 0 (plug k (.node cy l ye (plug (spine r) ry))) ∧
      h'.size = h.size - 1 ∧ m'.cl = m.cl ∧ m'.key = m.key ∧
      (∀ z, z ≠ 0 → z ∉ (Tree.node c l e r).ids → z ≠ ctxParent k → Agree m m' z) := by
  obtain ⟨a, p, hz⟩ := Zip.of_plug ht
  have ha : e.id = a := hz.sub.id_eq
  have hp := hz.ctx.parent_eq
  have hfuel : r.height ≤ h.size + 1 := by
    have h1 := height_le_size r
    have h2 := size_le_plug k (.node c l e r)
    simp only [Tree.size] at h2
    omega
  obtain ⟨m', h', b1, _, b3, b4, b5, b6, _, _, _, b10, _⟩ := btEraseNode_two hz hl hr hm hfuel
  exact ⟨m', h', by rw [ha]; exact b1, b3.isTree, b4, b5, b6, fun z h1 h2 h3 => b10 z h1 h2 (hp ▸ h3)⟩

/-! ### the operations refine the functional model -/

/-- `cstl_bintree_find` (both results) -/
theorem find_refines {m : TM} {h : Hd} {t : Tree} (key : Int) (ht : IsTree m h.root 0 t) (hsz : h.size = t.size) :
    btFind m h key = some (idOpt (Cstl.Tree.find key t).1, idOpt (Cstl.Tree.find key t).2) :=
  btFind_spec key ht hsz

/-- `cstl_bintree_insert(bt, n, NULL)` -/
theorem bintree_insert_refines {m : TM} {h : Hd} {t : Tree} {n : Nat} (ht : IsTree m h.root 0 t)
    (hsz : h.size = t.size) (hn0 : n ≠ 0) (hnt : n ∉ t.ids) (hc : m.cl n = black) :
    ∃ m' h', btInsert m h n 0 = some (m', h') ∧
      IsTree m' h'.root 0 (Cstl.Tree.btIns (elemAt m n) t) ∧ h'.size = (Cstl.Tree.btIns (elemAt m n) t).size ∧
      m'.cl = m.cl ∧ m'.key = m.key ∧ (∀ z, z ≠ 0 → z ≠ n → z ∉ t.ids → Agree m m' z) :=
  btInsert_refines ht hsz hn0 hnt hc

/-- `cstl_bintree_insert(bt, n, hint)`, the hint any node of the tree -/
theorem bintree_insert_hint_refines {m : TM} {h : Hd} {t : Tree} {n hint : Nat} (ht : IsTree m h.root 0 t)
    (hsz : h.size = t.size) (hn0 : n ≠ 0) (hnt : n ∉ t.ids) (hc : m.cl n = black) (hh : hint ∈ t.ids) :
    ∃ m' h' t', Cstl.Tree.btInsAt hint (elemAt m n) t = some t' ∧ btInsert m h n hint = some (m', h') ∧
      IsTree m' h'.root 0 t' ∧ h'.size = h.size + 1 ∧
      m'.cl = m.cl ∧ m'.key = m.key ∧ (∀ z, z ≠ 0 → z ≠ n → z ∉ t.ids → Agree m m' z) :=
  btInsertAt_refines ht hsz hn0 hnt hc hh

/-- `cstl_bintree_erase` -/
theorem bintree_erase_refines {m : TM} {h : Hd} {t : Tree} (key : Int) (ht : IsTree m h.root 0 t)
    (hsz : h.size = t.size) (hblack : ∀ a, m.cl a = black) :
    ∃ m' h', btErase m h key = some (m', h', idOpt (Cstl.Tree.btErase key t).2) ∧
      IsTree m' h'.root 0 (Cstl.Tree.btErase key t).1 ∧ h'.size = (Cstl.Tree.btErase key t).1.size ∧
      m'.cl = m.cl ∧ m'.key = m.key ∧ (∀ z, z ≠ 0 → z ∉ t.ids → Agree m m' z) :=
  btErase_refines key ht hsz hblack

/-- the insert fix-up loop (upward navigation through `p`): from a red node `x` at the focus it
finishes and, after the root is painted black, the memory represents what the recursion of the
functional `ins` returns on its way back up -/
theorem rb_fix_insertion_loop_refines (fuel : Nat) (K : Ctx) (m : TM) (h : Hd) (x p : Nat) (a b : Tree)
    (xe : Elem) (T : Tree) (hlen : K.length ≤ fuel) (hz : Zip m h.root K x p (.node red a xe b))
    (hfin : Cstl.Tree.finishIns (unwind K (.newRed a xe b)) = some T) :
    ∃ m' h', insFixLoop fuel m h x = some (m', h') ∧ h'.root ≠ 0 ∧
      IsTree (setC m' h'.root black) h'.root 0 T ∧ h'.size = h.size ∧ m'.key = m.key ∧
      (∀ z, z ≠ 0 → z ∉ (plug K (.node red a xe b)).ids → Agree m (setC m' h'.root black) z) :=
  insFixLoop_spec fuel K m h x p a b xe T hlen hz hfin

/-- `cstl_rbtree_insert(t, n, NULL)` -/
theorem rb_insert_refines {m : TM} {h : Hd} {t T : Tree} {n : Nat} (ht : IsTree m h.root 0 t)
    (hsz : h.size = t.size) (hn0 : n ≠ 0) (hnt : n ∉ t.ids)
    (hf : Cstl.Tree.rbInsert (elemAt m n) t = some T) :
    ∃ m' h', rbInsert m h n 0 = some (m', h') ∧ IsTree m' h'.root 0 T ∧ h'.size = h.size + 1 ∧
      m'.key = m.key ∧ (∀ z, z ≠ 0 → z ≠ n → z ∉ t.ids → Agree m m' z) :=
  rbInsert_refines ht hsz hn0 hnt hf

/-- `cstl_rbtree_insert(t, n, hint)`, the hint any node of the tree -/
theorem rb_insert_hint_refines {m : TM} {h : Hd} {t T : Tree} {n hint : Nat} (ht : IsTree m h.root 0 t)
    (hsz : h.size = t.size) (hn0 : n ≠ 0) (hnt : n ∉ t.ids) (hh : hint ∈ t.ids)
    (hf : Cstl.Tree.rbInsertAt hint (elemAt m n) t = some (some T)) :
    ∃ m' h', rbInsert m h n hint = some (m', h') ∧ IsTree m' h'.root 0 T ∧ h'.size = h.size + 1 ∧
      m'.key = m.key ∧ (∀ z, z ≠ 0 → z ≠ n → z ∉ t.ids → Agree m m' z) :=
  rbInsertAt_refines ht hsz hn0 hnt hh hf

/-- the erase fix-up loop: `x` is the (black or missing) root of the focused subtree, whose paths
are one black node short; for a missing child `x` is the stack-local stand-in `sx` with
`sx->p` = the hole's parent.  The loop finishes, and after `*BN_COLOR(x) = B` the memory represents
what the recursion of the functional `del` returns on its way back up — up to the colour of the
root, which the C code paints black when the loop ends there (no difference on a tree whose root is
black, see `rb_erase_refines`) -/
theorem rb_fix_deletion_loop_refines (sx : Nat) (hsx0 : sx ≠ 0) (K : Ctx) (fuel : Nat) (m : TM) (h : Hd)
    (a p x : Nat) (tx T : Tree) (s : Bool) (hlen : K.length ≤ fuel) (hz : Zip m h.root K a p tx)
    (hx : XOk m K p x) (htx : tx.isRed = false) (hcx : m.cl x = black)
    (hxa : (x = a ∧ a ≠ 0) ∨ (x = sx ∧ a = 0)) (hsx : sx ∉ (plug K tx).ids)
    (hun : unwindD K (tx, true) = some (T, s)) :
    ∃ m' h' x' T'', delFixLoop sx fuel m h x = some (m', h', x') ∧
      IsTree (setC m' x' black) h'.root 0 T'' ∧ (T'' = T.blacken ∨ (s = false ∧ T'' = T)) ∧
      h'.size = h.size ∧ m'.key = m.key ∧
      (∀ z, z ≠ 0 → z ≠ sx → z ∉ (plug K tx).ids → Agree m (setC m' x' black) z) :=
  delFixLoop_spec sx hsx0 K fuel m h a p x tx T s hlen hz hx htx hcx hxa hsx hun

/-- `cstl_rbtree_erase`; `hrb` holds on every tree that satisfies the red-black rules
(`Cstl.Tree.rbErase_inv`), see `rb_erase_refines_inv` -/
theorem rb_erase_refines {m : TM} {h : Hd} {t T : Tree} {res : Option Elem} (key : Int) (sx : Nat)
    (ht : IsTree m h.root 0 t) (hsz : h.size = t.size) (hsx0 : sx ≠ 0) (hsxt : sx ∉ t.ids)
    (hf : Cstl.Tree.rbErase key t = some (T, res)) (hrb : T.blacken = T) :
    ∃ m' h', rbErase m h key sx = some (m', h', idOpt res) ∧ IsTree m' h'.root 0 T ∧ h'.size = T.size ∧
      m'.key = m.key ∧ (∀ z, z ≠ 0 → z ≠ sx → z ∉ t.ids → Agree m m' z) :=
  rbErase_refines key sx ht hsz hsx0 hsxt hf hrb

/-- on a red-black tree `cstl_rbtree_erase` never dereferences NULL and ends in the functional result -/
theorem rb_erase_refines_inv {m : TM} {h : Hd} {t : Tree} (key : Int) (sx : Nat) (ht : IsTree m h.root 0 t)
    (hsz : h.size = t.size) (hsx0 : sx ≠ 0) (hsxt : sx ∉ t.ids) (hinv : Cstl.Tree.Inv t) :
    ∃ T res m' h', Cstl.Tree.rbErase key t = some (T, res) ∧ Cstl.Tree.Inv T ∧
      rbErase m h key sx = some (m', h', idOpt res) ∧ IsTree m' h'.root 0 T ∧ h'.size = T.size := by
  obtain ⟨T, res, he, hinv'⟩ := Cstl.Tree.rbErase_inv key hinv
  obtain ⟨m', h', g1, g2, g3, _, _⟩ := rbErase_refines key sx ht hsz hsx0 hsxt he (rootBlack_blacken hinv'.1)
  exact ⟨T, res, m', h', he, hinv', g1, g2, g3⟩

/-! ### histories -/

/-- every bintree history (from the empty tree, in a memory whose colour fields are all black —
the bintree never reads or writes them) that stays inside the interface refines `btRun` -/
theorem bt_history_refines (m0 : TM) (hb : ∀ a, m0.cl a = black) (ops : List LOp) (hok : ∀ op ∈ ops, OpOk 0 op)
    {ts : TS} {outs : List Out} (hf : Cstl.Tree.btRun (ops.map toOp) = .ok (ts, outs)) :
    ∃ s rs, runL btStepL ⟨m0, ⟨0, 0⟩⟩ ops = some (s, rs) ∧ Rep s ts ∧ rs.map (·.1) = outs.map outAddr := by
  obtain ⟨s, rs, h1, h2, _, h4⟩ := bt_runL_refines ops ⟨m0, ⟨0, 0⟩⟩ {} ts outs (Rep.init m0) hb hok hf
  exact ⟨s, rs, h1, h2, h4⟩

/-- every red-black history that stays inside the interface refines `rbRun`; the red-black rules
hold after every operation (`Cstl.Tree.run_inv`) -/
theorem rb_history_refines (m0 : TM) (sx : Nat) (hsx0 : sx ≠ 0) (ops : List LOp) (hok : ∀ op ∈ ops, OpOk sx op)
    {ts : TS} {outs : List Out} (hf : Cstl.Tree.rbRun (ops.map toOp) = .ok (ts, outs)) :
    ∃ s rs, runL (rbStepL sx) ⟨m0, ⟨0, 0⟩⟩ ops = some (s, rs) ∧ Rep s ts ∧ Cstl.Tree.Inv ts.t ∧
      rs.map (·.1) = outs.map outAddr :=
  rb_runL_refines hsx0 ops ⟨m0, ⟨0, 0⟩⟩ {} ts outs (Rep.init m0) Cstl.Tree.inv_nil (by simp) hok hf

/-- a red-black history at link level never dereferences NULL and never overruns a loop: it stops
only where the functional history stops, i.e. when an element that is in the tree is inserted again -/
theorem rb_history_no_stop (m0 : TM) (sx : Nat) (hsx0 : sx ≠ 0) (ops : List LOp) (hok : ∀ op ∈ ops, OpOk sx op)
    (hbad : Cstl.Tree.rbRun (ops.map toOp) ≠ .error .badOp) :
    ∃ s rs, runL (rbStepL sx) ⟨m0, ⟨0, 0⟩⟩ ops = some (s, rs) := by
  cases hr : Cstl.Tree.rbRun (ops.map toOp) with
  | error e =>
    cases e with
    | badOp => exact absurd hr hbad
    | segv => exact absurd hr (Cstl.Tree.run_no_segv _)
  | ok r =>
    obtain ⟨ts, outs⟩ := r
    obtain ⟨s, rs, h1, _⟩ := rb_history_refines m0 sx hsx0 ops hok hr
    exact ⟨s, rs, h1⟩

/-- C02, pointer level: after every operation of every red-black history every child's parent link
points back at its parent and the root's parent link is NULL -/
theorem rb_parent_links_ok (m0 : TM) (sx : Nat) (hsx0 : sx ≠ 0) (ops : List LOp) (hok : ∀ op ∈ ops, OpOk sx op)
    {ts : TS} {outs : List Out} (hf : Cstl.Tree.rbRun (ops.map toOp) = .ok (ts, outs)) :
    ∃ s rs, runL (rbStepL sx) ⟨m0, ⟨0, 0⟩⟩ ops = some (s, rs) ∧
      (s.h.root ≠ 0 → s.m.pr s.h.root = 0) ∧
      ∀ a ∈ ts.t.ids, a ≠ 0 ∧ (s.m.lf a ≠ 0 → s.m.pr (s.m.lf a) = a) ∧ (s.m.rt a ≠ 0 → s.m.pr (s.m.rt a) = a) := by
  obtain ⟨s, rs, h1, h2, _, _⟩ := rb_history_refines m0 sx hsx0 ops hok hf
  exact ⟨s, rs, h1, parent_links_ok h2.tree⟩

/-- C01, pointer level: the same for the plain binary tree -/
theorem bt_parent_links_ok (m0 : TM) (hb : ∀ a, m0.cl a = black) (ops : List LOp) (hok : ∀ op ∈ ops, OpOk 0 op)
    {ts : TS} {outs : List Out} (hf : Cstl.Tree.btRun (ops.map toOp) = .ok (ts, outs)) :
    ∃ s rs, runL btStepL ⟨m0, ⟨0, 0⟩⟩ ops = some (s, rs) ∧
      (s.h.root ≠ 0 → s.m.pr s.h.root = 0) ∧
      ∀ a ∈ ts.t.ids, a ≠ 0 ∧ (s.m.lf a ≠ 0 → s.m.pr (s.m.lf a) = a) ∧ (s.m.rt a ≠ 0 → s.m.pr (s.m.rt a) = a) := by
  obtain ⟨s, rs, h1, h2, _⟩ := bt_history_refines m0 hb ops hok hf
  exact ⟨s, rs, h1, parent_links_ok h2.tree⟩

/-- the driver's dump of a state reached by a history is the functional tree -/
theorem rb_history_dump (m0 : TM) (sx : Nat) (hsx0 : sx ≠ 0) (ops : List LOp) (hok : ∀ op ∈ ops, OpOk sx op)
    {ts : TS} {outs : List Out} (hf : Cstl.Tree.rbRun (ops.map toOp) = .ok (ts, outs)) (lim : Nat)
    (hlim : ts.t.size ≤ lim) :
    ∃ s rs, runL (rbStepL sx) ⟨m0, ⟨0, 0⟩⟩ ops = some (s, rs) ∧
      readTree s.m (lim + 1) s.h.root 0 lim = .ok (ts.t, lim - ts.t.size) := by
  obtain ⟨s, rs, h1, h2, _, _⟩ := rb_history_refines m0 sx hsx0 ops hok hf
  refine ⟨s, rs, h1, readTree_spec ts.t _ _ _ _ h2.tree.shape ?_ hlim⟩
  have := height_le_size ts.t
  omega

/-! ### heap: cstl_heap_promote_child (pointer level of C07) -/

/-- `cstl_heap_promote_child(h, c)` anywhere in a tree: the node `c` (element `ce`) and its parent
(element `pe`) exchange positions — `c` gets the parent's place and other child `ps`, the parent
gets `c`'s place and children `cl`, `cr`; every parent link of the result points back
(`parent_links_ok`); nothing outside the two nodes, their children's parent links and the
grandparent's child link is written.  This is the step lean/Cstl/Heap/Model.lean abstracts to
"the two elements exchange positions"; `promoteChild` is tied to the C source by the translator
(TieHeap.lean). -/
theorem heap_promote_child_refines {m : TM} {h : Hd} {k : Ctx} {d : Bool} {cp cc : Color} {cl cr ps : Tree}
    {ce pe : Elem} (ht : IsTree m h.root 0 (plug k (mkNode d cp (.node cc cl ce cr) pe ps))) :
    IsTree (promoteChild m h ce.id).1 (promoteChild m h ce.id).2.root 0
        (plug k (mkNode d cc (.node cp cl pe cr) ce ps)) ∧
      (promoteChild m h ce.id).2.size = h.size ∧ (promoteChild m h ce.id).1.cl = m.cl ∧
      (promoteChild m h ce.id).1.key = m.key ∧
      (∀ z, z ≠ 0 → z ∉ (mkNode d cp (.node cc cl ce cr) pe ps).ids → z ≠ ctxParent k →
        Agree m (promoteChild m h ce.id).1 z) := by
  obtain ⟨p, gp, hz⟩ := Zip.of_plug ht
  have hg := hz.ctx.parent_eq
  obtain ⟨a1, a2, a3, a4, a5⟩ := promoteChild_spec hz
  exact ⟨a1.isTree, a2, a3, a4, fun z h1 h2 h3 => a5 z h1 h2 (hg ▸ h3)⟩

/-! ### non-vacuity: a concrete memory that represents a tree, and operations on it -/

/-- nodes 1 (key 10, red), 2 (key 20, black, the root), 3 (key 30, red) -/
def exM : TM :=
  { pr := fun a => if a = 1 ∨ a = 3 then 2 else 0
    lf := fun a => if a = 2 then 1 else 0
    rt := fun a => if a = 2 then 3 else 0
    cl := fun a => if a = 2 then black else if a = 1 ∨ a = 3 then red else black
    key := fun a => 10 * (a : Int) }

def exT : Tree := .node black (.node red .nil ⟨10, 1, 0, 0⟩ .nil) ⟨20, 2, 0, 0⟩ (.node red .nil ⟨30, 3, 0, 0⟩ .nil)

example : IsTree exM 2 0 exT := ⟨by simp [exT, exM, elemAt], by simp [exT]⟩
example : Cstl.Tree.Inv exT := by
  refine ⟨rfl, by simp [exT, Cstl.Tree.NoRedRed, Tree.isRed], 1, ?_⟩
  simp [exT, Cstl.Tree.blackCounts]
example : btFind exM ⟨2, 3⟩ 30 = some (3, 2) := by decide
example : OpOk 9 (.ins 4 25) := by simp [OpOk]
/-- promote node 1 above the root 2: the root becomes 1 with children 2 and 3 -/
example : ((promoteChild exM ⟨2, 3⟩ 1).2.root, (promoteChild exM ⟨2, 3⟩ 1).1.lf 1, (promoteChild exM ⟨2, 3⟩ 1).1.rt 1,
    (promoteChild exM ⟨2, 3⟩ 1).1.pr 2, (promoteChild exM ⟨2, 3⟩ 1).1.pr 3) = (1, 2, 3, 1, 1) := by decide
/-- a history that takes the insert fix-up through a recolouring and rotations and the erase
fix-up through the stand-in node -/
example : (Cstl.Tree.rbRun ([LOp.ins 1 10, .ins 2 20, .ins 3 30, .ins 4 25, .ins 5 27, .erase 10, .erase 30].map toOp)).toBool = true := by
  decide

end Cstl.TreeL
