import Cstl.TreeL.Dir
/-
cstl_heap_promote_child (src/heap.c) at link level: the six-neighbour
relinking exchanges the positions of a node and its parent.  `promoteChild`
(Model.lean) is, by the translator tie of TieHeap.lean, the translation of the
C function; this file proves what it does to a memory that represents a tree.
(lean/Cstl/Heap/Model.lean abstracts exactly this step of `siftUp` /
`siftInto` to "the two elements exchange positions".)
-/
set_option linter.unusedSimpArgs false
set_option linter.unusedVariables false
namespace Cstl.TreeL
open Cstl.SList (Mem upd upd_same upd_other)
open Cstl.Tree (Color Elem Tree)
open Cstl.Tree.Color Cstl.Tree.Tree

structure PromRes (m : TM) (h : Hd) (c : Nat) (m' : TM) (h' : Hd) : Prop where
  cl : m'.cl = m.cl
  key : m'.key = m.key
  size : h'.size = h.size
  root : h'.root = if m.pr (m.pr c) = 0 then c else h.root
  pr : ∀ z, m'.pr z = if z = c then m.pr (m.pr c) else if z = m.pr c then c
        else if (z = m.lf c ∨ z = m.rt c) ∧ z ≠ 0 then m.pr c
        else if (z = m.lf (m.pr c) ∨ z = m.rt (m.pr c)) ∧ z ≠ 0 then c else m.pr z
  lf : ∀ z, m'.lf z = if z = c then (if m.lf (m.pr c) = c then m.pr c else m.lf (m.pr c))
        else if z = m.pr c then m.lf c
        else if z = m.pr (m.pr c) ∧ z ≠ 0 ∧ m.lf z = m.pr c then c else m.lf z
  rt : ∀ z, m'.rt z = if z = c then (if m.lf (m.pr c) = c then m.rt (m.pr c) else m.pr c)
        else if z = m.pr c then m.rt c
        else if z = m.pr (m.pr c) ∧ z ≠ 0 ∧ m.lf z ≠ m.pr c then c else m.rt z

theorem promoteChild_fields (m : TM) (h : Hd) (c : Nat)
    (h1 : c ≠ m.pr c) (h2 : c ≠ m.pr (m.pr c)) (h3 : m.pr c ≠ m.pr (m.pr c))
    (h4 : m.lf c ≠ c) (h5 : m.lf c ≠ m.pr c) (h6 : m.rt c ≠ c) (h7 : m.rt c ≠ m.pr c)
    (h8 : m.lf (m.pr c) ≠ m.pr c) (h9 : m.rt (m.pr c) ≠ m.pr c)
    (h10 : m.lf (m.pr c) = c ∨ m.rt (m.pr c) = c)
    (h11 : m.lf (m.pr c) = c → m.rt (m.pr c) ≠ c) (hc0 : c ≠ 0) (hp0 : m.pr c ≠ 0)
    (d1 : m.lf c ≠ 0 → m.lf c ≠ m.lf (m.pr c) ∧ m.lf c ≠ m.rt (m.pr c))
    (d2 : m.rt c ≠ 0 → m.rt c ≠ m.lf (m.pr c) ∧ m.rt c ≠ m.rt (m.pr c)) :
    PromRes m h c (promoteChild m h c).1 (promoteChild m h c).2 := by
  generalize hp : m.pr c = p at *
  generalize hg : m.pr p = g at *
  have e1 := h1.symm
  have e2 := h2.symm
  have e3 := h3.symm
  have e4 := h4.symm
  have e5 := h5.symm
  have e6 := h6.symm
  have e7 := h7.symm
  have e8 := h8.symm
  have e9 := h9.symm
  by_cases hg0 : g = 0 <;> by_cases hl0 : m.lf c = 0 <;> by_cases hr0 : m.rt c = 0 <;>
    by_cases hpl : m.lf p = c
  all_goals
    constructor
    · simp [promoteChild, hp, hg, upd_apply, apply_ite TM.cl, apply_ite TM.pr, apply_ite TM.lf, apply_ite TM.rt, *]
      try grind [upd_apply]
    · simp [promoteChild, hp, hg, upd_apply, apply_ite TM.key, apply_ite TM.pr, apply_ite TM.lf, apply_ite TM.rt, *]
      try grind [upd_apply]
    · simp [promoteChild, hp, hg, upd_apply, *]
    · simp [promoteChild, hp, hg, upd_apply, *]
    · intro z
      simp [promoteChild, hp, hg, upd_apply, apply_ite TM.pr, apply_ite TM.lf, apply_ite TM.rt, *]
      try grind [upd_apply]
    · intro z
      simp [promoteChild, hp, hg, upd_apply, apply_ite TM.pr, apply_ite TM.lf, apply_ite TM.rt, *]
      try grind [upd_apply]
    · intro z
      simp [promoteChild, hp, hg, upd_apply, apply_ite TM.pr, apply_ite TM.lf, apply_ite TM.rt, *]
      try grind [upd_apply]

/-- `cstl_heap_promote_child(h, c)` at the focus `p` = parent of `c`: the two nodes exchange
positions — `c` takes `p`'s place (its parent, its other child `ps`), `p` takes `c`'s place and
children; nothing else is written -/
theorem promoteChild_spec {m : TM} {h : Hd} {k : Ctx} {p gp : Nat} {d : Bool} {cp cc : Color}
    {cl cr ps : Tree} {ce pe : Elem}
    (hz : Zip m h.root k p gp (mkNode d cp (.node cc cl ce cr) pe ps)) :
    Zip (promoteChild m h ce.id).1 (promoteChild m h ce.id).2.root k ce.id gp
        (mkNode d cc (.node cp cl pe cr) ce ps) ∧
      (promoteChild m h ce.id).2.size = h.size ∧ (promoteChild m h ce.id).1.cl = m.cl ∧
      (promoteChild m h ce.id).1.key = m.key ∧
      (∀ z, z ≠ 0 → z ∉ (mkNode d cp (.node cc cl ce cr) pe ps).ids → z ≠ gp →
        Agree m (promoteChild m h ce.id).1 z) := by
  have hs := hz.sub
  rw [Shape_mkNode] at hs
  obtain ⟨hp0, hpe, hcp, hpp, hsc, hsps⟩ := hs
  have hpeid : pe.id = p := by simp [hpe]
  have hsc' := hsc
  simp only [Shape_node] at hsc'
  obtain ⟨hc0, hce, hcc, hpc, hscl, hscr⟩ := hsc'
  have hceid : ce.id = chL m d p := by simp [hce]
  rw [hceid]
  generalize hcdef : chL m d p = c at *
  -- distinctness in a canonical order
  have hnd : (p :: c :: (cl.ids ++ (cr.ids ++ (ps.ids ++ ctxIds k)))).Nodup := by
    have h1 := hz.nodup
    have p1 : ((mkNode d cp (Tree.node cc cl ce cr) pe ps).ids ++ ctxIds k).Perm
        (p :: c :: (cl.ids ++ (cr.ids ++ (ps.ids ++ ctxIds k)))) := by
      have q1 := mkNode_ids_perm d cp (Tree.node cc cl ce cr) ps pe
      rw [hpeid] at q1
      have q2 : (p :: ((Tree.node cc cl ce cr).ids ++ ps.ids)).Perm (p :: c :: (cl.ids ++ (cr.ids ++ ps.ids))) := by
        refine List.Perm.cons _ ?_
        simp only [Cstl.Tree.ids_node, hceid, List.append_assoc, List.cons_append]
        exact List.perm_middle
      have := (q1.trans q2).append_right (ctxIds k)
      simpa [List.append_assoc] using this
    exact p1.nodup_iff.mp h1
  have hnd' : ((mkNode d cc (Tree.node cp cl pe cr) ce ps).ids ++ ctxIds k).Nodup := by
    have p1 : ((mkNode d cc (Tree.node cp cl pe cr) ce ps).ids ++ ctxIds k).Perm
        (p :: c :: (cl.ids ++ (cr.ids ++ (ps.ids ++ ctxIds k)))) := by
      have q1 := mkNode_ids_perm d cc (Tree.node cp cl pe cr) ps ce
      rw [hceid] at q1
      have q2 : (c :: ((Tree.node cp cl pe cr).ids ++ ps.ids)).Perm (p :: c :: (cl.ids ++ (cr.ids ++ ps.ids))) := by
        simp only [Cstl.Tree.ids_node, hpeid, List.append_assoc, List.cons_append]
        refine (List.Perm.cons _ List.perm_middle).trans ?_
        exact List.Perm.swap _ _ _
      have := (q1.trans q2).append_right (ctxIds k)
      simpa [List.append_assoc] using this
    exact p1.nodup_iff.mpr hnd
  simp only [List.nodup_cons, List.mem_cons, List.mem_append, not_or] at hnd
  obtain ⟨⟨hpc', hpcl, hpcr, hpps, hpk⟩, ⟨hccl, hccr, hcps, hck⟩, hrest⟩ := hnd
  obtain ⟨hncl, hrest2, dcl⟩ := List.nodup_append.mp hrest
  obtain ⟨hncr, hrest3, dcr⟩ := List.nodup_append.mp hrest2
  obtain ⟨hnps, _, dps⟩ := List.nodup_append.mp hrest3
  have hgm : gp ≠ 0 → gp ∈ ctxIds k := hz.ctx.parent_mem
  have hlm : m.lf c ≠ 0 → m.lf c ∈ cl.ids := hscl.root_mem
  have hrm : m.rt c ≠ 0 → m.rt c ∈ cr.ids := hscr.root_mem
  have hsm : chR m d p ≠ 0 → chR m d p ∈ ps.ids := hsps.root_mem
  -- what the C tests see at p
  have hside : (m.lf p = c ↔ d = true) ∧ (m.lf p = c → m.rt p = chR m d p) ∧ (m.lf p ≠ c → m.rt p = c ∧ m.lf p = chR m d p) := by
    cases d
    · simp only [chL, chR, Bool.false_eq_true, if_false] at hcdef hsm ⊢
      have : m.lf p ≠ c := by
        intro e'
        by_cases h0 : m.lf p = 0
        · exact hc0 (e' ▸ h0)
        · exact hcps (e' ▸ hsm h0)
      simp [this, hcdef]
    · simp only [chL, chR, if_true] at hcdef hsm ⊢
      simp [hcdef]
  obtain ⟨hs1, hs2, hs3⟩ := hside
  -- membership as disequalities
  have dCl : ∀ z ∈ cl.ids, z ≠ 0 ∧ z ≠ p ∧ z ≠ c ∧ z ∉ cr.ids ∧ z ∉ ps.ids ∧ z ∉ ctxIds k := fun z hz' =>
    ⟨hscl.ids_ne_zero z hz', fun e => hpcl (e ▸ hz'), fun e => hccl (e ▸ hz'),
      fun h' => dcl z hz' z (by simp [h']) rfl, fun h' => dcl z hz' z (by simp [h']) rfl,
      fun h' => dcl z hz' z (by simp [h']) rfl⟩
  have dCr : ∀ z ∈ cr.ids, z ≠ 0 ∧ z ≠ p ∧ z ≠ c ∧ z ∉ cl.ids ∧ z ∉ ps.ids ∧ z ∉ ctxIds k := fun z hz' =>
    ⟨hscr.ids_ne_zero z hz', fun e => hpcr (e ▸ hz'), fun e => hccr (e ▸ hz'),
      fun h' => dcl z h' z (by simp [hz']) rfl, fun h' => dcr z hz' z (by simp [h']) rfl,
      fun h' => dcr z hz' z (by simp [h']) rfl⟩
  have dPs : ∀ z ∈ ps.ids, z ≠ 0 ∧ z ≠ p ∧ z ≠ c ∧ z ∉ cl.ids ∧ z ∉ cr.ids ∧ z ∉ ctxIds k := fun z hz' =>
    ⟨hsps.ids_ne_zero z hz', fun e => hpps (e ▸ hz'), fun e => hcps (e ▸ hz'),
      fun h' => dcl z h' z (by simp [hz']) rfl, fun h' => dcr z h' z (by simp [hz']) rfl,
      fun h' => dps z hz' z h' rfl⟩
  have dK : ∀ z ∈ ctxIds k, z ≠ 0 ∧ z ≠ p ∧ z ≠ c ∧ z ∉ cl.ids ∧ z ∉ cr.ids ∧ z ∉ ps.ids := fun z hz' =>
    ⟨hz.ctx.ids_ne_zero z hz', fun e => hpk (e ▸ hz'), fun e => hck (e ▸ hz'),
      fun h' => (dCl z h').2.2.2.2.2 hz', fun h' => (dCr z h').2.2.2.2.2 hz', fun h' => (dPs z h').2.2.2.2.2 hz'⟩
  have gC : gp ≠ c := fun e => by rw [e] at hgm; exact hck (hgm hc0)
  have gP : gp ≠ p := fun e => by rw [e] at hgm; exact hpk (hgm hp0)
  have R := promoteChild_fields m h c (by rw [hpc]; exact fun e => hpc' e.symm) (by rw [hpc, hpp]; exact gC.symm)
    (by rw [hpc, hpp]; exact gP.symm) (by grind) (by rw [hpc]; grind) (by grind) (by rw [hpc]; grind)
    (by rw [hpc]; grind) (by rw [hpc]; grind) (by rw [hpc]; grind) (by rw [hpc]; grind) hc0 (by rw [hpc]; exact hp0)
    (by rw [hpc]; grind) (by rw [hpc]; grind)
  have agree_of : ∀ z, z ≠ 0 → z ≠ c → z ≠ p → z ≠ gp → z ≠ m.lf c → z ≠ m.rt c → z ≠ chR m d p →
      Agree m (promoteChild m h c).1 z := by
    intro z z0 z1 z2 z3 z4 z5 z6
    have a1 := R.pr z
    have a2 := R.lf z
    have a3 := R.rt z
    simp only [hpc, hpp] at a1 a2 a3
    refine ⟨?_, ?_, ?_, by rw [R.cl], by rw [R.key]⟩ <;> grind
  have child_of : ∀ z (q : Nat), z ≠ 0 → z ≠ c → z ≠ p → z ≠ gp →
      ((z = m.lf c ∨ z = m.rt c) ∧ q = p ∨ (z = chR m d p ∧ z ≠ m.lf c ∧ z ≠ m.rt c) ∧ q = c) →
      (promoteChild m h c).1.pr z = q ∧ (promoteChild m h c).1.lf z = m.lf z ∧
      (promoteChild m h c).1.rt z = m.rt z ∧ (promoteChild m h c).1.cl z = m.cl z ∧
      (promoteChild m h c).1.key z = m.key z := by
    intro z q z0 z1 z2 z3 z4
    have a1 := R.pr z
    have a2 := R.lf z
    have a3 := R.rt z
    simp only [hpc, hpp] at a1 a2 a3
    refine ⟨?_, ?_, ?_, by rw [R.cl], by rw [R.key]⟩ <;> grind
  have r1 := R.pr c
  have r2 := R.lf c
  have r3 := R.rt c
  have r4 := R.pr p
  have r5 := R.lf p
  have r6 := R.rt p
  simp only [hpc, hpp] at r1 r2 r3 r4 r5 r6
  have hpc'' : p ≠ c := hpc'
  simp only [if_true, hpc'', if_false] at r1 r2 r3 r4 r5 r6
  have hgz : ∀ z, z ∈ cl.ids ∨ z ∈ cr.ids ∨ z ∈ ps.ids → z ≠ gp := by
    intro z hz' e
    have z0 : z ≠ 0 := by
      rcases hz' with h' | h' | h'
      · exact (dCl z h').1
      · exact (dCr z h').1
      · exact (dPs z h').1
    rw [e] at hz' z0
    have := hgm z0
    rcases hz' with h' | h' | h'
    · exact (dCl gp h').2.2.2.2.2 this
    · exact (dCr gp h').2.2.2.2.2 this
    · exact (dPs gp h').2.2.2.2.2 this
  refine ⟨?_, R.size, R.cl, R.key, ?_⟩
  · refine hz.replace ?_ ?_ ?_ hnd'
    · rw [Shape_mkNode]
      refine ⟨hc0, by rw [hce]; simp [elemAt, R.key], by rw [R.cl]; exact hcc, r1, ?_, ?_⟩
      · -- p below c, on the side where c was
        have e1 : chL (promoteChild m h c).1 d c = p := by
          cases d
          · simp only [chL, Bool.false_eq_true, if_false]
            have : m.lf p ≠ c := fun e => by have := hs1.mp e; cases this
            rw [r3, if_neg this]
          · simp only [chL, if_true]
            rw [r2, if_pos (hs1.mpr rfl)]
        rw [e1]
        simp only [Shape_node]
        refine ⟨hp0, by rw [hpe]; simp [elemAt, R.key], by rw [R.cl]; exact hcp, r4, ?_, ?_⟩
        · rw [r5]
          refine hscl.reparent hncl (fun z hz' hne => ?_) (fun h0 => ?_)
          · have dz := dCl z hz'
            exact agree_of z dz.1 dz.2.2.1 dz.2.1 (hgz z (Or.inl hz')) hne (by grind) (by grind)
          · have dz := dCl _ (hlm h0)
            exact child_of _ p dz.1 dz.2.2.1 dz.2.1 (hgz _ (Or.inl (hlm h0))) (Or.inl ⟨Or.inl rfl, rfl⟩)
        · rw [r6]
          refine hscr.reparent hncr (fun z hz' hne => ?_) (fun h0 => ?_)
          · have dz := dCr z hz'
            exact agree_of z dz.1 dz.2.2.1 dz.2.1 (hgz z (Or.inr (Or.inl hz'))) (by grind) hne (by grind)
          · have dz := dCr _ (hrm h0)
            exact child_of _ p dz.1 dz.2.2.1 dz.2.1 (hgz _ (Or.inr (Or.inl (hrm h0)))) (Or.inl ⟨Or.inr rfl, rfl⟩)
      · -- the former sibling of c below c
        have e2 : chR (promoteChild m h c).1 d c = chR m d p := by
          cases d
          · simp only [chR, Bool.false_eq_true, if_false] at hs3 ⊢
            have : m.lf p ≠ c := fun e => by have := hs1.mp e; cases this
            rw [r2, if_neg this]
          · simp only [chR, if_true] at hs2 ⊢
            rw [r3, if_pos (hs1.mpr rfl)]
        rw [e2]
        refine hsps.reparent hnps (fun z hz' hne => ?_) (fun h0 => ?_)
        · have dz := dPs z hz'
          exact agree_of z dz.1 dz.2.2.1 dz.2.1 (hgz z (Or.inr (Or.inr hz'))) (by grind) (by grind) hne
        · have dz := dPs _ (hsm h0)
          exact child_of _ c dz.1 dz.2.2.1 dz.2.1 (hgz _ (Or.inr (Or.inr (hsm h0))))
            (Or.inr ⟨⟨rfl, by grind, by grind⟩, rfl⟩)
    · intro z hz' hne
      have dz := dK z hz'
      exact agree_of z dz.1 dz.2.2.1 dz.2.1 hne (by grind) (by grind) (by grind)
    · cases k with
      | nil =>
        have := hz.slot_nil
        simp only [SlotUpd]
        rw [R.root, hpc, hpp, this.1]; simp
      | cons f k =>
        have hg0 : gp ≠ 0 := fun e' => by have := hz.ctx.parent_zero_iff.mp e'; simp at this
        have hroot : (promoteChild m h c).2.root = h.root := by rw [R.root, hpc, hpp]; simp [hg0]
        have a1 := R.pr gp
        have a2 := R.lf gp
        have a3 := R.rt gp
        simp only [hpc, hpp] at a1 a2 a3
        have hgk := hgm hg0
        have dz := dK gp hgk
        have g1 : gp ≠ m.lf c := fun e => by
          have h0 : m.lf c ≠ 0 := by rw [← e]; exact hg0
          exact dz.2.2.2.1 (e ▸ hlm h0)
        have g2 : gp ≠ m.rt c := fun e => by
          have h0 : m.rt c ≠ 0 := by rw [← e]; exact hg0
          exact dz.2.2.2.2.1 (e ▸ hrm h0)
        have g3 : gp ≠ chR m d p := fun e => by
          have h0 : chR m d p ≠ 0 := by rw [← e]; exact hg0
          exact dz.2.2.2.2.2 (e ▸ hsm h0)
        have g4 : gp ≠ m.lf p ∧ gp ≠ m.rt p := by
          by_cases hl : m.lf p = c
          · rw [hl, hs2 hl]; exact ⟨gC, g3⟩
          · rw [(hs3 hl).1, (hs3 hl).2]; exact ⟨g3, gC⟩
        simp only [gC, gP, g1, g2, g4.1, g4.2, if_false, or_self, false_and, true_and, hg0, ne_eq,
          not_false_eq_true] at a1 a2 a3
        cases f with
        | L c0 e0 r0 =>
          obtain ⟨_, s2, s3⟩ := hz.slot_L hp0
          simp only [SlotUpd]
          simp only [s2, if_true, not_true_eq_false, if_false] at a2 a3
          exact ⟨hroot, a2, a3, a1, by rw [R.cl], by rw [R.key]⟩
        | R c0 l0 e0 =>
          obtain ⟨_, s2, s3⟩ := hz.slot_R hp0
          simp only [SlotUpd]
          simp only [s3, if_false, not_false_eq_true, if_true] at a2 a3
          exact ⟨hroot, a3, a2, a1, by rw [R.cl], by rw [R.key]⟩
  · intro z hz0 hzt hzg
    simp only [mem_mkNode_ids, Cstl.Tree.ids_node, List.mem_append, List.mem_cons, not_or, hpeid, hceid] at hzt
    refine agree_of z hz0 hzt.2.1.2.1 hzt.1 hzg ?_ ?_ ?_ <;> grind
end Cstl.TreeL
