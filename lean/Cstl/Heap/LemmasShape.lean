import Cstl.Heap.LemmasPath
import Cstl.Heap.LemmasOrder
/-
Occupied positions under `attachAt` / `removeAt`, and completeness.
-/
namespace Cstl.Heap
open Tree

@[simp] theorem occ_nil (ds : List Bool) : Occ nil ds = False := by
  cases ds <;> rfl

@[simp] theorem occ_node_nil (l r : Tree) (e : Elem) : Occ (node l e r) [] = True := rfl

@[simp] theorem occ_node_cons (l r : Tree) (e : Elem) (d : Bool) (ds : List Bool) :
    Occ (node l e r) (d :: ds) = Occ (if d then r else l) ds := rfl

theorem shape_eq_nil {t : Tree} (h : shape t = nil) : t = nil := by
  cases t with
  | nil => rfl
  | node l e r => simp [shape] at h

/-- occupancy depends on the shape only -/
theorem occ_of_shape : ∀ {t t' : Tree}, shape t = shape t' → ∀ ds, Occ t ds ↔ Occ t' ds := by
  intro t
  induction t with
  | nil =>
    intro t' h ds
    have : t' = nil := shape_eq_nil h.symm
    subst this; exact Iff.rfl
  | node l e r ihl ihr =>
    intro t' h ds
    cases t' with
    | nil => simp [shape] at h
    | node l' e' r' =>
      simp only [shape, node.injEq, true_and] at h
      cases ds with
      | nil => simp
      | cons d ds =>
        cases d with
        | true => simpa using ihr h.2 ds
        | false => simpa using ihl h.1 ds

theorem occ_leaf (e : Elem) (ds : List Bool) : Occ (leaf e) ds ↔ ds = [] := by
  cases ds with
  | nil => simp [leaf]
  | cons d ds => cases d <;> simp [leaf]

/-! ### attachAt -/

theorem attachAt_some {side : Bool} {e : Elem} : ∀ {pp : List Bool} {t : Tree}, Occ t pp →
    ∃ t1, attachAt t pp side e = some t1 := by
  intro pp
  induction pp with
  | nil =>
    intro t h
    cases t with
    | nil => simp at h
    | node l x r => exact ⟨_, rfl⟩
  | cons d ds ih =>
    intro t h
    cases t with
    | nil => simp at h
    | node l x r =>
      cases d with
      | true =>
        obtain ⟨r1, hr⟩ := ih (t := r) (by simpa using h)
        exact ⟨node l x r1, by simp [attachAt, hr]⟩
      | false =>
        obtain ⟨l1, hl⟩ := ih (t := l) (by simpa using h)
        exact ⟨node l1 x r, by simp [attachAt, hl]⟩

theorem attachAt_occ {side : Bool} {e : Elem} : ∀ {pp : List Bool} {t t1 : Tree},
    attachAt t pp side e = some t1 → ¬ Occ t (pp ++ [side]) →
    ∀ ds, Occ t1 ds ↔ (Occ t ds ∨ ds = pp ++ [side]) := by
  intro pp
  induction pp with
  | nil =>
    intro t t1 hat hocc ds
    cases t with
    | nil => simp [attachAt] at hat
    | node l x r =>
      cases side with
      | false =>
        have hl : l = nil := not_occ_nil_iff.1 (by simpa using hocc)
        subst hl
        simp [attachAt] at hat
        subst hat
        cases ds with
        | nil => simp
        | cons d ds => cases d <;> simp [occ_leaf]
      | true =>
        have hr : r = nil := not_occ_nil_iff.1 (by simpa using hocc)
        subst hr
        simp [attachAt] at hat
        subst hat
        cases ds with
        | nil => simp
        | cons d ds => cases d <;> simp [occ_leaf]
  | cons d pp ih =>
    intro t t1 hat hocc ds
    cases t with
    | nil => simp [attachAt] at hat
    | node l x r =>
      cases d with
      | true =>
        simp only [attachAt, if_true, Option.map_eq_some_iff] at hat
        obtain ⟨r1, hat, rfl⟩ := hat
        have IH := ih hat (by simpa using hocc)
        cases ds with
        | nil => simp
        | cons d' ds => cases d' <;> simp [IH]
      | false =>
        simp only [attachAt, Bool.false_eq_true, if_false, Option.map_eq_some_iff] at hat
        obtain ⟨l1, hat, rfl⟩ := hat
        have IH := ih hat (by simpa using hocc)
        cases ds with
        | nil => simp
        | cons d' ds => cases d' <;> simp [IH]

/-! ### removeAt -/

theorem removeAt_some : ∀ {p : List Bool} {t : Tree}, Occ t p → ∃ t' x, removeAt t p = some (t', x) := by
  intro p
  induction p with
  | nil =>
    intro t h
    cases t with
    | nil => simp at h
    | node l x r => exact ⟨_, _, rfl⟩
  | cons d ds ih =>
    intro t h
    cases t with
    | nil => simp at h
    | node l x r =>
      cases d with
      | true =>
        obtain ⟨r1, y, hr⟩ := ih (t := r) (by simpa using h)
        exact ⟨node l x r1, y, by simp [removeAt, hr]⟩
      | false =>
        obtain ⟨l1, y, hl⟩ := ih (t := l) (by simpa using h)
        exact ⟨node l1 x r, y, by simp [removeAt, hl]⟩

theorem removeAt_occ : ∀ {p : List Bool} {t t' : Tree} {x : Elem}, removeAt t p = some (t', x) →
    ∀ ds, Occ t' ds ↔ (Occ t ds ∧ ¬ p <+: ds) := by
  intro p
  induction p with
  | nil =>
    intro t t' x h ds
    cases t with
    | nil => simp [removeAt] at h
    | node l y r =>
      simp [removeAt] at h
      obtain ⟨rfl, rfl⟩ := h
      simp
  | cons d p ih =>
    intro t t' x h ds
    cases t with
    | nil => simp [removeAt] at h
    | node l y r =>
      cases d with
      | true =>
        simp only [removeAt, if_true, Option.map_eq_some_iff] at h
        obtain ⟨⟨r1, z⟩, hr, he⟩ := h
        simp only [Prod.mk.injEq] at he
        obtain ⟨rfl, rfl⟩ := he
        have IH := ih hr
        cases ds with
        | nil => simp
        | cons d' ds => cases d' <;> simp [IH, List.cons_prefix_cons]
      | false =>
        simp only [removeAt, Bool.false_eq_true, if_false, Option.map_eq_some_iff] at h
        obtain ⟨⟨l1, z⟩, hl, he⟩ := h
        simp only [Prod.mk.injEq] at he
        obtain ⟨rfl, rfl⟩ := he
        have IH := ih hl
        cases ds with
        | nil => simp
        | cons d' ds => cases d' <;> simp [IH, List.cons_prefix_cons]

/-- removing a leaf removes exactly its element -/
theorem removeAt_perm : ∀ {p : List Bool} {t t' : Tree} {x : Elem}, removeAt t p = some (t', x) →
    (∀ d, ¬ Occ t (p ++ [d])) → (elems t).Perm (x :: elems t') := by
  intro p
  induction p with
  | nil =>
    intro t t' x h hleaf
    cases t with
    | nil => simp [removeAt] at h
    | node l y r =>
      simp [removeAt] at h
      obtain ⟨rfl, rfl⟩ := h
      have hl : l = nil := not_occ_nil_iff.1 (by simpa using hleaf false)
      have hr : r = nil := not_occ_nil_iff.1 (by simpa using hleaf true)
      subst hl; subst hr
      simp
  | cons d p ih =>
    intro t t' x h hleaf
    cases t with
    | nil => simp [removeAt] at h
    | node l y r =>
      cases d with
      | true =>
        simp only [removeAt, if_true, Option.map_eq_some_iff] at h
        obtain ⟨⟨r1, z⟩, hr, he⟩ := h
        simp only [Prod.mk.injEq] at he
        obtain ⟨rfl, rfl⟩ := he
        have IH := ih hr (fun d => by simpa using hleaf d)
        perm_count IH
      | false =>
        simp only [removeAt, Bool.false_eq_true, if_false, Option.map_eq_some_iff] at h
        obtain ⟨⟨l1, z⟩, hl, he⟩ := h
        simp only [Prod.mk.injEq] at he
        obtain ⟨rfl, rfl⟩ := he
        have IH := ih hl (fun d => by simpa using hleaf d)
        perm_count IH

/-! ### completeness -/

theorem complete_nil : Complete nil 0 := by
  intro ds
  have := locOf_pos ds
  simp; omega

theorem complete_zero {t : Tree} (h : Complete t 0) : t = nil := by
  apply not_occ_nil_iff.1
  intro hc
  have := (h []).1 hc
  simp [locOf, locFrom] at this

theorem Complete.root {t : Tree} {n : Nat} (h : Complete t n) (hn : 0 < n) : Occ t [] :=
  (h []).2 (by simp [locOf, locFrom]; omega)

theorem complete_leaf (e : Elem) : Complete (leaf e) 1 := by
  intro ds
  rw [occ_leaf]
  constructor
  · rintro rfl; simp [locOf, locFrom]
  · intro h
    apply Classical.byContradiction
    intro hne
    have := locFrom_gt (k := 1) (by decide) hne
    unfold locOf at h
    omega

theorem Complete.of_shape {t t' : Tree} {n : Nat} (h : Complete t n) (hs : shape t' = shape t) :
    Complete t' n :=
  fun ds => (occ_of_shape hs ds).trans (h ds)

theorem locOf_parent_child (n : Nat) (hn : 1 ≤ n) (hlt : n + 1 < 2 ^ 64) :
    locOf (path ((n - 1) / 2 + 1) ++ [n % 2 == 0]) = n + 1 := by
  rw [locOf_snoc, locOf_path _ (by omega) (by omega)]
  cases hb : (n % 2 == 0) with
  | true =>
    have : n % 2 = 0 := by simpa using hb
    simp; omega
  | false =>
    have : ¬ n % 2 = 0 := by simpa using hb
    simp; omega

/-- the slot `cstl_heap_push` computes is the first free one, its parent
exists, and attaching there keeps the tree complete -/
theorem complete_attach {t : Tree} {n : Nat} (e : Elem) (hc : Complete t n) (hn : 1 ≤ n)
    (hlt : n + 1 < 2 ^ 64) :
    ¬ Occ t (path ((n - 1) / 2 + 1) ++ [n % 2 == 0]) ∧
    ∃ t1, attachAt t (path ((n - 1) / 2 + 1)) (n % 2 == 0) e = some t1 ∧ Complete t1 (n + 1) := by
  have hloc := locOf_parent_child n hn hlt
  have hfree : ¬ Occ t (path ((n - 1) / 2 + 1) ++ [n % 2 == 0]) := by
    intro h
    have := (hc _).1 h
    omega
  have hpar : Occ t (path ((n - 1) / 2 + 1)) := by
    apply (hc _).2
    rw [locOf_path _ (by omega) (by omega)]
    omega
  obtain ⟨t1, ht1⟩ := attachAt_some (side := n % 2 == 0) (e := e) hpar
  refine ⟨hfree, t1, ht1, ?_⟩
  intro ds
  rw [attachAt_occ ht1 hfree ds, hc ds]
  constructor
  · rintro (h | rfl)
    · omega
    · omega
  · intro h
    by_cases h1 : locOf ds ≤ n
    · exact Or.inl h1
    · right
      have he : locOf ds = locOf (path ((n - 1) / 2 + 1) ++ [n % 2 == 0]) := by omega
      exact locOf_inj he (by omega)

/-- the node `cstl_heap_pop` unlinks is the last one, it is a leaf, and the
rest is complete -/
theorem complete_remove {t : Tree} {n : Nat} (hc : Complete t (n + 1)) (hlt : n + 1 < 2 ^ 64) :
    ∃ t' x, removeAt t (path (n + 1)) = some (t', x) ∧ Complete t' n ∧
      (elems t).Perm (x :: elems t') := by
  have hloc : locOf (path (n + 1)) = n + 1 := locOf_path _ (by omega) hlt
  have hocc : Occ t (path (n + 1)) := (hc _).2 (by omega)
  obtain ⟨t', x, hrm⟩ := removeAt_some hocc
  refine ⟨t', x, hrm, ?_, ?_⟩
  · intro ds
    rw [removeAt_occ hrm ds, hc ds]
    constructor
    · rintro ⟨h1, h2⟩
      by_cases h3 : locOf ds = n + 1
      · exfalso
        apply h2
        have : ds = path (n + 1) := locOf_inj (by omega) (by omega)
        rw [this]
        exact List.prefix_refl _
      · omega
    · intro h
      refine ⟨by omega, ?_⟩
      rintro ⟨rest, rfl⟩
      have : locOf (path (n + 1) ++ rest) = locFrom (n + 1) rest := by
        unfold locOf at hloc ⊢
        rw [locFrom_append, hloc]
      have hge := locFrom_ge rest (n + 1)
      omega
  · apply removeAt_perm hrm
    intro d hd
    have h1 := (hc _).1 hd
    rw [locOf_snoc, hloc] at h1
    omega

/-- a complete tree with `n` slots has `n` elements -/
theorem complete_length : ∀ (n : Nat) (t : Tree), n < 2 ^ 64 → Complete t n → (elems t).length = n := by
  intro n
  induction n with
  | zero =>
    intro t _ h
    rw [complete_zero h]; rfl
  | succ n ih =>
    intro t hlt h
    obtain ⟨t', x, _, hc', hp⟩ := complete_remove h hlt
    rw [hp.length_eq, List.length_cons, ih t' (by omega) hc']

theorem Inv.size_zero_iff {h : Heap} (hi : Inv h) : h.size = 0 ↔ h.t = nil := by
  constructor
  · intro h0
    exact complete_zero (h0 ▸ hi.2)
  · intro ht
    have hc := hi.2
    rw [ht] at hc
    apply Classical.byContradiction
    intro hn
    have := hc.root (by omega)
    simp at this

/-! ### more about removeAt -/

theorem removeAt_mem : ∀ {p : List Bool} {t t' : Tree} {x : Elem}, removeAt t p = some (t', x) →
    ∀ z ∈ elems t', z ∈ elems t := by
  intro p
  induction p with
  | nil =>
    intro t t' x h z hz
    cases t with
    | nil => simp [removeAt] at h
    | node l y r =>
      simp [removeAt] at h
      obtain ⟨rfl, rfl⟩ := h
      simp at hz
  | cons d p ih =>
    intro t t' x h z hz
    cases t with
    | nil => simp [removeAt] at h
    | node l y r =>
      cases d with
      | true =>
        simp only [removeAt, if_true, Option.map_eq_some_iff] at h
        obtain ⟨⟨r1, w⟩, hr, he⟩ := h
        simp only [Prod.mk.injEq] at he
        obtain ⟨rfl, rfl⟩ := he
        simp only [elems_node, List.mem_cons, List.mem_append] at hz ⊢
        rcases hz with h1 | h1 | h1
        · exact Or.inl h1
        · exact Or.inr (Or.inl h1)
        · exact Or.inr (Or.inr (ih hr z h1))
      | false =>
        simp only [removeAt, Bool.false_eq_true, if_false, Option.map_eq_some_iff] at h
        obtain ⟨⟨l1, w⟩, hl, he⟩ := h
        simp only [Prod.mk.injEq] at he
        obtain ⟨rfl, rfl⟩ := he
        simp only [elems_node, List.mem_cons, List.mem_append] at hz ⊢
        rcases hz with h1 | h1 | h1
        · exact Or.inl h1
        · exact Or.inr (Or.inl (ih hl z h1))
        · exact Or.inr (Or.inr h1)

theorem removeAt_heapOrdered : ∀ {p : List Bool} {t t' : Tree} {x : Elem}, removeAt t p = some (t', x) →
    HeapOrdered t → HeapOrdered t' := by
  intro p
  induction p with
  | nil =>
    intro t t' x h _
    cases t with
    | nil => simp [removeAt] at h
    | node l y r =>
      simp [removeAt] at h
      obtain ⟨rfl, rfl⟩ := h
      trivial
  | cons d p ih =>
    intro t t' x h ho
    cases t with
    | nil => simp [removeAt] at h
    | node l y r =>
      cases d with
      | true =>
        simp only [removeAt, if_true, Option.map_eq_some_iff] at h
        obtain ⟨⟨r1, w⟩, hr, he⟩ := h
        simp only [Prod.mk.injEq] at he
        obtain ⟨rfl, rfl⟩ := he
        exact heapOrdered_node.2 ⟨ho.1, fun z hz => ho.2.1 z (removeAt_mem hr z hz), ho.2.2.1,
          ih hr ho.2.2.2⟩
      | false =>
        simp only [removeAt, Bool.false_eq_true, if_false, Option.map_eq_some_iff] at h
        obtain ⟨⟨l1, w⟩, hl, he⟩ := h
        simp only [Prod.mk.injEq] at he
        obtain ⟨rfl, rfl⟩ := he
        exact heapOrdered_node.2 ⟨fun z hz => ho.1 z (removeAt_mem hl z hz), ho.2.1,
          ih hl ho.2.2.1, ho.2.2.2⟩

/-- unlinking a node other than the root leaves the root in place -/
theorem removeAt_root {l r t' : Tree} {x n : Elem} {p : List Bool}
    (h : removeAt (node l x r) p = some (t', n)) :
    (p = [] ∧ t' = nil ∧ n = x) ∨ (p ≠ [] ∧ ∃ l' r', t' = node l' x r') := by
  cases p with
  | nil =>
    simp [removeAt] at h
    exact Or.inl ⟨rfl, h.1.symm, h.2.symm⟩
  | cons d p =>
    right
    refine ⟨by simp, ?_⟩
    cases d with
    | true =>
      simp only [removeAt, if_true, Option.map_eq_some_iff] at h
      obtain ⟨⟨r1, w⟩, _, he⟩ := h
      simp only [Prod.mk.injEq] at he
      exact ⟨l, r1, he.1.symm⟩
    | false =>
      simp only [removeAt, Bool.false_eq_true, if_false, Option.map_eq_some_iff] at h
      obtain ⟨⟨l1, w⟩, _, he⟩ := h
      simp only [Prod.mk.injEq] at he
      exact ⟨l1, r, he.1.symm⟩

/-- `walk` ends on a node exactly at occupied positions -/
theorem walk_eq_nil_iff : ∀ {ds : List Bool} {t : Tree}, walk t ds = nil ↔ ¬ Occ t ds := by
  intro ds
  induction ds with
  | nil => intro t; cases t <;> simp [walk]
  | cons d ds ih =>
    intro t
    cases t with
    | nil => simp [walk]
    | node l x r => cases d <;> simp [walk, ih]

theorem walk_node_elemAt : ∀ {ds : List Bool} {t l r : Tree} {e : Elem},
    walk t ds = node l e r → elemAt t ds = some e := by
  intro ds
  induction ds with
  | nil =>
    intro t l r e h
    cases t with
    | nil => simp [walk] at h
    | node l' x r' =>
      simp [walk] at h
      simp [elemAt, h.2.1]
  | cons d ds ih =>
    intro t l r e h
    cases t with
    | nil => simp [walk] at h
    | node l' x r' =>
      cases d with
      | true => exact ih (t := r') (by simpa [walk] using h)
      | false => exact ih (t := l') (by simpa [walk] using h)

end Cstl.Heap
