import Cstl.Heap.Spec
/-
Heap order and the multiset of elements under sift-down (`siftInto`) and
attach + sift-up (`attachAt`, `siftUp`).
-/
namespace Cstl.Heap
open Tree

@[simp] theorem elems_nil : elems nil = [] := rfl
@[simp] theorem elems_node (l r : Tree) (e : Elem) : elems (node l e r) = e :: (elems l ++ elems r) := rfl
@[simp] theorem elems_leaf (e : Elem) : elems (leaf e) = [e] := rfl

@[simp] theorem allLe_nil (k : Int) : AllLe k nil := by intro x hx; simp at hx

theorem allLe_node {k : Int} {l r : Tree} {e : Elem} :
    AllLe k (node l e r) ↔ e.key ≤ k ∧ AllLe k l ∧ AllLe k r := by
  unfold AllLe
  simp only [elems_node, List.mem_cons, List.mem_append]
  constructor
  · intro h
    exact ⟨h e (Or.inl rfl), fun x hx => h x (Or.inr (Or.inl hx)), fun x hx => h x (Or.inr (Or.inr hx))⟩
  · rintro ⟨h1, h2, h3⟩ x (rfl | hx | hx)
    · exact h1
    · exact h2 x hx
    · exact h3 x hx

theorem allLe_mono {k k' : Int} {t : Tree} (h : AllLe k t) (hk : k ≤ k') : AllLe k' t :=
  fun x hx => Int.le_trans (h x hx) hk

theorem allLe_of_perm {k : Int} {t : Tree} {xs : List Elem} (hp : (elems t).Perm xs)
    (h : ∀ x ∈ xs, x.key ≤ k) : AllLe k t :=
  fun x hx => h x (hp.mem_iff.1 hx)

@[simp] theorem heapOrdered_nil : HeapOrdered nil := trivial

theorem heapOrdered_node {l r : Tree} {e : Elem} :
    HeapOrdered (node l e r) ↔ AllLe e.key l ∧ AllLe e.key r ∧ HeapOrdered l ∧ HeapOrdered r := Iff.rfl

theorem heapOrdered_leaf (e : Elem) : HeapOrdered (leaf e) := by
  simp [leaf, heapOrdered_node]

/-- in a heap-ordered tree the root is `≥` everything -/
theorem HeapOrdered.allLe_root {l r : Tree} {e : Elem} (h : HeapOrdered (node l e r)) :
    AllLe e.key (node l e r) :=
  allLe_node.2 ⟨Int.le_refl _, h.1, h.2.1⟩

theorem rootLe_of_allLe {k : Int} {t : Tree} (h : AllLe k t) : rootLe k t := by
  cases t with
  | nil => trivial
  | node l x r => exact h x (by simp)

/-! ### sift-down -/

/-- the part of a tree that `siftInto` keeps: everything but the root element -/
def kids : Tree → List Elem
  | nil => []
  | node l _ r => elems l ++ elems r

def SubOrdered : Tree → Prop
  | nil => True
  | node l _ r => HeapOrdered l ∧ HeapOrdered r

theorem HeapOrdered.sub {t : Tree} (h : HeapOrdered t) : SubOrdered t := by
  cases t with
  | nil => trivial
  | node l e r => exact ⟨h.2.2.1, h.2.2.2⟩

theorem siftInto_spec (n : Elem) : ∀ t : Tree, SubOrdered t →
    HeapOrdered (siftInto n t) ∧ shape (siftInto n t) = shape t ∧
    (t ≠ nil → (elems (siftInto n t)).Perm (n :: kids t)) := by
  intro t
  induction t with
  | nil => intro _; exact ⟨trivial, rfl, fun h => absurd rfl h⟩
  | node l x r ihl ihr =>
    intro hs
    obtain ⟨hl, hr⟩ := hs
    have IHl := ihl hl.sub
    have IHr := ihr hr.sub
    cases l with
    | nil =>
      cases r with
      | nil =>
        simp [siftInto, heapOrdered_node, shape, kids]
      | node rl y rr =>
        by_cases hy : y.key > n.key
        · -- n goes right
          have e : siftInto n (node nil x (node rl y rr)) = node nil y (siftInto n (node rl y rr)) := by
            simp [siftInto, hy]
          rw [e]
          obtain ⟨h1, h2, h3⟩ := IHr
          have h3 := h3 (by simp)
          refine ⟨?_, ?_, fun _ => ?_⟩
          · refine heapOrdered_node.2 ⟨allLe_nil _, ?_, trivial, h1⟩
            apply allLe_of_perm h3
            intro z hz
            simp only [kids, List.mem_cons, List.mem_append] at hz
            rcases hz with rfl | hz | hz
            · omega
            · exact hr.1 z hz
            · exact hr.2.1 z hz
          · simp [shape, h2]
          · simp only [elems_node, elems_nil, List.nil_append, kids]
            have := h3.cons y
            simp only [kids] at this
            refine this.trans ?_
            exact List.Perm.swap _ _ _
        · have e : siftInto n (node nil x (node rl y rr)) = node nil n (node rl y rr) := by
            simp [siftInto, hy]
          rw [e]
          refine ⟨?_, by simp [shape], fun _ => by simp [kids]⟩
          refine heapOrdered_node.2 ⟨allLe_nil _, ?_, trivial, hr⟩
          exact allLe_mono hr.allLe_root (by omega)
    | node ll xl lr =>
      cases r with
      | nil =>
        by_cases hxl : xl.key > n.key
        · have e : siftInto n (node (node ll xl lr) x nil) = node (siftInto n (node ll xl lr)) xl nil := by
            simp [siftInto, hxl]
          rw [e]
          obtain ⟨h1, h2, h3⟩ := IHl
          have h3 := h3 (by simp)
          refine ⟨?_, ?_, fun _ => ?_⟩
          · refine heapOrdered_node.2 ⟨?_, allLe_nil _, h1, trivial⟩
            apply allLe_of_perm h3
            intro z hz
            simp only [kids, List.mem_cons, List.mem_append] at hz
            rcases hz with rfl | hz | hz
            · omega
            · exact hl.1 z hz
            · exact hl.2.1 z hz
          · simp [shape, h2]
          · simp only [elems_node, elems_nil, List.append_nil, kids]
            have := h3.cons xl
            simp only [kids] at this
            refine this.trans ?_
            exact List.Perm.swap _ _ _
        · have e : siftInto n (node (node ll xl lr) x nil) = node (node ll xl lr) n nil := by
            simp [siftInto, hxl]
          rw [e]
          refine ⟨?_, by simp [shape], fun _ => by simp [kids]⟩
          refine heapOrdered_node.2 ⟨?_, allLe_nil _, hl, trivial⟩
          exact allLe_mono hl.allLe_root (by omega)
      | node rl y rr =>
        by_cases hxl : xl.key > n.key
        · by_cases hy : y.key > xl.key
          · -- right child beats the left candidate
            have e : siftInto n (node (node ll xl lr) x (node rl y rr))
                = node (node ll xl lr) y (siftInto n (node rl y rr)) := by
              simp [siftInto, hxl, hy]
            rw [e]
            obtain ⟨h1, h2, h3⟩ := IHr
            have h3 := h3 (by simp)
            refine ⟨?_, ?_, fun _ => ?_⟩
            · refine heapOrdered_node.2 ⟨?_, ?_, hl, h1⟩
              · exact allLe_mono hl.allLe_root (by omega)
              · apply allLe_of_perm h3
                intro z hz
                simp only [kids, List.mem_cons, List.mem_append] at hz
                rcases hz with rfl | hz | hz
                · omega
                · exact hr.1 z hz
                · exact hr.2.1 z hz
            · simp [shape, h2]
            · simp only [elems_node, kids]
              simp only [kids] at h3
              have p1 := (h3.append_left (xl :: (elems ll ++ elems lr))).cons y
              refine p1.trans ?_
              have : (y :: ((xl :: (elems ll ++ elems lr)) ++ n :: (elems rl ++ elems rr))).Perm
                  (n :: ((xl :: (elems ll ++ elems lr)) ++ y :: (elems rl ++ elems rr))) := by
                have q1 : (y :: ((xl :: (elems ll ++ elems lr)) ++ n :: (elems rl ++ elems rr))).Perm
                    (y :: n :: ((xl :: (elems ll ++ elems lr)) ++ (elems rl ++ elems rr))) :=
                  (List.perm_middle).cons y
                have q2 : (n :: ((xl :: (elems ll ++ elems lr)) ++ y :: (elems rl ++ elems rr))).Perm
                    (n :: y :: ((xl :: (elems ll ++ elems lr)) ++ (elems rl ++ elems rr))) :=
                  (List.perm_middle).cons n
                exact q1.trans ((List.Perm.swap _ _ _).trans q2.symm)
              simpa using this
          · -- left child is the candidate
            have e : siftInto n (node (node ll xl lr) x (node rl y rr))
                = node (siftInto n (node ll xl lr)) xl (node rl y rr) := by
              simp [siftInto, hxl, hy]
            rw [e]
            obtain ⟨h1, h2, h3⟩ := IHl
            have h3 := h3 (by simp)
            refine ⟨?_, ?_, fun _ => ?_⟩
            · refine heapOrdered_node.2 ⟨?_, ?_, h1, hr⟩
              · apply allLe_of_perm h3
                intro z hz
                simp only [kids, List.mem_cons, List.mem_append] at hz
                rcases hz with rfl | hz | hz
                · omega
                · exact hl.1 z hz
                · exact hl.2.1 z hz
              · exact allLe_mono hr.allLe_root (by omega)
            · simp [shape, h2]
            · simp only [elems_node, kids]
              simp only [kids] at h3
              have p1 := (h3.append_right (y :: (elems rl ++ elems rr))).cons xl
              refine p1.trans ?_
              simpa using List.Perm.swap n xl _
        · by_cases hy : y.key > n.key
          · have e : siftInto n (node (node ll xl lr) x (node rl y rr))
                = node (node ll xl lr) y (siftInto n (node rl y rr)) := by
              simp [siftInto, hxl, hy]
            rw [e]
            obtain ⟨h1, h2, h3⟩ := IHr
            have h3 := h3 (by simp)
            refine ⟨?_, ?_, fun _ => ?_⟩
            · refine heapOrdered_node.2 ⟨?_, ?_, hl, h1⟩
              · exact allLe_mono hl.allLe_root (by omega)
              · apply allLe_of_perm h3
                intro z hz
                simp only [kids, List.mem_cons, List.mem_append] at hz
                rcases hz with rfl | hz | hz
                · omega
                · exact hr.1 z hz
                · exact hr.2.1 z hz
            · simp [shape, h2]
            · simp only [elems_node, kids]
              simp only [kids] at h3
              have p1 := (h3.append_left (xl :: (elems ll ++ elems lr))).cons y
              refine p1.trans ?_
              have : (y :: ((xl :: (elems ll ++ elems lr)) ++ n :: (elems rl ++ elems rr))).Perm
                  (n :: ((xl :: (elems ll ++ elems lr)) ++ y :: (elems rl ++ elems rr))) := by
                have q1 : (y :: ((xl :: (elems ll ++ elems lr)) ++ n :: (elems rl ++ elems rr))).Perm
                    (y :: n :: ((xl :: (elems ll ++ elems lr)) ++ (elems rl ++ elems rr))) :=
                  (List.perm_middle).cons y
                have q2 : (n :: ((xl :: (elems ll ++ elems lr)) ++ y :: (elems rl ++ elems rr))).Perm
                    (n :: y :: ((xl :: (elems ll ++ elems lr)) ++ (elems rl ++ elems rr))) :=
                  (List.perm_middle).cons n
                exact q1.trans ((List.Perm.swap _ _ _).trans q2.symm)
              simpa using this
          · have e : siftInto n (node (node ll xl lr) x (node rl y rr))
                = node (node ll xl lr) n (node rl y rr) := by
              simp [siftInto, hxl, hy]
            rw [e]
            refine ⟨?_, by simp [shape], fun _ => by simp [kids]⟩
            refine heapOrdered_node.2 ⟨?_, ?_, hl, hr⟩
            · exact allLe_mono hl.allLe_root (by omega)
            · exact allLe_mono hr.allLe_root (by omega)

/-- permutation goals about `elems`, by counting (`h` : a known permutation) -/
macro "perm_count " h:term : tactic =>
  `(tactic| (refine List.perm_iff_count.2 fun a => ?_
             have h1 := List.Perm.count_eq $h a
             simp only [elems_node, elems_nil, elems_leaf, List.count_cons, List.count_append,
               List.count_nil, List.append_nil, List.nil_append] at h1 ⊢
             omega))

macro "perm_count0" : tactic =>
  `(tactic| (refine List.perm_iff_count.2 fun a => ?_
             simp only [elems_node, elems_nil, elems_leaf, List.count_cons, List.count_append,
               List.count_nil, List.append_nil, List.nil_append]
             omega))

/-! ### attach + sift-up -/

theorem not_occ_nil_iff {t : Tree} : ¬ Occ t [] ↔ t = nil := by
  cases t <;> simp [Occ]

theorem siftUp_cons_true (l r : Tree) (x : Elem) (ds : List Bool) :
    siftUp (node l x r) (true :: ds) =
      match siftUp r ds with
      | none => none
      | some (r', false) => some (node l x r', false)
      | some (nil, true) => none
      | some (node cl n cr, true) =>
        if n.key > x.key then some (node l n (node cl x cr), true)
        else some (node l x (node cl n cr), false) := by
  rw [siftUp]; rfl

theorem siftUp_cons_false (l r : Tree) (x : Elem) (ds : List Bool) :
    siftUp (node l x r) (false :: ds) =
      match siftUp l ds with
      | none => none
      | some (l', false) => some (node l' x r, false)
      | some (nil, true) => none
      | some (node cl n cr, true) =>
        if n.key > x.key then some (node (node cl x cr) n r, true)
        else some (node (node cl n cr) x r, false) := by
  rw [siftUp]; rfl

theorem siftUp_leaf (e : Elem) : siftUp (leaf e) [] = some (leaf e, true) := by
  simp [siftUp, leaf]

/-- what one level of the upward loop needs to know about the level below -/
structure UpResult (e : Elem) (c c1 c2 : Tree) (rising : Bool) : Prop where
  ho : HeapOrdered c2
  perm2 : (elems c2).Perm (e :: elems c)
  perm1 : (elems c1).Perm (e :: elems c)
  shp : shape c2 = shape c1
  top : rising = true → ∃ l r, c2 = node l e r
  stop : rising = false → ∃ y ∈ elems c, e.key ≤ y.key

theorem siftUp_attach (e : Elem) (side : Bool) : ∀ (pp : List Bool) (t t1 : Tree),
    HeapOrdered t → ¬ Occ t (pp ++ [side]) → attachAt t pp side e = some t1 →
    ∃ t2 rising, siftUp t1 (pp ++ [side]) = some (t2, rising) ∧ UpResult e t t1 t2 rising := by
  intro pp
  induction pp with
  | nil =>
    intro t t1 ho hocc hat
    cases t with
    | nil => simp [attachAt] at hat
    | node l x r =>
      cases side with
      | false =>
        have hl : l = nil := not_occ_nil_iff.1 (by simpa [Occ] using hocc)
        subst hl
        simp [attachAt] at hat
        subst hat
        simp only [List.nil_append, siftUp_cons_false, siftUp_leaf]
        by_cases hk : e.key > x.key
        · refine ⟨node (node nil x nil) e r, true, by simp [leaf, hk], ?_⟩
          refine ⟨?_, ?_, ?_, by simp [shape, leaf], fun _ => ⟨_, _, rfl⟩, fun h => by simp at h⟩
          · refine heapOrdered_node.2 ⟨?_, ?_, ?_, ho.2.2.2⟩
            · simp [allLe_node]; omega
            · exact allLe_mono ho.2.1 (by omega)
            · simp [heapOrdered_node]
          · perm_count0
          · perm_count0
        · refine ⟨node (node nil e nil) x r, false, by simp [leaf, hk], ?_⟩
          refine ⟨?_, ?_, ?_, by simp [shape, leaf], fun h => by simp at h, fun _ => ⟨x, by simp, by omega⟩⟩
          · refine heapOrdered_node.2 ⟨?_, ho.2.1, ?_, ho.2.2.2⟩
            · simp [allLe_node]; omega
            · simp [heapOrdered_node]
          · perm_count0
          · perm_count0
      | true =>
        have hr : r = nil := not_occ_nil_iff.1 (by simpa [Occ] using hocc)
        subst hr
        simp [attachAt] at hat
        subst hat
        simp only [List.nil_append, siftUp_cons_true, siftUp_leaf]
        by_cases hk : e.key > x.key
        · refine ⟨node l e (node nil x nil), true, by simp [leaf, hk], ?_⟩
          refine ⟨?_, ?_, ?_, by simp [shape, leaf], fun _ => ⟨_, _, rfl⟩, fun h => by simp at h⟩
          · refine heapOrdered_node.2 ⟨?_, ?_, ho.2.2.1, ?_⟩
            · exact allLe_mono ho.1 (by omega)
            · simp [allLe_node]; omega
            · simp [heapOrdered_node]
          · perm_count0
          · perm_count0
        · refine ⟨node l x (node nil e nil), false, by simp [leaf, hk], ?_⟩
          refine ⟨?_, ?_, ?_, by simp [shape, leaf], fun h => by simp at h, fun _ => ⟨x, by simp, by omega⟩⟩
          · refine heapOrdered_node.2 ⟨ho.1, ?_, ho.2.2.1, ?_⟩
            · simp [allLe_node]; omega
            · simp [heapOrdered_node]
          · perm_count0
          · perm_count0
  | cons d ds ih =>
    intro t t1 ho hocc hat
    cases t with
    | nil => simp [attachAt] at hat
    | node l x r =>
      cases d with
      | true =>
        simp only [attachAt, if_true, Option.map_eq_some_iff] at hat
        obtain ⟨r1, hat, rfl⟩ := hat
        have hocc' : ¬ Occ r (ds ++ [side]) := by simpa [Occ] using hocc
        obtain ⟨r2, rising, hs, hres⟩ := ih r r1 ho.2.2.2 hocc' hat
        have hle : ∀ z ∈ elems r, z.key ≤ x.key := ho.2.1
        simp only [List.cons_append, siftUp_cons_true, hs]
        cases rising with
        | false =>
          refine ⟨node l x r2, false, rfl, ?_⟩
          obtain ⟨y, hy, hey⟩ := hres.stop rfl
          refine ⟨?_, ?_, ?_, by have hsh := hres.shp; simp only [shape] at hsh ⊢; simp [hsh], fun h => by simp at h,
            fun _ => ⟨x, by simp, by have := hle y hy; omega⟩⟩
          · refine heapOrdered_node.2 ⟨ho.1, ?_, ho.2.2.1, hres.ho⟩
            apply allLe_of_perm hres.perm2
            intro z hz
            rcases List.mem_cons.1 hz with rfl | hz
            · have := hle y hy; omega
            · exact hle z hz
          · perm_count hres.perm2
          · perm_count hres.perm1
        | true =>
          obtain ⟨cl, cr, rfl⟩ := hres.top rfl
          have hp2 : (elems cl ++ elems cr).Perm (elems r) := by
            have := hres.perm2
            simp only [elems_node] at this
            exact this.cons_inv
          have hkids : ∀ z ∈ elems cl ++ elems cr, z.key ≤ x.key :=
            fun z hz => hle z (hp2.mem_iff.1 hz)
          by_cases hk : e.key > x.key
          · refine ⟨node l e (node cl x cr), true, by simp [hk], ?_⟩
            refine ⟨?_, ?_, ?_, ?_, fun _ => ⟨_, _, rfl⟩, fun h => by simp at h⟩
            · refine heapOrdered_node.2 ⟨allLe_mono ho.1 (by omega), ?_, ho.2.2.1, ?_⟩
              · refine allLe_node.2 ⟨by omega, ?_, ?_⟩
                · exact fun z hz => by have := hkids z (List.mem_append_left _ hz); omega
                · exact fun z hz => by have := hkids z (List.mem_append_right _ hz); omega
              · refine heapOrdered_node.2 ⟨?_, ?_, hres.ho.2.2.1, hres.ho.2.2.2⟩
                · exact fun z hz => hkids z (List.mem_append_left _ hz)
                · exact fun z hz => hkids z (List.mem_append_right _ hz)
            · perm_count hp2
            · perm_count hres.perm1
            · have hsh := hres.shp
              simp only [shape] at hsh ⊢
              simp [hsh]
          · refine ⟨node l x (node cl e cr), false, by simp [hk], ?_⟩
            refine ⟨?_, ?_, ?_, by have hsh := hres.shp; simp only [shape] at hsh ⊢; simp [hsh], fun h => by simp at h,
              fun _ => ⟨x, by simp, by omega⟩⟩
            · refine heapOrdered_node.2 ⟨ho.1, ?_, ho.2.2.1, hres.ho⟩
              refine allLe_node.2 ⟨by omega, ?_, ?_⟩
              · exact fun z hz => hkids z (List.mem_append_left _ hz)
              · exact fun z hz => hkids z (List.mem_append_right _ hz)
            · perm_count hres.perm2
            · perm_count hres.perm1
      | false =>
        simp only [attachAt, Bool.false_eq_true, if_false, Option.map_eq_some_iff] at hat
        obtain ⟨l1, hat, rfl⟩ := hat
        have hocc' : ¬ Occ l (ds ++ [side]) := by simpa [Occ] using hocc
        obtain ⟨l2, rising, hs, hres⟩ := ih l l1 ho.2.2.1 hocc' hat
        have hle : ∀ z ∈ elems l, z.key ≤ x.key := ho.1
        simp only [List.cons_append, siftUp_cons_false, hs]
        cases rising with
        | false =>
          refine ⟨node l2 x r, false, rfl, ?_⟩
          obtain ⟨y, hy, hey⟩ := hres.stop rfl
          refine ⟨?_, ?_, ?_, by have hsh := hres.shp; simp only [shape] at hsh ⊢; simp [hsh], fun h => by simp at h,
            fun _ => ⟨x, by simp, by have := hle y hy; omega⟩⟩
          · refine heapOrdered_node.2 ⟨?_, ho.2.1, hres.ho, ho.2.2.2⟩
            apply allLe_of_perm hres.perm2
            intro z hz
            rcases List.mem_cons.1 hz with rfl | hz
            · have := hle y hy; omega
            · exact hle z hz
          · perm_count hres.perm2
          · perm_count hres.perm1
        | true =>
          obtain ⟨cl, cr, rfl⟩ := hres.top rfl
          have hp2 : (elems cl ++ elems cr).Perm (elems l) := by
            have := hres.perm2
            simp only [elems_node] at this
            exact this.cons_inv
          have hkids : ∀ z ∈ elems cl ++ elems cr, z.key ≤ x.key :=
            fun z hz => hle z (hp2.mem_iff.1 hz)
          by_cases hk : e.key > x.key
          · refine ⟨node (node cl x cr) e r, true, by simp [hk], ?_⟩
            refine ⟨?_, ?_, ?_, ?_, fun _ => ⟨_, _, rfl⟩, fun h => by simp at h⟩
            · refine heapOrdered_node.2 ⟨?_, allLe_mono ho.2.1 (by omega), ?_, ho.2.2.2⟩
              · refine allLe_node.2 ⟨by omega, ?_, ?_⟩
                · exact fun z hz => by have := hkids z (List.mem_append_left _ hz); omega
                · exact fun z hz => by have := hkids z (List.mem_append_right _ hz); omega
              · refine heapOrdered_node.2 ⟨?_, ?_, hres.ho.2.2.1, hres.ho.2.2.2⟩
                · exact fun z hz => hkids z (List.mem_append_left _ hz)
                · exact fun z hz => hkids z (List.mem_append_right _ hz)
            · perm_count hp2
            · perm_count hres.perm1
            · have hsh := hres.shp
              simp only [shape] at hsh ⊢
              simp [hsh]
          · refine ⟨node (node cl e cr) x r, false, by simp [hk], ?_⟩
            refine ⟨?_, ?_, ?_, by have hsh := hres.shp; simp only [shape] at hsh ⊢; simp [hsh], fun h => by simp at h,
              fun _ => ⟨x, by simp, by omega⟩⟩
            · refine heapOrdered_node.2 ⟨?_, ho.2.1, hres.ho, ho.2.2.2⟩
              refine allLe_node.2 ⟨by omega, ?_, ?_⟩
              · exact fun z hz => hkids z (List.mem_append_left _ hz)
              · exact fun z hz => hkids z (List.mem_append_right _ hz)
            · perm_count hres.perm2
            · perm_count hres.perm1

end Cstl.Heap
