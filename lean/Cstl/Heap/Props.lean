import Cstl.Heap.LemmasShape
import Cstl.Heap.LemmasClear
import Cstl.Heap.LemmasBfs
/-
Property theorems for the heap (C07; the heap part of C15).

All theorems are about the model in `Model.lean`; `Inv h` says that the tree
is max-heap ordered and complete with `h.size` nodes.  Slot numbers must fit
the 64-bit value `cstl_fls` works on, hence the `< 2^64` side conditions
(the C code itself addresses slots with `unsigned int`, DESIGN 7.3).
-/
namespace Cstl.Heap
open Tree

/-! ### `cstl_fls` -/

/-- the mask loop returns the index of the highest set bit -/
theorem fls_spec {x : Nat} (h0 : 0 < x) (hlt : x < 2 ^ 64) : fls x = (Nat.log2 x : Int) := by
  unfold fls
  rw [if_neg (by omega), flsLoop_eq_log2 h0 hlt]
  rfl

theorem fls_zero : fls 0 = -1 := rfl

example : fls 0x5a5a5a5a = 30 ∧ fls (2 ^ 64 - 1) = 63 ∧ fls (3 <<< 16) = 17 := by decide +kernel

/-! ### navigation by the bits of the slot number -/

/-- `path` and the level-order numbering are inverse to each other: slot 1 is
the root, the children of slot `k` are `2k` and `2k+1` -/
theorem path_numbering :
    path 1 = [] ∧
    (∀ k (d : Bool), 0 < k → 2 * k + d.toNat < 2 ^ 64 → path (2 * k + d.toNat) = path k ++ [d]) ∧
    (∀ loc, 0 < loc → loc < 2 ^ 64 → locOf (path loc) = loc) ∧
    (∀ ds, locOf ds < 2 ^ 64 → path (locOf ds) = ds) :=
  ⟨path_one, fun _ d hk hlt => path_double d hk hlt, locOf_path, fun _ h => path_locOf h⟩

example : path 6 = [true, false] ∧ path 11 = [false, true, true] ∧ locOf [false, true, true] = 11 := by
  decide +kernel

/-- on a complete tree with `n` nodes `cstl_heap_find(h, id)` reaches the node
in slot `id + 1` (the node with 0-based level-order number `id`) when
`id < n`, and NULL otherwise — in particular for `id = n`, the first free slot.
The node reached is the one at *the* position whose number is `id + 1`. -/
theorem findSlot_level_order {t : Tree} {n id : Nat} (hc : Complete t n) (hlt : id + 1 < 2 ^ 64) :
    (∀ ds, locOf ds = id + 1 → findSlot t id = walk t ds) ∧
    (id < n → ∃ l e r, findSlot t id = node l e r ∧ elemAt t (path (id + 1)) = some e) ∧
    (n ≤ id → findSlot t id = nil) := by
  have hloc : locOf (path (id + 1)) = id + 1 := locOf_path _ (by omega) hlt
  refine ⟨?_, ?_, ?_⟩
  · intro ds hds
    have : ds = path (id + 1) := locOf_inj (by omega) (by omega)
    rw [this]; rfl
  · intro hid
    have hocc : Occ t (path (id + 1)) := (hc _).2 (by omega)
    cases hw : findSlot t id with
    | nil => exact absurd hocc (walk_eq_nil_iff.1 hw)
    | node l e r => exact ⟨l, e, r, rfl, walk_node_elemAt hw⟩
  · intro hid
    apply walk_eq_nil_iff.2
    intro hocc
    have := (hc _).1 hocc
    omega

/-- `Complete` read through `cstl_heap_find`: the ids that lead to a node are
exactly `0 … n-1` -/
theorem complete_findSlot {t : Tree} {n id : Nat} (hc : Complete t n) (hlt : id + 1 < 2 ^ 64) :
    findSlot t id ≠ nil ↔ id < n := by
  obtain ⟨_, h1, h2⟩ := findSlot_level_order hc hlt
  constructor
  · intro h
    apply Classical.byContradiction
    intro hn
    exact h (h2 (by omega))
  · intro h hnil
    obtain ⟨l, e, r, he, _⟩ := h1 h
    rw [he] at hnil
    exact Tree.noConfusion hnil

/-- the slot numbering *is* the level order: the breadth-first traversal of a
complete tree from its root (`levelOrder`, the dump the harness produces from
the real pointers) lists the slots `1, 2, …, n` in this order, and
`cstl_heap_find(h, id)` reaches the `id`-th node (0-based) of that traversal -/
theorem findSlot_bfs {t : Tree} {n id : Nat} (hc : Complete t n) (hn : n + 1 < 2 ^ 62)
    (hid : id < n) :
    levelOrder t = slotElems t 1 n ∧
    ∃ l e r, findSlot t id = node l e r ∧ (levelOrder t)[id]? = some (id + 1, e) := by
  have h64 : (2 : Nat) ^ 62 ≤ 2 ^ 64 := by decide
  have hlo := levelOrder_complete hc hn
  obtain ⟨l, e, r, hf, he⟩ := (findSlot_level_order hc (id := id) (by omega)).2.1 hid
  refine ⟨hlo, l, e, r, hf, ?_⟩
  rw [hlo]
  have := slotElems_getElem? (t := t) n 1 id e hid (by rw [Nat.add_comm]; exact he) (fun j hj => by
    obtain ⟨_, x, _, _, hx⟩ := (findSlot_level_order hc (id := j) (by omega)).2.1 (by omega)
    exact ⟨x, by rw [Nat.add_comm]; exact hx⟩)
  rw [this, Nat.add_comm]

example : levelOrder (node (node (leaf ⟨1, 4⟩) ⟨3, 2⟩ nil) ⟨5, 1⟩ (leaf ⟨4, 3⟩))
    = [(1, ⟨5, 1⟩), (2, ⟨3, 2⟩), (3, ⟨4, 3⟩), (4, ⟨1, 4⟩)] := by decide +kernel

/-! ### heap order -/

/-- the invariant's order predicate ("every node ≥ everything below it") is
the usual local one ("every node ≥ its children") -/
theorem heapOrdered_iff_local : ∀ t : Tree, HeapOrdered t ↔ LocalOrdered t := by
  intro t
  induction t with
  | nil => exact Iff.rfl
  | node l e r ihl ihr =>
    constructor
    · intro h
      exact ⟨rootLe_of_allLe h.1, rootLe_of_allLe h.2.1, ihl.1 h.2.2.1, ihr.1 h.2.2.2⟩
    · intro h
      have hl := ihl.2 h.2.2.1
      have hr := ihr.2 h.2.2.2
      refine ⟨?_, ?_, hl, hr⟩
      · cases l with
        | nil => exact allLe_nil _
        | node ll x lr => exact allLe_mono hl.allLe_root h.1
      · cases r with
        | nil => exact allLe_nil _
        | node rl y rr => exact allLe_mono hr.allLe_root h.2.1

/-! ### the operations -/

theorem inv_empty : Inv empty := ⟨trivial, complete_nil⟩

/-- `cstl_heap_push` never dereferences NULL, keeps the invariant, adds exactly
the pushed element and increments the size -/
theorem push_spec {h : Heap} (e : Elem) (hi : Inv h) (hlt : h.size + 1 < 2 ^ 64) :
    ∃ h', push h e = some h' ∧ Inv h' ∧ (elems h'.t).Perm (e :: elems h.t) ∧
      h'.size = h.size + 1 := by
  obtain ⟨t, n⟩ := h
  obtain ⟨ho, hc⟩ := hi
  simp only at ho hc hlt
  cases t with
  | nil =>
    have hn : n = 0 := (Inv.size_zero_iff (h := ⟨nil, n⟩) ⟨ho, hc⟩).2 rfl
    subst hn
    exact ⟨⟨leaf e, 1⟩, rfl, ⟨heapOrdered_leaf e, complete_leaf e⟩, by simp, rfl⟩
  | node l x r =>
    have hn : 1 ≤ n := by
      apply Classical.byContradiction
      intro hc0
      have h0 : n = 0 := by omega
      have := complete_zero (h0 ▸ hc)
      exact Tree.noConfusion this
    obtain ⟨hfree, t1, hat, hc1⟩ := complete_attach e hc hn hlt
    obtain ⟨t2, rising, hsu, hres⟩ := siftUp_attach e _ _ _ _ ho hfree hat
    refine ⟨⟨t2, n + 1⟩, ?_, ⟨hres.ho, hc1.of_shape hres.shp⟩, hres.perm2, rfl⟩
    simp only [push]
    rw [if_neg (by omega)]
    simp only [hat, hsu]

example : (push ⟨node (leaf ⟨3, 2⟩) ⟨5, 1⟩ nil, 2⟩ ⟨7, 3⟩).map (·.t)
    = some (node (leaf ⟨3, 2⟩) ⟨7, 3⟩ (leaf ⟨5, 1⟩)) := by decide +kernel

/-- `cstl_heap_get`: NULL exactly on the empty heap, otherwise a held element
that compares `≥` every held element -/
theorem get_spec {h : Heap} (hi : Inv h) :
    (get h = none ↔ h.size = 0) ∧
    (∀ x, get h = some x → x ∈ elems h.t ∧ ∀ y ∈ elems h.t, y.key ≤ x.key) := by
  obtain ⟨t, n⟩ := h
  cases t with
  | nil =>
    refine ⟨⟨fun _ => (hi.size_zero_iff).2 rfl, fun _ => rfl⟩, fun x hx => ?_⟩
    simp [get] at hx
  | node l e r =>
    refine ⟨⟨fun hg => by simp [get] at hg, fun h0 => ?_⟩, fun x hx => ?_⟩
    · have := (hi.size_zero_iff).1 h0
      exact Tree.noConfusion this
    · simp [get] at hx
      subst hx
      exact ⟨by simp, hi.1.allLe_root⟩

/-- `cstl_heap_pop` on a non-empty heap never dereferences NULL, returns what
`get` returns — a held element `≥` every held element —, removes exactly it,
decrements the size and keeps the invariant -/
theorem pop_spec {h : Heap} (hi : Inv h) (hlt : h.size < 2 ^ 64) (hpos : 0 < h.size) :
    ∃ h' x, pop h = some (h', some x) ∧ get h = some x ∧ Inv h' ∧
      (elems h.t).Perm (x :: elems h'.t) ∧ (∀ y ∈ elems h.t, y.key ≤ x.key) ∧
      h'.size = h.size - 1 := by
  obtain ⟨t, n⟩ := h
  obtain ⟨ho, hc⟩ := hi
  simp only at ho hc hlt hpos
  obtain ⟨m, rfl⟩ : ∃ m, n = m + 1 := ⟨n - 1, by omega⟩
  cases t with
  | nil => exact absurd (hc.root (by omega)) (by simp)
  | node l res r =>
    obtain ⟨t1, x, hrm, hc1, hperm⟩ := complete_remove hc hlt
    have hmax : ∀ y ∈ elems (node l res r), y.key ≤ res.key := ho.allLe_root
    have ho1 : HeapOrdered t1 := removeAt_heapOrdered hrm ho
    rcases removeAt_root hrm with ⟨_, rfl, rfl⟩ | ⟨_, l1, r1, rfl⟩
    · refine ⟨⟨nil, m⟩, x, ?_, rfl, ⟨trivial, hc1⟩, hperm, hmax, rfl⟩
      simp only [pop]
      rw [if_neg (by omega)]
      simp only [hrm]
      rfl
    · obtain ⟨hso, hsh, hsp⟩ := siftInto_spec x (node l1 res r1) ho1.sub
      have hsp := hsp (by simp)
      refine ⟨⟨siftInto x (node l1 res r1), m⟩, res, ?_, rfl, ⟨hso, hc1.of_shape hsh⟩, ?_, hmax, rfl⟩
      · simp only [pop]
        rw [if_neg (by omega)]
        simp only [hrm]
        rfl
      · refine List.perm_iff_count.2 fun a => ?_
        have h1 := hperm.count_eq a
        have h2 := hsp.count_eq a
        simp only [kids, elems_node, List.count_cons, List.count_append] at h1 h2 ⊢
        omega

example : pop ⟨node (leaf ⟨3, 2⟩) ⟨5, 1⟩ (leaf ⟨5, 3⟩), 3⟩
    = some (⟨node (leaf ⟨3, 2⟩) ⟨5, 3⟩ nil, 2⟩, some ⟨5, 1⟩) := by decide +kernel

/-- get and pop return NULL on an empty heap, and pop leaves it unchanged -/
theorem empty_null {h : Heap} (hi : Inv h) (h0 : h.size = 0) :
    get h = none ∧ pop h = some (h, none) := by
  have ht := (hi.size_zero_iff).1 h0
  obtain ⟨t, n⟩ := h
  simp only at ht
  subst ht
  exact ⟨rfl, rfl⟩

/-- size tracks the count -/
theorem size_eq {h : Heap} (hi : Inv h) (hlt : h.size < 2 ^ 64) : size h = (elems h.t).length :=
  (complete_length _ _ hlt hi.2).symm

/-! ### clear (C15, heap part) -/

/-- `cstl_heap_clear`: the callbacks are exactly the held elements, each once
(`Perm`); with distinct addresses, all the traversal does with an element is
read its child pointers once and then call back on it, never the other way
round and never again; the heap is left as freshly initialised (so every
theorem above applies to the reused heap). -/
theorem clear_spec {h : Heap} (hi : Inv h) :
    (clear h).2.Perm (elems h.t) ∧
    (clear h).2 = clearOrder h.t ∧
    (clearTrace h.t).filterMap Ev.cbId = (clear h).2.map (·.id) ∧
    ((ids h.t).Nodup → ∀ i ∈ ids h.t,
      (clearTrace h.t).filter (Ev.involves i) = [Ev.touch i, Ev.cb i]) ∧
    (clear h).1 = empty ∧ Inv (clear h).1 := by
  obtain ⟨t, n⟩ := h
  have hco : (clear ⟨t, n⟩).2 = clearOrder t := by
    cases t <;> rfl
  have hst : (clear ⟨t, n⟩).1 = empty := by
    cases t with
    | nil =>
      have : n = 0 := (hi.size_zero_iff).2 rfl
      subst this; rfl
    | node l e r => rfl
  refine ⟨?_, hco, ?_, fun hnd i hi' => clearTrace_filter t hnd hi', hst, hst ▸ inv_empty⟩
  · rw [hco]; exact clearOrder_perm t
  · rw [hco]; exact clearTrace_cbs t

example : clearTrace (node (leaf ⟨3, 2⟩) ⟨5, 1⟩ (leaf ⟨5, 3⟩)) =
    [Ev.touch 1, Ev.touch 2, Ev.cb 2, Ev.touch 3, Ev.cb 3, Ev.cb 1] := rfl

/-! ### histories -/

theorem step_inv {h : Heap} (op : Op) (hi : Inv h) (hlt : h.size + 1 < 2 ^ 64) :
    ∃ h', step h op = some h' ∧ Inv h' ∧ h'.size ≤ h.size + 1 := by
  cases op with
  | push e =>
    obtain ⟨h', hp, hi', _, hs⟩ := push_spec e hi hlt
    exact ⟨h', hp, hi', by omega⟩
  | pop =>
    by_cases h0 : h.size = 0
    · refine ⟨h, ?_, hi, by omega⟩
      simp [step, (empty_null hi h0).2]
    · obtain ⟨h', x, hp, _, hi', _, _, hs⟩ := pop_spec hi (by omega) (by omega)
      exact ⟨h', by simp [step, hp], hi', by omega⟩
  | clear =>
    obtain ⟨_, _, _, _, he, hi'⟩ := clear_spec hi
    refine ⟨(clear h).1, rfl, hi', ?_⟩
    rw [he]; simp [empty]

/-- every history from a state satisfying the invariant runs to completion
(no NULL dereference) and ends in a state satisfying the invariant -/
theorem runFrom_inv : ∀ (ops : List Op) (h : Heap), Inv h → h.size + ops.length < 2 ^ 64 →
    ∃ h', runFrom h ops = some h' ∧ Inv h' ∧ h'.size ≤ h.size + ops.length := by
  intro ops
  induction ops with
  | nil => intro h hi _; exact ⟨h, rfl, hi, by simp⟩
  | cons op ops ih =>
    intro h hi hlt
    simp only [List.length_cons] at hlt
    obtain ⟨h1, hs, hi1, hle⟩ := step_inv op hi (by omega)
    obtain ⟨h2, hr, hi2, hle2⟩ := ih h1 hi1 (by omega)
    refine ⟨h2, ?_, hi2, by simp only [List.length_cons]; omega⟩
    simp [runFrom, hs, hr]

/-- every reachable state: any interleaving of push / pop / clear from the
freshly initialised heap keeps the tree heap-ordered and complete -/
theorem run_inv (ops : List Op) (hlt : ops.length < 2 ^ 64) :
    ∃ h, run ops = some h ∧ Inv h ∧ h.size ≤ ops.length := by
  obtain ⟨h, hr, hi, hle⟩ := runFrom_inv ops empty inv_empty (by simpa [empty] using hlt)
  exact ⟨h, hr, hi, by simpa [empty] using hle⟩

/-- C07 for every history: in the state reached by any interleaving of
operations, get/pop return NULL iff nothing is held; otherwise pop returns the
element get returns, which is held and `≥` every held element, removes exactly
it, and size is the number of held elements -/
theorem run_max (ops : List Op) (hlt : ops.length < 2 ^ 64) :
    ∃ h, run ops = some h ∧ size h = (elems h.t).length ∧
      ((elems h.t = [] → get h = none ∧ pop h = some (h, none)) ∧
       (elems h.t ≠ [] → ∃ h' x, pop h = some (h', some x) ∧ get h = some x ∧ x ∈ elems h.t ∧
          (∀ y ∈ elems h.t, y.key ≤ x.key) ∧ (elems h.t).Perm (x :: elems h'.t) ∧
          size h' = size h - 1 ∧ Inv h')) := by
  obtain ⟨h, hr, hi, hle⟩ := run_inv ops hlt
  have hsz := size_eq hi (by omega)
  refine ⟨h, hr, hsz, ?_, ?_⟩
  · intro he
    apply empty_null hi
    rw [he] at hsz
    exact hsz
  · intro hne
    have hpos : 0 < h.size := by
      have : size h = h.size := rfl
      rw [this] at hsz
      rw [hsz]
      exact List.length_pos_iff.2 hne
    obtain ⟨h', x, hp, hg, hi', hperm, hmax, hs⟩ := pop_spec hi (by omega) hpos
    exact ⟨h', x, hp, hg, hperm.mem_iff.2 (by simp), hmax, hperm, hs, hi'⟩

example : (run [Op.push ⟨1, 1⟩, Op.push ⟨3, 2⟩, Op.pop, Op.push ⟨2, 3⟩]).map (fun h => (get h, size h))
    = some (some ⟨2, 3⟩, 2) := by decide +kernel

/-- the invariant is satisfiable on a non-trivial state (three pushes) -/
example : ∃ h, Inv h ∧ h.size = 3 ∧ (elems h.t).Perm [⟨2, 3⟩, ⟨3, 2⟩, ⟨1, 1⟩] := by
  obtain ⟨h1, _, i1, p1, s1⟩ := push_spec ⟨1, 1⟩ inv_empty (by decide)
  obtain ⟨h2, _, i2, p2, s2⟩ := push_spec ⟨3, 2⟩ i1 (by rw [s1]; decide)
  obtain ⟨h3, _, i3, p3, s3⟩ := push_spec ⟨2, 3⟩ i2 (by rw [s2, s1]; decide)
  refine ⟨h3, i3, by rw [s3, s2, s1]; rfl, ?_⟩
  exact p3.trans ((p2.trans (p1.cons _)).cons _)

end Cstl.Heap
