import Cstl.Heap.Model
namespace Cstl.Heap
end Cstl.Heap
