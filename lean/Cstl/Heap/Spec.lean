import Cstl.Heap.Model
/-
Specification vocabulary for the heap theorems (definitions only).
-/
namespace Cstl.Heap
open Tree

/-- every element of `t` has key `≤ k` -/
def AllLe (k : Int) (t : Tree) : Prop := ∀ x ∈ t.elems, x.key ≤ k

/-- max-heap order: every node's key is `≥` the key of every node below it -/
def HeapOrdered : Tree → Prop
  | nil => True
  | node l e r => AllLe e.key l ∧ AllLe e.key r ∧ HeapOrdered l ∧ HeapOrdered r

/-- the usual local formulation: every node's key is `≥` its children's keys
(`heapOrdered_iff_local` shows it is the same predicate) -/
def rootLe (k : Int) : Tree → Prop
  | nil => True
  | node _ x _ => x.key ≤ k

def LocalOrdered : Tree → Prop
  | nil => True
  | node l e r => rootLe e.key l ∧ rootLe e.key r ∧ LocalOrdered l ∧ LocalOrdered r

/-- the position reached by the directions `ds` from the root holds a node -/
def Occ : Tree → List Bool → Prop
  | nil, _ => False
  | node _ _ _, [] => True
  | node l _ r, d :: ds => Occ (if d then r else l) ds

/-- level-order numbering of positions: the root is slot 1, the children of
slot `k` are `2k` (left) and `2k+1` (right); 0-based id = slot - 1, so the
children of id `i` are `2i+1`, `2i+2` as in the comment of `cstl_heap_find`.
`locFrom k ds` = slot reached from slot `k` along `ds`. -/
def locFrom (k : Nat) : List Bool → Nat
  | [] => k
  | d :: ds => locFrom (2 * k + d.toNat) ds

def locOf (ds : List Bool) : Nat := locFrom 1 ds

/-- the tree is complete with `n` nodes: the occupied positions are exactly
the slots `1 … n` (0-based level-order numbers `0 … n-1`): every level is full
except the last, which is filled from the left -/
def Complete (t : Tree) (n : Nat) : Prop := ∀ ds, Occ t ds ↔ locOf ds ≤ n

/-- the invariant of `struct cstl_heap` -/
def Inv (h : Heap) : Prop := HeapOrdered h.t ∧ Complete h.t h.size

/-- the tree with every element replaced by a fixed one -/
def shape : Tree → Tree
  | nil => nil
  | node l _ r => node (shape l) ⟨0, 0⟩ (shape r)

/-- the bits of `loc` below bit `j`, most significant first -/
def bitsDown (loc : Nat) : Nat → List Bool
  | 0 => []
  | j + 1 => loc.testBit j :: bitsDown loc j

/-- element stored at a position -/
def elemAt : Tree → List Bool → Option Elem
  | nil, _ => none
  | node _ e _, [] => some e
  | node l _ r, d :: ds => elemAt (if d then r else l) ds

/-- the elements in slots `a, a+1, …, a+len-1`, each with its slot number
(unoccupied slots contribute nothing) -/
def slotElems (t : Tree) (a len : Nat) : List (Nat × Elem) :=
  (List.range' a len).filterMap (fun k => (elemAt t (path k)).map (fun e => (k, e)))

/-! histories -/

inductive Op where
  | push (e : Elem)
  | pop
  | clear
deriving Repr

/-- one operation; `none` = the model hit a NULL dereference -/
def step (h : Heap) : Op → Option Heap
  | Op.push e => push h e
  | Op.pop => (pop h).map (·.1)
  | Op.clear => some (clear h).1

/-- run a history (first operation first) from state `h` -/
def runFrom (h : Heap) : List Op → Option Heap
  | [] => some h
  | op :: ops => (step h op).bind (fun h' => runFrom h' ops)

/-- run a history from the freshly initialised heap -/
def run (ops : List Op) : Option Heap := runFrom empty ops

end Cstl.Heap
