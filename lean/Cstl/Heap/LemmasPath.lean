import Cstl.Heap.LemmasFls
import Cstl.Heap.Spec
/-
`path loc` (the loop of `cstl_heap_find`) is the inverse of the level-order
numbering `locOf`.
-/
namespace Cstl.Heap

theorem and_two_pow_ne_zero (loc k : Nat) : (loc &&& 2 ^ k != 0) = loc.testBit k := by
  by_cases h : loc.testBit k = true
  · have e : loc &&& 2 ^ k = 2 ^ k := by
      apply Nat.eq_of_testBit_eq
      intro j
      rw [Nat.testBit_and, Nat.testBit_two_pow]
      by_cases hj : k = j
      · subst hj; simp [h]
      · simp [hj]
    have hp : 0 < 2 ^ k := Nat.pow_pos (by decide)
    rw [e, h]
    simp <;> omega
  · have h' : loc.testBit k = false := by simpa using h
    have e : loc &&& 2 ^ k = 0 := by
      apply Nat.eq_of_testBit_eq
      intro j
      rw [Nat.testBit_and, Nat.testBit_two_pow, Nat.zero_testBit]
      by_cases hj : k = j
      · subst hj; simp [h']
      · simp [hj]
    rw [e, h']
    simp

theorem pathLoop_zero (loc : Nat) : pathLoop loc 0 = [] := by
  rw [pathLoop]; simp

theorem pathLoop_pos (loc : Nat) {b : Nat} (hb : b ≠ 0) :
    pathLoop loc b = (loc &&& b != 0) :: pathLoop loc (b >>> 1) := by
  rw [pathLoop]; simp [hb]

theorem pathLoop_two_pow (loc : Nat) : ∀ k, pathLoop loc (2 ^ k) = bitsDown loc (k + 1) := by
  intro k
  induction k with
  | zero =>
    rw [pathLoop_pos loc (by decide), and_two_pow_ne_zero]
    have : (2 : Nat) ^ 0 >>> 1 = 0 := by decide
    rw [this, pathLoop_zero]
    rfl
  | succ k ih =>
    have hp : 0 < 2 ^ k := Nat.pow_pos (by decide)
    have hB : 2 ^ (k + 1) = 2 * 2 ^ k := by rw [Nat.pow_succ]; omega
    have hs : 2 ^ (k + 1) >>> 1 = 2 ^ k := by
      rw [Nat.shiftRight_eq_div_pow]; omega
    rw [pathLoop_pos loc (by omega), and_two_pow_ne_zero, hs, ih]
    rfl

/-- the directions to slot `loc` are its bits below the highest set bit -/
theorem path_eq_bitsDown {loc : Nat} (h0 : 0 < loc) (hlt : loc < 2 ^ 64) :
    path loc = bitsDown loc (Nat.log2 loc) := by
  unfold path fls
  rw [if_neg (by omega), flsLoop_eq_log2 h0 hlt]
  have e : ∀ n : Nat, (Int.ofNat n).toNat = n := fun _ => rfl
  simp only [e, Nat.one_shiftLeft]
  cases Nat.log2 loc with
  | zero =>
    have : (2 : Nat) ^ 0 >>> 1 = 0 := by decide
    rw [this, pathLoop_zero]; rfl
  | succ k =>
    have hp : 0 < 2 ^ k := Nat.pow_pos (by decide)
    have hB : 2 ^ (k + 1) = 2 * 2 ^ k := by rw [Nat.pow_succ]; omega
    have hs : 2 ^ (k + 1) >>> 1 = 2 ^ k := by
      rw [Nat.shiftRight_eq_div_pow]; omega
    rw [hs, pathLoop_two_pow]

theorem bitsDown_double (k : Nat) (d : Bool) :
    ∀ j, bitsDown (2 * k + d.toNat) (j + 1) = bitsDown k j ++ [d] := by
  intro j
  induction j with
  | zero =>
    show [(2 * k + d.toNat).testBit 0] = [d]
    congr 1
    cases d <;> simp [Nat.testBit_zero] <;> omega
  | succ j ih =>
    show (2 * k + d.toNat).testBit (j + 1) :: bitsDown (2 * k + d.toNat) (j + 1) = _
    rw [ih, Nat.testBit_add_one]
    have : (2 * k + d.toNat) / 2 = k := by cases d <;> simp <;> omega
    rw [this]
    rfl

theorem path_one : path 1 = [] := by
  rw [path_eq_bitsDown (by decide) (by decide)]
  have : Nat.log2 1 = 0 := by decide
  rw [this]; rfl

theorem path_double {k : Nat} (d : Bool) (hk : 0 < k) (hlt : 2 * k + d.toNat < 2 ^ 64) :
    path (2 * k + d.toNat) = path k ++ [d] := by
  have hd : d.toNat ≤ 1 := by cases d <;> simp
  rw [path_eq_bitsDown (by omega) hlt, path_eq_bitsDown hk (by omega)]
  have hlog : Nat.log2 (2 * k + d.toNat) = Nat.log2 k + 1 := by
    rw [Nat.log2_eq_iff (by omega)]
    have h1 := Nat.log2_self_le (n := k) (by omega)
    have h2 := Nat.lt_log2_self (n := k)
    have e1 : 2 ^ (k.log2 + 1) = 2 * 2 ^ k.log2 := by rw [Nat.pow_succ]; omega
    have e2 : 2 ^ (k.log2 + 1 + 1) = 2 * 2 ^ (k.log2 + 1) := by rw [Nat.pow_succ]; omega
    omega
  rw [hlog, bitsDown_double]

/-! `locFrom` / `locOf` -/

theorem locFrom_ge (ds : List Bool) : ∀ k, k ≤ locFrom k ds := by
  induction ds with
  | nil => intro k; exact Nat.le_refl _
  | cons d ds ih =>
    intro k
    have := ih (2 * k + d.toNat)
    show k ≤ locFrom (2 * k + d.toNat) ds
    omega

theorem locFrom_append (ds es : List Bool) : ∀ k, locFrom k (ds ++ es) = locFrom (locFrom k ds) es := by
  induction ds with
  | nil => intro k; rfl
  | cons d ds ih => intro k; exact ih _

theorem locOf_snoc (ds : List Bool) (d : Bool) : locOf (ds ++ [d]) = 2 * locOf ds + d.toNat := by
  unfold locOf
  rw [locFrom_append]
  rfl

theorem locOf_pos (ds : List Bool) : 0 < locOf ds := locFrom_ge ds 1

/-- a proper extension of a path has a strictly larger slot number -/
theorem locFrom_gt {k : Nat} (hk : 0 < k) {ds : List Bool} (hne : ds ≠ []) : k < locFrom k ds := by
  cases ds with
  | nil => exact absurd rfl hne
  | cons d ds =>
    have := locFrom_ge ds (2 * k + d.toNat)
    show k < locFrom (2 * k + d.toNat) ds
    omega

/-- walking the computed directions from slot `k` … -/
theorem path_locFrom (ds : List Bool) :
    ∀ k, 0 < k → locFrom k ds < 2 ^ 64 → path (locFrom k ds) = path k ++ ds := by
  induction ds with
  | nil => intro k _ _; simp [locFrom]
  | cons d ds ih =>
    intro k hk hlt
    have hge := locFrom_ge ds (2 * k + d.toNat)
    have h1 : locFrom k (d :: ds) = locFrom (2 * k + d.toNat) ds := rfl
    rw [h1] at hlt ⊢
    rw [ih (2 * k + d.toNat) (by omega) hlt, path_double d hk (by omega)]
    simp

/-- `path` is a left inverse of the numbering … -/
theorem path_locOf {ds : List Bool} (hlt : locOf ds < 2 ^ 64) : path (locOf ds) = ds := by
  have := path_locFrom ds 1 (by decide) hlt
  rw [path_one] at this
  simpa [locOf] using this

/-- … and a right inverse -/
theorem locOf_path : ∀ (loc : Nat), 0 < loc → loc < 2 ^ 64 → locOf (path loc) = loc := by
  intro loc
  induction loc using Nat.strongRecOn with
  | _ loc ih =>
    intro h0 hlt
    by_cases h1 : loc = 1
    · subst h1; rw [path_one]; rfl
    · have hk : 0 < loc / 2 := by omega
      have hd : loc = 2 * (loc / 2) + (decide (loc % 2 = 1)).toNat := by
        by_cases hm : loc % 2 = 1
        · simp [hm]; omega
        · simp [hm]; omega
      have hp := path_double (decide (loc % 2 = 1)) hk (by omega)
      rw [← hd] at hp
      rw [hp, locOf_snoc, ih (loc / 2) (by omega) hk (by omega)]
      exact hd.symm

theorem locOf_inj {ds es : List Bool} (h : locOf ds = locOf es) (hlt : locOf ds < 2 ^ 64) : ds = es := by
  rw [← path_locOf hlt, h, path_locOf (h ▸ hlt)]

end Cstl.Heap
