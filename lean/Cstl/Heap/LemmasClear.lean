import Cstl.Heap.LemmasOrder
/-
`cstl_heap_clear`: the traversal reads a node's children once, at entry, and
hands the element over after both subtrees are done.
-/
namespace Cstl.Heap
open Tree

/-- addresses of the elements of a tree -/
def ids (t : Tree) : List Nat := (elems t).map (·.id)

/-- the event concerns element `i` -/
def Ev.involves (i : Nat) : Ev → Bool
  | Ev.touch j => j == i
  | Ev.cb j => j == i

def Ev.cbId : Ev → Option Nat
  | Ev.touch _ => none
  | Ev.cb j => some j

@[simp] theorem ids_nil : ids nil = [] := rfl
@[simp] theorem ids_node (l r : Tree) (e : Elem) : ids (node l e r) = e.id :: (ids l ++ ids r) := by
  simp [ids]

theorem clearOrder_perm : ∀ t : Tree, (clearOrder t).Perm (elems t) := by
  intro t
  induction t with
  | nil => exact List.Perm.refl _
  | node l e r ihl ihr =>
    refine List.perm_iff_count.2 fun a => ?_
    have h1 := ihl.count_eq a
    have h2 := ihr.count_eq a
    simp only [clearOrder, elems_node, List.count_cons, List.count_append, List.count_nil] at h1 h2 ⊢
    omega

theorem clearTrace_cbs : ∀ t : Tree, (clearTrace t).filterMap Ev.cbId = (clearOrder t).map (·.id) := by
  intro t
  induction t with
  | nil => rfl
  | node l e r ihl ihr =>
    show List.filterMap Ev.cbId (Ev.touch e.id :: (clearTrace l ++ clearTrace r ++ [Ev.cb e.id]))
      = List.map (·.id) (clearOrder l ++ clearOrder r ++ [e])
    rw [List.filterMap_cons_none (by rfl), List.filterMap_append, List.filterMap_append, ihl, ihr,
      List.map_append, List.map_append]
    rfl

theorem clearTrace_filter_notin {i : Nat} : ∀ t : Tree, i ∉ ids t →
    (clearTrace t).filter (Ev.involves i) = [] := by
  intro t
  induction t with
  | nil => intro _; rfl
  | node l e r ihl ihr =>
    intro h
    simp only [ids_node, List.mem_cons, List.mem_append, not_or] at h
    have hne : (e.id == i) = false := by
      simp only [beq_eq_false_iff_ne, ne_eq]
      exact fun hc => h.1 hc.symm
    simp [clearTrace, List.filter_append, Ev.involves, hne, ihl h.2.1, ihr h.2.2]

/-- with distinct element addresses, everything the traversal does with an
element is: read its children once, then hand it over — in this order -/
theorem clearTrace_filter {i : Nat} : ∀ t : Tree, (ids t).Nodup → i ∈ ids t →
    (clearTrace t).filter (Ev.involves i) = [Ev.touch i, Ev.cb i] := by
  intro t
  induction t with
  | nil => intro _ h; simp at h
  | node l e r ihl ihr =>
    intro hnd hi
    simp only [ids_node, List.nodup_cons, List.mem_append, not_or, List.nodup_append] at hnd
    obtain ⟨⟨hel, her⟩, hl, hr, hdisj⟩ := hnd
    simp only [ids_node, List.mem_cons, List.mem_append] at hi
    rcases hi with rfl | hi | hi
    · simp [clearTrace, List.filter_append, Ev.involves,
        clearTrace_filter_notin l hel, clearTrace_filter_notin r her]
    · have hne : (e.id == i) = false := by
        simp only [beq_eq_false_iff_ne, ne_eq]
        rintro rfl; exact hel hi
      have hir : i ∉ ids r := fun hc => hdisj i hi i hc rfl
      simp [clearTrace, List.filter_append, Ev.involves, hne,
        ihl hl hi, clearTrace_filter_notin r hir]
    · have hne : (e.id == i) = false := by
        simp only [beq_eq_false_iff_ne, ne_eq]
        rintro rfl; exact her hi
      have hil : i ∉ ids l := fun hc => hdisj i hc i hi rfl
      simp [clearTrace, List.filter_append, Ev.involves, hne,
        ihr hr hi, clearTrace_filter_notin l hil]

end Cstl.Heap
