import Cstl.Heap.Model
/-
`cstl_fls` (the mask loop) computes the index of the highest set bit, and the
directions computed by `cstl_heap_find` are the bits below it, msb first.
-/
namespace Cstl.Heap

/-- the test `(x & (~0UL << s)) != 0` of the loop body -/
theorem mask_test {x s : Nat} (hx : x < 2 ^ 64) (hs : s < 64) :
    (x &&& ((2 ^ 64 - 1) <<< s) % 2 ^ 64 ≠ 0) ↔ 2 ^ s ≤ x := by
  constructor
  · intro h
    obtain ⟨j, hj⟩ := Nat.exists_testBit_of_ne_zero h
    rw [Nat.testBit_and, Nat.testBit_mod_two_pow, Nat.testBit_shiftLeft] at hj
    simp only [Bool.and_eq_true, decide_eq_true_eq] at hj
    have h1 := Nat.ge_two_pow_of_testBit hj.1
    have h2 : 2 ^ s ≤ 2 ^ j := Nat.pow_le_pow_right (by decide) hj.2.2.1
    exact Nat.le_trans h2 h1
  · intro h hz
    obtain ⟨j, hjs, hj⟩ := Nat.exists_ge_and_testBit_of_ge_two_pow h
    have hj64 : j < 64 := by
      apply Classical.byContradiction
      intro hc
      have h3 : 2 ^ 64 ≤ 2 ^ j := Nat.pow_le_pow_right (by decide) (by omega)
      have h4 := Nat.testBit_lt_two_pow (Nat.lt_of_lt_of_le hx h3)
      rw [h4] at hj
      exact Bool.noConfusion hj
    have h5 : (x &&& ((2 ^ 64 - 1) <<< s) % 2 ^ 64).testBit j = true := by
      rw [Nat.testBit_and, Nat.testBit_mod_two_pow, Nat.testBit_shiftLeft,
        Nat.testBit_two_pow_sub_one]
      simp only [Bool.and_eq_true, decide_eq_true_eq]
      exact ⟨hj, hj64, hjs, by omega⟩
    rw [hz] at h5
    simp at h5

theorem flsStep_spec {x i b : Nat} (hx : x < 2 ^ 64) (hb : b + i < 64)
    (hlo : 2 ^ i ≤ x) (hhi : x < 2 ^ (i + 2 * b)) :
    2 ^ (flsStep x i b) ≤ x ∧ x < 2 ^ (flsStep x i b + b) ∧ flsStep x i b ≤ i + b := by
  unfold flsStep
  simp only
  by_cases h : 2 ^ (b + i) ≤ x
  · rw [if_pos ((mask_test hx hb).2 h)]
    refine ⟨h, ?_, by omega⟩
    have : b + i + b = i + 2 * b := by omega
    rw [this]; exact hhi
  · rw [if_neg (fun hc => h ((mask_test hx hb).1 hc))]
    refine ⟨hlo, ?_, by omega⟩
    have : i + b = b + i := by omega
    rw [this]; omega

theorem flsLoop_zero (x i : Nat) : flsLoop x i 0 = i := by
  rw [flsLoop]; simp

theorem flsLoop_pos (x i : Nat) {b : Nat} (hb : b ≠ 0) :
    flsLoop x i b = flsLoop x (flsStep x i b) (b / 2) := by
  rw [flsLoop]; simp [hb]

/-- loop invariant: entering an iteration with `b = 2^k`, the highest set bit
of `x` is in `[i, i + 2b)`; the loop ends with it at `i`. -/
theorem flsLoop_spec {x : Nat} (hx : x < 2 ^ 64) :
    ∀ (k i : Nat), 2 ^ i ≤ x → x < 2 ^ (i + 2 ^ (k + 1)) → i + 2 ^ (k + 1) ≤ 64 →
      2 ^ (flsLoop x i (2 ^ k)) ≤ x ∧ x < 2 ^ (flsLoop x i (2 ^ k) + 1) := by
  intro k
  induction k with
  | zero =>
    intro i hlo hhi hle
    have h1 : flsLoop x i (2 ^ 0) = flsStep x i 1 := by
      rw [flsLoop_pos x i (by decide)]
      exact flsLoop_zero _ _
    rw [h1]
    have := flsStep_spec (b := 1) hx (by simp at hle; omega) hlo (by simpa using hhi)
    exact ⟨this.1, this.2.1⟩
  | succ k ih =>
    intro i hlo hhi hle
    have hB : 2 ^ (k + 1) = 2 * 2 ^ k := by rw [Nat.pow_succ]; omega
    have hBB : 2 ^ (k + 1 + 1) = 2 * 2 ^ (k + 1) := by rw [Nat.pow_succ]; omega
    have hpos : 0 < 2 ^ k := Nat.pow_pos (by decide)
    have hne : 2 ^ (k + 1) ≠ 0 := by omega
    have hdiv : 2 ^ (k + 1) / 2 = 2 ^ k := by omega
    rw [flsLoop_pos x i hne, hdiv]
    have hs := flsStep_spec (b := 2 ^ (k + 1)) hx (by omega) hlo (by rw [← hBB]; exact hhi)
    exact ih _ hs.1 hs.2.1 (by omega)

theorem flsLoop_eq_log2 {x : Nat} (h0 : 0 < x) (hx : x < 2 ^ 64) :
    flsLoop x 0 32 = Nat.log2 x := by
  have h := flsLoop_spec hx 5 0 (by simp; omega) (by simpa using hx) (by decide)
  have h32 : (2 : Nat) ^ 5 = 32 := by decide
  rw [h32] at h
  exact ((Nat.log2_eq_iff (by omega)).2 h).symm

end Cstl.Heap
