/-
Model of src/heap.c (pointer-linked binary max-heap), of `cstl_fls`
(src/common.c) and of the part of `cstl_bintree_clear` (src/bintree.c) that
`cstl_heap_clear` uses.  Core Lean only.

The C heap is a complete binary tree of `struct cstl_bintree_node`s; the only
state besides the links is `bt.size`, which doubles as the address of the next
free slot and of the last element: the node with 0-based level-order number
`id` is found by walking from the root along the bits of `loc = id + 1` below
its highest set bit, most significant first (`cstl_heap_find`).

What is modelled one-to-one
  * `cstl_fls`: the mask loop on a 64-bit value (`flsLoop`), `b = 32,16,…,1`;
  * `cstl_heap_find`: `b = (1 << fls(loc)) >> 1`, then the loop over `b`
    (`pathLoop`, `walk`), including "p became NULL" (`walk` returns `nil`);
  * `cstl_heap_push`: empty-root case; otherwise parent = find((size-1)/2),
    side = right iff size % 2 == 0, the child pointer of the parent is
    overwritten (`attachAt`), then `while (n->p && cmp(n, n->p) > 0)
    promote_child` (`siftUp`);
  * `cstl_heap_pop`: result = root; n = find(size-1); unlink n from its parent
    (`removeAt`); `*n = *root` (n takes the root's position and children), then
    the do/while with the C tie rules: the left child is taken only if it is
    `>` n, the right child only if it is `>` the current candidate (`siftInto`);
  * `cstl_heap_get`, `cstl_heap_size`, `cstl_heap_clear` (callback order of the
    traversal: a node is handed over on its LEAF or POST visit, i.e. after both
    subtrees; its children are read once, at entry).

What is abstracted (DESIGN 4/C07 "Not proved"): a node is a position in a
functional tree, so the six-neighbour relinking of `cstl_heap_promote_child`
is "the two elements exchange positions".  The link-level effect (every parent
and child pointer) is compared on every run by the harness dump.

Where the C code would dereference NULL or evaluate an undefined shift the
model returns `none` (the harness then reports `STOP segv`); the theorems show
this never happens from a state satisfying the invariant.  `unsigned int`
truncation of `id`/`loc` is not modelled: sizes are below 2^31 (DESIGN 7.3).
-/
namespace Cstl.Heap

/-- An element: `id` is the pointer (pool index), comparison is by `key`. -/
structure Elem where
  key : Int
  id : Nat
deriving DecidableEq, Repr, Inhabited

inductive Tree where
  | nil
  | node (l : Tree) (e : Elem) (r : Tree)
deriving DecidableEq, Repr, Inhabited

namespace Tree

def leaf (e : Elem) : Tree := node nil e nil

/-- elements in pre-order (used only as a multiset) -/
def elems : Tree → List Elem
  | nil => []
  | node l e r => e :: (elems l ++ elems r)

def height : Tree → Nat
  | nil => 0
  | node l _ r => max (height l) (height r) + 1

end Tree

open Tree

/-! ### `cstl_fls` -/

/-- body of the loop: `s = b + i; m = ~0UL << s; if ((x & m) != 0) i = s;` -/
def flsStep (x i b : Nat) : Nat :=
  let s := b + i
  let m := ((2 ^ 64 - 1) <<< s) % 2 ^ 64
  if x &&& m ≠ 0 then s else i

/-- `for (…; b != 0; b /= 2)` -/
def flsLoop (x i b : Nat) : Nat :=
  if _h : b = 0 then i else flsLoop x (flsStep x i b) (b / 2)
termination_by b
decreasing_by omega

/-- `int cstl_fls(unsigned long x)` for `x < 2^64` -/
def fls (x : Nat) : Int :=
  if x = 0 then -1 else Int.ofNat (flsLoop x 0 32)

/-! ### `cstl_heap_find` -/

/-- `for (b = …; b != 0; b >>= 1)`: one direction per iteration,
`true` = right (`(loc & b) != 0`) -/
def pathLoop (loc b : Nat) : List Bool :=
  if _h : b = 0 then [] else (loc &&& b != 0) :: pathLoop loc (b >>> 1)
termination_by b
decreasing_by
  rw [Nat.shiftRight_eq_div_pow]
  exact Nat.div_lt_self (by omega) (by decide)

/-- directions from the root to the slot numbered `loc` (1-based level order):
the bits of `loc` below its highest set bit, msb first -/
def path (loc : Nat) : List Bool :=
  pathLoop loc ((1 <<< (fls loc).toNat) >>> 1)

/-- follow directions; `nil` when the walk runs into a NULL pointer
(`p != NULL &&` in the loop condition) or ends on one -/
def walk : Tree → List Bool → Tree
  | nil, _ => nil
  | t@(node _ _ _), [] => t
  | node l _ r, d :: ds => walk (if d then r else l) ds

/-- `cstl_heap_find(h, id)`: the subtree whose root is the node found
(`nil` = NULL) -/
def findSlot (t : Tree) (id : Nat) : Tree := walk t (path (id + 1))

/-! ### push -/

/-- `n->p = find(…); n->p->{l,r} = n;` with `ds` the directions to the
parent.  `none`: the parent pointer is NULL and is dereferenced. -/
def attachAt : Tree → List Bool → Bool → Elem → Option Tree
  | nil, _, _, _ => none
  | node l x r, [], side, e =>
    some (if side then node l x (leaf e) else node (leaf e) x r)
  | node l x r, d :: ds, side, e =>
    if d then (attachAt r ds side e).map (fun r' => node l x r')
    else (attachAt l ds side e).map (fun l' => node l' x r)

/-- `while (n->p != NULL && cmp(n, n->p) > 0) promote_child(h, n);`
where `ds` are the directions from the root of this subtree to `n`.
The loop runs upward, so it is executed on the way back from the descent:
the result is the subtree after the loop and a flag saying that `n` is now the
root of this subtree *and* the loop has not stopped yet (every comparison so
far was `> 0`).  `promote_child` exchanges the positions of `n` and its
parent: `n` takes the parent's place and its other child, the parent takes
`n`'s place and children. -/
def siftUp : Tree → List Bool → Option (Tree × Bool)
  | nil, _ => none
  | t@(node _ _ _), [] => some (t, true)
  | node l x r, d :: ds =>
    if d then
      match siftUp r ds with
      | none => none
      | some (r', false) => some (node l x r', false)
      | some (nil, true) => none
      | some (node cl n cr, true) =>
        if n.key > x.key then some (node l n (node cl x cr), true)
        else some (node l x (node cl n cr), false)
    else
      match siftUp l ds with
      | none => none
      | some (l', false) => some (node l' x r, false)
      | some (nil, true) => none
      | some (node cl n cr, true) =>
        if n.key > x.key then some (node (node cl x cr) n r, true)
        else some (node (node cl n cr) x r, false)

structure Heap where
  t : Tree
  size : Nat
deriving DecidableEq, Repr, Inhabited

def empty : Heap := { t := nil, size := 0 }

/-- `cstl_heap_push` -/
def push (h : Heap) (e : Elem) : Option Heap :=
  match h.t with
  | nil => some { t := leaf e, size := h.size + 1 }
  | node _ _ _ =>
    if h.size = 0 then none          -- (size - 1) wraps: loc = 0, `1 << -1`
    else
      let ds := path ((h.size - 1) / 2 + 1)
      let side := h.size % 2 == 0
      match attachAt h.t ds side e with
      | none => none
      | some t1 =>
        match siftUp t1 (ds ++ [side]) with
        | none => none
        | some (t2, _) => some { t := t2, size := h.size + 1 }

/-! ### get / size -/

/-- `cstl_heap_get` -/
def get (h : Heap) : Option Elem :=
  match h.t with
  | nil => none
  | node _ e _ => some e

/-- `cstl_heap_size` -/
def size (h : Heap) : Nat := h.size

/-! ### pop -/

/-- `n = find(…)`, then unlink `n` from its parent (`root = NULL` when it has
none).  Returns the remaining tree and `n`'s element; whatever hangs below `n`
is lost with it (`*n = *root` overwrites `n`'s child pointers).
`none`: `n` is NULL and `n->p` is read. -/
def removeAt : Tree → List Bool → Option (Tree × Elem)
  | nil, _ => none
  | node _ x _, [] => some (nil, x)
  | node l x r, d :: ds =>
    if d then (removeAt r ds).map (fun (r', n) => (node l x r', n))
    else (removeAt l ds).map (fun (l', n) => (node l' x r, n))

/-- `*n = *root; root = n;` followed by the do/while of `cstl_heap_pop`:
`n` takes the root position of the given tree (whose root element is the one
being returned) and is exchanged with the chosen child until it is its own
candidate.  Candidate rule of the C code: `c = n`; `c = l` if `l != NULL` and
`l > c`; then `c = r` if `r != NULL` and `r > c` (so the left child is taken
only if it is `>` n, the right child only if it is `>` the current candidate). -/
def siftInto (n : Elem) : Tree → Tree
  | nil => nil
  | node l _ r =>
    match l, r with
    | nil, nil => node nil n nil
    | nil, node _ y _ =>
      if y.key > n.key then node nil y (siftInto n r) else node nil n r
    | node _ x _, nil =>
      if x.key > n.key then node (siftInto n l) x nil else node l n nil
    | node _ x _, node _ y _ =>
      let ck : Int := if x.key > n.key then x.key else n.key
      if y.key > ck then node l y (siftInto n r)
      else if x.key > n.key then node (siftInto n l) x r
      else node l n r

/-- `cstl_heap_pop`: new state and result (`none` = NULL) -/
def pop (h : Heap) : Option (Heap × Option Elem) :=
  match h.t with
  | nil => some (h, none)
  | node _ res _ =>
    if h.size = 0 then none          -- (size - 1) wraps
    else
      match removeAt h.t (path h.size) with    -- find(h, size - 1): loc = size
      | none => none
      | some (t1, n) =>
        match t1 with
        | nil => some ({ t := nil, size := h.size - 1 }, some res)
        | node _ _ _ => some ({ t := siftInto n t1, size := h.size - 1 }, some res)

/-! ### clear (`cstl_bintree_clear` through `cstl_heap_clear`) -/

/-- what the traversal does with element `id`: `touch` = its child pointers are
read (once, at entry of `__cstl_bintree_foreach`), `cb` = the clear callback is
called on it (LEAF visit, or POST visit of a non-leaf). -/
inductive Ev where
  | touch (id : Nat)
  | cb (id : Nat)
deriving DecidableEq, Repr

def clearTrace : Tree → List Ev
  | nil => []
  | node l e r => Ev.touch e.id :: (clearTrace l ++ clearTrace r ++ [Ev.cb e.id])

/-- callback order -/
def clearOrder : Tree → List Elem
  | nil => []
  | node l e r => clearOrder l ++ clearOrder r ++ [e]

/-- `cstl_heap_clear`: the callbacks in order, and the state afterwards
(`root = NULL; size = 0` only when the root was not NULL) -/
def clear (h : Heap) : Heap × List Elem :=
  match h.t with
  | nil => (h, [])
  | t@(node _ _ _) => ({ t := nil, size := 0 }, clearOrder t)

/-! ### level-order dump (what the harness prints) -/

/-- children of the nodes of one level, with their 1-based level-order
numbers (`2k`, `2k+1`) -/
def nextLevel : List (Nat × Tree) → List (Nat × Tree)
  | [] => []
  | (k, node l _ r) :: q => (2 * k, l) :: (2 * k + 1, r) :: nextLevel q
  | (_, nil) :: q => nextLevel q

def thisLevel : List (Nat × Tree) → List (Nat × Elem)
  | [] => []
  | (k, node _ e _) :: q => (k, e) :: thisLevel q
  | (_, nil) :: q => thisLevel q

def bfs : Nat → List (Nat × Tree) → List (Nat × Elem)
  | 0, _ => []
  | f + 1, q => thisLevel q ++ bfs f (nextLevel q)

/-- nodes in breadth-first order, each with its slot number -/
def levelOrder (t : Tree) : List (Nat × Elem) := bfs (t.height + 1) [(1, t)]

end Cstl.Heap
