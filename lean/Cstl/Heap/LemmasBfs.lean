import Cstl.Heap.LemmasShape
/-
The slot numbering is the breadth-first (level) order: on a complete tree the
breadth-first traversal from the root (`levelOrder`, which is what the harness
dump prints from the real pointers) lists the slots `1, 2, …, n` in this order.
-/
namespace Cstl.Heap
open Tree

/-- a queue of the traversal: the subtrees hanging at slots `a … a+len-1` -/
def slotsQ (t : Tree) (a len : Nat) : List (Nat × Tree) :=
  (List.range' a len).map (fun k => (k, walk t (path k)))

theorem slotsQ_zero (t : Tree) (a : Nat) : slotsQ t a 0 = [] := rfl

theorem slotsQ_succ (t : Tree) (a len : Nat) :
    slotsQ t a (len + 1) = (a, walk t (path a)) :: slotsQ t (a + 1) len := by
  simp [slotsQ, List.range'_succ]

theorem slotElems_zero (t : Tree) (a : Nat) : slotElems t a 0 = [] := rfl

theorem slotElems_succ (t : Tree) (a len : Nat) :
    slotElems t a (len + 1) =
      (match elemAt t (path a) with | some e => [(a, e)] | none => []) ++ slotElems t (a + 1) len := by
  unfold slotElems
  rw [List.range'_succ, List.filterMap_cons]
  cases elemAt t (path a) <;> simp

theorem slotElems_append (t : Tree) (a m k : Nat) :
    slotElems t a m ++ slotElems t (a + m) k = slotElems t a (m + k) := by
  unfold slotElems
  rw [← List.filterMap_append, List.range'_append_1]

theorem walk_append : ∀ (ds es : List Bool) (t : Tree), walk t (ds ++ es) = walk (walk t ds) es := by
  intro ds
  induction ds with
  | nil =>
    intro es t
    cases t with
    | nil => cases es <;> simp [walk]
    | node l x r => simp [walk]
  | cons d ds ih =>
    intro es t
    cases t with
    | nil => cases es <;> simp [walk]
    | node l x r => simp [walk, ih]

theorem walk_nil_elemAt : ∀ {ds : List Bool} {t : Tree}, walk t ds = nil → elemAt t ds = none := by
  intro ds
  induction ds with
  | nil => intro t h; cases t <;> simp_all [walk, elemAt]
  | cons d ds ih =>
    intro t h
    cases t with
    | nil => rfl
    | node l x r =>
      cases d with
      | true => exact ih (t := r) (by simpa [walk] using h)
      | false => exact ih (t := l) (by simpa [walk] using h)

theorem walk_nil (ds : List Bool) : walk nil ds = nil := by cases ds <;> rfl

/-- children of the node in slot `k` -/
theorem walk_children {t l r : Tree} {e : Elem} {k : Nat} (hk : 0 < k) (hlt : 2 * k + 1 < 2 ^ 64)
    (h : walk t (path k) = node l e r) :
    walk t (path (2 * k)) = l ∧ walk t (path (2 * k + 1)) = r := by
  have h0 := path_double false hk (by simpa using (by omega : 2 * k < 2 ^ 64))
  have h1 := path_double true hk (by simpa using hlt)
  simp only [Bool.toNat_false, Nat.add_zero, Bool.toNat_true] at h0 h1
  rw [h0, h1, walk_append, walk_append, h]
  constructor
  · cases l <;> simp [walk]
  · cases r <;> simp [walk]

theorem thisLevel_slotsQ (t : Tree) : ∀ (len a : Nat), thisLevel (slotsQ t a len) = slotElems t a len := by
  intro len
  induction len with
  | zero => intro a; rfl
  | succ len ih =>
    intro a
    rw [slotsQ_succ, slotElems_succ]
    cases hw : walk t (path a) with
    | nil =>
      rw [walk_nil_elemAt hw]
      simp [thisLevel, ih]
    | node l e r =>
      rw [walk_node_elemAt hw]
      simp [thisLevel, ih]

theorem bfs_nil : ∀ f : Nat, bfs f [] = [] := by
  intro f
  induction f with
  | zero => rfl
  | succ f ih => simp [bfs, thisLevel, nextLevel, ih]

/-- slots beyond `n` are empty in a complete tree -/
theorem slotElems_beyond {t : Tree} {n : Nat} (hc : Complete t n) :
    ∀ (len a : Nat), n < a → a + len ≤ 2 ^ 64 → slotElems t a len = [] := by
  intro len
  induction len with
  | zero => intro a _ _; rfl
  | succ len ih =>
    intro a ha hb
    rw [slotElems_succ, ih (a + 1) (by omega) (by omega)]
    have hw : walk t (path a) = nil := by
      apply walk_eq_nil_iff.2
      intro ho
      have := (hc _).1 ho
      rw [locOf_path a (by omega) (by omega)] at this
      omega
    rw [walk_nil_elemAt hw]
    rfl

theorem nextLevel_beyond {t : Tree} {n : Nat} (hc : Complete t n) :
    ∀ (len a : Nat), n < a → a + len ≤ 2 ^ 64 → nextLevel (slotsQ t a len) = [] := by
  intro len
  induction len with
  | zero => intro a _ _; rfl
  | succ len ih =>
    intro a ha hb
    have hw : walk t (path a) = nil := by
      apply walk_eq_nil_iff.2
      intro ho
      have := (hc _).1 ho
      rw [locOf_path a (by omega) (by omega)] at this
      omega
    rw [slotsQ_succ, hw]
    simp [nextLevel, ih (a + 1) (by omega) (by omega)]

/-- the children of the occupied slots among `a … a+len-1` are the subtrees at
slots `2a … 2a+2m-1`, `m` the number of occupied ones -/
theorem nextLevel_slotsQ {t : Tree} {n : Nat} (hc : Complete t n) :
    ∀ (len a : Nat), 0 < a → 2 * (a + len) ≤ 2 ^ 64 →
      nextLevel (slotsQ t a len) = slotsQ t (2 * a) (2 * min len (n + 1 - a)) := by
  intro len
  induction len with
  | zero => intro a _ _; simp [slotsQ_zero, nextLevel]
  | succ len ih =>
    intro a ha hb
    by_cases hn : a ≤ n
    · have ho : Occ t (path a) := (hc _).2 (by rw [locOf_path a ha (by omega)]; exact hn)
      cases hw : walk t (path a) with
      | nil => exact absurd ho (walk_eq_nil_iff.1 hw)
      | node l e r =>
        obtain ⟨hl, hr⟩ := walk_children ha (by omega) hw
        have hm : 2 * min (len + 1) (n + 1 - a) = 2 * min len (n + 1 - (a + 1)) + 1 + 1 := by omega
        rw [slotsQ_succ, hw, hm, slotsQ_succ, slotsQ_succ, hl, hr]
        simp only [nextLevel]
        rw [ih (a + 1) (by omega) (by omega)]
        have : 2 * (a + 1) = 2 * a + 1 + 1 := by omega
        rw [this]
    · have hm : min (len + 1) (n + 1 - a) = 0 := by omega
      rw [hm, nextLevel_beyond hc (len + 1) a (by omega) (by omega)]
      rfl

/-- breadth-first traversal of the levels from slot `a` on (`a` a power of
two: the first slot of a level) -/
theorem bfs_slotsQ {t : Tree} {n : Nat} (hc : Complete t n) (hn : n + 1 < 2 ^ 62) :
    ∀ (fuel a : Nat), 0 < a → a ≤ n + 1 → n + 1 < a * 2 ^ fuel →
      bfs fuel (slotsQ t a a) = slotElems t a (n + 1 - a) := by
  intro fuel
  induction fuel with
  | zero => intro a _ h1 h2; simp at h2; omega
  | succ fuel ih =>
    intro a ha h1 h2
    have hp : (2 : Nat) ^ 62 * 4 = 2 ^ 64 := by decide
    rw [bfs, thisLevel_slotsQ, nextLevel_slotsQ hc a a ha (by omega)]
    by_cases hfull : 2 * a ≤ n + 1
    · have hm : min a (n + 1 - a) = a := by omega
      have e0 : a * 2 ^ (fuel + 1) = 2 * a * 2 ^ fuel := by
        rw [Nat.pow_succ, Nat.mul_comm (2 ^ fuel) 2, ← Nat.mul_assoc, Nat.mul_comm a 2]
      rw [hm, ih (2 * a) (by omega) hfull (by rw [← e0]; exact h2)]
      have e1 : 2 * a = a + a := by omega
      have e2 : n + 1 - a = a + (n + 1 - 2 * a) := by omega
      rw [e2, ← slotElems_append, e1]
    · have hm : min a (n + 1 - a) = n + 1 - a := by omega
      rw [hm]
      -- the next queue is beyond `n`: it contributes nothing, ever
      have hrest : ∀ f, bfs f (slotsQ t (2 * a) (2 * (n + 1 - a))) = [] := by
        intro f
        cases f with
        | zero => rfl
        | succ f =>
          rw [bfs, thisLevel_slotsQ, slotElems_beyond hc _ _ (by omega) (by omega),
            nextLevel_beyond hc _ _ (by omega) (by omega), bfs_nil]
          rfl
      rw [hrest, List.append_nil]
      have e2 : a = (n + 1 - a) + (a - (n + 1 - a)) := by omega
      have : slotElems t a a = slotElems t a ((n + 1 - a) + (a - (n + 1 - a))) := by rw [← e2]
      have hb := slotElems_beyond hc (a - (n + 1 - a)) (a + (n + 1 - a)) (by omega) (by omega)
      rw [this, ← slotElems_append, hb, List.append_nil]

theorem length_add_one_le_pow_height : ∀ t : Tree, (elems t).length + 1 ≤ 2 ^ t.height := by
  intro t
  induction t with
  | nil => simp [height]
  | node l e r ihl ihr =>
    have h1 : 2 ^ l.height ≤ 2 ^ max l.height r.height :=
      Nat.pow_le_pow_right (by decide) (Nat.le_max_left _ _)
    have h2 : 2 ^ r.height ≤ 2 ^ max l.height r.height :=
      Nat.pow_le_pow_right (by decide) (Nat.le_max_right _ _)
    simp only [elems_node, List.length_cons, List.length_append, height, Nat.pow_succ]
    omega

/-- on a complete tree the breadth-first traversal lists exactly the slots
`1 … n`, in this order, each with the element stored there -/
theorem levelOrder_complete {t : Tree} {n : Nat} (hc : Complete t n) (hn : n + 1 < 2 ^ 62) :
    levelOrder t = slotElems t 1 n := by
  have hq : [(1, t)] = slotsQ t 1 1 := by
    rw [slotsQ_succ, slotsQ_zero, path_one]
    cases t <;> rfl
  unfold levelOrder
  rw [hq]
  have hlen := complete_length n t (by
    have : (2 : Nat) ^ 62 ≤ 2 ^ 64 := by decide
    omega) hc
  have hh := length_add_one_le_pow_height t
  have := bfs_slotsQ hc hn (t.height + 1) 1 (by decide) (by omega) (by
    rw [Nat.pow_succ]; omega)
  simpa using this

/-- the `i`-th entry of the slots `a …`, all occupied -/
theorem slotElems_getElem? {t : Tree} : ∀ (len a i : Nat) (e : Elem), i < len →
    elemAt t (path (a + i)) = some e →
    (∀ j, j < i → ∃ x, elemAt t (path (a + j)) = some x) →
    (slotElems t a len)[i]? = some (a + i, e) := by
  intro len
  induction len with
  | zero => intro a i e h; omega
  | succ len ih =>
    intro a i e hi he hall
    rw [slotElems_succ]
    cases i with
    | zero =>
      rw [Nat.add_zero] at he
      rw [he]
      rfl
    | succ i =>
      obtain ⟨x, hx⟩ := hall 0 (by omega)
      rw [Nat.add_zero] at hx
      rw [hx]
      show ([(a, x)] ++ slotElems t (a + 1) len)[i + 1]? = _
      rw [List.getElem?_append_right (by simp)]
      simp only [List.length_cons, List.length_nil, Nat.zero_add, Nat.add_sub_cancel]
      have := ih (a + 1) i e (by omega) (by rw [← he]; congr 2; omega) (fun j hj => by
        obtain ⟨y, hy⟩ := hall (j + 1) (by omega)
        exact ⟨y, by rw [← hy]; congr 2; omega⟩)
      rw [this]
      congr 2
      omega

end Cstl.Heap
