import Cstl.Base.Driver
import Cstl.Heap.Model
/-
Driver for the heap area; same line protocol as harness/heap.c.

ops      push <key> <id> | pop | get | size | clear | dump | fls <x>
output   <result> | n=<size> c=<0|1> [<slot>:<id>:<key>,…]
         (breadth-first from the root; `c` = the slots are exactly 1…size;
          more than 64 nodes: `#<digest>` of the same list instead, except
          after `dump`)
-/
open Cstl Cstl.Heap

def digestP : Nat := 2147483647

def digest (xs : List (Nat × Elem)) : Nat :=
  xs.foldl (fun h (p : Nat × Elem) =>
    (h * 1000003 + (p.1 % digestP) * 8191 + (p.2.id % digestP) * 131
      + (p.2.key + 2147483648).toNat % digestP) % digestP) 7

def isComplete (xs : List (Nat × Elem)) (n : Nat) : Bool :=
  xs.length == n && (xs.map (·.1)) == (List.range n).map (· + 1)

def showNodes (xs : List (Nat × Elem)) : String :=
  "[" ++ ",".intercalate (xs.map fun p => s!"{p.1}:{p.2.id}:{p.2.key}") ++ "]"

def dumpHeap (h : Heap) (full : Bool) : String :=
  let xs := levelOrder h.t
  let c := if isComplete xs h.size then "1" else "0"
  let body := if full || xs.length ≤ 64 then showNodes xs else s!"#{digest xs}"
  s!"n={h.size} c={c} {body}"

def showElem : Option Elem → String
  | none => "0"
  | some e => s!"{e.id}:{e.key}"

def hstep (h : Heap) (ws : List String) : Heap × String :=
  let bad := (h, "STOP bad-op")
  let fin (h' : Heap) (r : String) (full : Bool := false) : Heap × String :=
    (h', r ++ " | " ++ dumpHeap h' full)
  match ws with
  | ["push", k, i] =>
    match parseInt? k, i.toNat? with
    | some k, some i =>
      if i = 0 then bad else
      match push h { key := k, id := i } with
      | none => (h, "STOP segv")
      | some h' => fin h' "ok"
    | _, _ => bad
  | ["pop"] =>
    match pop h with
    | none => (h, "STOP segv")
    | some (h', r) => fin h' (showElem r)
  | ["get"] => fin h (showElem (get h))
  | ["size"] => fin h (toString (size h))
  | ["clear"] =>
    let (h', cbs) := clear h
    fin h' (showList (cbs.map (·.id)) ++ " p=1")
  | ["dump"] => fin h "ok" true
  | ["fls", x] =>
    match parseNat? x with
    | some x => if x < 2 ^ 64 then fin h (toString (fls x)) else bad
    | none => bad
  | _ => bad

def main : IO Unit := runArea { init := Heap.empty, step := hstep }
