import Cstl.Base.Driver
import Cstl.Heap.Model
/-
Driver for the heap area; same line protocol as harness/heap.c.

ops      push <key> <id> | pop | get | size | clear | dump | fls <x>
         bulk <n> <nprio> <seed>   (empty heap only) n pushes with LCG priorities,
         then n pops; result `ok ck=<checksum of the pop order>` - the loop is
         driver code composing the model's `push`/`pop`
output   <result> | n=<size> c=<0|1> [<slot>:<id>:<key>,…]
         (breadth-first from the root; `c` = the slots are exactly 1…size;
          more than 64 nodes: `#<digest>` of the same list instead, except
          after `dump`)
-/
open Cstl Cstl.Heap

def digestP : Nat := 2147483647

def digest (xs : List (Nat × Elem)) : Nat :=
  xs.foldl (fun h (p : Nat × Elem) =>
    (h * 1000003 + (p.1 % digestP) * 8191 + (p.2.id % digestP) * 131
      + (p.2.key + 2147483648).toNat % digestP) % digestP) 7

def isComplete (xs : List (Nat × Elem)) (n : Nat) : Bool :=
  xs.length == n && (xs.map (·.1)) == (List.range n).map (· + 1)

def showNodes (xs : List (Nat × Elem)) : String :=
  "[" ++ ",".intercalate (xs.map fun p => s!"{p.1}:{p.2.id}:{p.2.key}") ++ "]"

def dumpHeap (h : Heap) (full : Bool) : String :=
  let xs := levelOrder h.t
  let c := if isComplete xs h.size then "1" else "0"
  let body := if full || xs.length ≤ 64 then showNodes xs else s!"#{digest xs}"
  s!"n={h.size} c={c} {body}"

def showElem : Option Elem → String
  | none => "0"
  | some e => s!"{e.id}:{e.key}"

def lcg (x : Nat) : Nat := (x * 1103515245 + 12345) % 2147483648

/-- `fuel` pushes of elements 10001+i with LCG priorities below `nprio` -/
def bulkPush : Nat → Nat → Nat → Nat → Heap → Option Heap
  | 0, _, _, _, h => some h
  | k + 1, i, nprio, x, h =>
    let x' := lcg x
    match push h { key := Int.ofNat ((x' / 256) % nprio), id := 10001 + i } with
    | none => none
    | some h' => bulkPush k (i + 1) nprio x' h'

/-- `fuel` pops; checksum of the order in which the elements come out -/
def bulkPop : Nat → Heap → Nat → Option (Heap × Nat)
  | 0, h, ck => some (h, ck)
  | k + 1, h, ck =>
    match pop h with
    | none => none
    | some (_, none) => none
    | some (h', some e) => bulkPop k h' ((ck * 1000003 + (e.id - 10000) % digestP) % digestP)

def hstep1 (h : Heap) (ws : List String) : Heap × String :=
  let bad := (h, "STOP bad-op")
  let fin (h' : Heap) (r : String) (full : Bool := false) : Heap × String :=
    (h', r ++ " | " ++ dumpHeap h' full)
  match ws with
  | ["push", k, i] =>
    match parseInt? k, i.toNat? with
    | some k, some i =>
      if i = 0 then bad else
      match push h { key := k, id := i } with
      | none => (h, "STOP segv")
      | some h' => fin h' "ok"
    | _, _ => bad
  | ["pop"] =>
    match pop h with
    | none => (h, "STOP segv")
    | some (h', r) => fin h' (showElem r)
  | ["get"] => fin h (showElem (get h))
  | ["size"] => fin h (toString (size h))
  | ["clear"] =>
    let (h', cbs) := clear h
    fin h' (showList (cbs.map (·.id)) ++ " p=1")
  | ["dump"] => fin h "ok" true
  | ["bulk", n, np, sd] =>
    match n.toNat?, np.toNat?, parseNat? sd with
    | some n, some np, some sd =>
      if h.size ≠ 0 || h.t ≠ Tree.nil || n > 4000000 || np = 0 || np > 1000000 then bad else
      match bulkPush n 0 np (sd % 2147483648) h with
      | none => (h, "STOP segv")
      | some h1 =>
        match bulkPop n h1 7 with
        | none => (h, "STOP segv")
        | some (h2, ck) => fin h2 s!"ok ck={ck}"
    | _, _, _ => bad
  | ["fls", x] =>
    match parseNat? x with
    | some x => if x < 2 ^ 64 then fin h (toString (fls x)) else bad
    | none => bad
  | _ => bad

/-- the heap and its swap partner (`cstl_heap_swap`: the two objects trade places) -/
def hstep (s : Heap × Heap) (ws : List String) : (Heap × Heap) × String :=
  match ws with
  | ["swap"] => ((s.2, s.1), "ok | " ++ dumpHeap s.2 false)
  -- `alt`: the harness addresses the other OBJECT from now on (no library call); in the model the
  -- two heaps are values, so this is the same exchange of the pair
  | ["alt"] => ((s.2, s.1), "ok | " ++ dumpHeap s.2 false)
  | _ =>
    let r := hstep1 s.1 ws
    ((r.1, s.2), r.2)

def main : IO Unit := runArea { init := (Heap.empty, Heap.empty), step := hstep }
