import Cstl.Heap.Props
/-
C07, the swap part: histories over TWO heaps with `cstl_heap_swap`.

`cstl_heap_swap` is `cstl_bintree_swap` on the embedded tree objects (the two
headers trade places, TreeL.Tie3.swap_tie); at the level of the functional
model a heap is a value, so a swap is the exchange of the pair.  The harness
does exactly this (`swap`, and `alt` = address the other object) and the
drivers apply the same exchange.

`pair_run_inv`: after every history of push / pop / clear on the heap currently
addressed, interleaved with swaps, BOTH heaps satisfy the invariant (heap order
and completeness), no operation dereferences NULL; `pair_run_max`: in that
state the heap addressed answers get/pop as C07 demands.
-/
namespace Cstl.Heap
open Tree

/-- an operation of a two-heap history -/
inductive POp where
  | on (op : Op)
  /-- `cstl_heap_swap`: the two objects trade contents -/
  | swap

def pairRunFrom : Heap × Heap → List POp → Option (Heap × Heap)
  | s, [] => some s
  | s, .swap :: ops => pairRunFrom (s.2, s.1) ops
  | s, .on op :: ops => (step s.1 op).bind (fun h' => pairRunFrom (h', s.2) ops)

def pairRun (ops : List POp) : Option (Heap × Heap) := pairRunFrom (empty, empty) ops

theorem pairRunFrom_inv : ∀ (ops : List POp) (s : Heap × Heap), Inv s.1 → Inv s.2 →
    s.1.size + ops.length < 2 ^ 64 → s.2.size + ops.length < 2 ^ 64 →
    ∃ s', pairRunFrom s ops = some s' ∧ Inv s'.1 ∧ Inv s'.2 ∧
      s'.1.size ≤ max s.1.size s.2.size + ops.length ∧ s'.2.size ≤ max s.1.size s.2.size + ops.length := by
  intro ops
  induction ops with
  | nil =>
    intro s h1 h2 _ _
    exact ⟨s, rfl, h1, h2, by simp; omega, by simp; omega⟩
  | cons pop ops ih =>
    intro s h1 h2 l1 l2
    simp only [List.length_cons] at l1 l2
    cases pop with
    | swap =>
      obtain ⟨s', hr, i1, i2, b1, b2⟩ := ih (s.2, s.1) h2 h1 (by simpa using (by omega : s.2.size + ops.length < 2 ^ 64))
        (by simpa using (by omega : s.1.size + ops.length < 2 ^ 64))
      refine ⟨s', by simpa [pairRunFrom] using hr, i1, i2, ?_, ?_⟩
      · simp only [List.length_cons]
        have : max s.2.size s.1.size = max s.1.size s.2.size := Nat.max_comm _ _
        simp only at b1
        omega
      · simp only [List.length_cons]
        have : max s.2.size s.1.size = max s.1.size s.2.size := Nat.max_comm _ _
        simp only at b2
        omega
    | on op =>
      obtain ⟨h', hs, hi', hle⟩ := step_inv op h1 (by omega)
      obtain ⟨s', hr, i1, i2, b1, b2⟩ := ih (h', s.2) hi' h2 (by simpa using (by omega : h'.size + ops.length < 2 ^ 64))
        (by simpa using (by omega : s.2.size + ops.length < 2 ^ 64))
      refine ⟨s', by simp [pairRunFrom, hs, hr], i1, i2, ?_, ?_⟩
      · simp only [List.length_cons]
        simp only at b1
        have : max h'.size s.2.size ≤ max s.1.size s.2.size + 1 := by omega
        omega
      · simp only [List.length_cons]
        simp only at b2
        have : max h'.size s.2.size ≤ max s.1.size s.2.size + 1 := by omega
        omega

/-- **two heaps with swap**: every history runs without a NULL dereference and leaves both heaps
ordered and complete -/
theorem pair_run_inv (ops : List POp) (hlt : ops.length < 2 ^ 64) :
    ∃ s, pairRun ops = some s ∧ Inv s.1 ∧ Inv s.2 ∧ s.1.size ≤ ops.length ∧ s.2.size ≤ ops.length := by
  obtain ⟨s, hr, i1, i2, b1, b2⟩ := pairRunFrom_inv ops (empty, empty) inv_empty inv_empty
    (by simpa [empty] using hlt) (by simpa [empty] using hlt)
  refine ⟨s, hr, i1, i2, ?_, ?_⟩
  · simpa [empty] using b1
  · simpa [empty] using b2

/-- in the state such a history reaches, the heap addressed yields a maximum (C07) -/
theorem pair_run_max (ops : List POp) (hlt : ops.length < 2 ^ 64) :
    ∃ s, pairRun ops = some s ∧ size s.1 = (elems s.1.t).length ∧
      ((elems s.1.t = [] → get s.1 = none ∧ pop s.1 = some (s.1, none)) ∧
       (elems s.1.t ≠ [] → ∃ h' x, pop s.1 = some (h', some x) ∧ get s.1 = some x ∧ x ∈ elems s.1.t ∧
          (∀ y ∈ elems s.1.t, y.key ≤ x.key) ∧ (elems s.1.t).Perm (x :: elems h'.t) ∧
          size h' = size s.1 - 1 ∧ Inv h')) := by
  obtain ⟨s, hr, i1, _, b1, _⟩ := pair_run_inv ops hlt
  have hsz := size_eq i1 (by omega)
  refine ⟨s, hr, hsz, ?_, ?_⟩
  · intro he
    apply empty_null i1
    rw [he] at hsz
    exact hsz
  · intro hne
    have hpos : 0 < s.1.size := by
      have : size s.1 = s.1.size := rfl
      rw [this] at hsz
      rw [hsz]
      exact List.length_pos_iff.2 hne
    obtain ⟨h', x, hp, hg, hi', hperm, hmax, hs⟩ := pop_spec i1 (by omega) hpos
    exact ⟨h', x, hp, hg, hperm.mem_iff.2 (by simp), hmax, hperm, hs, hi'⟩

example : (pairRun [.on (Op.push ⟨1, 1⟩), .on (Op.push ⟨3, 2⟩), .swap, .on (Op.push ⟨2, 3⟩), .swap, .on Op.pop]).map
    (fun s => (get s.1, size s.1, get s.2, size s.2)) = some (some ⟨1, 1⟩, 1, some ⟨2, 3⟩, 1) := by decide +kernel

end Cstl.Heap
