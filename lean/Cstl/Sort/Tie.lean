import Cstl.Gen.SortC
import Cstl.Sort.CSem
import Cstl.Sort.Lemmas
import Cstl.Sort.Props
/-
Translator ties for the raw-array algorithms of src/array.c (property C11).

`Cstl/Gen/SortC.lean` is regenerated from the clang AST of the current src/array.c by
tools/c2lean_sort.py on every check run (tools/areas/sortmap_tie.py); the theorems below
(hand-written, fixed) state that the hand-written model of Cstl/Sort/Model.lean — the functions the
C11 theorems of Props*.lean are about — is that translation, function by function:

  partition   `scanUp_tie`, `scanDown_tie`, `partLoop_tie`, `partition_tie`   cstl_raw_array_qsort_p
  heapsort    `hsortb_first` (child selection = `pickChild`), `hsortb_next`, `siftDown_tie`
              (cstl_raw_array_hsort_b), `heapify_tie`, `extract_tie`, `hsort_tie`
  search      `searchLoop_tie`, `search_tie`; `findLoop_tie`, `find_tie`; `revLoop_tie`, `reverse_tie`
  quicksort   `qsort_step` (pivot block = `pickPivot`, incl. the median-of-three 3-sort), `qsort_tie`
  dispatch    `sort_tie`
  composed    `c_sort_sorts`, `c_sort_sorted_perm`: the TRANSLATED `cstl_raw_array_sort` returns a sorted
              permutation (C11's theorems carried across the tie); `translated_sort_example`

Form of the ties.  Where model and translation count fuel the same way the tie is an equality
(`scanUp`, `scanDown`, `searchLoop`, `findLoop`, `revLoop`, …).  Where they do not — the model's
`partLoop` spends a unit on the final `i < j` test, the C `do … while` does not; the model's
`siftDown` swaps at the bottom of an iteration, the C loop at the top of the next; the model's
`qsort` counts nesting levels with `count > 1`, the translation every call — the tie has the form
`model ≠ .error .fuel → translation = model`: whenever the model finishes (with a result OR with an
out-of-bounds / overflow stop) the translation finishes with the same outcome.  (That the model
does finish is what `qsort_terminates`, `sort_terminates`, `hsort_sorted_perm`, … prove.)

Side conditions are the ranges of the C types: `count < 2^64` (`size_t`), `count < 2^63` where an
index is doubled or converted to `ssize_t`, `count ≤ 2^31` where it is converted to `int`
(DESIGN 7, "Bounds").  `fu k c` is the fuel of loop `k` of the generated module inside a function
called with `count = c` (0 reverse, 1 search, 2 find, 3/4 the two scans, 5 the partition
do/while, 6 the hsort_b do/while, 7/8 the two loops of hsort); `fun _ c => c + 1` satisfies every
fuel hypothesis below (`*_std` corollaries).
-/
set_option linter.unusedSimpArgs false
set_option linter.unusedVariables false
namespace Cstl.Sort.Tie
open Cstl.Sort Cstl.Sort.CSem Cstl.Gen.SortC

/-! ### generic facts -/

theorem ok_bind {ε α β : Type} (a : α) (f : α → Except ε β) : (Except.ok a >>= f) = f a := rfl
theorem err_bind {ε α β : Type} (e : ε) (f : α → Except ε β) : ((Except.error e : Except ε α) >>= f) = Except.error e := rfl
theorem pure_eq {ε α : Type} (a : α) : (pure a : Except ε α) = Except.ok a := rfl
theorem map_ok {ε α β : Type} (a : α) (f : α → β) : (Except.ok a : Except ε α).map f = Except.ok (f a) := rfl
theorem map_err {ε α β : Type} (e : ε) (f : α → β) : (Except.error e : Except ε α).map f = Except.error e := rfl

theorem swapAt_inv {s : St} {lo cnt i j : Nat} {s' : St}
    (h : swapAt s lo cnt i j = .ok s') : i < cnt ∧ j < cnt := by
  unfold swapAt at h
  split at h
  · rename_i hh; omega
  · cases h

theorem cmpAt_oob_left {s : St} {lo cnt i j : Nat} (h : cnt ≤ i) : cmpAt s lo cnt i j = .error .oob := by
  unfold cmpAt
  rw [dif_neg]
  omega

/-! ### cstl_raw_array_qsort_p -/

theorem scanUp_tie (fu : Nat → Nat → Nat) (lo cnt p : Nat) (hc : cnt < 18446744073709551616) :
    ∀ (f : Nat) (s : St) (i : Nat) (a : Ptr),
      c_cstl_raw_array_qsort_p_loop1 fu lo cnt (.el p) f s i a
        = (scanUp lo cnt p f s i).map (fun r => (r.1, r.2, Ptr.el r.2)) := by
  intro f
  induction f with
  | zero => intro s i a; rfl
  | succ f ih =>
    intro s i a
    simp only [c_cstl_raw_array_qsort_p_loop1, scanUp, cmpP_el, bind, Except.bind]
    cases h : cmpAt s lo cnt i p with
    | error e => rfl
    | ok r =>
      obtain ⟨s1, c⟩ := r
      have hi := (cmpAt_inv h).1
      simp only []
      by_cases hcz : c < 0
      · simp only [hcz, if_true]
        rw [uadd_eq (by omega), ih]
      · simp only [hcz, if_false]
        rfl

theorem scanDown_tie (fu : Nat → Nat → Nat) (lo cnt p : Nat) (hc : cnt < 18446744073709551616) :
    ∀ (f : Nat) (s : St) (j : Nat) (b : Ptr), j + 2 ≤ f →
      c_cstl_raw_array_qsort_p_loop2 fu lo cnt (.el p) f s j b
        = (scanDown lo cnt p f s j).map (fun r => (r.1, r.2, Ptr.el r.2)) := by
  intro f
  induction f with
  | zero => intro s j b hf; omega
  | succ f ih =>
    intro s j b hf
    simp only [c_cstl_raw_array_qsort_p_loop2, scanDown, cmpP_el, bind, Except.bind]
    cases h : cmpAt s lo cnt j p with
    | error e => rfl
    | ok r =>
      obtain ⟨s1, c⟩ := r
      have hj := (cmpAt_inv h).1
      simp only []
      by_cases hcz : c > 0
      · simp only [hcz, if_true]
        by_cases hj0 : j = 0
        · subst hj0
          obtain ⟨f', rfl⟩ : ∃ f', f = f' + 1 := ⟨f - 1, by omega⟩
          simp only [if_true, c_cstl_raw_array_qsort_p_loop2, cmpP_el, bind, Except.bind]
          rw [cmpAt_oob_left (by unfold usub; omega)]
          rfl
        · simp only [hj0, if_false]
          rw [usub_eq (by omega) (by omega), ih _ _ _ (by omega)]
      · simp only [hcz, if_false]
        rfl


/-- the pivot tracking on pointers is the one on indices -/
theorem track_tie (p i j : Nat) :
    (if (Ptr.el p = Ptr.el i) then (Ptr.el j) else (if (Ptr.el p = Ptr.el j) then (Ptr.el i) else (Ptr.el p)))
      = Ptr.el (if p = i then j else if p = j then i else p) := by
  by_cases h1 : p = i
  · simp [h1]
  · by_cases h2 : p = j
    · subst h2; simp [h1]
    · simp [h1, h2]

theorem partLoop_tie (fu : Nat → Nat → Nat) (lo cnt : Nat) (hc : cnt < 18446744073709551616)
    (h3 : fu 3 cnt = cnt + 1) (h4 : fu 4 cnt = cnt + 1) :
    ∀ (f : Nat) (s : St) (p i j : Nat), partLoop lo cnt f s p i j ≠ .error .fuel →
      (if i < j then c_cstl_raw_array_qsort_p_loop3 fu lo cnt f s (.el p) i j (.el i) (.el j)
        else pure (s, Ptr.el p, i, j, Ptr.el i, Ptr.el j)) >>= (fun r => pure (r.1, r.2.2.2.1))
        = partLoop lo cnt f s p i j := by
  intro f
  induction f with
  | zero => intro s p i j hne; exact absurd rfl hne
  | succ f ih =>
    intro s p i j hne
    by_cases hij : i < j
    · simp only [hij, if_true]
      simp only [partLoop, hij, if_true] at hne ⊢
      simp only [c_cstl_raw_array_qsort_p_loop3, swapP_el, bind, Except.bind, pure, Except.pure] at hne ⊢
      have hab : Ptr.el i ≠ Ptr.el j := by intro h; injection h; omega
      simp only [hab, ne_eq, not_false_eq_true, if_true]
      cases hs : swapAt s lo cnt i j with
      | error e => rfl
      | ok s1 =>
        have hb := swapAt_inv hs
        simp only [hs] at hne ⊢
        rw [track_tie, uadd_eq (by omega), usub_eq (by omega) (by omega), h3, h4, scanUp_tie fu lo cnt _ hc]
        cases hu : scanUp lo cnt (if p = i then j else if p = j then i else p) (cnt + 1) s1 (i + 1) with
        | error e => rfl
        | ok r1 =>
          obtain ⟨s2, i2⟩ := r1
          simp only [hu, Except.map] at hne ⊢
          rw [scanDown_tie fu lo cnt _ hc _ _ _ _ (by omega)]
          cases hd : scanDown lo cnt (if p = i then j else if p = j then i else p) (cnt + 1) s2 (j - 1) with
          | error e => rfl
          | ok r2 =>
            obtain ⟨s3, j2⟩ := r2
            simp only [hd, Except.map] at hne ⊢
            have := ih s3 _ i2 j2 hne
            simp only [bind, Except.bind, pure, Except.pure] at this
            rw [← this]
    · simp only [hij, if_false, partLoop]
      rfl



theorem partition_tie (fu : Nat → Nat → Nat) (s : St) (lo cnt p : Nat) (hc : cnt < 18446744073709551616)
    (h3 : fu 3 cnt = cnt + 1) (h4 : fu 4 cnt = cnt + 1) (h5 : fu 5 cnt = cnt + 1)
    (hne : partition s lo cnt p ≠ .error .fuel) :
    c_cstl_raw_array_qsort_p fu s lo cnt (.el p) = partition s lo cnt p := by
  unfold partition at hne ⊢
  simp only [c_cstl_raw_array_qsort_p, h5]
  rw [c_cstl_raw_array_qsort_p_loop3]
  simp only [ne_eq, not_true_eq_false, if_false, h3, h4, pure_eq, ok_bind]
  by_cases hz : cnt = 0
  · subst hz
    simp only [if_true, c_cstl_raw_array_qsort_p_loop1, cmpP_el]
    rw [cmpAt_oob_left (Nat.le_refl 0)]
    rfl
  · simp only [hz, if_false] at hne ⊢
    rw [scanUp_tie fu lo cnt _ hc, usub_eq (by omega) hc]
    cases hu : scanUp lo cnt p (cnt + 1) s 0 with
    | error e => rfl
    | ok r1 =>
      obtain ⟨s2, i2⟩ := r1
      simp only [hu, map_ok, ok_bind] at hne ⊢
      rw [scanDown_tie fu lo cnt _ hc _ _ _ _ (by omega)]
      cases hd : scanDown lo cnt p (cnt + 1) s2 (cnt - 1) with
      | error e => rfl
      | ok r2 =>
        obtain ⟨s3, j2⟩ := r2
        simp only [hd, map_ok, ok_bind] at hne ⊢
        exact partLoop_tie fu lo cnt hc h3 h4 cnt s3 p i2 j2 hne

/-! ### heapsort -/

/-- first iteration of the do/while of `cstl_raw_array_hsort_b` (`c == SIZE_MAX`: nothing to swap):
child selection is the model's `pickChild` -/
theorem hsortb_first (fu : Nat → Nat → Nat) (lo cnt : Nat) (f : Nat) (s : St) (n : Nat)
    (hn : 2 * n + 2 < 18446744073709551616) :
    c_cstl_raw_array_hsort_b_loop1 fu lo cnt (f + 1) s n 18446744073709551615
      = pickChild s lo cnt n >>= fun sc =>
          if n ≠ sc.2 then c_cstl_raw_array_hsort_b_loop1 fu lo cnt f sc.1 n sc.2 else pure (sc.1, n, sc.2) := by
  rw [c_cstl_raw_array_hsort_b_loop1]
  have hl : uadd (umul 2 n) 1 = 2 * n + 1 := by unfold uadd umul; omega
  have hr : uadd (2 * n + 1) 1 = 2 * n + 1 + 1 := by unfold uadd; omega
  simp only [Nat.lt_irrefl, if_false, pure_eq, ok_bind, cmpP_el, hl, hr, pickChild]
  by_cases hlc : 2 * n + 1 < cnt
  · simp only [hlc, if_true]
    cases h1 : cmpAt s lo cnt (2 * n + 1) n with
    | error e => rfl
    | ok r1 =>
      obtain ⟨s1, x1⟩ := r1
      simp only [ok_bind, pure_eq]
      by_cases hx : x1 > 0
      · simp only [hx, decide_true, if_true]
        by_cases hrr : 2 * n + 1 + 1 < cnt
        · simp only [hrr, if_true]
          cases h2 : cmpAt s1 lo cnt (2 * n + 1 + 1) (2 * n + 1) with
          | error e => rfl
          | ok r2 =>
            obtain ⟨s2, x2⟩ := r2
            simp only [ok_bind, pure_eq]
            by_cases hx2 : x2 > 0 <;> simp [hx2]
        · simp only [hrr, if_false, ok_bind, pure_eq]
          simp
      · simp only [hx, decide_false, if_false]
        by_cases hrr : 2 * n + 1 + 1 < cnt
        · simp only [hrr, if_true]
          cases h2 : cmpAt s1 lo cnt (2 * n + 1 + 1) n with
          | error e => simp [h2, err_bind]
          | ok r2 =>
            obtain ⟨s2, x2⟩ := r2
            simp only [ok_bind, pure_eq]
            by_cases hx2 : x2 > 0 <;> simp [hx2, h2, ok_bind, pure_eq]
        · simp only [hrr, if_false, ok_bind, pure_eq]
          simp
  · have hrr : ¬ 2 * n + 1 + 1 < cnt := by omega
    simp only [hlc, hrr, if_false, ok_bind, pure_eq]
    simp

/-- a later iteration: the swap decided at the bottom of the previous one, then the same code -/
theorem hsortb_next (fu : Nat → Nat → Nat) (lo cnt : Nat) (f : Nat) (s : St) (n c : Nat) (hc : c < 18446744073709551615) :
    c_cstl_raw_array_hsort_b_loop1 fu lo cnt (f + 1) s n c
      = swapAt s lo cnt n c >>= fun s1 => c_cstl_raw_array_hsort_b_loop1 fu lo cnt (f + 1) s1 c 18446744073709551615 := by
  rw [c_cstl_raw_array_hsort_b_loop1]
  simp only [hc, if_true, swapP_el]
  cases hs : swapAt s lo cnt n c with
  | error e => rfl
  | ok s1 =>
    simp only [ok_bind, pure_eq]
    rw [c_cstl_raw_array_hsort_b_loop1]
    simp only [Nat.lt_irrefl, if_false, pure_eq, ok_bind]


theorem pickChild_le {s s' : St} {lo cnt n c : Nat} (h : pickChild s lo cnt n = .ok (s', c)) : c ≤ 2 * n + 2 := by
  unfold pickChild at h
  simp only [pure_eq] at h
  by_cases hl : 2 * n + 1 < cnt
  · simp only [hl, if_true] at h
    cases h1 : cmpAt s lo cnt (2 * n + 1) n with
    | error e => simp [h1, err_bind] at h
    | ok r1 =>
      obtain ⟨s1, x1⟩ := r1
      simp only [h1, ok_bind] at h
      by_cases hr : 2 * n + 1 + 1 < cnt
      · simp only [hr, if_true] at h
        cases h2 : cmpAt s1 lo cnt (2 * n + 1 + 1) (if x1 > 0 then 2 * n + 1 else n) with
        | error e => simp [h2, err_bind] at h
        | ok r2 =>
          obtain ⟨s2, x2⟩ := r2
          simp only [h2, ok_bind, Except.ok.injEq, Prod.mk.injEq] at h
          have := h.2
          split at this
          · omega
          · split at this <;> omega
      · simp only [hr, if_false, Except.ok.injEq, Prod.mk.injEq] at h
        have := h.2
        split at this <;> omega
  · have hr : ¬ 2 * n + 1 + 1 < cnt := by omega
    simp only [hl, hr, if_false, ok_bind, Except.ok.injEq, Prod.mk.injEq] at h
    omega

theorem siftDown_next_tie (fu : Nat → Nat → Nat) (lo cnt : Nat) (hc : cnt < 9223372036854775808) :
    ∀ (f : Nat) (s : St) (n c : Nat), c < 18446744073709551615 →
      (swapAt s lo cnt n c >>= fun s1 => siftDown lo cnt f s1 c) ≠ .error .fuel →
      (c_cstl_raw_array_hsort_b_loop1 fu lo cnt (f + 1) s n c >>= fun r => pure r.1)
        = (swapAt s lo cnt n c >>= fun s1 => siftDown lo cnt f s1 c) := by
  intro f
  induction f with
  | zero =>
    intro s n c hcm hne
    rw [hsortb_next fu lo cnt 0 s n c hcm]
    cases hs : swapAt s lo cnt n c with
    | error e => rfl
    | ok s1 => simp [hs, ok_bind, siftDown] at hne
  | succ f ih =>
    intro s n c hcm hne
    rw [hsortb_next fu lo cnt _ s n c hcm]
    cases hs : swapAt s lo cnt n c with
    | error e => rfl
    | ok s1 =>
      have hb := swapAt_inv hs
      simp only [hs, ok_bind] at hne ⊢
      rw [hsortb_first fu lo cnt _ s1 c (by omega)]
      rw [siftDown] at hne ⊢
      cases hp : pickChild s1 lo cnt c with
      | error e => rfl
      | ok r =>
        obtain ⟨s2, c'⟩ := r
        have hle := pickChild_le hp
        simp only [hp, ok_bind] at hne ⊢
        by_cases hcc : c ≠ c'
        · simp only [hcc, ne_eq, not_false_eq_true, if_true] at hne ⊢
          exact ih s2 c c' (by omega) hne
        · simp only [hcc, if_false, pure_eq, ok_bind] at hne ⊢

/-- `cstl_raw_array_hsort_b` is the model's `siftDown` (run on one unit of fuel more: the C loop
performs the swap decided in iteration k at the top of iteration k+1) -/
theorem siftDown_tie (fu : Nat → Nat → Nat) (lo cnt : Nat) (hc : cnt < 9223372036854775808)
    (f : Nat) (s : St) (n : Nat) (h6 : fu 6 cnt = f + 1) (hn : 2 * n + 2 < 18446744073709551616)
    (hne : siftDown lo cnt f s n ≠ .error .fuel) :
    c_cstl_raw_array_hsort_b fu s lo cnt n = siftDown lo cnt f s n := by
  simp only [c_cstl_raw_array_hsort_b, h6]
  cases f with
  | zero => exact absurd rfl hne
  | succ f =>
    rw [hsortb_first fu lo cnt _ s n hn]
    rw [siftDown] at hne ⊢
    cases hp : pickChild s lo cnt n with
    | error e => rfl
    | ok r =>
      obtain ⟨s2, c'⟩ := r
      have hle := pickChild_le hp
      simp only [hp, ok_bind] at hne ⊢
      by_cases hcc : n ≠ c'
      · simp only [hcc, ne_eq, not_false_eq_true, if_true] at hne ⊢
        exact siftDown_next_tie fu lo cnt hc f s2 n c' (by omega) hne
      · simp only [hcc, if_false, pure_eq, ok_bind] at hne ⊢


theorem bind_ne_fuel {α β : Type} {x : R α} {f : α → R β} (h : (x >>= f) ≠ .error .fuel) : x ≠ .error .fuel := by
  intro hx; rw [hx] at h; exact h rfl

/-- the first `for` of `cstl_raw_array_hsort` from index `k - 1` down is the model's `heapify … k` -/
theorem heapify_tie (fu : Nat → Nat → Nat) (lo cnt : Nat) (hc : cnt < 9223372036854775808)
    (h6 : fu 6 cnt = cnt + 1) :
    ∀ (k : Nat) (F : Nat) (s : St), k ≤ cnt → k + 1 ≤ F → heapify lo cnt k s ≠ .error .fuel →
      (c_cstl_raw_array_hsort_loop1 fu lo cnt F s ((k : Int) - 1) >>= fun r => pure r.1) = heapify lo cnt k s := by
  intro k
  induction k with
  | zero =>
    intro F s hk hF hne
    obtain ⟨F', rfl⟩ : ∃ F', F = F' + 1 := ⟨F - 1, by omega⟩
    rw [c_cstl_raw_array_hsort_loop1]
    simp [heapify, pure_eq, ok_bind]
  | succ k ih =>
    intro F s hk hF hne
    obtain ⟨F', rfl⟩ : ∃ F', F = F' + 1 := ⟨F - 1, by omega⟩
    rw [c_cstl_raw_array_hsort_loop1]
    have e1 : ((k + 1 : Nat) : Int) - 1 = (k : Int) := by omega
    have e2 : (k : Int) ≥ 0 := by omega
    rw [heapify] at hne ⊢
    simp only [e1, e2, if_true, castU64_natCast]
    have hs := bind_ne_fuel hne
    rw [siftDown_tie fu lo cnt hc cnt s k h6 (by omega) hs]
    cases hd : siftDown lo cnt cnt s k with
    | error e => rfl
    | ok s1 =>
      simp only [hd, ok_bind] at hne ⊢
      rw [i64_ok (by omega)]
      simp only [ok_bind]
      exact ih F' s1 (by omega) (by omega) hne

/-- the second `for` of `cstl_raw_array_hsort` from index `k` down is the model's `extract … k` -/
theorem extract_tie (fu : Nat → Nat → Nat) (lo cnt : Nat) (hc : cnt < 9223372036854775808)
    (h6 : ∀ c, fu 6 c = c + 1) :
    ∀ (k : Nat) (F : Nat) (s : St), k + 1 ≤ F → extract lo cnt k s ≠ .error .fuel →
      (c_cstl_raw_array_hsort_loop2 fu lo cnt F s (k : Int) >>= fun r => pure r.1) = extract lo cnt k s := by
  intro k
  induction k with
  | zero =>
    intro F s hF hne
    obtain ⟨F', rfl⟩ : ∃ F', F = F' + 1 := ⟨F - 1, by omega⟩
    rw [c_cstl_raw_array_hsort_loop2]
    simp [extract, pure_eq, ok_bind]
  | succ k ih =>
    intro F s hF hne
    obtain ⟨F', rfl⟩ : ∃ F', F = F' + 1 := ⟨F - 1, by omega⟩
    rw [c_cstl_raw_array_hsort_loop2]
    have e1 : ((k + 1 : Nat) : Int) - 1 = (k : Int) := by omega
    have e2 : ((k + 1 : Nat) : Int) > 0 := by omega
    rw [extract] at hne ⊢
    simp only [e2, if_true, castU64_natCast, swapP_el]
    cases hs : swapAt s lo cnt 0 (k + 1) with
    | error e => rfl
    | ok s1 =>
      have hb := swapAt_inv hs
      simp only [hs, ok_bind] at hne ⊢
      have hsd := bind_ne_fuel hne
      rw [siftDown_tie fu lo (k + 1) (by omega) (k + 1) s1 0 (h6 (k + 1)) (by omega) hsd]
      cases hd : siftDown lo (k + 1) (k + 1) s1 0 with
      | error e => rfl
      | ok s2 =>
        simp only [hd, ok_bind] at hne ⊢
        rw [e1, i64_ok (by omega)]
        simp only [ok_bind]
        exact ih F' s2 (by omega) hne

/-- `cstl_raw_array_hsort` is the model's `hsort` -/
theorem hsort_tie (fu : Nat → Nat → Nat) (s : St) (lo cnt : Nat) (hc : cnt < 9223372036854775808)
    (h6 : ∀ c, fu 6 c = c + 1) (h7 : cnt / 2 + 1 ≤ fu 7 cnt) (h8 : cnt ≤ fu 8 cnt)
    (hne : hsort s lo cnt ≠ .error .fuel) :
    c_cstl_raw_array_hsort fu s lo cnt = hsort s lo cnt := by
  unfold hsort at hne ⊢
  unfold c_cstl_raw_array_hsort
  by_cases h1 : cnt > 1
  · simp only [h1, if_true] at hne ⊢
    have e1 : castI64 (usub (cnt / 2) 1) = ((cnt / 2 : Nat) : Int) - 1 := by
      rw [usub_eq (by omega) (by omega), castI64_small (by omega)]; omega
    have e2 : castI64 (usub cnt 1) = ((cnt - 1 : Nat) : Int) := by
      rw [usub_eq (by omega) (by omega), castI64_small (by omega)]
    rw [e1, e2]
    have hh := heapify_tie fu lo cnt hc (h6 cnt) (cnt / 2) (fu 7 cnt) s (by omega) h7 (bind_ne_fuel hne)
    cases hp : heapify lo cnt (cnt / 2) s with
    | error e =>
      rw [hp] at hh
      cases hl : c_cstl_raw_array_hsort_loop1 fu lo cnt (fu 7 cnt) s (((cnt / 2 : Nat) : Int) - 1) with
      | error e' => rw [hl] at hh; simp only [err_bind] at hh ⊢; rw [hh]
      | ok r => rw [hl] at hh; simp only [ok_bind, pure_eq] at hh; cases hh
    | ok s1 =>
      rw [hp] at hh
      cases hl : c_cstl_raw_array_hsort_loop1 fu lo cnt (fu 7 cnt) s (((cnt / 2 : Nat) : Int) - 1) with
      | error e' => rw [hl] at hh; simp only [err_bind] at hh; cases hh
      | ok r =>
        rw [hl] at hh
        simp only [ok_bind, pure_eq, Except.ok.injEq] at hh
        simp only [hp, ok_bind] at hne ⊢
        rw [hh]
        have he := extract_tie fu lo cnt hc h6 (cnt - 1) (fu 8 cnt) s1 (by omega) hne
        rw [← he]
  · simp only [h1, if_false, pure_eq, ok_bind]


/-! ### search / find / reverse -/

theorem cmpProbe_oob {s : St} {cnt k : Nat} (x : Elem) (h : cnt ≤ k) : cmpProbe s cnt x k = .error .oob := by
  unfold cmpProbe
  rw [dif_neg]
  omega

theorem i32_inv {v w : Int} (h : i32 v = .ok w) : w = v ∧ -2147483648 ≤ v ∧ v ≤ 2147483647 := by
  unfold i32 at h
  split at h
  · cases h; omega
  · cases h

theorem i32_ok {v : Int} (h : -2147483648 ≤ v ∧ v ≤ 2147483647) : i32 v = .ok v := by
  unfold i32; rw [if_pos h]; rfl

theorem tdiv2_bounds {v : Int} (h : -2147483648 ≤ v ∧ v ≤ 2147483647) :
    -2147483648 ≤ Int.tdiv v 2 ∧ Int.tdiv v 2 ≤ 2147483647 := by
  by_cases hv : 0 ≤ v
  · rw [Int.tdiv_eq_ediv_of_nonneg hv]; omega
  · have e : v = -(-v) := by omega
    rw [e, Int.neg_tdiv, Int.tdiv_eq_ediv_of_nonneg (by omega)]; omega

/-- the `for` of `cstl_raw_array_search` is the model's `searchLoop` (a negative middle index,
converted to `size_t`, is far outside the array: the model's `idx` stop) -/
theorem searchLoop_tie (fu : Nat → Nat → Nat) (cnt : Nat) (x : Elem) (hc : cnt < 9223372036854775808) :
    ∀ (f : Nat) (s : St) (i j : Int),
      c_cstl_raw_array_search_loop1 fu 0 cnt x f s i j = searchLoop cnt x f s i j := by
  intro f
  induction f with
  | zero => intro s i j; rfl
  | succ f ih =>
    intro s i j
    rw [c_cstl_raw_array_search_loop1, searchLoop]
    by_cases hij : i ≤ j
    · simp only [hij, if_true, cmpProbeP_el, cmpProbeL_zero]
      cases h1 : i32 (i + j) with
      | error e => rfl
      | ok sum =>
        have hb := i32_inv h1
        simp only [ok_bind]
        have hdiv := tdiv2_bounds (v := sum) (by omega)
        by_cases hn : Int.tdiv sum 2 < 0
        · have e : idx (Int.tdiv sum 2) = .error .oob := by simp [idx, hn]
          rw [e, cmpProbe_oob x (by unfold castU64; simp only [Int.not_le.mpr hn, if_false]; omega)]
          rfl
        · have e : idx (Int.tdiv sum 2) = .ok (Int.tdiv sum 2).toNat := by simp [idx, hn]; rfl
          rw [e, castU64_nonneg (by omega)]
          simp only [ok_bind]
          cases h2 : cmpProbe s cnt x (Int.tdiv sum 2).toNat with
          | error e => rfl
          | ok r =>
            obtain ⟨s1, eq⟩ := r
            simp only [ok_bind]
            by_cases h0 : eq = 0
            · simp only [h0, if_true, pure_eq]
            · simp only [h0, if_false]
              by_cases hlt : eq < 0
              · simp only [hlt, if_true]
                cases h3 : i32 (Int.tdiv sum 2 - 1) with
                | error e => rfl
                | ok v => simp only [ok_bind, pure_eq, ih]
              · simp only [hlt, if_false]
                cases h3 : i32 (Int.tdiv sum 2 + 1) with
                | error e => rfl
                | ok v => simp only [ok_bind, pure_eq, ih]
    · simp only [hij, if_false, pure_eq]

/-- `cstl_raw_array_search` is the model's `search` (arrays of at most 2^31 elements: beyond that
the model stops with `ovf` where gcc's conversion to `int` wraps) -/
theorem search_tie (fu : Nat → Nat → Nat) (s : St) (x : Elem) (hc : s.arr.size ≤ 2147483648)
    (h1 : fu 1 s.arr.size = s.arr.size + 1) :
    c_cstl_raw_array_search fu s 0 s.arr.size x = search s x := by
  unfold c_cstl_raw_array_search search lastIdx
  rw [h1, searchLoop_tie fu _ x (by omega)]
  by_cases hz : s.arr.size = 0
  · rw [hz]
    simp only [if_true, pure_eq, ok_bind]
    have : castI32 (usub 0 1) = -1 := by decide
    rw [this]
  · simp only [hz, if_false]
    rw [i32_ok (by omega), usub_eq (by omega) (by omega), castI32_small (by omega)]
    simp only [ok_bind]
    congr 1
    omega

theorem findLoop_tie (fu : Nat → Nat → Nat) (cnt : Nat) (x : Elem) (hc : cnt < 9223372036854775808) :
    ∀ (f : Nat) (s : St) (i : Nat),
      c_cstl_raw_array_find_loop1 fu 0 cnt x f s i = findLoop cnt x f s i := by
  intro f
  induction f with
  | zero => intro s i; rfl
  | succ f ih =>
    intro s i
    rw [c_cstl_raw_array_find_loop1, findLoop]
    by_cases hi : i < cnt
    · simp only [hi, if_true, cmpProbeP_el, cmpProbeL_zero]
      cases h2 : cmpProbe s cnt x i with
      | error e => rfl
      | ok r =>
        obtain ⟨s1, eq⟩ := r
        simp only [ok_bind]
        by_cases h0 : eq = 0
        · simp only [h0, if_true, pure_eq, castI64_small (show i < 9223372036854775808 by omega)]
        · simp only [h0, if_false]
          rw [uadd_eq (by omega), ih]
    · simp only [hi, if_false, pure_eq]

/-- `cstl_raw_array_find` is the model's `find` -/
theorem find_tie (fu : Nat → Nat → Nat) (s : St) (x : Elem) (hc : s.arr.size < 9223372036854775808)
    (h2 : fu 2 s.arr.size = s.arr.size + 1) :
    c_cstl_raw_array_find fu s 0 s.arr.size x = find s x := by
  unfold c_cstl_raw_array_find find
  rw [h2, findLoop_tie fu _ x hc]

theorem revLoop_tie (fu : Nat → Nat → Nat) (cnt : Nat) :
    ∀ (f : Nat) (s : St) (i j : Int), 0 ≤ i →
      (c_cstl_raw_array_reverse_loop1 fu 0 cnt f s i j >>= fun r => pure r.1) = revLoop cnt f s i j := by
  intro f
  induction f with
  | zero => intro s i j hi; rfl
  | succ f ih =>
    intro s i j hi
    rw [c_cstl_raw_array_reverse_loop1, revLoop]
    by_cases hij : i < j
    · simp only [hij, if_true, swapP_el]
      have e1 : idx i = .ok i.toNat := by simp [idx, Int.not_lt.mpr hi]; rfl
      have e2 : idx j = .ok j.toNat := by simp [idx, Int.not_lt.mpr (show 0 ≤ j by omega)]; rfl
      rw [e1, e2, castU64_nonneg hi, castU64_nonneg (by omega)]
      simp only [ok_bind]
      cases hs : swapAt s 0 cnt i.toNat j.toNat with
      | error e => rfl
      | ok s1 =>
        simp only [ok_bind]
        cases h3 : i32 (i + 1) with
        | error e => rfl
        | ok v =>
          have hv := i32_inv h3
          simp only [ok_bind]
          cases h4 : i32 (j - 1) with
          | error e => rfl
          | ok w =>
            simp only [ok_bind]
            exact ih s1 v w (by omega)
    · simp only [hij, if_false, pure_eq, ok_bind]

/-- `cstl_raw_array_reverse` is the model's `reverse` (arrays of at most 2^31 elements) -/
theorem reverse_tie (fu : Nat → Nat → Nat) (s : St) (hc : s.arr.size ≤ 2147483648)
    (h0 : fu 0 s.arr.size = s.arr.size + 1) :
    c_cstl_raw_array_reverse fu s 0 s.arr.size = reverse s := by
  unfold c_cstl_raw_array_reverse reverse lastIdx
  rw [h0]
  by_cases hz : s.arr.size = 0
  · rw [hz]
    simp only [if_true, pure_eq, ok_bind]
    have : castI32 (usub 0 1) = -1 := by decide
    rw [this]
    exact revLoop_tie fu 0 _ s 0 (-1) (by omega)
  · simp only [hz, if_false]
    rw [i32_ok (by omega), usub_eq (by omega) (by omega), castI32_small (by omega)]
    simp only [ok_bind]
    have e : ((s.arr.size - 1 : Nat) : Int) = (s.arr.size : Int) - 1 := by omega
    rw [e]
    exact revLoop_tie fu _ _ s 0 _ (by omega)


/-! ### quicksort: pivot choice, recursion -/

theorem scanDown_lt (lo cnt p : Nat) : ∀ (f : Nat) (s : St) (j : Nat) (s' : St) (j' : Nat),
    scanDown lo cnt p f s j = .ok (s', j') → j' < cnt := by
  intro f
  induction f with
  | zero => intro s j s' j' h; cases h
  | succ f ih =>
    intro s j s' j' h
    rw [scanDown] at h
    cases h1 : cmpAt s lo cnt j p with
    | error e => rw [h1] at h; cases h
    | ok r =>
      obtain ⟨s1, c⟩ := r
      have hj := (cmpAt_inv h1).1
      simp only [h1, ok_bind] at h
      by_cases hc : c > 0
      · simp only [hc, if_true] at h
        by_cases hj0 : j = 0
        · simp only [hj0, if_true] at h; cases h
        · simp only [hj0, if_false] at h
          exact ih _ _ _ _ h
      · simp only [hc, if_false, pure_eq, Except.ok.injEq, Prod.mk.injEq] at h
        omega

theorem partLoop_lt (lo cnt : Nat) : ∀ (f : Nat) (s : St) (p i j : Nat) (s' : St) (m : Nat),
    partLoop lo cnt f s p i j = .ok (s', m) → j < cnt → m < cnt := by
  intro f
  induction f with
  | zero => intro s p i j s' m h; cases h
  | succ f ih =>
    intro s p i j s' m h hj
    rw [partLoop] at h
    by_cases hij : i < j
    · simp only [hij, if_true] at h
      cases hs : swapAt s lo cnt i j with
      | error e => rw [hs] at h; cases h
      | ok s1 =>
        simp only [hs, ok_bind] at h
        cases hu : scanUp lo cnt (if p = i then j else if p = j then i else p) (cnt + 1) s1 (i + 1) with
        | error e => rw [hu] at h; cases h
        | ok r1 =>
          obtain ⟨s2, i2⟩ := r1
          simp only [hu, ok_bind] at h
          cases hd : scanDown lo cnt (if p = i then j else if p = j then i else p) (cnt + 1) s2 (j - 1) with
          | error e => rw [hd] at h; cases h
          | ok r2 =>
            obtain ⟨s3, j2⟩ := r2
            simp only [hd, ok_bind] at h
            exact ih _ _ _ _ _ _ h (scanDown_lt lo cnt _ _ _ _ _ _ hd)
    · simp only [hij, if_false, pure_eq, Except.ok.injEq, Prod.mk.injEq] at h
      omega

theorem partition_lt {s s' : St} {lo cnt p m : Nat} (h : partition s lo cnt p = .ok (s', m)) : m < cnt := by
  unfold partition at h
  by_cases hz : cnt = 0
  · simp only [hz, if_true] at h; cases h
  · simp only [hz, if_false] at h
    cases hu : scanUp lo cnt p (cnt + 1) s 0 with
    | error e => rw [hu] at h; cases h
    | ok r1 =>
      obtain ⟨s2, i2⟩ := r1
      simp only [hu, ok_bind] at h
      cases hd : scanDown lo cnt p (cnt + 1) s2 (cnt - 1) with
      | error e => rw [hd] at h; cases h
      | ok r2 =>
        obtain ⟨s3, j2⟩ := r2
        simp only [hd, ok_bind] at h
        exact partLoop_lt lo cnt _ _ _ _ _ _ _ h (scanDown_lt lo cnt _ _ _ _ _ _ hd)

/-- one call of `cstl_raw_array_qsort`: the pivot block (draw, in-place 3-sort of first / middle /
last, or position 0) is the model's `pickPivot` -/
theorem qsort_step (fu : Nat → Nat → Nat) (rf : Nat) (s : St) (lo cnt algo : Nat) (hc : cnt < 18446744073709551616) :
    c_cstl_raw_array_qsort fu (rf + 1) s lo cnt algo =
      if cnt > 1 then
        pickPivot algo s lo cnt >>= fun sp =>
          if algo ≠ 2 ∨ cnt > 3 then
            c_cstl_raw_array_qsort_p fu sp.1 lo cnt (.el sp.2) >>= fun sm =>
              c_cstl_raw_array_qsort fu rf sm.1 lo (uadd sm.2 1) algo >>= fun s1 =>
                c_cstl_raw_array_qsort fu rf s1 (lo + uadd sm.2 1) (usub (usub cnt sm.2) 1) algo
          else pure sp.1
      else pure s := by
  rw [c_cstl_raw_array_qsort]
  by_cases h1 : cnt > 1
  · simp only [h1, if_true, pickPivot]
    have hs : usub cnt 1 = cnt - 1 := usub_eq (by omega) hc
    by_cases ha1 : algo = 1
    · subst ha1
      simp only [if_true, castU64_ofNat, pure_eq, ok_bind, show ((1 : Nat) ≠ 2) from by decide, ne_eq, not_false_eq_true, true_or]
    · simp only [ha1, if_false]
      by_cases ha2 : algo = 2
      · subst ha2
        simp only [if_true, cmpP_el, swapP_el, hs, med3, condSwap, pure_eq, ok_bind, ne_eq, not_true_eq_false, false_or]
        simp only [bind_assoc, ok_bind]
      · simp only [ha2, if_false, pure_eq, ok_bind, ne_eq, not_false_eq_true, true_or, if_true]
  · simp only [h1, if_false, pure_eq, ok_bind]


/-- `cstl_raw_array_qsort` (C recursion = recursion on a call-depth budget) is the model's `qsort`
whenever the model finishes (result or out-of-bounds stop): the model's fuel `f` counts nesting
levels with `count > 1`, the translation's budget every call, so `f + 1` calls suffice -/
theorem qsort_tie (fu : Nat → Nat → Nat) (algo : Nat)
    (h3 : ∀ c, fu 3 c = c + 1) (h4 : ∀ c, fu 4 c = c + 1) (h5 : ∀ c, fu 5 c = c + 1) :
    ∀ (f : Nat) (s : St) (lo cnt : Nat), cnt < 18446744073709551616 →
      qsort algo f s lo cnt ≠ .error .fuel →
      ∀ rf, f + 1 ≤ rf → c_cstl_raw_array_qsort fu rf s lo cnt algo = qsort algo f s lo cnt := by
  intro f
  induction f with
  | zero =>
    intro s lo cnt hc hne rf hrf
    obtain ⟨rf', rfl⟩ : ∃ rf', rf = rf' + 1 := ⟨rf - 1, by omega⟩
    rw [qsort_step fu rf' s lo cnt algo hc]
    rw [qsort] at hne ⊢
    by_cases h1 : cnt > 1
    · simp only [h1, if_true] at hne; exact absurd rfl hne
    · simp only [h1, if_false]
  | succ f ih =>
    intro s lo cnt hc hne rf hrf
    obtain ⟨rf', rfl⟩ : ∃ rf', rf = rf' + 1 := ⟨rf - 1, by omega⟩
    rw [qsort_step fu rf' s lo cnt algo hc]
    rw [qsort] at hne ⊢
    by_cases h1 : cnt > 1
    · simp only [h1, if_true] at hne ⊢
      cases hp : pickPivot algo s lo cnt with
      | error e => rfl
      | ok sp =>
        obtain ⟨s1, p⟩ := sp
        simp only [hp, ok_bind] at hne ⊢
        by_cases hcond : algo ≠ 2 ∨ cnt > 3
        · simp only [hcond, if_true] at hne ⊢
          rw [partition_tie fu s1 lo cnt p hc (h3 cnt) (h4 cnt) (h5 cnt) (bind_ne_fuel hne)]
          cases hpt : partition s1 lo cnt p with
          | error e => rfl
          | ok sm =>
            obtain ⟨s2, m⟩ := sm
            have hm := partition_lt hpt
            simp only [hpt, ok_bind] at hne ⊢
            rw [uadd_eq (by omega), usub_eq (by omega) hc, usub_eq (by omega) (by omega), ← Nat.add_assoc]
            rw [ih s2 lo (m + 1) (by omega) (bind_ne_fuel hne) rf' (by omega)]
            cases hq : qsort algo f s2 lo (m + 1) with
            | error e => rfl
            | ok s3 =>
              simp only [hq, ok_bind] at hne ⊢
              exact ih s3 (lo + m + 1) (cnt - m - 1) (by omega) hne rf' (by omega)
        · simp only [hcond, if_false, pure_eq]
    · simp only [h1, if_false]

/-- `cstl_raw_array_sort`: the selector dispatch (`default:` = one more call with
`CSTL_SORT_ALGORITHM_DEFAULT`) is the model's `sort` -/
theorem sort_tie (fu : Nat → Nat → Nat) (f : Nat) (s : St) (algo : Nat) (hc : s.arr.size < 9223372036854775808)
    (h3 : ∀ c, fu 3 c = c + 1) (h4 : ∀ c, fu 4 c = c + 1) (h5 : ∀ c, fu 5 c = c + 1)
    (h6 : ∀ c, fu 6 c = c + 1) (h7 : s.arr.size / 2 + 1 ≤ fu 7 s.arr.size) (h8 : s.arr.size ≤ fu 8 s.arr.size)
    (hne : sort f s algo ≠ .error .fuel) (rf : Nat) (hrf : f + 3 ≤ rf) :
    c_cstl_raw_array_sort fu rf s 0 s.arr.size algo = sort f s algo := by
  obtain ⟨rf', rfl⟩ : ∃ rf', rf = rf' + 1 := ⟨rf - 1, by omega⟩
  unfold sort effAlgo at hne ⊢
  rw [c_cstl_raw_array_sort]
  by_cases ha : algo = 0 ∨ algo = 1 ∨ algo = 2
  · have hle : algo ≤ 3 := by omega
    have hn3 : ¬ algo = 3 := by omega
    simp only [ha, hle, hn3, if_true, if_false] at hne ⊢
    rw [qsort_tie fu algo h3 h4 h5 f s 0 _ (by omega) hne rf' (by omega)]
  · simp only [ha, if_false]
    by_cases h3' : algo = 3
    · subst h3'
      simp only [if_true, Nat.le_refl] at hne ⊢
      rw [hsort_tie fu s 0 _ hc h6 h7 h8 hne]
    · have hgt : ¬ algo ≤ 3 := by omega
      simp only [h3', hgt, if_false, show ¬ ((2 : Nat) = 3) from by decide] at hne ⊢
      obtain ⟨rf'', rfl⟩ : ∃ rf'', rf' = rf'' + 1 := ⟨rf' - 1, by omega⟩
      rw [c_cstl_raw_array_sort]
      simp only [true_or, or_true, if_true]
      rw [qsort_tie fu 2 h3 h4 h5 f s 0 _ (by omega) hne rf'' (by omega)]


/-! ### the ties with the standard fuel `fun _ c => c + 1` (no fuel hypotheses left) -/

def fuStd : Nat → Nat → Nat := fun _ c => c + 1

theorem partition_tie_std (s : St) (lo cnt p : Nat) (hc : cnt < 18446744073709551616)
    (hne : partition s lo cnt p ≠ .error .fuel) :
    c_cstl_raw_array_qsort_p fuStd s lo cnt (.el p) = partition s lo cnt p :=
  partition_tie fuStd s lo cnt p hc rfl rfl rfl hne

theorem siftDown_tie_std (lo cnt : Nat) (hc : cnt < 9223372036854775808) (s : St) (n : Nat)
    (hn : 2 * n + 2 < 18446744073709551616) (hne : siftDown lo cnt cnt s n ≠ .error .fuel) :
    c_cstl_raw_array_hsort_b fuStd s lo cnt n = siftDown lo cnt cnt s n :=
  siftDown_tie fuStd lo cnt hc cnt s n rfl hn hne

theorem hsort_tie_std (s : St) (lo cnt : Nat) (hc : cnt < 9223372036854775808) (hne : hsort s lo cnt ≠ .error .fuel) :
    c_cstl_raw_array_hsort fuStd s lo cnt = hsort s lo cnt :=
  hsort_tie fuStd s lo cnt hc (fun _ => rfl) (by unfold fuStd; omega) (by unfold fuStd; omega) hne

theorem search_tie_std (s : St) (x : Elem) (hc : s.arr.size ≤ 2147483648) :
    c_cstl_raw_array_search fuStd s 0 s.arr.size x = search s x := search_tie fuStd s x hc rfl

theorem find_tie_std (s : St) (x : Elem) (hc : s.arr.size < 9223372036854775808) :
    c_cstl_raw_array_find fuStd s 0 s.arr.size x = find s x := find_tie fuStd s x hc rfl

theorem reverse_tie_std (s : St) (hc : s.arr.size ≤ 2147483648) :
    c_cstl_raw_array_reverse fuStd s 0 s.arr.size = reverse s := reverse_tie fuStd s hc rfl

theorem qsort_tie_std (algo f : Nat) (s : St) (lo cnt : Nat) (hc : cnt < 18446744073709551616)
    (hne : qsort algo f s lo cnt ≠ .error .fuel) :
    c_cstl_raw_array_qsort fuStd (f + 1) s lo cnt algo = qsort algo f s lo cnt :=
  qsort_tie fuStd algo (fun _ => rfl) (fun _ => rfl) (fun _ => rfl) f s lo cnt hc hne (f + 1) (Nat.le_refl _)

theorem sort_tie_std (f : Nat) (s : St) (algo : Nat) (hc : s.arr.size < 9223372036854775808)
    (hne : sort f s algo ≠ .error .fuel) :
    c_cstl_raw_array_sort fuStd (f + 3) s 0 s.arr.size algo = sort f s algo :=
  sort_tie fuStd f s algo hc (fun _ => rfl) (fun _ => rfl) (fun _ => rfl) (fun _ => rfl)
    (by unfold fuStd; omega) (by unfold fuStd; omega) hne (f + 3) (Nat.le_refl _)

/-- **the translated C function sorts**: for the deterministic selectors (everything but the random
pivot) `cstl_raw_array_sort`, as regenerated from the source, returns a sorted permutation of every
array of fewer than 2^63 elements, never stops out of bounds, and its run (comparison / swap log
included) is the model's (`sort_terminates` discharges the "model finishes" hypothesis of the tie) -/
theorem c_sort_sorts (s : St) (algo : Nat) (halgo : algo ≠ 1) (hc : s.arr.size < 9223372036854775808) :
    ∃ s', c_cstl_raw_array_sort fuStd (s.arr.size + 3) s 0 s.arr.size algo = .ok s' ∧
      sort s.arr.size s algo = .ok s' ∧
      s'.arr.toList.Perm s.arr.toList ∧
      s'.arr.toList.Pairwise (fun x y => x.key ≤ y.key) := by
  obtain ⟨s', h, hp, hs⟩ := sort_terminates s.arr.size s algo halgo (Nat.le_refl _)
  refine ⟨s', ?_, h, hp, hs⟩
  rw [sort_tie_std s.arr.size s algo hc (by rw [h]; simp), h]

/-- with the random pivot (any selector, any draw stream, any budget): whenever the model returns,
the translated C function returns the same state — a sorted permutation (`sort_sorted_perm`) -/
theorem c_sort_sorted_perm (f : Nat) (s s' : St) (algo : Nat) (hc : s.arr.size < 9223372036854775808)
    (h : sort f s algo = .ok s') :
    c_cstl_raw_array_sort fuStd (f + 3) s 0 s.arr.size algo = .ok s' ∧
      s'.arr.toList.Perm s.arr.toList ∧ s'.arr.toList.Pairwise (fun x y => x.key ≤ y.key) := by
  refine ⟨by rw [sort_tie_std f s algo hc (by rw [h]; simp), h], ?_⟩
  rcases sort_sorted_perm f s algo with ⟨s'', h', hp, hs⟩ | h'
  · rw [h] at h'; cases h'; exact ⟨hp, hs⟩
  · rw [h] at h'; cases h'

/-- the hypotheses are satisfiable on a concrete array: the translated C function sorts `[3,1,2]`
with every selector, and the run is the model's -/
theorem translated_sort_example : ∀ algo ∈ [0, 1, 2, 3, 99],
    (c_cstl_raw_array_sort fuStd 7 { arr := #[⟨3, 0⟩, ⟨1, 1⟩, ⟨2, 2⟩] } 0 3 algo).toOption.map (·.arr.toList.map (·.key))
      = some [1, 2, 3] ∧
    (sort 4 { arr := #[⟨3, 0⟩, ⟨1, 1⟩, ⟨2, 2⟩] } algo).toOption.map (·.arr.toList.map (·.key)) = some [1, 2, 3] := by
  decide

end Cstl.Sort.Tie
