/-
Executable model of the raw-array algorithms of src/array.c
(`cstl_raw_array_sort` and its selectors, `cstl_raw_array_search`,
`cstl_raw_array_find`, `cstl_raw_array_reverse`) and of `cstl_swap`
(include/cstl/common.h).  The vector wrappers of src/vector.c pass
`(base, count, size, scratch = slot cap)` through unchanged, so they are the
same model functions.

Conventions (DESIGN 3.1 / C11):
* an element is `(key, id)`; the comparison callback compares keys; `id` is
  the rest of the element's bytes (what makes "byte-identical" observable);
* the array is an `Array Elem` whose size is the `count` handed to the C
  function, plus ONE scratch cell `scr` (the `tmp` / `t` argument);
* a C function that receives `(arr + lo*size, cnt)` is modelled on the range
  `(lo, cnt)` of the one global array; every element access goes through
  `rd`-style checks `k < cnt ∧ lo + k < size` and yields `Stop.oob` otherwise
  (never a default value);
* every loop has explicit fuel; `Stop.fuel` = "did not finish" (theorems show
  which fuel suffices); `Stop.ovf` = a value left the range of C `int`
  (`search` / `reverse` keep their indices in `int`);
* every comparison-callback and swap-callback call is appended to a log with
  the canonical (index) form of its pointer arguments, in call order;
* `rand()` is the oracle stream `rnd` (consumed front to back), then `dflt`
  forever.
-/
namespace Cstl.Sort

structure Elem where
  key : Int
  id : Nat
deriving Repr, DecidableEq, Inhabited

inductive Stop where
  | oob    -- an access outside [0,count) of the array handed to the function
  | fuel   -- did not finish within the fuel
  | ovf    -- a C `int` intermediate does not fit 32 bits
deriving Repr, DecidableEq, Inhabited

/-- canonical form of a pointer handed to a callback -/
inductive Loc where
  | idx (i : Nat)   -- &arr[i] (global index)
  | probe           -- the sought element `ex`
deriving Repr, DecidableEq, Inhabited

inductive Ev where
  | cmp (a b : Loc)
  | swap (a b : Nat)
deriving Repr, DecidableEq, Inhabited

/-! ### callback log (full event list for small arrays, rolling hash always) -/

def hmod : Nat := 2147483647

def mix (h v : Nat) : Nat := (h * 1000003 + v) % hmod

def Loc.code : Loc → Nat
  | .probe => 0
  | .idx i => i + 2

structure Log where
  keep : Bool := true
  evs : List Ev := []      -- newest first (only when `keep`)
  ncmp : Nat := 0
  nswap : Nat := 0
  h : Nat := 0
deriving Repr, Inhabited

def Log.cmp (l : Log) (a b : Loc) : Log :=
  { l with evs := if l.keep then Ev.cmp a b :: l.evs else l.evs,
           ncmp := l.ncmp + 1,
           h := mix (mix (mix l.h 1) a.code) b.code }

def Log.swap (l : Log) (a b : Nat) : Log :=
  { l with evs := if l.keep then Ev.swap a b :: l.evs else l.evs,
           nswap := l.nswap + 1,
           h := mix (mix (mix l.h 2) (a + 2)) (b + 2) }

/-! ### state -/

structure St where
  arr : Array Elem
  scr : Elem := ⟨0, 0⟩
  rnd : List Nat := []
  dflt : Nat := 0
  log : Log := {}
deriving Repr, Inhabited

abbrev R (α : Type) := Except Stop α

/-- result of the comparison callback: `(a > b) - (a < b)` on the keys -/
def cmpKey (x y : Elem) : Int :=
  if x.key < y.key then -1 else if x.key > y.key then 1 else 0

/-- `cmp(at(i), at(j), priv)` inside a function that was handed `(arr+lo, cnt)` -/
def cmpAt (s : St) (lo cnt i j : Nat) : R (St × Int) :=
  if h : (i < cnt ∧ lo + i < s.arr.size) ∧ (j < cnt ∧ lo + j < s.arr.size) then
    .ok ({ s with log := s.log.cmp (.idx (lo + i)) (.idx (lo + j)) },
         cmpKey (s.arr[lo + i]'h.1.2) (s.arr[lo + j]'h.2.2))
  else .error .oob

/-- `cmp(ex, at(k), priv)` -/
def cmpProbe (s : St) (cnt : Nat) (x : Elem) (k : Nat) : R (St × Int) :=
  if h : k < cnt ∧ k < s.arr.size then
    .ok ({ s with log := s.log.cmp .probe (.idx k) }, cmpKey x (s.arr[k]'h.2))
  else .error .oob

/-- `swap(at(i), at(j), t, size)` with `swap = cstl_swap`:
`*t = *a; *a = *b; *b = *t` -/
def swapAt (s : St) (lo cnt i j : Nat) : R St :=
  if h : (i < cnt ∧ lo + i < s.arr.size) ∧ (j < cnt ∧ lo + j < s.arr.size) then
    match s with
    | { arr, scr := _, rnd, dflt, log } =>
      let t := arr[lo + i]'h.1.2
      let a1 := arr.set (lo + i) (arr[lo + j]'h.2.2) h.1.2
      let a2 := a1.set (lo + j) t (by simpa [a1] using h.2.2)
      .ok { arr := a2, scr := t, rnd, dflt, log := log.swap (lo + i) (lo + j) }
  else .error .oob

/-! ### quicksort -/

/-- `while (cmp(a = at(i), p) < 0) i++;` -/
def scanUp (lo cnt p : Nat) : Nat → St → Nat → R (St × Nat)
  | 0, _, _ => .error .fuel
  | f + 1, s, i => do
    let (s, c) ← cmpAt s lo cnt i p
    if c < 0 then scanUp lo cnt p f s (i + 1) else pure (s, i)

/-- `while (cmp(b = at(j), p) > 0) j--;`  (`j` is a `size_t`: decrementing 0
wraps to SIZE_MAX, and the next access is outside the array) -/
def scanDown (lo cnt p : Nat) : Nat → St → Nat → R (St × Nat)
  | 0, _, _ => .error .fuel
  | f + 1, s, j => do
    let (s, c) ← cmpAt s lo cnt j p
    if c > 0 then
      if j = 0 then .error .oob else scanDown lo cnt p f s (j - 1)
    else pure (s, j)

/-- The `do { if (a != b) {swap; track p; i++; j--;} scan; scan; } while (i < j)`
loop of `cstl_raw_array_qsort_p`, entered after the first pair of scans:
`a != b` holds exactly on the iterations after the first, where `i < j`. -/
def partLoop (lo cnt : Nat) : Nat → St → Nat → Nat → Nat → R (St × Nat)
  | 0, _, _, _, _ => .error .fuel
  | f + 1, s, p, i, j =>
    if i < j then do
      let s ← swapAt s lo cnt i j
      let p := if p = i then j else if p = j then i else p
      let (s, i) ← scanUp lo cnt p (cnt + 1) s (i + 1)
      let (s, j) ← scanDown lo cnt p (cnt + 1) s (j - 1)
      partLoop lo cnt f s p i j
    else pure (s, j)

/-- `cstl_raw_array_qsort_p(arr+lo, cnt, …, p = at(p))`; returns `j` -/
def partition (s : St) (lo cnt p : Nat) : R (St × Nat) :=
  if cnt = 0 then .error .oob   -- j = count - 1 wraps
  else do
    let (s, i) ← scanUp lo cnt p (cnt + 1) s 0
    let (s, j) ← scanDown lo cnt p (cnt + 1) s (cnt - 1)
    partLoop lo cnt cnt s p i j

/-- `rand()` -/
def draw (s : St) : St × Nat :=
  match s.rnd with
  | [] => (s, s.dflt)
  | r :: rs => ({ s with rnd := rs }, r)

/-- `if (cmp(at(a), at(b)) < 0) swap(at(a), at(b))` -/
def condSwap (s : St) (lo cnt a b : Nat) : R St := do
  let (s, c) ← cmpAt s lo cnt a b
  if c < 0 then swapAt s lo cnt a b else pure s

/-- the in-place 3-sort of `beg`, `mid`, `end` for median-of-three:
`if (end < beg) swap(end, beg); if (mid < beg) swap(mid, beg); else if (end < mid) swap(end, mid)` -/
def med3 (s : St) (lo cnt : Nat) : R St := do
  let s ← condSwap s lo cnt (cnt - 1) 0
  let (s, c) ← cmpAt s lo cnt ((cnt - 1) / 2) 0
  if c < 0 then swapAt s lo cnt ((cnt - 1) / 2) 0
  else condSwap s lo cnt (cnt - 1) ((cnt - 1) / 2)

/-- the pivot choice of `cstl_raw_array_qsort` (`count > 1`): `rand() % count`,
the middle position after the 3-sort, or position 0 -/
def pickPivot (algo : Nat) (s : St) (lo cnt : Nat) : R (St × Nat) :=
  if algo = 1 then
    let (s, r) := draw s
    pure (s, r % cnt)
  else if algo = 2 then do
    let s ← med3 s lo cnt
    pure (s, (cnt - 1) / 2)
  else pure (s, 0)

/-- `cstl_raw_array_qsort`; `algo`: 1 = random pivot, 2 = median of three,
anything else = first element.  Fuel = nesting depth of calls with
`count > 1`. -/
def qsort (algo : Nat) : Nat → St → Nat → Nat → R St
  | 0, s, _, cnt => if cnt > 1 then .error .fuel else pure s
  | f + 1, s, lo, cnt =>
    if cnt > 1 then do
      let (s, p) ← pickPivot algo s lo cnt
      if algo ≠ 2 ∨ cnt > 3 then do
        let (s, m) ← partition s lo cnt p
        let s ← qsort algo f s lo (m + 1)
        qsort algo f s (lo + m + 1) (cnt - m - 1)
      else pure s
    else pure s

/-! ### heapsort -/

/-- the body of the `hsort_b` loop that selects `c`: `n` itself or its greater
child when that child is greater than `n` (`l = 2n+1`, `r = l+1`; the second
comparison is against the current candidate `c`) -/
def pickChild (s : St) (lo cnt n : Nat) : R (St × Nat) := do
  let l := 2 * n + 1
  let r := l + 1
  let (s, c) ←
    (if l < cnt then do
      let (s, x) ← cmpAt s lo cnt l n
      pure (s, if x > 0 then l else n)
    else pure (s, n) : R (St × Nat))
  if r < cnt then do
    let (s, x) ← cmpAt s lo cnt r c
    pure (s, if x > 0 then r else c)
  else pure (s, c)

/-- `cstl_raw_array_hsort_b(arr+lo, cnt, n)`: one fuel unit per loop iteration
(the swap at the top of the C loop body is the one decided at the bottom of
the previous iteration) -/
def siftDown (lo cnt : Nat) : Nat → St → Nat → R St
  | 0, _, _ => .error .fuel
  | f + 1, s, n => do
    let (s, c) ← pickChild s lo cnt n
    if n ≠ c then do
      let s ← swapAt s lo cnt n c
      siftDown lo cnt f s c
    else pure s

/-- `for (i = k - 1; i >= 0; i--) hsort_b(arr, cnt, i)` -/
def heapify (lo cnt : Nat) : Nat → St → R St
  | 0, s => pure s
  | k + 1, s => do
    let s ← siftDown lo cnt cnt s k
    heapify lo cnt k s

/-- `for (i = k; i > 0; i--) { swap(arr, at(i)); hsort_b(arr, i, 0); }` -/
def extract (lo cnt : Nat) : Nat → St → R St
  | 0, s => pure s
  | i + 1, s => do
    let s ← swapAt s lo cnt 0 (i + 1)
    let s ← siftDown lo (i + 1) (i + 1) s 0
    extract lo cnt i s

/-- `cstl_raw_array_hsort` -/
def hsort (s : St) (lo cnt : Nat) : R St :=
  if cnt > 1 then do
    let s ← heapify lo cnt (cnt / 2) s
    extract lo cnt (cnt - 1) s
  else pure s

/-! ### dispatch -/

/-- selector after the `default:` fallback of `cstl_raw_array_sort` -/
def effAlgo (algo : Nat) : Nat := if algo ≤ 3 then algo else 2

/-- `cstl_raw_array_sort(arr, count = s.arr.size, …, algo)`; `fuel` is the
quicksort nesting budget -/
def sort (fuel : Nat) (s : St) (algo : Nat) : R St :=
  let a := effAlgo algo
  if a = 3 then hsort s 0 s.arr.size else qsort a fuel s 0 s.arr.size

/-- the fuel the driver uses: enough for every stream that ends in 0s -/
def sortFuel (s : St) : Nat := s.arr.size + s.rnd.length + 1

/-! ### search / find / reverse (indices are C `int`) -/

def i32 (v : Int) : R Int :=
  if -2147483648 ≤ v ∧ v ≤ 2147483647 then pure v else .error .ovf

/-- `(size_t)v` used as an index: a negative `int` becomes a huge index -/
def idx (v : Int) : R Nat := if v < 0 then .error .oob else pure v.toNat

/-- `int j = count - 1` (narrowing conversion of a `size_t`) -/
def lastIdx (cnt : Nat) : R Int :=
  if cnt = 0 then pure (-1) else i32 ((cnt : Int) - 1)

def searchLoop (cnt : Nat) (x : Elem) : Nat → St → Int → Int → R (St × Int)
  | 0, _, _, _ => .error .fuel
  | f + 1, s, i, j =>
    if i ≤ j then do
      let sum ← i32 (i + j)
      let n := Int.tdiv sum 2
      let k ← idx n
      let (s, eq) ← cmpProbe s cnt x k
      if eq = 0 then pure (s, n)
      else if eq < 0 then do
        let j ← i32 (n - 1)
        searchLoop cnt x f s i j
      else do
        let i ← i32 (n + 1)
        searchLoop cnt x f s i j
    else pure (s, -1)

/-- `cstl_raw_array_search(arr, count = s.arr.size, …, ex = x)` -/
def search (s : St) (x : Elem) : R (St × Int) := do
  let j ← lastIdx s.arr.size
  searchLoop s.arr.size x (s.arr.size + 1) s 0 j

def findLoop (cnt : Nat) (x : Elem) : Nat → St → Nat → R (St × Int)
  | 0, _, _ => .error .fuel
  | f + 1, s, i =>
    if i < cnt then do
      let (s, eq) ← cmpProbe s cnt x i
      if eq = 0 then pure (s, (i : Int)) else findLoop cnt x f s (i + 1)
    else pure (s, -1)

/-- `cstl_raw_array_find` -/
def find (s : St) (x : Elem) : R (St × Int) :=
  findLoop s.arr.size x (s.arr.size + 1) s 0

def revLoop (cnt : Nat) : Nat → St → Int → Int → R St
  | 0, _, _, _ => .error .fuel
  | f + 1, s, i, j =>
    if i < j then do
      let a ← idx i
      let b ← idx j
      let s ← swapAt s 0 cnt a b
      let i ← i32 (i + 1)
      let j ← i32 (j - 1)
      revLoop cnt f s i j
    else pure s

/-- `cstl_raw_array_reverse` -/
def reverse (s : St) : R St := do
  let j ← lastIdx s.arr.size
  revLoop s.arr.size (s.arr.size + 1) s 0 j

end Cstl.Sort
