import Cstl.Sort.Lemmas
/-
Heapsort of the sort model: sift-down restores the heap below a node,
heapify builds a heap, extract turns a heap into a sorted range.
Indices `k` are relative to the range `(lo, cnt)`; keys are read with `ak`
at global index `lo + k`.
-/
namespace Cstl.Sort

/-- node `k` is not smaller than its children (inside a heap of `cnt` nodes) -/
def HeapAt (a : Array Elem) (lo cnt k : Nat) : Prop :=
  (2 * k + 1 < cnt → ak a (lo + (2 * k + 1)) ≤ ak a (lo + k)) ∧
  (2 * k + 2 < cnt → ak a (lo + (2 * k + 2)) ≤ ak a (lo + k))

theorem pickChild_spec {s : St} {lo cnt n : Nat} (hn : n < cnt) (hb : lo + cnt ≤ s.arr.size) :
    ∃ s' c, pickChild s lo cnt n = .ok (s', c) ∧ s.same s' ∧
      (c = n ∨ c = 2 * n + 1 ∨ c = 2 * n + 2) ∧ c < cnt ∧
      (2 * n + 1 < cnt → ak s.arr (lo + (2 * n + 1)) ≤ ak s.arr (lo + c)) ∧
      (2 * n + 2 < cnt → ak s.arr (lo + (2 * n + 2)) ≤ ak s.arr (lo + c)) ∧
      (c ≠ n → ak s.arr (lo + n) < ak s.arr (lo + c)) := by
  have e2 : lo + (2 * n + 1 + 1) = lo + (2 * n + 2) := by omega
  by_cases hl : 2 * n + 1 < cnt
  · obtain ⟨s1, x1, h1, hs1, _, hgt1, _⟩ := cmpAt_ok (s := s) (lo := lo) hl hn hb
    have hb1 : lo + cnt ≤ s1.arr.size := by rw [hs1.1]; exact hb
    by_cases hr : 2 * n + 1 + 1 < cnt
    · by_cases hx1 : x1 > 0
      · obtain ⟨s2, x2, h2, hs2, _, hgt2, _⟩ := cmpAt_ok (s := s1) (lo := lo) hr hl hb1
        rw [hs1.1, e2] at hgt2
        have g1 := hgt1.1 hx1
        by_cases hx2 : x2 > 0
        · have g2 := hgt2.1 hx2
          refine ⟨s2, 2 * n + 2, ?_, St.same_trans hs1 hs2, by omega, by omega, fun _ => by omega,
            fun _ => Int.le_refl _, fun _ => by omega⟩
          simp [pickChild, hl, hr, h1, h2, hx1, hx2, bind, Except.bind, pure, Except.pure]
        · have g2 : ¬ _ := fun h => hx2 (hgt2.2 h)
          refine ⟨s2, 2 * n + 1, ?_, St.same_trans hs1 hs2, by omega, hl, fun _ => Int.le_refl _,
            fun _ => by omega, fun _ => by omega⟩
          simp [pickChild, hl, hr, h1, h2, hx1, hx2, bind, Except.bind, pure, Except.pure]
      · obtain ⟨s2, x2, h2, hs2, _, hgt2, _⟩ := cmpAt_ok (s := s1) (lo := lo) hr hn hb1
        rw [hs1.1, e2] at hgt2
        have g1 : ¬ _ := fun h => hx1 (hgt1.2 h)
        by_cases hx2 : x2 > 0
        · have g2 := hgt2.1 hx2
          refine ⟨s2, 2 * n + 2, ?_, St.same_trans hs1 hs2, by omega, by omega, fun _ => by omega,
            fun _ => Int.le_refl _, fun _ => by omega⟩
          simp [pickChild, hl, hr, h1, h2, hx1, hx2, bind, Except.bind, pure, Except.pure]
        · have g2 : ¬ _ := fun h => hx2 (hgt2.2 h)
          refine ⟨s2, n, ?_, St.same_trans hs1 hs2, by omega, hn, fun _ => by omega,
            fun _ => by omega, fun h => absurd rfl h⟩
          simp [pickChild, hl, hr, h1, h2, hx1, hx2, bind, Except.bind, pure, Except.pure]
    · by_cases hx1 : x1 > 0
      · have g1 := hgt1.1 hx1
        refine ⟨s1, 2 * n + 1, ?_, hs1, by omega, hl, fun _ => Int.le_refl _, fun h => by omega, fun _ => by omega⟩
        simp [pickChild, hl, hr, h1, hx1, bind, Except.bind, pure, Except.pure]
      · have g1 : ¬ _ := fun h => hx1 (hgt1.2 h)
        refine ⟨s1, n, ?_, hs1, by omega, hn, fun _ => by omega, fun h => by omega, fun h => absurd rfl h⟩
        simp [pickChild, hl, hr, h1, hx1, bind, Except.bind, pure, Except.pure]
  · have hr : ¬ 2 * n + 1 + 1 < cnt := by omega
    refine ⟨s, n, ?_, St.same_refl s, by omega, hn, fun h => by omega, fun h => by omega, fun h => absurd rfl h⟩
    simp [pickChild, hl, hr, bind, Except.bind, pure, Except.pure]

theorem siftDown_unfold {lo cnt f : Nat} {s s1 : St} {n c : Nat}
    (h : pickChild s lo cnt n = .ok (s1, c)) :
    siftDown lo cnt (f + 1) s n =
      if n ≠ c then (swapAt s1 lo cnt n c >>= fun s2 => siftDown lo cnt f s2 c) else pure s1 := by
  rw [siftDown]
  show (pickChild s lo cnt n >>= _) = _
  rw [h]; rfl

theorem siftDown_spec (lo cnt r : Nat) :
    ∀ (f : Nat) (s : St) (n : Nat), lo + cnt ≤ s.arr.size → n < cnt → r ≤ n → cnt ≤ f + n →
    (∀ k, r ≤ k → k < cnt → k ≠ n → HeapAt s.arr lo cnt k) →
    (∀ g, r ≤ g → (n = 2 * g + 1 ∨ n = 2 * g + 2) → ∀ c, (c = 2 * n + 1 ∨ c = 2 * n + 2) → c < cnt →
        ak s.arr (lo + c) ≤ ak s.arr (lo + g)) →
    ∃ s', siftDown lo cnt f s n = .ok s' ∧ Sw lo (lo + cnt) s.arr s'.arr ∧
      s'.rnd = s.rnd ∧ s'.dflt = s.dflt ∧
      ∀ k, r ≤ k → k < cnt → HeapAt s'.arr lo cnt k := by
  intro f
  induction f with
  | zero => intro s n _ h1 _ h2; omega
  | succ f ih =>
    intro s n hb hn hr hf P1 P2
    obtain ⟨s1, c, hp, hs1, hc3, hccnt, hcl, hcr, hcn⟩ := pickChild_spec hn hb
    by_cases hnc : n = c
    · subst hnc
      refine ⟨s1, by rw [siftDown_unfold hp]; simp [pure, Except.pure], by rw [hs1.1]; exact .refl _, hs1.2.1, hs1.2.2, ?_⟩
      intro k hk1 hk2
      rw [hs1.1]
      by_cases hkn : k = n
      · subst hkn; exact ⟨hcl, hcr⟩
      · exact P1 k hk1 hk2 hkn
    · have hb1 : lo + cnt ≤ s1.arr.size := by rw [hs1.1]; exact hb
      obtain ⟨s2, hsw, ha2, hr2, hd2⟩ := swapAt_ok (s := s1) (lo := lo) hn hccnt hb1
      have hcn' := hcn (Ne.symm hnc)
      have hb2 : lo + cnt ≤ s2.arr.size := by rw [ha2]; simpa using hb1
      have key : ∀ x, ak s2.arr (lo + x) =
          if x = c then ak s.arr (lo + n) else if x = n then ak s.arr (lo + c) else ak s.arr (lo + x) := by
        intro x; rw [ha2, ak_swap_rel]; simp only [hs1.1]
      have hHc : HeapAt s.arr lo cnt c := P1 c (by omega) hccnt (Ne.symm hnc)
      obtain ⟨s3, h3, hsw3, hr3, hd3, hheap⟩ := ih s2 c hb2 hccnt (by omega) (by omega)
        (by
          intro k hk1 hk2 hkc
          unfold HeapAt
          rw [key, key, key]
          by_cases hkn : k = n
          · subst hkn
            unfold HeapAt at hHc
            grind
          · have := P1 k hk1 hk2 hkn
            unfold HeapAt at this
            have := P2 k hk1
            grind)
        (by
          intro g hg hcg gc hgc hgccnt
          have hg' : g = n := by omega
          subst hg'
          rw [key, key, if_neg (by omega), if_neg (by omega), if_neg hnc, if_pos rfl]
          rcases hgc with rfl | rfl
          · exact hHc.1 hgccnt
          · exact hHc.2 hgccnt)
      refine ⟨s3, ?_, ?_, hr3.trans (hr2.trans hs1.2.1), hd3.trans (hd2.trans hs1.2.2), hheap⟩
      · rw [siftDown_unfold hp, if_pos hnc, hsw]; exact h3
      · refine .step (i := lo + n) (j := lo + c) (by omega) (by omega) ⟨by omega, by omega⟩ ⟨by omega, by omega⟩ ?_
        have : s2.arr = s.arr.swap (lo + n) (lo + c) (by omega) (by omega) := by
          rw [ha2]; simp only [hs1.1]
        rw [← this]; exact hsw3


/-- in a heap the root is a maximum -/
theorem heap_root_max {a : Array Elem} {lo cnt : Nat}
    (h : ∀ k, k < cnt → HeapAt a lo cnt k) : ∀ k, k < cnt → ak a (lo + k) ≤ ak a (lo + 0) := by
  intro k
  induction k using Nat.strongRecOn with
  | _ k ih =>
    intro hk
    by_cases h0 : k = 0
    · subst h0; exact Int.le_refl _
    · have hg : (k - 1) / 2 < k := by omega
      have := ih _ hg (by omega)
      have hh := h ((k - 1) / 2) (by omega)
      unfold HeapAt at hh
      rcases Nat.mod_two_eq_zero_or_one k with hm | hm
      · have e : 2 * ((k - 1) / 2) + 2 = k := by omega
        have := hh.2 (by omega)
        rw [e] at this; omega
      · have e : 2 * ((k - 1) / 2) + 1 = k := by omega
        have := hh.1 (by omega)
        rw [e] at this; omega

theorem heapify_spec (lo cnt : Nat) :
    ∀ (k : Nat) (s : St), lo + cnt ≤ s.arr.size → k ≤ cnt →
    (∀ j, k ≤ j → j < cnt → HeapAt s.arr lo cnt j) →
    ∃ s', heapify lo cnt k s = .ok s' ∧ Sw lo (lo + cnt) s.arr s'.arr ∧
      s'.rnd = s.rnd ∧ s'.dflt = s.dflt ∧ ∀ j, j < cnt → HeapAt s'.arr lo cnt j := by
  intro k
  induction k with
  | zero =>
    intro s _ _ h
    exact ⟨s, rfl, .refl _, rfl, rfl, fun j hj => h j (Nat.zero_le _) hj⟩
  | succ k ih =>
    intro s hb hk h
    obtain ⟨s1, h1, hsw1, hr1, hd1, hh1⟩ := siftDown_spec lo cnt k cnt s k hb (by omega) (Nat.le_refl _) (by omega)
      (fun j hj1 hj2 hj3 => h j (by omega) hj2) (fun g hg hng => by omega)
    have hb1 : lo + cnt ≤ s1.arr.size := by rw [hsw1.size_eq]; exact hb
    obtain ⟨s2, h2, hsw2, hr2, hd2, hh2⟩ := ih s1 hb1 (by omega) hh1
    refine ⟨s2, ?_, hsw1.trans hsw2, hr2.trans hr1, hd2.trans hd1, hh2⟩
    rw [heapify]
    show (siftDown lo cnt cnt s k >>= _) = _
    rw [h1]; exact h2

theorem extract_spec (lo cnt : Nat) :
    ∀ (i : Nat) (s : St), lo + cnt ≤ s.arr.size → i < cnt →
    (∀ k, k < i + 1 → HeapAt s.arr lo (i + 1) k) →
    (∀ p q, i + 1 ≤ p → p ≤ q → q < cnt → ak s.arr (lo + p) ≤ ak s.arr (lo + q)) →
    (∀ p q, p ≤ i → i < q → q < cnt → ak s.arr (lo + p) ≤ ak s.arr (lo + q)) →
    ∃ s', extract lo cnt i s = .ok s' ∧ Sw lo (lo + cnt) s.arr s'.arr ∧
      s'.rnd = s.rnd ∧ s'.dflt = s.dflt ∧ SortedR s'.arr lo cnt := by
  intro i
  induction i with
  | zero =>
    intro s _ _ _ hsuf hpre
    refine ⟨s, rfl, .refl _, rfl, rfl, fun p q hpq hq => ?_⟩
    by_cases hp : p = 0
    · subst hp
      by_cases hq0 : q = 0
      · subst hq0; exact Int.le_refl _
      · exact hpre 0 q (Nat.le_refl _) (by omega) hq
    · exact hsuf p q (by omega) hpq hq
  | succ i ih =>
    intro s hb hi hheap hsuf hpre
    -- swap(0, i+1)
    obtain ⟨s1, h1, ha1, hr1, hd1⟩ := swapAt_ok (s := s) (lo := lo) (i := 0) (j := i + 1) (by omega) hi hb
    have hb1 : lo + cnt ≤ s1.arr.size := by rw [ha1]; simpa using hb
    have key : ∀ x, ak s1.arr (lo + x) =
        if x = i + 1 then ak s.arr (lo + 0) else if x = 0 then ak s.arr (lo + (i + 1)) else ak s.arr (lo + x) := by
      intro x; rw [ha1, ak_swap_rel]
    have hmax := heap_root_max hheap
    -- sift the new root down inside the first i+1 elements
    obtain ⟨s2, h2, hsw2, hr2, hd2, hh2⟩ := siftDown_spec lo (i + 1) 0 (i + 1) s1 0 (by omega) (by omega)
      (Nat.le_refl _) (by omega)
      (by
        intro k _ hk hk0
        have := hheap k (by omega)
        unfold HeapAt at this ⊢
        rw [key, key, key]
        constructor
        · intro hx
          rw [if_neg (by omega), if_neg (by omega), if_neg (by omega), if_neg hk0]
          exact this.1 (by omega)
        · intro hx
          rw [if_neg (by omega), if_neg (by omega), if_neg (by omega), if_neg hk0]
          exact this.2 (by omega))
      (fun g _ hg => by omega)
    have hb2 : lo + cnt ≤ s2.arr.size := by rw [hsw2.size_eq]; exact hb1
    have hout : ∀ x, i + 1 ≤ x → ak s2.arr (lo + x) = ak s1.arr (lo + x) :=
      fun x hx => hsw2.ak_outside (.inr (by omega))
    have hin : ∀ x, x < i + 1 → ak s2.arr (lo + x) ≤ ak s.arr (lo + 0) := by
      intro x hx
      have := hsw2.ak_bound (fun v => v ≤ ak s.arr (lo + 0))
        (by
          intro k hk1 hk2 _
          have e : k = lo + (k - lo) := by omega
          rw [e, key]
          by_cases h0 : k - lo = 0
          · rw [if_neg (by omega), if_pos h0]; exact hmax (i + 1) (by omega)
          · rw [if_neg (by omega), if_neg h0]; exact hmax (k - lo) (by omega))
        (lo + x) (by omega) (by omega) (by omega)
      exact this
    obtain ⟨s3, h3, hsw3, hr3, hd3, hsorted⟩ := ih s2 hb2 (by omega) (fun k hk => hh2 k (Nat.zero_le _) hk)
      (by
        intro p q hp hpq hq
        rw [hout p (by omega), hout q (by omega), key, key]
        by_cases hp1 : p = i + 1
        · by_cases hq1 : q = i + 1
          · rw [if_pos hp1, if_pos hq1]; exact Int.le_refl _
          · rw [if_pos hp1, if_neg hq1, if_neg (by omega)]
            exact hpre 0 q (by omega) (by omega) hq
        · rw [if_neg hp1, if_neg (by omega), if_neg (by omega), if_neg (by omega)]
          exact hsuf p q (by omega) hpq hq)
      (by
        intro p q hp hq1 hq
        rw [hout q (by omega), key]
        by_cases hq2 : q = i + 1
        · rw [if_pos hq2]; exact hin p (by omega)
        · rw [if_neg hq2, if_neg (by omega)]
          exact Int.le_trans (hin p (by omega)) (hpre 0 q (by omega) (by omega) hq))
    refine ⟨s3, ?_, ?_, hr3.trans (hr2.trans hr1), hd3.trans (hd2.trans hd1), hsorted⟩
    · rw [extract]
      show (swapAt s lo cnt 0 (i + 1) >>= _) = _
      rw [h1]
      show (siftDown lo (i + 1) (i + 1) s1 0 >>= _) = _
      rw [h2]; exact h3
    · refine .step (i := lo + 0) (j := lo + (i + 1)) (by omega) (by omega) ⟨by omega, by omega⟩ ⟨by omega, by omega⟩ ?_
      rw [← ha1]
      exact (hsw2.mono (Nat.le_refl _) (by omega)).trans hsw3

theorem hsort_spec (s : St) (lo cnt : Nat) (hb : lo + cnt ≤ s.arr.size) :
    ∃ s', hsort s lo cnt = .ok s' ∧ Sw lo (lo + cnt) s.arr s'.arr ∧
      s'.rnd = s.rnd ∧ s'.dflt = s.dflt ∧ SortedR s'.arr lo cnt := by
  unfold hsort
  by_cases hc : cnt > 1
  · rw [if_pos hc]
    obtain ⟨s1, h1, hsw1, hr1, hd1, hh1⟩ := heapify_spec lo cnt (cnt / 2) s hb (by omega)
      (fun j hj1 hj2 => ⟨fun h => by omega, fun h => by omega⟩)
    have hb1 : lo + cnt ≤ s1.arr.size := by rw [hsw1.size_eq]; exact hb
    obtain ⟨s2, h2, hsw2, hr2, hd2, hs2⟩ := extract_spec lo cnt (cnt - 1) s1 hb1 (by omega)
      (by
        have e : cnt - 1 + 1 = cnt := by omega
        rw [e]; exact fun k hk => hh1 k hk)
      (fun p q hp hpq hq => by omega) (fun p q hp hq1 hq => by omega)
    refine ⟨s2, ?_, hsw1.trans hsw2, hr2.trans hr1, hd2.trans hd1, hs2⟩
    show (heapify lo cnt (cnt / 2) s >>= _) = _
    rw [h1]; exact h2
  · rw [if_neg hc]
    refine ⟨s, rfl, .refl _, rfl, rfl, fun p q hpq hq => ?_⟩
    have : p = q := by omega
    subst this; exact Int.le_refl _

end Cstl.Sort
