import Cstl.Sort.Lemmas
/-
Quicksort of the sort model: the two scans, the partition loop with pivot
tracking, the median-of-three 3-sort.  Indices are relative to the range
`(lo, cnt)`; `v` is the pivot value `ak s.arr (lo + p)`.
-/
namespace Cstl.Sort

/-! ### the scans -/

theorem scanUp_unfold {lo cnt p f : Nat} {s s1 : St} {i : Nat} {c : Int}
    (h : cmpAt s lo cnt i p = .ok (s1, c)) :
    scanUp lo cnt p (f + 1) s i = if c < 0 then scanUp lo cnt p f s1 (i + 1) else pure (s1, i) := by
  rw [scanUp]
  show (cmpAt s lo cnt i p >>= _) = _
  rw [h]; rfl

theorem scanDown_unfold {lo cnt p f : Nat} {s s1 : St} {j : Nat} {c : Int}
    (h : cmpAt s lo cnt j p = .ok (s1, c)) :
    scanDown lo cnt p (f + 1) s j =
      if c > 0 then (if j = 0 then .error .oob else scanDown lo cnt p f s1 (j - 1)) else pure (s1, j) := by
  rw [scanDown]
  show (cmpAt s lo cnt j p >>= _) = _
  rw [h]; rfl

/-- the upward scan stops at the first position from `i` whose key is not
below the pivot, provided there is one (`k`) before the end of the range -/
theorem scanUp_spec (lo cnt p : Nat) :
    ∀ (f : Nat) (s : St) (i k : Nat), lo + cnt ≤ s.arr.size → p < cnt →
      i ≤ k → k < cnt → ak s.arr (lo + p) ≤ ak s.arr (lo + k) → k + 1 ≤ f + i →
    ∃ s' i', scanUp lo cnt p f s i = .ok (s', i') ∧ s.same s' ∧ i ≤ i' ∧ i' ≤ k ∧
      (∀ t, i ≤ t → t < i' → ak s.arr (lo + t) < ak s.arr (lo + p)) ∧
      ak s.arr (lo + p) ≤ ak s.arr (lo + i') := by
  intro f
  induction f with
  | zero => intro s i k _ _ h1 _ _ h2; omega
  | succ f ih =>
    intro s i k hb hp hik hk hsent hf
    obtain ⟨s1, c, hc, hs1, hlt, _, _⟩ := cmpAt_ok (s := s) (lo := lo) (i := i) (j := p) (by omega) hp hb
    by_cases hc0 : c < 0
    · have hlt' := hlt.1 hc0
      have hne : i ≠ k := by intro e; subst e; omega
      obtain ⟨s2, i', h2, hs2, a1, a2, a3, a4⟩ := ih s1 (i + 1) k (by rw [hs1.1]; exact hb) hp (by omega) hk
        (by rw [hs1.1]; exact hsent) (by omega)
      rw [hs1.1] at a3 a4
      refine ⟨s2, i', by rw [scanUp_unfold hc, if_pos hc0]; exact h2, St.same_trans hs1 hs2, by omega, a2, ?_, a4⟩
      intro t ht1 ht2
      by_cases e : t = i
      · subst e; exact hlt'
      · exact a3 t (by omega) ht2
    · have : ¬ _ := fun h => hc0 (hlt.2 h)
      refine ⟨s1, i, by rw [scanUp_unfold hc, if_neg hc0]; rfl, hs1, Nat.le_refl _, hik, fun t a b => by omega, by omega⟩

/-- the downward scan stops at the first position from `j` (going down) whose
key is not above the pivot, provided there is one (`k`); it never steps below
index 0 -/
theorem scanDown_spec (lo cnt p : Nat) :
    ∀ (f : Nat) (s : St) (j k : Nat), lo + cnt ≤ s.arr.size → p < cnt →
      k ≤ j → j < cnt → ak s.arr (lo + k) ≤ ak s.arr (lo + p) → j + 1 ≤ f + k →
    ∃ s' j', scanDown lo cnt p f s j = .ok (s', j') ∧ s.same s' ∧ k ≤ j' ∧ j' ≤ j ∧
      (∀ t, j' < t → t ≤ j → ak s.arr (lo + p) < ak s.arr (lo + t)) ∧
      ak s.arr (lo + j') ≤ ak s.arr (lo + p) := by
  intro f
  induction f with
  | zero => intro s j k _ _ h1 _ _ h2; omega
  | succ f ih =>
    intro s j k hb hp hkj hj hsent hf
    obtain ⟨s1, c, hc, hs1, _, hgt, _⟩ := cmpAt_ok (s := s) (lo := lo) (i := j) (j := p) hj hp hb
    by_cases hc0 : c > 0
    · have hgt' := hgt.1 hc0
      have hne : j ≠ k := by intro e; subst e; omega
      have hj0 : j ≠ 0 := by omega
      obtain ⟨s2, j', h2, hs2, a1, a2, a3, a4⟩ := ih s1 (j - 1) k (by rw [hs1.1]; exact hb) hp (by omega) (by omega)
        (by rw [hs1.1]; exact hsent) (by omega)
      rw [hs1.1] at a3 a4
      refine ⟨s2, j', by rw [scanDown_unfold hc, if_pos hc0, if_neg hj0]; exact h2, St.same_trans hs1 hs2,
        a1, by omega, ?_, a4⟩
      intro t ht1 ht2
      by_cases e : t = j
      · subst e; exact hgt'
      · exact a3 t ht1 (by omega)
    · have : ¬ _ := fun h => hc0 (hgt.2 h)
      refine ⟨s1, j, by rw [scanDown_unfold hc, if_neg hc0]; rfl, hs1, hkj, Nat.le_refl _, fun t a b => by omega, by omega⟩

/-! ### the partition loop -/

theorem partLoop_unfold {lo cnt f : Nat} {s s1 : St} {p i j : Nat}
    (hlt : i < j) (hsw : swapAt s lo cnt i j = .ok s1) :
    partLoop lo cnt (f + 1) s p i j =
      (scanUp lo cnt (if p = i then j else if p = j then i else p) (cnt + 1) s1 (i + 1) >>= fun r1 =>
        scanDown lo cnt (if p = i then j else if p = j then i else p) (cnt + 1) r1.1 (j - 1) >>= fun r2 =>
          partLoop lo cnt f r2.1 (if p = i then j else if p = j then i else p) r1.2 r2.2) := by
  rw [partLoop, if_pos hlt]
  show (swapAt s lo cnt i j >>= _) = _
  rw [hsw]; rfl

theorem partLoop_spec (lo cnt : Nat) :
    ∀ (f : Nat) (s : St) (p i j : Nat), lo + cnt ≤ s.arr.size → p < cnt → i < cnt → j < cnt → j + 1 ≤ f →
      (∀ t, t < i → ak s.arr (lo + t) ≤ ak s.arr (lo + p)) →
      (∀ t, j < t → t < cnt → ak s.arr (lo + p) ≤ ak s.arr (lo + t)) →
      ak s.arr (lo + p) ≤ ak s.arr (lo + i) → ak s.arr (lo + j) ≤ ak s.arr (lo + p) →
    ∃ s' m, partLoop lo cnt f s p i j = .ok (s', m) ∧ Sw lo (lo + cnt) s.arr s'.arr ∧
      s'.rnd = s.rnd ∧ s'.dflt = s.dflt ∧ m ≤ j ∧ (i < j → m < j) ∧ (¬ i < j → s'.arr = s.arr ∧ m = j) ∧
      (∀ t, t ≤ m → ak s'.arr (lo + t) ≤ ak s.arr (lo + p)) ∧
      (∀ t, m < t → t < cnt → ak s.arr (lo + p) ≤ ak s'.arr (lo + t)) := by
  intro f
  induction f with
  | zero => intro s p i j _ _ _ _ h; omega
  | succ f ih =>
    intro s p i j hb hp hi hj hf A B Ci Cj
    by_cases hlt : i < j
    · obtain ⟨s1, hsw, ha1, hr1, hd1⟩ := swapAt_ok (s := s) (lo := lo) hi hj hb
      have hb1 : lo + cnt ≤ s1.arr.size := by rw [ha1]; simpa using hb
      have key : ∀ x, ak s1.arr (lo + x) =
          if x = j then ak s.arr (lo + i) else if x = i then ak s.arr (lo + j) else ak s.arr (lo + x) := by
        intro x; rw [ha1, ak_swap_rel]
      generalize hp' : (if p = i then j else if p = j then i else p) = p'
      have hp'c : p' < cnt := by
        subst hp'
        split
        · omega
        · split <;> omega
      have hv : ak s1.arr (lo + p') = ak s.arr (lo + p) := by
        subst hp'; rw [key]
        by_cases e1 : p = i
        · subst e1; simp
        · by_cases e2 : p = j
          · subst e2; simp [e1]; intro e; omega
          · simp [e1, e2]
      -- scan up from i+1, sentinel j
      obtain ⟨s2, i', h2, hs2, u1, u2, u3, u4⟩ := scanUp_spec lo cnt p' (cnt + 1) s1 (i + 1) j hb1 hp'c (by omega) hj
        (by rw [hv, key, if_pos rfl]; exact Ci) (by omega)
      have hb2 : lo + cnt ≤ s2.arr.size := by rw [hs2.1]; exact hb1
      -- scan down from j-1, sentinel i
      obtain ⟨s3, j', h3, hs3, d1, d2, d3, d4⟩ := scanDown_spec lo cnt p' (cnt + 1) s2 (j - 1) i hb2 hp'c (by omega) (by omega)
        (by rw [hs2.1, hv, key, if_neg (by omega), if_pos rfl]; exact Cj) (by omega)
      have hb3 : lo + cnt ≤ s3.arr.size := by rw [hs3.1]; exact hb2
      have e3 : s3.arr = s1.arr := hs3.1.trans hs2.1
      rw [hs2.1] at d3 d4
      rw [hv] at u3 u4 d3 d4
      obtain ⟨s4, m, h4, hsw4, hr4, hd4, m1, m2, _, m4, m5⟩ := ih s3 p' i' j' hb3 hp'c (by omega) (by omega) (by omega)
        (by
          rw [e3, hv]
          intro t ht
          by_cases e1 : t < i
          · rw [key, if_neg (by omega), if_neg (by omega)]; exact A t e1
          · by_cases e2 : t = i
            · subst e2; rw [key, if_neg (by omega), if_pos rfl]; exact Cj
            · exact Int.le_of_lt (u3 t (by omega) ht))
        (by
          rw [e3, hv]
          intro t ht1 ht2
          by_cases e1 : j < t
          · rw [key, if_neg (by omega), if_neg (by omega)]; exact B t e1 ht2
          · by_cases e2 : t = j
            · subst e2; rw [key, if_pos rfl]; exact Ci
            · exact Int.le_of_lt (d3 t ht1 (by omega)))
        (by rw [e3, hv]; exact u4)
        (by rw [e3, hv]; exact d4)
      rw [e3, hv] at m4 m5
      refine ⟨s4, m, ?_, ?_, hr4.trans (hs3.2.1.trans (hs2.2.1.trans hr1)),
        hd4.trans (hs3.2.2.trans (hs2.2.2.trans hd1)), by omega, fun _ => by omega, fun h => absurd hlt h, m4, m5⟩
      · rw [partLoop_unfold hlt hsw, hp']
        show (scanUp lo cnt p' (cnt + 1) s1 (i + 1) >>= _) = _
        rw [h2]
        show (scanDown lo cnt p' (cnt + 1) s2 (j - 1) >>= _) = _
        rw [h3]
        exact h4
      · refine .step (i := lo + i) (j := lo + j) (by omega) (by omega) ⟨by omega, by omega⟩ ⟨by omega, by omega⟩ ?_
        rw [← ha1, ← e3]; exact hsw4
    · refine ⟨s, j, by rw [partLoop, if_neg hlt]; rfl, .refl _, rfl, rfl, Nat.le_refl _, fun h => absurd h hlt,
        fun _ => ⟨rfl, rfl⟩, ?_, B⟩
      intro t ht
      by_cases e : t < i
      · exact A t e
      · have : t = j := by omega
        subst this; exact Cj


theorem partition_spec (s : St) (lo cnt p : Nat) (hb : lo + cnt ≤ s.arr.size) (hp : p < cnt) :
    ∃ s' m, partition s lo cnt p = .ok (s', m) ∧ Sw lo (lo + cnt) s.arr s'.arr ∧
      s'.rnd = s.rnd ∧ s'.dflt = s.dflt ∧ m < cnt ∧
      (∀ t, t ≤ m → ak s'.arr (lo + t) ≤ ak s.arr (lo + p)) ∧
      (∀ t, m < t → t < cnt → ak s.arr (lo + p) ≤ ak s'.arr (lo + t)) ∧
      (m = cnt - 1 ↔ (p = cnt - 1 ∧ ∀ t, t < cnt - 1 → ak s.arr (lo + t) < ak s.arr (lo + p))) ∧
      (m = cnt - 1 → s'.arr = s.arr) := by
  have hc0 : cnt ≠ 0 := by omega
  obtain ⟨s1, i0, h1, hs1, _, u2, u3, u4⟩ := scanUp_spec lo cnt p (cnt + 1) s 0 p hb hp (Nat.zero_le _) hp
    (Int.le_refl _) (by omega)
  have hb1 : lo + cnt ≤ s1.arr.size := by rw [hs1.1]; exact hb
  obtain ⟨s2, j0, h2, hs2, d1, d2, d3, d4⟩ := scanDown_spec lo cnt p (cnt + 1) s1 (cnt - 1) p hb1 hp (by omega) (by omega)
    (Int.le_refl _) (by omega)
  rw [hs1.1] at d3 d4
  have e2 : s2.arr = s.arr := hs2.1.trans hs1.1
  have hb2 : lo + cnt ≤ s2.arr.size := by rw [e2]; exact hb
  obtain ⟨s3, m, h3, hsw, hr, hd, m1, m2, m3, m4, m5⟩ := partLoop_spec lo cnt cnt s2 p i0 j0 hb2 hp (by omega) (by omega) (by omega)
    (by rw [e2]; exact fun t ht => Int.le_of_lt (u3 t (Nat.zero_le _) ht))
    (by rw [e2]; exact fun t ht1 ht2 => Int.le_of_lt (d3 t ht1 (by omega)))
    (by rw [e2]; exact u4) (by rw [e2]; exact d4)
  rw [e2] at hsw m3 m4 m5
  refine ⟨s3, m, ?_, hsw, hr.trans (hs2.2.1.trans hs1.2.1), hd.trans (hs2.2.2.trans hs1.2.2), by omega, m4, m5, ?_, ?_⟩
  · unfold partition
    rw [if_neg hc0]
    show (scanUp lo cnt p (cnt + 1) s 0 >>= _) = _
    rw [h1]
    show (scanDown lo cnt p (cnt + 1) s1 (cnt - 1) >>= _) = _
    rw [h2]
    exact h3
  · constructor
    · intro hm
      have hnlt : ¬ i0 < j0 := fun h => by have := m2 h; omega
      have : i0 = cnt - 1 := by omega
      exact ⟨by omega, fun t ht => u3 t (Nat.zero_le _) (by omega)⟩
    · rintro ⟨hpl, hmax⟩
      have hj : j0 = cnt - 1 := by omega
      have hi : i0 = cnt - 1 := by
        by_cases h : i0 < cnt - 1
        · have := hmax i0 h; omega
        · omega
      have := (m3 (by omega)).2
      omega
  · intro hm
    have hnlt : ¬ i0 < j0 := fun h => by have := m2 h; omega
    exact (m3 hnlt).1

/-! ### median of three -/

/-- conditional swap used by the 3-sort: afterwards the key at `lo+a` is not
below the key at `lo+b` -/
theorem condSwap_spec {s : St} {lo cnt a b : Nat} (hb : lo + cnt ≤ s.arr.size)
    (h1 : a < cnt) (h2 : b < cnt) :
    ∃ s2, condSwap s lo cnt a b = .ok s2 ∧
      Sw lo (lo + cnt) s.arr s2.arr ∧ s2.rnd = s.rnd ∧ s2.dflt = s.dflt ∧
      ((ak s.arr (lo + a) < ak s.arr (lo + b) ∧ ∀ x, ak s2.arr (lo + x) =
          if x = b then ak s.arr (lo + a) else if x = a then ak s.arr (lo + b) else ak s.arr (lo + x)) ∨
       (¬ ak s.arr (lo + a) < ak s.arr (lo + b) ∧ s2.arr = s.arr)) := by
  obtain ⟨s1, c, hc, hs1, hlt, _, _⟩ := cmpAt_ok (s := s) (lo := lo) h1 h2 hb
  have hb1 : lo + cnt ≤ s1.arr.size := by rw [hs1.1]; exact hb
  have hunf : condSwap s lo cnt a b = if c < 0 then swapAt s1 lo cnt a b else pure s1 := by
    unfold condSwap
    show (cmpAt s lo cnt a b >>= _) = _
    rw [hc]; rfl
  by_cases hc0 : c < 0
  · obtain ⟨s2, hsw, ha, hr, hd⟩ := swapAt_ok (s := s1) (lo := lo) h1 h2 hb1
    refine ⟨s2, by rw [hunf, if_pos hc0]; exact hsw, ?_, hr.trans hs1.2.1, hd.trans hs1.2.2, .inl ⟨hlt.1 hc0, ?_⟩⟩
    · have : s2.arr = s.arr.swap (lo + a) (lo + b) (by omega) (by omega) := by rw [ha]; simp only [hs1.1]
      rw [this]
      exact .one _ _ ⟨by omega, by omega⟩ ⟨by omega, by omega⟩
    · intro x
      rw [ha, ak_swap_rel]; simp only [hs1.1]
  · refine ⟨s1, by rw [hunf, if_neg hc0]; rfl, by rw [hs1.1]; exact .refl _, hs1.2.1, hs1.2.2,
      .inr ⟨fun h => hc0 (hlt.2 h), hs1.1⟩⟩

theorem med3_spec (s : St) (lo cnt : Nat) (hb : lo + cnt ≤ s.arr.size) (hc : 1 < cnt) :
    ∃ s', med3 s lo cnt = .ok s' ∧ Sw lo (lo + cnt) s.arr s'.arr ∧
      s'.rnd = s.rnd ∧ s'.dflt = s.dflt ∧
      ak s'.arr (lo + 0) ≤ ak s'.arr (lo + (cnt - 1) / 2) ∧
      ak s'.arr (lo + (cnt - 1) / 2) ≤ ak s'.arr (lo + (cnt - 1)) := by
  have he : cnt - 1 < cnt := by omega
  have hm : (cnt - 1) / 2 < cnt := by omega
  have h0 : 0 < cnt := by omega
  have hme : (cnt - 1) / 2 < cnt - 1 := by omega
  have hunf0 : med3 s lo cnt = (condSwap s lo cnt (cnt - 1) 0 >>= fun s =>
      cmpAt s lo cnt ((cnt - 1) / 2) 0 >>= fun r =>
        if r.2 < 0 then swapAt r.1 lo cnt ((cnt - 1) / 2) 0
        else condSwap r.1 lo cnt (cnt - 1) ((cnt - 1) / 2)) := by
    unfold med3; rfl
  generalize cnt - 1 = e at *
  generalize e / 2 = m at *
  -- step 1: end vs beg
  obtain ⟨s2, h1, hS1, hr1, hd1, k1⟩ := condSwap_spec (s := s) (lo := lo) hb he h0
  have hb2 : lo + cnt ≤ s2.arr.size := by rw [hS1.size_eq]; exact hb
  -- step 2: mid vs beg
  obtain ⟨s3, c2, hc2, hs3, hlt2, _, _⟩ := cmpAt_ok (s := s2) (lo := lo) hm h0 hb2
  have hb3 : lo + cnt ≤ s3.arr.size := by rw [hs3.1]; exact hb2
  have hunf : med3 s lo cnt = if c2 < 0 then swapAt s3 lo cnt m 0 else condSwap s3 lo cnt e m := by
    rw [hunf0, h1]
    show (cmpAt s2 lo cnt m 0 >>= _) = _
    rw [hc2]; rfl
  -- the order after step 1
  have o1 : ak s2.arr (lo + 0) ≤ ak s2.arr (lo + e) := by
    rcases k1 with ⟨hlt, k⟩ | ⟨hnlt, ea⟩
    · rw [k, k, if_pos rfl, if_neg (by omega), if_pos rfl]; omega
    · rw [ea]; omega
  by_cases hc20 : c2 < 0
  · obtain ⟨s4, hsw4, ha4, hr4, hd4⟩ := swapAt_ok (s := s3) (lo := lo) hm h0 hb3
    have hlt2' := hlt2.1 hc20
    have hm0 : m ≠ 0 := by intro e0; rw [e0] at hlt2'; omega
    refine ⟨s4, by rw [hunf, if_pos hc20]; exact hsw4, ?_,
      hr4.trans (hs3.2.1.trans hr1), hd4.trans (hs3.2.2.trans hd1), ?_⟩
    · refine hS1.trans ?_
      have : s4.arr = s2.arr.swap (lo + m) (lo + 0) (by omega) (by omega) := by rw [ha4]; simp only [hs3.1]
      rw [this]
      exact .one _ _ ⟨by omega, by omega⟩ ⟨by omega, by omega⟩
    · have k4 : ∀ x, ak s4.arr (lo + x) =
          if x = 0 then ak s2.arr (lo + m) else if x = m then ak s2.arr (lo + 0) else ak s2.arr (lo + x) := by
        intro x; rw [ha4, ak_swap_rel]; simp only [hs3.1]
      rw [k4, k4, k4, if_pos rfl, if_neg hm0, if_pos rfl, if_neg (by omega), if_neg (by omega)]
      omega
  · -- step 3: end vs mid
    obtain ⟨s6, h6, hS6, hr6, hd6, k6⟩ := condSwap_spec (s := s3) (lo := lo) hb3 he hm
    have hnlt2 : ¬ _ := fun h => hc20 (hlt2.2 h)
    rw [hs3.1] at k6 hS6
    refine ⟨s6, by rw [hunf, if_neg hc20]; exact h6, hS1.trans hS6, hr6.trans (hs3.2.1.trans hr1),
      hd6.trans (hs3.2.2.trans hd1), ?_⟩
    rcases k6 with ⟨hlt, k⟩ | ⟨hnlt, ea⟩
    · by_cases hm0 : m = 0
      · subst hm0
        rw [k, k, if_pos rfl, if_neg (by omega), if_pos rfl]; omega
      · rw [k, k, k, if_neg (Ne.symm hm0), if_neg (by omega), if_pos rfl, if_neg (by omega), if_pos rfl]
        omega
    · rw [ea]; omega

/-! ### the recursion -/

theorem pickPivot_spec (algo : Nat) (s : St) (lo cnt : Nat) (hb : lo + cnt ≤ s.arr.size) (hc : 1 < cnt) :
    ∃ s1 p, pickPivot algo s lo cnt = .ok (s1, p) ∧ p < cnt ∧ Sw lo (lo + cnt) s.arr s1.arr ∧
      s1.dflt = s.dflt ∧
      (algo ≠ 1 → s1.rnd = s.rnd ∧ p ≠ cnt - 1) ∧
      (algo = 1 → (s.rnd = [] ∧ s1.rnd = [] ∧ p = s.dflt % cnt) ∨
                  (∃ r rs, s.rnd = r :: rs ∧ s1.rnd = rs ∧ p = r % cnt)) ∧
      (algo = 2 → cnt ≤ 3 → SortedR s1.arr lo cnt) := by
  unfold pickPivot
  by_cases h1 : algo = 1
  · rw [if_pos h1]
    unfold draw
    cases hr : s.rnd with
    | nil =>
      refine ⟨s, s.dflt % cnt, rfl, Nat.mod_lt _ (by omega), .refl _, rfl, fun h => absurd h1 h,
        fun _ => .inl ⟨rfl, hr, rfl⟩, fun h => by omega⟩
    | cons r rs =>
      refine ⟨{ s with rnd := rs }, r % cnt, rfl, Nat.mod_lt _ (by omega), .refl _, rfl, fun h => absurd h1 h,
        fun _ => .inr ⟨r, rs, rfl, rfl, rfl⟩, fun h => by omega⟩
  · rw [if_neg h1]
    by_cases h2 : algo = 2
    · rw [if_pos h2]
      obtain ⟨s1, hm, hsw, hr, hd, o1, o2⟩ := med3_spec s lo cnt hb hc
      refine ⟨s1, (cnt - 1) / 2, ?_, by omega, hsw, hd, fun _ => ⟨hr, by omega⟩, fun h => absurd h h1, ?_⟩
      · show (med3 s lo cnt >>= _) = _
        rw [hm]; rfl
      · intro _ hc3 p q hpq hq
        have hcases : cnt = 2 ∨ cnt = 3 := by omega
        rcases hcases with rfl | rfl
        · have e1 : (2 - 1) / 2 = 0 := by decide
          have e2 : 2 - 1 = 1 := by decide
          rw [e1, e2] at o2
          have : (p = 0 ∧ q = 0) ∨ (p = 0 ∧ q = 1) ∨ (p = 1 ∧ q = 1) := by omega
          rcases this with ⟨rfl, rfl⟩ | ⟨rfl, rfl⟩ | ⟨rfl, rfl⟩ <;> omega
        · have e1 : (3 - 1) / 2 = 1 := by decide
          have e2 : 3 - 1 = 2 := by decide
          rw [e1] at o1 o2
          rw [e2] at o2
          have : (p = 0 ∨ p = 1 ∨ p = 2) ∧ (q = 0 ∨ q = 1 ∨ q = 2) := by omega
          rcases this with ⟨rfl | rfl | rfl, rfl | rfl | rfl⟩ <;> omega
    · rw [if_neg h2]
      exact ⟨s, 0, rfl, by omega, .refl _, rfl, fun _ => ⟨rfl, by omega⟩, fun h => absurd h h1, fun h => absurd h h2⟩

/-- fuel that is certainly enough: `count` for the deterministic pivots; for
the random pivot on a stream that ends in zeros, `count` plus the number of
explicit draws still to come (each draw can re-enter the same range once) -/
def Enough (algo f : Nat) (s : St) (cnt : Nat) : Prop :=
  if algo = 1 then s.dflt = 0 ∧ cnt + s.rnd.length ≤ f else cnt ≤ f

theorem qsort_unfold_small (algo f : Nat) (s : St) (lo cnt : Nat) (h : ¬ cnt > 1) :
    qsort algo f s lo cnt = .ok s := by
  cases f <;> simp [qsort, h, pure, Except.pure]

theorem qsort_unfold {algo f : Nat} {s s1 : St} {lo cnt p : Nat} (h : cnt > 1)
    (hp : pickPivot algo s lo cnt = .ok (s1, p)) :
    qsort algo (f + 1) s lo cnt =
      if algo ≠ 2 ∨ cnt > 3 then
        (partition s1 lo cnt p >>= fun r =>
          qsort algo f r.1 lo (r.2 + 1) >>= fun s3 => qsort algo f s3 (lo + r.2 + 1) (cnt - r.2 - 1))
      else pure s1 := by
  rw [qsort, if_pos h]
  show (pickPivot algo s lo cnt >>= _) = _
  rw [hp]; rfl

theorem qsort_main (algo : Nat) :
    ∀ (f : Nat) (s : St) (lo cnt : Nat), lo + cnt ≤ s.arr.size →
    (∃ s', qsort algo f s lo cnt = .ok s' ∧ Sw lo (lo + cnt) s.arr s'.arr ∧ SortedR s'.arr lo cnt ∧
        s'.dflt = s.dflt ∧ s'.rnd.length ≤ s.rnd.length ∧ (algo ≠ 1 → s'.rnd = s.rnd)) ∨
    (qsort algo f s lo cnt = .error .fuel ∧ ¬ Enough algo f s cnt) := by
  intro f
  induction f with
  | zero =>
    intro s lo cnt hb
    by_cases hc : cnt > 1
    · refine .inr ⟨by simp [qsort, hc], ?_⟩
      unfold Enough; split <;> omega
    · refine .inl ⟨s, qsort_unfold_small _ _ _ _ _ hc, .refl _, fun p q hpq hq => ?_, rfl, Nat.le_refl _, fun _ => rfl⟩
      have : p = q := by omega
      subst this; exact Int.le_refl _
  | succ f ih =>
    intro s lo cnt hb
    by_cases hc : cnt > 1
    · obtain ⟨s1, p, hpk, hpc, hsw1, hd1, hq1, hq2, hq3⟩ := pickPivot_spec algo s lo cnt hb hc
      have hb1 : lo + cnt ≤ s1.arr.size := by rw [hsw1.size_eq]; exact hb
      have hlen1 : s1.rnd.length ≤ s.rnd.length := by
        by_cases h1 : algo = 1
        · rcases hq2 h1 with ⟨a, b, _⟩ | ⟨r, rs, a, b, _⟩
          · rw [a, b]; exact Nat.le_refl _
          · rw [a, b]; simp
        · rw [(hq1 h1).1]; exact Nat.le_refl _
      by_cases hpart : algo ≠ 2 ∨ cnt > 3
      · obtain ⟨s2, m, hpt, hsw2, hr2, hd2, hm, hle, hge, hcorner, _⟩ := partition_spec s1 lo cnt p hb1 hpc
        have hb2 : lo + cnt ≤ s2.arr.size := by rw [hsw2.size_eq]; exact hb1
        have hunf : qsort algo (f + 1) s lo cnt =
            (qsort algo f s2 lo (m + 1) >>= fun s3 => qsort algo f s3 (lo + m + 1) (cnt - m - 1)) := by
          rw [qsort_unfold hc hpk, if_pos hpart, hpt]; rfl
        -- the left call never gets the whole range unless the pivot drawn was the last index
        have hshrink : p ≠ cnt - 1 → m + 1 ≤ cnt - 1 := by
          intro hne
          have : m ≠ cnt - 1 := fun e => hne (hcorner.1 e).1
          omega
        rcases ih s2 lo (m + 1) (by omega) with ⟨s3, h3, hsw3, hs3, hd3, hl3, hr3⟩ | ⟨h3, hne3⟩
        · have hb3 : lo + cnt ≤ s3.arr.size := by rw [hsw3.size_eq]; exact hb2
          have hrange : lo + m + 1 + (cnt - m - 1) = lo + cnt := by omega
          rcases ih s3 (lo + m + 1) (cnt - m - 1) (by omega) with ⟨s4, h4, hsw4, hs4, hd4, hl4, hr4⟩ | ⟨h4, hne4⟩
          · have hb4 : lo + cnt ≤ s4.arr.size := by rw [hsw4.size_eq]; exact hb3
            refine .inl ⟨s4, by rw [hunf, h3]; exact h4, ?_, ?_, ?_, ?_, ?_⟩
            · exact hsw1.trans (hsw2.trans ((hsw3.mono (Nat.le_refl _) (by omega)).trans
                (hsw4.mono (by omega) (by omega))))
            · -- sortedness of the whole range
              intro a b hab hbc
              have left_eq : ∀ t, t ≤ m → ak s4.arr (lo + t) = ak s3.arr (lo + t) :=
                fun t ht => hsw4.ak_outside (.inl (by omega))
              have right_eq3 : ∀ t, m < t → ak s3.arr (lo + t) = ak s2.arr (lo + t) :=
                fun t ht => hsw3.ak_outside (.inr (by omega))
              have left_le : ∀ t, t ≤ m → ak s4.arr (lo + t) ≤ ak s1.arr (lo + p) := by
                intro t ht
                rw [left_eq t ht]
                exact hsw3.ak_bound (fun v => v ≤ ak s1.arr (lo + p))
                  (fun k hk1 hk2 _ => by
                    have e : k = lo + (k - lo) := by omega
                    rw [e]; exact hle (k - lo) (by omega))
                  (lo + t) (by omega) (by omega) (by omega)
              have right_ge : ∀ t, m < t → t < cnt → ak s1.arr (lo + p) ≤ ak s4.arr (lo + t) := by
                intro t ht1 ht2
                exact hsw4.ak_bound (fun v => ak s1.arr (lo + p) ≤ v)
                  (fun k hk1 hk2 _ => by
                    have e : k = lo + (k - lo) := by omega
                    rw [e, right_eq3 (k - lo) (by omega)]; exact hge (k - lo) (by omega) (by omega))
                  (lo + t) (by omega) (by omega) (by omega)
              by_cases hbm : b ≤ m
              · rw [left_eq a (by omega), left_eq b hbm]
                exact hs3 a b hab (by omega)
              · by_cases ham : a ≤ m
                · exact Int.le_trans (left_le a ham) (right_ge b (by omega) hbc)
                · have := hs4 (a - (m + 1)) (b - (m + 1)) (by omega) (by omega)
                  have e1 : lo + m + 1 + (a - (m + 1)) = lo + a := by omega
                  have e2 : lo + m + 1 + (b - (m + 1)) = lo + b := by omega
                  rw [e1, e2] at this; exact this
            · rw [hd4, hd3, hd2, hd1]
            · rw [hr2] at hl3; omega
            · intro h1; rw [hr4 h1, hr3 h1, hr2, (hq1 h1).1]
          · refine .inr ⟨by rw [hunf, h3]; exact h4, ?_⟩
            intro hen
            apply hne4
            unfold Enough at hen ⊢
            by_cases h1 : algo = 1
            · rw [if_pos h1] at hen ⊢
              rw [hr2] at hl3
              exact ⟨by rw [hd3, hd2, hd1]; exact hen.1, by omega⟩
            · rw [if_neg h1] at hen ⊢; omega
        · refine .inr ⟨by rw [hunf, h3]; rfl, ?_⟩
          intro hen
          apply hne3
          unfold Enough at hen ⊢
          by_cases h1 : algo = 1
          · rw [if_pos h1] at hen ⊢
            refine ⟨by rw [hd2, hd1]; exact hen.1, ?_⟩
            rw [hr2]
            rcases hq2 h1 with ⟨a, b, c⟩ | ⟨r, rs, a, b, c⟩
            · have : p ≠ cnt - 1 := by rw [c, hen.1]; simp; omega
              have := hshrink this
              rw [b]; rw [a] at hen; simp at hen ⊢; omega
            · rw [b]; rw [a] at hen; simp at hen; omega
          · rw [if_neg h1] at hen ⊢
            have := hshrink (hq1 h1).2
            omega
      · have h2 : algo = 2 := by omega
        refine .inl ⟨s1, by rw [qsort_unfold hc hpk, if_neg hpart]; rfl, hsw1, hq3 h2 (by omega), hd1, hlen1,
          fun h1 => (hq1 h1).1⟩
    · refine .inl ⟨s, qsort_unfold_small _ _ _ _ _ hc, .refl _, fun p q hpq hq => ?_, rfl, Nat.le_refl _, fun _ => rfl⟩
      have : p = q := by omega
      subst this; exact Int.le_refl _

end Cstl.Sort
