import Cstl.Base.Driver
import Cstl.Sort.Model
/-
Driver for the sort area (same line protocol as harness/sort.c).

  arr <esz> k0 k1 …            new array, ids 0.., scratch = 0:0
  gen <esz> <kind> <n> <a> <b> new array from a formula (large inputs)
  sort <raw|vec> <algo> d…     cstl_raw_array_sort / __cstl_vector_sort, rand() = d… then 0
  search|find <raw|vec> <key>  probe element with that key
  rev <raw|vec>
  dump <from> <to>             elements of the slice

Output: `<result> | n=<count> e=<esz> t=<scratch> h=<hash of elements> [elements if n ≤ 64]`
where results carry the callback log (`c<i>,<j>` comparison, `s<i>,<j>` swap,
`x` = the probe) when n ≤ 64 and always its count and rolling hash.
-/
open Cstl Cstl.Sort

structure MState where
  st : St
  esz : Nat

def minit : MState := { st := { arr := #[] }, esz := 4 }

def showElem (e : Elem) : String := toString e.key ++ ":" ++ toString e.id

def showLoc : Loc → String
  | .probe => "x"
  | .idx i => toString i

def showEv : Ev → String
  | .cmp a b => "c" ++ showLoc a ++ "," ++ showLoc b
  | .swap a b => "s" ++ toString a ++ "," ++ toString b

def keepLimit : Nat := 64

def arrHash (a : Array Elem) : Nat :=
  a.foldl (fun h e => mix (mix h (e.key % (hmod : Int)).toNat) e.id) 0

def dumpSt (m : MState) : String :=
  let a := m.st.arr
  let base := "n=" ++ toString a.size ++ " e=" ++ toString m.esz ++ " t=" ++ showElem m.st.scr
    ++ " h=" ++ toString (arrHash a)
  if a.size ≤ keepLimit then
    base ++ " [" ++ " ".intercalate (a.toList.map showElem) ++ "]"
  else base

def showLog (l : Log) : String :=
  let base := "c=" ++ toString l.ncmp ++ " s=" ++ toString l.nswap ++ " lh=" ++ toString l.h
  if l.keep then base ++ " log=" ++ " ".intercalate (l.evs.reverse.map showEv) else base

/-- what the C side prints for the same event: an access outside the array or
the scratch cell is an AddressSanitizer report; "did not finish" (possible only
for the random pivot on a stream that never stops drawing the last index —
the driver's streams end in zeros, see `sort_total`) is unbounded recursion,
i.e. stack exhaustion; `ovf` needs more than 2^30 elements -/
def stopLine : Stop → String
  | .oob => "STOP asan"
  | .fuel => "STOP segv"
  | .ovf => "STOP ovf"

/-- start an operation: fresh log, fresh rand() stream -/
def begin (m : MState) (draws : List Nat) : St :=
  { m.st with rnd := draws, dflt := 0, log := { keep := decide (m.st.arr.size ≤ keepLimit) } }

def lcgNext (x : Nat) : Nat := (x * 1103515245 + 12345) % 2147483648

def genKeys (kind : String) (n a b : Nat) : Option (Array Int) :=
  match kind with
  | "sorted" => some ((Array.range n).map (fun (i : Nat) => (i : Int)))
  | "rev" => some ((Array.range n).map (fun (i : Nat) => ((n - 1 - i : Nat) : Int)))
  | "const" => some ((Array.range n).map (fun (_ : Nat) => (a : Int)))
  | "organ" => some ((Array.range n).map (fun (i : Nat) => ((min i (n - 1 - i) : Nat) : Int)))
  | "saw" => if a = 0 then none else some ((Array.range n).map (fun (i : Nat) => ((i % a : Nat) : Int)))
  | "rand" =>
    if b = 0 then none else
    let (_, ks) := (List.range n).foldl
      (fun (acc : Nat × Array Int) _ =>
        let x := lcgNext acc.1
        (x, acc.2.push (((x / 65536) % b : Nat) : Int)))
      (a, Array.mkEmpty n)
    some ks
  | _ => none

def mkArr (ks : Array Int) : Array Elem :=
  (Array.range ks.size).zipWith (fun i k => { key := k, id := i }) ks

-- `rawn`: raw array, the client passes NULL as scratch and its swap function uses its own buffer
def viaOk (v : String) : Bool := v == "raw" || v == "vec" || v == "rawn"

def mstep (m : MState) (ws : List String) : MState × String :=
  let bad := (m, "STOP bad-op")
  let fin (m' : MState) (r : String) : MState × String := (m', r ++ " | " ++ dumpSt m')
  match ws with
  | "arr" :: e :: ks =>
    match e.toNat?, ks.mapM parseInt? with
    | some e, some ks =>
      fin { st := { arr := mkArr ks.toArray }, esz := e } "ok"
    | _, _ => bad
  | ["gen", e, kind, n, a, b] =>
    match e.toNat?, n.toNat?, a.toNat?, b.toNat? with
    | some e, some n, some a, some b =>
      match genKeys kind n a b with
      | some ks => fin { st := { arr := mkArr ks }, esz := e } "ok"
      | none => bad
    | _, _, _, _ => bad
  | "sort" :: via :: algo :: ds =>
    match viaOk via, algo.toNat?, ds.mapM String.toNat? with
    | true, some algo, some ds =>
      let s := begin m ds
      match sort (sortFuel s) s algo with
      | .ok s' => fin { m with st := s' } ("ok " ++ showLog s'.log)
      | .error e => (m, stopLine e)
    | _, _, _ => bad
  | ["dump", a, b] =>
    match a.toNat?, b.toNat? with
    | some a, some b =>
      let xs := (m.st.arr.extract a b).toList
      fin m ("slice " ++ toString a ++ " " ++ toString b ++ " [" ++ " ".intercalate (xs.map showElem) ++ "]")
    | _, _ => bad
  | [op, via, key] =>
    match viaOk via, parseInt? key with
    | true, some k =>
      let s := begin m []
      let x : Elem := { key := k, id := 0 }
      if op = "search" then
        match search s x with
        | .ok (s', r) => fin { m with st := s' } ("r=" ++ toString r ++ " " ++ showLog s'.log)
        | .error e => (m, stopLine e)
      else if op = "find" then
        match find s x with
        | .ok (s', r) => fin { m with st := s' } ("r=" ++ toString r ++ " " ++ showLog s'.log)
        | .error e => (m, stopLine e)
      else bad
    | _, _ => bad
  | ["rev", via] =>
    if viaOk via then
      let s := begin m []
      match reverse s with
      | .ok s' => fin { m with st := s' } ("ok " ++ showLog s'.log)
      | .error e => (m, stopLine e)
    else bad
  | _ => bad

def main : IO Unit := runArea { init := minit, step := mstep }
