import Cstl.Sort.LemmasQuick
/-
C11 for the three quicksort selectors: the partition loop, the recursion,
termination, and the recorded random-pivot corner.
-/
namespace Cstl.Sort

/-- **partition spec** (`cstl_raw_array_qsort_p` on the range `(lo, cnt)` with
the pivot at relative position `p`): the call returns (every access inside
the range, both scans stop, the loop finishes), the array is a permutation
that is unchanged outside the range, the returned index `m` is inside the
range and splits it (everything up to `m` is `≤` the pivot value, everything
after it is `≥`), and both sub-ranges `[0,m]` and `(m,cnt)` are strictly
smaller than `cnt` — except in exactly one corner: the pivot sits at the last
position and is the strict maximum; then `m = cnt - 1`, nothing was swapped and
the left sub-range is the whole range again. -/
theorem qsortP_spec (s : St) (lo cnt p : Nat) (hb : lo + cnt ≤ s.arr.size) (hp : p < cnt) :
    ∃ s' m, partition s lo cnt p = .ok (s', m) ∧
      s'.arr.toList.Perm s.arr.toList ∧
      (∀ k, (k < lo ∨ lo + cnt ≤ k) → s'.arr[k]? = s.arr[k]?) ∧
      s'.rnd = s.rnd ∧ s'.dflt = s.dflt ∧
      m < cnt ∧
      (∀ t, t ≤ m → ak s'.arr (lo + t) ≤ ak s.arr (lo + p)) ∧
      (∀ t, m < t → t < cnt → ak s.arr (lo + p) ≤ ak s'.arr (lo + t)) ∧
      cnt - m - 1 < cnt ∧
      (m + 1 < cnt ∨
        (m + 1 = cnt ∧ p = cnt - 1 ∧ (∀ t, t < cnt - 1 → ak s.arr (lo + t) < ak s.arr (lo + p)) ∧
          s'.arr = s.arr)) ∧
      ((p = cnt - 1 ∧ ∀ t, t < cnt - 1 → ak s.arr (lo + t) < ak s.arr (lo + p)) → m + 1 = cnt) := by
  obtain ⟨s', m, h, hsw, hr, hd, hm, hle, hge, hcorner, hsame⟩ := partition_spec s lo cnt p hb hp
  refine ⟨s', m, h, hsw.perm, fun k hk => hsw.outside hk, hr, hd, hm, hle, hge, by omega, ?_, ?_⟩
  · by_cases e : m = cnt - 1
    · exact .inr ⟨by omega, (hcorner.1 e).1, (hcorner.1 e).2, hsame e⟩
    · exact .inl (by omega)
  · intro hc
    have := hcorner.2 hc
    omega

example : (partition { arr := #[⟨2, 0⟩, ⟨3, 1⟩, ⟨1, 2⟩, ⟨2, 3⟩] } 0 4 0).toOption.map (fun r => (r.1.arr, r.2)) =
    some (#[⟨2, 3⟩, ⟨1, 2⟩, ⟨3, 1⟩, ⟨2, 0⟩], 1) := by decide

/-- the hypotheses of `qsortP_spec` hold on a sub-range of a concrete array -/
example : True := by
  have := qsortP_spec { arr := #[⟨9, 0⟩, ⟨2, 1⟩, ⟨3, 2⟩, ⟨1, 3⟩, ⟨2, 4⟩] } 1 4 2 (by decide) (by decide)
  trivial

/-- **quicksort returns a sorted permutation whenever it finishes** — for
every selector (first element, random, median of three), every `rand()`
stream, every fuel; and it never touches anything outside `[0,count)`: the only
way not to return is running out of fuel. -/
theorem qsort_sorted_perm (algo fuel : Nat) (s : St) :
    (∃ s', qsort algo fuel s 0 s.arr.size = .ok s' ∧
      s'.arr.toList.Perm s.arr.toList ∧
      s'.arr.toList.Pairwise (fun x y => x.key ≤ y.key)) ∨
    qsort algo fuel s 0 s.arr.size = .error .fuel := by
  rcases qsort_main algo fuel s 0 s.arr.size (by omega) with ⟨s', h, hsw, hs, _⟩ | ⟨h, _⟩
  · refine .inl ⟨s', h, hsw.perm, ?_⟩
    rw [← sortedUpTo_iff_pairwise, hsw.size_eq]
    intro p q hpq hq
    have := hs p q hpq hq
    simpa using this
  · exact .inr h

/-- the same on a sub-range, as the recursive calls see it: only the range is
touched -/
theorem qsort_range (algo fuel : Nat) (s : St) (lo cnt : Nat) (hb : lo + cnt ≤ s.arr.size) :
    (∃ s', qsort algo fuel s lo cnt = .ok s' ∧ s'.arr.toList.Perm s.arr.toList ∧
      SortedR s'.arr lo cnt ∧ ∀ k, (k < lo ∨ lo + cnt ≤ k) → s'.arr[k]? = s.arr[k]?) ∨
    qsort algo fuel s lo cnt = .error .fuel := by
  rcases qsort_main algo fuel s lo cnt hb with ⟨s', h, hsw, hs, _⟩ | ⟨h, _⟩
  · exact .inl ⟨s', h, hsw.perm, hs, fun k hk => hsw.outside hk⟩
  · exact .inr h

/-- **quicksort with the first-element or the median-of-three pivot finishes**:
nesting depth `count` suffices (every recursive call is on a strictly smaller
range). -/
theorem qsort_terminates (algo fuel : Nat) (s : St) (halgo : algo ≠ 1) (hf : s.arr.size ≤ fuel) :
    ∃ s', qsort algo fuel s 0 s.arr.size = .ok s' ∧
      s'.arr.toList.Perm s.arr.toList ∧
      s'.arr.toList.Pairwise (fun x y => x.key ≤ y.key) := by
  rcases qsort_sorted_perm algo fuel s with h | h
  · exact h
  · rcases qsort_main algo fuel s 0 s.arr.size (by omega) with ⟨s', h', _⟩ | ⟨_, hne⟩
    · rw [h] at h'; cases h'
    · exact absurd (by unfold Enough; rw [if_neg halgo]; exact hf) hne

/-- **random pivot: which streams terminate.**  A stream is a finite list of
explicit draws followed by the constant `dflt`.  If the constant is 0 (what
the check's `rand()` returns after the scripted draws) the sort finishes within
nesting depth `count + number of explicit draws`: a draw can make a call
re-enter with the same range (it must pick the last index while that holds the
strict maximum), but each such re-entry consumes a draw, and the draw 0 never
does it. -/
theorem qsort_random_terminates (fuel : Nat) (s : St) (hd : s.dflt = 0)
    (hf : s.arr.size + s.rnd.length ≤ fuel) :
    ∃ s', qsort 1 fuel s 0 s.arr.size = .ok s' ∧
      s'.arr.toList.Perm s.arr.toList ∧
      s'.arr.toList.Pairwise (fun x y => x.key ≤ y.key) := by
  rcases qsort_sorted_perm 1 fuel s with h | h
  · exact h
  · rcases qsort_main 1 fuel s 0 s.arr.size (by omega) with ⟨s', h', _⟩ | ⟨_, hne⟩
    · rw [h] at h'; cases h'
    · exact absurd (by unfold Enough; rw [if_pos rfl]; exact ⟨hd, hf⟩) hne

/-- a stream with three "last index" draws on `[1,2,3]` (each re-enters the
same range) still finishes within `count + 3` -/
example : True := by
  have := qsort_random_terminates 6 { arr := #[⟨1, 0⟩, ⟨2, 1⟩, ⟨3, 2⟩], rnd := [2, 2, 2] } rfl (by decide)
  trivial
example : (qsort 1 6 { arr := #[⟨1, 0⟩, ⟨2, 1⟩, ⟨3, 2⟩], rnd := [2, 2, 2] } 0 3).toOption.map (·.rnd) = some [] := by
  decide
/-- … and does not finish within nesting depth `count` (the deterministic bound) -/
example : (match qsort 1 3 { arr := #[⟨1, 0⟩, ⟨2, 1⟩, ⟨3, 2⟩], rnd := [2, 2, 2] } 0 3 with
    | .error .fuel => true | _ => false) = true := by decide

/-- **the recorded non-termination corner of the random pivot**: on a range of
at least two elements whose last element is the strict maximum, the stream
that answers "last index" forever (`dflt % cnt = cnt - 1`, no explicit draws)
never finishes — for *every* fuel the result is "did not finish".  (In C:
unbounded recursion with the same arguments; harmless with the real `rand()`,
which does not return the same residue forever.) -/
theorem qsort_random_diverges (lo cnt : Nat) (hc : 1 < cnt) :
    ∀ (fuel : Nat) (s : St), lo + cnt ≤ s.arr.size → s.rnd = [] → s.dflt % cnt = cnt - 1 →
      (∀ t, t < cnt - 1 → ak s.arr (lo + t) < ak s.arr (lo + (cnt - 1))) →
      qsort 1 fuel s lo cnt = .error .fuel := by
  intro fuel
  induction fuel with
  | zero => intro s _ _ _ _; simp [qsort, hc]
  | succ f ih =>
    intro s hb hr hd hmax
    obtain ⟨s1, p, hpk, hpc, hsw1, hd1, _, hq2, _⟩ := pickPivot_spec 1 s lo cnt hb hc
    have hp : p = cnt - 1 ∧ s1.rnd = [] := by
      rcases hq2 rfl with ⟨_, b, c⟩ | ⟨r, rs, a, _, _⟩
      · exact ⟨by rw [c, hd], b⟩
      · rw [hr] at a; cases a
    have ha1 : s1.arr = s.arr := by
      have : pickPivot 1 s lo cnt = .ok (s, s.dflt % cnt) := by
        simp [pickPivot, draw, hr, pure, Except.pure]
      rw [this] at hpk; cases hpk; rfl
    have hb1 : lo + cnt ≤ s1.arr.size := by rw [ha1]; exact hb
    obtain ⟨s2, m, hpt, _, hr2, hd2, _, _, _, hcorner, hsame⟩ := partition_spec s1 lo cnt p hb1 hpc
    have hm : m = cnt - 1 := hcorner.2 ⟨hp.1, by rw [ha1, hp.1]; exact hmax⟩
    have ha2 : s2.arr = s.arr := (hsame hm).trans ha1
    have := ih s2 (by rw [ha2]; exact hb) (by rw [hr2]; exact hp.2) (by rw [hd2, hd1]; exact hd)
      (by rw [ha2]; exact hmax)
    rw [qsort_unfold hc hpk, if_pos (.inl (by decide)), hpt]
    show (qsort 1 f s2 lo (m + 1) >>= _) = _
    have e : m + 1 = cnt := by rw [hm]; exact Nat.sub_add_cancel (Nat.le_of_lt hc)
    rw [e, this]; rfl

/-- the smallest instance: `[1,2,3]`, `rand()` ≡ 2 -/
example : ∀ fuel, qsort 1 fuel { arr := #[⟨1, 0⟩, ⟨2, 1⟩, ⟨3, 2⟩], dflt := 2 } 0 3 = .error .fuel :=
  fun fuel => qsort_random_diverges 0 3 (by decide) fuel _ (by decide) rfl (by decide) (by
    intro t ht
    have : t = 0 ∨ t = 1 := by omega
    rcases this with rfl | rfl <;> decide)

example : (qsort 0 5 { arr := #[⟨2, 0⟩, ⟨3, 1⟩, ⟨1, 2⟩, ⟨2, 3⟩, ⟨1, 4⟩] } 0 5).toOption.map (·.arr) =
    some #[⟨1, 2⟩, ⟨1, 4⟩, ⟨2, 3⟩, ⟨2, 0⟩, ⟨3, 1⟩] := by decide

end Cstl.Sort
