import Cstl.Sort.Model
/-
Vocabulary of the translation of src/array.c's raw-array algorithms (tools/c2lean_sort.py →
Cstl/Gen/SortC.lean).  Everything the generated module mentions that is not already in
Cstl/Sort/Model.lean is defined here (core Lean only), so that the generated text stays a
statement-by-statement image of the C function.

Pointers.  The C code addresses elements as `(char *)arr + i * size` (`__cstl_raw_array_at`, whose
body the translator checks).  A pointer value of the translation is `Ptr`: `null`, or `el i` =
`arr + i * size` for the `arr` the enclosing function was handed (its position in the one global
array is the function's `lo`).  Equality of pointers is equality of `Ptr`s (`size ≥ 1`: distinct
indices are distinct addresses).  The comparison / swap callbacks called on `Ptr`s are the model's
logged, bounds-checked `cmpAt` / `swapAt`; a callback handed `NULL` is a stop.

Integers.  `size_t` is `Nat` with the wrap-around of 64-bit unsigned arithmetic written out
(`uadd`, `usub`, `umul`); C `int` / `ssize_t` variables are `Int`; signed `+ - *` are checked
(`i32` of the model, `i64`): signed overflow has no meaning in C, the translation stops with
`Stop.ovf`.  Conversions between integer types are gcc's (value-preserving where the value fits,
otherwise modulo 2^N); the arguments of `castU64` are values of C `int` / `ssize_t` variables.
-/
namespace Cstl.Sort.CSem
open Cstl.Sort

inductive Ptr where
  | null
  | el (i : Nat)
deriving DecidableEq, Repr, Inhabited

/-- `a + b` on `size_t` -/
def uadd (a b : Nat) : Nat := (a + b) % 18446744073709551616

/-- `a - b` on `size_t` (`b ≤ 2^64`) -/
def usub (a b : Nat) : Nat := (a + 18446744073709551616 - b) % 18446744073709551616

/-- `a * b` on `size_t` -/
def umul (a b : Nat) : Nat := (a * b) % 18446744073709551616

/-- `(size_t)v` for a value `v` of a signed type of at most 64 bits -/
def castU64 (v : Int) : Nat := if 0 ≤ v then v.toNat else (v + 18446744073709551616).toNat

/-- `(int)v` for a `size_t` value -/
def castI32 (v : Nat) : Int :=
  if v % 4294967296 < 2147483648 then ((v % 4294967296 : Nat) : Int)
  else ((v % 4294967296 : Nat) : Int) - 4294967296

/-- `(ssize_t)v` for a `size_t` value (`v < 2^64`) -/
def castI64 (v : Nat) : Int :=
  if v < 9223372036854775808 then (v : Int) else (v : Int) - 18446744073709551616

/-- checked `ssize_t` arithmetic -/
def i64 (v : Int) : R Int :=
  if -9223372036854775808 ≤ v ∧ v ≤ 9223372036854775807 then pure v else .error .ovf

/-- `cmp(a, b, priv)` on element pointers -/
def cmpP (s : St) (lo cnt : Nat) : Ptr → Ptr → R (St × Int)
  | .el i, .el j => cmpAt s lo cnt i j
  | _, _ => .error .oob

/-- `swap(a, b, t, size)` on element pointers -/
def swapP (s : St) (lo cnt : Nat) : Ptr → Ptr → R St
  | .el i, .el j => swapAt s lo cnt i j
  | _, _ => .error .oob

/-- `cmp(ex, at(k), priv)` inside a function that was handed `(arr+lo, cnt)` -/
def cmpProbeL (s : St) (lo cnt : Nat) (x : Elem) (k : Nat) : R (St × Int) :=
  if h : k < cnt ∧ lo + k < s.arr.size then
    .ok ({ s with log := s.log.cmp .probe (.idx (lo + k)) }, cmpKey x (s.arr[lo + k]'h.2))
  else .error .oob

def cmpProbeP (s : St) (lo cnt : Nat) (x : Elem) : Ptr → R (St × Int)
  | .el k => cmpProbeL s lo cnt x k
  | .null => .error .oob

/-! ### the facts the tie proofs use -/

@[simp] theorem cmpP_el (s : St) (lo cnt i j : Nat) : cmpP s lo cnt (.el i) (.el j) = cmpAt s lo cnt i j := rfl
@[simp] theorem swapP_el (s : St) (lo cnt i j : Nat) : swapP s lo cnt (.el i) (.el j) = swapAt s lo cnt i j := rfl
@[simp] theorem cmpProbeP_el (s : St) (lo cnt : Nat) (x : Elem) (k : Nat) :
    cmpProbeP s lo cnt x (.el k) = cmpProbeL s lo cnt x k := rfl

theorem cmpProbeL_zero (s : St) (cnt : Nat) (x : Elem) (k : Nat) :
    cmpProbeL s 0 cnt x k = cmpProbe s cnt x k := by
  unfold cmpProbeL cmpProbe
  by_cases h : k < cnt ∧ k < s.arr.size
  · have h' : k < cnt ∧ 0 + k < s.arr.size := by simpa using h
    rw [dif_pos h, dif_pos h']
    simp
  · have h' : ¬ (k < cnt ∧ 0 + k < s.arr.size) := by simpa using h
    rw [dif_neg h, dif_neg h']

theorem uadd_eq {a b : Nat} (h : a + b < 18446744073709551616) : uadd a b = a + b := by
  unfold uadd; omega

theorem usub_eq {a b : Nat} (h : b ≤ a) (ha : a < 18446744073709551616) : usub a b = a - b := by
  unfold usub; omega

theorem usub_wrap {a b : Nat} (h : a < b) (_hb : b ≤ 18446744073709551616) :
    usub a b = a + 18446744073709551616 - b := by
  unfold usub; omega

theorem umul_eq {a b : Nat} (h : a * b < 18446744073709551616) : umul a b = a * b := by
  unfold umul; omega

@[simp] theorem castU64_ofNat (n : Nat) : castU64 (Int.ofNat n) = n := by
  unfold castU64; simp

@[simp] theorem castU64_natCast (n : Nat) : castU64 (n : Int) = n := by
  unfold castU64; simp

theorem castU64_nonneg {v : Int} (h : 0 ≤ v) : castU64 v = v.toNat := by
  unfold castU64; simp [h]

theorem castI32_small {v : Nat} (h : v < 2147483648) : castI32 v = (v : Int) := by
  unfold castI32
  have : v % 4294967296 = v := by omega
  rw [this]; simp [h]

theorem castI32_max : castI32 18446744073709551615 = -1 := by decide

theorem castI64_small {v : Nat} (h : v < 9223372036854775808) : castI64 v = (v : Int) := by
  unfold castI64; simp [h]

theorem castI64_max : castI64 18446744073709551615 = -1 := by decide

theorem i64_ok {v : Int} (h : -9223372036854775808 ≤ v ∧ v ≤ 9223372036854775807) : i64 v = .ok v := by
  unfold i64; rw [if_pos h]; rfl

end Cstl.Sort.CSem
