import Cstl.Sort.Model
/-
Basic facts about the primitives of the sort model: what a comparison /
swap call returns, when it is in bounds, and the "obtained by swaps inside a
range" relation `Sw` that every sorting routine of the model satisfies.
-/
namespace Cstl.Sort

/-! ### comparison results -/

theorem cmpKey_lt {x y : Elem} : cmpKey x y < 0 ↔ x.key < y.key := by
  unfold cmpKey; split
  · simp [*]
  · split <;> omega

theorem cmpKey_gt {x y : Elem} : cmpKey x y > 0 ↔ x.key > y.key := by
  unfold cmpKey; split
  · omega
  · split <;> omega

theorem cmpKey_eq {x y : Elem} : cmpKey x y = 0 ↔ x.key = y.key := by
  unfold cmpKey; split
  · omega
  · split <;> omega

/-- spec-level accessor: the key stored at global index `i` (0 outside) -/
def ak (a : Array Elem) (i : Nat) : Int :=
  match a[i]? with
  | some e => e.key
  | none => 0

theorem ak_eq {a : Array Elem} {i : Nat} (h : i < a.size) : ak a i = a[i].key := by
  simp [ak, h]

/-- the parts of the state the theorems talk about (everything but the log
and the scratch cell) -/
def St.same (s s' : St) : Prop := s'.arr = s.arr ∧ s'.rnd = s.rnd ∧ s'.dflt = s.dflt

theorem St.same_refl (s : St) : s.same s := ⟨rfl, rfl, rfl⟩
theorem St.same_trans {a b c : St} (h1 : a.same b) (h2 : b.same c) : a.same c :=
  ⟨h2.1.trans h1.1, h2.2.1.trans h1.2.1, h2.2.2.trans h1.2.2⟩

/-! ### the primitives -/

theorem cmpAt_eq {s : St} {lo cnt i j : Nat}
    (hi : i < cnt) (hj : j < cnt) (hb : lo + cnt ≤ s.arr.size) :
    cmpAt s lo cnt i j =
      .ok ({ s with log := s.log.cmp (.idx (lo + i)) (.idx (lo + j)) },
           cmpKey (s.arr[lo + i]'(by omega)) (s.arr[lo + j]'(by omega))) := by
  have h1 : lo + i < s.arr.size := by omega
  have h2 : lo + j < s.arr.size := by omega
  simp [cmpAt, hi, hj, h1, h2]

theorem cmpAt_ok {s : St} {lo cnt i j : Nat}
    (hi : i < cnt) (hj : j < cnt) (hb : lo + cnt ≤ s.arr.size) :
    ∃ s' c, cmpAt s lo cnt i j = .ok (s', c) ∧ s.same s' ∧
      (c < 0 ↔ ak s.arr (lo + i) < ak s.arr (lo + j)) ∧
      (c > 0 ↔ ak s.arr (lo + i) > ak s.arr (lo + j)) ∧
      (c = 0 ↔ ak s.arr (lo + i) = ak s.arr (lo + j)) := by
  have h1 : lo + i < s.arr.size := by omega
  have h2 : lo + j < s.arr.size := by omega
  refine ⟨_, _, cmpAt_eq hi hj hb, ⟨rfl, rfl, rfl⟩, ?_, ?_, ?_⟩
  · rw [ak_eq h1, ak_eq h2]; exact cmpKey_lt
  · rw [ak_eq h1, ak_eq h2]; exact cmpKey_gt
  · rw [ak_eq h1, ak_eq h2]; exact cmpKey_eq

/-- a comparison that returns at all was in bounds (of the range it was given) -/
theorem cmpAt_inv {s : St} {lo cnt i j : Nat} {s' : St} {c : Int}
    (h : cmpAt s lo cnt i j = .ok (s', c)) :
    i < cnt ∧ j < cnt ∧ lo + i < s.arr.size ∧ lo + j < s.arr.size := by
  unfold cmpAt at h
  split at h
  · rename_i hh; omega
  · cases h

theorem cmpAt_err {s : St} {lo cnt i j : Nat} {e : Stop}
    (h : cmpAt s lo cnt i j = .error e) : e = .oob := by
  unfold cmpAt at h
  split at h
  · cases h
  · cases h; rfl

theorem cmpProbe_eq {s : St} {cnt k : Nat} (x : Elem) (hk : k < cnt) (hb : cnt ≤ s.arr.size) :
    cmpProbe s cnt x k =
      .ok ({ s with log := s.log.cmp .probe (.idx k) }, cmpKey x (s.arr[k]'(by omega))) := by
  have h1 : k < s.arr.size := by omega
  simp [cmpProbe, hk, h1]

theorem cmpProbe_ok {s : St} {cnt k : Nat} (x : Elem) (hk : k < cnt) (hb : cnt ≤ s.arr.size) :
    ∃ s' c, cmpProbe s cnt x k = .ok (s', c) ∧ s.same s' ∧
      (c < 0 ↔ x.key < ak s.arr k) ∧ (c > 0 ↔ x.key > ak s.arr k) ∧ (c = 0 ↔ x.key = ak s.arr k) := by
  have h1 : k < s.arr.size := by omega
  refine ⟨_, _, cmpProbe_eq x hk hb, ⟨rfl, rfl, rfl⟩, ?_, ?_, ?_⟩
  · rw [ak_eq h1]; exact cmpKey_lt
  · rw [ak_eq h1]; exact cmpKey_gt
  · rw [ak_eq h1]; exact cmpKey_eq

theorem swapAt_eq {s : St} {lo cnt i j : Nat}
    (hi : i < cnt) (hj : j < cnt) (hb : lo + cnt ≤ s.arr.size) :
    swapAt s lo cnt i j =
      .ok { s with arr := s.arr.swap (lo + i) (lo + j) (by omega) (by omega),
                   scr := s.arr[lo + i]'(by omega),
                   log := s.log.swap (lo + i) (lo + j) } := by
  have h1 : lo + i < s.arr.size := by omega
  have h2 : lo + j < s.arr.size := by omega
  simp only [swapAt, hi, hj, h1, h2, and_self, ↓reduceDIte]
  rfl

theorem swapAt_ok {s : St} {lo cnt i j : Nat}
    (hi : i < cnt) (hj : j < cnt) (hb : lo + cnt ≤ s.arr.size) :
    ∃ s', swapAt s lo cnt i j = .ok s' ∧
      s'.arr = s.arr.swap (lo + i) (lo + j) (by omega) (by omega) ∧
      s'.rnd = s.rnd ∧ s'.dflt = s.dflt :=
  ⟨_, swapAt_eq hi hj hb, rfl, rfl, rfl⟩

theorem swapAt_err {s : St} {lo cnt i j : Nat} {e : Stop}
    (h : swapAt s lo cnt i j = .error e) : e = .oob := by
  unfold swapAt at h
  split at h
  · cases h
  · cases h; rfl

/-! ### "obtained by swaps of positions inside `[lo,hi)`" -/

inductive Sw (lo hi : Nat) : Array Elem → Array Elem → Prop
  | refl (a : Array Elem) : Sw lo hi a a
  | step {a b : Array Elem} {i j : Nat} (h1 : i < a.size) (h2 : j < a.size)
      (hi' : lo ≤ i ∧ i < hi) (hj : lo ≤ j ∧ j < hi) :
      Sw lo hi (a.swap i j h1 h2) b → Sw lo hi a b

theorem Sw.one {lo hi : Nat} {a : Array Elem} {i j : Nat} (h1 : i < a.size) (h2 : j < a.size)
    (hi' : lo ≤ i ∧ i < hi) (hj : lo ≤ j ∧ j < hi) : Sw lo hi a (a.swap i j h1 h2) :=
  .step h1 h2 hi' hj (.refl _)

theorem Sw.trans {lo hi : Nat} {a b c : Array Elem} (h1 : Sw lo hi a b) (h2 : Sw lo hi b c) :
    Sw lo hi a c := by
  induction h1 with
  | refl => exact h2
  | step p q r t _ ih => exact .step p q r t (ih h2)

theorem Sw.mono {lo hi lo' hi' : Nat} {a b : Array Elem} (h : Sw lo hi a b)
    (hl : lo' ≤ lo) (hh : hi ≤ hi') : Sw lo' hi' a b := by
  induction h with
  | refl => exact .refl _
  | step p q r t _ ih => exact .step p q ⟨by omega, by omega⟩ ⟨by omega, by omega⟩ ih

theorem Sw.size_eq {lo hi : Nat} {a b : Array Elem} (h : Sw lo hi a b) : b.size = a.size := by
  induction h with
  | refl => rfl
  | step p q r t _ ih => simpa using ih

theorem Sw.perm {lo hi : Nat} {a b : Array Elem} (h : Sw lo hi a b) : b.toList.Perm a.toList := by
  induction h with
  | refl => exact List.Perm.refl _
  | step p q r t _ ih => exact ih.trans (Array.swap_perm p q).toList

theorem Sw.outside {lo hi : Nat} {a b : Array Elem} (h : Sw lo hi a b) {k : Nat}
    (hk : k < lo ∨ hi ≤ k) : b[k]? = a[k]? := by
  induction h with
  | refl => rfl
  | @step a b i j p q r t _ ih =>
    rw [ih, Array.getElem?_swap]
    have e1 : ¬ j = k := by omega
    have e2 : ¬ i = k := by omega
    simp [e1, e2]

theorem Sw.closed {lo hi : Nat} {a b : Array Elem} (h : Sw lo hi a b) {k : Nat}
    (hk1 : lo ≤ k) (hk2 : k < hi) (hk3 : k < b.size) :
    ∃ k', lo ≤ k' ∧ k' < hi ∧ k' < a.size ∧ b[k]? = a[k']? := by
  induction h with
  | refl => exact ⟨k, hk1, hk2, hk3, rfl⟩
  | @step a b i j p q r t _ ih =>
    obtain ⟨k', a1, a2, a3, a4⟩ := ih hk3
    simp only [Array.size_swap] at a3
    rw [a4, Array.getElem?_swap]
    by_cases e1 : j = k'
    · exact ⟨i, r.1, r.2, p, by simp [e1]⟩
    · by_cases e2 : i = k'
      · exact ⟨j, t.1, t.2, q, by simp [e1, e2]⟩
      · exact ⟨k', a1, a2, a3, by simp [e1, e2]⟩

theorem Sw.ak_outside {lo hi : Nat} {a b : Array Elem} (h : Sw lo hi a b) {k : Nat}
    (hk : k < lo ∨ hi ≤ k) : ak b k = ak a k := by
  simp [ak, h.outside hk]

/-- a bound that holds for every key of the range before, holds after -/
theorem Sw.ak_bound {lo hi : Nat} {a b : Array Elem} (h : Sw lo hi a b) (P : Int → Prop)
    (hP : ∀ k, lo ≤ k → k < hi → k < a.size → P (ak a k)) :
    ∀ k, lo ≤ k → k < hi → k < b.size → P (ak b k) := by
  intro k h1 h2 h3
  obtain ⟨k', a1, a2, a3, a4⟩ := h.closed h1 h2 h3
  have : ak b k = ak a k' := by simp [ak, a4]
  rw [this]; exact hP k' a1 a2 a3

theorem ak_swap {a : Array Elem} {i j : Nat} (h1 : i < a.size) (h2 : j < a.size) (k : Nat) :
    ak (a.swap i j h1 h2) k = if k = j then ak a i else if k = i then ak a j else ak a k := by
  simp only [ak, Array.getElem?_swap]
  by_cases e1 : j = k
  · subst e1; simp [h1]
  · by_cases e2 : i = k
    · subst e2; simp [e1, h2, Ne.symm e1]
    · simp [e1, e2, Ne.symm e1, Ne.symm e2]

theorem ak_swap_rel {a : Array Elem} {lo n c : Nat} (h1 : lo + n < a.size) (h2 : lo + c < a.size) (x : Nat) :
    ak (a.swap (lo + n) (lo + c) h1 h2) (lo + x) =
      if x = c then ak a (lo + n) else if x = n then ak a (lo + c) else ak a (lo + x) := by
  rw [ak_swap]; simp [Nat.add_left_cancel_iff]

/-! ### sortedness -/

/-- keys of the range `(lo, cnt)` are non-decreasing -/
def SortedR (a : Array Elem) (lo cnt : Nat) : Prop :=
  ∀ p q, p ≤ q → q < cnt → ak a (lo + p) ≤ ak a (lo + q)


/-- non-decreasing keys on `[0,cnt)` -/
def SortedUpTo (a : Array Elem) (cnt : Nat) : Prop :=
  ∀ p q, p ≤ q → q < cnt → ak a p ≤ ak a q

/-- the standard formulation on the list of elements -/
theorem sortedUpTo_iff_pairwise (a : Array Elem) :
    SortedUpTo a a.size ↔ a.toList.Pairwise (fun x y => x.key ≤ y.key) := by
  rw [List.pairwise_iff_getElem]
  constructor
  · intro h i j hi hj hij
    have := h i j (by omega) (by simpa using hj)
    rw [ak_eq (by simpa using hi), ak_eq (by simpa using hj)] at this
    simpa using this
  · intro h p q hpq hq
    rcases Nat.lt_or_eq_of_le hpq with hlt | rfl
    · have := h p q (by simp; omega) (by simpa using hq) hlt
      rw [ak_eq (by omega), ak_eq hq]
      simpa using this
    · exact Int.le_refl _

theorem sortedR_zero {a : Array Elem} {cnt : Nat} (h : SortedR a 0 cnt) : SortedUpTo a cnt := by
  intro p q hpq hq
  have := h p q hpq hq
  simpa using this

end Cstl.Sort
