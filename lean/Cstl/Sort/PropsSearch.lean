import Cstl.Sort.LemmasSearch
/-
C11, second sentence: linear find returns the first match, binary search on a
sorted array returns a matching index iff one exists, reverse mirrors.
All three are total statements: the model call returns (no out-of-range
access, fuel suffices, no `int` overflow for the stated sizes).
-/
namespace Cstl.Sort

/-! ### linear find -/

/-- **find returns the first index whose element compares equal to the probe,
or -1 when there is none**, on any array; the array is not modified. -/
theorem find_first (s : St) (x : Elem) :
    ∃ s' r, find s x = .ok (s', r) ∧ s'.arr = s.arr ∧
      ((r = -1 ∧ ∀ k, k < s.arr.size → ak s.arr k ≠ x.key) ∨
       (∃ n : Nat, r = (n : Int) ∧ n < s.arr.size ∧ ak s.arr n = x.key ∧
          ∀ k, k < n → ak s.arr k ≠ x.key)) := by
  obtain ⟨s', r, h, hs, hr⟩ := findLoop_spec x s.arr.size (s.arr.size + 1) s 0 (Nat.le_refl _) (by omega) (by omega)
  refine ⟨s', r, h, hs.1, ?_⟩
  rcases hr with ⟨e, hall⟩ | ⟨n, e, _, b, c, d⟩
  · exact .inl ⟨e, fun k hk => hall k (Nat.zero_le _) hk⟩
  · exact .inr ⟨n, e, b, c, fun k hk => d k (Nat.zero_le _) hk⟩

example : (find { arr := #[⟨3, 0⟩, ⟨1, 1⟩, ⟨3, 2⟩, ⟨1, 3⟩] } ⟨1, 9⟩).toOption.map (·.2) = some 1 := by decide

/-! ### reverse -/

/-- **reverse exactly mirrors the order** (element for element, not only the
keys), for every array whose length fits C `int`; it returns (no out-of-range
access, no overflow, fuel suffices). -/
theorem reverse_mirror (s : St) (h : s.arr.size ≤ 2147483648) :
    ∃ s', reverse s = .ok s' ∧ s'.arr.toList = s.arr.toList.reverse ∧
      s'.rnd = s.rnd ∧ s'.dflt = s.dflt := by
  obtain ⟨s', h1, h2, h3, hsame⟩ := revLoop_spec s.arr.size (s.arr.size + 1) s 0 ((s.arr.size : Int) - 1)
    rfl h (by omega) (by omega) (by omega)
  refine ⟨s', ?_, ?_, hsame⟩
  · unfold reverse
    rw [lastIdx_ok h]
    exact h1
  · apply List.ext_getElem?
    intro k
    rw [Array.getElem?_toList, h3 k]
    by_cases hk : k < s.arr.size
    · rw [if_pos ⟨Nat.zero_le _, by omega⟩, List.getElem?_reverse (by simpa using hk)]
      simp
    · rw [if_neg (by omega)]
      have : s.arr.toList.reverse.length ≤ k := by simp; omega
      rw [List.getElem?_eq_none this]
      simp; omega

/-- reverse keeps exactly the same elements whenever it returns (any length) -/
theorem reverse_perm {s s' : St} (h : reverse s = .ok s') : s'.arr.toList.Perm s.arr.toList := by
  by_cases hsz : s.arr.size ≤ 2147483648
  · obtain ⟨s2, h2, hl, _⟩ := reverse_mirror s hsz
    rw [h] at h2; cases h2
    rw [hl]; exact List.reverse_perm _
  · exfalso
    unfold reverse lastIdx at h
    rw [if_neg (by omega)] at h
    have : i32 ((s.arr.size : Int) - 1) = .error .ovf := by
      unfold i32; rw [if_neg (by omega)]
    rw [this] at h; cases h

example : (reverse { arr := #[⟨3, 0⟩, ⟨1, 1⟩, ⟨2, 2⟩] }).toOption.map (·.arr) = some #[⟨2, 2⟩, ⟨1, 1⟩, ⟨3, 0⟩] := by
  decide

/-! ### binary search -/

/-- **binary search on a sorted array returns an index whose element compares
equal to the probe if one exists and -1 otherwise** (so: a non-negative result
iff a match exists), for every length up to 2^30 (all `int` intermediates
`i + j`, `n ± 1` then fit 32 bits: the model would return `Stop.ovf`
otherwise); every access is inside the array; the array is not modified. -/
theorem search_spec (s : St) (x : Elem) (hsz : s.arr.size ≤ 1073741824)
    (hsorted : s.arr.toList.Pairwise (fun a b => a.key ≤ b.key)) :
    ∃ s' r, search s x = .ok (s', r) ∧ s'.arr = s.arr ∧
      ((r = -1 ∧ ∀ k, k < s.arr.size → ak s.arr k ≠ x.key) ∨
       (∃ n : Nat, r = (n : Int) ∧ n < s.arr.size ∧ ak s.arr n = x.key)) := by
  have hs := (sortedUpTo_iff_pairwise s.arr).2 hsorted
  obtain ⟨s', r, h, hsame, hr⟩ := searchLoop_spec x s.arr.size hsz (s.arr.size + 1) s 0
    ((s.arr.size : Int) - 1) (Nat.le_refl _) hs (by omega) (by omega) (by omega) (by omega)
    (fun k hk => by omega) (fun k hk1 hk2 => by omega)
  refine ⟨s', r, ?_, hsame.1, hr⟩
  unfold search
  rw [lastIdx_ok (by omega)]
  exact h

/-- the "if and only if" reading of `search_spec` -/
theorem search_iff (s : St) (x : Elem) (hsz : s.arr.size ≤ 1073741824)
    (hsorted : s.arr.toList.Pairwise (fun a b => a.key ≤ b.key)) :
    ∃ s' r, search s x = .ok (s', r) ∧
      ((∃ k, k < s.arr.size ∧ ak s.arr k = x.key) ↔
        (0 ≤ r ∧ r.toNat < s.arr.size ∧ ak s.arr r.toNat = x.key)) ∧
      ((¬ ∃ k, k < s.arr.size ∧ ak s.arr k = x.key) ↔ r = -1) := by
  obtain ⟨s', r, h, _, hr⟩ := search_spec s x hsz hsorted
  refine ⟨s', r, h, ?_, ?_⟩
  · rcases hr with ⟨e, hall⟩ | ⟨n, e, hn, hk⟩
    · subst e
      constructor
      · rintro ⟨k, hk, he⟩; exact absurd he (hall k hk)
      · rintro ⟨h0, _⟩; omega
    · subst e
      constructor
      · intro _; exact ⟨by omega, by simpa using hn, by simpa using hk⟩
      · intro _; exact ⟨n, hn, hk⟩
  · rcases hr with ⟨e, hall⟩ | ⟨n, e, hn, hk⟩
    · subst e
      constructor
      · intro _; rfl
      · rintro _ ⟨k, hk, he⟩; exact absurd he (hall k hk)
    · subst e
      constructor
      · intro hne; exact absurd ⟨n, hn, hk⟩ hne
      · intro e; omega

example : (search { arr := #[⟨1, 0⟩, ⟨1, 1⟩, ⟨2, 2⟩, ⟨5, 3⟩] } ⟨2, 9⟩).toOption.map (·.2) = some 2 := by decide
example : (search { arr := #[⟨1, 0⟩, ⟨1, 1⟩, ⟨2, 2⟩, ⟨5, 3⟩] } ⟨3, 9⟩).toOption.map (·.2) = some (-1) := by decide
/-- the hypotheses of `search_spec` hold on a concrete array with duplicates -/
example : True := by
  have := search_spec { arr := #[⟨1, 0⟩, ⟨1, 1⟩, ⟨2, 2⟩, ⟨5, 3⟩] } ⟨2, 9⟩ (by decide) (by simp)
  trivial

/-- **binary search never modifies the array** (sorted or not) -/
theorem search_arr {s : St} {x : Elem} {r : St × Int} (h : search s x = .ok r) : r.1.arr = s.arr := by
  unfold search at h
  obtain ⟨j, _, h⟩ := bind_ok h
  exact searchLoop_arr _ _ _ _ _ _ _ _ h

end Cstl.Sort
