import Cstl.Sort.Model
namespace Cstl.Sort
end Cstl.Sort
