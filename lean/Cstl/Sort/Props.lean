import Cstl.Sort.PropsSearch
import Cstl.Sort.PropsHeap
import Cstl.Sort.PropsQuick
/-
C11, first sentence, for `cstl_raw_array_sort` (= `__cstl_vector_sort`, which
passes `(base, count, size, scratch = slot cap)` through): every selector —
the four named algorithms and every out-of-range value — leaves a sorted
permutation and never reaches outside the array.

The per-algorithm theorems are in PropsQuick.lean / PropsHeap.lean, the
search / find / reverse theorems in PropsSearch.lean.
-/
namespace Cstl.Sort

/-- **default fallback**: every out-of-range selector behaves exactly like
`CSTL_SORT_ALGORITHM_DEFAULT` (median-of-three quicksort) -/
theorem sort_default (fuel : Nat) (s : St) (algo : Nat) (h : 3 < algo) :
    sort fuel s algo = sort fuel s 2 := by
  have e : effAlgo algo = 2 := by unfold effAlgo; rw [if_neg (by omega)]
  have e2 : effAlgo 2 = 2 := by decide
  unfold sort
  simp only [e, e2]

/-- **every selector returns a sorted permutation whenever it returns, and
never touches anything outside `[0,count)` ∪ {scratch}**: the model checks
every element access against the range and the only other cell it writes is
the scratch cell, so "no access outside" is "the result is never `oob`"; the
only way not to return is the recursion budget of the random-pivot corner. -/
theorem sort_sorted_perm (fuel : Nat) (s : St) (algo : Nat) :
    (∃ s', sort fuel s algo = .ok s' ∧
      s'.arr.toList.Perm s.arr.toList ∧
      s'.arr.toList.Pairwise (fun x y => x.key ≤ y.key)) ∨
    sort fuel s algo = .error .fuel := by
  unfold sort
  by_cases h : effAlgo algo = 3
  · simp only [h, if_true]
    obtain ⟨s', h1, h2, h3, _⟩ := hsort_sorted_perm s
    exact .inl ⟨s', h1, h2, h3⟩
  · simp only [h, if_false]
    exact qsort_sorted_perm _ _ _

/-- no out-of-range access and no `int` overflow, for every selector, stream and fuel -/
theorem sort_no_oob (fuel : Nat) (s : St) (algo : Nat) :
    sort fuel s algo ≠ .error .oob ∧ sort fuel s algo ≠ .error .ovf := by
  rcases sort_sorted_perm fuel s algo with ⟨s', h, _⟩ | h <;> rw [h] <;> exact ⟨by simp, by simp⟩

/-- **the sort always finishes for the deterministic selectors** (first
element, median of three, heapsort, every out-of-range value) with recursion
budget `count` -/
theorem sort_terminates (fuel : Nat) (s : St) (algo : Nat) (halgo : algo ≠ 1) (hf : s.arr.size ≤ fuel) :
    ∃ s', sort fuel s algo = .ok s' ∧
      s'.arr.toList.Perm s.arr.toList ∧
      s'.arr.toList.Pairwise (fun x y => x.key ≤ y.key) := by
  have he : effAlgo algo ≠ 1 := by unfold effAlgo; split <;> omega
  unfold sort
  by_cases h : effAlgo algo = 3
  · simp only [h, if_true]
    obtain ⟨s', h1, h2, h3, _⟩ := hsort_sorted_perm s
    exact ⟨s', h1, h2, h3⟩
  · simp only [h, if_false]
    exact qsort_terminates _ _ _ he hf

/-- **the configuration the correspondence check runs** (`rand()` = the
scripted draws, then 0; budget `sortFuel`) always returns a sorted
permutation, for every selector and every list of draws -/
theorem sort_total (s : St) (algo : Nat) (hd : s.dflt = 0) :
    ∃ s', sort (sortFuel s) s algo = .ok s' ∧
      s'.arr.toList.Perm s.arr.toList ∧
      s'.arr.toList.Pairwise (fun x y => x.key ≤ y.key) := by
  by_cases h1 : effAlgo algo = 1
  · unfold sort
    simp only [h1, show (1 : Nat) ≠ 3 by decide, if_false]
    exact qsort_random_terminates _ _ hd (by unfold sortFuel; omega)
  · rcases sort_sorted_perm (sortFuel s) s algo with h | h
    · exact h
    · exfalso
      unfold sort at h
      by_cases h3 : effAlgo algo = 3
      · simp only [h3, if_true] at h
        obtain ⟨s', h', _⟩ := hsort_sorted_perm s
        rw [h] at h'; cases h'
      · simp only [h3, if_false] at h
        obtain ⟨s', h', _⟩ := qsort_terminates (effAlgo algo) (sortFuel s) s h1 (by unfold sortFuel; omega)
        rw [h] at h'; cases h'

example : ((sort 9 { arr := #[⟨2, 0⟩, ⟨3, 1⟩, ⟨1, 2⟩, ⟨2, 3⟩, ⟨1, 4⟩], rnd := [4, 4, 1] } 1).toOption.map
    (fun s => s.arr.toList.map (·.key))) = some [1, 1, 2, 2, 3] := by decide

example : ((sort 5 { arr := #[⟨2, 0⟩, ⟨3, 1⟩, ⟨1, 2⟩, ⟨2, 3⟩, ⟨1, 4⟩] } 77).toOption.map
    (fun s => s.arr.toList.map (·.key))) = some [1, 1, 2, 2, 3] := by decide

example : True := by
  have := sort_terminates 5 { arr := #[⟨2, 0⟩, ⟨3, 1⟩, ⟨1, 2⟩, ⟨2, 3⟩, ⟨1, 4⟩] } 0 (by decide) (by decide)
  have := sort_total { arr := #[⟨2, 0⟩, ⟨3, 1⟩, ⟨1, 2⟩, ⟨2, 3⟩, ⟨1, 4⟩], rnd := [4, 4, 1] } 1 rfl
  trivial

/-! ### histories: any sequence of the modifying / reading calls -/

/-- one call of the public API on the same array (what a line of the check's
scripts does) -/
inductive Op where
  | sort (algo : Nat) (draws : List Nat)
  | rev
  | search (x : Elem)
  | find (x : Elem)

def runOp (s : St) : Op → R St
  | .sort algo draws =>
    let s0 := { s with rnd := draws, dflt := 0 }
    sort (sortFuel s0) s0 algo
  | .rev => reverse s
  | .search x => (search s x).map (·.1)
  | .find x => (find s x).map (·.1)

def run : List Op → St → R St
  | [], s => pure s
  | op :: ops, s => runOp s op >>= run ops

/-- **every history of sort / reverse / search / find calls** (any selectors,
any draws, any probes, sorted or not) that returns leaves a permutation of
the original `(key,id)` elements: nothing is ever lost, duplicated or altered.
(That each `sort` step returns, sorted, is `sort_total`.) -/
theorem run_perm : ∀ (ops : List Op) (s s' : St), run ops s = .ok s' →
    s'.arr.toList.Perm s.arr.toList := by
  intro ops
  induction ops with
  | nil => intro s s' h; cases h; exact List.Perm.refl _
  | cons op ops ih =>
    intro s s' h
    unfold run at h
    cases hop : runOp s op with
    | error e => rw [hop] at h; cases h
    | ok s1 =>
      rw [hop] at h
      refine (ih s1 s' h).trans ?_
      cases op with
      | sort algo draws =>
        have hop' : sort (sortFuel { s with rnd := draws, dflt := 0 }) { s with rnd := draws, dflt := 0 } algo
            = .ok s1 := hop
        rcases sort_sorted_perm (sortFuel { s with rnd := draws, dflt := 0 })
            { s with rnd := draws, dflt := 0 } algo with ⟨s2, h2, hp, _⟩ | h2
        · rw [hop'] at h2; cases h2; exact hp
        · rw [hop'] at h2; cases h2
      | rev => exact reverse_perm hop
      | search x =>
        have hop' : (search s x).map (·.1) = .ok s1 := hop
        cases hs : search s x with
        | error e => rw [hs] at hop'; cases hop'
        | ok r =>
          rw [hs] at hop'
          cases hop'
          show r.1.arr.toList.Perm s.arr.toList
          rw [search_arr hs]
      | find x =>
        have hop' : (find s x).map (·.1) = .ok s1 := hop
        obtain ⟨s2, r, h2, ha, _⟩ := find_first s x
        rw [h2] at hop'; cases hop'
        show s2.arr.toList.Perm s.arr.toList
        rw [ha]

example : (run [.find ⟨2, 0⟩, .rev, .sort 1 [2, 2], .search ⟨3, 0⟩, .sort 99 []]
    { arr := #[⟨2, 0⟩, ⟨3, 1⟩, ⟨1, 2⟩] }).toOption.map (fun s => s.arr.toList.map (·.key)) = some [1, 2, 3] := by
  decide

end Cstl.Sort
