import Cstl.Sort.LemmasHeap
/-
C11 for the heapsort selector: `cstl_raw_array_hsort` returns (every access
inside the array handed to it, all loops finish) with a sorted permutation.
-/
namespace Cstl.Sort

/-- **heapsort returns a sorted permutation** of the whole array: it always
returns (never `oob`, never out of fuel), the result holds exactly the input
elements (`List.Perm` on the `(key,id)` elements: nothing lost, duplicated or
altered) in non-decreasing key order; the `rand()` stream is untouched. -/
theorem hsort_sorted_perm (s : St) :
    ∃ s', hsort s 0 s.arr.size = .ok s' ∧
      s'.arr.toList.Perm s.arr.toList ∧
      s'.arr.toList.Pairwise (fun x y => x.key ≤ y.key) ∧
      s'.rnd = s.rnd ∧ s'.dflt = s.dflt := by
  obtain ⟨s', h, hsw, hr, hd, hs⟩ := hsort_spec s 0 s.arr.size (by omega)
  refine ⟨s', h, hsw.perm, ?_, hr, hd⟩
  rw [← sortedUpTo_iff_pairwise, hsw.size_eq]
  exact sortedR_zero hs

/-- heapsort of a sub-range `(lo, cnt)`: sorted inside, untouched outside,
every access inside the sub-range -/
theorem hsort_range (s : St) (lo cnt : Nat) (hb : lo + cnt ≤ s.arr.size) :
    ∃ s', hsort s lo cnt = .ok s' ∧ s'.arr.toList.Perm s.arr.toList ∧
      SortedR s'.arr lo cnt ∧ ∀ k, (k < lo ∨ lo + cnt ≤ k) → s'.arr[k]? = s.arr[k]? := by
  obtain ⟨s', h, hsw, _, _, hs⟩ := hsort_spec s lo cnt hb
  exact ⟨s', h, hsw.perm, hs, fun k hk => hsw.outside hk⟩

example : (hsort { arr := #[⟨3, 0⟩, ⟨1, 1⟩, ⟨2, 2⟩, ⟨3, 3⟩, ⟨0, 4⟩] } 0 5).toOption.map (·.arr) =
    some #[⟨0, 4⟩, ⟨1, 1⟩, ⟨2, 2⟩, ⟨3, 3⟩, ⟨3, 0⟩] := by decide

end Cstl.Sort
