import Cstl.Sort.Lemmas
/-
Loop invariants of linear find, reverse and binary search (helper lemmas for
PropsSearch.lean).
-/
namespace Cstl.Sort

theorem findLoop_spec (x : Elem) (cnt : Nat) :
    ∀ (f : Nat) (s : St) (i : Nat), cnt ≤ s.arr.size → cnt + 1 ≤ f + i → i ≤ cnt →
    ∃ s' r, findLoop cnt x f s i = .ok (s', r) ∧ s.same s' ∧
      ((r = -1 ∧ ∀ k, i ≤ k → k < cnt → ak s.arr k ≠ x.key) ∨
       (∃ n : Nat, r = (n : Int) ∧ i ≤ n ∧ n < cnt ∧ ak s.arr n = x.key ∧
          ∀ k, i ≤ k → k < n → ak s.arr k ≠ x.key)) := by
  intro f
  induction f with
  | zero => intro s i _ h1 h2; omega
  | succ f ih =>
    intro s i hb h1 h2
    by_cases hi : i < cnt
    · obtain ⟨s1, c, hc, hs, _, _, hc0⟩ := cmpProbe_ok x hi hb
      by_cases hz : c = 0
      · refine ⟨s1, (i : Int), by simp [findLoop, hi, hc, hz, bind, Except.bind, pure, Except.pure], hs, .inr ⟨i, rfl, Nat.le_refl _, hi, (hc0.1 hz).symm, ?_⟩⟩
        intro k a b; omega
      · obtain ⟨s2, r, h2', hs2, hr⟩ := ih s1 (i + 1) (by rw [hs.1]; exact hb) (by omega) (by omega)
        refine ⟨s2, r, by simp [findLoop, hi, hc, hz, bind, Except.bind, h2'], St.same_trans hs hs2, ?_⟩
        have hne : ak s.arr i ≠ x.key := fun e => hz (hc0.2 e.symm)
        rw [hs.1] at hr
        rcases hr with ⟨e, hall⟩ | ⟨n, e, a, b, c', d⟩
        · refine .inl ⟨e, fun k k1 k2 => ?_⟩
          by_cases ek : k = i
          · subst ek; exact hne
          · exact hall k (by omega) k2
        · refine .inr ⟨n, e, by omega, b, c', fun k k1 k2 => ?_⟩
          by_cases ek : k = i
          · subst ek; exact hne
          · exact d k (by omega) k2
    · refine ⟨s, -1, by simp [findLoop, hi, pure, Except.pure], St.same_refl s, .inl ⟨rfl, fun k a b => ?_⟩⟩
      omega


theorem i32_ok {v : Int} (h : -2147483648 ≤ v ∧ v ≤ 2147483647) : i32 v = .ok v := by
  simp [i32, h, pure, Except.pure]

theorem idx_nat (n : Nat) : idx (n : Int) = .ok n := by
  simp [idx, pure, Except.pure]

theorem revLoop_unfold {cnt f : Nat} {s : St} {i j : Int} (hlt : i < j) :
    revLoop cnt (f + 1) s i j = (do
      let a ← idx i
      let b ← idx j
      let s ← swapAt s 0 cnt a b
      let i ← i32 (i + 1)
      let j ← i32 (j - 1)
      revLoop cnt f s i j) := by
  rw [revLoop, if_pos hlt]

theorem revLoop_step {cnt f : Nat} {s s1 : St} {i j : Int} {a b : Nat}
    (hlt : i < j) (ha : i = (a : Int)) (hb : j = (b : Int))
    (hs : swapAt s 0 cnt a b = .ok s1)
    (h1 : -2147483648 ≤ i + 1 ∧ i + 1 ≤ 2147483647)
    (h2 : -2147483648 ≤ j - 1 ∧ j - 1 ≤ 2147483647) :
    revLoop cnt (f + 1) s i j = revLoop cnt f s1 (i + 1) (j - 1) := by
  rw [revLoop_unfold hlt]
  subst ha; subst hb
  rw [idx_nat, idx_nat]
  show (swapAt s 0 cnt a b >>= _) = _
  rw [hs, i32_ok h1, i32_ok h2]
  rfl

theorem revLoop_spec (cnt : Nat) :
    ∀ (f : Nat) (s : St) (i : Nat) (j : Int), cnt = s.arr.size → cnt ≤ 2147483648 →
      j = (cnt : Int) - 1 - i → 2 * i ≤ cnt → cnt + 1 ≤ f + i →
    ∃ s', revLoop cnt f s (i : Int) j = .ok s' ∧ s'.arr.size = cnt ∧
      (∀ k, s'.arr[k]? = if i ≤ k ∧ k + i < cnt then s.arr[cnt - 1 - k]? else s.arr[k]?) ∧
      s'.rnd = s.rnd ∧ s'.dflt = s.dflt := by
  intro f
  induction f with
  | zero => intro s i j _ _ _ h1 h2; omega
  | succ f ih =>
    intro s i j hsz hc hj hi hf
    by_cases hlt : (i : Int) < j
    · have hjn : j = ((cnt - 1 - i : Nat) : Int) := by omega
      have hb : 0 + cnt ≤ s.arr.size := by omega
      have hi' : i < cnt := by omega
      have hj' : cnt - 1 - i < cnt := by omega
      obtain ⟨s1, h1, ha, hr1, hd1⟩ := swapAt_ok (s := s) (lo := 0) hi' hj' hb
      have hsz1 : cnt = s1.arr.size := by rw [ha]; simp; exact hsz
      obtain ⟨s2, h2, hs2, hk, hr2, hd2⟩ := ih s1 (i + 1) (j - 1) hsz1 hc (by omega) (by omega) (by omega)
      refine ⟨s2, ?_, hs2, ?_, hr2.trans hr1, hd2.trans hd1⟩
      · rw [revLoop_step hlt rfl hjn h1 (by omega) (by omega)]
        exact h2
      · intro k
        rw [hk k, ha]
        simp only [Array.getElem?_swap, Nat.zero_add]
        have e : ∀ (n : Nat) (h : n < s.arr.size), some s.arr[n] = s.arr[n]? := by simp
        rw [e, e]
        repeat' split
        all_goals first | rfl | (congr 1; omega) | omega
    · refine ⟨s, by rw [revLoop]; simp [hlt, pure, Except.pure], hsz.symm, fun k => ?_, rfl, rfl⟩
      by_cases c : i ≤ k ∧ k + i < cnt
      · have : cnt - 1 - k = k := by omega
        rw [if_pos c, this]
      · rw [if_neg c]

theorem lastIdx_ok {cnt : Nat} (h : cnt ≤ 2147483648) : lastIdx cnt = .ok ((cnt : Int) - 1) := by
  unfold lastIdx
  split
  · subst_vars; rfl
  · exact i32_ok (by omega)


theorem searchLoop_unfold {cnt f : Nat} {x : Elem} {s : St} {i j : Int} (h : i ≤ j) :
    searchLoop cnt x (f + 1) s i j = (do
      let sum ← i32 (i + j)
      let n := Int.tdiv sum 2
      let k ← idx n
      let (s, eq) ← cmpProbe s cnt x k
      if eq = 0 then pure (s, n)
      else if eq < 0 then do
        let j ← i32 (n - 1)
        searchLoop cnt x f s i j
      else do
        let i ← i32 (n + 1)
        searchLoop cnt x f s i j) := by
  rw [searchLoop, if_pos h]

theorem searchLoop_spec (x : Elem) (cnt : Nat) (hc : cnt ≤ 1073741824) :
    ∀ (f : Nat) (s : St) (i j : Int), cnt ≤ s.arr.size → SortedUpTo s.arr cnt →
      0 ≤ i → j < cnt → i ≤ j + 1 → j - i + 2 ≤ f →
      (∀ k : Nat, (k : Int) < i → ak s.arr k < x.key) →
      (∀ k : Nat, j < (k : Int) → k < cnt → x.key < ak s.arr k) →
    ∃ s' r, searchLoop cnt x f s i j = .ok (s', r) ∧ s.same s' ∧
      ((r = -1 ∧ ∀ k, k < cnt → ak s.arr k ≠ x.key) ∨
       (∃ n : Nat, r = (n : Int) ∧ n < cnt ∧ ak s.arr n = x.key)) := by
  intro f
  induction f with
  | zero =>
    intro s i j _ _ h0 h1 h2 h3 hl hr
    omega
  | succ f ih =>
    intro s i j hb hs h0 h1 h2 h3 hl hr
    by_cases hij : i ≤ j
    · have hsum : i32 (i + j) = .ok (i + j) := i32_ok (by omega)
      have hn : Int.tdiv (i + j) 2 = (((i + j) / 2).toNat : Int) := by
        rw [Int.tdiv_eq_ediv_of_nonneg (by omega)]; omega
      generalize hnn : ((i + j) / 2).toNat = n at hn
      have hn1 : i ≤ (n : Int) ∧ (n : Int) ≤ j := by omega
      have hncnt : n < cnt := by omega
      obtain ⟨s1, c, hcmp, hsame, hlt, hgt, heq⟩ := cmpProbe_ok x hncnt hb
      have hb1 : cnt ≤ s1.arr.size := by rw [hsame.1]; exact hb
      have hs1 : SortedUpTo s1.arr cnt := by rw [hsame.1]; exact hs
      have hunf : searchLoop cnt x (f + 1) s i j =
          (if c = 0 then pure (s1, (n : Int))
           else if c < 0 then do
             let j ← i32 ((n : Int) - 1)
             searchLoop cnt x f s1 i j
           else do
             let i ← i32 ((n : Int) + 1)
             searchLoop cnt x f s1 i j) := by
        rw [searchLoop_unfold hij, hsum]
        show (idx (Int.tdiv (i + j) 2) >>= _) = _
        rw [hn, idx_nat]
        show (cmpProbe s cnt x n >>= _) = _
        rw [hcmp]
        rfl
      by_cases hc0 : c = 0
      · refine ⟨s1, n, by rw [hunf, if_pos hc0]; rfl, hsame, .inr ⟨n, rfl, hncnt, (heq.1 hc0).symm⟩⟩
      · by_cases hcl : c < 0
        · have hx := hlt.1 hcl
          obtain ⟨s2, r, h2', hsame2, hr2⟩ := ih s1 i ((n : Int) - 1) hb1 hs1 h0 (by omega) (by omega) (by omega)
            (by rw [hsame.1]; exact hl)
            (by
              rw [hsame.1]
              intro k hk1 hk2
              have : ak s.arr n ≤ ak s.arr k := hs n k (by omega) hk2
              omega)
          refine ⟨s2, r, ?_, St.same_trans hsame hsame2, by rw [hsame.1] at hr2; exact hr2⟩
          rw [hunf, if_neg hc0, if_pos hcl, i32_ok (by omega)]
          exact h2'
        · have hx := hgt.1 (by omega)
          obtain ⟨s2, r, h2', hsame2, hr2⟩ := ih s1 ((n : Int) + 1) j hb1 hs1 (by omega) h1 (by omega) (by omega)
            (by
              rw [hsame.1]
              intro k hk1
              have : ak s.arr k ≤ ak s.arr n := hs k n (by omega) hncnt
              omega)
            (by rw [hsame.1]; exact hr)
          refine ⟨s2, r, ?_, St.same_trans hsame hsame2, by rw [hsame.1] at hr2; exact hr2⟩
          rw [hunf, if_neg hc0, if_neg hcl, i32_ok (by omega)]
          exact h2'
    · refine ⟨s, -1, by rw [searchLoop, if_neg hij]; rfl, St.same_refl s, .inl ⟨rfl, fun k hk => ?_⟩⟩
      by_cases hk2 : (k : Int) < i
      · have := hl k hk2; omega
      · have := hr k (by omega) hk; omega



theorem bind_ok {α β : Type} {x : R α} {f : α → R β} {b : β} (h : (x >>= f) = .ok b) :
    ∃ a, x = .ok a ∧ f a = .ok b := by
  cases x with
  | error e => cases h
  | ok a => exact ⟨a, rfl, h⟩

theorem cmpProbe_arr {s s' : St} {cnt k : Nat} {x : Elem} {c : Int}
    (h : cmpProbe s cnt x k = .ok (s', c)) : s'.arr = s.arr := by
  unfold cmpProbe at h
  split at h
  · cases h; rfl
  · cases h

/-- binary search never modifies the array (sorted or not) -/
theorem searchLoop_arr (cnt : Nat) (x : Elem) :
    ∀ (f : Nat) (s : St) (i j : Int) (s' : St) (r : Int),
      searchLoop cnt x f s i j = .ok (s', r) → s'.arr = s.arr := by
  intro f
  induction f with
  | zero => intro s i j s' r h; cases h
  | succ f ih =>
    intro s i j s' r h
    rw [searchLoop] at h
    split at h
    · obtain ⟨sum, _, h⟩ := bind_ok h
      obtain ⟨k, _, h⟩ := bind_ok h
      obtain ⟨⟨s1, c⟩, hc, h⟩ := bind_ok h
      have e1 := cmpProbe_arr hc
      dsimp only at h
      split at h
      · cases h; exact e1
      · split at h
        · obtain ⟨j', _, h⟩ := bind_ok h
          exact (ih _ _ _ _ _ h).trans e1
        · obtain ⟨i', _, h⟩ := bind_ok h
          exact (ih _ _ _ _ _ h).trans e1
    · cases h; rfl


end Cstl.Sort
