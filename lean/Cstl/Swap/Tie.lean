import Cstl.Gen.SwapC
import Cstl.Swap.Props
/-
Translator tie for `cstl_swap` (include/cstl/common.h).

`Cstl/Gen/SwapC.lean` is regenerated from the clang AST of the current source by
tools/c2lean_swap.py on every check run (tools/areas/swap_tie.py); the theorems below (hand-written,
fixed) state that the hand-written model `Cstl.Swap.cSwap` — the function the theorems of
Cstl/Swap/Props.lean are about — IS that translation, and carry the Props theorems over to the
translated function:

  swap_tie            `c_cstl_swap = cSwap` (for all memories, addresses and sizes)
  fast_tie            on `sz ∈ {1,2,4,8}` the translation is the typed exchange `exch sz` (so a fast
                      path whose access width differs from its `case` label breaks this theorem)
  slow_tie            otherwise the three `memcpy`s of `sz` bytes through `t`
  c_swap_exchanges    the TRANSLATED function exchanges the `sz` bytes at `x` and `y`, leaves the old
                      `x` in `t`, and writes nothing else
  c_swap_is_swapAt    … and is the sort model's `swapAt` on an array of byte strings
-/
set_option linter.unusedVariables false
namespace Cstl.Swap.Tie
open Cstl.Swap Cstl.Gen.SwapC

theorem fast_tie (m : Mem) (x y t sz : Nat) (h : sz = 1 ∨ sz = 2 ∨ sz = 4 ∨ sz = 8) :
    c_cstl_swap m x y t sz = exch sz m x y t := by
  rcases h with h | h | h | h <;> subst h <;> simp (config := { decide := true }) only [c_cstl_swap, exch, if_true, if_false]

theorem slow_tie (m : Mem) (x y t sz : Nat) (h1 : sz ≠ 1) (h2 : sz ≠ 2) (h4 : sz ≠ 4) (h8 : sz ≠ 8) :
    c_cstl_swap m x y t sz = viaScratch m x y t sz := by
  simp only [c_cstl_swap, h1, h2, h4, h8, if_false, viaScratch]

/-- the hand-written model is the translation of the C function -/
theorem swap_tie (m : Mem) (x y t sz : Nat) : c_cstl_swap m x y t sz = cSwap m x y t sz := by
  unfold cSwap
  by_cases h : sz = 1 ∨ sz = 2 ∨ sz = 4 ∨ sz = 8
  · rw [fast_tie m x y t sz h, if_pos (by rcases h with h | h | h | h <;> subst h <;> rfl)]
  · have h1 : sz ≠ 1 := fun e => h (Or.inl e)
    have h2 : sz ≠ 2 := fun e => h (Or.inr (Or.inl e))
    have h4 : sz ≠ 4 := fun e => h (Or.inr (Or.inr (Or.inl e)))
    have h8 : sz ≠ 8 := fun e => h (Or.inr (Or.inr (Or.inr e)))
    rw [slow_tie m x y t sz h1 h2 h4 h8, if_neg (by simp [fastWidth, h1, h2, h4, h8])]

/-- the translated C function, every size: exchange of `x` and `y`, old `x` left in `t`, frame -/
theorem c_swap_exchanges (m : Mem) (x y t sz : Nat) (hb : Bytes m)
    (hxy : Apart x y sz) (hxt : Apart x t sz) (hyt : Apart y t sz) :
    (∀ i, i < sz → c_cstl_swap m x y t sz (x + i) = m (y + i)) ∧
    (∀ i, i < sz → c_cstl_swap m x y t sz (y + i) = m (x + i)) ∧
    (∀ i, i < sz → c_cstl_swap m x y t sz (t + i) = m (x + i)) ∧
    (∀ k, ¬ InReg k x sz → ¬ InReg k y sz → ¬ InReg k t sz → c_cstl_swap m x y t sz k = m k) ∧
    Bytes (c_cstl_swap m x y t sz) := by
  rw [swap_tie]
  exact ⟨swap_x m x y t sz hb hxy hxt hyt, swap_y m x y t sz hb hxy hxt hyt, swap_t m x y t sz hb hxy hxt hyt,
    fun k => swap_frame m x y t sz k, swap_bytes m x y t sz hb⟩

/-- the translated C function on an array of byte strings is the sort model's `swapAt` -/
theorem c_swap_is_swapAt (dec : List Nat → Cstl.Sort.Elem) (m : Mem) (b sz n t i j : Nat) (hb : Bytes m)
    (hi : i < n) (hj : j < n) (hij : i ≠ j) (ht : t + sz ≤ b ∨ b + n * sz ≤ t)
    (rnd : List Nat) (dflt : Nat) (log : Cstl.Sort.Log) :
    Cstl.Sort.swapAt (absSt dec m b sz n t rnd dflt log) 0 n i j =
      .ok (absSt dec (c_cstl_swap m (b + i * sz) (b + j * sz) t sz) b sz n t rnd dflt (log.swap i j)) := by
  rw [swap_tie]
  exact swap_is_swapAt dec m b sz n t i j hb hi hj hij ht rnd dflt log

end Cstl.Swap.Tie
