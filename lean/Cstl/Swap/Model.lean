/-
Byte-level model of `cstl_swap` (include/cstl/common.h) — the function behind every struct swap
(`cstl_vector_swap`, …) and the default element exchange of the sort / reverse algorithms.

* memory is a map from addresses to bytes: `Mem = Nat → Nat`, a value `m a < 256` for every
  address (`Bytes m`; preserved by every operation below);
* a typed load `*(uintN_t *)p` composes `N/8` bytes little-endian (x86-64), a typed store
  decomposes the value again (`loadLE` / `storeLE`, one byte per step);
* `memcpy(d, s, n)` is the forward byte loop (for non-overlapping regions — the only case C
  defines — every copying order gives the same memory: `memcpyB_eq`);
* `cstl_swap(x, y, t, sz)` is the C function statement by statement: `switch (sz)` with the four
  fast paths `EXCH(uintN_t, x, y, t)` = `*(T*)t = *(T*)x; *(T*)x = *(T*)y; *(T*)y = *(T*)t`
  and the default path `memcpy(t, x, sz); memcpy(x, y, sz); memcpy(y, t, sz)`.

NOTE (deviation from the informal description "the fast paths do not use the scratch buffer"):
the C macro EXCH stores through `t` on EVERY path, so the `sz` bytes at `t` are written for
every `sz ≥ 1`; after the call they hold the old bytes of `x` (theorem `swap_t`).  This is what
`Cstl.Sort.swapAt` assumes (`scr := old a`).

Core Lean only.
-/
namespace Cstl.Swap

abbrev Mem := Nat → Nat

/-- every cell holds a byte -/
def Bytes (m : Mem) : Prop := ∀ a, m a < 256

/-- one byte store (`v` is a byte) -/
def set8 (m : Mem) (a v : Nat) : Mem := fun k => if k = a then v else m k

/-- `*(uintN_t *)a` with `N = 8 w`: little-endian composition of `w` bytes -/
def loadLE : Nat → Mem → Nat → Nat
  | 0, _, _ => 0
  | w + 1, m, a => m a + 256 * loadLE w m (a + 1)

/-- `*(uintN_t *)a = v` with `N = 8 w`: the `w` low-order bytes of `v`, lowest first -/
def storeLE : Nat → Mem → Nat → Nat → Mem
  | 0, m, _, _ => m
  | w + 1, m, a, v => storeLE w (set8 m a (v % 256)) (a + 1) (v / 256)

/-- `memcpy(d, s, n)`: forward byte loop -/
def memcpyB : Nat → Mem → Nat → Nat → Mem
  | 0, m, _, _ => m
  | n + 1, m, d, s => memcpyB n (set8 m d (m s)) (d + 1) (s + 1)

/-- `EXCH(uintN_t, x, y, t)`:  `*(T*)t = *(T*)x;  *(T*)x = *(T*)y;  *(T*)y = *(T*)t` -/
def exch (w : Nat) (m : Mem) (x y t : Nat) : Mem :=
  let m1 := storeLE w m t (loadLE w m x)
  let m2 := storeLE w m1 x (loadLE w m1 y)
  storeLE w m2 y (loadLE w m2 t)

/-- the `default:` path: three `memcpy`s through the scratch buffer -/
def viaScratch (m : Mem) (x y t sz : Nat) : Mem :=
  let m1 := memcpyB sz m t x
  let m2 := memcpyB sz m1 x y
  memcpyB sz m2 y t

/-- is `sz` one of the `case sizeof(uintN_t):` labels? -/
def fastWidth (sz : Nat) : Bool := sz = 1 || sz = 2 || sz = 4 || sz = 8

/-- `cstl_swap(x, y, t, sz)` -/
def cSwap (m : Mem) (x y t sz : Nat) : Mem :=
  if fastWidth sz then exch sz m x y t else viaScratch m x y t sz

/-- the `n` bytes at `a`, lowest address first -/
def readBytes : Nat → Mem → Nat → List Nat
  | 0, _, _ => []
  | n + 1, m, a => m a :: readBytes n m (a + 1)

/-- two regions of `n` bytes do not overlap -/
def Apart (a b n : Nat) : Prop := a + n ≤ b ∨ b + n ≤ a

/-- address `k` lies in the `n` bytes at `a` -/
def InReg (k a n : Nat) : Prop := a ≤ k ∧ k < a + n

end Cstl.Swap
