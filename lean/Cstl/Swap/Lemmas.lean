import Cstl.Swap.Model
/-
Helper lemmas for Cstl/Swap/Props.lean: what one typed store / one `memcpy` does to every
address, the little-endian round trip, and the generic "three copies through a scratch region"
argument shared by the fast paths and the `memcpy` path of `cstl_swap`.
-/
set_option linter.unusedVariables false
set_option linter.unusedSectionVars false
namespace Cstl.Swap

theorem set8_same (m : Mem) (a v : Nat) : set8 m a v a = v := by simp [set8]
theorem set8_other (m : Mem) {a k : Nat} (v : Nat) (h : k ≠ a) : set8 m a v k = m k := by simp [set8, h]

theorem set8_bytes {m : Mem} (hb : Bytes m) (a : Nat) {v : Nat} (hv : v < 256) : Bytes (set8 m a v) := by
  intro k
  unfold set8
  split
  · exact hv
  · exact hb k

/-! ### typed store -/

theorem storeLE_out : ∀ (w : Nat) (m : Mem) (a v k : Nat), ¬ InReg k a w → storeLE w m a v k = m k
  | 0, _, _, _, _, _ => rfl
  | w + 1, m, a, v, k, h => by
    unfold InReg at h
    rw [storeLE, storeLE_out w _ _ _ _ (by unfold InReg; omega)]
    exact set8_other m _ (by omega)

theorem storeLE_bytes : ∀ (w : Nat) (m : Mem) (a v : Nat), Bytes m → Bytes (storeLE w m a v)
  | 0, _, _, _, hb => hb
  | w + 1, m, a, v, hb => by
    rw [storeLE]
    exact storeLE_bytes w _ _ _ (set8_bytes hb a (Nat.mod_lt _ (by decide)))

theorem loadLE_lt : ∀ (w : Nat) (m : Mem) (a : Nat), Bytes m → loadLE w m a < 256 ^ w
  | 0, _, _, _ => by simp [loadLE]
  | w + 1, m, a, hb => by
    have h1 := loadLE_lt w m (a + 1) hb
    have h2 := hb a
    rw [loadLE, Nat.pow_succ]
    omega

/-- little-endian round trip: storing (anywhere, into any memory) the value loaded from `w` bytes
at `s` of a byte memory `m'` writes exactly those bytes, in order -/
theorem store_load : ∀ (w : Nat) (m m' : Mem) (d s i : Nat), Bytes m' → i < w →
    storeLE w m d (loadLE w m' s) (d + i) = m' (s + i)
  | 0, _, _, _, _, _, _, hi => by omega
  | w + 1, m, m', d, s, i, hb, hi => by
    have hs := hb s
    have h1 : (m' s + 256 * loadLE w m' (s + 1)) % 256 = m' s := by omega
    have h2 : (m' s + 256 * loadLE w m' (s + 1)) / 256 = loadLE w m' (s + 1) := by omega
    rw [loadLE, storeLE, h1, h2]
    cases i with
    | zero =>
      rw [storeLE_out w _ _ _ _ (by unfold InReg; omega)]
      exact set8_same m d _
    | succ i =>
      have := store_load w (set8 m d (m' s)) m' (d + 1) (s + 1) i hb (by omega)
      rw [show d + (i + 1) = d + 1 + i by omega, show s + (i + 1) = s + 1 + i by omega]
      exact this

/-! ### memcpy -/

theorem memcpyB_out : ∀ (n : Nat) (m : Mem) (d s k : Nat), ¬ InReg k d n → memcpyB n m d s k = m k
  | 0, _, _, _, _, _ => rfl
  | n + 1, m, d, s, k, h => by
    unfold InReg at h
    rw [memcpyB, memcpyB_out n _ _ _ _ (by unfold InReg; omega)]
    exact set8_other m _ (by omega)

theorem memcpyB_bytes : ∀ (n : Nat) (m : Mem) (d s : Nat), Bytes m → Bytes (memcpyB n m d s)
  | 0, _, _, _, hb => hb
  | n + 1, m, d, s, hb => by
    rw [memcpyB]
    exact memcpyB_bytes n _ _ _ (set8_bytes hb d (hb s))

/-- non-overlapping `memcpy`: byte `i` of the destination is byte `i` of the source -/
theorem memcpyB_in : ∀ (n : Nat) (m : Mem) (d s i : Nat), Apart d s n → i < n →
    memcpyB n m d s (d + i) = m (s + i)
  | 0, _, _, _, _, _, hi => by omega
  | n + 1, m, d, s, i, ha, hi => by
    unfold Apart at ha
    rw [memcpyB]
    cases i with
    | zero =>
      rw [memcpyB_out n _ _ _ _ (by unfold InReg; omega)]
      exact set8_same m d _
    | succ i =>
      have := memcpyB_in n (set8 m d (m s)) (d + 1) (s + 1) i (by unfold Apart; omega) (by omega)
      rw [show d + (i + 1) = d + 1 + i by omega, this, show s + (i + 1) = s + 1 + i by omega]
      exact set8_other m _ (by omega)

/-- for non-overlapping regions the copying order is irrelevant: the forward byte loop is the
simultaneous copy -/
theorem memcpyB_eq (n : Nat) (m : Mem) (d s : Nat) (ha : Apart d s n) :
    memcpyB n m d s = fun k => if d ≤ k ∧ k < d + n then m (s + (k - d)) else m k := by
  funext k
  by_cases h : d ≤ k ∧ k < d + n
  · rw [if_pos h]
    have := memcpyB_in n m d s (k - d) ha (by omega)
    rwa [show d + (k - d) = k by omega] at this
  · rw [if_neg h]
    exact memcpyB_out n m d s k h

/-! ### a copy operation, and three of them through a scratch region -/

/-- what both `*(T*)d = *(T*)s` and `memcpy(d, s, n)` are on `n`-byte regions -/
structure CopySpec (cp : Mem → Nat → Nat → Mem) (n : Nat) : Prop where
  inn : ∀ m d s i, Bytes m → Apart d s n → i < n → cp m d s (d + i) = m (s + i)
  out : ∀ m d s k, ¬ InReg k d n → cp m d s k = m k
  bytes : ∀ m d s, Bytes m → Bytes (cp m d s)

theorem copySpec_typed (w : Nat) : CopySpec (fun m d s => storeLE w m d (loadLE w m s)) w where
  inn := fun m d s i hb _ hi => store_load w m m d s i hb hi
  out := fun m d s k h => storeLE_out w m d _ k h
  bytes := fun m d s hb => storeLE_bytes w m d _ hb

theorem copySpec_memcpy (n : Nat) : CopySpec (fun m d s => memcpyB n m d s) n where
  inn := fun m d s i _ ha hi => memcpyB_in n m d s i ha hi
  out := fun m d s k h => memcpyB_out n m d s k h
  bytes := fun m d s hb => memcpyB_bytes n m d s hb

theorem apart_symm {a b n : Nat} (h : Apart a b n) : Apart b a n := by unfold Apart at *; omega

theorem apart_not_in {a b n i : Nat} (h : Apart a b n) (hi : i < n) : ¬ InReg (a + i) b n := by
  unfold Apart at h; unfold InReg; omega

/-- `cp t x; cp x y; cp y t` -/
def three (cp : Mem → Nat → Nat → Mem) (m : Mem) (x y t : Nat) : Mem :=
  cp (cp (cp m t x) x y) y t

section
variable {cp : Mem → Nat → Nat → Mem} {n : Nat} (hs : CopySpec cp n)
variable {m : Mem} {x y t : Nat} (hb : Bytes m)
variable (hxy : Apart x y n) (hxt : Apart x t n) (hyt : Apart y t n)
include hs hb hxy hxt hyt

theorem three_x (i : Nat) (hi : i < n) : three cp m x y t (x + i) = m (y + i) := by
  unfold three
  rw [hs.out _ _ _ _ (apart_not_in hxy hi),
    hs.inn _ _ _ _ (hs.bytes _ _ _ hb) hxy hi,
    hs.out _ _ _ _ (apart_not_in hyt hi)]

theorem three_y (i : Nat) (hi : i < n) : three cp m x y t (y + i) = m (x + i) := by
  unfold three
  rw [hs.inn _ _ _ _ (hs.bytes _ _ _ (hs.bytes _ _ _ hb)) hyt hi,
    hs.out _ _ _ _ (apart_not_in (apart_symm hxt) hi),
    hs.inn _ _ _ _ hb (apart_symm hxt) hi]

theorem three_t (i : Nat) (hi : i < n) : three cp m x y t (t + i) = m (x + i) := by
  unfold three
  rw [hs.out _ _ _ _ (apart_not_in (apart_symm hyt) hi),
    hs.out _ _ _ _ (apart_not_in (apart_symm hxt) hi),
    hs.inn _ _ _ _ hb (apart_symm hxt) hi]

end

theorem three_out {cp : Mem → Nat → Nat → Mem} {n : Nat} (hs : CopySpec cp n) (m : Mem) (x y t k : Nat)
    (hx : ¬ InReg k x n) (hy : ¬ InReg k y n) (ht : ¬ InReg k t n) : three cp m x y t k = m k := by
  unfold three
  rw [hs.out _ _ _ _ hy, hs.out _ _ _ _ hx, hs.out _ _ _ _ ht]

theorem three_bytes {cp : Mem → Nat → Nat → Mem} {n : Nat} (hs : CopySpec cp n) {m : Mem} (hb : Bytes m)
    (x y t : Nat) : Bytes (three cp m x y t) :=
  hs.bytes _ _ _ (hs.bytes _ _ _ (hs.bytes _ _ _ hb))

/-- both paths of `cstl_swap` are three copies of `sz` bytes -/
theorem cSwap_three (m : Mem) (x y t sz : Nat) :
    ∃ cp, CopySpec cp sz ∧ cSwap m x y t sz = three cp m x y t := by
  unfold cSwap
  split
  · exact ⟨_, copySpec_typed sz, rfl⟩
  · exact ⟨_, copySpec_memcpy sz, rfl⟩

/-! ### reading a region -/

theorem readBytes_length : ∀ (n : Nat) (m : Mem) (a : Nat), (readBytes n m a).length = n
  | 0, _, _ => rfl
  | n + 1, m, a => by simp [readBytes, readBytes_length n]

theorem readBytes_congr : ∀ (n : Nat) (m m' : Mem) (a a' : Nat), (∀ i, i < n → m (a + i) = m' (a' + i)) →
    readBytes n m a = readBytes n m' a'
  | 0, _, _, _, _, _ => rfl
  | n + 1, m, m', a, a', h => by
    have h0 := h 0 (by omega)
    simp only [Nat.add_zero] at h0
    rw [readBytes, readBytes, h0, readBytes_congr n m m' (a + 1) (a' + 1)]
    intro i hi
    have := h (i + 1) (by omega)
    rwa [show a + (i + 1) = a + 1 + i by omega, show a' + (i + 1) = a' + 1 + i by omega] at this

theorem readBytes_getElem : ∀ (n : Nat) (m : Mem) (a i : Nat) (h : i < (readBytes n m a).length),
    (readBytes n m a)[i] = m (a + i)
  | 0, _, _, _, h => by simp [readBytes] at h
  | n + 1, m, a, 0, _ => by simp [readBytes]
  | n + 1, m, a, i + 1, h => by
    simp only [readBytes, List.getElem_cons_succ]
    rw [readBytes_getElem n m (a + 1) i, show a + 1 + i = a + (i + 1) by omega]

end Cstl.Swap
