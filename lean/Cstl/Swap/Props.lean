import Cstl.Swap.Lemmas
import Cstl.Sort.Lemmas
/-
Theorems about the byte-level `cstl_swap` (Cstl/Swap/Model.lean), for EVERY size `sz` (the four
typed fast paths and the `memcpy` path alike), every memory of bytes and all pairwise
non-overlapping regions `x`, `y`, `t` of `sz` bytes:

  swap_x, swap_y      the `sz` bytes at `x` are the old bytes at `y` and vice versa
  swap_t              the `sz` bytes at `t` are the old bytes at `x` — on EVERY path: the C macro
                      EXCH goes through `*(T *)t` exactly like the memcpy path goes through `t`
                      (`fast_path_writes_t`: the claim "the fast paths leave `t` alone" is false
                      for the code that exists; the Sort model's `scr := old a` is right)
  swap_frame          no address outside the three regions changes
  swap_bytes          memory stays a memory of bytes
  swap_regions        the same, stated on the byte strings `readBytes`
  swap_elems          in an array of `n` byte strings of `sz` bytes at `b` (scratch outside the
                      array) `cstl_swap(at(i), at(j), t, sz)`, `i ≠ j`, exchanges elements `i` and
                      `j`, leaves every other element alone and leaves the old element `i` in `t`
  swap_is_swapAt      … which is exactly the step `Cstl.Sort.swapAt` of the sort model, under
                      every decoding `dec` of byte strings into the model's elements
  swap_same           `cstl_swap(x, x, t, sz)` leaves `x` unchanged and copies it to `t` (for completeness:
                      the sort / reverse algorithms only exchange distinct indices, and `memcpy(x, x, n)`
                      is formally undefined in C — the model's byte loop leaves it unchanged)

Beside each theorem an `example` on a concrete memory.
-/
set_option linter.unusedVariables false
namespace Cstl.Swap
open Cstl.Sort (Elem St swapAt Log)

/-! ### the three regions and the frame -/

theorem swap_x (m : Mem) (x y t sz : Nat) (hb : Bytes m)
    (hxy : Apart x y sz) (hxt : Apart x t sz) (hyt : Apart y t sz) (i : Nat) (hi : i < sz) :
    cSwap m x y t sz (x + i) = m (y + i) := by
  obtain ⟨cp, hs, he⟩ := cSwap_three m x y t sz
  rw [he]; exact three_x hs hb hxy hxt hyt i hi

theorem swap_y (m : Mem) (x y t sz : Nat) (hb : Bytes m)
    (hxy : Apart x y sz) (hxt : Apart x t sz) (hyt : Apart y t sz) (i : Nat) (hi : i < sz) :
    cSwap m x y t sz (y + i) = m (x + i) := by
  obtain ⟨cp, hs, he⟩ := cSwap_three m x y t sz
  rw [he]; exact three_y hs hb hxy hxt hyt i hi

/-- the scratch region holds the old `x` afterwards — on the fast paths as well -/
theorem swap_t (m : Mem) (x y t sz : Nat) (hb : Bytes m)
    (hxy : Apart x y sz) (hxt : Apart x t sz) (hyt : Apart y t sz) (i : Nat) (hi : i < sz) :
    cSwap m x y t sz (t + i) = m (x + i) := by
  obtain ⟨cp, hs, he⟩ := cSwap_three m x y t sz
  rw [he]; exact three_t hs hb hxy hxt hyt i hi

/-- nothing outside `x`, `y`, `t` is written (no hypothesis on the regions is needed) -/
theorem swap_frame (m : Mem) (x y t sz k : Nat)
    (hx : ¬ InReg k x sz) (hy : ¬ InReg k y sz) (ht : ¬ InReg k t sz) :
    cSwap m x y t sz k = m k := by
  obtain ⟨cp, hs, he⟩ := cSwap_three m x y t sz
  rw [he]; exact three_out hs m x y t k hx hy ht

theorem swap_bytes (m : Mem) (x y t sz : Nat) (hb : Bytes m) : Bytes (cSwap m x y t sz) := by
  obtain ⟨cp, hs, he⟩ := cSwap_three m x y t sz
  rw [he]; exact three_bytes hs hb x y t

/-- the statement on byte strings -/
theorem swap_regions (m : Mem) (x y t sz : Nat) (hb : Bytes m)
    (hxy : Apart x y sz) (hxt : Apart x t sz) (hyt : Apart y t sz) :
    readBytes sz (cSwap m x y t sz) x = readBytes sz m y ∧
    readBytes sz (cSwap m x y t sz) y = readBytes sz m x ∧
    readBytes sz (cSwap m x y t sz) t = readBytes sz m x :=
  ⟨readBytes_congr _ _ _ _ _ (swap_x m x y t sz hb hxy hxt hyt),
   readBytes_congr _ _ _ _ _ (swap_y m x y t sz hb hxy hxt hyt),
   readBytes_congr _ _ _ _ _ (swap_t m x y t sz hb hxy hxt hyt)⟩

/-- a region that avoids `x`, `y`, `t` reads the same before and after -/
theorem swap_region_frame (m : Mem) (x y t sz a n : Nat)
    (hx : a + n ≤ x ∨ x + sz ≤ a) (hy : a + n ≤ y ∨ y + sz ≤ a) (ht : a + n ≤ t ∨ t + sz ≤ a) :
    readBytes n (cSwap m x y t sz) a = readBytes n m a := by
  apply readBytes_congr
  intro i hi
  exact swap_frame m x y t sz (a + i) (by unfold InReg; omega) (by unfold InReg; omega) (by unfold InReg; omega)

/-- `x = y` (one region handed in twice), scratch elsewhere: `x` keeps its bytes, `t` receives them -/
theorem swap_same (m : Mem) (x t sz : Nat) (hb : Bytes m) (hxt : Apart x t sz) (i : Nat) (hi : i < sz) :
    cSwap m x x t sz (x + i) = m (x + i) ∧ cSwap m x x t sz (t + i) = m (x + i) := by
  obtain ⟨cp, hs, he⟩ := cSwap_three m x x t sz
  rw [he]
  unfold three
  have h1 : ∀ j, j < sz → cp m t x (t + j) = m (x + j) := fun j hj => hs.inn _ _ _ _ hb (apart_symm hxt) hj
  have h2 : ∀ j, j < sz → cp m t x (x + j) = m (x + j) := fun j hj => hs.out _ _ _ _ (apart_not_in hxt hj)
  have hb1 := hs.bytes m t x hb
  -- the middle copy `x := x`: whatever it does inside `x`, the last copy restores `x` from `t`
  have h3 : ∀ j, j < sz → cp (cp m t x) x x (t + j) = m (x + j) := fun j hj => by
    rw [hs.out _ _ _ _ (apart_not_in (apart_symm hxt) hj)]; exact h1 j hj
  have hb2 := hs.bytes _ x x hb1
  constructor
  · rw [hs.inn _ _ _ _ hb2 hxt hi]; exact h3 i hi
  · rw [hs.out _ _ _ _ (apart_not_in (apart_symm hxt) hi)]; exact h3 i hi

/-! ### concrete memories (the hypotheses are satisfiable; every path is exercised) -/

/-- bytes `10 11 12 …` at addresses `0 1 2 …` below 64, zero above -/
def demoMem : Mem := fun a => if a < 64 then a + 10 else 0

theorem demoMem_bytes : Bytes demoMem := by
  intro a; unfold demoMem; split <;> omega

example : readBytes 2 (cSwap demoMem 0 8 16 2) 0 = [18, 19] ∧ readBytes 2 (cSwap demoMem 0 8 16 2) 8 = [10, 11] := by
  decide
example : readBytes 3 (cSwap demoMem 0 8 16 3) 0 = [18, 19, 20] ∧ readBytes 3 (cSwap demoMem 0 8 16 3) 8 = [10, 11, 12] := by
  decide
example : readBytes 8 (cSwap demoMem 0 8 16 8) 0 = [18, 19, 20, 21, 22, 23, 24, 25] := by decide
example : Apart 0 8 8 ∧ Apart 0 16 8 ∧ Apart 8 16 8 := by unfold Apart; omega

/-- the fast paths DO write the scratch buffer: after a 1-, 2-, 4- or 8-byte swap the scratch bytes
are the old bytes of `x` (here they change from `26 …` to `10 …`) -/
theorem fast_path_writes_t :
    ∀ sz ∈ [1, 2, 4, 8], cSwap demoMem 0 8 16 sz 16 = 10 ∧ demoMem 16 = 26 := by decide

/-! ### an array of byte strings -/

/-- element `k` of the array of `sz`-byte elements at `b` -/
def elemBytes (m : Mem) (b sz k : Nat) : List Nat := readBytes sz m (b + k * sz)

theorem elem_apart (b sz : Nat) {i j : Nat} (h : i ≠ j) : Apart (b + i * sz) (b + j * sz) sz := by
  unfold Apart
  rcases Nat.lt_or_gt_of_ne h with h | h
  · have := Nat.mul_le_mul_right sz (show i + 1 ≤ j from h)
    rw [Nat.succ_mul] at this
    omega
  · have := Nat.mul_le_mul_right sz (show j + 1 ≤ i from h)
    rw [Nat.succ_mul] at this
    omega

theorem elem_in_array (sz : Nat) {k n : Nat} (h : k < n) : k * sz + sz ≤ n * sz := by
  have := Nat.mul_le_mul_right sz (show k + 1 ≤ n from h)
  rwa [Nat.succ_mul] at this

/-- `cstl_swap(at(i), at(j), t, sz)` on an array of `n` elements of `sz` bytes at `b`, scratch
region outside the array: elements `i` and `j` are exchanged, every other element is untouched,
the scratch region holds the old element `i`. -/
theorem swap_elems (m : Mem) (b sz n t i j : Nat) (hb : Bytes m) (hi : i < n) (hj : j < n) (hij : i ≠ j)
    (ht : t + sz ≤ b ∨ b + n * sz ≤ t) :
    let m' := cSwap m (b + i * sz) (b + j * sz) t sz
    elemBytes m' b sz i = elemBytes m b sz j ∧
    elemBytes m' b sz j = elemBytes m b sz i ∧
    (∀ k, k < n → k ≠ i → k ≠ j → elemBytes m' b sz k = elemBytes m b sz k) ∧
    readBytes sz m' t = elemBytes m b sz i := by
  intro m'
  have hxy := elem_apart b sz hij
  have hi' := elem_in_array sz hi
  have hj' := elem_in_array sz hj
  have hxt : Apart (b + i * sz) t sz := by unfold Apart; omega
  have hyt : Apart (b + j * sz) t sz := by unfold Apart; omega
  obtain ⟨h1, h2, h3⟩ := swap_regions m _ _ t sz hb hxy hxt hyt
  refine ⟨h1, h2, ?_, h3⟩
  intro k hk hki hkj
  have hk' := elem_in_array sz hk
  have a1 := elem_apart b sz hki
  have a2 := elem_apart b sz hkj
  unfold Apart at a1 a2
  apply readBytes_congr
  intro q hq
  exact swap_frame m _ _ t sz _ (by unfold InReg; omega) (by unfold InReg; omega) (by unfold InReg; omega)

example : elemBytes (cSwap demoMem (0 + 1 * 3) (0 + 4 * 3) 40 3) 0 3 1 = [22, 23, 24] ∧
    elemBytes (cSwap demoMem (0 + 1 * 3) (0 + 4 * 3) 40 3) 0 3 4 = [13, 14, 15] ∧
    elemBytes (cSwap demoMem (0 + 1 * 3) (0 + 4 * 3) 40 3) 0 3 2 = [16, 17, 18] := by decide

/-! ### the exchange the sort model assumes -/

/-- the sort model's view of the bytes: `n` elements decoded from their `sz` bytes -/
def absArr (dec : List Nat → Elem) (m : Mem) (b sz n : Nat) : Array Elem :=
  Array.ofFn (n := n) fun k => dec (elemBytes m b sz k.val)

/-- sort-model state over a byte memory: the array at `b`, the scratch cell at `t` -/
def absSt (dec : List Nat → Elem) (m : Mem) (b sz n t : Nat) (rnd : List Nat) (dflt : Nat) (log : Log) : St :=
  { arr := absArr dec m b sz n, scr := dec (readBytes sz m t), rnd := rnd, dflt := dflt, log := log }

/-- **`cstl_swap` is `Cstl.Sort.swapAt`.**  For every element size `sz`, every way `dec` of reading
an element's bytes as the model's `(key, id)`, an array of `n` elements at `b` and a scratch slot
`t` outside the array (the vector's slot `cap`): the model's `swapAt i j` on the abstraction of
memory `m` succeeds and yields the abstraction of the memory after
`cstl_swap(b + i*sz, b + j*sz, t, sz)` — array, scratch cell and all. -/
theorem swap_is_swapAt (dec : List Nat → Elem) (m : Mem) (b sz n t i j : Nat) (hb : Bytes m)
    (hi : i < n) (hj : j < n) (hij : i ≠ j) (ht : t + sz ≤ b ∨ b + n * sz ≤ t)
    (rnd : List Nat) (dflt : Nat) (log : Log) :
    swapAt (absSt dec m b sz n t rnd dflt log) 0 n i j =
      .ok (absSt dec (cSwap m (b + i * sz) (b + j * sz) t sz) b sz n t rnd dflt (log.swap i j)) := by
  obtain ⟨h1, h2, h3, h4⟩ := swap_elems m b sz n t i j hb hi hj hij ht
  have hsz : (absSt dec m b sz n t rnd dflt log).arr.size = n := by simp [absSt, absArr]
  rw [Cstl.Sort.swapAt_eq hi hj (by omega)]
  simp only [Nat.zero_add, absSt]
  congr 2
  · apply Array.ext
    · simp [absArr]
    · intro k hk1 hk2
      have hk : k < n := by simpa [absArr] using hk2
      simp only [absArr, Array.getElem_swap, Array.getElem_ofFn]
      by_cases e1 : k = i
      · subst e1; simp [h1]
      · by_cases e2 : k = j
        · subst e2; simp [e1, h2]
        · simp [e1, e2, h3 k hk e1 e2]
  · simp [absArr, h4]

example : (swapAt (absSt (fun bs => ⟨(bs.headD 0 : Nat), bs.length⟩) demoMem 0 3 5 40 [] 0 {}) 0 5 1 4).toOption.map
      (fun s => (s.arr.toList.map (·.key), s.scr.key)) = some ([10, 22, 16, 19, 13], 13) := by decide

end Cstl.Swap
