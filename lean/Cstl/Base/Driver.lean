/-
Line-protocol driver shared by every area (core Lean only, so it links).

Input  : lines.  `script <tag>` starts a new script from the area's initial
         state; every other non-empty line is one operation.
Output : `script <tag>` echoed; one line per operation; after an operation
         whose output starts with `STOP` nothing is printed until the next
         `script` line (the C harness runs each script in a forked child and
         prints the same `STOP <kind>` when the child dies).
-/
namespace Cstl

/-- the value with which the k-th visit asks a traversal to stop (harness/common.h `h_stop_value`) -/
def stopValue (k : Int) : Int := if k % 2 = 1 then -3 else 7


def splitWords (line : String) : List String :=
  (line.trimAscii.toString.splitOn " ").filter (· ≠ "")

/-- Parse a natural number (decimal; `M-k` means 2^64-1-k so that scripts can
name SIZE_MAX-relative values without 20-digit literals). -/
def parseNat? (s : String) : Option Nat :=
  if s.startsWith "M-" then
    match (s.drop 2).toString.toNat? with
    | some k => if k < 2^64 then some (2^64 - 1 - k) else none
    | none => none
  else if s = "M" then some (2^64 - 1)
  else s.toNat?

def parseInt? (s : String) : Option Int :=
  if s.startsWith "-" then (s.drop 1).toString.toNat?.map (fun n => - (Int.ofNat n))
  else s.toNat?.map Int.ofNat

def joinWords (ws : List String) : String := " ".intercalate ws

def showList (xs : List Nat) : String := "[" ++ ",".intercalate (xs.map toString) ++ "]"
def showIntList (xs : List Int) : String := "[" ++ ",".intercalate (xs.map toString) ++ "]"

structure Area (σ : Type) where
  init : σ
  /-- one operation: new state and the output line -/
  step : σ → List String → σ × String

partial def driverLoop {σ : Type} (a : Area σ) (h : IO.FS.Stream) (out : IO.FS.Stream)
    (s : σ) (stopped : Bool) : IO Unit := do
  let line ← h.getLine
  if line.isEmpty then
    out.flush
    return ()
  let ws := splitWords line
  match ws with
  | [] => driverLoop a h out s stopped
  | "script" :: _ =>
    out.putStrLn (joinWords ws)
    driverLoop a h out a.init false
  | _ =>
    if stopped then driverLoop a h out s true
    else
      let (s', o) := a.step s ws
      out.putStrLn o
      driverLoop a h out s' (o.startsWith "STOP")

def runArea {σ : Type} (a : Area σ) : IO Unit := do
  let stdin ← IO.getStdin
  let stdout ← IO.getStdout
  driverLoop a stdin stdout a.init false

end Cstl
