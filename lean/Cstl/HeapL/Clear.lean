import Cstl.HeapL.Pop
/-
cstl_heap_clear = cstl_bintree_clear at link level: the recursive traversal
reads a node's child pointers once, at entry, hands the node to the callback
after both subtrees (LEAF visit of a leaf, POST visit otherwise) and never
touches it again — for a callback that overwrites every link field of the
element it is given.
-/
set_option linter.unusedSimpArgs false
set_option linter.unusedVariables false
namespace Cstl.HeapL
open Cstl.SList (Mem upd upd_same upd_other)
open Cstl.TreeL
open Cstl.Tree (Color Elem Tree)

/-- callback order of the functional model, as addresses -/
def postIds (t : Tree) : List Nat := (Heap.clearOrder (toH t)).map (·.id)

@[simp] theorem postIds_nil : postIds .nil = [] := rfl
@[simp] theorem postIds_node (c : Color) (l r : Tree) (e : Elem) :
    postIds (.node c l e r) = postIds l ++ postIds r ++ [e.id] := by
  simp [postIds, Heap.clearOrder]

theorem poison_agree (pv : Nat) (m : TM) {a z : Nat} (h : z ≠ a) : Agree m (poison pv m a) z :=
  ((Agree.setP pv h).trans (Agree.setLf pv h)).trans (Agree.setRt pv h)

theorem clearWalk_spec (pv : Nat) : ∀ (t : Tree) (fuel : Nat) (m : TM) (a p : Nat) (acc : List Nat),
    t ≠ .nil → Shape m a p t → t.ids.Nodup → t.height ≤ fuel →
    ∃ m', clearWalk pv fuel m a acc = some (m', (postIds t).reverse ++ acc) ∧ ∀ z, z ∉ t.ids → Agree m m' z := by
  intro t
  induction t with
  | nil => intro fuel m a p acc hne; exact absurd rfl hne
  | node c l e r ihl ihr =>
    intro fuel m a p acc _ hs hnd hh
    simp only [Shape_node] at hs
    obtain ⟨ha0, he, _, _, hsl, hsr⟩ := hs
    have heid : e.id = a := by simp [he]
    simp only [Cstl.Tree.ids_node] at hnd
    have hndl : l.ids.Nodup := (List.nodup_append.mp hnd).1
    have hndr : r.ids.Nodup := (List.nodup_cons.mp (List.nodup_append.mp hnd).2.1).2
    have hdisj : ∀ z, z ∈ l.ids → z ∉ r.ids := fun z h1 h2 =>
      (List.nodup_append.mp hnd).2.2 z h1 z (by simp [h2]) rfl
    obtain ⟨f, rfl⟩ : ∃ f, fuel = f + 1 := ⟨fuel - 1, by simp only [Tree.height] at hh; omega⟩
    have hhl : l.height ≤ f := by simp only [Tree.height] at hh; omega
    have hhr : r.height ≤ f := by simp only [Tree.height] at hh; omega
    -- left subtree
    have hleft : ∃ m1, (if m.lf a ≠ 0 then clearWalk pv f m (m.lf a) acc else some (m, acc))
        = some (m1, (postIds l).reverse ++ acc) ∧ ∀ z, z ∉ l.ids → Agree m m1 z := by
      cases l with
      | nil =>
        have : m.lf a = 0 := hsl
        exact ⟨m, by simp [this], fun z _ => Agree.rfl' m z⟩
      | node lc ll le lr =>
        have : m.lf a ≠ 0 := by have := hsl; simp only [Shape_node] at this; exact this.1
        obtain ⟨m1, g1, g2⟩ := ihl f m (m.lf a) a acc (by simp) hsl hndl hhl
        exact ⟨m1, by simp [this, g1], g2⟩
    obtain ⟨m1, gl1, gl2⟩ := hleft
    have hsr1 : Shape m1 (m.rt a) a r := hsr.frame (fun z hz => gl2 z (fun hzl => hdisj z hzl hz))
    cases r with
    | nil =>
      have hr0 : m.rt a = 0 := hsr
      cases l with
      | nil =>
        have hl0 : m.lf a = 0 := hsl
        simp only [hl0, ne_eq, not_true_eq_false, if_false, Option.some.injEq, Prod.mk.injEq] at gl1
        obtain ⟨rfl, _⟩ := gl1
        refine ⟨poison pv m a, ?_, fun z hz => poison_agree pv m (by simpa [heid] using hz)⟩
        simp [clearWalk, hl0, hr0, heid]
      | node lc ll le lr =>
        have hl0 : m.lf a ≠ 0 := by have := hsl; simp only [Shape_node] at this; exact this.1
        refine ⟨poison pv m1 a, ?_, fun z hz => ?_⟩
        · simp only [clearWalk]
          rw [gl1]
          simp [hr0, hl0, heid]
        · simp only [Cstl.Tree.ids_node, Cstl.Tree.ids_nil, List.mem_append, List.mem_cons, not_or, heid] at hz
          exact (gl2 z (by simp only [Cstl.Tree.ids_node, List.mem_append, List.mem_cons, not_or]; grind)).trans
            (poison_agree pv m1 (by grind))
    | node rc rl re rr =>
      have hr0 : m.rt a ≠ 0 := by have := hsr; simp only [Shape_node] at this; exact this.1
      obtain ⟨m3, g1, g2⟩ := ihr f m1 (m.rt a) a ((postIds l).reverse ++ acc) (by simp) hsr1 hndr hhr
      refine ⟨poison pv m3 a, ?_, fun z hz => ?_⟩
      · simp only [clearWalk]
        rw [gl1]
        simp [hr0, g1, heid]
      · rw [Cstl.Tree.ids_node] at hz
        simp only [List.mem_append, List.mem_cons, not_or, heid] at hz
        exact ((gl2 z hz.1).trans (g2 z hz.2.2)).trans (poison_agree pv m3 hz.2.1)

/-- `cstl_heap_clear` refines `Cstl.Heap.clear`: the traversal finishes, calls back exactly the
addresses of the elements the functional clear lists, in that order, and leaves an empty heap -/
theorem clear_refines (pv : Nat) {m : TM} {h : Hd} {t : Tree} (ht : IsTree m h.root 0 t) (hsz : t.size ≤ h.size) :
    ∃ m' h', clear pv m h = some (m', h', ((Heap.clear ⟨toH t, h.size⟩).2).map (·.id)) ∧
      IsTree m' h'.root 0 .nil ∧ (Heap.clear ⟨toH t, h.size⟩).1 = ⟨.nil, h'.size⟩ := by
  cases t with
  | nil =>
    have hr : h.root = 0 := ht.shape
    exact ⟨m, h, by simp [clear, hr, Heap.clear], ht, rfl⟩
  | node c l e r =>
    have hr0 : h.root ≠ 0 := by have := ht.shape; simp only [Shape_node] at this; exact this.1
    obtain ⟨m', g1, g2⟩ := clearWalk_spec pv (.node c l e r) (h.size + 1) m h.root 0 [] (by simp) ht.shape ht.nodup
      (by have := height_le_size (.node c l e r); omega)
    refine ⟨m', ⟨0, 0⟩, ?_, ⟨rfl, by simp⟩, rfl⟩
    simp only [clear, ne_eq, hr0, not_false_eq_true, if_true, g1, List.append_nil, List.reverse_reverse]
    rfl

end Cstl.HeapL
