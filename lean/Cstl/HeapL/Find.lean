import Cstl.HeapL.Abs
import Cstl.Heap.LemmasFls
import Cstl.Heap.LemmasPath
/-
cstl_heap_find at link level: the loop over the mask `b` follows exactly the
directions `Cstl.Heap.path` lists, through the `l`/`r` fields; in a memory that
represents a tree it ends at the address of the node in that position.
-/
set_option linter.unusedSimpArgs false
set_option linter.unusedVariables false
namespace Cstl.HeapL
open Cstl.TreeL
open Cstl.Tree (Color Elem Tree)

theorem walkTo_zero (m : TM) (ds : List Bool) : walkTo m 0 ds = 0 := by
  cases ds <;> simp [walkTo]

theorem walkTo_append (m : TM) (ds es : List Bool) : ∀ a, walkTo m a (ds ++ es) = walkTo m (walkTo m a ds) es := by
  induction ds with
  | nil => intro a; rfl
  | cons d ds ih =>
    intro a
    simp only [List.cons_append, walkTo]
    split
    · rw [walkTo_zero]
    · exact ih _

/-- the loop of `cstl_heap_find` finishes within as many iterations as `b` has bits and returns
the node the directions `pathLoop loc b` lead to (NULL when the walk leaves the tree) -/
theorem findLoop_eq (m : TM) (loc : Nat) : ∀ (fuel a b : Nat), b < 2 ^ fuel →
    findLoop m loc fuel a b = some (walkTo m a (Heap.pathLoop loc b)) := by
  intro fuel
  induction fuel with
  | zero =>
    intro a b hb
    have : b = 0 := by simpa using hb
    subst this
    simp [findLoop, Heap.pathLoop_zero, walkTo]
  | succ f ih =>
    intro a b hb
    by_cases hb0 : b = 0
    · subst hb0
      simp [findLoop, Heap.pathLoop_zero, walkTo]
    · rw [Heap.pathLoop_pos loc hb0]
      by_cases ha : a = 0
      · subst ha
        simp [findLoop, walkTo_zero]
      · have hlt : b >>> 1 < 2 ^ f := by
          rw [Nat.shiftRight_eq_div_pow]
          rw [Nat.pow_succ] at hb
          omega
        simp only [findLoop, ha, hb0, ne_eq, not_false_eq_true, and_self, if_true, walkTo, if_false]
        rw [ih _ _ hlt]
        by_cases hz : loc &&& b = 0 <;> simp [hz]

theorem fls_toNat_lt {loc : Nat} (h0 : 0 < loc) (hlt : loc < 2 ^ 64) : (Heap.fls loc).toNat < 64 := by
  unfold Heap.fls
  rw [if_neg (by omega), Heap.flsLoop_eq_log2 h0 hlt]
  have := (Nat.log2_lt (n := loc) (k := 64) (by omega)).2 hlt
  show (Int.ofNat (Nat.log2 loc)).toNat < 64
  exact this

/-- `cstl_heap_find(h, id)` never runs out of fuel: it is the walk along `path (id + 1)` -/
theorem find_eq (m : TM) (h : Hd) (id : Nat) (hlt : id + 1 < 2 ^ 64) :
    find m h id = some (walkTo m h.root (Heap.path (id + 1))) := by
  unfold find Heap.path findFuel
  apply findLoop_eq
  have hs := fls_toNat_lt (loc := id + 1) (by omega) hlt
  rw [Nat.shiftRight_eq_div_pow, Nat.shiftLeft_eq, Nat.one_mul]
  have : 2 ^ (Heap.fls (id + 1)).toNat ≤ 2 ^ 63 := Nat.pow_le_pow_right (by decide) (by omega)
  have h63 : (2 : Nat) ^ 63 < 2 ^ 64 := by decide
  omega

/-- in a memory that represents a tree the walk along the directions of a context ends at the
address in the hole -/
theorem walkTo_zip {m : TM} {root : Nat} : ∀ (k : Ctx) {a p : Nat} {s : Tree}, Zip m root k a p s →
    walkTo m root (dirs k) = a := by
  intro k
  induction k with
  | nil =>
    intro a p s hz
    exact hz.slot_nil.2
  | cons f k ih =>
    intro a p s hz
    cases f with
    | L c e r =>
      have hc := hz.ctx
      simp only [CtxShape_L] at hc
      rw [dirs_cons, walkTo_append, ih hz.upL]
      simp [walkTo, fdir, hc.1, hc.2.2.2.1]
    | R c l e =>
      have hc := hz.ctx
      simp only [CtxShape_R] at hc
      rw [dirs_cons, walkTo_append, ih hz.upR]
      simp [walkTo, fdir, hc.1, hc.2.2.2.1]

/-- `cstl_heap_find` on a memory that represents the tree `plug k s`: the address in the hole of
the context whose directions are `path (id + 1)` -/
theorem find_zip {m : TM} {h : Hd} {k : Ctx} {a p : Nat} {s : Tree} {id : Nat} (hz : Zip m h.root k a p s)
    (hd : dirs k = Heap.path (id + 1)) (hlt : id + 1 < 2 ^ 64) : find m h id = some a := by
  rw [find_eq m h id hlt, ← hd, walkTo_zip k hz]

end Cstl.HeapL
