import Cstl.HeapL.SiftDown
/-
cstl_heap_pop at link level refines `Cstl.Heap.pop`: find the last slot, unlink
it (`removeAt`), copy the root's link set into it and point the root's children
at it (`*n = *root; n->l->p = n; n->r->p = n; root = n`: the last node takes the
root position), then the sift-down loop (`siftInto`).
-/
set_option linter.unusedSimpArgs false
set_option linter.unusedVariables false
namespace Cstl.HeapL
open Cstl.SList (Mem upd upd_same upd_other)
open Cstl.TreeL
open Cstl.Tree (Color Elem Tree)

/-! ### unlink the last node -/

/-- the last node (a leaf, the focus of `k`) is unlinked from its parent: the memory represents the
tree with an empty hole there -/
theorem unlinkLast_spec {m : TM} {h : Hd} {k : Ctx} {n p : Nat} {cn : Color} {en : Elem}
    (hz : Zip m h.root k n p (.node cn .nil en .nil)) :
    IsTree (unlinkLast m h n).1 (unlinkLast m h n).2.root 0 (plug k .nil) ∧
      (unlinkLast m h n).2.size = h.size ∧ (unlinkLast m h n).1.key = m.key ∧ (unlinkLast m h n).1.cl = m.cl ∧
      (unlinkLast m h n).2.root = (if k = [] then 0 else h.root) ∧ Agree m (unlinkLast m h n).1 n := by
  have hn0 : n ≠ 0 := by have := hz.sub; simp only [Shape_node] at this; exact this.1
  have hpn : m.pr n = p := hz.pr_focus hn0
  have hnd : ((Tree.nil).ids ++ ctxIds k).Nodup := by
    have := hz.nodup
    simp only [Cstl.Tree.ids_node, Cstl.Tree.ids_nil, List.nil_append, List.cons_append, List.nodup_cons] at this
    simpa using this.2
  have hnk : n ∉ ctxIds k := by
    have := hz.nodup
    have hid := Shape.id_eq hz.sub
    simp only [Cstl.Tree.ids_node, Cstl.Tree.ids_nil, List.nil_append, List.cons_append, List.nodup_cons, hid] at this
    exact this.1
  cases k with
  | nil =>
    have hp0 : p = 0 := hz.slot_nil.1
    have hu : unlinkLast m h n = (m, { h with root := 0 }) := by simp [unlinkLast, hpn, hp0]
    rw [hu]
    exact ⟨⟨rfl, by simp⟩, rfl, rfl, rfl, by simp, Agree.rfl' m n⟩
  | cons f k =>
    cases f with
    | L c e r =>
      obtain ⟨hp0, hlf, _⟩ := hz.slot_L hn0
      have hnp : n ≠ p := fun e' => hnk (by rw [e']; exact hz.ctx.parent_mem hp0)
      have hu : unlinkLast m h n = (setLf m p 0, h) := by simp [unlinkLast, hpn, hp0, hlf]
      rw [hu]
      refine ⟨?_, rfl, rfl, rfl, by simp, Agree.setLf 0 hnp⟩
      have hz' : Zip (setLf m p 0) h.root (.L c e r :: k) 0 p .nil :=
        hz.replace (by simp) (fun z _ hzp => Agree.setLf 0 hzp) (by simp [SlotUpd, upd_apply]) hnd
      exact hz'.isTree
    | R c l e =>
      obtain ⟨hp0, hrt, hlf⟩ := hz.slot_R hn0
      have hnp : n ≠ p := fun e' => hnk (by rw [e']; exact hz.ctx.parent_mem hp0)
      have hu : unlinkLast m h n = (setRt m p 0, h) := by simp [unlinkLast, hpn, hp0, hlf]
      rw [hu]
      refine ⟨?_, rfl, rfl, rfl, by simp, Agree.setRt 0 hnp⟩
      have hz' : Zip (setRt m p 0) h.root (.R c l e :: k) 0 p .nil :=
        hz.replace (by simp) (fun z _ hzp => Agree.setRt 0 hzp) (by simp [SlotUpd, upd_apply]) hnd
      exact hz'.isTree

/-! ### the last node takes the root position -/

theorem moveToRoot_fields (m : TM) (h : Hd) (n : Nat) (hl : m.lf h.root ≠ n) (hr : m.rt h.root ≠ n) :
    (moveToRoot m h n).2 = { h with root := n } ∧ (moveToRoot m h n).1.key = m.key ∧ (moveToRoot m h n).1.cl = m.cl ∧
    (∀ z, (moveToRoot m h n).1.lf z = if z = n then m.lf h.root else m.lf z) ∧
    (∀ z, (moveToRoot m h n).1.rt z = if z = n then m.rt h.root else m.rt z) ∧
    (∀ z, (moveToRoot m h n).1.pr z =
      if z ≠ 0 ∧ (z = m.lf h.root ∨ z = m.rt h.root) then n else if z = n then m.pr h.root else m.pr z) := by
  refine ⟨rfl, ?_, ?_, ?_, ?_, ?_⟩
  · simp only [moveToRoot]; split <;> split <;> rfl
  · simp only [moveToRoot]; split <;> split <;> rfl
  · intro z; simp only [moveToRoot]; split <;> split <;> simp [upd_apply]
  · intro z; simp only [moveToRoot]; split <;> split <;> simp [upd_apply]
  · intro z
    by_cases h1 : m.lf h.root = 0 <;> by_cases h2 : m.rt h.root = 0 <;>
      simp [moveToRoot, upd_apply, h1, h2] <;> grind

/-- `*n = *root; n->l->p = n; n->r->p = n; root = n` with `n` outside the tree: `n` replaces the
root node (which drops out of the structure) -/
theorem moveToRoot_spec {m : TM} {h : Hd} {n : Nat} {c : Color} {l r : Tree} {e : Elem}
    (ht : IsTree m h.root 0 (.node c l e r)) (hn0 : n ≠ 0) (hnt : n ∉ (Tree.node c l e r).ids) :
    IsTree (moveToRoot m h n).1 (moveToRoot m h n).2.root 0 (.node (m.cl n) l (elemAt m n) r) ∧
      (moveToRoot m h n).2.size = h.size ∧ (moveToRoot m h n).1.key = m.key ∧ (moveToRoot m h n).1.cl = m.cl := by
  have hs := ht.shape
  simp only [Shape_node] at hs
  obtain ⟨hr0, he, _, hpr, hsl, hsr⟩ := hs
  have hnd := ht.nodup
  simp only [Cstl.Tree.ids_node] at hnd hnt
  have hndl : l.ids.Nodup := (List.nodup_append.mp hnd).1
  have hndr : r.ids.Nodup := (List.nodup_cons.mp (List.nodup_append.mp hnd).2.1).2
  have hdisj : ∀ z, z ∈ l.ids → z ∉ r.ids := fun z h1 h2 =>
    (List.nodup_append.mp hnd).2.2 z h1 z (by simp [h2]) rfl
  have hnl : n ∉ l.ids := fun hh => hnt (by simp [hh])
  have hnr : n ∉ r.ids := fun hh => hnt (by simp [hh])
  have hlm : m.lf h.root ≠ 0 → m.lf h.root ∈ l.ids := hsl.root_mem
  have hrm : m.rt h.root ≠ 0 → m.rt h.root ∈ r.ids := hsr.root_mem
  have hl0 : ∀ z ∈ l.ids, z ≠ 0 := hsl.ids_ne_zero
  have hr0' : ∀ z ∈ r.ids, z ≠ 0 := hsr.ids_ne_zero
  have hln : m.lf h.root ≠ n := fun e' => by
    have : m.lf h.root ≠ 0 := by rw [e']; exact hn0
    exact hnl (e' ▸ hlm this)
  have hrn : m.rt h.root ≠ n := fun e' => by
    have : m.rt h.root ≠ 0 := by rw [e']; exact hn0
    exact hnr (e' ▸ hrm this)
  obtain ⟨f0, f1, f2, f3, f4, f5⟩ := moveToRoot_fields m h n hln hrn
  refine ⟨⟨?_, ?_⟩, by rw [f0], f1, f2⟩
  · rw [f0]
    simp only [Shape_node]
    refine ⟨hn0, by simp [elemAt, f1], by rw [f2], ?_, ?_, ?_⟩
    · rw [f5]; grind
    · rw [f3, if_pos rfl]
      refine hsl.reparent hndl (fun z hz hza => ?_) (fun ha0 => ?_)
      · have z0 := hl0 z hz
        have zn : z ≠ n := fun e' => hnl (e' ▸ hz)
        have zr : z ≠ m.rt h.root := fun e' => hdisj z hz (e' ▸ hrm (e' ▸ z0))
        refine ⟨?_, ?_, ?_, by rw [f2], by rw [f1]⟩
        · rw [f5]; grind
        · rw [f3]; grind
        · rw [f4]; grind
      · have zr : m.lf h.root ≠ m.rt h.root := fun e' => hdisj _ (hlm ha0) (e' ▸ hrm (e' ▸ ha0))
        refine ⟨?_, ?_, ?_, by rw [f2], by rw [f1]⟩
        · rw [f5]; grind
        · rw [f3]; grind
        · rw [f4]; grind
    · rw [f4, if_pos rfl]
      refine hsr.reparent hndr (fun z hz hza => ?_) (fun ha0 => ?_)
      · have z0 := hr0' z hz
        have zn : z ≠ n := fun e' => hnr (e' ▸ hz)
        have zl : z ≠ m.lf h.root := fun e' => hdisj z (e' ▸ hlm (e' ▸ z0)) hz
        refine ⟨?_, ?_, ?_, by rw [f2], by rw [f1]⟩
        · rw [f5]; grind
        · rw [f3]; grind
        · rw [f4]; grind
      · have zr : m.rt h.root ≠ m.lf h.root := fun e' => hdisj _ (e' ▸ hlm (e' ▸ ha0)) (hrm ha0)
        refine ⟨?_, ?_, ?_, by rw [f2], by rw [f1]⟩
        · rw [f5]; grind
        · rw [f3]; grind
        · rw [f4]; grind
  · simp only [Cstl.Tree.ids_node, elemAt_id]
    have : (l.ids ++ n :: r.ids).Perm (n :: (l.ids ++ r.ids)) := List.perm_middle
    rw [this.nodup_iff, List.nodup_cons]
    refine ⟨by simp [hnl, hnr], ?_⟩
    have h2 : (l.ids ++ e.id :: r.ids).Perm (e.id :: (l.ids ++ r.ids)) := List.perm_middle
    exact (List.nodup_cons.mp (h2.nodup_iff.mp hnd)).2

/-! ### assembly -/

theorem plug_node_ne_nil (k : Ctx) : ∀ (c : Color) (l r : Tree) (e : Elem), plug k (.node c l e r) ≠ .nil := by
  induction k with
  | nil => intro c l r e hh; cases hh
  | cons f k ih => intro c l r e; cases f <;> exact ih _ _ _ _

theorem plug_ne_nil {k : Ctx} (hk : k ≠ []) (s : Tree) : plug k s ≠ .nil := by
  cases k with
  | nil => exact absurd rfl hk
  | cons f k => cases f <;> exact plug_node_ne_nil _ _ _ _ _

theorem plug_size_mono (k : Ctx) : ∀ {s s' : Tree}, s.size ≤ s'.size → (plug k s).size ≤ (plug k s').size := by
  induction k with
  | nil => intro s s' hh; exact hh
  | cons f k ih =>
    intro s s' hh
    cases f <;> exact ih (by simp only [Tree.size]; omega)

/-- what `Cstl.Heap.pop` does with the tree `removeAt` leaves -/
def popTree (nn : Heap.Elem) : Heap.Tree → Heap.Tree
  | .nil => .nil
  | .node a b c => Heap.siftInto nn (.node a b c)

/-- `Cstl.Heap.pop` on a non-empty heap, given what `removeAt` returns -/
theorem heap_pop_eq {l r t1 : Heap.Tree} {res nn : Heap.Elem} {sz : Nat} (hsz : sz ≠ 0)
    (hr : Heap.removeAt (.node l res r) (Heap.path sz) = some (t1, nn)) :
    Heap.pop ⟨.node l res r, sz⟩ = some (⟨popTree nn t1, sz - 1⟩, some res) := by
  simp only [Heap.pop]
  rw [if_neg hsz]
  simp only [hr]
  cases t1 <;> rfl

/-- the address a functional pop result stands for -/
def resAddr : Option Heap.Elem → Nat
  | none => 0
  | some e => e.id

/-- `cstl_heap_pop` refines `Cstl.Heap.pop`: from a memory that represents a complete tree of
`size` nodes it never dereferences NULL and never runs out of fuel, returns the address of the
element the functional pop returns, and the memory it leaves represents the tree the functional
pop returns -/
theorem pop_refines {m : TM} {h : Hd} {t : Tree} (ht : IsTree m h.root 0 t)
    (hc : Heap.Complete (toH t) h.size) (hlt : h.size < 2 ^ 64) :
    ∃ m' h' t' res, pop m h = some (m', h', resAddr res) ∧ IsTree m' h'.root 0 t' ∧
      Heap.pop ⟨toH t, h.size⟩ = some (⟨toH t', h'.size⟩, res) ∧ m'.key = m.key ∧ m'.cl = m.cl := by
  cases t with
  | nil =>
    have hr : h.root = 0 := ht.shape
    exact ⟨m, h, .nil, none, by simp [pop, get, hr, resAddr], ht, rfl, rfl, rfl⟩
  | node c0 l0 e0 r0 =>
    have hr0 : h.root ≠ 0 := by have := ht.shape; simp only [Shape_node] at this; exact this.1
    have hid0 : e0.id = h.root := Shape.id_eq ht.shape
    have hsize := tree_size_of_complete hc hlt
    have hsz : h.size ≠ 0 := by rw [← hsize]; simp [Tree.size]
    have hloc : Heap.locOf (Heap.path h.size) = h.size := Heap.locOf_path _ (by omega) hlt
    have hocc : Heap.Occ (toH (.node c0 l0 e0 r0)) (Heap.path h.size) := (hc _).2 (by omega)
    have hleaf : ∀ d : Bool, ¬ Heap.Occ (toH (.node c0 l0 e0 r0)) (Heap.path h.size ++ [d]) := by
      intro d hh
      have := (hc _).1 hh
      rw [Heap.locOf_snoc, hloc] at this
      omega
    obtain ⟨k, cn, l, en, r, htk, hd⟩ := exists_ctx_of_occ _ _ hocc
    have hl : l = .nil := by
      have := hleaf false
      rw [htk, toH_plug, ← hd, occ_plugH] at this
      cases l with
      | nil => rfl
      | node => simp at this
    have hr : r = .nil := by
      have := hleaf true
      rw [htk, toH_plug, ← hd, occ_plugH] at this
      cases r with
      | nil => rfl
      | node => simp at this
    subst hl hr
    have ht' : IsTree m h.root 0 (plug k (.node cn .nil en .nil)) := htk ▸ ht
    obtain ⟨n, p, hz⟩ := Zip.of_plug ht'
    have hn0 : n ≠ 0 := by have := hz.sub; simp only [Shape_node] at this; exact this.1
    have hen : en = elemAt m n := by have := hz.sub; simp only [Shape_node] at this; exact this.2.1
    have hfind : find m h (h.size - 1) = some n := by
      refine find_zip hz ?_ (by omega)
      rw [hd]; congr 1; omega
    obtain ⟨u1, u2, u3, u4, u5, _⟩ := unlinkLast_spec hz
    have hrem : Heap.removeAt (.node (toH l0) (toE e0) (toH r0)) (Heap.path h.size) = some (plugH k .nil, toE en) := by
      have h1 : Heap.Tree.node (toH l0) (toE e0) (toH r0) = toH (plug k (.node cn .nil en .nil)) := by rw [← htk]; rfl
      rw [h1, toH_plug, ← hd]
      have := removeAt_plugH k (toH (.node cn .nil en .nil)) []
      rw [List.append_nil] at this
      rw [this]
      rfl
    have hpopH := heap_pop_eq hsz hrem
    have hget : get h = h.root := by simp [get, hr0]
    by_cases hk : k = []
    · subst hk
      simp only [if_true] at u5
      refine ⟨(unlinkLast m h n).1, { (unlinkLast m h n).2 with size := (unlinkLast m h n).2.size - 1 }, .nil,
        some (toE e0), ?_, ?_, ?_, u3, u4⟩
      · simp only [pop, hget, if_neg hr0, if_neg hsz, hfind, if_neg hn0, u5, ne_eq, not_true_eq_false, if_false,
          resAddr, toE_id, hid0]
      · exact ⟨u5, by simp⟩
      · rw [show toH (.node c0 l0 e0 r0) = .node (toH l0) (toE e0) (toH r0) from rfl, hpopH, u2]
        rfl
    · rw [if_neg hk] at u5
      cases ht1 : plug k .nil with
      | nil => exact absurd ht1 (plug_ne_nil hk _)
      | node c1 l1 e1 r1 =>
        rw [ht1] at u1
        have hnt1 : n ∉ (Tree.node c1 l1 e1 r1).ids := by
          rw [← ht1, (plug_ids_perm k .nil).mem_iff]
          have := hz.nodup
          have hid := Shape.id_eq hz.sub
          simp only [Cstl.Tree.ids_node, Cstl.Tree.ids_nil, List.nil_append, List.cons_append, List.nodup_cons, hid]
            at this
          simpa using this.1
        have hsz1 : (Tree.node c1 l1 e1 r1).size ≤ h.size := by
          rw [← ht1, ← hsize, htk]
          exact plug_size_mono k (by simp [Tree.size])
        obtain ⟨v1, v2, v3, v4⟩ := moveToRoot_spec (m := (unlinkLast m h n).1)
          (h := { (unlinkLast m h n).2 with size := (unlinkLast m h n).2.size - 1 }) (n := n) u1 hn0 hnt1
        have hzr := Zip.of_isTree v1
        obtain ⟨m', h', T', g1, g2, g3, g4, g5, g6⟩ := sdRest_spec h.size [] _ _ n 0 _ l1 r1 _
          (by
            have := height_le_size (Tree.node ((unlinkLast m h n).1.cl n) l1 (elemAt (unlinkLast m h n).1 n) r1)
            simp only [Tree.size] at this hsz1 ⊢
            omega) hzr
        refine ⟨m', h', T', some (toE e0), ?_, g2, ?_, by rw [g4, v3, u3], by rw [g5, v4, u4]⟩
        · simp only [u5] at g1
          simp only [pop, hget, if_neg hr0, if_neg hsz, hfind, if_neg hn0, u5, ne_eq, hr0, not_false_eq_true, if_true,
            siftDownLoop_null, resAddr, toE_id, hid0, g1]
          simp
        · rw [show toH (.node c0 l0 e0 r0) = .node (toH l0) (toE e0) (toH r0) from rfl, hpopH, g3, v2]
          have h2 : plugH k .nil = .node (toH l1) (toE e1) (toH r1) := by
            have := toH_plug k .nil
            rw [ht1] at this
            exact this.symm
          rw [h2]
          simp only [u2, popTree]
          have h3 : toE (elemAt (unlinkLast m h n).1 n) = toE en := by
            rw [hen]; simp [toE, elemAt, u3]
          rw [g6, h3]
          simp only [toH_node]
          rw [siftInto_root (toE en) (toE e1) (toE (elemAt (unlinkLast m h n).fst n))]

end Cstl.HeapL
