import Cstl.Gen.HeapC
import Cstl.HeapL.Model
import Cstl.Heap.LemmasFls
/-
Translator ties for src/heap.c and `cstl_fls` (src/common.c): `Cstl/Gen/HeapC.lean` is regenerated
from the C AST of the current source by tools/c2lean_heap.py on every check run; the theorems below
(hand-written, fixed) state that the hand-written models — `Cstl.Heap.fls`/`flsLoop` (the function
`fls_spec` is about), and `find`, `push`, `get`, `pop` of Cstl/HeapL/Model.lean (the functions
Props.lean proves to refine the functional heap) — are exactly those translations.  A change to one
of these C functions that alters its translation makes the corresponding equality fail.

`fu k` is the fuel of loop `k` of the generated module (0 cstl_fls, 1 cstl_heap_find, 2 the sift-up
loop of push, 3 the do/while of pop).  Where the model reports a NULL dereference or the undefined
shift of `size - 1 = -1` as `none`, the tie says so explicitly: the translation carries no such
checks (C gives these executions no meaning).
-/
set_option linter.unusedSimpArgs false
set_option linter.unusedVariables false
namespace Cstl.HeapL.Tie
open Cstl.TreeL Cstl.HeapL Cstl.Gen.HeapC
open Cstl.Heap (fls flsLoop flsStep)

@[simp] theorem toNat_ofNat (n : Nat) : (Int.ofNat n).toNat = n := rfl

/-! ### cstl_fls -/

/-- the `for` loop of `cstl_fls` is `flsLoop` (same mask, same halving) and ends with `b = 0` -/
theorem fls_loop_tie (x : Nat) : ∀ (fuel i b : Nat), b < 2 ^ fuel →
    c_cstl_fls_loop1 x fuel (Int.ofNat i) b = some (Int.ofNat (flsLoop x i b), 0) := by
  intro fuel
  induction fuel with
  | zero =>
    intro i b hb
    have : b = 0 := by simpa using hb
    subst this
    simp [c_cstl_fls_loop1, Cstl.Heap.flsLoop_zero]
  | succ f ih =>
    intro i b hb
    by_cases hb0 : b = 0
    · subst hb0
      simp [c_cstl_fls_loop1, Cstl.Heap.flsLoop_zero]
    · rw [Cstl.Heap.flsLoop_pos x i hb0]
      have hlt : b / 2 < 2 ^ f := by rw [Nat.pow_succ] at hb; omega
      have hstep : (if ¬ x &&& (18446744073709551615 <<< (b + i)) % 2 ^ 64 = 0 then Int.ofNat (b + i) else Int.ofNat i)
          = Int.ofNat (flsStep x i b) := by
        simp only [flsStep]
        split <;> rfl
      simp only [c_cstl_fls_loop1, ne_eq, hb0, not_false_eq_true, if_true, toNat_ofNat]
      rw [hstep]
      exact ih _ _ hlt

/-- `cstl_fls` is `Cstl.Heap.fls` (given fuel for its six iterations) -/
theorem fls_tie (fu : Nat → Nat) (x : Nat) (hfu : 6 ≤ fu 0) : c_cstl_fls fu x = some (fls x) := by
  have h32 : (32 : Nat) < 2 ^ fu 0 := Nat.lt_of_lt_of_le (by decide : (32 : Nat) < 2 ^ 6) (Nat.pow_le_pow_right (by decide) hfu)
  have := fls_loop_tie x (fu 0) 0 32 h32
  simp only [c_cstl_fls, fls]
  by_cases hx : x = 0
  · simp [hx]
  · simp only [ne_eq, hx, not_false_eq_true, if_true, if_false]
    have e : (8 * 8 / 2 : Nat) = 32 := by decide
    rw [e]
    have e0 : (0 : Int) = Int.ofNat 0 := rfl
    rw [e0, this]

/-! ### cstl_heap_find -/

theorem find_loop_tie (m : TM) (loc : Nat) : ∀ (fuel p b : Nat),
    (c_cstl_heap_find_loop1 m loc fuel p b).map (·.1) = findLoop m loc fuel p b := by
  intro fuel
  induction fuel with
  | zero =>
    intro p b
    simp only [c_cstl_heap_find_loop1, findLoop]
    split <;> rfl
  | succ f ih =>
    intro p b
    simp only [c_cstl_heap_find_loop1, findLoop]
    split
    · rw [← ih]
    · rfl

/-- `cstl_heap_find` is the model's `find` (same start mask from `cstl_fls`, same loop) -/
theorem find_tie (fu : Nat → Nat) (m : TM) (h : Hd) (id : Nat) (hfu0 : 6 ≤ fu 0) (hfu1 : fu 1 = findFuel) :
    c_cstl_heap_find fu m h id = find m h id := by
  simp only [c_cstl_heap_find, find, fls_tie fu (id + 1) hfu0, hfu1, toNat_ofNat]
  rw [← find_loop_tie]
  cases c_cstl_heap_find_loop1 m (id + 1) findFuel h.root ((1 <<< (fls (id + 1)).toNat) >>> 1) with
  | none => rfl
  | some r => rfl

/-! ### cstl_heap_promote_child, cstl_heap_get -/

theorem promote_tie (m : TM) (h : Hd) (c : Nat) : c_cstl_heap_promote_child m h c = promoteChild m h c := by
  simp only [promoteChild, c_cstl_heap_promote_child]

theorem get_tie (m : TM) (h : Hd) : c_cstl_heap_get m h = get h := rfl

/-! ### cstl_heap_push -/

theorem cmpKey_pos (m : TM) (a b : Nat) : cmpKey m a b > 0 ↔ m.key a > m.key b := by
  unfold cmpKey
  split
  · simp [*]
  · split <;> simp [*]

/-- the `while` loop of `cstl_heap_push` -/
theorem push_loop_tie (n : Nat) : ∀ (fuel : Nat) (m : TM) (h : Hd),
    c_cstl_heap_push_loop1 n fuel m h = siftUpLoop fuel m h n := by
  intro fuel
  induction fuel with
  | zero => intro m h; simp only [c_cstl_heap_push_loop1, siftUpLoop, cmpKey_pos]
  | succ f ih => intro m h; simp only [c_cstl_heap_push_loop1, siftUpLoop, cmpKey_pos, promote_tie, ih]

/-- `cstl_heap_push`: the model is the translation, plus `none` where the C code would shift by
`cstl_fls(0) = -1` (non-empty heap with `size = 0`) or store through the NULL `cstl_heap_find`
returned -/
theorem push_tie (fu : Nat → Nat) (m : TM) (h : Hd) (n : Nat) (hfu0 : 6 ≤ fu 0) (hfu1 : fu 1 = findFuel)
    (hfu2 : fu 2 = h.size + 1) :
    push m h n =
      if h.root ≠ 0 ∧ (h.size = 0 ∨ find (setRt (setLf m n 0) n 0) h ((h.size - 1) / 2) = some 0) then none
      else c_cstl_heap_push fu m h n := by
  simp only [push, c_cstl_heap_push, find_tie fu _ h _ hfu0 hfu1, push_loop_tie, hfu2]
  by_cases hr : h.root = 0
  · simp [hr]
  · by_cases hs : h.size = 0
    · simp [hr, hs]
    · simp only [hr, hs, if_false, ne_eq, not_false_eq_true, true_and, false_or]
      cases hf : find (setRt (setLf m n 0) n 0) h ((h.size - 1) / 2) with
      | none => simp
      | some p =>
        by_cases hp : p = 0
        · simp [hp]
        · simp only [hp, if_false, Option.some.injEq]
          have e : (setP (setRt (setLf m n 0) n 0) n p).pr n = p := by simp [setP, Cstl.SList.upd]
          rw [e]
          by_cases hm : h.size % 2 = 0 <;> simp only [hm, if_true, if_false] <;>
            cases siftUpLoop (h.size + 1) _ h n <;> rfl

/-! ### cstl_heap_pop -/

theorem pickChild_tie (m : TM) (n : Nat) :
    (if (m.rt n ≠ 0 ∧ cmpKey m (m.rt n) (if (m.lf n ≠ 0 ∧ cmpKey m (m.lf n) n > 0) then m.lf n else n) > 0)
      then m.rt n else (if (m.lf n ≠ 0 ∧ cmpKey m (m.lf n) n > 0) then m.lf n else n)) = pickChild m n := by
  simp only [pickChild, cmpKey_pos]

/-- the `do … while` of `cstl_heap_pop` (the final candidate `c` is dropped) -/
theorem pop_loop_tie (n : Nat) : ∀ (fuel : Nat) (m : TM) (h : Hd) (c : Nat),
    (c_cstl_heap_pop_loop1 n fuel m h c).map (fun r => (r.1, r.2.1)) = siftDownLoop fuel m h n c := by
  intro fuel
  induction fuel with
  | zero => intro m h c; rfl
  | succ f ih =>
    intro m h c
    simp only [c_cstl_heap_pop_loop1, siftDownLoop, promote_tie]
    by_cases hc : c = 0
    · simp only [hc, ne_eq, not_true_eq_false, if_false, pickChild_tie]
      split
      · rw [← ih]
      · rfl
    · simp only [hc, ne_eq, not_false_eq_true, if_true, pickChild_tie]
      split
      · rw [← ih]
      · rfl

/-- `cstl_heap_pop`: the model is the translation, plus `none` where the C code would shift by
`cstl_fls(0) = -1` (non-empty heap with `size = 0`) or read `n->p` through the NULL
`cstl_heap_find` returned -/
theorem pop_tie (fu : Nat → Nat) (m : TM) (h : Hd) (hfu0 : 6 ≤ fu 0) (hfu1 : fu 1 = findFuel)
    (hfu3 : fu 3 = h.size + 1) :
    pop m h =
      if h.root ≠ 0 ∧ (h.size = 0 ∨ find m h (h.size - 1) = some 0) then none
      else c_cstl_heap_pop fu m h := by
  simp only [pop, c_cstl_heap_pop, find_tie fu _ h _ hfu0 hfu1, get_tie, hfu3]
  by_cases hr : h.root = 0
  · simp [get, hr]
  · have hg : get h = h.root := by simp [get, hr]
    by_cases hs : h.size = 0
    · simp [hg, hr, hs]
    · simp only [hg, hr, hs, if_false, ne_eq, not_false_eq_true, true_and, false_or]
      cases hf : find m h (h.size - 1) with
      | none => simp
      | some n =>
        by_cases hn : n = 0
        · simp [hn]
        · simp only [hn, if_false, Option.some.injEq]
          by_cases hp : m.pr n = 0
          · simp only [unlinkLast, moveToRoot, hp, if_true, ne_eq, not_true_eq_false, if_false]
          · have hl := pop_loop_tie n (h.size + 1)
            by_cases hq : m.lf (m.pr n) = n
            · simp only [unlinkLast, hp, hq, if_true, if_false, hr, ne_eq, not_false_eq_true]
              rw [← hl]
              simp only [moveToRoot]
              cases c_cstl_heap_pop_loop1 n (h.size + 1) _ _ 0 <;> rfl
            · simp only [unlinkLast, hp, hq, if_true, if_false, hr, ne_eq, not_false_eq_true]
              rw [← hl]
              simp only [moveToRoot]
              cases c_cstl_heap_pop_loop1 n (h.size + 1) _ _ 0 <;> rfl

end Cstl.HeapL.Tie
