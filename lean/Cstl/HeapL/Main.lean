import Cstl.Base.Driver
import Cstl.HeapL.Model
/-
Driver for the link-level heap model (`m_heapl`).  Same line protocol and the
same output lines as lean/Cstl/Heap/Main.lean / harness/heap.c, so the
generators and the oracle of tools/areas/heap.py are reused unchanged.

ops      push <key> <id> | pop | get | size | clear | dump | fls <x>
output   <result> | n=<size> c=<0|1> [<slot>:<id>:<key>,…][ links=bad@<id>]

Node addresses are the element ids 1..4000, NULL is 0, the value the clear
callback overwrites an element with is the foreign address 4001.  Every
operation is one `stepL` of Model.lean on the link memories; the state dump is
computed like `dump()` of harness/heap.c: breadth-first from `root` through
the `l`/`r` fields, slots numbered 1, 2k, 2k+1, every `p` field compared with
the node it was reached from (`links=bad@<id>` for the first that differs),
`c=1` iff the slots are exactly 1..size.

The link memories are functions in the model; the driver keeps them tabulated
in arrays between operations.  After an operation only the addresses the
operation can have written are re-tabulated (`mode full` re-tabulates every
address instead; the two modes are compared by tools/areas/heapl.py's
self-test): for push the nodes on the root-to-new-slot path of the new tree and
their children, for pop the nodes on the root-to-last-slot path of the old tree
and their children plus the moved node, its new ancestors and their children.
-/
open Cstl Cstl.Heap Cstl.TreeL Cstl.HeapL

def maxId : Nat := 4000
def poisonAddr : Nat := maxId + 1
def fullMax : Nat := 64

structure St where
  pr : Array Nat := #[]
  lf : Array Nat := #[]
  rt : Array Nat := #[]
  key : Array Int := #[]
  hd : Hd := { root := 0, size := 0 }
  /-- header of the swap partner (same element pool) -/
  hd2 : Hd := { root := 0, size := 0 }
  full : Bool := false

def growTo {α : Type} (a : Array α) (n : Nat) (d : α) : Array α :=
  if n < a.size then a else a ++ Array.replicate (max (n + 1 - a.size) (a.size + 16)) d

def St.tm (s : St) : TM :=
  { pr := fun a => s.pr.getD a 0, lf := fun a => s.lf.getD a 0, rt := fun a => s.rt.getD a 0,
    cl := fun _ => Cstl.Tree.Color.black, key := fun a => s.key.getD a 0 }

/-- tabulate the memory the model returned at the given addresses -/
def St.store (s : St) (m : TM) (hd : Hd) (addrs : List Nat) : St :=
  let vals := addrs.filterMap (fun a => if a ≠ 0 ∧ a < s.pr.size then some (a, m.pr a, m.lf a, m.rt a) else none)
  { s with
    pr := vals.foldl (fun (arr : Array Nat) v => arr.setIfInBounds v.1 v.2.1) s.pr
    lf := vals.foldl (fun (arr : Array Nat) v => arr.setIfInBounds v.1 v.2.2.1) s.lf
    rt := vals.foldl (fun (arr : Array Nat) v => arr.setIfInBounds v.1 v.2.2.2) s.rt
    hd := hd }

/-- the nodes at the positions along `ds` from `a`, and their children -/
def pathNodes (m : TM) : Nat → List Bool → List Nat → List Nat
  | a, ds, acc =>
    if a = 0 then acc else
    let acc := a :: m.lf a :: m.rt a :: acc
    match ds with
    | [] => acc
    | d :: ds => pathNodes m (if d then m.rt a else m.lf a) ds acc

/-- `a`, its ancestors through the `p` fields, and the children of all of them -/
def upNodes (m : TM) : Nat → Nat → List Nat → List Nat
  | 0, _, acc => acc
  | fuel + 1, a, acc => if a = 0 then acc else upNodes m fuel (m.pr a) (a :: m.lf a :: m.rt a :: acc)

def allAddrs (s : St) : List Nat := List.range s.pr.size

/-! ### state dump: `dump()` of harness/heap.c on the link arrays -/

structure QEnt where
  n : Nat
  frm : Nat
  loc : Nat

/-- breadth-first walk; returns the queue (everything listed) and the first bad node -/
def bfsLoop (s : St) : Nat → Array QEnt → Nat → Option Int → Array QEnt × Option Int
  | 0, q, _, bad => (q, bad)
  | fuel + 1, q, head, bad =>
    if h : head < q.size then
      let e := q[head]
      if e.n = 0 ∨ e.n > maxId then
        -- pointer to something that is not an element: stop here
        (q.extract 0 head, if bad.isNone then some (-1) else bad)
      else
        let bad := if s.pr.getD e.n 0 ≠ e.frm ∧ bad.isNone then some (Int.ofNat e.n) else bad
        let l := s.lf.getD e.n 0
        let r := s.rt.getD e.n 0
        if l ≠ 0 ∧ q.size ≥ maxId then
          (q, if bad.isNone then some (Int.ofNat e.n) else bad)     -- more nodes than elements: a cycle
        else
          let q := if l ≠ 0 then q.push { n := l, frm := e.n, loc := 2 * e.loc } else q
          if r ≠ 0 ∧ q.size ≥ maxId then
            (q, if bad.isNone then some (Int.ofNat e.n) else bad)
          else
            let q := if r ≠ 0 then q.push { n := r, frm := e.n, loc := 2 * e.loc + 1 } else q
            bfsLoop s fuel q (head + 1) bad
    else (q, bad)

def digestP : Nat := 2147483647

def dumpSt (s : St) (full : Bool) : String :=
  let q0 : Array QEnt := if s.hd.root ≠ 0 then #[{ n := s.hd.root, frm := 0, loc := 1 }] else #[]
  let (q, bad) := bfsLoop s (maxId + 2) q0 0 none
  let nodes : List (Nat × Nat × Int) := q.toList.map (fun e => (e.loc, e.n, s.key.getD e.n 0))
  let complete := q.size == s.hd.size && (nodes.map (·.1)) == (List.range q.size).map (· + 1)
  let body :=
    if full || q.size ≤ fullMax then
      "[" ++ ",".intercalate (nodes.map fun p => s!"{p.1}:{p.2.1}:{p.2.2}") ++ "]"
    else
      let dg := nodes.foldl (fun h (p : Nat × Nat × Int) =>
        (h * 1000003 + (p.1 % digestP) * 8191 + (p.2.1 % digestP) * 131
          + (p.2.2 + 2147483648).toNat % digestP) % digestP) 7
      s!"#{dg}"
  let tail := match bad with
    | none => ""
    | some b => s!" links=bad@{b}"
  s!"n={s.hd.size} c={if complete then "1" else "0"} {body}{tail}"

def hstep (s : St) (ws : List String) : St × String :=
  let bad := (s, "STOP bad-op")
  let fin (s' : St) (r : String) (full : Bool := false) : St × String :=
    (s', r ++ " | " ++ dumpSt s' full)
  match ws with
  | ["mode", m] =>
    if m = "full" then ({ s with full := true }, "ok |")
    else if m = "fast" then ({ s with full := false }, "ok |")
    else bad
  | ["push", k, i] =>
    match parseInt? k, i.toNat? with
    | some k, some i =>
      if i = 0 ∨ i > maxId then bad else
      let s1 : St := { s with pr := growTo s.pr i 0, lf := growTo s.lf i 0, rt := growTo s.rt i 0,
                              key := growTo s.key i 0 }
      match stepL poisonAddr ⟨s1.tm, s1.hd⟩ (.push i k) with
      | none => (s, "STOP segv")
      | some (s', _) =>
        let dirty := if s.full then allAddrs s1
          else i :: pathNodes s'.m s'.h.root (path s'.h.size) []
        let s2 := s1.store s'.m s'.h dirty
        fin { s2 with key := s2.key.setIfInBounds i k } "ok"
    | _, _ => bad
  | ["pop"] =>
    match stepL poisonAddr ⟨s.tm, s.hd⟩ .pop with
    | none => (s, "STOP segv")
    | some (s', r) =>
      let dirty := if s.full then allAddrs s
        else
          let old := pathNodes s.tm s.hd.root (path s.hd.size) []
          -- the moved node is the last one of the old tree; it ends below its new ancestors
          upNodes s'.m (s.hd.size + 2) (walkTo s.tm s.hd.root (path s.hd.size)) old
      let res := if r = 0 then "0" else s!"{r}:{s.key.getD r 0}"
      fin (s.store s'.m s'.h dirty) res
  | ["get"] =>
    let r := get s.hd
    fin s (if r = 0 then "0" else s!"{r}:{s.key.getD r 0}")
  | ["size"] => fin s (toString s.hd.size)
  | ["clear"] =>
    match clear poisonAddr s.tm s.hd with
    | none => (s, "STOP segv")
    | some (_, hd', cbs) =>
      -- the harness wipes every element it was called back on (memset 0) after verifying the pattern
      let z (arr : Array Nat) : Array Nat := cbs.foldl (fun a i => a.setIfInBounds i 0) arr
      let s' : St := { s with pr := z s.pr, lf := z s.lf, rt := z s.rt,
                              key := cbs.foldl (fun a i => a.setIfInBounds i 0) s.key, hd := hd' }
      fin s' (showList cbs ++ " p=1")
  | ["swap"] => fin { s with hd := s.hd2, hd2 := s.hd } "ok"
  | ["alt"] => fin { s with hd := s.hd2, hd2 := s.hd } "ok"
  | ["dump"] => fin s "ok" true
  | ["fls", x] =>
    match parseNat? x with
    | some x => if x < 2 ^ 64 then fin s (toString (fls x)) else bad
    | none => bad
  | _ => bad

def main : IO Unit := runArea { init := {}, step := hstep }
