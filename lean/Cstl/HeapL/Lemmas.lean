import Cstl.HeapL.Spec
/-
Helper lemmas of Props.lean: the walk of `cstl_heap_find` read on the functional tree, elements at
positions, the initial state.
-/
set_option linter.unusedSimpArgs false
set_option linter.unusedVariables false
namespace Cstl.HeapL
open Cstl.SList (Mem upd upd_same upd_other)
open Cstl.TreeL
open Cstl.Tree (Color Elem Tree)

theorem walkTo_shape {m : TM} : ∀ (ds : List Bool) {a p : Nat} {t : Tree}, Shape m a p t →
    walkTo m a ds = resAddr (Heap.elemAt (toH t) ds) := by
  intro ds
  induction ds with
  | nil =>
    intro a p t hs
    cases t with
    | nil => exact hs
    | node c l e r => simp [walkTo, Heap.elemAt, resAddr, Shape.id_eq hs]
  | cons d ds ih =>
    intro a p t hs
    cases t with
    | nil =>
      have : a = 0 := hs
      subst this
      simp [walkTo, Heap.elemAt, resAddr]
    | node c l e r =>
      simp only [Shape_node] at hs
      simp only [walkTo, hs.1, if_false, toH_node, Heap.elemAt]
      cases d
      · exact ih hs.2.2.2.2.1
      · exact ih hs.2.2.2.2.2

theorem elemAt_eq_none_iff : ∀ {ds : List Bool} {t : Heap.Tree}, Heap.elemAt t ds = none ↔ ¬ Heap.Occ t ds := by
  intro ds
  induction ds with
  | nil => intro t; cases t <;> simp [Heap.elemAt]
  | cons d ds ih => intro t; cases t <;> simp [Heap.elemAt, ih]

theorem elemAt_mem : ∀ {ds : List Bool} {t : Heap.Tree} {e : Heap.Elem}, Heap.elemAt t ds = some e →
    e ∈ Heap.Tree.elems t := by
  intro ds
  induction ds with
  | nil =>
    intro t e h
    cases t with
    | nil => simp [Heap.elemAt] at h
    | node l x r => simp [Heap.elemAt] at h; simp [h]
  | cons d ds ih =>
    intro t e h
    cases t with
    | nil => simp [Heap.elemAt] at h
    | node l x r =>
      simp only [Heap.elemAt] at h
      cases d
      · have := ih (t := l) (by simpa using h); simp [this]
      · have := ih (t := r) (by simpa using h); simp [this]

theorem Rep.init (m : TM) : Rep ⟨m, ⟨0, 0⟩⟩ Heap.empty := ⟨.nil, ⟨rfl, by simp⟩, rfl, rfl⟩

theorem setKey_agree' (m : TM) (n : Nat) (key : Int) {z : Nat} (h : z ≠ n) : Agree m (setKey m n key) z :=
  ⟨rfl, rfl, rfl, rfl, show updK m.key n key z = m.key z by simp [updK, h]⟩

end Cstl.HeapL
