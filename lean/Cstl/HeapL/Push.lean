import Cstl.HeapL.Find
import Cstl.TreeL.Promote
import Cstl.TreeL.Insert
/-
cstl_heap_push at link level refines `Cstl.Heap.push`: the sift-up loop
(`while (n->p != NULL && cmp(n, n->p) > 0) promote_child(h, n)`, navigating
through the parent links) performs, frame by frame from the innermost, what
the recursion of `Cstl.Heap.siftUp` performs on its way back up.
-/
set_option linter.unusedSimpArgs false
set_option linter.unusedVariables false
namespace Cstl.HeapL
open Cstl.SList (Mem upd upd_same upd_other)
open Cstl.TreeL
open Cstl.Tree (Color Elem Tree)

theorem siftUpLoop_stop {m : TM} {h : Hd} {n : Nat} (hs : ¬ (m.pr n ≠ 0 ∧ m.key n > m.key (m.pr n))) (fuel : Nat) :
    siftUpLoop fuel m h n = some (m, h) := by
  cases fuel <;> simp only [siftUpLoop, if_neg hs]

/-- the sift-up loop entered with the new node `n` in the hole of the context `k` -/
theorem siftUpLoop_spec : ∀ (k : Ctx) (fuel : Nat) (m : TM) (h : Hd) (n p : Nat) (cn : Color) (l r : Tree) (en : Elem),
    Zip m h.root k n p (.node cn l en r) → k.length ≤ fuel →
    ∃ m' h' T b, siftUpLoop fuel m h n = some (m', h') ∧ IsTree m' h'.root 0 T ∧ h'.size = h.size ∧
      m'.key = m.key ∧ m'.cl = m.cl ∧ upH k (some (toH (.node cn l en r), true)) = some (toH T, b) := by
  intro k
  induction k with
  | nil =>
    intro fuel m h n p cn l r en hz _
    have hn0 : n ≠ 0 := by have := hz.sub; simp only [Shape_node] at this; exact this.1
    have hp : m.pr n = 0 := by rw [hz.pr_focus hn0]; exact hz.slot_nil.1
    refine ⟨m, h, _, true, siftUpLoop_stop (by simp [hp]) fuel, hz.isTree_nil, rfl, rfl, rfl, rfl⟩
  | cons f k ih =>
    intro fuel m h n p cn l r en hz hfuel
    have hs := hz.sub
    simp only [Shape_node] at hs
    obtain ⟨hn0, hen, _, hpn, _, _⟩ := hs
    have henid : en.id = n := by simp [hen]
    have henkey : en.key = m.key n := by simp [hen]
    cases f with
    | L cp pe ps =>
      have hc := hz.ctx
      simp only [CtxShape_L] at hc
      obtain ⟨hp0, hpe, _, _, _, _⟩ := hc
      have hpekey : pe.key = m.key p := by simp [hpe]
      by_cases hgt : m.key n > m.key p
      · obtain ⟨fuel', rfl⟩ : ∃ f', fuel = f' + 1 := ⟨fuel - 1, by simp at hfuel; omega⟩
        have hup : Zip m h.root k p (m.pr p) (mkNode true cp (.node cn l en r) pe ps) := by simpa using hz.upL
        obtain ⟨z1, z2, z3, z4, _⟩ := promoteChild_spec hup
        rw [henid] at z1 z2 z3 z4
        simp only [mkNode_true] at z1
        obtain ⟨m', h', T, b, g1, g2, g3, g4, g5, g6⟩ := ih fuel' _ _ n (m.pr p) cn (.node cp l pe r) ps en z1
          (by simp at hfuel; omega)
        refine ⟨m', h', T, b, ?_, g2, by rw [g3, z2], by rw [g4, z4], by rw [g5, z3], ?_⟩
        · simp only [siftUpLoop]
          rw [if_pos ⟨by rw [hpn]; exact hp0, by rw [hpn]; exact hgt⟩]
          exact g1
        · rw [← g6]
          have hcmp : en.key > pe.key := by rw [henkey, hpekey]; exact hgt
          simp [stepUp, felem, hcmp]
      · refine ⟨m, h, _, false, siftUpLoop_stop (by rw [hpn]; exact fun hh => hgt hh.2) fuel, hz.isTree, rfl, rfl, rfl, ?_⟩
        have hcmp : ¬ en.key > pe.key := by rw [henkey, hpekey]; exact hgt
        simp [stepUp, felem, hcmp, upH_stopped, toH_plug]
        rfl
    | R cp ps pe =>
      have hc := hz.ctx
      simp only [CtxShape_R] at hc
      obtain ⟨hp0, hpe, _, _, _, _⟩ := hc
      have hpekey : pe.key = m.key p := by simp [hpe]
      by_cases hgt : m.key n > m.key p
      · obtain ⟨fuel', rfl⟩ : ∃ f', fuel = f' + 1 := ⟨fuel - 1, by simp at hfuel; omega⟩
        have hup : Zip m h.root k p (m.pr p) (mkNode false cp (.node cn l en r) pe ps) := by simpa using hz.upR
        obtain ⟨z1, z2, z3, z4, _⟩ := promoteChild_spec hup
        rw [henid] at z1 z2 z3 z4
        simp only [mkNode_false] at z1
        obtain ⟨m', h', T, b, g1, g2, g3, g4, g5, g6⟩ := ih fuel' _ _ n (m.pr p) cn ps (.node cp l pe r) en z1
          (by simp at hfuel; omega)
        refine ⟨m', h', T, b, ?_, g2, by rw [g3, z2], by rw [g4, z4], by rw [g5, z3], ?_⟩
        · simp only [siftUpLoop]
          rw [if_pos ⟨by rw [hpn]; exact hp0, by rw [hpn]; exact hgt⟩]
          exact g1
        · rw [← g6]
          have hcmp : en.key > pe.key := by rw [henkey, hpekey]; exact hgt
          simp [stepUp, felem, hcmp]
      · refine ⟨m, h, _, false, siftUpLoop_stop (by rw [hpn]; exact fun hh => hgt hh.2) fuel, hz.isTree, rfl, rfl, rfl, ?_⟩
        have hcmp : ¬ en.key > pe.key := by rw [henkey, hpekey]; exact hgt
        simp [stepUp, felem, hcmp, upH_stopped, toH_plug]
        rfl

/-- `Cstl.Heap.push` on a non-empty heap, given what its two recursions return -/
theorem heap_push_eq {T t1 t2 : Heap.Tree} {sz : Nat} {e : Heap.Elem} {b : Bool} (hT : T ≠ .nil) (hsz : sz ≠ 0)
    (ha : Heap.attachAt T (Heap.path ((sz - 1) / 2 + 1)) (sz % 2 == 0) e = some t1)
    (hs : Heap.siftUp t1 (Heap.path ((sz - 1) / 2 + 1) ++ [sz % 2 == 0]) = some (t2, b)) :
    Heap.push ⟨T, sz⟩ e = some ⟨t2, sz + 1⟩ := by
  cases T with
  | nil => exact absurd rfl hT
  | node l x r =>
    simp only [Heap.push]
    rw [if_neg hsz]
    simp only [ha, hs]

theorem tree_size_of_complete {t : Tree} {n : Nat} (hc : Heap.Complete (toH t) n) (hlt : n < 2 ^ 64) : t.size = n := by
  rw [size_eq_elems, Heap.complete_length n _ hlt hc]

/-- the three stores to the new node and the store to the parent's child field are the leaf
attach of the bintree insert (in another order) -/
theorem push_attach_eq_L (m : TM) (h : Hd) (n a : Nat) :
    setLf (setP (setRt (setLf m n 0) n 0) n a) a n = (attach m h n a (.lf a)).1 := rfl
theorem push_attach_eq_R (m : TM) (h : Hd) (n a : Nat) :
    setRt (setP (setRt (setLf m n 0) n 0) n a) a n = (attach m h n a (.rt a)).1 := rfl

/-- `cstl_heap_push` refines `Cstl.Heap.push`: from a memory that represents a complete tree of
`size` nodes, for a new node `n` (non-NULL, not in the tree), it never dereferences NULL and never
runs out of fuel, and the memory it leaves represents the tree the functional push returns -/
theorem push_refines {m : TM} {h : Hd} {t : Tree} {n : Nat} (ht : IsTree m h.root 0 t)
    (hc : Heap.Complete (toH t) h.size) (hn0 : n ≠ 0) (hnt : n ∉ t.ids) (hlt : h.size + 1 < 2 ^ 64) :
    ∃ m' h' t', push m h n = some (m', h') ∧ IsTree m' h'.root 0 t' ∧
      Heap.push ⟨toH t, h.size⟩ ⟨m.key n, n⟩ = some ⟨toH t', h'.size⟩ ∧ m'.key = m.key ∧ m'.cl = m.cl := by
  cases t with
  | nil =>
    have hr : h.root = 0 := ht.shape
    have h0 : h.size = 0 := by
      have := tree_size_of_complete hc (by omega)
      simpa [Tree.size] using this.symm
    refine ⟨setP (setRt (setLf m n 0) n 0) n 0, { root := n, size := h.size + 1 },
      .node (m.cl n) .nil (elemAt m n) .nil, by simp only [push, hr, if_true], ⟨?_, by simp⟩, ?_, rfl, rfl⟩
    · simp [Shape_node, upd_apply, hn0, elemAt]
    · simp [Heap.push, Heap.Tree.leaf, toE, elemAt]
  | node c0 l0 e0 r0 =>
    have hr : h.root ≠ 0 := by have := ht.shape; simp only [Shape_node] at this; exact this.1
    have hsize := tree_size_of_complete hc (by omega)
    have hsz : h.size ≠ 0 := by rw [← hsize]; simp [Tree.size]
    have hpar : Heap.Occ (toH (.node c0 l0 e0 r0)) (Heap.path ((h.size - 1) / 2 + 1)) := by
      apply (hc _).2
      rw [Heap.locOf_path _ (by omega) (by omega)]
      omega
    have hfree : ¬ Heap.Occ (toH (.node c0 l0 e0 r0)) (Heap.path ((h.size - 1) / 2 + 1) ++ [h.size % 2 == 0]) := by
      intro hh
      have := (hc _).1 hh
      rw [Heap.locOf_parent_child _ (by omega) hlt] at this
      omega
    obtain ⟨k, cp, l, pe, r, htk, hd⟩ := exists_ctx_of_occ _ _ hpar
    rw [htk] at ht hfree hc hnt hsize
    rw [htk]
    clear htk
    rw [toH_plug, ← hd, occ_plugH] at hfree
    have hklen : k.length + 1 ≤ h.size := by
      have := plug_size_ge k (.node cp l pe r)
      simp only [Tree.size] at this
      omega
    -- the memory after `n->l = NULL; n->r = NULL` still represents the tree
    have ht2 : IsTree (setRt (setLf m n 0) n 0) h.root 0 (plug k (.node cp l pe r)) :=
      ⟨ht.shape.frame (fun z hz => by
          have hzn : z ≠ n := fun e => hnt (e ▸ hz)
          exact (Agree.setLf 0 hzn).trans (Agree.setRt 0 hzn)), ht.nodup⟩
    obtain ⟨a, gp, hz2⟩ := Zip.of_plug ht2
    obtain ⟨a', gp', hz⟩ := Zip.of_plug ht
    have ha : a = pe.id := (Shape.id_eq hz2.sub).symm
    have ha' : a' = pe.id := (Shape.id_eq hz.sub).symm
    rw [← ha] at ha'
    subst ha'
    have ha0 : a' ≠ 0 := by have := hz.sub; simp only [Shape_node] at this; exact this.1
    have hfind : find (setRt (setLf m n 0) n 0) h ((h.size - 1) / 2) = some a' :=
      find_zip hz2 hd (by omega)
    have hnk : n ∉ ctxIds k ∧ n ∉ l.ids ∧ n ≠ pe.id ∧ n ∉ r.ids := by
      have := (plug_ids_perm k (.node cp l pe r)).mem_iff (a := n)
      simp only [Cstl.Tree.ids_node, List.mem_append, List.mem_cons] at this
      grind
    have hT : toH (plug k (.node cp l pe r)) ≠ .nil := by
      rw [toH_plug]
      intro hh
      have h1 : Heap.Occ (plugH k (toH (.node cp l pe r))) (dirs k ++ []) := by
        rw [occ_plugH]; simp
      rw [hh] at h1
      simp at h1
    by_cases hside : h.size % 2 = 0
    · -- right child
      have hb : (h.size % 2 == 0) = true := by simp [hside]
      rw [hb] at hfree
      have hrn : r = .nil := by
        cases r with
        | nil => rfl
        | node => simp at hfree
      subst hrn
      have hzd := hz.downR
      have hrt0 : m.rt a' = 0 := hzd.sub
      rw [hrt0] at hzd
      obtain ⟨z1, z2, z3, z4, _⟩ := attach_spec (h := h) (n := n) hzd hn0
        (by simp only [ctxIds_cons, Frame.ids_R, List.cons_append, List.mem_cons, List.mem_append]; grind)
      simp only [slot] at z1 z2 z3 z4
      obtain ⟨m', h', T, b, g1, g2, g3, g4, g5, g6⟩ := siftUpLoop_spec (.R cp l pe :: k) (h.size + 1)
        (attach m h n a' (.rt a')).1 h n a' (m.cl n) .nil .nil (elemAt m n) z1 (by simp; omega)
      refine ⟨m', { h' with size := h'.size + 1 }, T, ?_, g2, ?_, by rw [g4, z4], by rw [g5, z3]⟩
      · simp only [push, if_neg hr, if_neg hsz, hfind, if_neg ha0, if_pos hside, push_attach_eq_R m h n a', g1]
      · rw [g3]
        refine heap_push_eq hT hsz (t1 := plugH (.R cp l pe :: k) (Heap.Tree.leaf ⟨m.key n, n⟩)) (b := b) ?_ ?_
        · rw [hb, toH_plug, ← hd]
          have := attachAt_plugH k (toH (.node cp l pe .nil)) [] true ⟨m.key n, n⟩
          rw [List.append_nil] at this
          rw [this]
          rfl
        · rw [hb, ← hd]
          have := siftUp_plugH (.R cp l pe :: k) (Heap.Tree.leaf ⟨m.key n, n⟩) []
          simp only [dirs_cons, fdir, List.append_nil] at this
          rw [this, Heap.siftUp_leaf]
          exact g6
    · -- left child
      have hb : (h.size % 2 == 0) = false := by simp [hside]
      rw [hb] at hfree
      have hln : l = .nil := by
        cases l with
        | nil => rfl
        | node => simp at hfree
      subst hln
      have hzd := hz.downL
      have hlf0 : m.lf a' = 0 := hzd.sub
      rw [hlf0] at hzd
      obtain ⟨z1, z2, z3, z4, _⟩ := attach_spec (h := h) (n := n) hzd hn0
        (by simp only [ctxIds_cons, Frame.ids_L, List.cons_append, List.mem_cons, List.mem_append]; grind)
      simp only [slot] at z1 z2 z3 z4
      obtain ⟨m', h', T, b, g1, g2, g3, g4, g5, g6⟩ := siftUpLoop_spec (.L cp pe r :: k) (h.size + 1)
        (attach m h n a' (.lf a')).1 h n a' (m.cl n) .nil .nil (elemAt m n) z1 (by simp; omega)
      refine ⟨m', { h' with size := h'.size + 1 }, T, ?_, g2, ?_, by rw [g4, z4], by rw [g5, z3]⟩
      · simp only [push, if_neg hr, if_neg hsz, hfind, if_neg ha0, if_neg hside, push_attach_eq_L m h n a', g1]
      · rw [g3]
        refine heap_push_eq hT hsz (t1 := plugH (.L cp pe r :: k) (Heap.Tree.leaf ⟨m.key n, n⟩)) (b := b) ?_ ?_
        · rw [hb, toH_plug, ← hd]
          have := attachAt_plugH k (toH (.node cp .nil pe r)) [] false ⟨m.key n, n⟩
          rw [List.append_nil] at this
          rw [this]
          rfl
        · rw [hb, ← hd]
          have := siftUp_plugH (.L cp pe r :: k) (Heap.Tree.leaf ⟨m.key n, n⟩) []
          simp only [dirs_cons, fdir, List.append_nil] at this
          rw [this, Heap.siftUp_leaf]
          exact g6

end Cstl.HeapL
