import Cstl.HeapL.Model
import Cstl.TreeL.Dir
import Cstl.Heap.LemmasShape
import Cstl.Heap.LemmasOrder
/-
From the trees the link-level abstraction predicate `IsTree` speaks about
(`Cstl.Tree.Tree`: colour, element with id/key) to the trees of the functional
heap model (`Cstl.Heap.Tree`), and what the recursive functions of
lean/Cstl/Heap/Model.lean (`attachAt`, `siftUp`, `removeAt`, `siftInto`, all
recursions from the root along a direction list) do to a tree given as a
context around a focus — the form in which the link-level loops see it.
Pure functional facts; no memory here.
-/
set_option linter.unusedSimpArgs false
set_option linter.unusedVariables false
namespace Cstl.HeapL
open Cstl.TreeL
open Cstl.Tree (Color Elem Tree)

/-- forget the colour and the map fields -/
def toE (e : Elem) : Heap.Elem := { key := e.key, id := e.id }

def toH : Tree → Heap.Tree
  | .nil => .nil
  | .node _ l e r => .node (toH l) (toE e) (toH r)

@[simp] theorem toH_nil : toH .nil = .nil := rfl
@[simp] theorem toH_node (c : Color) (l r : Tree) (e : Elem) :
    toH (.node c l e r) = .node (toH l) (toE e) (toH r) := rfl
@[simp] theorem toE_key (e : Elem) : (toE e).key = e.key := rfl
@[simp] theorem toE_id (e : Elem) : (toE e).id = e.id := rfl

theorem toH_eq_nil {t : Tree} : toH t = .nil ↔ t = .nil := by
  cases t <;> simp

theorem toH_mkNode (d : Bool) (c : Color) (l r : Tree) (e : Elem) :
    toH (mkNode d c l e r) = if d then .node (toH l) (toE e) (toH r) else .node (toH r) (toE e) (toH l) := by
  cases d <;> rfl

/-- ids of the functional heap tree (pre-order) are the ids of the link-level tree (in-order) -/
theorem elems_ids_perm (t : Tree) : ((Heap.Tree.elems (toH t)).map (·.id)).Perm t.ids := by
  induction t with
  | nil => simp [Heap.Tree.elems]
  | node c l e r ihl ihr =>
    simp only [toH_node, Heap.elems_node, List.map_cons, List.map_append, toE_id, Cstl.Tree.ids_node]
    exact ((ihl.append ihr).cons _).trans (List.perm_middle).symm

theorem mem_ids_iff {t : Tree} {z : Nat} : z ∈ t.ids ↔ z ∈ (Heap.Tree.elems (toH t)).map (·.id) :=
  (elems_ids_perm t).mem_iff.symm

theorem size_eq_elems (t : Tree) : t.size = (Heap.Tree.elems (toH t)).length := by
  induction t with
  | nil => rfl
  | node c l e r ihl ihr => simp [Tree.size, ihl, ihr]; omega

/-! ### contexts read as direction lists -/

/-- which child of its parent the hole of a frame is: `true` = right -/
def fdir : Frame → Bool
  | .L .. => false
  | .R .. => true

/-- directions from the root to the hole (outermost first) -/
def dirs : Ctx → List Bool
  | [] => []
  | f :: k => dirs k ++ [fdir f]

@[simp] theorem dirs_nil : dirs [] = [] := rfl
@[simp] theorem dirs_cons (f : Frame) (k : Ctx) : dirs (f :: k) = dirs k ++ [fdir f] := rfl
theorem dirs_append (k1 k2 : Ctx) : dirs (k1 ++ k2) = dirs k2 ++ dirs k1 := by
  induction k1 with
  | nil => simp
  | cons f k ih => simp [ih]

theorem dirs_length (k : Ctx) : (dirs k).length = k.length := by
  induction k with
  | nil => rfl
  | cons f k ih => simp [ih]

/-- one frame around a functional heap tree -/
def plugF : Frame → Heap.Tree → Heap.Tree
  | .L _ e r, s => .node s (toE e) (toH r)
  | .R _ l e, s => .node (toH l) (toE e) s

/-- a context around a functional heap tree -/
def plugH : Ctx → Heap.Tree → Heap.Tree
  | [], s => s
  | f :: k, s => plugH k (plugF f s)

@[simp] theorem plugH_nil (s : Heap.Tree) : plugH [] s = s := rfl
@[simp] theorem plugH_cons (f : Frame) (k : Ctx) (s : Heap.Tree) : plugH (f :: k) s = plugH k (plugF f s) := rfl

theorem toH_plug (k : Ctx) (t : Tree) : toH (plug k t) = plugH k (toH t) := by
  induction k generalizing t with
  | nil => rfl
  | cons f k ih => cases f <;> simp [ih, plugF]

/-- the element of the parent node a frame stands for -/
def felem : Frame → Elem
  | .L _ e _ => e
  | .R _ _ e => e

theorem plug_size_ge (k : Ctx) (t : Tree) : k.length + t.size ≤ (plug k t).size := by
  induction k generalizing t with
  | nil => simp
  | cons f k ih =>
    cases f with
    | L c e r => have := ih (.node c t e r); simp [Tree.size] at this ⊢; omega
    | R c l e => have := ih (.node c l e t); simp [Tree.size] at this ⊢; omega

/-! ### occupied positions -/

theorem occ_plugF (f : Frame) (s : Heap.Tree) (ds : List Bool) :
    Heap.Occ (plugF f s) (fdir f :: ds) ↔ Heap.Occ s ds := by
  cases f <;> simp [plugF, fdir]

theorem occ_plugH (k : Ctx) : ∀ (s : Heap.Tree) (ds : List Bool),
    Heap.Occ (plugH k s) (dirs k ++ ds) ↔ Heap.Occ s ds := by
  induction k with
  | nil => intro s ds; simp
  | cons f k ih =>
    intro s ds
    simp only [plugH_cons, dirs_cons, List.append_assoc, List.singleton_append]
    rw [ih, occ_plugF]

/-- every occupied position of a tree is the focus of a context -/
theorem exists_ctx_of_occ : ∀ (ds : List Bool) (t : Tree), Heap.Occ (toH t) ds →
    ∃ k c l e r, t = plug k (.node c l e r) ∧ dirs k = ds := by
  intro ds
  induction ds with
  | nil =>
    intro t h
    cases t with
    | nil => simp at h
    | node c l e r => exact ⟨[], c, l, e, r, rfl, rfl⟩
  | cons d ds ih =>
    intro t h
    cases t with
    | nil => simp at h
    | node c l e r =>
      simp only [toH_node, Heap.occ_node_cons] at h
      cases d with
      | true =>
        obtain ⟨k, c', l', e', r', ht, hd⟩ := ih r (by simpa using h)
        refine ⟨k ++ [.R c l e], c', l', e', r', ?_, ?_⟩
        · rw [plug_append, ← ht]; rfl
        · rw [dirs_append, hd]; rfl
      | false =>
        obtain ⟨k, c', l', e', r', ht, hd⟩ := ih l (by simpa using h)
        refine ⟨k ++ [.L c e r], c', l', e', r', ?_, ?_⟩
        · rw [plug_append, ← ht]; rfl
        · rw [dirs_append, hd]; rfl

/-! ### `attachAt`, `removeAt` through a context -/

theorem attachAt_plugF (f : Frame) (s : Heap.Tree) (ds : List Bool) (side : Bool) (e : Heap.Elem) :
    Heap.attachAt (plugF f s) (fdir f :: ds) side e = (Heap.attachAt s ds side e).map (plugF f) := by
  cases f <;> simp [plugF, fdir, Heap.attachAt] <;> rfl

theorem attachAt_plugH (k : Ctx) : ∀ (s : Heap.Tree) (ds : List Bool) (side : Bool) (e : Heap.Elem),
    Heap.attachAt (plugH k s) (dirs k ++ ds) side e = (Heap.attachAt s ds side e).map (plugH k) := by
  induction k with
  | nil => intro s ds side e; cases h : Heap.attachAt s ds side e <;> simp [h]
  | cons f k ih =>
    intro s ds side e
    simp only [plugH_cons, dirs_cons, List.append_assoc, List.singleton_append]
    rw [ih, attachAt_plugF]
    cases Heap.attachAt s ds side e <;> rfl

theorem removeAt_plugF (f : Frame) (s : Heap.Tree) (ds : List Bool) :
    Heap.removeAt (plugF f s) (fdir f :: ds) = (Heap.removeAt s ds).map (fun p => (plugF f p.1, p.2)) := by
  cases f <;> simp [plugF, fdir, Heap.removeAt] <;> rfl

theorem removeAt_plugH (k : Ctx) : ∀ (s : Heap.Tree) (ds : List Bool),
    Heap.removeAt (plugH k s) (dirs k ++ ds) = (Heap.removeAt s ds).map (fun p => (plugH k p.1, p.2)) := by
  induction k with
  | nil => intro s ds; cases h : Heap.removeAt s ds <;> simp [h]
  | cons f k ih =>
    intro s ds
    simp only [plugH_cons, dirs_cons, List.append_assoc, List.singleton_append]
    rw [ih, removeAt_plugF]
    cases Heap.removeAt s ds <;> rfl

/-! ### `siftUp` through a context: the recursion unwinds innermost frame first, like the loop -/

/-- what one level of `siftUp`'s recursion does with the result of the level below -/
def stepUp (f : Frame) : Heap.Tree × Bool → Option (Heap.Tree × Bool)
  | (s, false) => some (plugF f s, false)
  | (.nil, true) => none
  | (.node cl n cr, true) =>
    if n.key > (felem f).key then
      some (match f with
        | .L _ e r => .node (.node cl (toE e) cr) n (toH r)
        | .R _ l e => .node (toH l) n (.node cl (toE e) cr), true)
    else some (plugF f (.node cl n cr), false)

def upH : Ctx → Option (Heap.Tree × Bool) → Option (Heap.Tree × Bool)
  | [], r => r
  | f :: k, r => upH k (r.bind (stepUp f))

@[simp] theorem upH_nil (r : Option (Heap.Tree × Bool)) : upH [] r = r := rfl
@[simp] theorem upH_cons (f : Frame) (k : Ctx) (r : Option (Heap.Tree × Bool)) :
    upH (f :: k) r = upH k (r.bind (stepUp f)) := rfl

theorem siftUp_plugF (f : Frame) (s : Heap.Tree) (ds : List Bool) :
    Heap.siftUp (plugF f s) (fdir f :: ds) = (Heap.siftUp s ds).bind (stepUp f) := by
  cases f with
  | L c e r =>
    simp only [plugF, fdir, Heap.siftUp_cons_false]
    cases h : Heap.siftUp s ds with
    | none => rfl
    | some p =>
      obtain ⟨t', b⟩ := p
      cases b with
      | false => rfl
      | true =>
        cases t' with
        | nil => rfl
        | node cl n cr =>
          simp only [Option.bind_some, stepUp, felem, toE_key, plugF]
          rfl
  | R c l e =>
    simp only [plugF, fdir, Heap.siftUp_cons_true]
    cases h : Heap.siftUp s ds with
    | none => rfl
    | some p =>
      obtain ⟨t', b⟩ := p
      cases b with
      | false => rfl
      | true =>
        cases t' with
        | nil => rfl
        | node cl n cr =>
          simp only [Option.bind_some, stepUp, felem, toE_key, plugF]
          rfl

theorem siftUp_plugH (k : Ctx) : ∀ (s : Heap.Tree) (ds : List Bool),
    Heap.siftUp (plugH k s) (dirs k ++ ds) = upH k (Heap.siftUp s ds) := by
  induction k with
  | nil => intro s ds; simp
  | cons f k ih =>
    intro s ds
    simp only [plugH_cons, dirs_cons, List.append_assoc, List.singleton_append, upH_cons]
    rw [ih, siftUp_plugF]

/-- once the loop has stopped the rest of the way up only rebuilds the tree -/
theorem upH_stopped (k : Ctx) (s : Heap.Tree) : upH k (some (s, false)) = some (plugH k s, false) := by
  induction k generalizing s with
  | nil => rfl
  | cons f k ih => simp [stepUp, ih]

theorem siftUp_node_nil (l r : Heap.Tree) (e : Heap.Elem) :
    Heap.siftUp (.node l e r) [] = some (.node l e r, true) := by
  simp [Heap.siftUp]

/-! ### `siftInto` ignores the element at the root it is given -/

theorem siftInto_root (n a b : Heap.Elem) (l r : Heap.Tree) :
    Heap.siftInto n (.node l a r) = Heap.siftInto n (.node l b r) := by
  simp only [Heap.siftInto]

end Cstl.HeapL
