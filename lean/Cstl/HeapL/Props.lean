import Cstl.HeapL.Model
namespace Cstl.HeapL
end Cstl.HeapL
