import Cstl.HeapL.Lemmas
import Cstl.Heap.Props
import Cstl.TreeL.Props
/-
Property theorems of the link-level heap model (C07, pointer level).

`IsTree m root 0 t` (lean/Cstl/TreeL/Lemmas.lean): the structure reachable from
`root` through the `l`/`r` fields of the memory `m` is exactly the tree `t`
(same addresses = ids, keys, shape), every node's `p` field is its parent, all
addresses distinct.  `toH t` is the tree of the functional heap model
(lean/Cstl/Heap/Model.lean, whose theorems `push_spec`, `pop_spec`, `run_inv`,
`run_max` are C07 on that model).  The theorems here say that every function of
src/heap.c, executed one C assignment at a time on the link fields (Model.lean),
finishes — no NULL dereference, no fuel overrun — and leaves a memory that
represents the tree the functional model computes; so every theorem about the
functional model holds for the pointer structure, and every parent link is
consistent after every operation of every history.
-/
set_option linter.unusedSimpArgs false
set_option linter.unusedVariables false
namespace Cstl.HeapL
open Cstl.SList (Mem upd upd_same upd_other)
open Cstl.TreeL
open Cstl.Tree (Color Elem Tree)

/-! ### cstl_heap_find -/

/-- `cstl_heap_find(h, id)` on ANY memory that represents a tree: the bit-path walk through the
`l`/`r` fields finishes and returns the address of the element at the position `path (id + 1)`
of the functional model (NULL if that position is empty) -/
theorem heap_find_refines {m : TM} {h : Hd} {t : Tree} (ht : IsTree m h.root 0 t) (id : Nat)
    (hlt : id + 1 < 2 ^ 64) :
    find m h id = some (resAddr (Heap.elemAt (toH t) (Heap.path (id + 1)))) := by
  rw [find_eq m h id hlt, walkTo_shape _ ht.shape]

/-- on a complete tree of `n` nodes `cstl_heap_find(h, id)` returns the (non-NULL) address of the
node with level-order number `id` when `id < n`, and NULL otherwise -/
theorem heap_find_level_order {m : TM} {h : Hd} {t : Tree} {n : Nat} (ht : IsTree m h.root 0 t)
    (hc : Heap.Complete (toH t) n) (id : Nat) (hlt : id + 1 < 2 ^ 64) :
    (id < n → ∃ e, find m h id = some e.id ∧ e.id ≠ 0 ∧ e.id ∈ t.ids ∧
        Heap.elemAt (toH t) (Heap.path (id + 1)) = some e) ∧
    (n ≤ id → find m h id = some 0) := by
  have hloc : Heap.locOf (Heap.path (id + 1)) = id + 1 := Heap.locOf_path _ (by omega) hlt
  rw [heap_find_refines ht id hlt]
  constructor
  · intro hid
    have hocc : Heap.Occ (toH t) (Heap.path (id + 1)) := (hc _).2 (by omega)
    cases he : Heap.elemAt (toH t) (Heap.path (id + 1)) with
    | none => exact absurd hocc (elemAt_eq_none_iff.1 he)
    | some e =>
      have hmem : e.id ∈ t.ids := mem_ids_iff.2 (List.mem_map.2 ⟨e, elemAt_mem he, rfl⟩)
      refine ⟨e, rfl, ?_, hmem, rfl⟩
      exact ht.shape.ids_ne_zero _ hmem
  · intro hid
    have : ¬ Heap.Occ (toH t) (Heap.path (id + 1)) := fun hh => by have := (hc _).1 hh; omega
    rw [elemAt_eq_none_iff.2 this]
    rfl

/-! ### the operations -/

/-- `cstl_heap_push` at link level refines the functional push: in a memory that represents a
complete tree of `size` nodes, pushing a node `n` (non-NULL, not in the tree, its key already
stored) never dereferences NULL, never overruns a loop — `find` through the child links, the store
to the parent's child field chosen by `size % 2`, the sift-up loop through the parent links with
one `promote_child` relinking of six neighbours per step — and ends in a memory that represents
exactly the tree `Cstl.Heap.push` returns, with `size + 1` in the header -/
theorem heap_push_refines {m : TM} {h : Hd} {t : Tree} {n : Nat} (ht : IsTree m h.root 0 t)
    (hc : Heap.Complete (toH t) h.size) (hn0 : n ≠ 0) (hnt : n ∉ t.ids) (hlt : h.size + 1 < 2 ^ 64) :
    ∃ m' h' t', push m h n = some (m', h') ∧ IsTree m' h'.root 0 t' ∧
      Heap.push ⟨toH t, h.size⟩ ⟨m.key n, n⟩ = some ⟨toH t', h'.size⟩ ∧ m'.key = m.key :=
  let ⟨m', h', t', a, b, c, d, _⟩ := push_refines ht hc hn0 hnt hlt
  ⟨m', h', t', a, b, c, d⟩

/-- `cstl_heap_pop` at link level refines the functional pop: the last slot is found and unlinked,
the last node takes over the root's link set and the root's children are pointed at it, the
do/while sifts it down with the C tie rules; no NULL dereference, no loop overrun; the address
returned is the element the functional pop returns (NULL iff it returns none) and the memory
represents the tree the functional pop returns -/
theorem heap_pop_refines {m : TM} {h : Hd} {t : Tree} (ht : IsTree m h.root 0 t)
    (hc : Heap.Complete (toH t) h.size) (hlt : h.size < 2 ^ 64) :
    ∃ m' h' t' res, pop m h = some (m', h', resAddr res) ∧ IsTree m' h'.root 0 t' ∧
      Heap.pop ⟨toH t, h.size⟩ = some (⟨toH t', h'.size⟩, res) ∧ m'.key = m.key :=
  let ⟨m', h', t', res, a, b, c, d, _⟩ := pop_refines ht hc hlt
  ⟨m', h', t', res, a, b, c, d⟩

/-- `cstl_heap_get` returns the address of the element the functional get returns -/
theorem heap_get_refines {m : TM} {h : Hd} {t : Tree} (ht : IsTree m h.root 0 t) :
    get h = resAddr (Heap.get ⟨toH t, h.size⟩) := by
  cases t with
  | nil => have : h.root = 0 := ht.shape; simp [get, this, Heap.get, resAddr]
  | node c l e r =>
    have h0 : h.root ≠ 0 := by have := ht.shape; simp only [Shape_node] at this; exact this.1
    simp [get, h0, Heap.get, resAddr, Shape.id_eq ht.shape]

/-- `cstl_heap_clear` (the bintree traversal with the clear visitor) at link level, for a callback
that overwrites every link field of the element it is handed: the traversal finishes, the
callbacks are exactly the elements `Cstl.Heap.clear` lists, in that order, the heap is empty -/
theorem heap_clear_refines (pv : Nat) {m : TM} {h : Hd} {t : Tree} (ht : IsTree m h.root 0 t)
    (hsz : t.size ≤ h.size) :
    ∃ m' h', clear pv m h = some (m', h', ((Heap.clear ⟨toH t, h.size⟩).2).map (·.id)) ∧
      IsTree m' h'.root 0 .nil ∧ (Heap.clear ⟨toH t, h.size⟩).1 = ⟨.nil, h'.size⟩ :=
  clear_refines pv ht hsz

/-! ### histories -/

/-- one operation at link level refines one step of the functional history -/
theorem heap_step_refines (pv : Nat) {s : LS} {hp : Heap.Heap} {op : LOp} (hr : Rep s hp) (hi : Heap.Inv hp)
    (hlt : hp.size + 1 < 2 ^ 64) (hok : OpOk hp op) :
    ∃ s' r hp', stepL pv s op = some (s', r) ∧ Heap.step hp (toOp op) = some hp' ∧ Rep s' hp' ∧
      Heap.Inv hp' ∧ hp'.size ≤ hp.size + 1 ∧ (op = .pop → r = resAddr (Heap.get hp)) := by
  obtain ⟨t, ht, hth, hsz⟩ := hr
  obtain ⟨tH, n⟩ := hp
  simp only at hth hsz hlt
  subst hth
  have hc : Heap.Complete (toH t) s.h.size := by rw [hsz]; exact hi.2
  obtain ⟨hp', hstep, hi', hle⟩ := Heap.step_inv (toOp op) hi hlt
  cases op with
  | push a key =>
    obtain ⟨ha0, hat⟩ := hok
    have hat' : a ∉ t.ids := fun hh => hat (mem_ids_iff.1 hh)
    have ht2 : IsTree (setKey s.m a key) s.h.root 0 t :=
      ⟨ht.shape.frame (fun z hz => setKey_agree' s.m a key (fun e => hat' (e ▸ hz))), ht.nodup⟩
    obtain ⟨m', h', t', g1, g2, g3, _⟩ := heap_push_refines ht2 hc ha0 hat' (by rw [hsz]; exact hlt)
    have hk : (setKey s.m a key).key a = key := by simp [setKey, updK]
    rw [hk, hsz] at g3
    simp only [toOp, Heap.step] at hstep
    rw [g3] at hstep
    cases hstep
    exact ⟨⟨m', h'⟩, 0, _, by simp [stepL, g1], by simp [toOp, Heap.step, g3], ⟨t', g2, rfl, rfl⟩, hi', hle,
      fun hh => by cases hh⟩
  | pop =>
    obtain ⟨m', h', t', res, g1, g2, g3, _⟩ := heap_pop_refines ht hc (by rw [hsz]; omega)
    rw [hsz] at g3
    simp only [toOp, Heap.step, g3, Option.map_some, Option.some.injEq] at hstep
    subst hstep
    refine ⟨⟨m', h'⟩, resAddr res, _, by simp [stepL, g1], by simp [toOp, Heap.step, g3], ⟨t', g2, rfl, rfl⟩,
      hi', hle, fun _ => ?_⟩
    -- the popped element is the one get returns
    cases t with
    | nil => simp [Heap.pop] at g3; simp [g3.2, Heap.get, resAddr]
    | node c l e r =>
      have hn0 : n ≠ 0 := by
        intro h0
        have := hi.size_zero_iff.1 h0
        simp at this
      by_cases hz : n = 0
      · exact absurd hz hn0
      · obtain ⟨h'', x, hp2, hg, _⟩ := Heap.pop_spec hi (by simp only; omega) (by simp only; omega)
        rw [g3] at hp2
        simp only [Option.some.injEq, Prod.mk.injEq] at hp2
        rw [hp2.2, hg]
  | clear =>
    have htsz : t.size ≤ s.h.size := by
      rw [tree_size_of_complete hc (by rw [hsz]; omega)]; exact Nat.le_refl _
    obtain ⟨m', h', g1, g2, g3⟩ := heap_clear_refines pv ht htsz
    rw [hsz] at g3 g1
    simp only [toOp, Heap.step, Option.some.injEq] at hstep
    subst hstep
    refine ⟨⟨m', h'⟩, 0, _, by simp [stepL, g1], rfl, ⟨.nil, g2, ?_, ?_⟩, hi', hle, fun hh => by cases hh⟩
    · rw [g3]; rfl
    · rw [g3]

/-- histories from any represented state -/
theorem heap_runL_refines (pv : Nat) : ∀ (ops : List LOp) (s : LS) (hp : Heap.Heap), Rep s hp → Heap.Inv hp →
    hp.size + ops.length < 2 ^ 64 → OpsOk hp ops →
    ∃ s' hp', runL pv s ops = some s' ∧ Heap.runFrom hp (ops.map toOp) = some hp' ∧ Rep s' hp' ∧ Heap.Inv hp' := by
  intro ops
  induction ops with
  | nil => intro s hp hr hi _ _; exact ⟨s, hp, rfl, rfl, hr, hi⟩
  | cons op ops ih =>
    intro s hp hr hi hlt hok
    simp only [List.length_cons] at hlt
    obtain ⟨s1, r, hp1, g1, g2, g3, g4, g5, _⟩ := heap_step_refines pv hr hi (by omega) hok.1
    obtain ⟨s2, hp2, k1, k2, k3, k4⟩ := ih s1 hp1 g3 g4 (by omega) (hok.2 hp1 g2)
    exact ⟨s2, hp2, by simp [runL, g1, k1], by simp [Heap.runFrom, g2, k2], k3, k4⟩

/-- C07, pointer level, every history: any interleaving of push / pop / clear from the freshly
initialised heap (in any memory), each push handing over an object that is not in the heap,
executed on the link fields one C assignment at a time, runs to completion — no NULL dereference,
no loop overrun — and ends in a memory that represents the state of the functional history, which
satisfies the heap invariant (`Cstl.Heap.run_inv`): heap-ordered and complete; `size` is the node
count -/
theorem heap_history_refines (pv : Nat) (m0 : TM) (ops : List LOp) (hlt : ops.length < 2 ^ 64)
    (hok : OpsOk Heap.empty ops) :
    ∃ s hp, runL pv ⟨m0, ⟨0, 0⟩⟩ ops = some s ∧ Heap.run (ops.map toOp) = some hp ∧ Rep s hp ∧ Heap.Inv hp := by
  have := heap_runL_refines pv ops ⟨m0, ⟨0, 0⟩⟩ Heap.empty (Rep.init m0) Heap.inv_empty
    (by simpa [Heap.empty] using hlt) hok
  exact this

/-- C07, pointer level: after every operation of every history every child's parent link points
back at its parent and the root's parent link is NULL -/
theorem heap_parent_links_ok (pv : Nat) (m0 : TM) (ops : List LOp) (hlt : ops.length < 2 ^ 64)
    (hok : OpsOk Heap.empty ops) :
    ∃ s t, runL pv ⟨m0, ⟨0, 0⟩⟩ ops = some s ∧ IsTree s.m s.h.root 0 t ∧
      (s.h.root ≠ 0 → s.m.pr s.h.root = 0) ∧
      ∀ a ∈ t.ids, a ≠ 0 ∧ (s.m.lf a ≠ 0 → s.m.pr (s.m.lf a) = a) ∧ (s.m.rt a ≠ 0 → s.m.pr (s.m.rt a) = a) := by
  obtain ⟨s, hp, h1, _, ⟨t, ht, _, _⟩, _⟩ := heap_history_refines pv m0 ops hlt hok
  exact ⟨s, t, h1, ht, parent_links_ok ht⟩

/-- C07 on the pointer structure, every history: in the state reached, `cstl_heap_get` returns
NULL iff nothing is held, otherwise the address of a held element whose key is `≥` every held key;
the next `cstl_heap_pop` returns the same address -/
theorem heap_history_max (pv : Nat) (m0 : TM) (ops : List LOp) (hlt : ops.length + 1 < 2 ^ 64)
    (hok : OpsOk Heap.empty ops) :
    ∃ s hp, runL pv ⟨m0, ⟨0, 0⟩⟩ ops = some s ∧ Heap.run (ops.map toOp) = some hp ∧
      (get s.h = 0 ↔ Heap.Tree.elems hp.t = []) ∧
      (∀ x ∈ Heap.Tree.elems hp.t, ∃ e ∈ Heap.Tree.elems hp.t, get s.h = e.id ∧ x.key ≤ e.key) ∧
      ∃ s' r, stepL pv s .pop = some (s', r) ∧ r = get s.h := by
  obtain ⟨s, hp, h1, h2, hr, hi⟩ := heap_history_refines pv m0 ops (by omega) hok
  have hsz : hp.size + 1 < 2 ^ 64 := by
    obtain ⟨hq, hrq, _, hle⟩ := Heap.run_inv (ops.map toOp) (by simpa using (by omega : ops.length < 2 ^ 64))
    rw [h2] at hrq
    cases hrq
    simp at hle
    omega
  obtain ⟨t, ht, hth, hs⟩ := id hr
  have hg : get s.h = resAddr (Heap.get hp) := by
    rw [heap_get_refines ht]
    obtain ⟨tH, n⟩ := hp
    simp only at hth hs
    subst hth
    cases t <;> rfl
  obtain ⟨g1, g2⟩ := Heap.get_spec hi
  refine ⟨s, hp, h1, h2, ?_, ?_, ?_⟩
  · rw [hg]
    cases hget : Heap.get hp with
    | none =>
      simp only [resAddr, true_iff]
      have h0 := g1.1 hget
      have := hi.size_zero_iff.1 h0
      rw [this]; rfl
    | some e =>
      obtain ⟨hm, _⟩ := g2 e hget
      simp only [resAddr]
      constructor
      · intro he0
        -- addresses of held elements are non-NULL
        have : e.id ∈ t.ids := mem_ids_iff.2 (by rw [hth]; exact List.mem_map.2 ⟨e, hm, rfl⟩)
        exact absurd he0 (ht.shape.ids_ne_zero _ this)
      · intro hnil
        rw [hnil] at hm
        simp at hm
  · intro x hx
    cases hget : Heap.get hp with
    | none =>
      have h0 := g1.1 hget
      have := hi.size_zero_iff.1 h0
      rw [this] at hx
      simp at hx
    | some e =>
      obtain ⟨hm, hmax⟩ := g2 e hget
      exact ⟨e, hm, by rw [hg, hget]; rfl, hmax x hx⟩
  · obtain ⟨s', r, hp', k1, _, _, _, _, k6⟩ := heap_step_refines pv (op := .pop) hr hi hsz trivial
    exact ⟨s', r, k1, by rw [k6 rfl, hg]⟩

/-! ### non-vacuity: a concrete memory that represents a heap, and operations on it -/

/-- nodes 1 (key 5, the root), 2 (key 3, left child), 3 (key 4, right child) -/
def exM : TM :=
  { pr := fun a => if a = 2 ∨ a = 3 then 1 else 0
    lf := fun a => if a = 1 then 2 else 0
    rt := fun a => if a = 1 then 3 else 0
    cl := fun _ => .black
    key := fun a => if a = 1 then 5 else if a = 2 then 3 else if a = 3 then 4 else if a = 4 then 7 else 0 }

def exT : Tree := .node .black (.node .black .nil ⟨3, 2, 0, 0⟩ .nil) ⟨5, 1, 0, 0⟩ (.node .black .nil ⟨4, 3, 0, 0⟩ .nil)

example : IsTree exM 1 0 exT := ⟨by simp [exT, exM, elemAt], by simp [exT]⟩
example : Heap.Complete (toH exT) 3 := by
  have : Heap.Inv ⟨toH exT, 3⟩ := by
    obtain ⟨h1, e1, i1, _, s1⟩ := Heap.push_spec ⟨5, 1⟩ Heap.inv_empty (by decide)
    have : h1 = ⟨.node .nil ⟨5, 1⟩ .nil, 1⟩ := by
      have : Heap.push Heap.empty ⟨5, 1⟩ = some ⟨.node .nil ⟨5, 1⟩ .nil, 1⟩ := by decide
      rw [this] at e1; cases e1; rfl
    subst this
    obtain ⟨h2, e2, i2, _, s2⟩ := Heap.push_spec ⟨3, 2⟩ i1 (by decide)
    have : h2 = ⟨.node (.node .nil ⟨3, 2⟩ .nil) ⟨5, 1⟩ .nil, 2⟩ := by
      have : Heap.push ⟨.node .nil ⟨5, 1⟩ .nil, 1⟩ ⟨3, 2⟩ = some ⟨.node (.node .nil ⟨3, 2⟩ .nil) ⟨5, 1⟩ .nil, 2⟩ := by
        decide +kernel
      rw [this] at e2; cases e2; rfl
    subst this
    obtain ⟨h3, e3, i3, _, s3⟩ := Heap.push_spec ⟨4, 3⟩ i2 (by decide)
    have : h3 = ⟨toH exT, 3⟩ := by
      have : Heap.push ⟨.node (.node .nil ⟨3, 2⟩ .nil) ⟨5, 1⟩ .nil, 2⟩ ⟨4, 3⟩ = some ⟨toH exT, 3⟩ := by decide +kernel
      rw [this] at e3; cases e3; rfl
    subst this
    exact i3
  exact this.2
/-- find walks the bit path: slot 3 (id 2) is the right child of the root, slot 4 is empty -/
example : find exM ⟨1, 3⟩ 2 = some 3 ∧ find exM ⟨1, 3⟩ 3 = some 0 := by decide +kernel
/-- pushing node 4 (key 7) below node 2 sifts it up to the root through two promotions -/
example : (push exM ⟨1, 3⟩ 4).map (fun r => (r.2.root, r.2.size, r.1.lf 4, r.1.rt 4, r.1.pr 1, r.1.lf 1))
    = some (4, 4, 1, 3, 4, 2) := by decide +kernel
example : (push exM ⟨1, 3⟩ 4).map (fun r => (r.1.pr 2, r.1.pr 3, r.1.pr 4)) = some (1, 4, 0) := by decide +kernel
/-- pop returns the root 1; node 3 (the last) takes the root position and stays (4 > 3) -/
example : (pop exM ⟨1, 3⟩).map (fun r => (r.2.1, r.2.2, r.1.lf 3, r.1.rt 3, r.1.pr 2, r.1.pr 3))
    = some (⟨3, 2⟩, 1, 2, 0, 3, 0) := by decide +kernel
example : OpsOk Heap.empty [.push 1 5, .push 2 3, .pop] := by
  refine ⟨⟨by decide, by decide⟩, fun hp' h1 => ⟨⟨by decide, ?_⟩, fun _ _ => ⟨trivial, fun _ _ => trivial⟩⟩⟩
  have e : Heap.step Heap.empty (toOp (.push 1 5)) = some ⟨.node .nil ⟨5, 1⟩ .nil, 1⟩ := by decide
  rw [e] at h1
  cases h1
  decide

end Cstl.HeapL
