import Cstl.HeapL.Push
/-
The do/while of cstl_heap_pop at link level performs the recursion of
`Cstl.Heap.siftInto`: with the moved node `n` in the hole of a context, one
evaluation of the candidate (`pickChild`, the C tie rules) either ends the loop
or promotes the chosen child above `n` and continues one level further down.
-/
set_option linter.unusedSimpArgs false
set_option linter.unusedVariables false
namespace Cstl.HeapL
open Cstl.SList (Mem upd upd_same upd_other)
open Cstl.TreeL
open Cstl.Tree (Color Elem Tree)

/-- the loop after the (possibly skipped) promotion of one iteration -/
def sdRest (fuel : Nat) (m : TM) (h : Hd) (n : Nat) : Option (TM × Hd) :=
  if n ≠ pickChild m n then siftDownLoop fuel m h n (pickChild m n) else some (m, h)

theorem siftDownLoop_null (fuel : Nat) (m : TM) (h : Hd) (n : Nat) :
    siftDownLoop (fuel + 1) m h n 0 = sdRest fuel m h n := by
  simp [siftDownLoop, sdRest]

theorem siftDownLoop_child (fuel : Nat) (m : TM) (h : Hd) (n c : Nat) (hc : c ≠ 0) :
    siftDownLoop (fuel + 1) m h n c = sdRest fuel (promoteChild m h c).1 (promoteChild m h c).2 n := by
  simp [siftDownLoop, sdRest, hc]

/-- what the candidate computation reads at a node whose subtree is known -/
theorem child_facts {m : TM} {a p : Nat} {t : Tree} (h : Shape m a p t) :
    (t = .nil → a = 0) ∧ (∀ c l e r, t = .node c l e r → a ≠ 0 ∧ a = e.id ∧ m.key a = e.key) := by
  refine ⟨fun ht => by subst ht; exact h, fun c l e r ht => ?_⟩
  subst ht
  simp only [Shape_node] at h
  exact ⟨h.1, by simp [h.2.1], by simp [h.2.1]⟩

theorem zip_focus_ne_child {m : TM} {root n p : Nat} {k : Ctx} {cn cc : Color} {l r cl cr : Tree} {en ce : Elem}
    (hz : Zip m root k n p (.node cn l en r)) (hmem : ce.id ∈ l.ids ∨ ce.id ∈ r.ids) : n ≠ ce.id := by
  have hid := Shape.id_eq hz.sub
  have hnd := (List.nodup_append.mp hz.nodup).1
  simp only [Cstl.Tree.ids_node] at hnd
  intro e
  rw [← hid] at e
  rcases hmem with hm | hm
  · exact (List.nodup_append.mp hnd).2.2 _ hm _ (by simp) e.symm
  · have := (List.nodup_append.mp hnd).2.1
    exact (List.nodup_cons.mp this).1 (e ▸ hm)

theorem height_step (d : Bool) (cn cc : Color) (cl cr ps : Tree) (en ce : Elem) (f : Nat)
    (hh : (mkNode d cn (.node cc cl ce cr) en ps).height ≤ f + 1 + 1) : (Tree.node cn cl en cr).height ≤ f + 1 := by
  cases d <;> simp only [mkNode_true, mkNode_false, Tree.height] at hh ⊢ <;> omega

/-- one level down: the chosen child `ce` is promoted above the moved node, which is then the
focus one frame deeper -/
theorem sd_descend {fuel : Nat} {m : TM} {h : Hd} {k : Ctx} {n p : Nat} {d : Bool} {cn cc : Color}
    {cl cr ps : Tree} {en ce : Elem}
    (ih : ∀ (k : Ctx) (m : TM) (h : Hd) (n p : Nat) (cn : Color) (l r : Tree) (en : Elem),
      (Tree.node cn l en r).height ≤ fuel + 1 → Zip m h.root k n p (.node cn l en r) →
      ∃ m' h' T', sdRest fuel m h n = some (m', h') ∧ IsTree m' h'.root 0 (plug k T') ∧ h'.size = h.size ∧
        m'.key = m.key ∧ m'.cl = m.cl ∧ toH T' = Heap.siftInto (toE en) (toH (.node cn l en r)))
    (hz : Zip m h.root k n p (mkNode d cn (.node cc cl ce cr) en ps))
    (hh : (Tree.node cn cl en cr).height ≤ fuel + 1) :
    ∃ m' h' T'', sdRest fuel (promoteChild m h ce.id).1 (promoteChild m h ce.id).2 n = some (m', h') ∧
      IsTree m' h'.root 0 (plug k (mkNode d cc T'' ce ps)) ∧ h'.size = h.size ∧ m'.key = m.key ∧ m'.cl = m.cl ∧
      toH T'' = Heap.siftInto (toE en) (.node (toH cl) (toE ce) (toH cr)) := by
  obtain ⟨z1, z2, z3, z4, _⟩ := promoteChild_spec hz
  have z1d := z1.downD
  have hnid : chL (promoteChild m h ce.id).1 d ce.id = n := by
    have h1 := Shape.id_eq z1d.sub
    have h2 : en.id = n := Shape.id_eqD hz.sub
    rw [← h1, h2]
  rw [hnid] at z1d
  obtain ⟨m', h', T'', g1, g2, g3, g4, g5, g6⟩ := ih _ _ _ n ce.id cn cl cr en hh z1d
  refine ⟨m', h', T'', g1, ?_, by rw [g3, z2], by rw [g4, z4], by rw [g5, z3], ?_⟩
  · simpa using g2
  · rw [g6]
    exact siftInto_root _ _ _ _ _

/-- the sift-down loop entered with the moved node `n` in the hole of the context `k` -/
theorem sdRest_spec : ∀ (fuel : Nat) (k : Ctx) (m : TM) (h : Hd) (n p : Nat) (cn : Color) (l r : Tree) (en : Elem),
    (Tree.node cn l en r).height ≤ fuel + 1 → Zip m h.root k n p (.node cn l en r) →
    ∃ m' h' T', sdRest fuel m h n = some (m', h') ∧ IsTree m' h'.root 0 (plug k T') ∧ h'.size = h.size ∧
      m'.key = m.key ∧ m'.cl = m.cl ∧ toH T' = Heap.siftInto (toE en) (toH (.node cn l en r)) := by
  intro fuel
  induction fuel with
  | zero =>
    intro k m h n p cn l r en hh hz
    have hl : l = .nil := by
      cases l with
      | nil => rfl
      | node => simp [Tree.height] at hh
    have hr : r = .nil := by
      cases r with
      | nil => rfl
      | node => simp [Tree.height] at hh
    subst hl hr
    have hs := hz.sub
    simp only [Shape_node, Shape_nil] at hs
    refine ⟨m, h, .node cn .nil en .nil, ?_, hz.isTree, rfl, rfl, rfl, by simp [Heap.siftInto]⟩
    simp [sdRest, pickChild, hs.2.2.2.2.1, hs.2.2.2.2.2]
  | succ f ih =>
    intro k m h n p cn l r en hh hz
    have hs := hz.sub
    simp only [Shape_node] at hs
    obtain ⟨hn0, hen, _, _, hsl, hsr⟩ := hs
    have hkeyn : m.key n = en.key := by simp [hen]
    have stay : pickChild m n = n →
        ∃ m' h' T', sdRest (f + 1) m h n = some (m', h') ∧ IsTree m' h'.root 0 (plug k T') ∧ h'.size = h.size ∧
          m'.key = m.key ∧ m'.cl = m.cl ∧ T' = .node cn l en r := fun hp =>
      ⟨m, h, _, by simp [sdRest, hp], hz.isTree, rfl, rfl, rfl, rfl⟩
    cases l with
    | nil =>
      have hl0 : m.lf n = 0 := hsl
      cases r with
      | nil =>
        have hr0 : m.rt n = 0 := hsr
        obtain ⟨m', h', T', g1, g2, g3, g4, g5, g6⟩ := stay (by simp [pickChild, hl0, hr0])
        exact ⟨m', h', T', g1, g2, g3, g4, g5, by rw [g6]; simp [Heap.siftInto]⟩
      | node cr' rl y rr =>
        obtain ⟨hr0, hrid, hrkey⟩ := (child_facts hsr).2 _ _ _ _ rfl
        rw [hrid] at hr0 hrkey
        by_cases hgt : y.key > en.key
        · have hp : pickChild m n = y.id := by simp [pickChild, hl0, hrid, hr0, hrkey, hkeyn, hgt]
          have hne : n ≠ y.id := zip_focus_ne_child (ce := y) (cl := rl) (cr := rr) (cc := cr') hz (Or.inr (by simp))
          have hzd : Zip m h.root k n p (mkNode false cn (.node cr' rl y rr) en .nil) := hz
          obtain ⟨m', h', T'', g1, g2, g3, g4, g5, g6⟩ := sd_descend ih hzd
            (height_step false cn cr' rl rr .nil en y f hh)
          refine ⟨m', h', _, ?_, g2, g3, g4, g5, ?_⟩
          · simp only [sdRest, hp, ne_eq, hne, not_false_eq_true, if_true]
            rw [siftDownLoop_child _ _ _ _ _ hr0]
            exact g1
          · simp [Heap.siftInto, hgt, g6]
        · obtain ⟨m', h', T', g1, g2, g3, g4, g5, g6⟩ := stay (by simp [pickChild, hl0, hrid, hr0, hrkey, hkeyn, hgt])
          exact ⟨m', h', T', g1, g2, g3, g4, g5, by rw [g6]; simp [Heap.siftInto, hgt]⟩
    | node cl' ll x lr =>
      obtain ⟨hl0, hlid, hlkey⟩ := (child_facts hsl).2 _ _ _ _ rfl
      rw [hlid] at hl0 hlkey
      cases r with
      | nil =>
        have hr0 : m.rt n = 0 := hsr
        by_cases hgt : x.key > en.key
        · have hp : pickChild m n = x.id := by simp [pickChild, hlid, hl0, hlkey, hr0, hkeyn, hgt]
          have hne : n ≠ x.id := zip_focus_ne_child (ce := x) (cl := ll) (cr := lr) (cc := cl') hz (Or.inl (by simp))
          have hzd : Zip m h.root k n p (mkNode true cn (.node cl' ll x lr) en .nil) := hz
          obtain ⟨m', h', T'', g1, g2, g3, g4, g5, g6⟩ := sd_descend ih hzd
            (height_step true cn cl' ll lr .nil en x f hh)
          refine ⟨m', h', _, ?_, g2, g3, g4, g5, ?_⟩
          · simp only [sdRest, hp, ne_eq, hne, not_false_eq_true, if_true]
            rw [siftDownLoop_child _ _ _ _ _ hl0]
            exact g1
          · simp [Heap.siftInto, hgt, g6]
        · obtain ⟨m', h', T', g1, g2, g3, g4, g5, g6⟩ := stay (by simp [pickChild, hlid, hl0, hlkey, hr0, hkeyn, hgt])
          exact ⟨m', h', T', g1, g2, g3, g4, g5, by rw [g6]; simp [Heap.siftInto, hgt]⟩
      | node cr' rl y rr =>
        obtain ⟨hr0, hrid, hrkey⟩ := (child_facts hsr).2 _ _ _ _ rfl
        rw [hrid] at hr0 hrkey
        have hnel : n ≠ x.id := zip_focus_ne_child (ce := x) (cl := ll) (cr := lr) (cc := cl') hz (Or.inl (by simp))
        have hner : n ≠ y.id := zip_focus_ne_child (ce := y) (cl := rl) (cr := rr) (cc := cr') hz (Or.inr (by simp))
        by_cases hx : x.key > en.key
        · by_cases hy : y.key > x.key
          · -- right child beats the left candidate
            have hp : pickChild m n = y.id := by
              simp [pickChild, hlid, hl0, hlkey, hrid, hr0, hrkey, hkeyn, hx, hy]
            have hzd : Zip m h.root k n p (mkNode false cn (.node cr' rl y rr) en (.node cl' ll x lr)) := hz
            obtain ⟨m', h', T'', g1, g2, g3, g4, g5, g6⟩ := sd_descend ih hzd
              (height_step false cn cr' rl rr (.node cl' ll x lr) en y f hh)
            refine ⟨m', h', _, ?_, g2, g3, g4, g5, ?_⟩
            · simp only [sdRest, hp, ne_eq, hner, not_false_eq_true, if_true]
              rw [siftDownLoop_child _ _ _ _ _ hr0]
              exact g1
            · simp [Heap.siftInto, hx, hy, g6]
          · -- left child
            have hp : pickChild m n = x.id := by
              simp [pickChild, hlid, hl0, hlkey, hrid, hr0, hrkey, hkeyn, hx, hy]
            have hzd : Zip m h.root k n p (mkNode true cn (.node cl' ll x lr) en (.node cr' rl y rr)) := hz
            obtain ⟨m', h', T'', g1, g2, g3, g4, g5, g6⟩ := sd_descend ih hzd
              (height_step true cn cl' ll lr (.node cr' rl y rr) en x f hh)
            refine ⟨m', h', _, ?_, g2, g3, g4, g5, ?_⟩
            · simp only [sdRest, hp, ne_eq, hnel, not_false_eq_true, if_true]
              rw [siftDownLoop_child _ _ _ _ _ hl0]
              exact g1
            · simp [Heap.siftInto, hx, hy, g6]
        · by_cases hy : y.key > en.key
          · have hp : pickChild m n = y.id := by
              simp [pickChild, hlid, hl0, hlkey, hrid, hr0, hrkey, hkeyn, hx, hy]
            have hzd : Zip m h.root k n p (mkNode false cn (.node cr' rl y rr) en (.node cl' ll x lr)) := hz
            obtain ⟨m', h', T'', g1, g2, g3, g4, g5, g6⟩ := sd_descend ih hzd
              (height_step false cn cr' rl rr (.node cl' ll x lr) en y f hh)
            refine ⟨m', h', _, ?_, g2, g3, g4, g5, ?_⟩
            · simp only [sdRest, hp, ne_eq, hner, not_false_eq_true, if_true]
              rw [siftDownLoop_child _ _ _ _ _ hr0]
              exact g1
            · simp [Heap.siftInto, hx, hy, g6]
          · obtain ⟨m', h', T', g1, g2, g3, g4, g5, g6⟩ := stay
              (by simp [pickChild, hlid, hl0, hlkey, hrid, hr0, hrkey, hkeyn, hx, hy])
            exact ⟨m', h', T', g1, g2, g3, g4, g5, by rw [g6]; simp [Heap.siftInto, hx, hy]⟩

end Cstl.HeapL
