import Cstl.HeapL.Clear
import Cstl.Heap.Spec
/-
Specification vocabulary of the link-level heap theorems (definitions only).
-/
set_option linter.unusedSimpArgs false
set_option linter.unusedVariables false
namespace Cstl.HeapL
open Cstl.SList (Mem upd upd_same upd_other)
open Cstl.TreeL
open Cstl.Tree (Color Elem Tree)

/-- the functional operation a link-level operation stands for -/
def toOp : LOp → Heap.Op
  | .push n key => .push { key := key, id := n }
  | .pop => .pop
  | .clear => .clear

/-- a link-level heap represents a functional one -/
def Rep (s : LS) (hp : Heap.Heap) : Prop :=
  ∃ t, IsTree s.m s.h.root 0 t ∧ toH t = hp.t ∧ s.h.size = hp.size

/-- the documented domain: the element handed to push is an object (non-NULL) that is not in the
heap -/
def OpOk (hp : Heap.Heap) : LOp → Prop
  | .push n _ => n ≠ 0 ∧ n ∉ (Heap.Tree.elems hp.t).map (·.id)
  | _ => True

/-- every operation of the history is inside the domain in the state it is applied to -/
def OpsOk : Heap.Heap → List LOp → Prop
  | _, [] => True
  | hp, op :: ops => OpOk hp op ∧ ∀ hp', Heap.step hp (toOp op) = some hp' → OpsOk hp' ops

end Cstl.HeapL
