import Cstl.Heap.Model
import Cstl.TreeL.Model
/-
Link-level model of ALL of src/heap.c (core Lean only).

Memory is the `TM` of lean/Cstl/TreeL/Model.lean: the three link fields `p`,
`l`, `r` of every `struct cstl_bintree_node` as functions from addresses to
addresses (`0` = NULL) and the key the comparison function reads; the heap
header is the embedded `struct cstl_bintree` (`Hd`: `root`, `size`).  One
update per C assignment, in the C order; loops carry fuel.

`none` = the C code would read or write through NULL at that point, evaluate
the undefined shift `1 << -1` (`size - 1` wrapped), or a loop did not finish
within its fuel (Props.lean: none of this happens from a memory that
represents a complete tree).  NULL checks are placed exactly where the C code
dereferences a pointer that no dominating test has compared with NULL.

`cstl_fls` is `Cstl.Heap.fls` (the mask loop on a 64-bit value);
`cstl_heap_promote_child` is `Cstl.TreeL.promoteChild` (tied to the source by
TreeL/TieHeap.lean).  `__cstl_bintree_cmp(&h->bt, a, b) > 0` is `key a > key b`
(the harness's comparison function returns the sign of the key difference).
`unsigned int` truncation of `id`/`loc`/`b` is not modelled (sizes below 2^31).
-/
namespace Cstl.HeapL
open Cstl.TreeL
open Cstl.Heap (fls)

/-- `__cstl_bintree_cmp(&h->bt, a, b)` with the comparison function of the harness: the sign of
the key difference (used by the translation of the C source, Cstl/Gen/HeapC.lean) -/
def cmpKey (m : TM) (a b : Nat) : Int :=
  if m.key a > m.key b then 1 else if m.key a < m.key b then -1 else 0

/-! ### cstl_heap_find -/

/-- `for (…; p != NULL && b != 0; b >>= 1) { if ((loc & b) == 0) p = p->l; else p = p->r; }` -/
def findLoop (m : TM) (loc : Nat) : Nat → Nat → Nat → Option Nat
  | 0, p, b => if p ≠ 0 ∧ b ≠ 0 then none else some p
  | fuel + 1, p, b =>
    if p ≠ 0 ∧ b ≠ 0 then
      findLoop m loc fuel (if loc &&& b = 0 then m.lf p else m.rt p) (b >>> 1)
    else some p

/-- iterations the loop of `cstl_heap_find` is given: `b` fits 64 bits -/
def findFuel : Nat := 64

/-- `cstl_heap_find(h, id)`: `p = h->bt.root; loc = id + 1; b = (1 << cstl_fls(loc)) >> 1; loop` -/
def find (m : TM) (h : Hd) (id : Nat) : Option Nat :=
  let loc := id + 1
  findLoop m loc findFuel h.root ((1 <<< (fls loc).toNat) >>> 1)

/-- the node at the position `ds` (directions from `a`, `true` = right); 0 if the walk leaves the
tree.  Not part of heap.c: what `cstl_heap_find` computes (Find.lean), used by the driver. -/
def walkTo (m : TM) : Nat → List Bool → Nat
  | a, [] => a
  | a, d :: ds => if a = 0 then 0 else walkTo m (if d then m.rt a else m.lf a) ds

/-! ### cstl_heap_push -/

/-- `while (n->p != NULL && __cstl_bintree_cmp(&h->bt, n, n->p) > 0) cstl_heap_promote_child(h, n);` -/
def siftUpLoop : Nat → TM → Hd → Nat → Option (TM × Hd)
  | 0, m, h, n => if m.pr n ≠ 0 ∧ m.key n > m.key (m.pr n) then none else some (m, h)
  | fuel + 1, m, h, n =>
    if m.pr n ≠ 0 ∧ m.key n > m.key (m.pr n) then
      siftUpLoop fuel (promoteChild m h n).1 (promoteChild m h n).2 n
    else some (m, h)

/-- `cstl_heap_push(h, e)`; `n` is the node inside the element (its key is already in `m.key n`) -/
def push (m : TM) (h : Hd) (n : Nat) : Option (TM × Hd) :=
  let m1 := setLf m n 0                                           -- n->l = NULL
  let m2 := setRt m1 n 0                                          -- n->r = NULL
  if h.root = 0 then
    let m3 := setP m2 n 0                                         -- n->p = NULL
    some (m3, { root := n, size := h.size + 1 })                  -- root = n; size++
  else
    if h.size = 0 then none else                                  -- (size - 1) wraps: loc = 0, `1 << -1`
    match find m2 h ((h.size - 1) / 2) with
    | none => none
    | some p =>
      let m3 := setP m2 n p                                       -- n->p = cstl_heap_find(…)
      if p = 0 then none else                                     -- n->p->r / n->p->l through NULL
      let m4 := if h.size % 2 = 0 then setRt m3 p n else setLf m3 p n
      match siftUpLoop (h.size + 1) m4 h n with
      | none => none
      | some (m5, h5) => some (m5, { h5 with size := h5.size + 1 })   -- size++

/-! ### cstl_heap_get -/

/-- `cstl_heap_get(h)`: the root element or NULL -/
def get (h : Hd) : Nat := if h.root ≠ 0 then h.root else 0

/-! ### cstl_heap_pop -/

/-- one evaluation of the candidate in the do/while of `cstl_heap_pop`:
`c = n; if (n->l && cmp(n->l, c) > 0) c = n->l; if (n->r && cmp(n->r, c) > 0) c = n->r;` -/
def pickChild (m : TM) (n : Nat) : Nat :=
  let c1 := if m.lf n ≠ 0 ∧ m.key (m.lf n) > m.key n then m.lf n else n
  if m.rt n ≠ 0 ∧ m.key (m.rt n) > m.key c1 then m.rt n else c1

/-- `do { if (c != NULL) promote_child(h, c); c = …; } while (n != c);` entered with `c` -/
def siftDownLoop : Nat → TM → Hd → Nat → Nat → Option (TM × Hd)
  | 0, _, _, _, _ => none
  | fuel + 1, m, h, n, c =>
    let r := if c ≠ 0 then promoteChild m h c else (m, h)
    if n ≠ pickChild r.1 n then siftDownLoop fuel r.1 r.2 n (pickChild r.1 n) else some r

/-- unlink `n` from its parent:
`if (n->p == NULL) root = NULL; else if (n->p->l == n) n->p->l = NULL; else n->p->r = NULL;` -/
def unlinkLast (m : TM) (h : Hd) (n : Nat) : TM × Hd :=
  (if m.pr n = 0 then m else if m.lf (m.pr n) = n then setLf m (m.pr n) 0 else setRt m (m.pr n) 0,
   if m.pr n = 0 then { h with root := 0 } else h)

/-- `*n = *root; if (n->l) n->l->p = n; if (n->r) n->r->p = n; root = n;` -/
def moveToRoot (m : TM) (h : Hd) (n : Nat) : TM × Hd :=
  let m2 := setRt (setLf (setP m n (m.pr h.root)) n (m.lf h.root)) n (m.rt h.root)   -- *n = *root
  let m3 := if m2.lf n ≠ 0 then setP m2 (m2.lf n) n else m2                         -- n->l->p = n
  let m4 := if m3.rt n ≠ 0 then setP m3 (m3.rt n) n else m3                         -- n->r->p = n
  (m4, { h with root := n })

/-- `cstl_heap_pop(h)`: new memory and header, and the node of the returned element (0 = NULL) -/
def pop (m : TM) (h : Hd) : Option (TM × Hd × Nat) :=
  let res := get h
  if res = 0 then some (m, h, 0) else
  if h.size = 0 then none else                                    -- (size - 1) wraps
  match find m h (h.size - 1) with
  | none => none
  | some n =>
    if n = 0 then none else                                       -- n->p through NULL
    let u := unlinkLast m h n
    let h2 : Hd := { u.2 with size := u.2.size - 1 }              -- size--
    if h2.root ≠ 0 then
      let r := moveToRoot u.1 h2 n
      match siftDownLoop (h.size + 1) r.1 r.2 n 0 with
      | none => none
      | some (m5, h5) => some (m5, h5, res)
    else some (u.1, h2, res)

/-! ### cstl_heap_clear = cstl_bintree_clear: `__cstl_bintree_foreach` with the clear visitor -/

/-- what the harness's clear callback does to the element: every link field is overwritten -/
def poison (pv : Nat) (m : TM) (a : Nat) : TM := setRt (setLf (setP m a pv) a pv) a pv

/-- `__cstl_bintree_foreach(bn, __cstl_bintree_clear_visit, …, left, right)`: the children are
read once at entry; the callback runs on the LEAF visit of a leaf and on the POST visit of a
non-leaf (PRE and MID visits do nothing; the visitor always returns 0).  `acc` = callbacks so
far (last first).  The recursion is the C recursion; `fuel` bounds its depth. -/
def clearWalk (pv : Nat) : Nat → TM → Nat → List Nat → Option (TM × List Nat)
  | 0, _, _, _ => none
  | fuel + 1, m, bn, acc =>
    let ln := m.lf bn
    let rn := m.rt bn
    match (if ln ≠ 0 then clearWalk pv fuel m ln acc else some (m, acc)) with
    | none => none
    | some (m1, acc1) =>
      let s2 : TM × List Nat := if ln = 0 ∧ rn = 0 then (poison pv m1 bn, bn :: acc1) else (m1, acc1)
      match (if rn ≠ 0 then clearWalk pv fuel s2.1 rn s2.2 else some s2) with
      | none => none
      | some (m3, acc3) =>
        if ln = 0 ∧ rn = 0 then some (m3, acc3) else some (poison pv m3 bn, bn :: acc3)

/-- `cstl_heap_clear(h, clr)`: memory, header, callbacks in order -/
def clear (pv : Nat) (m : TM) (h : Hd) : Option (TM × Hd × List Nat) :=
  if h.root ≠ 0 then
    match clearWalk pv (h.size + 1) m h.root [] with
    | none => none
    | some (m', acc) => some (m', { root := 0, size := 0 }, acc.reverse)
  else some (m, h, [])

/-! ### operation histories (the step function the driver executes) -/

inductive LOp where
  /-- store `key` in element `n`, then push it -/
  | push (n : Nat) (key : Int)
  | pop
  | clear
deriving Repr

/-- one operation: new state and the address returned (pop: the popped element, 0 = NULL) -/
def stepL (pv : Nat) (s : LS) : LOp → Option (LS × Nat)
  | .push n key =>
    match push (setKey s.m n key) s.h n with
    | none => none
    | some (m', h') => some (⟨m', h'⟩, 0)
  | .pop =>
    match pop s.m s.h with
    | none => none
    | some (m', h', r) => some (⟨m', h'⟩, r)
  | .clear =>
    match clear pv s.m s.h with
    | none => none
    | some (m', h', _) => some (⟨m', h'⟩, 0)

def runL (pv : Nat) : LS → List LOp → Option LS
  | s, [] => some s
  | s, op :: ops =>
    match stepL pv s op with
    | none => none
    | some (s', _) => runL pv s' ops

end Cstl.HeapL
