import Cstl.Vec.PropsStr3
/-
C10 at history level: two string objects of the same width, any sequence of
resize / reserve / insert / erase / substr / clear / swap with any positions
and counts, any allocator answers — refinement of the reference strings.
-/
namespace Cstl.Vec

/-- the edits on the reference strings (`sa` = "this", `sb` = the other) -/
def rstep (sa sb : List Nat) : SOp → List Nat × List Nat
  | .resize n => (refResize sa n, sb)
  | .reserve _ => (sa, sb)
  | .insertCh pos cnt ch => (refInsert sa pos (List.replicate cnt ch), sb)
  | .insertStrN pos src len => (refInsert sa pos (src.take len), sb)
  | .insertObj pos => (refInsert sa pos sb, sb)
  | .erase pos n => (refErase sa pos n, sb)
  | .substrTo pos n => (sa, refSubstr sa pos n)
  | .clear => ([], sb)
  | .swap => (sb, sa)

/-- the documented domain: requested lengths are `size_t` values, and
`insert_str_n` is given an array that really holds `len` characters -/
def SOp.dom : SOp → Prop
  | .resize n => n < W
  | .insertStrN _ src len => len ≤ src.length
  | _ => True

def rrun (sa sb : List Nat) : List (Bool × SOp × (Nat → Bool) × Nat) → List Nat × List Nat
  | [] => (sa, sb)
  | (w, op, _, _) :: rest =>
    if w then rrun (rstep sb sa op).2 (rstep sb sa op).1 rest
    else rrun (rstep sa sb op).1 (rstep sa sb op).2 rest

theorem objChars_rep {b : Vector} {sb : List Nat} (hb : StrRep b sb) :
    strSize b ≤ (objChars b).length ∧ (objChars b).take (strSize b) = sb := by
  rw [hb.size]
  unfold objChars
  cases hbase : b.base with
  | none =>
    have hc : b.count = 0 := by
      have := hb.ok.inv.none_cap hbase; have := hb.ok.inv.count_le_cap; omega
    have hs : sb = [] := by
      rcases hb.rep with ⟨_, hs⟩ | he
      · exact hs
      · have := hb.ok.inv.len; rw [he, hc] at this; simp at this
    subst hs
    simp
  | some p =>
    obtain ⟨t, het, _, _⟩ := hb.elems_eq
    simp only
    rw [het]
    simp

/-- one edit refines the reference edit; the only possible stop is the abort -/
theorem sstep_refines {ans : Nat → Bool} {id : Nat} {a b : Vector} {sa sb : List Nat} {op : SOp}
    (ha : StrRep a sa) (hb : StrRep b sb) (he : a.esz = b.esz) (hd : op.dom) :
    (∀ a' b', sstep ans id a b op = .ok (a', b') →
        StrRep a' (rstep sa sb op).1 ∧ StrRep b' (rstep sa sb op).2 ∧ a'.esz = b'.esz) ∧
    (∀ st, sstep ans id a b op = .error st → st = .abort) := by
  cases op with
  | resize n =>
    have hn : n < W := hd
    simp only [sstep, rstep]
    cases hr : strResize ans id a n with
    | error st =>
      rw [andThen_error]
      refine ⟨fun _ _ h => ?_, fun st' h => ?_⟩
      · cases h
      · injection h with h; rw [← h]; exact (strResize_error ha hn hr).1
    | ok p =>
      rw [andThen_ok]
      have hr' : strResize ans id a n = .ok (p.1, p.2) := hr
      obtain ⟨h1, h2, _⟩ := strResize_refines ha hn hr'
      refine ⟨fun a' b' h => ?_, fun st h => by cases h⟩
      injection h with h; injection h with e1 e2; subst e1; subst e2
      exact ⟨h1, hb, by rw [h2, he]⟩
  | reserve n =>
    simp only [sstep, rstep]
    obtain ⟨h1, h2⟩ := strReserve_rep (ans := ans) (id := id) ha n
    refine ⟨fun a' b' h => ?_, fun st h => by cases h⟩
    injection h with h; injection h with e1 e2; subst e1; subst e2
    exact ⟨h1, hb, by rw [h2, he]⟩
  | insertCh pos cnt ch =>
    simp only [sstep, rstep]
    cases hr : insertCh ans id a pos cnt ch with
    | error st =>
      rw [andThen_error]
      refine ⟨fun _ _ h => ?_, fun st' h => ?_⟩
      · cases h
      · injection h with h; rw [← h]; exact (insertCh_error ha hr).1
    | ok p =>
      rw [andThen_ok]
      have hr' : insertCh ans id a pos cnt ch = .ok (p.1, p.2) := hr
      obtain ⟨h1, h2, _⟩ := insertCh_refines ha hr'
      refine ⟨fun a' b' h => ?_, fun st h => by cases h⟩
      injection h with h; injection h with e1 e2; subst e1; subst e2
      exact ⟨h1, hb, by rw [h2, he]⟩
  | insertStrN pos src len =>
    have hsrc : len ≤ src.length := hd
    simp only [sstep, rstep]
    cases hr : insertStrN ans id a pos src len with
    | error st =>
      rw [andThen_error]
      refine ⟨fun _ _ h => ?_, fun st' h => ?_⟩
      · cases h
      · injection h with h; rw [← h]; exact (insertStrN_error ha hsrc hr).1
    | ok p =>
      rw [andThen_ok]
      have hr' : insertStrN ans id a pos src len = .ok (p.1, p.2) := hr
      obtain ⟨h1, h2, _⟩ := insertStrN_refines ha hsrc hr'
      refine ⟨fun a' b' h => ?_, fun st h => by cases h⟩
      injection h with h; injection h with e1 e2; subst e1; subst e2
      exact ⟨h1, hb, by rw [h2, he]⟩
  | insertObj pos =>
    obtain ⟨hsrc, htake⟩ := objChars_rep hb
    simp only [sstep, rstep]
    cases hr : insertStrN ans id a pos (objChars b) (strSize b) with
    | error st =>
      rw [andThen_error]
      refine ⟨fun _ _ h => ?_, fun st' h => ?_⟩
      · cases h
      · injection h with h; rw [← h]; exact (insertStrN_error ha hsrc hr).1
    | ok p =>
      rw [andThen_ok]
      have hr' : insertStrN ans id a pos (objChars b) (strSize b) = .ok (p.1, p.2) := hr
      obtain ⟨h1, h2, _⟩ := insertStrN_refines ha hsrc hr'
      rw [htake] at h1
      refine ⟨fun a' b' h => ?_, fun st h => by cases h⟩
      injection h with h; injection h with e1 e2; subst e1; subst e2
      exact ⟨h1, hb, by rw [h2, he]⟩
  | erase pos n =>
    simp only [sstep, rstep]
    obtain ⟨h1, h2⟩ := erase_refines (ans := ans) (id := id) ha pos n
    by_cases hp : pos < sa.length
    · obtain ⟨v', evs, hr, hrep, hes, _⟩ := h1 hp
      rw [hr, andThen_ok]
      refine ⟨fun a' b' h => ?_, fun st h => by cases h⟩
      injection h with h; injection h with e1 e2; subst e1; subst e2
      exact ⟨hrep, hb, by rw [hes, he]⟩
    · rw [h2 (by omega), andThen_error]
      refine ⟨fun _ _ h => ?_, fun st h => ?_⟩
      · cases h
      · injection h with h; exact h.symm
  | substrTo pos n =>
    simp only [sstep, rstep]
    obtain ⟨h1, h2⟩ := substr_refines (ans := ans) (id := id) ha hb he.symm pos n
    by_cases hp : pos < sa.length
    · obtain ⟨h3, h4⟩ := h2 hp
      by_cases hcg : canGrow ans b (min n (sa.length - pos) + 1)
      · obtain ⟨sub', evs, hr, hrep, hes⟩ := h3 hcg
        rw [hr, andThen_ok]
        refine ⟨fun a' b' h => ?_, fun st h => by cases h⟩
        injection h with h; injection h with e1 e2; subst e1; subst e2
        exact ⟨ha, hrep, by rw [hes, he]⟩
      · rw [h4 hcg, andThen_error]
        refine ⟨fun _ _ h => ?_, fun st h => ?_⟩
        · cases h
        · injection h with h; exact h.symm
    · rw [h1 (by omega), andThen_error]
      refine ⟨fun _ _ h => ?_, fun st h => ?_⟩
      · cases h
      · injection h with h; exact h.symm
  | clear =>
    simp only [sstep, rstep]
    obtain ⟨v', evs, hr, hrep, hes, _⟩ := strClear_rep ha
    rw [hr, andThen_ok]
    refine ⟨fun a' b' h => ?_, fun st h => by cases h⟩
    injection h with h; injection h with e1 e2; subst e1; subst e2
    exact ⟨hrep, hb, by rw [hes, he]⟩
  | swap =>
    simp only [sstep, rstep]
    refine ⟨fun a' b' h => ?_, fun st h => by cases h⟩
    injection h with h; injection h with e1 e2; subst e1; subst e2
    exact ⟨hb, ha, he.symm⟩

/-- **C10 `run_refines`.**  For every edit history on two string objects of
the same width, every position / count / length (lengths below 2^64, counts
unrestricted — so including 2^64 - 1), every allocator behaviour: if the run
completes, both objects represent the reference strings obtained by the list
operations splice / take / drop (so `size`, `at`, `str` report the reference
string followed by a NUL); if it stops, it stops with the documented abort and
never with an access outside the strings' storage. -/
theorem run_refines {a b : Vector} {sa sb : List Nat} (ha : StrRep a sa) (hb : StrRep b sb)
    (he : a.esz = b.esz) (ops : List (Bool × SOp × (Nat → Bool) × Nat)) (hd : ∀ x ∈ ops, x.2.1.dom) :
    (∀ a' b', srun a b ops = .ok (a', b') →
        StrRep a' (rrun sa sb ops).1 ∧ StrRep b' (rrun sa sb ops).2 ∧ a'.esz = b'.esz) ∧
    (∀ st, srun a b ops = .error st → st = .abort) := by
  induction ops generalizing a b sa sb with
  | nil =>
    simp only [srun, rrun]
    refine ⟨fun a' b' h => ?_, fun st h => by cases h⟩
    injection h with h; injection h with e1 e2; subst e1; subst e2
    exact ⟨ha, hb, he⟩
  | cons x rest ih =>
    obtain ⟨w, op, ans, id⟩ := x
    have hop : op.dom := hd (w, op, ans, id) (by simp)
    have hrest : ∀ x ∈ rest, x.2.1.dom := fun x hx => hd x (by simp [hx])
    cases w with
    | false =>
      simp only [srun, rrun, Bool.false_eq_true, if_false]
      obtain ⟨h1, h2⟩ := sstep_refines (ans := ans) (id := id) ha hb he hop
      cases hs : sstep ans id a b op with
      | error st =>
        rw [andThen_error]
        refine ⟨fun _ _ h => ?_, fun st' h => ?_⟩
        · cases h
        · injection h with h; rw [← h]; exact h2 st hs
      | ok p =>
        rw [andThen_ok]
        obtain ⟨r1, r2, r3⟩ := h1 p.1 p.2 hs
        exact ih r1 r2 r3 hrest
    | true =>
      simp only [srun, rrun, if_true]
      obtain ⟨h1, h2⟩ := sstep_refines (ans := ans) (id := id) hb ha he.symm hop
      cases hs : sstep ans id b a op with
      | error st =>
        rw [andThen_error]
        refine ⟨fun _ _ h => ?_, fun st' h => ?_⟩
        · cases h
        · injection h with h; rw [← h]; exact h2 st hs
      | ok p =>
        rw [andThen_ok]
        obtain ⟨r1, r2, r3⟩ := h1 p.1 p.2 hs
        exact ih r2 r1 r3.symm hrest

/-- every reachable state of two fresh strings of width `esz` -/
theorem run_refines_from_init (esz : Nat) (h : 0 < esz)
    (ops : List (Bool × SOp × (Nat → Bool) × Nat)) (hd : ∀ x ∈ ops, x.2.1.dom) :
    (∀ a' b', srun (Vector.init esz false false) (Vector.init esz false false) ops = .ok (a', b') →
        StrRep a' (rrun [] [] ops).1 ∧ StrRep b' (rrun [] [] ops).2) ∧
    (∀ st, srun (Vector.init esz false false) (Vector.init esz false false) ops = .error st → st = .abort) := by
  obtain ⟨h1, h2⟩ := run_refines (strRep_init esz h) (strRep_init esz h) rfl ops hd
  exact ⟨fun a' b' hr => ⟨(h1 a' b' hr).1, (h1 a' b' hr).2.1⟩, h2⟩

/-- C10 `growth_abort_no_write`: a requested length whose storage cannot be
obtained — `n + 1` not representable, the byte count `(n + 2) * esz` not
representable, or the allocator refusing — makes `resize` stop with the abort;
by `strResize_error` / `run_refines` no other kind of stop (an access outside
the storage) is possible, and an aborted call returns no state: nothing was
written -/
theorem growth_abort_no_write {ans : Nat → Bool} {id : Nat} {v : Vector} {s : List Nat} {n : Nat}
    (h : StrRep v s) (hn : n < W) (hu : n = SIZE_MAX ∨ ¬ canGrow ans v (n + 1)) :
    strResize ans id v n = .error .abort := by
  cases hr : strResize ans id v n with
  | error st => rw [(strResize_error h hn hr).1]
  | ok p =>
    exfalso
    obtain ⟨h1, h2⟩ := (strResize_ok_iff (id := id) h hn).mp ⟨p.1, p.2, hr⟩
    rcases hu with hu | hu
    · exact h1 hu
    · exact hu h2

/-- C10 `pos_abort_iff`: when the growth a call needs is satisfiable (`hgi`
for the insertion of `n` characters, `hgs` for the `min n (size - pos)`
characters of the substring), each call aborts exactly when its position is
outside the documented range — beyond the end for insert (`pos > size`), at or
beyond the end for erase / substr / find / at -/
theorem pos_abort_iff {ans : Nat → Bool} {id : Nat} {v sub : Vector} {s t : List Nat} (h : StrRep v s)
    (hs : StrRep sub t) (hesz : sub.esz = v.esz) (ht : Terminated v) (pos n c : Nat)
    (hgi : n = 0 ∨ (s.length + n < SIZE_MAX ∧ canGrow ans v (s.length + n + 1)))
    (hgs : canGrow ans sub (min n (s.length - pos) + 1)) :
    (insertCh ans id v pos n c = .error .abort ↔ s.length < pos) ∧
    (erase ans id v pos n = .error .abort ↔ s.length ≤ pos) ∧
    (substr ans id v pos n sub = .error .abort ↔ s.length ≤ pos) ∧
    (findCh v c pos = .error .abort ↔ s.length ≤ pos) ∧
    (strAt v pos = .error .abort ↔ s.length ≤ pos) := by
  refine ⟨?_, ?_, ?_, ?_, ?_⟩
  · rw [insert_abort_iff h]
    constructor
    · rintro (h1 | ⟨h1, h2⟩)
      · exact h1
      · exfalso
        rcases hgi with hgi | ⟨hgi1, hgi2⟩
        · omega
        · rcases h2 with h2 | h2
          · omega
          · exact h2 hgi2
    · exact Or.inl
  · obtain ⟨h1, h2⟩ := erase_refines (ans := ans) (id := id) h pos n
    constructor
    · intro he
      apply Nat.le_of_not_lt
      intro hp
      obtain ⟨v', evs, hr, _⟩ := h1 hp
      rw [hr] at he; cases he
    · exact h2
  · obtain ⟨h1, h2⟩ := substr_refines (ans := ans) (id := id) h hs hesz pos n
    constructor
    · intro he
      apply Nat.le_of_not_lt
      intro hp
      obtain ⟨sub', evs, hr, _⟩ := (h2 hp).1 hgs
      rw [hr] at he; cases he
    · exact h1
  · obtain ⟨h1, h2⟩ := findCh_eq_libc h ht c pos
    constructor
    · intro he
      apply Nat.le_of_not_lt
      intro hp
      rw [h2 hp] at he; cases he
    · exact h1
  · obtain ⟨h1, h2⟩ := strAt_spec h pos
    constructor
    · intro he
      apply Nat.le_of_not_lt
      intro hp
      rw [(h2 hp).1] at he; cases he
    · exact h1

/-! ### non-vacuity -/

/-- "abc" in a narrow string with room for 5 characters -/
def exS : Vector :=
  { base := some (3, 7), esz := 1, count := 4, cap := 6, cons := false, dest := false, elems := [97, 98, 99, 0] }

theorem exS_rep : StrRep exS [97, 98, 99] :=
  ⟨⟨⟨by decide, by simp [exS], by simp [exS], by simp [exS, W_eq], by decide, rfl⟩, rfl, rfl⟩, Or.inr rfl⟩

/-- the hypotheses of `pos_abort_iff` / `growth_abort_no_write` are satisfiable -/
example : (2 = 0 ∨ (([97, 98, 99] : List Nat).length + 2 < SIZE_MAX ∧ canGrow (fun _ => true) exS (3 + 2 + 1))) ∧
    canGrow (fun _ => true) (Vector.init 1 false false) (min 2 (3 - 1) + 1) ∧ Terminated exS ∧
    ¬ canGrow (fun _ => false) exS 9 := by
  refine ⟨Or.inr ⟨by decide, Or.inl (by decide)⟩, Or.inr ⟨rfl, ?_⟩, Or.inr (by decide), ?_⟩
  · unfold unrepresentable; decide
  · unfold canGrow; simp [exS]
example : (erase (fun _ => true) 9 exS 1 SIZE_MAX).map (·.1.elems) = .ok [97, 0] := by rfl
example : (insertCh (fun _ => true) 9 exS 1 2 120).map (·.1.elems) = .ok [97, 120, 120, 98, 99, 0] := by rfl
example : insertCh (fun _ => true) 9 exS 4 1 120 = .error .abort := by rfl
example : insertCh (fun _ => true) 9 exS 1 (SIZE_MAX - 1) 120 = .error .abort := by rfl
example : insertCh (fun _ => false) 9 exS 1 9 120 = .error .abort := by rfl
example : strResize (fun _ => true) 9 exS SIZE_MAX = .error .abort := by rfl
example : (substr (fun _ => true) 9 exS 1 SIZE_MAX (Vector.init 1 false false)).map (·.1.elems) =
    .ok [98, 99, 0] := by rfl
example : findCh exS 99 1 = .ok (some 2) ∧ findCh exS 0 0 = .ok none ∧ findCh exS 97 3 = .error .abort :=
  ⟨by rfl, by rfl, by rfl⟩
example : compareStr exS [97, 98] = .ok 1 ∧ compareStr exS [97, 98, 99] = .ok 0 := ⟨by rfl, by rfl⟩
/-- a history over two wide strings: set, insert the other object, erase to the
end with the all-ones count, substr, resize with NUL fill, swap, clear -/
example :
    (srun (Vector.init 4 false false) (Vector.init 4 false false)
      [(false, .insertStrN 0 [97, 98, 99] 3, fun _ => true, 1),
       (true, .insertCh 0 2 120, fun _ => true, 2),
       (false, .insertObj 1, fun _ => true, 3),
       (false, .erase 4 SIZE_MAX, fun _ => true, 4),
       (false, .substrTo 1 SIZE_MAX, fun _ => true, 5),
       (true, .resize 5, fun _ => true, 6),
       (false, .swap, fun _ => true, 7),
       (true, .clear, fun _ => true, 8)]).map (fun r => (r.1.elems, r.2.elems)) =
    .ok ([120, 120, 98, 0, 0, 0], []) ∧
    rrun [] [] [(false, .insertStrN 0 [97, 98, 99] 3, fun _ => true, 1),
       (true, .insertCh 0 2 120, fun _ => true, 2),
       (false, .insertObj 1, fun _ => true, 3),
       (false, .erase 4 SIZE_MAX, fun _ => true, 4),
       (false, .substrTo 1 SIZE_MAX, fun _ => true, 5),
       (true, .resize 5, fun _ => true, 6),
       (false, .swap, fun _ => true, 7),
       (true, .clear, fun _ => true, 8)] = ([120, 120, 98, 0, 0], []) := ⟨by rfl, by decide⟩

/-! ### the pinned code violated the property (defects #6, #7) -/

/-- the clamp of `substr_prep` before the repair: `pos + *len > size` in `size_t` -/
def substrPrepPinned (v : Vector) (pos len : Nat) : Except Stop Nat :=
  let size := strSize v
  if pos ≥ size then .error .abort
  else if addW pos len > size then .ok (size - pos) else .ok len

/-- on the pinned code the count `SIZE_MAX` at position 1 is **not** truncated
(`1 + SIZE_MAX` wraps to 0), while the repaired clamp truncates it -/
theorem pinned_clamp_wraps :
    substrPrepPinned exS 1 SIZE_MAX = .ok SIZE_MAX ∧ substrPrep exS 1 SIZE_MAX = .ok 2 := ⟨by rfl, by rfl⟩

end Cstl.Vec
