import Cstl.Vec.Model
/-
Helper lemmas for the vector part (C09): size_t arithmetic without
wrap-around under the repaired guard, the storage invariant `Inv`, and the
effect of every vector operation on it.
-/
namespace Cstl.Vec

theorem W_eq : W = 18446744073709551616 := by decide
theorem SIZE_MAX_eq : SIZE_MAX = 18446744073709551615 := by decide

theorem addW_one_of_ne_zero {sz : Nat} (h : sz < W) (h2 : addW sz 1 ≠ 0) : addW sz 1 = sz + 1 := by
  unfold addW at *
  rw [W_eq] at *
  omega

theorem addW_one_eq_zero_iff {sz : Nat} (h : sz < W) : addW sz 1 = 0 ↔ sz = SIZE_MAX := by
  unfold addW
  rw [W_eq] at *
  rw [SIZE_MAX_eq]
  omega

theorem mul_lt_W_of_le_div {a e : Nat} (h : a ≤ SIZE_MAX / e) : a * e < W := by
  have h1 := Nat.mul_le_mul_right e h
  have h2 := Nat.div_mul_le_self SIZE_MAX e
  rw [W_eq]
  rw [SIZE_MAX_eq] at *
  omega

theorem le_div_of_mul_lt_W {a e : Nat} (he : 0 < e) (h : a * e < W) : a ≤ SIZE_MAX / e := by
  rw [Nat.le_div_iff_mul_le he]
  rw [W_eq] at h
  rw [SIZE_MAX_eq]
  omega

theorem mulW_of_lt {a e : Nat} (h : a * e < W) : mulW a e = a * e := by
  unfold mulW
  exact Nat.mod_eq_of_lt h

/-- The storage invariant of C09 (the first three conjuncts are the property's;
`0 < esz` is the standing assumption on the element type, the length clause
ties the tracked values to `count`). -/
structure Inv (v : Vector) : Prop where
  count_le_cap : v.count ≤ v.cap
  none_cap : v.base = none → v.cap = 0
  bytes : ∀ b n, v.base = some (b, n) → n = (v.cap + 1) * v.esz
  bytes_lt : ∀ b n, v.base = some (b, n) → n < W
  esz_pos : 0 < v.esz
  len : v.elems.length = v.count

theorem Inv.cap_lt_W {v : Vector} (h : Inv v) : v.cap < W := by
  cases hb : v.base with
  | none => rw [h.none_cap hb, W_eq]; omega
  | some p =>
    obtain ⟨b, n⟩ := p
    have h1 := h.bytes b n hb
    have h2 := h.bytes_lt b n hb
    have h3 : v.cap + 1 ≤ (v.cap + 1) * v.esz := Nat.le_mul_of_pos_right _ h.esz_pos
    omega

theorem Inv.count_lt_W {v : Vector} (h : Inv v) : v.count < W :=
  Nat.lt_of_le_of_lt h.count_le_cap h.cap_lt_W

theorem inv_init (esz : Nat) (c d : Bool) (h : 0 < esz) : Inv (Vector.init esz c d) :=
  ⟨Nat.le_refl _, fun _ => rfl, fun _ _ hb => by simp [Vector.init] at hb,
   fun _ _ hb => by simp [Vector.init] at hb, h, rfl⟩

/-- when does `cstl_vector_set_capacity` decline to ask the allocator? -/
def unrepresentable (esz sz : Nat) : Prop := W ≤ (sz + 1) * esz

theorem guard_iff {v : Vector} {sz : Nat} (he : 0 < v.esz) (hsz : sz < W) :
    (addW sz 1 = 0 ∨ (v.esz ≠ 0 ∧ addW sz 1 > SIZE_MAX / v.esz)) ↔ unrepresentable v.esz sz := by
  unfold unrepresentable
  constructor
  · rintro (h | ⟨_, h⟩)
    · rw [addW_one_eq_zero_iff hsz] at h
      subst h
      have : (SIZE_MAX + 1) * 1 ≤ (SIZE_MAX + 1) * v.esz := Nat.mul_le_mul_left _ he
      rw [W_eq]; rw [SIZE_MAX_eq] at *; omega
    · by_cases h0 : addW sz 1 = 0
      · rw [addW_one_eq_zero_iff hsz] at h0
        subst h0
        have : (SIZE_MAX + 1) * 1 ≤ (SIZE_MAX + 1) * v.esz := Nat.mul_le_mul_left _ he
        rw [W_eq]; rw [SIZE_MAX_eq] at *; omega
      · rw [addW_one_of_ne_zero hsz h0] at h
        apply Nat.le_of_not_lt
        intro hlt
        have := le_div_of_mul_lt_W he hlt
        omega
  · intro h
    by_cases h0 : addW sz 1 = 0
    · exact Or.inl h0
    · right
      refine ⟨Nat.pos_iff_ne_zero.mp he, ?_⟩
      rw [addW_one_of_ne_zero hsz h0]
      apply Nat.lt_of_not_le
      intro hle
      have := mul_lt_W_of_le_div hle
      omega

theorem copyInto_length (xs : List Nat) (e o n : Nat) : (copyInto xs e o n).length = xs.length := by
  unfold copyInto
  simp
  omega

theorem copyInto_eq_self {xs : List Nat} {e o n : Nat} (he : 0 < e)
    (ho : xs.length * e ≤ o) (hn : xs.length * e ≤ n) : copyInto xs e o n = xs := by
  unfold copyInto
  have hk : xs.length ≤ min o n / e := by
    rw [Nat.le_div_iff_mul_le he]
    exact Nat.le_min.mpr ⟨ho, hn⟩
  simp [List.take_of_length_le hk, Nat.sub_eq_zero_of_le hk]

/-- the three possible outcomes of `setCapacity` -/
theorem setCapacity_cases (ans : Nat → Bool) (id : Nat) (v : Vector) (sz : Nat) :
    ((setCapacity ans id v sz).1 = v ∧
      ((setCapacity ans id v sz).2 = [] ∨
       (setCapacity ans id v sz).2 = [.rFail (baseId v) (mulW (addW sz 1) v.esz)] ∨
       (setCapacity ans id v sz).2 = [.rFree (baseId v)]))
    ∨ (¬ (addW sz 1 = 0 ∨ (v.esz ≠ 0 ∧ addW sz 1 > SIZE_MAX / v.esz)) ∧
       ans (mulW (addW sz 1) v.esz) = true ∧
       (setCapacity ans id v sz).1 =
         { v with base := some (id, mulW (addW sz 1) v.esz), cap := sz,
                  elems := copyInto v.elems v.esz (baseBytes v) (mulW (addW sz 1) v.esz) } ∧
       (setCapacity ans id v sz).2 = [.rOk (baseId v) id (mulW (addW sz 1) v.esz)]) := by
  unfold setCapacity
  by_cases hg : addW sz 1 = 0 ∨ (v.esz ≠ 0 ∧ addW sz 1 > SIZE_MAX / v.esz)
  · simp [hg]
  · dsimp only
    rw [if_neg hg]
    generalize mulW (addW sz 1) v.esz = bytes
    unfold reallocM
    cases ha : ans bytes with
    | false => simp
    | true =>
      by_cases hz : bytes = 0 ∧ v.base.isSome = true
      · left; simp [hz]
      · right
        refine ⟨hg, rfl, ?_, ?_⟩ <;> simp [hz]

theorem setCapacity_inv {ans : Nat → Bool} {id : Nat} {v : Vector} {sz : Nat}
    (h : Inv v) (hsz : sz < W) (hc : v.count ≤ sz) : Inv (setCapacity ans id v sz).1 := by
  rcases setCapacity_cases ans id v sz with ⟨h1, _⟩ | ⟨hg, _, h1, _⟩
  · rw [h1]; exact h
  · rw [h1]
    rw [guard_iff h.esz_pos hsz] at hg
    unfold unrepresentable at hg
    have hlt : (sz + 1) * v.esz < W := Nat.lt_of_not_le hg
    have hn0 : addW sz 1 ≠ 0 := by
      intro h0
      rw [addW_one_eq_zero_iff hsz] at h0
      subst h0
      have : (SIZE_MAX + 1) * 1 ≤ (SIZE_MAX + 1) * v.esz := Nat.mul_le_mul_left _ h.esz_pos
      rw [W_eq] at hlt; rw [SIZE_MAX_eq] at *; omega
    have hb : mulW (addW sz 1) v.esz = (sz + 1) * v.esz := by
      rw [addW_one_of_ne_zero hsz hn0, mulW_of_lt hlt]
    refine ⟨hc, ?_, ?_, ?_, h.esz_pos, ?_⟩
    · intro hb'; simp at hb'
    · intro b n hb'
      simp at hb'
      rw [← hb'.2, hb]
    · intro b n hb'
      simp at hb'
      rw [← hb'.2, hb]; exact hlt
    · simp [copyInto_length]; exact h.len

theorem setCapacity_elems {ans : Nat → Bool} {id : Nat} {v : Vector} {sz : Nat}
    (h : Inv v) (hsz : sz < W) (hc : v.count ≤ sz) : (setCapacity ans id v sz).1.elems = v.elems := by
  rcases setCapacity_cases ans id v sz with ⟨h1, _⟩ | ⟨hg, _, h1, _⟩
  · rw [h1]
  · rw [h1]
    rw [guard_iff h.esz_pos hsz] at hg
    unfold unrepresentable at hg
    have hlt : (sz + 1) * v.esz < W := Nat.lt_of_not_le hg
    have hn0 : addW sz 1 ≠ 0 := by
      intro h0
      rw [addW_one_eq_zero_iff hsz] at h0
      subst h0
      have : (SIZE_MAX + 1) * 1 ≤ (SIZE_MAX + 1) * v.esz := Nat.mul_le_mul_left _ h.esz_pos
      rw [W_eq] at hlt; rw [SIZE_MAX_eq] at *; omega
    have hb : mulW (addW sz 1) v.esz = (sz + 1) * v.esz := by
      rw [addW_one_of_ne_zero hsz hn0, mulW_of_lt hlt]
    show copyInto v.elems v.esz (baseBytes v) (mulW (addW sz 1) v.esz) = v.elems
    cases hbase : v.base with
    | none =>
      have hc0 : v.count = 0 := by have := h.none_cap hbase; have := h.count_le_cap; omega
      have : v.elems = [] := List.eq_nil_of_length_eq_zero (by rw [h.len, hc0])
      rw [this]; simp [copyInto]
    | some p =>
      obtain ⟨b, n⟩ := p
      have hn := h.bytes b n hbase
      apply copyInto_eq_self h.esz_pos
      · simp [baseBytes, hbase, hn, h.len]
        exact Nat.mul_le_mul_right _ (by have := h.count_le_cap; omega)
      · rw [hb, h.len]
        exact Nat.mul_le_mul_right _ (by omega)

/-- everything `setCapacity` leaves alone -/
theorem setCapacity_frame (ans : Nat → Bool) (id : Nat) (v : Vector) (sz : Nat) :
    (setCapacity ans id v sz).1.count = v.count ∧ (setCapacity ans id v sz).1.esz = v.esz ∧
    (setCapacity ans id v sz).1.cons = v.cons ∧ (setCapacity ans id v sz).1.dest = v.dest := by
  rcases setCapacity_cases ans id v sz with ⟨h1, _⟩ | ⟨_, _, h1, _⟩ <;> rw [h1] <;> simp

theorem reserve_inv {ans : Nat → Bool} {id : Nat} {v : Vector} {sz : Nat}
    (h : Inv v) (hsz : sz < W) : Inv (reserve ans id v sz).1 := by
  unfold reserve
  split
  · exact setCapacity_inv h hsz (by have := h.count_le_cap; omega)
  · exact h

theorem reserve_elems {ans : Nat → Bool} {id : Nat} {v : Vector} {sz : Nat}
    (h : Inv v) (hsz : sz < W) : (reserve ans id v sz).1.elems = v.elems := by
  unfold reserve
  split
  · exact setCapacity_elems h hsz (by have := h.count_le_cap; omega)
  · rfl

theorem reserve_frame (ans : Nat → Bool) (id : Nat) (v : Vector) (sz : Nat) :
    (reserve ans id v sz).1.count = v.count ∧ (reserve ans id v sz).1.esz = v.esz ∧
    (reserve ans id v sz).1.cons = v.cons ∧ (reserve ans id v sz).1.dest = v.dest := by
  unfold reserve
  split
  · exact setCapacity_frame ans id v sz
  · simp

theorem shrink_inv {ans : Nat → Bool} {id : Nat} {v : Vector}
    (h : Inv v) : Inv (shrink ans id v).1 := by
  unfold shrink
  split
  · exact setCapacity_inv h h.count_lt_W (Nat.le_refl _)
  · exact h

theorem shrink_elems {ans : Nat → Bool} {id : Nat} {v : Vector}
    (h : Inv v) : (shrink ans id v).1.elems = v.elems := by
  unfold shrink
  split
  · exact setCapacity_elems h h.count_lt_W (Nat.le_refl _)
  · rfl

/-! ### constructor / destructor event lists -/

def ctorSlots : List Ev → List Nat
  | [] => []
  | .ctor i :: es => i :: ctorSlots es
  | _ :: es => ctorSlots es

def dtorSlots : List Ev → List Nat
  | [] => []
  | .dtor i :: es => i :: dtorSlots es
  | _ :: es => dtorSlots es

theorem ctorSlots_append (a b : List Ev) : ctorSlots (a ++ b) = ctorSlots a ++ ctorSlots b := by
  induction a with
  | nil => rfl
  | cons e es ih => cases e <;> simp [ctorSlots, ih]

theorem dtorSlots_append (a b : List Ev) : dtorSlots (a ++ b) = dtorSlots a ++ dtorSlots b := by
  induction a with
  | nil => rfl
  | cons e es ih => cases e <;> simp [dtorSlots, ih]

theorem ctorSlots_consUp (k c : Nat) : ctorSlots (consUp k c) = List.range' c k := by
  induction k generalizing c with
  | zero => rfl
  | succ k ih => simp [consUp, ctorSlots, ih, List.range'_succ]

theorem dtorSlots_consUp (k c : Nat) : dtorSlots (consUp k c) = [] := by
  induction k generalizing c with
  | zero => rfl
  | succ k ih => simp [consUp, dtorSlots, ih]

theorem ctorSlots_destDown (k c : Nat) : ctorSlots (destDown k c) = [] := by
  induction k generalizing c with
  | zero => rfl
  | succ k ih => simp [destDown, ctorSlots, ih]

/-- `k` destructor calls downward from slot `c - 1`: the slots `[c - k, c)`, highest first -/
theorem dtorSlots_destDown (k c : Nat) (h : k ≤ c) :
    dtorSlots (destDown k c) = (List.range' (c - k) k).reverse := by
  induction k generalizing c with
  | zero => rfl
  | succ k ih =>
    have h1 : k ≤ c - 1 := by omega
    simp only [destDown, dtorSlots]
    rw [ih (c - 1) h1]
    have e1 : c - 1 - k = c - (k + 1) := by omega
    rw [e1, List.range'_concat]
    simp
    omega

theorem setCapacity_noxtor (ans : Nat → Bool) (id : Nat) (v : Vector) (sz : Nat) :
    ctorSlots (setCapacity ans id v sz).2 = [] ∧ dtorSlots (setCapacity ans id v sz).2 = [] := by
  rcases setCapacity_cases ans id v sz with ⟨_, h2 | h2 | h2⟩ | ⟨_, _, _, h2⟩ <;> rw [h2] <;>
    simp [ctorSlots, dtorSlots]

theorem reserve_noxtor (ans : Nat → Bool) (id : Nat) (v : Vector) (sz : Nat) :
    ctorSlots (reserve ans id v sz).2 = [] ∧ dtorSlots (reserve ans id v sz).2 = [] := by
  unfold reserve
  split
  · exact setCapacity_noxtor ans id v sz
  · simp [ctorSlots, dtorSlots]

theorem shrink_noxtor (ans : Nat → Bool) (id : Nat) (v : Vector) :
    ctorSlots (shrink ans id v).2 = [] ∧ dtorSlots (shrink ans id v).2 = [] := by
  unfold shrink
  split
  · exact setCapacity_noxtor ans id v v.count
  · simp [ctorSlots, dtorSlots]

/-! ### sort on values -/

theorem insertSorted_length (x : Nat) (xs : List Nat) : (insertSorted x xs).length = xs.length + 1 := by
  induction xs with
  | nil => rfl
  | cons y ys ih =>
    unfold insertSorted
    split <;> simp [ih]

theorem sortVals_length (xs : List Nat) : (sortVals xs).length = xs.length := by
  induction xs with
  | nil => rfl
  | cons x xs ih => simp [sortVals, insertSorted_length, ih]

theorem insertSorted_perm (x : Nat) (xs : List Nat) : (insertSorted x xs).Perm (x :: xs) := by
  induction xs with
  | nil => exact List.Perm.refl _
  | cons y ys ih =>
    unfold insertSorted
    split
    · exact List.Perm.refl _
    · exact (List.Perm.cons y ih).trans (List.Perm.swap x y ys)

theorem sortVals_perm (xs : List Nat) : (sortVals xs).Perm xs := by
  induction xs with
  | nil => exact List.Perm.refl _
  | cons x xs ih => exact (insertSorted_perm x (sortVals xs)).trans (List.Perm.cons x ih)

end Cstl.Vec
