import Cstl.Vec.PropsStr
/-
C10, second part: insert / erase / substr refine list splice / take / drop;
aborts exactly as documented; counts are truncated for every value.
-/
namespace Cstl.Vec

/-- reference semantics of the edits -/
def refInsert (s : List Nat) (pos : Nat) (xs : List Nat) : List Nat := s.take pos ++ xs ++ s.drop pos
def refErase (s : List Nat) (pos n : Nat) : List Nat := s.take pos ++ s.drop (pos + min n (s.length - pos))
def refSubstr (s : List Nat) (pos n : Nat) : List Nat := (s.drop pos).take n
def refResize (s : List Nat) (n : Nat) : List Nat := s.take n ++ List.replicate (n - s.length) 0

/-- when is the growth of a string of `sl` characters by `len` satisfiable? -/
def insertOK (ans : Nat → Bool) (v : Vector) (sl pos len : Nat) : Prop :=
  pos ≤ sl ∧ (len = 0 ∨ (sl + len < SIZE_MAX ∧ canGrow ans v (sl + len + 1)))

theorem prepInsert_ok_iff {ans : Nat → Bool} {id : Nat} {v : Vector} {s : List Nat} {pos len : Nat}
    (h : StrRep v s) :
    (∃ v' evs, prepInsert ans id v pos len = .ok (v', evs)) ↔ insertOK ans v s.length pos len := by
  unfold insertOK
  constructor
  · rintro ⟨v', evs, hr⟩
    obtain ⟨h1, _, _, _, h5⟩ := prepInsert_ok h hr
    refine ⟨h1, ?_⟩
    by_cases hl : len = 0
    · exact Or.inl hl
    · obtain ⟨h6, h7, _⟩ := h5 (by omega)
      exact Or.inr ⟨h6, h7⟩
  · rintro ⟨h1, h2⟩
    cases hr : prepInsert ans id v pos len with
    | ok p => exact ⟨p.1, p.2, rfl⟩
    | error st =>
      exfalso
      rcases (prepInsert_error h hr).2 with h3 | ⟨h3, h4⟩
      · omega
      · rcases h2 with h2 | ⟨h2, h2'⟩
        · omega
        · rcases h4 with h4 | h4
          · omega
          · exact h4 h2'

theorem rawWrite_zero (v : Vector) (idx : Nat) (src : List Nat) : rawWrite v idx src 0 = .ok v := by
  unfold rawWrite
  rw [if_pos rfl]

/-- C10: `insert_ch(pos, cnt, ch)` splices `cnt` copies of `ch` in at `pos` -/
theorem insertCh_refines {ans : Nat → Bool} {id : Nat} {v v' : Vector} {s : List Nat} {pos cnt ch : Nat}
    {evs : List Ev} (h : StrRep v s) (hr : insertCh ans id v pos cnt ch = .ok (v', evs)) :
    StrRep v' (refInsert s pos (List.replicate cnt ch)) ∧ v'.esz = v.esz ∧ insertOK ans v s.length pos cnt := by
  unfold insertCh at hr
  cases hp : prepInsert ans id v pos cnt with
  | error st => rw [hp, andThen_error] at hr; cases hr
  | ok p =>
    rw [hp, andThen_ok] at hr
    have hp' : prepInsert ans id v pos cnt = .ok (p.1, p.2) := hp
    have hio := (prepInsert_ok_iff h).mp ⟨_, _, hp'⟩
    obtain ⟨hpos, hok1, he1, hz, hnz⟩ := prepInsert_ok h hp'
    by_cases hc : cnt = 0
    · subst hc
      simp only [fillLoop] at hr
      rw [andThen_ok] at hr
      injection hr with hr; injection hr with h1 _; subst h1
      rw [hz rfl]
      refine ⟨?_, rfl, hio⟩
      unfold refInsert
      simp only [List.replicate_zero, List.append_nil, List.take_append_drop]
      exact h
    · obtain ⟨_, _, hc1, junk, hjl, hel⟩ := hnz (by omega)
      have hidx : pos = (s.take pos).length := by simp; omega
      rw [hidx] at hr
      rw [fillLoop_in hok1.inv cnt hel hjl, andThen_ok] at hr
      injection hr with hr; injection hr with h1 _; subst h1
      refine ⟨⟨⟨inv_with_elems hok1.inv ?_, hok1.nocons, hok1.nodest⟩, Or.inr ?_⟩, he1, hio⟩
      · have := hok1.inv.len
        rw [hel] at this
        simp at this ⊢
        omega
      · unfold refInsert
        simp

/-- C10: `insert_str_n(pos, src, len)` splices the first `len` characters of
the caller's array in at `pos` (`len ≤ src.length`: the array really holds
`len` characters) -/
theorem insertStrN_refines {ans : Nat → Bool} {id : Nat} {v v' : Vector} {s src : List Nat}
    {pos len : Nat} {evs : List Ev} (h : StrRep v s) (hsrc : len ≤ src.length)
    (hr : insertStrN ans id v pos src len = .ok (v', evs)) :
    StrRep v' (refInsert s pos (src.take len)) ∧ v'.esz = v.esz ∧ insertOK ans v s.length pos len := by
  unfold insertStrN at hr
  cases hp : prepInsert ans id v pos len with
  | error st => rw [hp, andThen_error] at hr; cases hr
  | ok p =>
    rw [hp, andThen_ok] at hr
    have hp' : prepInsert ans id v pos len = .ok (p.1, p.2) := hp
    have hio := (prepInsert_ok_iff h).mp ⟨_, _, hp'⟩
    obtain ⟨hpos, hok1, he1, hz, hnz⟩ := prepInsert_ok h hp'
    by_cases hc : len = 0
    · subst hc
      have : mulW 0 v.esz = 0 := by simp [mulW]
      rw [this, rawWrite_zero, andThen_ok] at hr
      injection hr with hr; injection hr with h1 _; subst h1
      rw [hz rfl]
      refine ⟨?_, rfl, hio⟩
      unfold refInsert
      simp only [List.take_zero, List.append_nil, List.take_append_drop]
      exact h
    · obtain ⟨_, _, hc1, junk, hjl, hel⟩ := hnz (by omega)
      have hmul : mulW len v.esz = len * p.1.esz := by
        rw [← he1]
        exact mulW_of_lt (hok1.inv.mul_lt_W (by omega))
      rw [hmul, rawWrite_in hok1.inv (by omega) hsrc, andThen_ok] at hr
      injection hr with hr; injection hr with h1 _; subst h1
      have hidx : pos = (s.take pos).length := by simp; omega
      have hw : writeAt p.1.elems pos (src.take len) = s.take pos ++ src.take len ++ (s.drop pos ++ [0]) := by
        rw [hel]
        conv => lhs; arg 2; rw [hidx]
        exact writeAt_split (by simp; omega)
      refine ⟨⟨⟨inv_with_elems hok1.inv (by rw [writeAt_length]; exact hok1.inv.len),
               hok1.nocons, hok1.nodest⟩, Or.inr ?_⟩, he1, hio⟩
      show writeAt p.1.elems pos (src.take len) = _
      rw [hw]
      unfold refInsert
      simp

/-- the only way `insert_ch` stops is the documented abort, and it does so
exactly when the position is beyond the end or the growth cannot be satisfied -/
theorem insertCh_error {ans : Nat → Bool} {id : Nat} {v : Vector} {s : List Nat} {pos cnt ch : Nat}
    {st : Stop} (h : StrRep v s) (hr : insertCh ans id v pos cnt ch = .error st) :
    st = .abort ∧ ¬ insertOK ans v s.length pos cnt := by
  unfold insertCh at hr
  cases hp : prepInsert ans id v pos cnt with
  | error st' =>
    rw [hp, andThen_error] at hr
    injection hr with hr; subst hr
    refine ⟨(prepInsert_error h hp).1, ?_⟩
    intro hio
    obtain ⟨v', evs, hok⟩ := (prepInsert_ok_iff (id := id) h).mpr hio
    rw [hok] at hp; cases hp
  | ok p =>
    exfalso
    rw [hp, andThen_ok] at hr
    have hp' : prepInsert ans id v pos cnt = .ok (p.1, p.2) := hp
    obtain ⟨hpos, hok1, he1, hz, hnz⟩ := prepInsert_ok h hp'
    by_cases hc : cnt = 0
    · subst hc
      simp only [fillLoop] at hr
      rw [andThen_ok] at hr
      cases hr
    · obtain ⟨_, _, hc1, junk, hjl, hel⟩ := hnz (by omega)
      have hidx : pos = (s.take pos).length := by simp; omega
      rw [hidx] at hr
      rw [fillLoop_in hok1.inv cnt hel hjl, andThen_ok] at hr
      cases hr

theorem insertStrN_error {ans : Nat → Bool} {id : Nat} {v : Vector} {s src : List Nat} {pos len : Nat}
    {st : Stop} (h : StrRep v s) (hsrc : len ≤ src.length)
    (hr : insertStrN ans id v pos src len = .error st) :
    st = .abort ∧ ¬ insertOK ans v s.length pos len := by
  unfold insertStrN at hr
  cases hp : prepInsert ans id v pos len with
  | error st' =>
    rw [hp, andThen_error] at hr
    injection hr with hr; subst hr
    refine ⟨(prepInsert_error h hp).1, ?_⟩
    intro hio
    obtain ⟨v', evs, hok⟩ := (prepInsert_ok_iff (id := id) h).mpr hio
    rw [hok] at hp; cases hp
  | ok p =>
    exfalso
    rw [hp, andThen_ok] at hr
    have hp' : prepInsert ans id v pos len = .ok (p.1, p.2) := hp
    obtain ⟨hpos, hok1, he1, hz, hnz⟩ := prepInsert_ok h hp'
    by_cases hc : len = 0
    · subst hc
      have : mulW 0 v.esz = 0 := by simp [mulW]
      rw [this, rawWrite_zero, andThen_ok] at hr
      cases hr
    · obtain ⟨_, _, hc1, junk, hjl, hel⟩ := hnz (by omega)
      have hmul : mulW len v.esz = len * p.1.esz := by
        rw [← he1]
        exact mulW_of_lt (hok1.inv.mul_lt_W (by omega))
      rw [hmul, rawWrite_in hok1.inv (by omega) hsrc, andThen_ok] at hr
      cases hr

/-- C10 `pos_abort_iff` + `growth_abort_no_write` for insertion: a position
beyond the end aborts; `size + cnt` not representable (or equal to SIZE_MAX, so
that the terminator does not fit) aborts; a refused allocation aborts — and in
each case the stop is the abort, never an access outside the storage -/
theorem insert_abort_iff {ans : Nat → Bool} {id : Nat} {v : Vector} {s : List Nat} {pos cnt ch : Nat}
    (h : StrRep v s) :
    insertCh ans id v pos cnt ch = .error .abort ↔
      (s.length < pos ∨ (0 < cnt ∧ (SIZE_MAX ≤ s.length + cnt ∨ ¬ canGrow ans v (s.length + cnt + 1)))) := by
  constructor
  · intro hr
    have hn := (insertCh_error h hr).2
    unfold insertOK at hn
    by_cases hp : s.length < pos
    · exact Or.inl hp
    · right
      have hpos : pos ≤ s.length := by omega
      by_cases hc : cnt = 0
      · exact absurd ⟨hpos, Or.inl hc⟩ hn
      · refine ⟨by omega, ?_⟩
        by_cases hs : SIZE_MAX ≤ s.length + cnt
        · exact Or.inl hs
        · right
          intro hcg
          exact hn ⟨hpos, Or.inr ⟨by omega, hcg⟩⟩
  · intro hc
    cases hr : insertCh ans id v pos cnt ch with
    | error st => rw [(insertCh_error h hr).1]
    | ok p =>
      exfalso
      have hr' : insertCh ans id v pos cnt ch = .ok (p.1, p.2) := hr
      obtain ⟨hpos, hio⟩ := (insertCh_refines h hr').2.2
      rcases hc with hc | ⟨hc1, hc2⟩
      · omega
      · rcases hio with hio | ⟨hio1, hio2⟩
        · omega
        · rcases hc2 with hc2 | hc2
          · omega
          · exact hc2 hio2

/-! ### count truncation, erase, substr -/

/-- C10 `count_truncated`: for **every** count `n` (including 2^64 - 1) the
clamp yields `min n (size - pos)`; it aborts exactly when `pos ≥ size` -/
theorem count_truncated {v : Vector} {s : List Nat} (h : StrRep v s) (pos n : Nat) :
    (pos < s.length → substrPrep v pos n = .ok (min n (s.length - pos))) ∧
    (s.length ≤ pos → substrPrep v pos n = .error .abort) := by
  unfold substrPrep
  rw [h.size]
  constructor
  · intro hp
    rw [if_neg (by omega)]
    by_cases hn : n > s.length - pos
    · rw [if_pos hn]; congr 1; omega
    · rw [if_neg hn]; congr 1; omega
  · intro hp
    rw [if_pos hp]

/-- C10: `erase(pos, n)` removes `min n (size - pos)` characters at `pos`; it
aborts exactly when `pos ≥ size`, and never asks the allocator -/
theorem erase_refines {ans : Nat → Bool} {id : Nat} {v : Vector} {s : List Nat} (h : StrRep v s) (pos n : Nat) :
    (pos < s.length → ∃ v' evs, erase ans id v pos n = .ok (v', evs) ∧ StrRep v' (refErase s pos n) ∧
        v'.esz = v.esz ∧ v'.base = v.base ∧ v'.cap = v.cap) ∧
    (s.length ≤ pos → erase ans id v pos n = .error .abort) := by
  obtain ⟨hct1, hct2⟩ := count_truncated h pos n
  constructor
  · intro hp
    unfold erase
    rw [hct1 hp, andThen_ok, h.size]
    have hsl := h.len_lt_W
    -- the string is non-empty, so the terminator is stored
    have hel : v.elems = s ++ [0] := by
      rcases h.rep with ⟨_, hs⟩ | he
      · rw [hs] at hp; simp at hp
      · exact he
    have hcnt : v.count = s.length + 1 := by
      have := h.ok.inv.len; rw [hel] at this; simp at this; omega
    have hcw := h.ok.inv.count_lt_W
    obtain ⟨k, hkdef⟩ : ∃ k, k = min n (s.length - pos) := ⟨_, rfl⟩
    rw [← hkdef]
    have hk : k ≤ s.length - pos := by rw [hkdef]; exact Nat.min_le_right _ _
    have ha : addW pos k = pos + k := addW_of_lt (by omega)
    have hsw : subW s.length (pos + k) = s.length - (pos + k) := subW_of_le (by omega) hsl
    have hm : mulW (s.length - (pos + k)) v.esz = (s.length - (pos + k)) * v.esz :=
      mulW_of_lt (h.ok.inv.mul_lt_W (by omega))
    show ∃ v' evs, andThen (rawMove v pos (addW pos k) (mulW (subW s.length (addW pos k)) v.esz))
        (fun v1 => strResize0 ans id v1 (subW s.length k)) = .ok (v', evs) ∧ _
    rw [ha, hsw, hm, rawMove_in h.ok.inv (by omega) (by omega), andThen_ok, subW_of_le (by omega) hsl]
    -- contents after the memmove
    have hmove : writeAt v.elems pos (readAt v.elems (pos + k) (s.length - (pos + k))) =
        s.take pos ++ s.drop (pos + k) ++ v.elems.drop (s.length - k) := by
      have hsplit : v.elems = s.take (pos + k) ++ s.drop (pos + k) ++ [0] := by
        rw [hel]; simp [List.take_append_drop]
      have hread : readAt v.elems (pos + k) (s.length - (pos + k)) = s.drop (pos + k) := by
        rw [hsplit]
        have h1 : pos + k = (s.take (pos + k)).length := by simp; omega
        have h2 : s.length - (pos + k) = (s.drop (pos + k)).length := by simp
        rw [h2]
        conv => lhs; arg 2; rw [h1]
        exact readAt_split
      rw [hread, writeAt_in (by rw [hel]; simp; omega)]
      have : pos + (s.drop (pos + k)).length = s.length - k := by simp; omega
      rw [this, hel, List.take_append_of_le_length (by omega)]
    let v1 : Vector := { v with elems := writeAt v.elems pos (readAt v.elems (pos + k) (s.length - (pos + k))) }
    have hok1 : StrOK v1 :=
      ⟨inv_with_elems h.ok.inv (by rw [writeAt_length]; exact h.ok.inv.len), h.ok.nocons, h.ok.nodest⟩
    have hlt : s.length - k < W := by omega
    have hcg : canGrow ans v1 (s.length - k + 1) := Or.inl (by
      show s.length - k + 1 ≤ v.cap
      have := h.ok.inv.count_le_cap; omega)
    have hne : s.length - k ≠ SIZE_MAX := by rw [W_eq] at hlt hsl hcw; rw [SIZE_MAX_eq]; omega
    obtain ⟨v', evs, hr⟩ := (strResize0_ok_iff (id := id) hok1 hlt).mpr ⟨hne, hcg⟩
    refine ⟨v', evs, hr, ?_⟩
    obtain ⟨hok', hc', he', hel', _⟩ := strResize0_ok hok1 hlt hr
    -- shrinking never reallocates
    have hbase : v'.base = v.base ∧ v'.cap = v.cap := by
      unfold strResize0 at hr
      have hn1 : s.length - k + 1 < W := by omega
      have h0 : addW (s.length - k) 1 ≠ 0 := by
        rw [addW_of_lt hn1]; omega
      rw [if_neg h0, addW_of_lt hn1] at hr
      have hres : reserve ans id v1 (s.length - k + 1) = (v1, []) := by
        unfold reserve
        rw [if_neg (by show ¬ s.length - k + 1 > v.cap; have := h.ok.inv.count_le_cap; omega)]
      cases hrz : resize ans id v1 (s.length - k + 1) with
      | error st => rw [hrz, andThen_error] at hr; cases hr
      | ok p =>
        rw [hrz, andThen_ok] at hr
        have hrz' := hrz
        rw [resize_unfold, hres] at hrz'
        have hpb : p.1.base = v.base ∧ p.1.cap = v.cap := by
          dsimp only at hrz'
          split at hrz'
          · cases hrz'
          · split at hrz'
            · split at hrz' <;> (injection hrz' with e; rw [← e]; exact ⟨rfl, rfl⟩)
            · split at hrz'
              · split at hrz' <;> (injection hrz' with e; rw [← e]; exact ⟨rfl, rfl⟩)
              · injection hrz' with e; rw [← e]; exact ⟨rfl, rfl⟩
        have hrz2 : resize ans id v1 (s.length - k + 1) = .ok (p.1, p.2) := hrz
        obtain ⟨hokp, hcp, _⟩ := resize_nox hok1 hn1 hrz2
        rw [rawSet_in hokp.inv (by omega), andThen_ok] at hr
        injection hr with hr; injection hr with e _
        rw [← e]
        exact hpb
    refine ⟨⟨hok', Or.inr ?_⟩, he', hbase.1, hbase.2⟩
    rw [hel']
    show padTake (writeAt v.elems pos (readAt v.elems (pos + k) (s.length - (pos + k)))) (s.length - k) ++ [0] = _
    rw [hmove]
    unfold padTake refErase
    rw [← hkdef]
    have hlen2 : (s.take pos ++ s.drop (pos + k)).length = s.length - k := by simp; omega
    rw [List.take_append_of_le_length (by omega), List.take_of_length_le (by omega)]
    have : s.length - k - (s.take pos ++ s.drop (pos + k) ++ v.elems.drop (s.length - k)).length = 0 := by
      simp; omega
    rw [this]
    simp
  · intro hp
    unfold erase
    rw [hct2 hp, andThen_error]

/-- C10: `substr(pos, n, sub)` makes `sub` the `min n (size - pos)` characters
at `pos`; aborts exactly when `pos ≥ size` or the storage for `sub` cannot be
obtained -/
theorem substr_refines {ans : Nat → Bool} {id : Nat} {v sub : Vector} {s t : List Nat}
    (h : StrRep v s) (hs : StrRep sub t) (hesz : sub.esz = v.esz) (pos n : Nat) :
    (s.length ≤ pos → substr ans id v pos n sub = .error .abort) ∧
    (pos < s.length →
      (canGrow ans sub (min n (s.length - pos) + 1) →
         ∃ sub' evs, substr ans id v pos n sub = .ok (sub', evs) ∧ StrRep sub' (refSubstr s pos n) ∧
           sub'.esz = sub.esz) ∧
      (¬ canGrow ans sub (min n (s.length - pos) + 1) → substr ans id v pos n sub = .error .abort)) := by
  obtain ⟨hct1, hct2⟩ := count_truncated h pos n
  constructor
  · intro hp
    unfold substr
    rw [hct2 hp, andThen_error]
  · intro hp
    have hsl := h.len_lt_W
    have hcw := h.ok.inv.count_lt_W
    have hcnt0 : s.length + 1 ≤ v.count := by
      obtain ⟨t, het, _, hc⟩ := h.elems_eq
      rcases h.rep with ⟨_, hs'⟩ | he
      · rw [hs'] at hp; simp at hp
      · rw [he] at het
        have : t = [0] := List.append_cancel_left het.symm
        rw [this] at hc; simp at hc; omega
    obtain ⟨k, hkdef⟩ : ∃ k, k = min n (s.length - pos) := ⟨_, rfl⟩
    rw [← hkdef]
    have hk : k ≤ s.length - pos := by rw [hkdef]; exact Nat.min_le_right _ _
    have hkW : k < W := by omega
    have hne : k ≠ SIZE_MAX := by rw [W_eq] at hsl hcw; rw [SIZE_MAX_eq]; omega
    constructor
    · intro hcg
      unfold substr
      rw [hct1 hp, ← hkdef, andThen_ok]
      obtain ⟨sub1, evs, hr0⟩ := (strResize0_ok_iff (id := id) hs.ok hkW).mpr ⟨hne, hcg⟩
      obtain ⟨hok1, hc1, he1, hel1, _⟩ := strResize0_ok hs.ok hkW hr0
      rw [hr0, andThen_ok]
      have hel : v.elems = s ++ [0] := by
        rcases h.rep with ⟨_, hs'⟩ | he
        · rw [hs'] at hp; simp at hp
        · exact he
      have hcnt : v.count = s.length + 1 := by
        have := h.ok.inv.len; rw [hel] at this; simp at this; omega
      have hm : mulW k v.esz = k * v.esz := mulW_of_lt (h.ok.inv.mul_lt_W (by omega))
      have hread : readAt v.elems pos k = (s.drop pos).take k := by
        rw [readAt_in (by rw [hel]; simp; omega), hel, List.drop_append_of_le_length (by omega),
            List.take_append_of_le_length (by simp; omega)]
      dsimp only
      rw [hm, rawRead_in h.ok.inv (by omega), andThen_ok]
      have hm' : k * v.esz = k * sub1.esz := by rw [he1, hesz]
      rw [hm', rawWrite_in hok1.inv (by omega) (by rw [readAt_length]; exact Nat.le_refl _), andThen_ok]
      refine ⟨_, _, rfl, ⟨⟨inv_with_elems hok1.inv (by rw [writeAt_length]; exact hok1.inv.len),
                           hok1.nocons, hok1.nodest⟩, Or.inr ?_⟩, he1⟩
      show writeAt sub1.elems 0 ((readAt v.elems pos k).take k) = _
      rw [hread, List.take_take, Nat.min_self]
      have hl1 : sub1.elems.length = k + 1 := by rw [hok1.inv.len, hc1]
      have hlk : ((s.drop pos).take k).length = k := by simp; omega
      rw [writeAt_in (by rw [hlk]; omega), hlk]
      simp only [List.take_zero, List.nil_append, Nat.zero_add]
      rw [hel1, List.drop_append_of_le_length (by rw [padTake_length]; exact Nat.le_refl _)]
      have : (padTake sub.elems k).drop k = [] := List.drop_eq_nil_of_le (by rw [padTake_length]; exact Nat.le_refl _)
      rw [this]
      unfold refSubstr
      have : (s.drop pos).take k = (s.drop pos).take n := by
        rw [hkdef, ← List.take_take]
        congr 1
        exact List.take_of_length_le (by simp)
      rw [this]
      simp
    · intro hcg
      unfold substr
      rw [hct1 hp, ← hkdef, andThen_ok]
      cases hr0 : strResize0 ans id sub k with
      | error st =>
        rw [andThen_error, (strResize0_error hs.ok hkW hr0).1]
      | ok p =>
        have hr0' : strResize0 ans id sub k = .ok (p.1, p.2) := hr0
        obtain ⟨_, _, _, _, _, h6, _⟩ := strResize0_ok hs.ok hkW hr0'
        exact absurd h6 hcg

end Cstl.Vec
