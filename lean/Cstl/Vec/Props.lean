import Cstl.Vec.Lemmas
/-
Property theorems for C09 — a vector never reports size or capacity it has no
storage for.  All theorems are about the model of src/vector.c in
`Model.lean` (repaired code); `Inv` is defined in `Lemmas.lean`:

    count ≤ cap,  base = none → cap = 0,
    base = some (b, n) → n = (cap + 1) * esz   (natural numbers: no wrap), n < 2^64

Requested sizes range over all of `size_t` (`sz < W`), oracle answers over all
functions `Nat → Bool`.
-/
namespace Cstl.Vec

/-! ### per-operation theorems -/

/-- `resize`, seen through its two phases -/
theorem resize_unfold (ans : Nat → Bool) (id : Nat) (v : Vector) (sz : Nat) :
    resize ans id v sz =
      (let v1 := (reserve ans id v sz).1
       let e1 := (reserve ans id v sz).2
       if v1.cap < sz then .error .abort
       else if v1.count < sz then
         if v1.cons then
           .ok ({ v1 with count := sz, elems := v1.elems ++ List.replicate (sz - v1.count) ctorV },
                e1 ++ consUp (sz - v1.count) v1.count)
         else .ok ({ v1 with count := sz, elems := v1.elems ++ List.replicate (sz - v1.count) undefV }, e1)
       else if v1.count > sz then
         if v1.dest then
           .ok ({ v1 with count := sz, elems := v1.elems.take sz }, e1 ++ destDown (v1.count - sz) v1.count)
         else .ok ({ v1 with count := sz, elems := v1.elems.take sz }, e1)
       else .ok (v1, e1)) := by
  unfold resize
  rfl

/-- C09, growth that cannot be satisfied: `resize` stops exactly when the
capacity is still short after the reserve step, the stop is the documented
abort (never an out-of-bounds access), and the reserve step that preceded it
left the vector exactly as it was. -/
theorem resize_abort_iff {ans : Nat → Bool} {id : Nat} {v : Vector} {sz : Nat} :
    (∃ st, resize ans id v sz = .error st) ↔ (reserve ans id v sz).1.cap < sz := by
  rw [resize_unfold]
  dsimp only
  constructor
  · rintro ⟨st, h⟩
    split at h
    · assumption
    · split at h
      · split at h <;> cases h
      · split at h
        · split at h <;> cases h
        · cases h
  · intro h
    exact ⟨.abort, by rw [if_pos h]⟩

theorem resize_error_is_abort {ans : Nat → Bool} {id : Nat} {v : Vector} {sz : Nat} {st : Stop}
    (h : resize ans id v sz = .error st) : st = .abort := by
  rw [resize_unfold] at h
  dsimp only at h
  split at h
  · cases h; rfl
  · split at h
    · split at h <;> cases h
    · split at h
      · split at h <;> cases h
      · cases h

/-- `reserve` either commits completely or is a quiet no-op: never a smaller
buffer paired with a larger reported capacity. -/
theorem reserve_commit_or_noop {ans : Nat → Bool} {id : Nat} {v : Vector} {sz : Nat}
    (h : Inv v) (hsz : sz < W) :
    (reserve ans id v sz).1 = v ∨
    ((reserve ans id v sz).1.cap = sz ∧ v.cap < sz ∧
     (reserve ans id v sz).1.base = some (id, (sz + 1) * v.esz) ∧ (sz + 1) * v.esz < W ∧
     ans ((sz + 1) * v.esz) = true) := by
  unfold reserve
  split
  · rename_i hgt
    rcases setCapacity_cases ans id v sz with ⟨h1, _⟩ | ⟨hg, ha, h1, _⟩
    · exact Or.inl h1
    · right
      rw [guard_iff h.esz_pos hsz] at hg
      unfold unrepresentable at hg
      have hlt : (sz + 1) * v.esz < W := Nat.lt_of_not_le hg
      have hn0 : addW sz 1 ≠ 0 := by
        intro h0
        rw [addW_one_eq_zero_iff hsz] at h0
        subst h0
        have : (SIZE_MAX + 1) * 1 ≤ (SIZE_MAX + 1) * v.esz := Nat.mul_le_mul_left _ h.esz_pos
        rw [W_eq] at hlt; rw [SIZE_MAX_eq] at *; omega
      have hb : mulW (addW sz 1) v.esz = (sz + 1) * v.esz := by
        rw [addW_one_of_ne_zero hsz hn0, mulW_of_lt hlt]
      rw [hb] at h1 ha
      rw [h1]
      exact ⟨rfl, hgt, rfl, hlt, ha⟩
  · exact Or.inl rfl

/-- C09 `reserve_fail_noop`: when the allocator refuses the request, or the
byte count `(sz + 1) * esz` cannot be represented, `reserve` changes nothing
(and in the second case does not even ask the allocator). -/
theorem reserve_fail_noop {ans : Nat → Bool} {id : Nat} {v : Vector} {sz : Nat}
    (h : Inv v) (hsz : sz < W)
    (hf : ans ((sz + 1) * v.esz) = false ∨ unrepresentable v.esz sz) :
    (reserve ans id v sz).1 = v ∧ (unrepresentable v.esz sz → (reserve ans id v sz).2 = []) := by
  constructor
  · rcases reserve_commit_or_noop (ans := ans) (id := id) h hsz with h1 | ⟨_, _, _, hlt, ha⟩
    · exact h1
    · rcases hf with hf | hf
      · rw [ha] at hf; cases hf
      · unfold unrepresentable at hf; omega
  · intro hu
    unfold reserve
    split
    · unfold setCapacity
      rw [if_pos ((guard_iff h.esz_pos hsz).mpr hu)]
    · rfl

/-- C09 `resize_fail_abort`: a growth beyond the capacity that the allocator
refuses (or whose byte count cannot be represented) aborts; the only thing
that ran before the abort is a `reserve` that changed nothing. -/
theorem resize_fail_abort {ans : Nat → Bool} {id : Nat} {v : Vector} {sz : Nat}
    (h : Inv v) (hsz : sz < W) (hgrow : v.cap < sz)
    (hf : ans ((sz + 1) * v.esz) = false ∨ unrepresentable v.esz sz) :
    resize ans id v sz = .error .abort ∧ (reserve ans id v sz).1 = v := by
  have hn := (reserve_fail_noop (ans := ans) (id := id) h hsz hf).1
  refine ⟨?_, hn⟩
  have : (reserve ans id v sz).1.cap < sz := by rw [hn]; exact hgrow
  obtain ⟨st, hst⟩ := resize_abort_iff.mpr this
  rw [hst, resize_error_is_abort hst]

/-- conversely a satisfiable growth never aborts -/
theorem resize_ok_of_satisfiable {ans : Nat → Bool} {id : Nat} {v : Vector} {sz : Nat}
    (h : Inv v) (hsz : sz < W)
    (hs : sz ≤ v.cap ∨ (ans ((sz + 1) * v.esz) = true ∧ ¬ unrepresentable v.esz sz)) :
    ∃ v' evs, resize ans id v sz = .ok (v', evs) := by
  have hcap : ¬ (reserve ans id v sz).1.cap < sz := by
    rcases hs with hs | ⟨ha, hu⟩
    · unfold reserve
      rw [if_neg (by omega)]
      show ¬ v.cap < sz
      omega
    · by_cases hle : sz ≤ v.cap
      · unfold reserve
        rw [if_neg (by omega)]
        show ¬ v.cap < sz
        omega
      · unfold reserve
        rw [if_pos (by omega)]
        unfold setCapacity
        have hg := (not_congr (guard_iff (v := v) h.esz_pos hsz)).mpr hu
        rw [if_neg hg]
        unfold unrepresentable at hu
        have hlt : (sz + 1) * v.esz < W := Nat.lt_of_not_le hu
        have hn0 : addW sz 1 ≠ 0 := fun h0 => hg (Or.inl h0)
        have hb : mulW (addW sz 1) v.esz = (sz + 1) * v.esz := by
          rw [addW_one_of_ne_zero hsz hn0, mulW_of_lt hlt]
        dsimp only
        rw [hb]
        unfold reallocM
        have hpos : (sz + 1) * v.esz ≠ 0 := Nat.ne_of_gt (Nat.mul_pos (by omega) h.esz_pos)
        simp [ha, hpos]
  cases hr : resize ans id v sz with
  | ok p => exact ⟨p.1, p.2, rfl⟩
  | error st => exact absurd (resize_abort_iff.mp ⟨st, hr⟩) hcap

/-- what a successful `resize` produces (invariant, size, frame, contents, events) -/
theorem resize_ok_spec {ans : Nat → Bool} {id : Nat} {v v' : Vector} {sz : Nat} {evs : List Ev}
    (h : Inv v) (hsz : sz < W) (hr : resize ans id v sz = .ok (v', evs)) :
    Inv v' ∧ v'.count = sz ∧ v'.esz = v.esz ∧ v'.cons = v.cons ∧ v'.dest = v.dest ∧
    v'.elems.take (min v.count sz) = v.elems.take (min v.count sz) ∧
    (v.cons = true → ∀ i, v.count ≤ i → i < sz → v'.elems[i]? = some ctorV) ∧
    ctorSlots evs = (if v.cons = true ∧ v.count < sz then List.range' v.count (sz - v.count) else []) ∧
    dtorSlots evs = (if v.dest = true ∧ sz < v.count then (List.range' sz (v.count - sz)).reverse else []) := by
  rw [resize_unfold] at hr
  have hi := reserve_inv (ans := ans) (id := id) h hsz
  have he := reserve_elems (ans := ans) (id := id) h hsz
  obtain ⟨hf1, hf2, hf3, hf4⟩ := reserve_frame ans id v sz
  obtain ⟨hx1, hx2⟩ := reserve_noxtor ans id v sz
  generalize (reserve ans id v sz).1 = v1 at hr hi he hf1 hf2 hf3 hf4
  generalize (reserve ans id v sz).2 = e1 at hr hx1 hx2
  dsimp only at hr
  have hlen := hi.len
  split at hr
  · cases hr
  · rename_i hcap
    split at hr
    · rename_i hlt
      split at hr
      · rename_i hc
        injection hr with hr; injection hr with h1 h2; subst h1; subst h2
        refine ⟨⟨by simp; omega, hi.none_cap, hi.bytes, hi.bytes_lt, hi.esz_pos, by simp; omega⟩,
                rfl, hf2, hf3, hf4, ?_, ?_, ?_, ?_⟩
        · show (v1.elems ++ _).take _ = _
          rw [he, ← hf1]
          rw [List.take_append_of_le_length (by rw [← he, hlen]; omega)]
        · intro _ i hi1 hi2
          show (v1.elems ++ _)[i]? = _
          rw [List.getElem?_append_right (by omega)]
          simp [List.getElem?_replicate]
          omega
        · rw [ctorSlots_append, hx1, ctorSlots_consUp, ← hf1, ← hf3, hc]
          simp [hlt]
        · rw [dtorSlots_append, hx2, dtorSlots_consUp, ← hf1]
          have : ¬ sz < v1.count := by omega
          simp [this]
      · rename_i hc
        injection hr with hr; injection hr with h1 h2; subst h1; subst h2
        refine ⟨⟨by simp; omega, hi.none_cap, hi.bytes, hi.bytes_lt, hi.esz_pos, by simp; omega⟩,
                rfl, hf2, hf3, hf4, ?_, ?_, ?_, ?_⟩
        · show (v1.elems ++ _).take _ = _
          rw [he, ← hf1]
          rw [List.take_append_of_le_length (by rw [← he, hlen]; omega)]
        · intro hcons
          rw [← hf3] at hcons
          exact absurd hcons hc
        · rw [hx1, ← hf3]
          simp [hc]
        · rw [hx2, ← hf1]
          have : ¬ sz < v1.count := by omega
          simp [this]
    · rename_i hnlt
      split at hr
      · rename_i hgt
        split at hr
        · rename_i hd
          injection hr with hr; injection hr with h1 h2; subst h1; subst h2
          refine ⟨⟨by simp; omega, hi.none_cap, hi.bytes, hi.bytes_lt, hi.esz_pos, by simp; omega⟩,
                  rfl, hf2, hf3, hf4, ?_, ?_, ?_, ?_⟩
          · show (v1.elems.take sz).take _ = _
            rw [he, ← hf1, List.take_take]
            congr 1
            omega
          · intro _ i hi1 hi2
            omega
          · rw [ctorSlots_append, hx1, ctorSlots_destDown, ← hf1]
            have : ¬ v1.count < sz := by omega
            simp [this]
          · rw [dtorSlots_append, hx2, dtorSlots_destDown _ _ (by omega), ← hf1, ← hf4, hd]
            have e : v1.count - (v1.count - sz) = sz := by omega
            simp [hgt, e]
        · rename_i hd
          injection hr with hr; injection hr with h1 h2; subst h1; subst h2
          refine ⟨⟨by simp; omega, hi.none_cap, hi.bytes, hi.bytes_lt, hi.esz_pos, by simp; omega⟩,
                  rfl, hf2, hf3, hf4, ?_, ?_, ?_, ?_⟩
          · show (v1.elems.take sz).take _ = _
            rw [he, ← hf1, List.take_take]
            congr 1
            omega
          · intro _ i hi1 hi2
            omega
          · rw [hx1, ← hf1]
            have : ¬ v1.count < sz := by omega
            simp [this]
          · rw [hx2, ← hf4]
            simp [hd]
      · rename_i hngt
        injection hr with hr; injection hr with h1 h2; subst h1; subst h2
        have hceq : v1.count = sz := by omega
        refine ⟨hi, hceq, hf2, hf3, hf4, by rw [he], ?_, ?_, ?_⟩
        · intro _ i hi1 hi2; omega
        · rw [hx1, ← hf1]
          have : ¬ v1.count < sz := by omega
          simp [this]
        · rw [hx2, ← hf1]
          have : ¬ sz < v1.count := by omega
          simp [this]

/-- C09 invariant preservation by `resize` -/
theorem resize_inv {ans : Nat → Bool} {id : Nat} {v v' : Vector} {sz : Nat} {evs : List Ev}
    (h : Inv v) (hsz : sz < W) (hr : resize ans id v sz = .ok (v', evs)) : Inv v' ∧ v'.count = sz :=
  ⟨(resize_ok_spec h hsz hr).1, (resize_ok_spec h hsz hr).2.1⟩

/-- C09 `realloc_preserves_prefix`: whatever the allocator answers, a capacity
change keeps the value of every live element, and `resize` keeps every element
that stays in range (`i < min count sz`). -/
theorem realloc_preserves_prefix {ans : Nat → Bool} {id : Nat} {v : Vector} (h : Inv v) :
    (∀ sz, sz < W → (reserve ans id v sz).1.elems = v.elems) ∧
    (shrink ans id v).1.elems = v.elems ∧
    (∀ sz v' evs, sz < W → resize ans id v sz = .ok (v', evs) →
      ∀ i, i < v.count → i < sz → v'.elems[i]? = v.elems[i]?) := by
  refine ⟨fun sz hsz => reserve_elems h hsz, shrink_elems h, ?_⟩
  intro sz v' evs hsz hr i hi1 hi2
  have ht := (resize_ok_spec h hsz hr).2.2.2.2.2.1
  have : (v'.elems.take (min v.count sz))[i]? = (v.elems.take (min v.count sz))[i]? := by rw [ht]
  rw [List.getElem?_take_of_lt (by omega), List.getElem?_take_of_lt (by omega)] at this
  exact this

/-- C09 `ctor_dtor_once`: a successful `resize` calls the constructor exactly
once, in ascending order, on each slot entering `[0, count)` and on nothing
else, the destructor exactly once, in descending order, on each slot leaving
it; capacity changes call neither. -/
theorem ctor_dtor_once {ans : Nat → Bool} {id : Nat} {v v' : Vector} {sz : Nat} {evs : List Ev}
    (h : Inv v) (hsz : sz < W) (hr : resize ans id v sz = .ok (v', evs)) :
    ctorSlots evs = (if v.cons = true ∧ v.count < sz then List.range' v.count (sz - v.count) else []) ∧
    dtorSlots evs = (if v.dest = true ∧ sz < v.count then (List.range' sz (v.count - sz)).reverse else []) ∧
    (ctorSlots evs).Nodup ∧ (dtorSlots evs).Nodup := by
  obtain ⟨_, _, _, _, _, _, _, hc, hd⟩ := resize_ok_spec h hsz hr
  refine ⟨hc, hd, ?_, ?_⟩
  · rw [hc]; split
    · exact List.nodup_range'
    · exact List.nodup_nil
  · rw [hd]; split
    · exact (List.reverse_perm _).nodup_iff.mpr List.nodup_range'
    · exact List.nodup_nil

theorem capacity_change_no_xtor (ans : Nat → Bool) (id : Nat) (v : Vector) (sz : Nat) :
    ctorSlots (reserve ans id v sz).2 = [] ∧ dtorSlots (reserve ans id v sz).2 = [] ∧
    ctorSlots (shrink ans id v).2 = [] ∧ dtorSlots (shrink ans id v).2 = [] :=
  ⟨(reserve_noxtor ans id v sz).1, (reserve_noxtor ans id v sz).2,
   (shrink_noxtor ans id v).1, (shrink_noxtor ans id v).2⟩

/-- shrinking to zero never stops and never asks the allocator -/
theorem resize_zero {ans : Nat → Bool} {id : Nat} {v : Vector} (h : Inv v) :
    resize ans id v 0 =
      .ok ({ v with count := 0, elems := [] }, if v.dest = true then destDown v.count v.count else []) := by
  have hres : reserve ans id v 0 = (v, []) := by
    unfold reserve; rw [if_neg (by omega)]
  rw [resize_unfold, hres]
  dsimp only
  rw [if_neg (by omega), if_neg (by omega)]
  by_cases hc : v.count > 0
  · rw [if_pos hc]
    by_cases hd : v.dest = true <;> simp [hd]
  · rw [if_neg hc]
    have hc0 : v.count = 0 := by omega
    have hel : v.elems = [] := List.eq_nil_of_length_eq_zero (by rw [h.len, hc0])
    have hv : ({ v with count := 0, elems := [] } : Vector) = v := by
      cases v; simp at hc0 hel; simp [hc0, hel]
    rw [hv, hc0]
    by_cases hd : v.dest = true <;> simp [hd, destDown]

/-- the events of `clear` -/
def clearEvs (v : Vector) : List Ev :=
  (if v.dest = true then destDown v.count v.count else []) ++
    (match v.base with
     | none => []
     | some (b, _) => [Ev.free b])

/-- `clear`: never stops; destroys every live element exactly once (highest
slot first), frees the block exactly once, and returns to the initial state. -/
theorem clear_spec {v : Vector} (h : Inv v) :
    clear v = .ok ({ v with base := none, cap := 0, count := 0, elems := [] }, clearEvs v) ∧
      ctorSlots (clearEvs v) = [] ∧
      dtorSlots (clearEvs v) = (if v.dest = true then (List.range' 0 v.count).reverse else []) ∧
      (∀ id, Ev.free id ∈ clearEvs v ↔ ∃ n, v.base = some (id, n)) := by
  have hfr : ∀ (b : Option (Nat × Nat)),
      ctorSlots (match b with | none => [] | some (b, _) => [Ev.free b]) = [] ∧
      dtorSlots (match b with | none => [] | some (b, _) => [Ev.free b]) = [] := by
    intro b; cases b <;> exact ⟨rfl, rfl⟩
  have hnf : ∀ id k c, Ev.free id ∉ destDown k c := by
    intro id k
    induction k with
    | zero => intro c; simp [destDown]
    | succ k ih => intro c; simp [destDown, ih]
  refine ⟨?_, ?_, ?_, ?_⟩
  · unfold clear
    rw [resize_zero h]
    rfl
  · unfold clearEvs
    rw [ctorSlots_append, (hfr v.base).1]
    by_cases hd : v.dest = true <;> simp [hd, ctorSlots_destDown, ctorSlots]
  · unfold clearEvs
    rw [dtorSlots_append, (hfr v.base).2]
    by_cases hd : v.dest = true
    · simp [hd, dtorSlots_destDown]
    · simp [hd, dtorSlots]
  · intro id
    unfold clearEvs
    cases hb : v.base with
    | none => by_cases hd : v.dest = true <;> simp [hd, hnf]
    | some p =>
      obtain ⟨b, n⟩ := p
      by_cases hd : v.dest = true <;> simp [hd, hnf] <;> exact eq_comm

theorem clear_inv {v v' : Vector} {evs : List Ev} (h : Inv v) (hr : clear v = .ok (v', evs)) : Inv v' := by
  rw [(clear_spec h).1] at hr
  injection hr with hr; injection hr with h1 _
  subst h1
  exact ⟨Nat.le_refl _, fun _ => rfl, fun _ _ hb => by simp at hb, fun _ _ hb => by simp at hb, h.esz_pos, rfl⟩

/-- C09 `at_ok_iff`: `cstl_vector_at` aborts exactly when the index is at or
beyond `count`; otherwise the returned pointer is `base + i * esz` computed
without wrap-around and the whole element lies inside the block. -/
theorem at_ok_iff {v : Vector} (h : Inv v) (i : Nat) :
    (vat v i = .error .abort ↔ v.count ≤ i) ∧
    (i < v.count → vat v i = .ok (i * v.esz) ∧
       ∃ b n, v.base = some (b, n) ∧ i * v.esz + v.esz ≤ n ∧ n = (v.cap + 1) * v.esz) := by
  constructor
  · unfold vat
    constructor
    · intro h1
      split at h1
      · assumption
      · cases h1
    · intro h1; rw [if_pos h1]
  · intro hi
    have hcap : 0 < v.cap := by have := h.count_le_cap; omega
    cases hb : v.base with
    | none => have := h.none_cap hb; omega
    | some p =>
      obtain ⟨b, n⟩ := p
      have hn := h.bytes b n hb
      have hlt := h.bytes_lt b n hb
      have hle : (i + 1) * v.esz ≤ (v.cap + 1) * v.esz :=
        Nat.mul_le_mul_right _ (by have := h.count_le_cap; omega)
      have hexp : (i + 1) * v.esz = i * v.esz + v.esz := by rw [Nat.add_mul]; simp
      constructor
      · unfold vat
        rw [if_neg (by omega)]
        rw [mulW_of_lt (by omega)]
      · exact ⟨b, n, rfl, by omega, hn⟩

/-- reads and writes through the pointer of `cstl_vector_at` never leave the block -/
theorem vget_vset_safe {v : Vector} (h : Inv v) (i x : Nat) :
    (i < v.count → (∃ y, vget v i = .ok (i * v.esz, y) ∧ v.elems[i]? = some y) ∧
                   vset v i x = .ok { v with elems := v.elems.set i x }) ∧
    (v.count ≤ i → vget v i = .error .abort ∧ vset v i x = .error .abort) := by
  obtain ⟨ha, hb⟩ := at_ok_iff h i
  constructor
  · intro hi
    obtain ⟨hat, b, n, hbase, hoff, _⟩ := hb hi
    have hd : i * v.esz / v.esz = i := Nat.mul_div_cancel _ h.esz_pos
    constructor
    · have hlt : i < v.elems.length := by rw [h.len]; exact hi
      refine ⟨v.elems[i], ?_, List.getElem?_eq_getElem hlt⟩
      unfold vget
      rw [hat]
      simp only [hbase]
      rw [if_pos hoff, hd, List.getElem?_eq_getElem hlt]
    · unfold vset
      rw [hat]
      simp only [hbase]
      rw [if_pos hoff, hd]
  · intro hi
    have := ha.mpr hi
    unfold vget vset
    rw [this]
    exact ⟨rfl, rfl⟩

/-- sort and reverse permute the live elements and touch only the scratch
slot at index `cap`, which is inside the block -/
theorem scratch_in_block {v : Vector} (h : Inv v) (hc : 2 ≤ v.count) : scratchOk v = true := by
  have hcap : 0 < v.cap := by have := h.count_le_cap; omega
  unfold scratchOk
  cases hb : v.base with
  | none => have := h.none_cap hb; omega
  | some p =>
    obtain ⟨b, n⟩ := p
    have hn := h.bytes b n hb
    have hlt := h.bytes_lt b n hb
    have hexp : (v.cap + 1) * v.esz = v.cap * v.esz + v.esz := by rw [Nat.add_mul]; simp
    simp only
    rw [mulW_of_lt (by omega)]
    simp
    omega

theorem vreverse_spec {v : Vector} (h : Inv v) :
    ∃ v', vreverse v = .ok v' ∧ Inv v' ∧ v'.elems = v.elems.reverse ∧
      v'.base = v.base ∧ v'.cap = v.cap ∧ v'.count = v.count := by
  unfold vreverse
  by_cases hc : v.count ≥ 2
  · rw [if_pos hc, scratch_in_block h hc]
    refine ⟨_, rfl, ⟨h.count_le_cap, h.none_cap, h.bytes, h.bytes_lt, h.esz_pos, ?_⟩, rfl, rfl, rfl, rfl⟩
    simp [h.len]
  · rw [if_neg hc]
    refine ⟨v, rfl, h, ?_, rfl, rfl, rfl⟩
    have hl := h.len
    match hv : v.elems with
    | [] => rfl
    | [_] => rfl
    | _ :: _ :: _ => rw [hv] at hl; simp at hl; omega

theorem vsort_spec {v : Vector} (h : Inv v) :
    ∃ v', vsort v = .ok v' ∧ Inv v' ∧ v'.elems.Perm v.elems ∧
      v'.base = v.base ∧ v'.cap = v.cap ∧ v'.count = v.count := by
  unfold vsort
  by_cases hc : v.count ≥ 2
  · rw [if_pos hc, scratch_in_block h hc]
    refine ⟨_, rfl, ⟨h.count_le_cap, h.none_cap, h.bytes, h.bytes_lt, h.esz_pos, ?_⟩,
            sortVals_perm _, rfl, rfl, rfl⟩
    simp [sortVals_length, h.len]
  · rw [if_neg hc]
    exact ⟨v, rfl, h, List.Perm.refl _, rfl, rfl, rfl⟩

end Cstl.Vec
