import Cstl.Vec.PropsStr2
/-
C10, third part: at / clear / reserve / swap; find_ch, find_str and compare
equal the C-library model on the reference string's characters; the
history-level refinement theorem `run_refines`.
-/
namespace Cstl.Vec

/-! ### at, clear, reserve -/

/-- `cstl_STRING_at` aborts exactly when `i ≥ size`; otherwise the pointer is
`data + i` inside the block and the unit there is the reference string's -/
theorem strAt_spec {v : Vector} {s : List Nat} (h : StrRep v s) (i : Nat) :
    (s.length ≤ i → strAt v i = .error .abort) ∧
    (i < s.length → strAt v i = .ok (i * v.esz) ∧ v.elems[i]? = s[i]? ∧
       ∃ b n, v.base = some (b, n) ∧ i * v.esz + v.esz ≤ n) := by
  unfold strAt
  rw [h.size]
  constructor
  · intro hi; rw [if_pos hi]
  · intro hi
    rw [if_neg (by omega)]
    obtain ⟨t, het, _, hc⟩ := h.elems_eq
    have hic : i < v.count := by omega
    obtain ⟨hat, b, n, hb, hle, _⟩ := (at_ok_iff h.ok.inv i).2 hic
    unfold vat at hat
    rw [if_neg (by omega)] at hat
    injection hat with hat
    refine ⟨by rw [hat], ?_, b, n, hb, hle⟩
    rw [het, List.getElem?_append_left hi]

theorem strReserve_rep {ans : Nat → Bool} {id : Nat} {v : Vector} {s : List Nat} (h : StrRep v s) (n : Nat) :
    StrRep (strReserve ans id v n).1 s ∧ (strReserve ans id v n).1.esz = v.esz := by
  unfold strReserve
  have hsz : addW n 1 < W := Nat.mod_lt _ (by rw [W_eq]; omega)
  obtain ⟨hf1, hf2, hf3, hf4⟩ := reserve_frame ans id v (addW n 1)
  have he := reserve_elems (ans := ans) (id := id) h.ok.inv hsz
  refine ⟨⟨⟨reserve_inv h.ok.inv hsz, by rw [hf3]; exact h.ok.nocons, by rw [hf4]; exact h.ok.nodest⟩, ?_⟩, hf2⟩
  rcases h.rep with ⟨hc, hs⟩ | hel
  · exact Or.inl ⟨by rw [hf1]; exact hc, hs⟩
  · exact Or.inr (by rw [he]; exact hel)

theorem strClear_rep {v : Vector} {s : List Nat} (h : StrRep v s) :
    ∃ v' evs, clear v = .ok (v', evs) ∧ StrRep v' [] ∧ v'.esz = v.esz ∧ v'.base = none := by
  refine ⟨_, _, (clear_spec h.ok.inv).1, ⟨⟨?_, h.ok.nocons, h.ok.nodest⟩, Or.inl ⟨rfl, rfl⟩⟩, rfl, rfl⟩
  exact ⟨Nat.le_refl _, fun _ => rfl, fun _ _ hb => by simp at hb, fun _ _ hb => by simp at hb,
         h.ok.inv.esz_pos, rfl⟩

/-! ### what the C library sees -/

/-- the string holds a terminator to point at (always true after any edit;
false only between a `reserve` on an empty string and the first edit) -/
def Terminated (v : Vector) : Prop := v.base = none ∨ 0 < v.count

theorem takeWhile_append_stop {p : Nat → Bool} (xs : List Nat) {a : Nat} (ha : p a = false) (ys : List Nat) :
    (xs ++ a :: ys).takeWhile p = xs.takeWhile p := by
  induction xs with
  | nil => simp [List.takeWhile, ha]
  | cons x xs ih =>
    simp only [List.cons_append, List.takeWhile]
    cases p x <;> simp [ih]

/-- C10: `cstl_STRING_str(s) + pos` is a NUL-terminated C string whose
characters are those of the reference string from `pos` up to its first NUL -/
theorem cstrFrom_rep {v : Vector} {s : List Nat} (h : StrRep v s) (ht : Terminated v) {pos : Nat}
    (hp : pos ≤ s.length) : cstrFrom v pos = some ((s.drop pos).takeWhile (· != 0)) := by
  unfold cstrFrom
  cases hb : v.base with
  | none =>
    have hc : v.count = 0 := by
      have := h.ok.inv.none_cap hb; have := h.ok.inv.count_le_cap; omega
    have hs : s = [] := by
      rcases h.rep with ⟨_, hs⟩ | he
      · exact hs
      · have := h.ok.inv.len; rw [he, hc] at this; simp at this
    subst hs
    simp at hp
    subst hp
    simp
  | some p =>
    have hc : 0 < v.count := by
      rcases ht with ht | ht
      · rw [hb] at ht; cases ht
      · exact ht
    have he : v.elems = s ++ [0] := by
      rcases h.rep with ⟨hc0, _⟩ | he
      · omega
      · exact he
    simp only
    rw [he, List.drop_append_of_le_length hp]
    have hany : (s.drop pos ++ [0]).any (· == 0) = true := by simp
    rw [if_pos hany]
    congr 1
    exact takeWhile_append_stop _ (by simp) []

/-- the view never contains a NUL -/
theorem view_no_nul (xs : List Nat) : ∀ x ∈ xs.takeWhile (· != 0), x ≠ 0 := by
  induction xs with
  | nil => intro x hx; simp at hx
  | cons y ys ih =>
    intro x hx
    simp only [List.takeWhile] at hx
    by_cases hy : y = 0
    · simp [hy] at hx
    · have : (y != 0) = true := by simp [hy]
      rw [this] at hx
      rcases List.mem_cons.mp hx with rfl | hx
      · exact hy
      · exact ih x hx

/-! ### the C-library model satisfies the C standard's description -/

/-- `strchr`: the first occurrence of `c` in the string, the terminator being
part of the string (7.24.5.2) -/
theorem strchrM_spec (view : List Nat) (c : Nat) :
    (c = 0 → strchrM view c = some view.length) ∧
    (c ≠ 0 → (strchrM view c = none ↔ c ∉ view) ∧
       ∀ i, strchrM view c = some i → i < view.length ∧ view[i]? = some c ∧ ∀ j, j < i → view[j]? ≠ some c) := by
  unfold strchrM
  constructor
  · intro hc; rw [if_pos hc]
  · intro hc
    rw [if_neg hc]
    dsimp only
    constructor
    · constructor
      · intro hn
        split at hn
        · cases hn
        · rename_i hlt
          intro hmem
          have : view.findIdx (· == c) < view.length := List.findIdx_lt_length_of_exists ⟨c, hmem, by simp⟩
          exact hlt this
      · intro hn
        split
        · rename_i hlt
          have := List.findIdx_getElem (w := hlt)
          simp at this
          exact absurd (this ▸ List.getElem_mem hlt) hn
        · rfl
    · intro i hi
      split at hi
      · rename_i hlt
        injection hi with hi
        subst hi
        refine ⟨hlt, ?_, ?_⟩
        · have := List.findIdx_getElem (w := hlt)
          simp at this
          rw [List.getElem?_eq_getElem hlt, this]
        · intro j hj hjc
          have hjl : j < view.length := by omega
          have := List.not_of_lt_findIdx hj
          rw [List.getElem?_eq_getElem hjl] at hjc
          injection hjc with hjc
          simp [hjc] at this
      · cases hi

theorem isPrefix_iff (xs ys : List Nat) : isPrefix xs ys = true ↔ xs <+: ys := by
  induction xs generalizing ys with
  | nil => simp [isPrefix]
  | cons x xs ih =>
    cases ys with
    | nil => simp [isPrefix]
    | cons y ys =>
      simp only [isPrefix, Bool.and_eq_true, beq_iff_eq, ih, List.cons_prefix_cons]

/-- `strstr`: the first position where the needle occurs (7.24.5.7); an empty
needle matches at the start -/
theorem strstrM_spec (ndl hay : List Nat) :
    (∀ i, strstrM ndl hay = some i →
       i ≤ hay.length ∧ ndl <+: hay.drop i ∧ ∀ j, j < i → ¬ ndl <+: hay.drop j) ∧
    (strstrM ndl hay = none → ∀ j, j ≤ hay.length → ¬ ndl <+: hay.drop j) := by
  induction hay with
  | nil =>
    constructor
    · intro i hi
      unfold strstrM at hi
      split at hi
      · rename_i hp
        injection hi with hi; subst hi
        exact ⟨Nat.le_refl _, (isPrefix_iff _ _).mp hp, fun j hj => absurd hj (Nat.not_lt_zero _)⟩
      · cases hi
    · intro hn j hj
      unfold strstrM at hn
      split at hn
      · cases hn
      · rename_i hp
        have : j = 0 := by simpa using hj
        subst this
        intro hpre
        exact hp ((isPrefix_iff _ _).mpr hpre)
  | cons x t ih =>
    obtain ⟨ih1, ih2⟩ := ih
    constructor
    · intro i hi
      unfold strstrM at hi
      split at hi
      · rename_i hp
        injection hi with hi; subst hi
        exact ⟨Nat.zero_le _, (isPrefix_iff _ _).mp hp, fun j hj => absurd hj (Nat.not_lt_zero _)⟩
      · rename_i hp
        cases hr : strstrM ndl t with
        | none => rw [hr] at hi; cases hi
        | some k =>
          rw [hr] at hi
          injection hi with hi; subst hi
          obtain ⟨h1, h2, h3⟩ := ih1 k hr
          refine ⟨by simp; omega, by simpa using h2, ?_⟩
          intro j hj
          cases j with
          | zero => intro hpre; exact hp ((isPrefix_iff _ _).mpr (by simpa using hpre))
          | succ j => simpa using h3 j (by omega)
    · intro hn j hj
      unfold strstrM at hn
      split at hn
      · cases hn
      · rename_i hp
        cases hr : strstrM ndl t with
        | some k => rw [hr] at hn; cases hn
        | none =>
          cases j with
          | zero => intro hpre; exact hp ((isPrefix_iff _ _).mpr (by simpa using hpre))
          | succ j => simpa using ih2 hr j (by simpa using hj)

/-- `strcmp` / `wcscmp` (7.24.4.2): zero exactly for equal strings … -/
theorem strcmpM_eq_zero_iff (key : Nat → Int) (a b : List Nat) : strcmpM key a b = 0 ↔ a = b := by
  induction a generalizing b with
  | nil =>
    cases b with
    | nil => simp [strcmpM]
    | cons y ys =>
      simp only [strcmpM]
      split <;> simp
  | cons x xs ih =>
    cases b with
    | nil =>
      simp only [strcmpM]
      split <;> simp
    | cons y ys =>
      simp only [strcmpM]
      by_cases hxy : x = y
      · rw [if_pos hxy, ih]; simp [hxy]
      · rw [if_neg hxy]
        split <;> simp [hxy]

/-- … otherwise the sign is that of the difference of the first pair of units
that differ, the terminators included, in the C library's unit order `key` -/
theorem strcmpM_first_diff (key : Nat → Int) (p : List Nat) :
    ∀ (a b a' b' : List Nat) (x y : Nat), a ++ [0] = p ++ x :: a' → b ++ [0] = p ++ y :: b' → x ≠ y →
      strcmpM key a b = if key x < key y then -1 else 1 := by
  induction p with
  | nil =>
    intro a b a' b' x y ha hb hxy
    cases a with
    | nil =>
      simp at ha
      cases b with
      | nil => simp at hb; omega
      | cons y0 ys =>
        simp at hb
        simp only [strcmpM]
        rw [← ha.1, ← hb.1]
    | cons x0 xs =>
      simp at ha
      cases b with
      | nil =>
        simp at hb
        simp only [strcmpM]
        rw [← ha.1, ← hb.1]
      | cons y0 ys =>
        simp at hb
        simp only [strcmpM]
        rw [ha.1, hb.1, if_neg hxy]
  | cons c p ih =>
    intro a b a' b' x y ha hb hxy
    cases a with
    | nil => simp at ha
    | cons x0 xs =>
      cases b with
      | nil => simp at hb
      | cons y0 ys =>
        simp at ha hb
        simp only [strcmpM]
        rw [ha.1, hb.1, if_pos rfl]
        exact ih xs ys a' b' x y ha.2 hb.2 hxy

/-! ### find / compare of the string object = the C library on the reference string -/

/-- C10 `find_ch_eq_libc_model` -/
theorem findCh_eq_libc {v : Vector} {s : List Nat} (h : StrRep v s) (ht : Terminated v) (c pos : Nat) :
    (s.length ≤ pos → findCh v c pos = .error .abort) ∧
    (pos < s.length → findCh v c pos =
      .ok (match strchrM ((s.drop pos).takeWhile (· != 0)) c with
           | none => none
           | some i => if pos + i = s.length then none else some (pos + i))) := by
  unfold findCh
  rw [h.size]
  constructor
  · intro hp; rw [if_pos hp]
  · intro hp
    rw [if_neg (by omega), cstrFrom_rep h ht (by omega)]
    dsimp only
    cases strchrM ((s.drop pos).takeWhile (· != 0)) c with
    | none => rfl
    | some i =>
      dsimp only
      split <;> rfl

/-- C10 `find_str_eq_libc_model` (`ndl`: the caller's string up to its NUL) -/
theorem findStr_eq_libc {v : Vector} {s : List Nat} (h : StrRep v s) (ht : Terminated v) (ndl : List Nat)
    (pos : Nat) :
    (s.length ≤ pos → findStr v ndl pos = .error .abort) ∧
    (pos < s.length → findStr v ndl pos =
      .ok ((strstrM ndl ((s.drop pos).takeWhile (· != 0))).map (pos + ·))) := by
  unfold findStr
  rw [h.size]
  constructor
  · intro hp; rw [if_pos hp]
  · intro hp
    rw [if_neg (by omega), cstrFrom_rep h ht (by omega)]
    dsimp only
    cases strstrM ndl ((s.drop pos).takeWhile (· != 0)) <;> rfl

/-- C10 `compare_eq_libc_model` -/
theorem compareStr_eq_libc {v : Vector} {s : List Nat} (h : StrRep v s) (ht : Terminated v) (raw : List Nat) :
    compareStr v raw = .ok (strcmpM (unitKey v.esz) (s.takeWhile (· != 0)) raw) := by
  unfold compareStr
  rw [cstrFrom_rep h ht (Nat.zero_le _)]
  simp

/-- every edit leaves a terminator behind -/
theorem terminated_of_count {v : Vector} (h : 0 < v.count) : Terminated v := Or.inr h

theorem terminated_init (esz : Nat) : Terminated (Vector.init esz false false) := Or.inl rfl

end Cstl.Vec
