import Cstl.Vec.LemmasStr
/-
Property theorems for C10 — strings equal a reference string after every edit
and stay NUL-terminated.  A string object is a `Vector` of code units (`esz` =
1 narrow, 4 wide; the theorems hold for every `esz > 0`) without
constructor/destructor.  `StrRep v s` says that object `v` represents the
reference string `s : List Nat`: storage invariant of C09, and either nothing
is stored yet (`count = 0`, `s = []`) or the live slots are exactly `s`
followed by the NUL the object maintains.
-/
namespace Cstl.Vec

/-! ### growth -/

/-- can the vector reach capacity `need` with this allocator? -/
def canGrow (ans : Nat → Bool) (v : Vector) (need : Nat) : Prop :=
  need ≤ v.cap ∨ (ans ((need + 1) * v.esz) = true ∧ ¬ unrepresentable v.esz need)

theorem resize_ok_iff {ans : Nat → Bool} {id : Nat} {v : Vector} {sz : Nat} (h : Inv v) (hsz : sz < W) :
    (∃ v' evs, resize ans id v sz = .ok (v', evs)) ↔ canGrow ans v sz := by
  constructor
  · rintro ⟨v', evs, hr⟩
    apply Classical.byContradiction
    intro hn
    unfold canGrow at hn
    have hcap : v.cap < sz := by
      apply Nat.lt_of_not_le; intro hle; exact hn (Or.inl hle)
    have hf : ans ((sz + 1) * v.esz) = false ∨ unrepresentable v.esz sz := by
      by_cases hu : unrepresentable v.esz sz
      · exact Or.inr hu
      · left
        cases ha : ans ((sz + 1) * v.esz) with
        | false => rfl
        | true => exact absurd (Or.inr ⟨ha, hu⟩) hn
    rw [(resize_fail_abort (id := id) h hsz hcap hf).1] at hr
    cases hr
  · exact resize_ok_of_satisfiable h hsz

/-- a string object: storage invariant, no constructor / destructor -/
structure StrOK (v : Vector) : Prop where
  inv : Inv v
  nocons : v.cons = false
  nodest : v.dest = false

/-- the first `n` slots of a block that held `xs`, after growing/shrinking to `n` slots -/
def padTake (xs : List Nat) (n : Nat) : List Nat := xs.take n ++ List.replicate (n - xs.length) undefV

theorem padTo_take {xs : List Nat} {n m : Nat} (h : n ≤ m) : (padTo xs m).take n = padTake xs n := by
  unfold padTo padTake
  rw [List.take_append, List.take_replicate]
  congr 2
  omega

theorem padTake_length (xs : List Nat) (n : Nat) : (padTake xs n).length = n := by
  unfold padTake
  simp
  omega

/-- vector `resize` on an object without constructor/destructor -/
theorem resize_nox {ans : Nat → Bool} {id : Nat} {v v' : Vector} {sz : Nat} {evs : List Ev}
    (h : StrOK v) (hsz : sz < W) (hr : resize ans id v sz = .ok (v', evs)) :
    StrOK v' ∧ v'.count = sz ∧ v'.esz = v.esz ∧ v'.elems = padTake v.elems sz ∧
    ctorSlots evs = [] ∧ dtorSlots evs = [] := by
  obtain ⟨hi, hc, he, hcons, hdest, _, _, hcs, hds⟩ := resize_ok_spec h.inv hsz hr
  refine ⟨⟨hi, by rw [hcons, h.nocons], by rw [hdest, h.nodest]⟩, hc, he, ?_, ?_, ?_⟩
  · rw [resize_unfold] at hr
    have hel := reserve_elems (ans := ans) (id := id) h.inv hsz
    obtain ⟨hf1, _, hf3, hf4⟩ := reserve_frame ans id v sz
    generalize (reserve ans id v sz).1 = v1 at hr hel hf1 hf3 hf4
    generalize (reserve ans id v sz).2 = e1 at hr
    dsimp only at hr
    have hlen := h.inv.len
    rw [hf3, h.nocons, hf4, h.nodest] at hr
    unfold padTake
    split at hr
    · cases hr
    · split at hr
      · rename_i hlt
        simp only [Bool.false_eq_true, if_false] at hr
        injection hr with hr; injection hr with h1 _; subst h1
        show v1.elems ++ _ = _
        rw [hel, List.take_of_length_le (by omega)]
        congr 2
        omega
      · split at hr
        · rename_i hgt
          simp only [Bool.false_eq_true, if_false] at hr
          injection hr with hr; injection hr with h1 _; subst h1
          show v1.elems.take sz = _
          rw [hel]
          have : sz - v.elems.length = 0 := by omega
          simp [this]
        · injection hr with hr; injection hr with h1 _; subst h1
          rw [hel]
          have h0 : sz - v.elems.length = 0 := by omega
          rw [List.take_of_length_le (by omega), h0]
          simp
  · rw [hcs, h.nocons]; simp
  · rw [hds, h.nodest]; simp

/-! ### `__resize`: grow/shrink to `n` characters and write the terminator -/

theorem strResize0_error {ans : Nat → Bool} {id : Nat} {v : Vector} {n : Nat} {st : Stop}
    (h : StrOK v) (hn : n < W) (hr : strResize0 ans id v n = .error st) :
    st = .abort ∧ (n = SIZE_MAX ∨ ¬ canGrow ans v (n + 1)) := by
  unfold strResize0 at hr
  by_cases h0 : addW n 1 = 0
  · rw [if_pos h0] at hr
    injection hr with hr
    exact ⟨hr.symm, Or.inl ((addW_one_eq_zero_iff hn).mp h0)⟩
  · rw [if_neg h0, addW_one_of_ne_zero hn h0] at hr
    have hn1 : n + 1 < W := by
      have := (not_congr (addW_one_eq_zero_iff hn)).mp h0
      rw [W_eq] at *; rw [SIZE_MAX_eq] at this; omega
    cases hrz : resize ans id v (n + 1) with
    | error st' =>
      rw [hrz, andThen_error] at hr
      injection hr with hr; subst hr
      refine ⟨resize_error_is_abort hrz, Or.inr ?_⟩
      intro hcg
      obtain ⟨v', evs, hok⟩ := (resize_ok_iff (id := id) h.inv hn1).mpr hcg
      rw [hok] at hrz; cases hrz
    | ok p =>
      rw [hrz, andThen_ok] at hr
      have hrz' : resize ans id v (n + 1) = .ok (p.1, p.2) := hrz
      obtain ⟨hok1, hc1, _⟩ := resize_nox h hn1 hrz'
      rw [rawSet_in hok1.inv (by omega), andThen_ok] at hr
      cases hr

theorem strResize0_ok {ans : Nat → Bool} {id : Nat} {v v' : Vector} {n : Nat} {evs : List Ev}
    (h : StrOK v) (hn : n < W) (hr : strResize0 ans id v n = .ok (v', evs)) :
    StrOK v' ∧ v'.count = n + 1 ∧ v'.esz = v.esz ∧ v'.elems = padTake v.elems n ++ [0] ∧
    n ≠ SIZE_MAX ∧ canGrow ans v (n + 1) ∧ ctorSlots evs = [] ∧ dtorSlots evs = [] := by
  unfold strResize0 at hr
  by_cases h0 : addW n 1 = 0
  · rw [if_pos h0] at hr; cases hr
  · rw [if_neg h0, addW_one_of_ne_zero hn h0] at hr
    have hne : n ≠ SIZE_MAX := (not_congr (addW_one_eq_zero_iff hn)).mp h0
    have hn1 : n + 1 < W := by
      rw [W_eq] at *; rw [SIZE_MAX_eq] at hne; omega
    cases hrz : resize ans id v (n + 1) with
    | error st' => rw [hrz, andThen_error] at hr; cases hr
    | ok p =>
      rw [hrz, andThen_ok] at hr
      have hrz' : resize ans id v (n + 1) = .ok (p.1, p.2) := hrz
      obtain ⟨hok1, hc1, he1, hel1, hx1, hx2⟩ := resize_nox h hn1 hrz'
      rw [rawSet_in hok1.inv (by omega), andThen_ok] at hr
      injection hr with hr; injection hr with h1 h2; subst h1; subst h2
      have hcg : canGrow ans v (n + 1) := (resize_ok_iff (id := id) h.inv hn1).mp ⟨_, _, hrz'⟩
      have hl1 : p.1.elems.length = n + 1 := by rw [hok1.inv.len, hc1]
      refine ⟨⟨inv_with_elems hok1.inv (by rw [writeAt_length]; exact hok1.inv.len), hok1.nocons, hok1.nodest⟩,
              hc1, he1, ?_, hne, hcg, hx1, hx2⟩
      show writeAt p.1.elems n [0] = _
      rw [writeAt_in (by simp; omega)]
      have hd : p.1.elems.drop (n + 1) = [] := List.drop_eq_nil_of_le (by omega)
      simp only [List.length_singleton, hd, List.append_nil]
      rw [hel1, ← padTo_take (Nat.le_succ n), ← padTo_take (Nat.le_refl (n + 1)), List.take_take]
      congr 2
      omega

theorem strResize0_ok_iff {ans : Nat → Bool} {id : Nat} {v : Vector} {n : Nat} (h : StrOK v) (hn : n < W) :
    (∃ v' evs, strResize0 ans id v n = .ok (v', evs)) ↔ (n ≠ SIZE_MAX ∧ canGrow ans v (n + 1)) := by
  constructor
  · rintro ⟨v', evs, hr⟩
    obtain ⟨_, _, _, _, h1, h2, _⟩ := strResize0_ok h hn hr
    exact ⟨h1, h2⟩
  · rintro ⟨h1, h2⟩
    cases hr : strResize0 ans id v n with
    | ok p => exact ⟨p.1, p.2, rfl⟩
    | error st =>
      rcases (strResize0_error h hn hr).2 with h3 | h3
      · exact absurd h3 h1
      · exact absurd h2 h3

/-! ### representation of a reference string -/

structure StrRep (v : Vector) (s : List Nat) : Prop where
  ok : StrOK v
  rep : (v.count = 0 ∧ s = []) ∨ v.elems = s ++ [0]

theorem StrRep.size {v : Vector} {s : List Nat} (h : StrRep v s) : strSize v = s.length := by
  unfold strSize
  rcases h.rep with ⟨hc, hs⟩ | he
  · rw [hc, hs]; rfl
  · have := h.ok.inv.len
    rw [he] at this
    simp at this
    rw [← this]
    simp

/-- the live slots are `s` followed by at most the terminator -/
theorem StrRep.elems_eq {v : Vector} {s : List Nat} (h : StrRep v s) :
    ∃ t, v.elems = s ++ t ∧ t.length ≤ 1 ∧ v.count = s.length + t.length := by
  rcases h.rep with ⟨hc, hs⟩ | he
  · have hl := h.ok.inv.len
    have : v.elems = [] := List.eq_nil_of_length_eq_zero (by rw [hl, hc])
    exact ⟨[], by rw [this, hs]; rfl, by simp, by rw [hc, hs]; rfl⟩
  · have hl := h.ok.inv.len
    rw [he] at hl
    simp at hl
    exact ⟨[0], he, by simp, by rw [← hl]; simp⟩

/-- C10 `str_nul_terminated`: whenever something is stored, the slot at index
`size` holds NUL and the slots before it are the reference string -/
theorem str_nul_terminated {v : Vector} {s : List Nat} (h : StrRep v s) (hc : 0 < v.count) :
    v.elems[strSize v]? = some 0 ∧ v.elems.take (strSize v) = s ∧ v.count = strSize v + 1 := by
  rcases h.rep with ⟨hc0, _⟩ | he
  · omega
  · rw [h.size, he]
    have hl := h.ok.inv.len
    rw [he] at hl
    simp at hl
    refine ⟨by simp, by simp, by omega⟩

theorem strRep_init (esz : Nat) (h : 0 < esz) : StrRep (Vector.init esz false false) [] :=
  ⟨⟨inv_init esz false false h, rfl, rfl⟩, Or.inl ⟨rfl, rfl⟩⟩


theorem Inv.mul_lt_W {v : Vector} (h : Inv v) {k : Nat} (hk : k ≤ v.count) : k * v.esz < W := by
  cases hb : v.base with
  | none =>
    have := h.none_cap hb
    have := h.count_le_cap
    have : k = 0 := by omega
    subst this
    rw [W_eq]; omega
  | some p =>
    obtain ⟨b, n⟩ := p
    have hn := h.bytes b n hb
    have hlt := h.bytes_lt b n hb
    have hle : k * v.esz ≤ (v.cap + 1) * v.esz :=
      Nat.mul_le_mul_right _ (by have := h.count_le_cap; omega)
    omega

theorem subW_of_le {a b : Nat} (hb : b ≤ a) (ha : a < W) : subW a b = a - b := by
  unfold subW
  have hbW : b % W = b := Nat.mod_eq_of_lt (by omega)
  rw [hbW]
  have : a + W - b = (a - b) + W := by omega
  rw [this, Nat.add_mod_right, Nat.mod_eq_of_lt (by omega)]

theorem addW_of_lt {a b : Nat} (h : a + b < W) : addW a b = a + b := by
  unfold addW
  exact Nat.mod_eq_of_lt h

theorem StrRep.len_lt_W {v : Vector} {s : List Nat} (h : StrRep v s) : s.length < W := by
  obtain ⟨t, _, _, hc⟩ := h.elems_eq
  have := h.ok.inv.count_lt_W
  omega

/-- `padTake` of the live slots of a represented string -/
theorem padTake_rep_le {s t : List Nat} {n : Nat} (hn : n ≤ s.length) : padTake (s ++ t) n = s.take n := by
  unfold padTake
  rw [List.take_append_of_le_length hn]
  have : n - (s ++ t).length = 0 := by simp; omega
  rw [this]
  simp

theorem padTake_rep_gt {s t : List Nat} {n : Nat} (hn : s.length < n) (ht : t.length ≤ 1) :
    ∃ mid, padTake (s ++ t) n = s ++ mid ∧ mid.length = n - s.length := by
  refine ⟨t ++ List.replicate (n - (s ++ t).length) undefV, ?_, ?_⟩
  · unfold padTake
    rw [List.take_of_length_le (by simp; omega)]
    simp
  · simp
    omega

/-! ### public resize -/

/-- C10: `cstl_STRING_resize(n)` truncates to `n` characters or pads with NUL -/
theorem strResize_refines {ans : Nat → Bool} {id : Nat} {v v' : Vector} {s : List Nat} {n : Nat}
    {evs : List Ev} (h : StrRep v s) (hn : n < W) (hr : strResize ans id v n = .ok (v', evs)) :
    StrRep v' (s.take n ++ List.replicate (n - s.length) 0) ∧ v'.esz = v.esz ∧ 0 < v'.count := by
  unfold strResize at hr
  rw [h.size] at hr
  cases hr0 : strResize0 ans id v n with
  | error st => rw [hr0, andThen_error] at hr; cases hr
  | ok p =>
    rw [hr0, andThen_ok] at hr
    have hr0' : strResize0 ans id v n = .ok (p.1, p.2) := hr0
    obtain ⟨hok1, hc1, he1, hel1, _⟩ := strResize0_ok h.ok hn hr0'
    obtain ⟨t, het, htl, _⟩ := h.elems_eq
    rw [het] at hel1
    by_cases hle : n ≤ s.length
    · have h0 : n - s.length = 0 := by omega
      rw [h0] at hr
      simp only [fillLoop] at hr
      rw [andThen_ok] at hr
      injection hr with hr; injection hr with h1 _; subst h1
      refine ⟨⟨hok1, Or.inr ?_⟩, he1, by omega⟩
      rw [hel1, padTake_rep_le hle, h0]
      simp
    · obtain ⟨mid, hmid, hml⟩ := padTake_rep_gt (n := n) (s := s) (t := t) (by omega) htl
      rw [hmid] at hel1
      rw [fillLoop_in hok1.inv (n - s.length) hel1 hml, andThen_ok] at hr
      injection hr with hr; injection hr with h1 _; subst h1
      refine ⟨⟨⟨inv_with_elems hok1.inv ?_, hok1.nocons, hok1.nodest⟩, Or.inr ?_⟩, he1,
              by show 0 < p.1.count; omega⟩
      · simp; omega
      · show s ++ _ ++ [0] = _
        rw [List.take_of_length_le (by omega)]

theorem strResize_error {ans : Nat → Bool} {id : Nat} {v : Vector} {s : List Nat} {n : Nat} {st : Stop}
    (h : StrRep v s) (hn : n < W) (hr : strResize ans id v n = .error st) :
    st = .abort ∧ (n = SIZE_MAX ∨ ¬ canGrow ans v (n + 1)) := by
  unfold strResize at hr
  rw [h.size] at hr
  cases hr0 : strResize0 ans id v n with
  | error st' =>
    rw [hr0, andThen_error] at hr
    injection hr with hr; subst hr
    exact strResize0_error h.ok hn hr0
  | ok p =>
    exfalso
    rw [hr0, andThen_ok] at hr
    have hr0' : strResize0 ans id v n = .ok (p.1, p.2) := hr0
    obtain ⟨hok1, hc1, he1, hel1, _⟩ := strResize0_ok h.ok hn hr0'
    obtain ⟨t, het, htl, _⟩ := h.elems_eq
    rw [het] at hel1
    by_cases hle : n ≤ s.length
    · have h0 : n - s.length = 0 := by omega
      rw [h0] at hr
      simp only [fillLoop] at hr
      rw [andThen_ok] at hr
      cases hr
    · obtain ⟨mid, hmid, hml⟩ := padTake_rep_gt (n := n) (s := s) (t := t) (by omega) htl
      rw [hmid] at hel1
      rw [fillLoop_in hok1.inv (n - s.length) hel1 hml, andThen_ok] at hr
      cases hr

/-- C10 (resize): it succeeds exactly when `n + 1` is representable and the
storage for `n + 1` units can be obtained; otherwise it aborts -/
theorem strResize_ok_iff {ans : Nat → Bool} {id : Nat} {v : Vector} {s : List Nat} {n : Nat}
    (h : StrRep v s) (hn : n < W) :
    (∃ v' evs, strResize ans id v n = .ok (v', evs)) ↔ (n ≠ SIZE_MAX ∧ canGrow ans v (n + 1)) := by
  constructor
  · rintro ⟨v', evs, hr⟩
    unfold strResize at hr
    cases hr0 : strResize0 ans id v n with
    | error st => rw [hr0, andThen_error] at hr; cases hr
    | ok p =>
      have hr0' : strResize0 ans id v n = .ok (p.1, p.2) := hr0
      obtain ⟨_, _, _, _, h1, h2, _⟩ := strResize0_ok h.ok hn hr0'
      exact ⟨h1, h2⟩
  · rintro ⟨h1, h2⟩
    cases hr : strResize ans id v n with
    | ok p => exact ⟨p.1, p.2, rfl⟩
    | error st =>
      rcases (strResize_error h hn hr).2 with h3 | h3
      · exact absurd h3 h1
      · exact absurd h2 h3

/-! ### insertion -/

/-- the memmove of `prep_insert` after the string has been grown to `sl + len` characters -/
theorem prep_move {v v1 : Vector} {sl pos len : Nat} (h1 : Inv v1) (he : v1.esz = v.esz)
    (hc : v1.count = sl + len + 1) (hpos : pos ≤ sl) (hsl : sl < W) (hsum : sl + len < W) :
    rawMove v1 (addW pos len) pos (mulW (subW sl pos) v.esz) =
      .ok { v1 with elems := writeAt v1.elems (pos + len) (readAt v1.elems pos (sl - pos)) } := by
  have hk : mulW (subW sl pos) v.esz = (sl - pos) * v1.esz := by
    rw [subW_of_le hpos hsl, he]
    rw [← he]
    exact mulW_of_lt (h1.mul_lt_W (by omega))
  have hpl : addW pos len = pos + len := addW_of_lt (by omega)
  rw [hk, hpl, rawMove_in h1 (by omega) (by omega)]

/-- list algebra of that memmove: `xs = s ++ mid ++ [0]` with `len` slots of `mid` -/
theorem prep_move_list {s mid : List Nat} {pos : Nat} (hpos : pos ≤ s.length) :
    ∃ junk : List Nat, junk.length = mid.length ∧
      writeAt (s ++ mid ++ [0]) (pos + mid.length) (readAt (s ++ mid ++ [0]) pos (s.length - pos)) =
        s.take pos ++ junk ++ (s.drop pos ++ [0]) := by
  have hsplit : s ++ mid ++ [0] = s.take pos ++ s.drop pos ++ (mid ++ [0]) := by
    simp [List.take_append_drop]
  have hread : readAt (s ++ mid ++ [0]) pos (s.length - pos) = s.drop pos := by
    rw [hsplit]
    have h1 : pos = (s.take pos).length := by simp; omega
    have h2 : s.length - pos = (s.drop pos).length := by simp
    rw [h2]
    conv => lhs; arg 2; rw [h1]
    exact readAt_split
  rw [hread, writeAt_in (by simp; omega)]
  refine ⟨((s ++ mid ++ [0]).take (pos + mid.length)).drop pos, ?_, ?_⟩
  · simp; omega
  · have e1 : (s ++ mid ++ [0]).drop (pos + mid.length + (s.drop pos).length) = [0] := by
      have : pos + mid.length + (s.drop pos).length = (s ++ mid).length := by simp; omega
      rw [this, List.drop_left']
      rfl
    have e2 : (s ++ mid ++ [0]).take (pos + mid.length) =
        s.take pos ++ ((s ++ mid ++ [0]).take (pos + mid.length)).drop pos := by
      have : ((s ++ mid ++ [0]).take (pos + mid.length)).take pos = s.take pos := by
        rw [List.take_take]
        have : min pos (pos + mid.length) = pos := by omega
        rw [this, List.append_assoc, List.take_append_of_le_length hpos]
      rw [← this, List.take_append_drop]
    rw [e1]
    conv => lhs; rw [e2]
    simp

/-- the state `prep_insert` hands to its caller: the tail has been moved up by
`len`, the `len` slots at `pos` hold junk that the caller overwrites -/
theorem prepInsert_ok {ans : Nat → Bool} {id : Nat} {v v' : Vector} {s : List Nat} {pos len : Nat}
    {evs : List Ev} (h : StrRep v s) (hr : prepInsert ans id v pos len = .ok (v', evs)) :
    pos ≤ s.length ∧ StrOK v' ∧ v'.esz = v.esz ∧
    (len = 0 → v' = v) ∧
    (0 < len → s.length + len < SIZE_MAX ∧ canGrow ans v (s.length + len + 1) ∧
       v'.count = s.length + len + 1 ∧
       ∃ junk : List Nat, junk.length = len ∧ v'.elems = s.take pos ++ junk ++ (s.drop pos ++ [0])) := by
  unfold prepInsert at hr
  rw [h.size] at hr
  by_cases hp : pos > s.length
  · rw [if_pos hp] at hr; cases hr
  · rw [if_neg hp] at hr
    have hpos : pos ≤ s.length := by omega
    by_cases hl : len > 0
    · rw [if_pos hl] at hr
      by_cases hov : len > SIZE_MAX - s.length
      · rw [if_pos hov] at hr; cases hr
      · rw [if_neg hov] at hr
        have hsl := h.len_lt_W
        have hsum : s.length + len < W := by rw [W_eq] at *; rw [SIZE_MAX_eq] at hov; omega
        rw [addW_of_lt hsum] at hr
        cases hr0 : strResize0 ans id v (s.length + len) with
        | error st => rw [hr0, andThen_error] at hr; cases hr
        | ok p =>
          rw [hr0, andThen_ok] at hr
          have hr0' : strResize0 ans id v (s.length + len) = .ok (p.1, p.2) := hr0
          obtain ⟨hok1, hc1, he1, hel1, hne, hcg, _⟩ := strResize0_ok h.ok hsum hr0'
          obtain ⟨t, het, htl, _⟩ := h.elems_eq
          rw [het] at hel1
          obtain ⟨mid, hmid, hml⟩ := padTake_rep_gt (n := s.length + len) (s := s) (t := t) (by omega) htl
          rw [hmid] at hel1
          have hml' : mid.length = len := by omega
          rw [prep_move hok1.inv he1 hc1 hpos hsl hsum, andThen_ok] at hr
          injection hr with hr; injection hr with h1 _; subst h1
          refine ⟨hpos, ⟨inv_with_elems hok1.inv (by rw [writeAt_length]; exact hok1.inv.len),
                         hok1.nocons, hok1.nodest⟩, he1, by omega, ?_⟩
          intro _
          refine ⟨by rw [SIZE_MAX_eq] at *; rw [W_eq] at hsum; omega, hcg, hc1, ?_⟩
          obtain ⟨junk, hjl, hj⟩ := prep_move_list (s := s) (mid := mid) hpos
          refine ⟨junk, by omega, ?_⟩
          show writeAt p.1.elems (pos + len) (readAt p.1.elems pos (s.length - pos)) = _
          rw [hel1, ← hml', hj]
    · rw [if_neg hl] at hr
      injection hr with hr; injection hr with h1 _; subst h1
      exact ⟨hpos, h.ok, rfl, fun _ => rfl, fun h0 => absurd h0 hl⟩

theorem prepInsert_error {ans : Nat → Bool} {id : Nat} {v : Vector} {s : List Nat} {pos len : Nat}
    {st : Stop} (h : StrRep v s) (hr : prepInsert ans id v pos len = .error st) :
    st = .abort ∧ (s.length < pos ∨ (0 < len ∧ (SIZE_MAX ≤ s.length + len ∨ ¬ canGrow ans v (s.length + len + 1)))) := by
  unfold prepInsert at hr
  rw [h.size] at hr
  by_cases hp : pos > s.length
  · rw [if_pos hp] at hr
    injection hr with hr
    exact ⟨hr.symm, Or.inl hp⟩
  · rw [if_neg hp] at hr
    have hpos : pos ≤ s.length := by omega
    by_cases hl : len > 0
    · rw [if_pos hl] at hr
      by_cases hov : len > SIZE_MAX - s.length
      · rw [if_pos hov] at hr
        injection hr with hr
        exact ⟨hr.symm, Or.inr ⟨hl, by omega⟩⟩
      · rw [if_neg hov] at hr
        have hsl := h.len_lt_W
        have hsum : s.length + len < W := by rw [W_eq] at *; rw [SIZE_MAX_eq] at hov; omega
        rw [addW_of_lt hsum] at hr
        cases hr0 : strResize0 ans id v (s.length + len) with
        | error st' =>
          rw [hr0, andThen_error] at hr
          injection hr with hr; subst hr
          obtain ⟨h1, h2⟩ := strResize0_error h.ok hsum hr0
          refine ⟨h1, Or.inr ⟨hl, ?_⟩⟩
          rcases h2 with h2 | h2
          · left; omega
          · right; exact h2
        | ok p =>
          exfalso
          rw [hr0, andThen_ok] at hr
          have hr0' : strResize0 ans id v (s.length + len) = .ok (p.1, p.2) := hr0
          obtain ⟨hok1, hc1, he1, _⟩ := strResize0_ok h.ok hsum hr0'
          rw [prep_move hok1.inv he1 hc1 hpos hsl hsum, andThen_ok] at hr
          cases hr
    · rw [if_neg hl] at hr
      cases hr

end Cstl.Vec
