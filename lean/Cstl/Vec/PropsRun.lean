import Cstl.Vec.Props
/-
C09 at history level: two vectors sharing one allocator, any sequence of
reserve / shrink_to_fit / resize / clear / swap / sort / reverse / element
access, every requested size below 2^64, every sequence of allocator answers.
-/
namespace Cstl.Vec

/-- requested sizes are `size_t` values -/
def VOp.sizesOk : VOp → Prop
  | .reserve sz => sz < W
  | .resize sz => sz < W
  | _ => True

/-- the block of `v` is a live allocation of the ledger -/
def Owned (h : Heap) (v : Vector) : Prop :=
  ∀ id n, v.base = some (id, n) → id ∈ h.live ∧ id < h.next ∧ 0 < id

structure SysInv (s : Sys) : Prop where
  inva : Inv s.a
  invb : Inv s.b
  owna : Owned s.heap s.a
  ownb : Owned s.heap s.b
  disj : ∀ i n j m, s.a.base = some (i, n) → s.b.base = some (j, m) → i ≠ j
  next_pos : 0 < s.heap.next

theorem applyAll_append (h : Heap) (a b : List Ev) : h.applyAll (a ++ b) = (h.applyAll a).applyAll b := by
  unfold Heap.applyAll
  rw [List.foldl_append]

theorem applyAll_consUp (h : Heap) (k c : Nat) : h.applyAll (consUp k c) = h := by
  induction k generalizing c with
  | zero => rfl
  | succ k ih =>
    show (h.apply (.ctor c)).applyAll (consUp k (c + 1)) = h
    exact ih (c + 1)

theorem applyAll_destDown (h : Heap) (k c : Nat) : h.applyAll (destDown k c) = h := by
  induction k generalizing c with
  | zero => rfl
  | succ k ih =>
    show (h.apply (.dtor (c - 1))).applyAll (destDown k (c - 1)) = h
    exact ih (c - 1)

/-- effect of a capacity change on the ledger -/
inductive HeapEffect (id : Nat) (v v' : Vector) (evs : List Ev) : Prop where
  | none (hb : v'.base = v.base) (hh : ∀ hp : Heap, hp.applyAll evs = hp)
  | moved (n : Nat) (hb : v'.base = some (id, n))
      (hh : ∀ hp : Heap, hp.applyAll evs = hp.apply (.rOk (baseId v) id n))
  | freed (hb : v'.base = none)
      (hh : ∀ hp : Heap, hp.applyAll evs = match v.base with
        | Option.none => hp
        | some (b, _) => hp.apply (.free b))

theorem setCapacity_effect {ans : Nat → Bool} {id : Nat} {v : Vector} {sz : Nat}
    (h : Inv v) (hsz : sz < W) :
    HeapEffect id v (setCapacity ans id v sz).1 (setCapacity ans id v sz).2 := by
  rcases setCapacity_cases ans id v sz with ⟨h1, h2⟩ | ⟨hg, ha, h1, h2⟩
  · have hne : (setCapacity ans id v sz).2 ≠ [.rFree (baseId v)] := by
      intro hfr
      -- a zero-byte request is impossible: the guard let `(sz + 1) * esz ≥ esz > 0` through
      unfold setCapacity at hfr
      by_cases hg : addW sz 1 = 0 ∨ (v.esz ≠ 0 ∧ addW sz 1 > SIZE_MAX / v.esz)
      · rw [if_pos hg] at hfr; cases hfr
      · rw [if_neg hg] at hfr
        have hu := (not_congr (guard_iff (v := v) h.esz_pos hsz)).mp hg
        unfold unrepresentable at hu
        have hlt : (sz + 1) * v.esz < W := Nat.lt_of_not_le hu
        have hn0 : addW sz 1 ≠ 0 := fun h0 => hg (Or.inl h0)
        have hb : mulW (addW sz 1) v.esz = (sz + 1) * v.esz := by
          rw [addW_one_of_ne_zero hsz hn0, mulW_of_lt hlt]
        have hpos : (sz + 1) * v.esz ≠ 0 := Nat.ne_of_gt (Nat.mul_pos (by omega) h.esz_pos)
        dsimp only at hfr
        rw [hb] at hfr
        unfold reallocM at hfr
        cases hans : ans ((sz + 1) * v.esz) <;> simp [hans, hpos] at hfr
    refine .none (by rw [h1]) ?_
    intro hp
    rcases h2 with h2 | h2 | h2
    · rw [h2]; rfl
    · rw [h2]; rfl
    · exact absurd h2 hne
  · refine .moved _ (by rw [h1]) ?_
    intro hp
    rw [h2]; rfl

theorem vstepV_effect {ans : Nat → Bool} {id : Nat} {v v' : Vector} {op : VOp} {evs : List Ev}
    (h : Inv v) (hok : op.sizesOk) (hr : vstepV ans id v op = .ok (v', evs)) :
    Inv v' ∧ HeapEffect id v v' evs := by
  cases op with
  | reserve sz =>
    have hsz : sz < W := hok
    simp only [vstepV] at hr
    injection hr with hr
    have e1 : v' = (reserve ans id v sz).1 := by rw [hr]
    have e2 : evs = (reserve ans id v sz).2 := by rw [hr]
    subst e1; subst e2
    refine ⟨reserve_inv h hsz, ?_⟩
    unfold reserve
    split
    · exact setCapacity_effect h hsz
    · exact .none rfl (fun _ => rfl)
  | shrink =>
    simp only [vstepV] at hr
    injection hr with hr
    have e1 : v' = (shrink ans id v).1 := by rw [hr]
    have e2 : evs = (shrink ans id v).2 := by rw [hr]
    subst e1; subst e2
    refine ⟨shrink_inv h, ?_⟩
    unfold shrink
    split
    · exact setCapacity_effect h h.count_lt_W
    · exact .none rfl (fun _ => rfl)
  | resize sz =>
    have hsz : sz < W := hok
    simp only [vstepV] at hr
    refine ⟨(resize_inv h hsz hr).1, ?_⟩
    rw [resize_unfold] at hr
    have heff : HeapEffect id v (reserve ans id v sz).1 (reserve ans id v sz).2 := by
      unfold reserve
      split
      · exact setCapacity_effect h hsz
      · exact .none rfl (fun _ => rfl)
    generalize (reserve ans id v sz).1 = v1 at hr heff
    generalize (reserve ans id v sz).2 = e1 at hr heff
    dsimp only at hr
    have key : ∀ (w : Vector) (x : List Ev), w.base = v1.base → (∀ hp : Heap, hp.applyAll x = hp) →
        HeapEffect id v w (e1 ++ x) := by
      intro w x hwb hx
      cases heff with
      | none hb hh => exact .none (by rw [hwb, hb]) (fun hp => by rw [applyAll_append, hh, hx])
      | moved n hb hh => exact .moved n (by rw [hwb, hb]) (fun hp => by rw [applyAll_append, hh, hx])
      | freed hb hh => exact .freed (by rw [hwb, hb]) (fun hp => by rw [applyAll_append, hh, hx])
    have key0 : ∀ (w : Vector), w.base = v1.base → HeapEffect id v w e1 := by
      intro w hwb
      have := key w [] hwb (fun _ => rfl)
      simpa using this
    split at hr
    · cases hr
    · split at hr
      · split at hr
        · injection hr with hr; injection hr with h1 h2; subst h1; subst h2
          exact key _ _ rfl (fun hp => applyAll_consUp hp _ _)
        · injection hr with hr; injection hr with h1 h2; subst h1; subst h2
          exact key0 _ rfl
      · split at hr
        · split at hr
          · injection hr with hr; injection hr with h1 h2; subst h1; subst h2
            exact key _ _ rfl (fun hp => applyAll_destDown hp _ _)
          · injection hr with hr; injection hr with h1 h2; subst h1; subst h2
            exact key0 _ rfl
        · injection hr with hr; injection hr with h1 h2; subst h1; subst h2
          exact heff
  | clear =>
    simp only [vstepV] at hr
    refine ⟨clear_inv h hr, ?_⟩
    rw [(clear_spec h).1] at hr
    injection hr with hr; injection hr with h1 h2; subst h1; subst h2
    refine .freed rfl ?_
    intro hp
    unfold clearEvs
    rw [applyAll_append]
    have : hp.applyAll (if v.dest = true then destDown v.count v.count else []) = hp := by
      split
      · exact applyAll_destDown _ _ _
      · rfl
    rw [this]
    cases v.base with
    | none => rfl
    | some p => rfl
  | swap =>
    simp only [vstepV] at hr
    injection hr with hr; injection hr with h1 h2; subst h1; subst h2
    exact ⟨h, .none rfl (fun _ => rfl)⟩
  | sort =>
    obtain ⟨w, hw, hi, _, hb, _, _⟩ := vsort_spec h
    simp only [vstepV, hw] at hr
    injection hr with hr; injection hr with h1 h2; subst h1; subst h2
    exact ⟨hi, .none hb (fun _ => rfl)⟩
  | reverse =>
    obtain ⟨w, hw, hi, _, hb, _, _⟩ := vreverse_spec h
    simp only [vstepV, hw] at hr
    injection hr with hr; injection hr with h1 h2; subst h1; subst h2
    exact ⟨hi, .none hb (fun _ => rfl)⟩
  | set i x =>
    simp only [vstepV] at hr
    by_cases hi : i < v.count
    · rw [((vget_vset_safe h i x).1 hi).2] at hr
      injection hr with hr; injection hr with h1 h2; subst h1; subst h2
      exact ⟨⟨h.count_le_cap, h.none_cap, h.bytes, h.bytes_lt, h.esz_pos, by simp [h.len]⟩,
             .none rfl (fun _ => rfl)⟩
    · rw [((vget_vset_safe h i x).2 (by omega)).2] at hr
      cases hr
  | get i =>
    simp only [vstepV] at hr
    split at hr
    · cases hr
    · injection hr with hr; injection hr with h1 h2; subst h1; subst h2
      exact ⟨h, .none rfl (fun _ => rfl)⟩

/-- the only stop a vector operation can make is the documented abort -/
theorem vstepV_error {ans : Nat → Bool} {id : Nat} {v : Vector} {op : VOp} {st : Stop}
    (h : Inv v) (hr : vstepV ans id v op = .error st) : st = .abort := by
  cases op with
  | reserve sz => simp [vstepV] at hr
  | shrink => simp [vstepV] at hr
  | resize sz => exact resize_error_is_abort hr
  | clear =>
    simp only [vstepV] at hr
    rw [(clear_spec h).1] at hr; cases hr
  | swap => simp [vstepV] at hr
  | sort =>
    obtain ⟨w, hw, _⟩ := vsort_spec h
    simp [vstepV, hw] at hr
  | reverse =>
    obtain ⟨w, hw, _⟩ := vreverse_spec h
    simp [vstepV, hw] at hr
  | set i x =>
    simp only [vstepV] at hr
    by_cases hi : i < v.count
    · rw [((vget_vset_safe h i x).1 hi).2] at hr; cases hr
    · rw [((vget_vset_safe h i x).2 (by omega)).2] at hr
      injection hr with hr; exact hr.symm
  | get i =>
    simp only [vstepV] at hr
    by_cases hi : i < v.count
    · obtain ⟨y, hy, _⟩ := ((vget_vset_safe h i 0).1 hi).1
      rw [hy] at hr; cases hr
    · rw [((vget_vset_safe h i 0).2 (by omega)).1] at hr
      injection hr with hr; exact hr.symm

/-- ledger bookkeeping shared by both vectors: the vector that was operated
on (`v → v'`) and the bystander `o` -/
theorem owned_after {hp : Heap} {v v' o : Vector} {evs : List Ev}
    (hv : Owned hp v) (ho : Owned hp o) (hpos : 0 < hp.next)
    (hd : ∀ i n j m, v.base = some (i, n) → o.base = some (j, m) → i ≠ j)
    (he : HeapEffect hp.next v v' evs) :
    Owned (hp.applyAll evs) v' ∧ Owned (hp.applyAll evs) o ∧ 0 < (hp.applyAll evs).next ∧
    (∀ i n j m, v'.base = some (i, n) → o.base = some (j, m) → i ≠ j) := by
  cases he with
  | none hb hh =>
    rw [hh]
    refine ⟨?_, ho, hpos, ?_⟩
    · intro id n h1; rw [hb] at h1; exact hv id n h1
    · intro i n j m h1; rw [hb] at h1; exact hd i n j m h1
  | moved n hb hh =>
    rw [hh]
    refine ⟨?_, ?_, ?_, ?_⟩
    · intro id m h1
      rw [hb] at h1
      injection h1 with h1; injection h1 with h1 _; subst h1
      simp [Heap.apply]
      omega
    · intro j m h1
      obtain ⟨hm, hlt, hp0⟩ := ho j m h1
      have hne : j ≠ baseId v := by
        unfold baseId
        cases hvb : v.base with
        | none => simp; omega
        | some p => obtain ⟨i, k⟩ := p; simp; exact fun e => hd i k j m hvb h1 e.symm
      simp [Heap.apply]
      refine ⟨Or.inl ((List.mem_erase_of_ne hne).mpr hm), by omega, hp0⟩
    · simp [Heap.apply]
    · intro i k j m h1 h2
      rw [hb] at h1
      injection h1 with h1; injection h1 with h1 _; subst h1
      have := (ho j m h2).2.1
      omega
  | freed hb hh =>
    rw [hh]
    refine ⟨?_, ?_, ?_, ?_⟩
    · intro id n h1; rw [hb] at h1; cases h1
    · intro j m h1
      obtain ⟨hm, hlt, hp0⟩ := ho j m h1
      cases hvb : v.base with
      | none => exact ⟨hm, hlt, hp0⟩
      | some p =>
        obtain ⟨i, k⟩ := p
        have hne : j ≠ i := fun e => hd i k j m hvb h1 e.symm
        simp [Heap.apply]
        exact ⟨(List.mem_erase_of_ne hne).mpr hm, hlt, hp0⟩
    · cases hvb : v.base with
      | none => exact hpos
      | some p => obtain ⟨i, k⟩ := p; exact hpos
    · intro i n j m h1; rw [hb] at h1; cases h1

/-- one step of the system keeps the system invariant; it can only stop with
the documented abort -/
theorem step_inv {s s' : Sys} {w : Bool} {op : VOp} {ans : Nat → Bool}
    (h : SysInv s) (hok : op.sizesOk) (hr : s.step w op ans = .ok s') : SysInv s' := by
  unfold Sys.step at hr
  by_cases hsw : op = .swap
  · subst hsw
    simp only [vswap] at hr
    injection hr with hr; subst hr
    exact ⟨h.invb, h.inva, h.ownb, h.owna, fun i n j m h1 h2 => (h.disj j m i n h2 h1).symm, h.next_pos⟩
  · have hr' : (match vstepV ans s.heap.next (s.sel w) op with
        | .error st => Except.error st
        | .ok (v, evs) => .ok (s.put w v (s.heap.applyAll evs))) = .ok s' := by
      cases op <;> first | exact absurd rfl hsw | exact hr
    cases hv : vstepV ans s.heap.next (s.sel w) op with
    | error st => rw [hv] at hr'; cases hr'
    | ok p =>
      obtain ⟨v', evs⟩ := p
      rw [hv] at hr'
      injection hr' with hr'; subst hr'
      cases w with
      | false =>
        have hsel : s.sel false = s.a := rfl
        rw [hsel] at hv
        obtain ⟨hi, he⟩ := vstepV_effect h.inva hok hv
        obtain ⟨o1, o2, o3, o4⟩ := owned_after h.owna h.ownb h.next_pos h.disj he
        exact ⟨hi, h.invb, o1, o2, o4, o3⟩
      | true =>
        have hsel : s.sel true = s.b := rfl
        rw [hsel] at hv
        obtain ⟨hi, he⟩ := vstepV_effect h.invb hok hv
        obtain ⟨o1, o2, o3, o4⟩ := owned_after h.ownb h.owna h.next_pos
          (fun i n j m h1 h2 => (h.disj j m i n h2 h1).symm) he
        exact ⟨h.inva, hi, o2, o1, fun i n j m h1 h2 => (o4 j m i n h2 h1).symm, o3⟩

theorem step_error {s : Sys} {w : Bool} {op : VOp} {ans : Nat → Bool} {st : Stop}
    (h : SysInv s) (hr : s.step w op ans = .error st) : st = .abort := by
  unfold Sys.step at hr
  by_cases hsw : op = .swap
  · subst hsw; cases hr
  · have hr' : (match vstepV ans s.heap.next (s.sel w) op with
        | .error st => Except.error st
        | .ok (v, evs) => .ok (s.put w v (s.heap.applyAll evs))) = .error st := by
      cases op <;> first | exact absurd rfl hsw | exact hr
    cases hv : vstepV ans s.heap.next (s.sel w) op with
    | ok p => rw [hv] at hr'; cases hr'
    | error st' =>
      rw [hv] at hr'
      injection hr' with hr'; subst hr'
      cases w with
      | false => exact vstepV_error h.inva hv
      | true => exact vstepV_error h.invb hv

/-- **C09, every history.**  From any state satisfying the invariant (in
particular two freshly initialised vectors), for every operation sequence,
every choice of vector, every requested size below 2^64 and every sequence of
allocator answers: if the run completes the invariant holds in the final state
— size ≤ capacity, and a live block of exactly `(capacity + 1) * esz` bytes
(no wrap) owned by that vector alone — and if it stops it stops with the
documented abort, never with an access outside storage. -/
theorem run_inv {s : Sys} (h : SysInv s) (ops : List (Bool × VOp × (Nat → Bool)))
    (hok : ∀ x ∈ ops, x.2.1.sizesOk) :
    (∀ s', s.run ops = .ok s' → SysInv s') ∧ (∀ st, s.run ops = .error st → st = .abort) := by
  induction ops generalizing s with
  | nil =>
    constructor
    · intro s' hr; simp [Sys.run] at hr; subst hr; exact h
    · intro st hr; simp [Sys.run] at hr
  | cons x rest ih =>
    obtain ⟨w, op, ans⟩ := x
    have hop : op.sizesOk := hok (w, op, ans) (by simp)
    have hrest : ∀ x ∈ rest, x.2.1.sizesOk := fun x hx => hok x (by simp [hx])
    unfold Sys.run
    cases hs : s.step w op ans with
    | error st =>
      constructor
      · intro s' hr; cases hr
      · intro st' hr
        injection hr with hr; subst hr
        exact step_error h hs
    | ok s1 =>
      exact ih (step_inv h hop hs) hrest

theorem sysInv_init (e1 e2 : Nat) (c1 d1 c2 d2 : Bool) (h1 : 0 < e1) (h2 : 0 < e2) :
    SysInv { a := Vector.init e1 c1 d1, b := Vector.init e2 c2 d2, heap := Heap.init } :=
  ⟨inv_init e1 c1 d1 h1, inv_init e2 c2 d2 h2,
   fun _ _ hb => by simp [Vector.init] at hb, fun _ _ hb => by simp [Vector.init] at hb,
   fun _ _ _ _ hb => by simp [Vector.init] at hb, by simp [Heap.init]⟩

/-- every reachable state: the statement of `run_inv` from two fresh vectors -/
theorem run_inv_from_init (e1 e2 : Nat) (c1 d1 c2 d2 : Bool) (h1 : 0 < e1) (h2 : 0 < e2)
    (ops : List (Bool × VOp × (Nat → Bool))) (hok : ∀ x ∈ ops, x.2.1.sizesOk) :
    let s0 : Sys := { a := Vector.init e1 c1 d1, b := Vector.init e2 c2 d2, heap := Heap.init }
    (∀ s', s0.run ops = .ok s' → SysInv s') ∧ (∀ st, s0.run ops = .error st → st = .abort) :=
  run_inv (sysInv_init e1 e2 c1 d1 c2 d2 h1 h2) ops hok

end Cstl.Vec

namespace Cstl.Vec

/-! ### non-vacuity: the hypotheses hold on concrete non-trivial states -/

/-- a vector of three 4-byte elements, capacity 5, in a 24-byte block -/
def exV : Vector :=
  { base := some (7, 24), esz := 4, count := 3, cap := 5, cons := true, dest := true, elems := [1, 2, 3] }

theorem exV_inv : Inv exV :=
  ⟨by decide, by simp [exV], by simp [exV], by simp [exV, W_eq], by decide, rfl⟩

/-- `reserve(SIZE_MAX)` and `reserve(2^62)` (4-byte elements) are no-ops that do not
even ask the allocator (the witnesses of defect #5), whatever it would answer -/
example : reserve (fun _ => true) 9 exV SIZE_MAX = (exV, []) := by decide
example : reserve (fun _ => true) 9 exV (2 ^ 62) = (exV, []) := by decide
example : unrepresentable exV.esz (2 ^ 62) := by unfold unrepresentable; decide
/-- a representable growth commits completely -/
example : (reserve (fun _ => true) 9 exV 9).1 =
    { exV with base := some (9, 40), cap := 9 } := by decide
/-- a refused growth is a no-op for reserve and an abort for resize -/
example : reserve (fun _ => false) 9 exV 9 = (exV, [.rFail 7 40]) := by decide
example : resize (fun _ => false) 9 exV 9 = .error .abort := by rfl
/-- constructor upward / destructor downward, once per slot -/
example : resize (fun _ => true) 9 exV 7 =
    .ok ({ exV with base := some (9, 32), cap := 7, count := 7, elems := [1, 2, 3, 192, 192, 192, 192] },
         [.rOk 7 9 32, .ctor 3, .ctor 4, .ctor 5, .ctor 6]) := by rfl
example : resize (fun _ => true) 9 exV 1 =
    .ok ({ exV with count := 1, elems := [1] }, [.dtor 2, .dtor 1]) := by rfl
example : vat exV 2 = .ok 8 ∧ vat exV 3 = .error .abort := ⟨by rfl, by rfl⟩
/-- a history from two fresh vectors that grows, is refused, shrinks, swaps and clears -/
example :
    ∃ s', ({ a := Vector.init 4 true true, b := Vector.init 16 false false, heap := Heap.init } : Sys).run
      [(false, .resize 3, fun _ => true), (true, .reserve 5, fun _ => true),
       (false, .reserve SIZE_MAX, fun _ => true), (false, .reserve 100, fun _ => false),
       (false, .set 1 77, fun _ => true), (false, .swap, fun _ => true),
       (true, .resize 1, fun _ => true), (true, .shrink, fun _ => true), (false, .clear, fun _ => true)]
      = .ok s' ∧ s'.b.elems = [192] ∧ s'.b.cap = 1 ∧ s'.a.base = none ∧ s'.heap.live = [3] := by
  refine ⟨_, rfl, ?_⟩
  decide

/-! ### the pinned code violates the invariant (defect #5) -/

/-- `cstl_vector_set_capacity` as it was before the repair: `(sz + 1) * size`
computed in `size_t` and handed to `realloc` unchecked -/
def setCapacityPinned (ans : Nat → Bool) (newId : Nat) (v : Vector) (sz : Nat) : Vector × List Ev :=
  let bytes := mulW (addW sz 1) v.esz
  match reallocM ans newId v.base bytes with
  | .fail => (v, [.rFail (baseId v) bytes])
  | .freed => (v, [.rFree (baseId v)])
  | .moved id n =>
    ({ v with base := some (id, n), cap := sz, elems := copyInto v.elems v.esz (baseBytes v) n },
     [.rOk (baseId v) id n])

/-- on the pinned code the invariant is false after `reserve(SIZE_MAX)` on an
empty vector (capacity 2^64-1 over a 0-byte block) and after `reserve(2^62)`
with 4-byte elements (4 bytes) -/
theorem pinned_breaks_inv :
    ¬ Inv (setCapacityPinned (fun _ => true) 1 (Vector.init 4 false false) SIZE_MAX).1 ∧
    ¬ Inv (setCapacityPinned (fun _ => true) 1 (Vector.init 4 false false) (2 ^ 62)).1 := by
  constructor
  · intro h
    have := h.bytes 1 0 (by decide)
    revert this; decide
  · intro h
    have := h.bytes 1 4 (by decide)
    revert this; decide

end Cstl.Vec
