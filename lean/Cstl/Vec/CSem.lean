import Cstl.Vec.Model
/-
Vocabulary of the C-to-Lean translation of src/vector.c and src/_string.c
(tools/c2lean_vec.py; generated file Cstl/Gen/VecC.lean, ties Cstl/Vec/Tie.lean).

The translator turns the *integer and control skeleton* of the C functions into
Lean: every `size_t` operation becomes `addW` / `subW` / `mulW` (the model's
explicit `% 2^64`), comparisons and `SIZE_MAX` are literal, `abort()` is
`.error .abort`.  What the C code does to memory and through callbacks is not
re-modelled there; it is expressed by the primitive steps below, which are the
model's own operations re-stated on *byte offsets* (so that the offset
computation `i * size` stays on the translated side) together with `…_eq`
lemmas, proved by `rfl`, showing that the model's index-level operations are
these steps at offset `mulW i esz`.

Hand-written and fixed; only Cstl.Vec.Model is imported (core Lean).
-/
namespace Cstl.Vec

/-! ### realloc / free on `elem.base` -/

/-- `e != NULL` for the value `e` returned by `realloc` -/
def RRes.isBlock : RRes → Bool
  | .moved _ _ => true
  | _ => false

/-- the event the interposer logs for `e = realloc(v->elem.base, bytes)` -/
def reallocEv (v : Vector) (bytes : Nat) : RRes → Ev
  | .fail => .rFail (baseId v) bytes
  | .freed => .rFree (baseId v)
  | .moved id n => .rOk (baseId v) id n

/-- `v->elem.base = e` for a block `e` returned by `realloc(v->elem.base, …)`:
the new block holds what `realloc` copied -/
def setBase (v : Vector) : RRes → Vector
  | .moved id n => { v with base := some (id, n), elems := copyInto v.elems v.esz (baseBytes v) n }
  | _ => v

/-- `v->elem.base = NULL` -/
def clearBase (v : Vector) : Vector := { v with base := none }

/-- `free(v->elem.base)` (`free(NULL)` is a no-op) -/
def freeEv (v : Vector) : List Ev :=
  match v.base with
  | none => []
  | some (b, _) => [Ev.free b]

/-! ### `count`, constructor / destructor callbacks -/

/-- `v->count = n`: `elems` are the values of the live slots `[0, count)`; a
slot that becomes live without having been written holds `undefV` -/
def setCount (v : Vector) (n : Nat) : Vector :=
  if v.count < n then { v with count := n, elems := v.elems ++ List.replicate (n - v.count) undefV }
  else if v.count > n then { v with count := n, elems := v.elems.take n }
  else v

/-- a value of type `cstl_xtor_func_t *` -/
inductive FnPtr where
  | null | cons | dest
deriving DecidableEq, Repr

/-- `v->elem.xtor.cons` -/
def consPtr (v : Vector) : FnPtr := if v.cons then .cons else .null
/-- `v->elem.xtor.dest` -/
def destPtr (v : Vector) : FnPtr := if v.dest then .dest else .null

/-- `f(__cstl_vector_at(v, i), priv)`: the callback is invoked on the address
of slot `i` (calling through NULL is a crash) -/
def callX (f : FnPtr) (v : Vector) (i : Nat) : Except Stop (Vector × List Ev) :=
  match f with
  | .null => .error .nullDeref
  | .cons => .ok ({ v with elems := v.elems.set i ctorV }, [Ev.ctor i])
  | .dest => .ok (v, [Ev.dtor i])

/-! ### raw accesses at a byte offset from `elem.base` -/

/-- `*(T *)(base + off) = x` -/
def storeOff (v : Vector) (off x : Nat) : Except Stop Vector :=
  match v.base with
  | none => .error .nullDeref
  | some (_, n) =>
    if off + v.esz ≤ n then .ok { v with elems := writeAt v.elems (off / v.esz) [x] }
    else .error .oob

/-- `memmove(base + dO, base + so, bytes)` -/
def moveOff (v : Vector) (dO so bytes : Nat) : Except Stop Vector :=
  if bytes = 0 then .ok v
  else match v.base with
    | none => .error .nullDeref
    | some (_, n) =>
      if so + bytes ≤ n ∧ dO + bytes ≤ n then
        .ok { v with elems := writeAt v.elems (dO / v.esz) (readAt v.elems (so / v.esz) (bytes / v.esz)) }
      else .error .oob

/-- the source operand of `memcpy(…, base + so, bytes)` -/
def readOff (v : Vector) (so bytes : Nat) : Except Stop (List Nat) :=
  if bytes = 0 then .ok []
  else match v.base with
    | none => .error .nullDeref
    | some (_, n) =>
      if so + bytes ≤ n then .ok (readAt v.elems (so / v.esz) (bytes / v.esz))
      else .error .oob

/-- `memcpy(base + dO, src, bytes)` from an array `src` -/
def writeOff (v : Vector) (dO : Nat) (src : List Nat) (bytes : Nat) : Except Stop Vector :=
  if bytes = 0 then .ok v
  else match v.base with
    | none => .error .nullDeref
    | some (_, n) =>
      let k := bytes / v.esz
      if k > src.length then .error .oob
      else if dO + bytes ≤ n then .ok { v with elems := writeAt v.elems (dO / v.esz) (src.take k) }
      else .error .oob

theorem rawSet_eq (v : Vector) (i x : Nat) : rawSet v i x = storeOff v (mulW i v.esz) x := rfl
theorem rawMove_eq (v : Vector) (dst src bytes : Nat) :
    rawMove v dst src bytes = moveOff v (mulW dst v.esz) (mulW src v.esz) bytes := rfl
theorem rawRead_eq (v : Vector) (idx bytes : Nat) : rawRead v idx bytes = readOff v (mulW idx v.esz) bytes := rfl
theorem rawWrite_eq (v : Vector) (idx : Nat) (src : List Nat) (bytes : Nat) :
    rawWrite v idx src bytes = writeOff v (mulW idx v.esz) src bytes := rfl

/-! ### sequencing for translated functions that contain a loop

Such a function takes `fuel`; `none` = the fuel ran out before a loop ended. -/

def bindF {α β : Type} (x : Option (Except Stop α)) (f : α → Option (Except Stop β)) :
    Option (Except Stop β) :=
  match x with
  | none => none
  | some (.error s) => some (.error s)
  | some (.ok a) => f a

theorem bindF_some_ok {α β : Type} (a : α) (f : α → Option (Except Stop β)) :
    bindF (some (.ok a)) f = f a := rfl
theorem bindF_some_error {α β : Type} (s : Stop) (f : α → Option (Except Stop β)) :
    bindF (some (.error s : Except Stop α)) f = some (.error s) := rfl
theorem bindF_none {α β : Type} (f : α → Option (Except Stop β)) :
    bindF (none : Option (Except Stop α)) f = none := rfl

/-- a step that cannot run out of fuel, followed by the rest -/
theorem bindF_some {α β : Type} (x : Except Stop α) (f : α → Option (Except Stop β))
    (g : α → Except Stop β) (h : ∀ a, f a = some (g a)) :
    bindF (some x) f = some (andThen x g) := by
  cases x with
  | error s => rfl
  | ok a => exact h a

end Cstl.Vec
