/-
Model of src/vector.c and of the string template src/_string.c built on it
(narrow `cstl_string`, wide `cstl_wstring`), as repaired by the `fix:` commits
for defects #5, #6, #7 (DESIGN section 5).

* `size_t` is `Nat` reduced mod 2^64 with `addW`/`subW`/`mulW` exactly where the
  C code computes in `size_t` (byte counts, `n + 1`, `size + len`, pointer
  offsets).
* `realloc` is a parameter: `ans bytes` says whether a request of `bytes` bytes
  succeeds, `newId` is the block id a successful request returns.  The observed
  glibc behaviour is modelled: `realloc(p, 0)` with `p ≠ NULL` frees `p` and
  returns NULL, `realloc(NULL, 0)` returns a (minimal) block.
* a vector's storage is one block `(id, bytes)`; `elems` are the element values
  of the slots `[0, count)` (a slot that was never written holds `undefV`).
  Every raw access of the string layer is checked against the block
  (`nullDeref` / `oob` instead of a silent access).
* every realloc request, `free`, constructor and destructor call is appended to
  an event list, in program order.
-/
namespace Cstl.Vec

def W : Nat := 2 ^ 64
def SIZE_MAX : Nat := 2 ^ 64 - 1

def addW (a b : Nat) : Nat := (a + b) % W
def subW (a b : Nat) : Nat := (a + W - b % W) % W
def mulW (a b : Nat) : Nat := (a * b) % W

/-- value of a slot nobody has written yet -/
def undefV : Nat := 238
/-- value the constructor callback stores -/
def ctorV : Nat := 192

inductive Stop where
  | abort       -- documented fail-stop (SIGABRT)
  | nullDeref   -- the C code would access memory through NULL (+ offset)
  | oob         -- the C code would access memory outside the object's block
deriving DecidableEq, Repr, Inhabited

inductive Ev where
  | rOk (old new bytes : Nat)   -- realloc(old, bytes) returned block `new` (`old = 0`: NULL)
  | rFail (old bytes : Nat)     -- realloc(old, bytes) returned NULL, `old` untouched
  | rFree (old : Nat)           -- realloc(old, 0), old ≠ NULL: `old` freed, NULL returned
  | free (id : Nat)
  | ctor (slot : Nat)
  | dtor (slot : Nat)
deriving DecidableEq, Repr, Inhabited

/-- `struct cstl_vector` (+ the values stored in its live slots) -/
structure Vector where
  base : Option (Nat × Nat)     -- elem.base: (block id, size of the block in bytes)
  esz : Nat                     -- elem.size
  count : Nat
  cap : Nat
  cons : Bool                   -- elem.xtor.cons ≠ NULL
  dest : Bool                   -- elem.xtor.dest ≠ NULL
  elems : List Nat
deriving DecidableEq, Repr, Inhabited

/-- `cstl_vector_init_complex` -/
def Vector.init (esz : Nat) (cons dest : Bool) : Vector :=
  { base := none, esz := esz, count := 0, cap := 0, cons := cons, dest := dest, elems := [] }

def baseId (v : Vector) : Nat :=
  match v.base with
  | none => 0
  | some (b, _) => b

def baseBytes (v : Vector) : Nat :=
  match v.base with
  | none => 0
  | some (_, n) => n

/-! ### the allocator's ledger -/

/-- the interposer's view of the heap: ids handed out so far, live blocks -/
structure Heap where
  next : Nat
  live : List Nat
deriving Repr, Inhabited

def Heap.init : Heap := { next := 1, live := [] }

/-- effect of one event on the ledger -/
def Heap.apply (h : Heap) : Ev → Heap
  | .rOk old new _ => { next := max h.next (new + 1), live := (h.live.erase old) ++ [new] }
  | .rFail _ _ => h
  | .rFree old => { h with live := h.live.erase old }
  | .free id => { h with live := h.live.erase id }
  | .ctor _ => h
  | .dtor _ => h

def Heap.applyAll (h : Heap) (evs : List Ev) : Heap := evs.foldl Heap.apply h

/-- does the event consume an oracle answer (is it a realloc request)? -/
def Ev.isRequest : Ev → Bool
  | .rOk _ _ _ => true
  | .rFail _ _ => true
  | .rFree _ => true
  | _ => false

/-! ### realloc -/

inductive RRes where
  | fail
  | freed
  | moved (id bytes : Nat)
deriving DecidableEq, Repr

def reallocM (ans : Nat → Bool) (newId : Nat) (old : Option (Nat × Nat)) (bytes : Nat) : RRes :=
  if ans bytes = false then .fail
  else if bytes = 0 ∧ old.isSome then .freed
  else .moved newId bytes

/-- what a block of `bytes` bytes holds after `realloc` copied
`min oldBytes bytes` bytes of the old block into it: the whole elements inside
the copied part keep their value, the others are indeterminate. -/
def copyInto (elems : List Nat) (esz oldBytes bytes : Nat) : List Nat :=
  let keep := min oldBytes bytes / esz
  elems.take keep ++ List.replicate (elems.length - keep) undefV

/-! ### vector -/

/-- `cstl_vector_set_capacity` (repaired: a byte count `(sz + 1) * size` that
cannot be represented is treated like a failed allocation; no request is
made). -/
def setCapacity (ans : Nat → Bool) (newId : Nat) (v : Vector) (sz : Nat) : Vector × List Ev :=
  let n1 := addW sz 1
  if n1 = 0 ∨ (v.esz ≠ 0 ∧ n1 > SIZE_MAX / v.esz) then (v, [])
  else
    let bytes := mulW n1 v.esz
    match reallocM ans newId v.base bytes with
    | .fail => (v, [.rFail (baseId v) bytes])
    | .freed => (v, [.rFree (baseId v)])
    | .moved id n =>
      ({ v with base := some (id, n), cap := sz,
                elems := copyInto v.elems v.esz (baseBytes v) n },
       [.rOk (baseId v) id n])

/-- `cstl_vector_reserve` -/
def reserve (ans : Nat → Bool) (newId : Nat) (v : Vector) (sz : Nat) : Vector × List Ev :=
  if sz > v.cap then setCapacity ans newId v sz else (v, [])

/-- `cstl_vector_shrink_to_fit` -/
def shrink (ans : Nat → Bool) (newId : Nat) (v : Vector) : Vector × List Ev :=
  if v.cap > v.count then setCapacity ans newId v v.count else (v, [])

/-- `do { cons(at(count++)) } while (count < sz)`: `k` slots upward from `c` -/
def consUp : Nat → Nat → List Ev
  | 0, _ => []
  | k + 1, c => .ctor c :: consUp k (c + 1)

/-- `do { dest(at(--count)) } while (count > sz)`: `k` slots downward from `c - 1` -/
def destDown : Nat → Nat → List Ev
  | 0, _ => []
  | k + 1, c => .dtor (c - 1) :: destDown k (c - 1)

/-- `cstl_vector_resize` -/
def resize (ans : Nat → Bool) (newId : Nat) (v : Vector) (sz : Nat) : Except Stop (Vector × List Ev) :=
  let (v1, e1) := reserve ans newId v sz
  if v1.cap < sz then .error .abort
  else if v1.count < sz then
    let k := sz - v1.count
    if v1.cons then
      .ok ({ v1 with count := sz, elems := v1.elems ++ List.replicate k ctorV }, e1 ++ consUp k v1.count)
    else
      .ok ({ v1 with count := sz, elems := v1.elems ++ List.replicate k undefV }, e1)
  else if v1.count > sz then
    let k := v1.count - sz
    if v1.dest then
      .ok ({ v1 with count := sz, elems := v1.elems.take sz }, e1 ++ destDown k v1.count)
    else
      .ok ({ v1 with count := sz, elems := v1.elems.take sz }, e1)
  else .ok (v1, e1)

/-- `cstl_vector_at`: the byte offset from `elem.base` of the returned pointer
(`i * elem.size` in `uintptr_t` arithmetic), abort when `i >= count`. -/
def vat (v : Vector) (i : Nat) : Except Stop Nat :=
  if i ≥ v.count then .error .abort else .ok (mulW i v.esz)

/-- the client stores `x` through the pointer returned by `cstl_vector_at` -/
def vset (v : Vector) (i x : Nat) : Except Stop Vector :=
  match vat v i with
  | .error s => .error s
  | .ok off =>
    match v.base with
    | none => .error .nullDeref
    | some (_, n) =>
      if off + v.esz ≤ n then .ok { v with elems := v.elems.set (off / v.esz) x } else .error .oob

/-- the client reads through the pointer returned by `cstl_vector_at` -/
def vget (v : Vector) (i : Nat) : Except Stop (Nat × Nat) :=
  match vat v i with
  | .error s => .error s
  | .ok off =>
    match v.base with
    | none => .error .nullDeref
    | some (_, n) =>
      if off + v.esz ≤ n then
        match v.elems[off / v.esz]? with
        | some x => .ok (off, x)
        | none => .ok (off, undefV)
      else .error .oob

/-- `cstl_vector_clear`: `resize(v, 0)`, `free(base)`, `base = NULL`, `cap = 0` -/
def clear (v : Vector) : Except Stop (Vector × List Ev) :=
  match resize (fun _ => false) 0 v 0 with
  | .error s => .error s
  | .ok (v1, e1) =>
    let fr := match v1.base with
      | none => []
      | some (b, _) => [Ev.free b]
    .ok ({ v1 with base := none, cap := 0 }, e1 ++ fr)

/-- `cstl_vector_swap`: the two structs are exchanged bytewise -/
def vswap (a b : Vector) : Vector × Vector := (b, a)

/-- is the scratch slot (index `cap`) inside the block? -/
def scratchOk (v : Vector) : Bool :=
  match v.base with
  | none => false
  | some (_, n) => mulW v.cap v.esz + v.esz ≤ n

def insertSorted (x : Nat) : List Nat → List Nat
  | [] => [x]
  | y :: ys => if x ≤ y then x :: y :: ys else y :: insertSorted x ys

def sortVals : List Nat → List Nat
  | [] => []
  | x :: xs => insertSorted x (sortVals xs)

/-- `cstl_vector_reverse`: permutes `[0, count)`, exchanging through the
scratch slot at index `cap` (the algorithm itself belongs to the sort area). -/
def vreverse (v : Vector) : Except Stop Vector :=
  if v.count ≥ 2 then
    if scratchOk v then .ok { v with elems := v.elems.reverse }
    else if v.base.isNone then .error .nullDeref else .error .oob
  else .ok v

/-- `cstl_vector_sort` on the element values (elements with equal values are
bytewise equal, so every correct algorithm gives this result). -/
def vsort (v : Vector) : Except Stop Vector :=
  if v.count ≥ 2 then
    if scratchOk v then .ok { v with elems := sortVals v.elems }
    else if v.base.isNone then .error .nullDeref else .error .oob
  else .ok v

/-! ### histories of vector operations: two vectors over one heap -/

inductive VOp where
  | reserve (sz : Nat)
  | shrink
  | resize (sz : Nat)
  | clear
  | swap
  | sort
  | reverse
  | set (i x : Nat)
  | get (i : Nat)
deriving Repr

/-- one operation on one vector (`swap` involves both and is handled by `Sys.step`) -/
def vstepV (ans : Nat → Bool) (newId : Nat) (v : Vector) : VOp → Except Stop (Vector × List Ev)
  | .reserve sz => .ok (reserve ans newId v sz)
  | .shrink => .ok (shrink ans newId v)
  | .resize sz => resize ans newId v sz
  | .clear => clear v
  | .swap => .ok (v, [])
  | .sort => match vsort v with
    | .error st => .error st
    | .ok v' => .ok (v', [])
  | .reverse => match vreverse v with
    | .error st => .error st
    | .ok v' => .ok (v', [])
  | .set i x => match vset v i x with
    | .error st => .error st
    | .ok v' => .ok (v', [])
  | .get i => match vget v i with
    | .error st => .error st
    | .ok _ => .ok (v, [])

structure Sys where
  a : Vector
  b : Vector
  heap : Heap

def Sys.sel (s : Sys) (w : Bool) : Vector := if w then s.b else s.a

def Sys.put (s : Sys) (w : Bool) (v : Vector) (h : Heap) : Sys :=
  if w then { a := s.a, b := v, heap := h } else { a := v, b := s.b, heap := h }

/-- operation `op` on vector `w` with allocator answers `ans`; a successful
request gets the next block id, the ledger follows the event list -/
def Sys.step (s : Sys) (w : Bool) (op : VOp) (ans : Nat → Bool) : Except Stop Sys :=
  match op with
  | .swap => .ok { a := (vswap s.a s.b).1, b := (vswap s.a s.b).2, heap := s.heap }
  | op =>
    match vstepV ans s.heap.next (s.sel w) op with
    | .error st => .error st
    | .ok (v, evs) => .ok (s.put w v (s.heap.applyAll evs))

def Sys.run (s : Sys) : List (Bool × VOp × (Nat → Bool)) → Except Stop Sys
  | [] => .ok s
  | (w, op, ans) :: rest =>
    match s.step w op ans with
    | .error st => .error st
    | .ok s' => s'.run rest

/-! ### raw accesses of the string layer (`STRF(__at, s, i)` = `data + i`) -/

def padTo (xs : List Nat) (n : Nat) : List Nat := xs ++ List.replicate (n - xs.length) undefV

/-- overwrite the slots `[d, d + ys.length)`; slots at or beyond `xs.length`
are inside the block but not live, their values are not tracked -/
def writeAt (xs : List Nat) (d : Nat) (ys : List Nat) : List Nat :=
  let p := padTo xs (d + ys.length)
  (p.take d ++ ys ++ p.drop (d + ys.length)).take xs.length

/-- the values of the slots `[s, s + k)` -/
def readAt (xs : List Nat) (s k : Nat) : List Nat :=
  ((padTo xs (s + k)).drop s).take k

/-- `*STRF(__at, s, i) = x` -/
def rawSet (v : Vector) (i x : Nat) : Except Stop Vector :=
  match v.base with
  | none => .error .nullDeref
  | some (_, n) =>
    let off := mulW i v.esz
    if off + v.esz ≤ n then .ok { v with elems := writeAt v.elems (off / v.esz) [x] }
    else .error .oob

/-- `memmove(__at(dst), __at(src), bytes)` inside one string -/
def rawMove (v : Vector) (dst src bytes : Nat) : Except Stop Vector :=
  if bytes = 0 then .ok v
  else match v.base with
    | none => .error .nullDeref
    | some (_, n) =>
      let so := mulW src v.esz
      let dO := mulW dst v.esz
      if so + bytes ≤ n ∧ dO + bytes ≤ n then
        .ok { v with elems := writeAt v.elems (dO / v.esz) (readAt v.elems (so / v.esz) (bytes / v.esz)) }
      else .error .oob

/-- the source operand of `memcpy(…, __at(s, idx), bytes)` -/
def rawRead (v : Vector) (idx bytes : Nat) : Except Stop (List Nat) :=
  if bytes = 0 then .ok []
  else match v.base with
    | none => .error .nullDeref
    | some (_, n) =>
      let so := mulW idx v.esz
      if so + bytes ≤ n then .ok (readAt v.elems (so / v.esz) (bytes / v.esz))
      else .error .oob

/-- `memcpy(__at(s, idx), src, bytes)` from a caller-supplied array `src`
(reading past the end of `src` is `oob`) -/
def rawWrite (v : Vector) (idx : Nat) (src : List Nat) (bytes : Nat) : Except Stop Vector :=
  if bytes = 0 then .ok v
  else match v.base with
    | none => .error .nullDeref
    | some (_, n) =>
      let dO := mulW idx v.esz
      let k := bytes / v.esz
      if k > src.length then .error .oob
      else if dO + bytes ≤ n then .ok { v with elems := writeAt v.elems (dO / v.esz) (src.take k) }
      else .error .oob

/-- `while (k-- > 0) *__at(s, i++) = x` -/
def fillLoop : Nat → Vector → Nat → Nat → Except Stop Vector
  | 0, v, _, _ => .ok v
  | k + 1, v, i, x =>
    match rawSet v i x with
    | .error s => .error s
    | .ok v1 => fillLoop k v1 (addW i 1) x

/-! ### string (a vector of code units; `esz` = 1 narrow, 4 wide) -/

/-- `cstl_STRING_size` -/
def strSize (v : Vector) : Nat := if v.count > 0 then v.count - 1 else 0

/-- `cstl_STRING_capacity` -/
def strCap (v : Vector) : Nat := if v.cap > 0 then v.cap - 1 else 0

/-- `cstl_STRING_reserve` -/
def strReserve (ans : Nat → Bool) (newId : Nat) (v : Vector) (sz : Nat) : Vector × List Ev :=
  reserve ans newId v (addW sz 1)

/-- sequencing of steps that may stop (`r.1` / `r.2` instead of pattern
matching keeps the terms small for the proofs) -/
def andThen {α β : Type} (x : Except Stop α) (f : α → Except Stop β) : Except Stop β :=
  match x with
  | .error s => .error s
  | .ok a => f a

theorem andThen_ok {α β : Type} (a : α) (f : α → Except Stop β) : andThen (.ok a) f = f a := rfl
theorem andThen_error {α β : Type} (s : Stop) (f : α → Except Stop β) :
    andThen (.error s : Except Stop α) f = .error s := rfl

/-- `STRF(__resize)` (repaired: abort when `n + 1` is not representable) -/
def strResize0 (ans : Nat → Bool) (newId : Nat) (v : Vector) (n : Nat) : Except Stop (Vector × List Ev) :=
  if addW n 1 = 0 then .error .abort
  else
    andThen (resize ans newId v (addW n 1)) fun r =>
    andThen (rawSet r.1 n 0) fun v2 =>
    .ok (v2, r.2)

/-- `cstl_STRING_resize` -/
def strResize (ans : Nat → Bool) (newId : Nat) (v : Vector) (n : Nat) : Except Stop (Vector × List Ev) :=
  andThen (strResize0 ans newId v n) fun r =>
  andThen (fillLoop (n - strSize v) r.1 (strSize v) 0) fun v2 =>
  .ok (v2, r.2)

/-- `STRF(prep_insert)` (repaired: abort when `size + len` is not representable) -/
def prepInsert (ans : Nat → Bool) (newId : Nat) (v : Vector) (pos len : Nat) : Except Stop (Vector × List Ev) :=
  if pos > strSize v then .error .abort
  else if len > 0 then
    if len > SIZE_MAX - strSize v then .error .abort
    else
      andThen (strResize0 ans newId v (addW (strSize v) len)) fun r =>
      andThen (rawMove r.1 (addW pos len) pos (mulW (subW (strSize v) pos) v.esz)) fun v2 =>
      .ok (v2, r.2)
  else .ok (v, [])

/-- `cstl_STRING_insert_ch` -/
def insertCh (ans : Nat → Bool) (newId : Nat) (v : Vector) (idx cnt ch : Nat) : Except Stop (Vector × List Ev) :=
  andThen (prepInsert ans newId v idx cnt) fun r =>
  andThen (fillLoop cnt r.1 idx ch) fun v2 =>
  .ok (v2, r.2)

/-- `cstl_STRING_insert_str_n` with the caller's array `src` -/
def insertStrN (ans : Nat → Bool) (newId : Nat) (v : Vector) (idx : Nat) (src : List Nat) (len : Nat) :
    Except Stop (Vector × List Ev) :=
  andThen (prepInsert ans newId v idx len) fun r =>
  andThen (rawWrite r.1 idx src (mulW len v.esz)) fun v2 =>
  .ok (v2, r.2)

/-- `STRF(substr_prep)` (repaired clamp `len > size - pos`): the clamped length -/
def substrPrep (v : Vector) (pos len : Nat) : Except Stop Nat :=
  if pos ≥ strSize v then .error .abort
  else if len > strSize v - pos then .ok (strSize v - pos) else .ok len

/-- `cstl_STRING_substr(s, idx, len, sub)` (`s` and `sub` distinct objects): the new `sub` -/
def substr (ans : Nat → Bool) (newId : Nat) (s : Vector) (idx len : Nat) (sub : Vector) :
    Except Stop (Vector × List Ev) :=
  andThen (substrPrep s idx len) fun len1 =>
  andThen (strResize0 ans newId sub len1) fun r =>
  andThen (rawRead s idx (mulW len1 s.esz)) fun src =>
  andThen (rawWrite r.1 0 src (mulW len1 s.esz)) fun sub2 =>
  .ok (sub2, r.2)

/-- `cstl_STRING_erase` -/
def erase (ans : Nat → Bool) (newId : Nat) (v : Vector) (idx len : Nat) : Except Stop (Vector × List Ev) :=
  andThen (substrPrep v idx len) fun len1 =>
  andThen (rawMove v idx (addW idx len1) (mulW (subW (strSize v) (addW idx len1)) v.esz)) fun v1 =>
  strResize0 ans newId v1 (subW (strSize v) len1)

/-- `cstl_STRING_at`: byte offset of the returned pointer -/
def strAt (v : Vector) (i : Nat) : Except Stop Nat :=
  if i ≥ strSize v then .error .abort else .ok (mulW i v.esz)

/-- what a C-library function sees when it reads a NUL-terminated string at
`cstl_STRING_str(s) + pos`: the units up to (not including) the first NUL;
`none` when no NUL is stored in the live slots (the read would run off). -/
def cstrFrom (v : Vector) (pos : Nat) : Option (List Nat) :=
  match v.base with
  | none => if pos = 0 then some [] else none      -- `str` points at the static NUL
  | some _ =>
    let t := v.elems.drop pos
    if t.any (· == 0) then some (t.takeWhile (· != 0)) else none

/-- `strchr(view, c)` as an index into the view (`view.length` = its terminator) -/
def strchrM (view : List Nat) (c : Nat) : Option Nat :=
  if c = 0 then some view.length
  else
    let i := view.findIdx (· == c)
    if i < view.length then some i else none

def isPrefix : List Nat → List Nat → Bool
  | [], _ => true
  | _ :: _, [] => false
  | x :: xs, y :: ys => x == y && isPrefix xs ys

/-- `strstr(hay, ndl)` as an index into `hay` -/
def strstrM (ndl : List Nat) : List Nat → Option Nat
  | [] => if isPrefix ndl [] then some 0 else none
  | h :: t =>
    if isPrefix ndl (h :: t) then some 0
    else match strstrM ndl t with
      | none => none
      | some i => some (i + 1)

/-- how the C library orders two code units: `unsigned char` for the narrow
string, `wchar_t` (32-bit signed) for the wide one -/
def unitKey (esz : Nat) (u : Nat) : Int :=
  if esz = 1 then (u : Int)
  else if u < 2 ^ 31 then (u : Int) else (u : Int) - 2 ^ 32

/-- sign of `strcmp` / `wcscmp` on two NUL-terminated views -/
def strcmpM (key : Nat → Int) : List Nat → List Nat → Int
  | [], [] => 0
  | [], y :: _ => if key 0 < key y then -1 else 1
  | x :: _, [] => if key x < key 0 then -1 else 1
  | x :: xs, y :: ys =>
    if x = y then strcmpM key xs ys
    else if key x < key y then -1 else 1

/-- `cstl_STRING_find_ch`: `some i` / `none` = -1 -/
def findCh (v : Vector) (c pos : Nat) : Except Stop (Option Nat) :=
  let sz := strSize v
  if pos ≥ sz then .error .abort
  else match cstrFrom v pos with
    | none => .error .oob
    | some view =>
      match strchrM view c with
      | none => .ok none
      | some i => if pos + i = sz then .ok none else .ok (some (pos + i))

/-- `cstl_STRING_find_str` with the caller's NUL-terminated `ndl` (units before its NUL) -/
def findStr (v : Vector) (ndl : List Nat) (pos : Nat) : Except Stop (Option Nat) :=
  if pos ≥ strSize v then .error .abort
  else match cstrFrom v pos with
    | none => .error .oob
    | some view =>
      match strstrM ndl view with
      | none => .ok none
      | some i => .ok (some (pos + i))

/-- `cstl_STRING_compare_str`: sign of the result -/
def compareStr (v : Vector) (raw : List Nat) : Except Stop Int :=
  match cstrFrom v 0 with
  | none => .error .oob
  | some view => .ok (strcmpM (unitKey v.esz) view raw)

/-! ### histories of string edits: two string objects of the same width -/

/-- what `cstl_STRING_str(o)` gives a caller to copy from -/
def objChars (o : Vector) : List Nat :=
  match o.base with
  | none => []
  | some _ => o.elems

/-- the edits of the string API on "this" object (`insertObj`, `substrTo`
involve the other object).  `append*` is `insert*` at `pos = size`, `insert_str`
is `insert_str_n` with `strlen`, `set_str` is `resize 0` followed by
`append_str`: all inline in the header. -/
inductive SOp where
  | resize (n : Nat)
  | reserve (n : Nat)
  | insertCh (pos cnt ch : Nat)
  | insertStrN (pos : Nat) (src : List Nat) (len : Nat)
  | insertObj (pos : Nat)
  | erase (pos n : Nat)
  | substrTo (pos n : Nat)
  | clear
  | swap
deriving Repr

/-- one edit: `a` is "this", `b` the other object -/
def sstep (ans : Nat → Bool) (id : Nat) (a b : Vector) : SOp → Except Stop (Vector × Vector)
  | .resize n => andThen (strResize ans id a n) fun r => .ok (r.1, b)
  | .reserve n => .ok ((strReserve ans id a n).1, b)
  | .insertCh pos cnt ch => andThen (insertCh ans id a pos cnt ch) fun r => .ok (r.1, b)
  | .insertStrN pos src len => andThen (insertStrN ans id a pos src len) fun r => .ok (r.1, b)
  | .insertObj pos => andThen (insertStrN ans id a pos (objChars b) (strSize b)) fun r => .ok (r.1, b)
  | .erase pos n => andThen (erase ans id a pos n) fun r => .ok (r.1, b)
  | .substrTo pos n => andThen (substr ans id a pos n b) fun r => .ok (a, r.1)
  | .clear => andThen (clear a) fun r => .ok (r.1, b)
  | .swap => .ok (b, a)

/-- a history: which object is "this" (`false` = first), the edit, the
allocator's answers and the id of the block it would hand out -/
def srun (a b : Vector) : List (Bool × SOp × (Nat → Bool) × Nat) → Except Stop (Vector × Vector)
  | [] => .ok (a, b)
  | (w, op, ans, id) :: rest =>
    if w then
      andThen (sstep ans id b a op) fun r => srun r.2 r.1 rest
    else
      andThen (sstep ans id a b op) fun r => srun r.1 r.2 rest

end Cstl.Vec
