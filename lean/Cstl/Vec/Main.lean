import Cstl.Base.Driver
import Cstl.Vec.Model
/-
Driver for the vec area (vector + narrow/wide string).  Six objects:
  v0 v1   vectors (element size / xtors chosen by `init`)
  s0 s1   narrow strings (1-byte units)
  w0 w1   wide strings (4-byte units)
Allocation oracle of the driver (the same rule is implemented by
harness/vec.c): a realloc request fails iff the next plan character is `0`
or the request is larger than 65536 bytes; block ids are handed out 1,2,3,…
per successful request.  Same line protocol and dump as harness/vec.c.
-/
open Cstl Cstl.Vec

def LIMIT : Nat := 65536

structure DS where
  objs : Array Vector
  heap : Heap
  plan : List Bool

def DS.next (s : DS) : Nat := s.heap.next
def DS.live (s : DS) : List Nat := s.heap.live

def dinit : DS :=
  { objs := #[Vector.init 4 false false, Vector.init 4 false false,
              Vector.init 1 false false, Vector.init 1 false false,
              Vector.init 4 false false, Vector.init 4 false false],
    heap := Heap.init, plan := [] }

def DS.ans (s : DS) : Nat → Bool := fun bytes =>
  (match s.plan with | [] => true | p :: _ => p) && decide (bytes ≤ LIMIT)

def applyEv (s : DS) (e : Ev) : DS :=
  { s with heap := s.heap.apply e, plan := if e.isRequest then s.plan.tail else s.plan }

def objIndex (n : String) : Option Nat :=
  match n with
  | "v0" => some 0 | "v1" => some 1 | "s0" => some 2 | "s1" => some 3
  | "w0" => some 4 | "w1" => some 5 | _ => none

def objName (i : Nat) : String :=
  match i with
  | 0 => "v0" | 1 => "v1" | 2 => "s0" | 3 => "s1" | 4 => "w0" | _ => "w1"

/-- run-length encoding of a token list: `t` or `t*k` -/
def rleGo : List String → String → Nat → List String → List String
  | [], cur, n, acc => ((if n = 1 then cur else cur ++ "*" ++ toString n) :: acc).reverse
  | t :: ts, cur, n, acc =>
    if t = cur then rleGo ts cur (n + 1) acc
    else rleGo ts t 1 ((if n = 1 then cur else cur ++ "*" ++ toString n) :: acc)

def rlePieces (ts : List String) : List String :=
  match ts with
  | [] => []
  | t :: rest => rleGo rest t 1 []

def bracket (ps : List String) : String := "[" ++ ",".intercalate ps ++ "]"

def rle (ts : List String) : String := bracket (rlePieces ts)

/-- event list as printed by the harness: realloc/free tokens like
harness/alloc.c, consecutive xtor calls on adjacent slots compressed to runs -/
structure Run where
  kind : Bool        -- true = ctor
  first : Nat
  last : Nat
  dir : Nat          -- 0 single, 1 up, 2 down

def Run.show (r : Run) : String :=
  (if r.kind then "C" else "D") ++ toString r.first ++
    (if r.dir = 0 then "" else ".." ++ toString r.last)

def Run.extend (r : Run) (k : Bool) (i : Nat) : Option Run :=
  if k ≠ r.kind then none
  else if (r.dir = 0 ∨ r.dir = 1) ∧ i = r.last + 1 then some { r with last := i, dir := 1 }
  else if (r.dir = 0 ∨ r.dir = 2) ∧ i + 1 = r.last then some { r with last := i, dir := 2 }
  else none

def flushRun (cur : Option Run) (acc : List String) : List String :=
  match cur with
  | none => acc
  | some r => r.show :: acc

def showEvsGo : List Ev → Option Run → List String → List String
  | [], cur, acc => (flushRun cur acc).reverse
  | e :: es, cur, acc =>
    let xt (k : Bool) (i : Nat) : List String :=
      match cur with
      | none => showEvsGo es (some { kind := k, first := i, last := i, dir := 0 }) acc
      | some r =>
        match r.extend k i with
        | some r' => showEvsGo es (some r') acc
        | none => showEvsGo es (some { kind := k, first := i, last := i, dir := 0 }) (r.show :: acc)
    match e with
    | .ctor i => xt true i
    | .dtor i => xt false i
    | .rOk old new n =>
      showEvsGo es none (("R" ++ toString old ++ ">" ++ toString new ++ ":" ++ toString n) :: flushRun cur acc)
    | .rFail old n =>
      showEvsGo es none (("R" ++ toString old ++ "!" ++ toString n) :: flushRun cur acc)
    | .rFree old =>
      showEvsGo es none (("R" ++ toString old ++ ">0:0") :: flushRun cur acc)
    | .free id =>
      showEvsGo es none (("F" ++ toString id) :: flushRun cur acc)

def showEvs (evs : List Ev) : String :=
  let ts := showEvsGo evs none []
  if ts.isEmpty then "" else " " ++ " ".intercalate ts

def dumpObj (s : DS) (i : Nat) (v : Vector) : String :=
  let isStr := i ≥ 2
  let fresh := v.base.isNone ∧ v.count = 0 ∧ v.cap = 0
  let hdr := objName i ++ (if isStr then "" else
    " e=" ++ toString v.esz ++ " x=" ++ (if v.cons then "1" else "0") ++ (if v.dest then "1" else "0"))
  if fresh then hdr ++ " ~"
  else
    let (b, inBlock) := match v.base with
      | none => ("0", 0)
      | some (id, n) =>
        if s.live.contains id then (toString id ++ ":" ++ toString n, if v.esz = 0 then 0 else n / v.esz)
        else ("dead", 0)
    let shown := min v.count inBlock
    let toks := (v.elems.take shown).map toString
    let body :=
      if v.count > shown then
        let extra := "!" ++ (if v.count - shown = 1 then "" else "*" ++ toString (v.count - shown))
        bracket (rlePieces toks ++ [extra])
      else rle toks
    let core := hdr ++ " n=" ++ toString v.count ++ " c=" ++ toString v.cap ++ " b=" ++ b ++ " " ++ body
    if isStr then
      let st :=
        if v.base.isNone then "nul"
        else if v.count = 0 then "U"
        else if shown < v.count then "?"
        else match v.elems.getLast? with
          | some 0 => "T"
          | _ => "X"
      core ++ " sz=" ++ toString (strSize v) ++ " sc=" ++ toString (strCap v) ++ " str=" ++ st
    else core

def dump (s : DS) : String :=
  " | ".intercalate ((List.range 6).map (fun i => dumpObj s i s.objs[i]!))

def stopStr : Stop → String
  | .abort => "STOP abort"
  | .nullDeref => "STOP segv"
  | .oob => "STOP asan"

/-- comma separated code units, `-` = none -/
def parseUnits (t : String) : Option (List Nat) :=
  if t = "-" then some []
  else (t.splitOn ",").mapM (fun w => w.toNat?)

def cview (us : List Nat) : List Nat := us.takeWhile (· != 0)

def optIdx : Option Nat → String
  | none => "-1"
  | some i => toString i

def parsePlan (t : String) : List Bool :=
  if t = "-" then [] else t.toList.map (· != '0')

def fin (s : DS) (r : String) : DS × String := (s, r ++ " | " ++ dump s)

/-- run an allocating operation on object `i` -/
def runOn (s : DS) (i : Nat) (f : (Nat → Bool) → Nat → Vector → Except Stop (Vector × List Ev)) :
    Except Stop (DS × List Ev) :=
  match f s.ans s.next s.objs[i]! with
  | .error st => .error st
  | .ok (v, evs) => .ok (evs.foldl applyEv { s with objs := s.objs.set! i v }, evs)

def finE (s : DS) (r : Except Stop (DS × List Ev)) : DS × String :=
  match r with
  | .error st => (s, stopStr st)
  | .ok (s', evs) => fin s' ("ok" ++ showEvs evs)

def vstep (s : DS) (ws : List String) : DS × String :=
  let bad := (s, "STOP bad-op")
  let vec (n : String) : Option Nat := match objIndex n with
    | some i => if i < 2 then some i else none
    | none => none
  let str (n : String) : Option Nat := match objIndex n with
    | some i => if i ≥ 2 then some i else none
    | none => none
  match ws with
  | ["plan", p] => fin { s with plan := parsePlan p } "ok"
  -- ---------------- vector
  | ["init", o, e, x] =>
    match vec o, parseNat? e, x.toNat? with
    | some i, some e, some x =>
      fin { s with objs := s.objs.set! i (Vector.init e (x % 2 = 1) (x / 2 % 2 = 1)) } "ok"
    | _, _, _ => bad
  | ["reserve", o, n] =>
    match vec o, parseNat? n with
    | some i, some n => finE s (runOn s i (fun a id v => .ok (reserve a id v n)))
    | _, _ => bad
  | ["shrink", o] =>
    match vec o with
    | some i => finE s (runOn s i (fun a id v => .ok (shrink a id v)))
    | _ => bad
  | ["resize", o, n] =>
    match vec o, parseNat? n with
    | some i, some n => finE s (runOn s i (fun a id v => resize a id v n))
    | _, _ => bad
  | ["clear", o] =>
    match objIndex o with
    | some i => finE s (runOn s i (fun _ _ v => clear v))
    | _ => bad
  | ["swap", a, b] =>
    match objIndex a, objIndex b with
    | some i, some j =>
      if i = j ∨ i / 2 ≠ j / 2 then bad
      else
        let (x, y) := vswap s.objs[i]! s.objs[j]!
        fin { s with objs := (s.objs.set! i x).set! j y } "ok"
    | _, _ => bad
  | ["at", o, i] =>
    match vec o, parseNat? i with
    | some k, some i =>
      match vget s.objs[k]! i with
      | .error st => (s, stopStr st)
      | .ok (off, x) => fin s ("b" ++ toString (baseId s.objs[k]!) ++ "+" ++ toString off ++ "=" ++ toString x)
    | _, _ => bad
  | ["set", o, i, x] =>
    match vec o, parseNat? i, x.toNat? with
    | some k, some i, some x =>
      match vset s.objs[k]! i x with
      | .error st => (s, stopStr st)
      | .ok v => fin { s with objs := s.objs.set! k v } "ok"
    | _, _, _ => bad
  | ["rev", o] =>
    match vec o with
    | some k =>
      match vreverse s.objs[k]! with
      | .error st => (s, stopStr st)
      | .ok v => fin { s with objs := s.objs.set! k v } "ok"
    | _ => bad
  | ["sort", o] =>
    match vec o with
    | some k =>
      match vsort s.objs[k]! with
      | .error st => (s, stopStr st)
      | .ok v => fin { s with objs := s.objs.set! k v } "ok"
    | _ => bad
  -- ---------------- string
  | ["sreserve", o, n] =>
    match str o, parseNat? n with
    | some i, some n => finE s (runOn s i (fun a id v => .ok (strReserve a id v n)))
    | _, _ => bad
  | ["sresize", o, n] =>
    match str o, parseNat? n with
    | some i, some n => finE s (runOn s i (fun a id v => strResize a id v n))
    | _, _ => bad
  | ["insch", o, pos, cnt, ch] =>
    match str o, parseNat? pos, parseNat? cnt, ch.toNat? with
    | some i, some pos, some cnt, some ch => finE s (runOn s i (fun a id v => insertCh a id v pos cnt ch))
    | _, _, _, _ => bad
  | ["appch", o, cnt, ch] =>
    match str o, parseNat? cnt, ch.toNat? with
    | some i, some cnt, some ch => finE s (runOn s i (fun a id v => insertCh a id v (strSize v) cnt ch))
    | _, _, _ => bad
  | ["insn", o, pos, us, n] =>
    match str o, parseNat? pos, parseUnits us, parseNat? n with
    | some i, some pos, some us, some n => finE s (runOn s i (fun a id v => insertStrN a id v pos us n))
    | _, _, _, _ => bad
  | ["appn", o, us, n] =>
    match str o, parseUnits us, parseNat? n with
    | some i, some us, some n => finE s (runOn s i (fun a id v => insertStrN a id v (strSize v) us n))
    | _, _, _ => bad
  | ["insstr", o, pos, us] =>
    match str o, parseNat? pos, parseUnits us with
    | some i, some pos, some us =>
      finE s (runOn s i (fun a id v => insertStrN a id v pos (cview us) (cview us).length))
    | _, _, _ => bad
  | ["appstr", o, us] =>
    match str o, parseUnits us with
    | some i, some us =>
      finE s (runOn s i (fun a id v => insertStrN a id v (strSize v) (cview us) (cview us).length))
    | _, _ => bad
  | ["setstr", o, us] =>
    match str o, parseUnits us with
    | some i, some us =>
      match runOn s i (fun a id v => strResize a id v 0) with
      | .error st => (s, stopStr st)
      | .ok (s1, e1) =>
        match runOn s1 i (fun a id v => insertStrN a id v (strSize v) (cview us) (cview us).length) with
        | .error st => (s, stopStr st)
        | .ok (s2, e2) => fin s2 ("ok" ++ showEvs (e1 ++ e2))
    | _, _ => bad
  | ["ins", o, pos, t] =>
    match str o, parseNat? pos, str t with
    | some i, some pos, some j =>
      if i = j ∨ i / 2 ≠ j / 2 then bad
      else
        let src := s.objs[j]!
        -- `cstl_STRING_str(ins)`, `cstl_STRING_size(ins)`
        let us := match src.base with | none => [] | some _ => src.elems
        finE s (runOn s i (fun a id v => insertStrN a id v pos us (strSize src)))
    | _, _, _ => bad
  | ["app", o, t] =>
    match str o, str t with
    | some i, some j =>
      if i = j ∨ i / 2 ≠ j / 2 then bad
      else
        let src := s.objs[j]!
        let us := match src.base with | none => [] | some _ => src.elems
        finE s (runOn s i (fun a id v => insertStrN a id v (strSize v) us (strSize src)))
    | _, _ => bad
  | ["erase", o, pos, n] =>
    match str o, parseNat? pos, parseNat? n with
    | some i, some pos, some n => finE s (runOn s i (fun a id v => erase a id v pos n))
    | _, _, _ => bad
  | ["substr", o, pos, n, t] =>
    match str o, parseNat? pos, parseNat? n, str t with
    | some i, some pos, some n, some j =>
      if i = j ∨ i / 2 ≠ j / 2 then bad
      else finE s (runOn s j (fun a id sub => substr a id s.objs[i]! pos n sub))
    | _, _, _, _ => bad
  | ["sat", o, i] =>
    match str o, parseNat? i with
    | some k, some i =>
      let v := s.objs[k]!
      match strAt v i with
      | .error st => (s, stopStr st)
      | .ok off =>
        match rawRead v i v.esz with
        | .error st => (s, stopStr st)
        | .ok us => fin s ("b" ++ toString (baseId v) ++ "+" ++ toString off ++ "=" ++ toString (us.headD 0))
    | _, _ => bad
  | ["str", o] =>
    match str o with
    | some k =>
      match cstrFrom s.objs[k]! 0 with
      | none => fin s "str=U"
      | some view => fin s ("str=" ++ rle (view.map toString) ++ " len=" ++ toString view.length)
    | _ => bad
  | ["findch", o, c, pos] =>
    match str o, c.toNat?, parseNat? pos with
    | some k, some c, some pos =>
      match findCh s.objs[k]! c pos with
      | .error st => (s, stopStr st)
      | .ok r =>
        -- what strchr itself returns on the same characters (index of the match, terminator included)
        let l := match cstrFrom s.objs[k]! pos with
          | none => none
          | some view => (strchrM view c).map (pos + ·)
        fin s ("r=" ++ optIdx r ++ " libc=" ++ optIdx l)
    | _, _, _ => bad
  | ["findstr", o, us, pos] =>
    match str o, parseUnits us, parseNat? pos with
    | some k, some us, some pos =>
      match findStr s.objs[k]! (cview us) pos with
      | .error st => (s, stopStr st)
      | .ok r => fin s ("r=" ++ optIdx r ++ " libc=" ++ optIdx r)
    | _, _, _ => bad
  | ["find", o, t, pos] =>
    match str o, str t, parseNat? pos with
    | some k, some j, some pos =>
      if k / 2 ≠ j / 2 then bad
      else match cstrFrom s.objs[j]! 0 with
        | none => (s, stopStr (if pos ≥ strSize s.objs[k]! then .abort else .oob))
        | some ndl =>
          match findStr s.objs[k]! ndl pos with
          | .error st => (s, stopStr st)
          | .ok r => fin s ("r=" ++ optIdx r ++ " libc=" ++ optIdx r)
    | _, _, _ => bad
  | ["cmp", o, t] =>
    match str o, str t with
    | some k, some j =>
      if k / 2 ≠ j / 2 then bad
      else match cstrFrom s.objs[j]! 0 with
        | none => (s, stopStr .oob)
        | some raw =>
          match compareStr s.objs[k]! raw with
          | .error st => (s, stopStr st)
          | .ok r => fin s ("r=" ++ toString r ++ " libc=" ++ toString r)
    | _, _ => bad
  | ["cmpstr", o, us] =>
    match str o, parseUnits us with
    | some k, some us =>
      match compareStr s.objs[k]! (cview us) with
      | .error st => (s, stopStr st)
      | .ok r => fin s ("r=" ++ toString r ++ " libc=" ++ toString r)
    | _, _ => bad
  | _ => bad

def main : IO Unit := runArea { init := dinit, step := vstep }
