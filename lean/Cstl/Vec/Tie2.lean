import Cstl.Gen.VecC2
import Cstl.Vec.Tie
import Cstl.Vec.Props
import Cstl.Vec.PropsStr
import Cstl.Sort.Props
/-
Second translator tie for vector / strings (C09, C10, C11): the definitions in `Cstl/Gen/VecC2.lean`
are regenerated from /repo's src/vector.c, src/string.c (+ src/_string.c and the two headers) by
tools/c2lean_vec2.py on every check run (tools/areas/swap_tie.py); the theorems below (hand-written,
fixed) tie them to Cstl/Vec/Model.lean.

1. Vector wrappers of the array algorithms.
   `vsort_args`, `vsearch_args`, `vfind_args`, `vreverse_args`: for EVERY callee `k`, the translated
   wrapper is `k` applied to  arr = `elem.base`,  count = `count`,  size = `elem.size`,  the caller's
   `e`/`cmp`/`priv`/`swap` unchanged and in these positions,  tmp = `elem.base + cap * elem.size`
   (`scratch_ptr`: the slot at index `cap`), `algo` unchanged.
   `vsort_tie`, `vreverse_tie`: with the callee read by the model of array.c (`Cstl.Sort.sort` /
   `Cstl.Sort.reverse` on the live slots, exchanges through `tmp`) the wrapper is the model's
   `vsort` / `vreverse`, for every vector satisfying the storage invariant `Inv`.
2. Strings, both instantiations (`w…` = wide).
   `str_tie`: `str()` = the storage, or the static NUL when there is none; `str_view`: what the C library
   reads there is the model's `cstrFrom · 0`.
   `findCh_tie`, `findStr_tie`, `find_tie`, `compareStr_tie`, `compare_tie`: the translations (calls of
   `strchr`/`strstr`/`strcmp` resp. `wcschr`/`wcsstr`/`wcscmp` on `str() + pos`, pointer comparisons against
   NULL and `str + size`, `(f - str) / sizeof(char_t)`, `-1`) are the model's `findCh` / `findStr` /
   `compareStr` (which are defined through `strchrM` / `strstrM` / `strcmpM`).
   `insertStr_args`, `appendStr_args`, `setStr_args`: for every callee, `insert_str` = `insert_str_n` with
   `strlen`, `append_str` = `insert_str` at `size`, `set_str` = `resize(0)` then `append_str`;
   `insertStr_tie`, `appendStr_tie`, `setStr_tie`: the same with the model's `insertStrN` / `strResize`;
   `insertStr_tie_c`, `appendStr_tie_c`, `setStr_tie_c`: with the translations of Cstl/Gen/VecC.lean
   (`c_cstl_string_insert_str_n`, `c_cstl_string_resize`, tied in Cstl/Vec/Tie.lean) as the callees.
   `cstl_vector_search` / `cstl_vector_find` have no counterpart in Cstl/Vec/Model.lean (the sort model's
   `search` / `find` are used for them directly): their tie is the argument theorem.
   `demo_*`: the translated functions evaluated on concrete objects.

Hypotheses that occur: `Inv v` (the C09 storage invariant, proved for every reachable vector);
`v.esz = 1` resp. `4` (the object was initialised by `cstl_STRING_init`); `v.count < 2^63` where an
index is returned as `ssize_t` (an object of 2^63 units cannot exist; the model's `findCh`/`findStr`
return the index as a natural number, the C function would return it modulo 2^64 as a negative
`ssize_t` — see `toSsize_large`); `cview n = .ok ndl`: the caller's array holds a NUL.
-/
set_option linter.unusedVariables false
set_option linter.unusedSimpArgs false
namespace Cstl.Vec.Tie2
open Cstl.Vec Cstl.Gen.VecC2

/-! ## 1. vector wrappers -/

/-- `__cstl_vector_at(v, i)` = `elem.base + i * elem.size` -/
theorem vatOffset_tie (v : Vector) (i : Nat) : c_priv_cstl_vector_at v i = SPtr.add (basePtr v) (mulW i v.esz) := rfl

/-- the scratch pointer the wrappers pass: NULL without storage, otherwise byte offset
`cap * elem.size` (mod 2^64) from `elem.base` — the slot at index `cap` -/
theorem scratch_ptr (v : Vector) :
    c_priv_cstl_vector_at v v.cap = match v.base with
      | none => SPtr.null
      | some _ => SPtr.stor (mulW v.cap v.esz) := by
  unfold c_priv_cstl_vector_at basePtr
  cases v.base with
  | none => rfl
  | some p =>
    simp only [SPtr.add]
    congr 1
    unfold addW mulW
    simp

theorem vsort_args {β : Type} (k : SPtr → Nat → Nat → Opq → Opq → Opq → SPtr → Nat → β)
    (v : Vector) (cmp priv swap : Opq) (algo : Nat) :
    c_priv_cstl_vector_sort k v cmp priv swap algo =
      k (basePtr v) v.count v.esz cmp priv swap (SPtr.add (basePtr v) (mulW v.cap v.esz)) algo := rfl

theorem vsearch_args {β : Type} (k : SPtr → Nat → Nat → Opq → Opq → Opq → β) (v : Vector) (e cmp priv : Opq) :
    c_cstl_vector_search k v e cmp priv = k (basePtr v) v.count v.esz e cmp priv := rfl

theorem vfind_args {β : Type} (k : SPtr → Nat → Nat → Opq → Opq → Opq → β) (v : Vector) (e cmp priv : Opq) :
    c_cstl_vector_find k v e cmp priv = k (basePtr v) v.count v.esz e cmp priv := rfl

theorem vreverse_args {β : Type} (k : SPtr → Nat → Nat → Opq → SPtr → β) (v : Vector) (swap : Opq) :
    c_priv_cstl_vector_reverse k v swap =
      k (basePtr v) v.count v.esz swap (SPtr.add (basePtr v) (mulW v.cap v.esz)) := rfl

/-! ### the callee read by the model of array.c -/

/-- an element value of the vector model as an element of the sort model (the comparison callback
orders the values; equal values are the same bytes) -/
def toElem (x : Nat) : Cstl.Sort.Elem := ⟨(x : Int), x⟩

/-- the live slots of `v` as the array handed to the algorithms -/
def stOf (v : Vector) : Cstl.Sort.St := { arr := (v.elems.map toElem).toArray }

def valsOf (s : Cstl.Sort.St) : List Nat := s.arr.toList.map (·.id)

/-- `tmp` is a slot of `v`'s block behind the `count` elements of `size` bytes -/
def scratchUsable (v : Vector) (count size : Nat) : SPtr → Bool
  | .stor off =>
    match v.base with
    | some (_, n) => count * size ≤ off && off + size ≤ n
    | none => false
  | _ => false

/-- `cstl_raw_array_sort(arr, count, size, cmp, priv, swap, tmp, algo)` on the storage of `v` as the
model of array.c describes it: the call must be on the whole live array (`arr = elem.base`,
`count` live slots of `size = elem.size` bytes); with fewer than two elements nothing is accessed;
otherwise the elements are accessed through `arr` (NULL: crash), ordered by `Cstl.Sort.sort`, and
every exchange goes through `tmp`, which then has to be a slot of the block outside the array. -/
def rawSortOn (fuel : Nat) (v : Vector) (arr : SPtr) (count size : Nat) (cmp priv swap : Opq) (tmp : SPtr)
    (algo : Nat) : Except Stop Vector :=
  if count ≠ v.count ∨ size ≠ v.esz ∨ arr ≠ basePtr v then .error .oob
  else if count < 2 then .ok v
  else if arr = SPtr.null then .error .nullDeref
  else match Cstl.Sort.sort fuel (stOf v) algo with
    | .ok s' =>
      if s'.log.nswap = 0 ∨ scratchUsable v count size tmp = true then .ok { v with elems := valsOf s' }
      else .error .oob
    | .error _ => .error .oob

/-- `cstl_raw_array_reverse(arr, count, size, swap, tmp)` likewise, by `Cstl.Sort.reverse` -/
def rawReverseOn (v : Vector) (arr : SPtr) (count size : Nat) (swap : Opq) (tmp : SPtr) : Except Stop Vector :=
  if count ≠ v.count ∨ size ≠ v.esz ∨ arr ≠ basePtr v then .error .oob
  else if count < 2 then .ok v
  else if arr = SPtr.null then .error .nullDeref
  else match Cstl.Sort.reverse (stOf v) with
    | .ok s' =>
      if s'.log.nswap = 0 ∨ scratchUsable v count size tmp = true then .ok { v with elems := valsOf s' }
      else .error .oob
    | .error _ => .error .oob

theorem insertSorted_sorted (x : Nat) : ∀ (l : List Nat), l.Pairwise (· ≤ ·) → (insertSorted x l).Pairwise (· ≤ ·)
  | [], _ => by simp [insertSorted]
  | y :: ys, h => by
    unfold insertSorted
    split
    · rename_i hxy
      refine List.Pairwise.cons ?_ h
      intro z hz
      rcases List.mem_cons.mp hz with rfl | hz
      · exact hxy
      · exact Nat.le_trans hxy ((List.pairwise_cons.mp h).1 z hz)
    · rename_i hxy
      have ih := insertSorted_sorted x ys (List.pairwise_cons.mp h).2
      refine List.Pairwise.cons ?_ ih
      intro z hz
      have hp : (insertSorted x ys).Perm (x :: ys) := by
        clear ih h hz hxy
        induction ys with
        | nil => simp [insertSorted]
        | cons a as iha =>
          unfold insertSorted
          split
          · exact List.Perm.refl _
          · exact (List.Perm.cons a iha).trans (List.Perm.swap x a as)
      rcases List.mem_cons.mp (hp.mem_iff.mp hz) with rfl | hz'
      · omega
      · exact (List.pairwise_cons.mp h).1 z hz'

theorem sortVals_sorted : ∀ (l : List Nat), (sortVals l).Pairwise (· ≤ ·)
  | [] => by simp [sortVals]
  | x :: xs => by
    unfold sortVals
    exact insertSorted_sorted x _ (sortVals_sorted xs)

/-- a sorted permutation of the element values is THE sorted list of the model -/
theorem sorted_perm_unique {l : List Nat} {xs : List Nat} (hp : l.Perm xs) (hs : l.Pairwise (· ≤ ·)) :
    l = sortVals xs :=
  List.Perm.eq_of_pairwise (fun a b _ _ h1 h2 => Nat.le_antisymm h1 h2) hs (sortVals_sorted xs)
    (hp.trans (sortVals_perm xs).symm)

theorem valsOf_stOf_perm {v : Vector} {s' : Cstl.Sort.St} (hp : s'.arr.toList.Perm (stOf v).arr.toList) :
    (valsOf s').Perm v.elems := by
  have := hp.map (·.id)
  simpa [valsOf, stOf, toElem, List.map_map, Function.comp_def] using this

theorem scratchUsable_of_inv {v : Vector} (h : Inv v) (hc : 2 ≤ v.count) :
    v.base.isSome = true ∧ scratchUsable v v.count v.esz (SPtr.add (basePtr v) (mulW v.cap v.esz)) = true := by
  cases hb : v.base with
  | none => have := h.none_cap hb; have := h.count_le_cap; omega
  | some p =>
    obtain ⟨b, n⟩ := p
    have hn := h.bytes b n hb
    have hlt := h.bytes_lt b n hb
    have hexp : (v.cap + 1) * v.esz = v.cap * v.esz + v.esz := by rw [Nat.add_mul]; simp
    have hm : mulW v.cap v.esz = v.cap * v.esz := mulW_of_lt (by omega)
    have hcc := Nat.mul_le_mul_right v.esz h.count_le_cap
    refine ⟨rfl, ?_⟩
    simp only [basePtr, hb, SPtr.add, scratchUsable, hm, Bool.and_eq_true, decide_eq_true_eq]
    have : addW 0 (v.cap * v.esz) = v.cap * v.esz := by
      unfold addW; rw [Nat.zero_add]; exact Nat.mod_eq_of_lt (by omega)
    rw [this]
    omega

/-- **`__cstl_vector_sort` is the model's `vsort`**: the translated wrapper, its callee read by the
model of array.c, on any vector satisfying the storage invariant, for every algorithm selector and
every outcome `s'` of the array model's sort (it has one whenever the fuel suffices:
`Cstl.Sort.sort_terminates`). -/
theorem vsort_tie (fuel : Nat) (v : Vector) (cmp priv swap : Opq) (algo : Nat) (h : Inv v)
    (s' : Cstl.Sort.St) (hs : Cstl.Sort.sort fuel (stOf v) algo = .ok s') :
    c_priv_cstl_vector_sort (rawSortOn fuel v) v cmp priv swap algo = vsort v := by
  rw [vsort_args]
  unfold rawSortOn vsort
  rw [if_neg (by simp)]
  by_cases hc : v.count ≥ 2
  · obtain ⟨hbase, hscr⟩ := scratchUsable_of_inv h hc
    have hnn : basePtr v ≠ SPtr.null := by
      unfold basePtr; cases hb : v.base with
      | none => rw [hb] at hbase; cases hbase
      | some p => simp
    rw [if_neg (by omega), if_neg hnn, hs, if_pos hc, scratch_in_block h hc]
    simp only [hscr, or_true, if_true]
    rcases Cstl.Sort.sort_sorted_perm fuel (stOf v) algo with ⟨s'', h1, hp, hsorted⟩ | hf
    · rw [hs] at h1
      cases h1
      have hperm := valsOf_stOf_perm hp
      have hmem : ∀ e ∈ s'.arr.toList, e.key = (e.id : Int) := by
        intro e he
        have := hp.mem_iff.mp he
        simp [stOf, toElem] at this
        obtain ⟨x, _, rfl⟩ := this
        rfl
      have hsv : (valsOf s').Pairwise (· ≤ ·) := by
        unfold valsOf
        rw [List.pairwise_map]
        refine List.Pairwise.imp_of_mem ?_ hsorted
        intro a b ha hb hab
        have := hmem a ha; have := hmem b hb
        omega
      rw [sorted_perm_unique hperm hsv]
    · rw [hs] at hf; cases hf
  · rw [if_pos (by omega), if_neg hc]

/-- … and for every selector but the random pivot (whose termination depends on `rand()`) the
array model's sort has an outcome with fuel `count`, so the equality holds outright; in particular for
`cstl_vector_sort` (= selector `CSTL_SORT_ALGORITHM_DEFAULT`) -/
theorem vsort_tie_total (v : Vector) (cmp priv swap : Opq) (algo : Nat) (h : Inv v) (halgo : algo ≠ 1) :
    c_priv_cstl_vector_sort (rawSortOn v.count v) v cmp priv swap algo = vsort v := by
  obtain ⟨s', hs, _, _⟩ := Cstl.Sort.sort_terminates v.count (stOf v) algo halgo (by simp [stOf, h.len])
  exact vsort_tie v.count v cmp priv swap algo h s' hs

/-- **`__cstl_vector_reverse` is the model's `vreverse`** (`count ≤ 2^31`: the C loop keeps its indices
in `int`, DESIGN section 7 "Bounds") -/
theorem vreverse_tie (v : Vector) (swap : Opq) (h : Inv v) (hcnt : v.count ≤ 2147483648) :
    c_priv_cstl_vector_reverse (rawReverseOn v) v swap = vreverse v := by
  rw [vreverse_args]
  unfold rawReverseOn vreverse
  rw [if_neg (by simp)]
  by_cases hc : v.count ≥ 2
  · obtain ⟨hbase, hscr⟩ := scratchUsable_of_inv h hc
    have hnn : basePtr v ≠ SPtr.null := by
      unfold basePtr; cases hb : v.base with
      | none => rw [hb] at hbase; cases hbase
      | some p => simp
    have hsz : (stOf v).arr.size = v.count := by simp [stOf, h.len]
    obtain ⟨s', h1, h2, _, _⟩ := Cstl.Sort.reverse_mirror (stOf v) (by omega)
    rw [if_neg (by omega), if_neg hnn, h1, if_pos hc, scratch_in_block h hc]
    simp only [hscr, or_true, if_true]
    have : valsOf s' = v.elems.reverse := by
      unfold valsOf
      rw [h2]
      simp [stOf, toElem, List.map_reverse, List.map_map, Function.comp_def]
    rw [this]
  · rw [if_pos (by omega), if_neg hc]

/-! ## 2. strings -/

/-- what `cstl_STRING_str` returns: the storage, or the static NUL of the instantiation -/
def strPtr (v : Vector) : SPtr :=
  match v.base with
  | none => .nul 0
  | some _ => .stor 0

theorem str_tie (v : Vector) : c_cstl_string_str v = strPtr v := by
  unfold c_cstl_string_str c_cstl_string_data c_cstl_vector_data basePtr strPtr
  cases v.base <;> simp

theorem wstr_tie (v : Vector) : c_cstl_wstring_str v = strPtr v := by
  unfold c_cstl_wstring_str c_cstl_wstring_data c_cstl_vector_data basePtr strPtr
  cases v.base <;> simp

theorem strPtr_ne_null (v : Vector) : strPtr v ≠ SPtr.null := by
  unfold strPtr; cases v.base <;> simp

theorem strSize_tie2 (v : Vector) (hc : v.count ≤ W) : c_cstl_string_size v = strSize v := by
  simp only [c_cstl_string_size, c_cstl_vector_size, strSize]
  by_cases h : v.count > 0
  · simp only [h, if_true]; exact Tie.subW_one h hc
  · simp only [h, if_false]; omega

theorem wstrSize_tie2 (v : Vector) (hc : v.count ≤ W) : c_cstl_wstring_size v = strSize v := by
  simp only [c_cstl_wstring_size, c_cstl_vector_size, strSize]
  by_cases h : v.count > 0
  · simp only [h, if_true]; exact Tie.subW_one h hc
  · simp only [h, if_false]; omega

/-- the model's `cstrFrom` as the result of a C-library read -/
def ofView : Option (List Nat) → Except Stop (List Nat)
  | some l => .ok l
  | none => .error .oob

/-- what the C library reads at `str()` is the model's `cstrFrom · 0` -/
theorem str_view (v : Vector) : viewAt v (strPtr v) = ofView (cstrFrom v 0) := by
  unfold strPtr cstrFrom
  cases hb : v.base with
  | none => simp [viewAt, unitsAt, cview, ofView]
  | some p =>
    simp only [viewAt, unitsAt, hb, Nat.zero_mod, Nat.zero_div, List.drop_zero, if_true, cview]
    split <;> rfl

theorem addW_zero_left {x : Nat} (hx : x < W) : addW 0 x = x := by
  unfold addW; rw [Nat.zero_add]; exact Nat.mod_eq_of_lt hx

theorem subW_zero_right {x : Nat} (hx : x < W) : subW x 0 = x := by
  unfold subW; rw [W_eq] at *; omega

/-- inside the block of a vector satisfying `Inv`, `k * esz` does not wrap for `k ≤ cap` -/
theorem mul_in_block {v : Vector} (h : Inv v) {b n : Nat} (hb : v.base = some (b, n)) {k : Nat} (hk : k ≤ v.cap) :
    k * v.esz < W ∧ mulW k v.esz = k * v.esz := by
  have hn := h.bytes b n hb
  have hlt := h.bytes_lt b n hb
  have hexp : (v.cap + 1) * v.esz = v.cap * v.esz + v.esz := by rw [Nat.add_mul]; simp
  have := Nat.mul_le_mul_right v.esz hk
  have h1 : k * v.esz < W := by omega
  exact ⟨h1, mulW_of_lt h1⟩

/-- a NUL-terminated read at unit `pos` of the storage -/
theorem viewAt_stor {v : Vector} (h : Inv v) {b n : Nat} (hb : v.base = some (b, n)) (pos : Nat) :
    viewAt v (SPtr.stor (pos * v.esz)) = ofView (cstrFrom v pos) := by
  have he := h.esz_pos
  simp only [viewAt, unitsAt, hb, Nat.mul_mod_left, if_true, Nat.mul_div_cancel _ he, cview, cstrFrom]
  split <;> rfl

theorem strchrM_le {view : List Nat} {c i : Nat} (h : strchrM view c = some i) : i ≤ view.length := by
  unfold strchrM at h
  split at h
  · cases h; exact Nat.le_refl _
  · simp only at h
    split at h
    · cases h; omega
    · cases h

theorem strstrM_le (ndl : List Nat) : ∀ (hay : List Nat) (i : Nat), strstrM ndl hay = some i → i ≤ hay.length
  | [], i, h => by
    unfold strstrM at h
    split at h
    · cases h; simp
    · cases h
  | x :: t, i, h => by
    unfold strstrM at h
    split at h
    · cases h; simp
    · cases h2 : strstrM ndl t with
      | none => rw [h2] at h; cases h
      | some j =>
        rw [h2] at h
        cases h
        have := strstrM_le ndl t j h2
        simp; omega

theorem takeWhile_length_le (p : Nat → Bool) : ∀ l : List Nat, (l.takeWhile p).length ≤ l.length
  | [] => by simp
  | x :: xs => by
    rw [List.takeWhile_cons]
    split
    · simp; exact takeWhile_length_le p xs
    · simp

theorem cstrFrom_len {v : Vector} {pos : Nat} {view : List Nat} (h : cstrFrom v pos = some view) (hl : v.elems.length = v.count) :
    pos + view.length ≤ max pos v.count := by
  unfold cstrFrom at h
  cases hb : v.base with
  | none =>
    rw [hb] at h
    simp only at h
    split at h
    · cases h; simp; omega
    · cases h
  | some p =>
    rw [hb] at h
    simp only at h
    split at h
    · cases h
      have := takeWhile_length_le (fun x => x != 0) (v.elems.drop pos)
      simp only [List.length_drop] at this
      omega
    · cases h


/-- pointers and indices inside the storage of a string that satisfies `Inv` -/
theorem stor_idx {v : Vector} (h : Inv v) {b n : Nat} (hb : v.base = some (b, n)) {k : Nat} (hk : k ≤ v.cap) :
    SPtr.add (strPtr v) (mulW k v.esz) = SPtr.stor (k * v.esz) := by
  obtain ⟨h1, h2⟩ := mul_in_block h hb hk
  simp only [strPtr, hb, SPtr.add, h2, addW_zero_left h1]

theorem stor_idx_add {v : Vector} (h : Inv v) {b n : Nat} (hb : v.base = some (b, n)) {p i : Nat} (hk : p + i ≤ v.cap) :
    SPtr.add (SPtr.stor (p * v.esz)) (mulW i v.esz) = SPtr.stor ((p + i) * v.esz) := by
  obtain ⟨h1, h2⟩ := mul_in_block h hb hk
  obtain ⟨h3, h4⟩ := mul_in_block h hb (show i ≤ v.cap by omega)
  simp only [SPtr.add, h4]
  congr 1
  unfold addW
  rw [← Nat.add_mul]
  exact Nat.mod_eq_of_lt h1

theorem idx_of_stor {v : Vector} (h : Inv v) {b n : Nat} (hb : v.base = some (b, n)) {k : Nat} (hk : k ≤ v.cap)
    (hcnt : k < 2 ^ 63) :
    toSsize (SPtr.diff (SPtr.stor (k * v.esz)) (strPtr v) / v.esz) = (k : Int) := by
  obtain ⟨h1, h2⟩ := mul_in_block h hb hk
  simp only [strPtr, hb, SPtr.diff, subW_zero_right h1, Nat.mul_div_cancel _ h.esz_pos]
  exact toSsize_small hcnt

theorem stor_inj {v : Vector} (h : Inv v) {a b : Nat} : (SPtr.stor (a * v.esz) = SPtr.stor (b * v.esz)) ↔ a = b := by
  constructor
  · intro e
    injection e with e
    exact Nat.eq_of_mul_eq_mul_right h.esz_pos e
  · intro e; rw [e]

/-- the body of `find_ch` after `str` and `size` have been identified -/
def findChBody (w : Nat) (v : Vector) (c pos : Nat) : Except Stop Int :=
  if pos ≥ strSize v then .error .abort else
  andThen (libcChr w v (SPtr.add (strPtr v) (mulW pos v.esz)) c) fun f =>
  .ok (if (f ≠ SPtr.null) ∧ (f ≠ SPtr.add (strPtr v) (mulW (strSize v) v.esz))
       then toSsize (SPtr.diff f (strPtr v) / v.esz) else (-1 : Int))

theorem strSize_pos_base {v : Vector} (h : Inv v) {pos : Nat} (hp : pos < strSize v) :
    ∃ b n, v.base = some (b, n) ∧ strSize v = v.count - 1 ∧ 2 ≤ v.count := by
  have hs : strSize v = v.count - 1 ∧ 2 ≤ v.count := by
    unfold strSize at hp ⊢; split at hp <;> (split <;> omega)
  cases hb : v.base with
  | none => have := h.none_cap hb; have := h.count_le_cap; omega
  | some p => exact ⟨p.1, p.2, rfl, hs⟩

theorem findCh_core (w : Nat) (v : Vector) (c pos : Nat) (h : Inv v) (hw : v.esz = w) (hcnt : v.count < 2 ^ 63) :
    findChBody w v c pos = (findCh v c pos).map optIdx := by
  unfold findChBody findCh
  by_cases hp : pos ≥ strSize v
  · simp only [hp, if_true]; rfl
  · simp only [hp, if_false]
    obtain ⟨b, n, hb, hsz, hc2⟩ := strSize_pos_base h (by omega : pos < strSize v)
    have hcc := h.count_le_cap
    rw [stor_idx h hb (by omega), stor_idx h hb (by omega)]
    unfold libcChr
    rw [if_neg (by omega), viewAt_stor h hb]
    cases hv : cstrFrom v pos with
    | none => rfl
    | some view =>
      have hlen := cstrFrom_len hv h.len
      simp only [ofView, andThen_ok]
      cases hm : strchrM view c with
      | none => simp [andThen_ok, Except.map, optIdx]
      | some i =>
        have hi := strchrM_le hm
        have hle : pos + i ≤ v.cap := by omega
        simp only [andThen_ok]
        rw [stor_idx_add h hb hle, idx_of_stor h hb hle (by omega)]
        simp only [ne_eq, reduceCtorEq, not_false_eq_true, true_and, stor_inj h]
        by_cases he : pos + i = strSize v
        · simp [he, Except.map, optIdx]
        · simp [he, Except.map, optIdx]

theorem findCh_tie (v : Vector) (c pos : Nat) (h : Inv v) (hw : v.esz = 1) (hcnt : v.count < 2 ^ 63) :
    c_cstl_string_find_ch v c pos = (findCh v c pos).map optIdx := by
  have hc : v.count ≤ W := by have := h.count_le_cap; rw [W_eq]; omega
  rw [← findCh_core 1 v c pos h hw hcnt]
  simp only [c_cstl_string_find_ch, str_tie, strSize_tie2 v hc, findChBody]

theorem wfindCh_tie (v : Vector) (c pos : Nat) (h : Inv v) (hw : v.esz = 4) (hcnt : v.count < 2 ^ 63) :
    c_cstl_wstring_find_ch v c pos = (findCh v c pos).map optIdx := by
  have hc : v.count ≤ W := by have := h.count_le_cap; rw [W_eq]; omega
  rw [← findCh_core 4 v c pos h hw hcnt]
  simp only [c_cstl_wstring_find_ch, wstr_tie, wstrSize_tie2 v hc, findChBody]


/-- the body of `find_str` -/
def findStrBody (w : Nat) (v : Vector) (n : Except Stop (List Nat)) (pos : Nat) : Except Stop Int :=
  if pos ≥ strSize v then .error .abort else
  andThen (libcStr w v (SPtr.add (strPtr v) (mulW pos v.esz)) n) fun f =>
  .ok (if f ≠ SPtr.null then toSsize (SPtr.diff f (strPtr v) / v.esz) else (-1 : Int))

theorem findStr_core (w : Nat) (v : Vector) (ndl : List Nat) (pos : Nat) (h : Inv v) (hw : v.esz = w)
    (hcnt : v.count < 2 ^ 63) :
    findStrBody w v (.ok ndl) pos = (findStr v ndl pos).map optIdx := by
  unfold findStrBody findStr
  by_cases hp : pos ≥ strSize v
  · simp only [hp, if_true]; rfl
  · simp only [hp, if_false]
    obtain ⟨b, n, hb, hsz, hc2⟩ := strSize_pos_base h (by omega : pos < strSize v)
    have hcc := h.count_le_cap
    rw [stor_idx h hb (by omega)]
    unfold libcStr
    rw [if_neg (by omega), viewAt_stor h hb]
    cases hv : cstrFrom v pos with
    | none => rfl
    | some view =>
      have hlen := cstrFrom_len hv h.len
      simp only [ofView, andThen_ok]
      cases hm : strstrM ndl view with
      | none => simp [andThen_ok, Except.map, optIdx]
      | some i =>
        have hi := strstrM_le ndl view i hm
        have hle : pos + i ≤ v.cap := by omega
        simp only [andThen_ok]
        rw [stor_idx_add h hb hle, idx_of_stor h hb hle (by omega)]
        simp [Except.map, optIdx]

/-- an unterminated needle: the library reads past the caller's array (after the position check) -/
theorem findStr_core_oob (w : Nat) (v : Vector) (e : Stop) (pos : Nat) (h : Inv v) (hw : v.esz = w) :
    findStrBody w v (.error e) pos =
      if pos ≥ strSize v then .error .abort
      else match cstrFrom v pos with
        | none => .error .oob
        | some _ => .error e := by
  unfold findStrBody
  by_cases hp : pos ≥ strSize v
  · simp only [hp, if_true]
  · simp only [hp, if_false]
    obtain ⟨b, n, hb, hsz, hc2⟩ := strSize_pos_base h (by omega : pos < strSize v)
    have hcc := h.count_le_cap
    rw [stor_idx h hb (by omega)]
    unfold libcStr
    rw [if_neg (by omega), viewAt_stor h hb]
    cases hv : cstrFrom v pos <;> rfl

theorem findStr_tie (v : Vector) (n ndl : List Nat) (pos : Nat) (h : Inv v) (hw : v.esz = 1)
    (hcnt : v.count < 2 ^ 63) (hn : cview n = .ok ndl) :
    c_cstl_string_find_str v n pos = (findStr v ndl pos).map optIdx := by
  have hc : v.count ≤ W := by have := h.count_le_cap; rw [W_eq]; omega
  rw [← findStr_core 1 v ndl pos h hw hcnt, ← hn]
  simp only [c_cstl_string_find_str, str_tie, strSize_tie2 v hc, findStrBody]

theorem wfindStr_tie (v : Vector) (n ndl : List Nat) (pos : Nat) (h : Inv v) (hw : v.esz = 4)
    (hcnt : v.count < 2 ^ 63) (hn : cview n = .ok ndl) :
    c_cstl_wstring_find_str v n pos = (findStr v ndl pos).map optIdx := by
  have hc : v.count ≤ W := by have := h.count_le_cap; rw [W_eq]; omega
  rw [← findStr_core 4 v ndl pos h hw hcnt, ← hn]
  simp only [c_cstl_wstring_find_str, wstr_tie, wstrSize_tie2 v hc, findStrBody]

/-- what a callee reads in the array `str(o)` hands it: the model's `cstrFrom o 0` -/
theorem cview_str (o : Vector) : cview (unitsAt o (strPtr o)) = ofView (cstrFrom o 0) := by
  have := str_view o
  unfold viewAt at this
  have hne := strPtr_ne_null o
  cases hp : strPtr o with
  | null => exact absurd hp hne
  | nul k => rw [hp] at this; exact this
  | stor k => rw [hp] at this; exact this

/-- `find(hay, ndl, pos)` = `find_str(hay, str(ndl), pos)`: the model's `findStr` on what is stored in `ndl` -/
theorem find_tie (hay ndl : Vector) (pos : Nat) (h : Inv hay) (hw : hay.esz = 1) (hcnt : hay.count < 2 ^ 63)
    (view : List Nat) (hn : cstrFrom ndl 0 = some view) :
    c_cstl_string_find hay ndl pos = (findStr hay view pos).map optIdx := by
  unfold c_cstl_string_find
  rw [str_tie, findStr_tie hay _ view pos h hw hcnt (by rw [cview_str, hn]; rfl)]
  exact andThen_assoc_ok _

theorem wfind_tie (hay ndl : Vector) (pos : Nat) (h : Inv hay) (hw : hay.esz = 4) (hcnt : hay.count < 2 ^ 63)
    (view : List Nat) (hn : cstrFrom ndl 0 = some view) :
    c_cstl_wstring_find hay ndl pos = (findStr hay view pos).map optIdx := by
  unfold c_cstl_wstring_find
  rw [wstr_tie, wfindStr_tie hay _ view pos h hw hcnt (by rw [cview_str, hn]; rfl)]
  exact andThen_assoc_ok _

/-! ### compare -/

theorem compareStr_core (w : Nat) (v : Vector) (raw : Except Stop (List Nat)) (hw : v.esz = w) :
    libcCmp w v (strPtr v) raw =
      match cstrFrom v 0, raw with
      | none, _ => .error .oob
      | some _, .error e => .error e
      | some a, .ok r => .ok (strcmpM (unitKey v.esz) a r) := by
  unfold libcCmp
  rw [if_neg (by omega), str_view, hw]
  cases cstrFrom v 0 with
  | none => rfl
  | some a => cases raw <;> rfl

/-- `compare_str(s, str)` = sign of `strcmp(str(s), str)`: the model's `compareStr` on the units before the
NUL of the caller's array -/
theorem compareStr_tie (v : Vector) (raw r : List Nat) (hw : v.esz = 1) (hn : cview raw = .ok r) :
    c_cstl_string_compare_str v raw = compareStr v r := by
  unfold c_cstl_string_compare_str compareStr
  rw [str_tie, andThen_assoc_ok, compareStr_core 1 v _ hw, hn]
  cases cstrFrom v 0 <;> rfl

theorem wcompareStr_tie (v : Vector) (raw r : List Nat) (hw : v.esz = 4) (hn : cview raw = .ok r) :
    c_cstl_wstring_compare_str v raw = compareStr v r := by
  unfold c_cstl_wstring_compare_str compareStr
  rw [wstr_tie, andThen_assoc_ok, compareStr_core 4 v _ hw, hn]
  cases cstrFrom v 0 <;> rfl

/-- `compare(s1, s2)` = `compare_str(s1, str(s2))` -/
theorem compare_tie (s1 s2 : Vector) (hw : s1.esz = 1) :
    c_cstl_string_compare s1 s2 =
      match cstrFrom s2 0 with
      | some r => compareStr s1 r
      | none => .error .oob := by
  unfold c_cstl_string_compare c_cstl_string_compare_str
  rw [str_tie, str_tie, andThen_assoc_ok, andThen_assoc_ok, compareStr_core 1 s1 _ hw, cview_str]
  unfold compareStr
  cases cstrFrom s2 0 <;> cases cstrFrom s1 0 <;> rfl

theorem wcompare_tie (s1 s2 : Vector) (hw : s1.esz = 4) :
    c_cstl_wstring_compare s1 s2 =
      match cstrFrom s2 0 with
      | some r => compareStr s1 r
      | none => .error .oob := by
  unfold c_cstl_wstring_compare c_cstl_wstring_compare_str
  rw [wstr_tie, wstr_tie, andThen_assoc_ok, andThen_assoc_ok, compareStr_core 4 s1 _ hw, cview_str]
  unfold compareStr
  cases cstrFrom s2 0 <;> cases cstrFrom s1 0 <;> rfl


/-! ### the `strlen`-based entry points -/

theorem eff_eta (x : Eff) : (bindF x fun r => some (.ok (r.1, ([] : List Ev) ++ r.2))) = x := by
  cases x with
  | none => rfl
  | some e =>
    cases e with
    | error s => rfl
    | ok a => simp [bindF]

/-- `insert_str(s, pos, str)` = `insert_str_n(s, pos, str, strlen(str))`, for every callee -/
theorem insertStr_args (k : Vector → Nat → List Nat → Nat → Eff) (s : Vector) (pos : Nat) (str : List Nat) :
    c_cstl_string_insert_str k s pos str =
      bindF (some (libcLen 1 s.esz (cview str))) fun n => k s pos str n := by
  unfold c_cstl_string_insert_str
  cases libcLen 1 s.esz (cview str) with
  | error e => rfl
  | ok n => simp only [bindF_some_ok]; exact eff_eta _

theorem winsertStr_args (k : Vector → Nat → List Nat → Nat → Eff) (s : Vector) (pos : Nat) (str : List Nat) :
    c_cstl_wstring_insert_str k s pos str =
      bindF (some (libcLen 4 s.esz (cview str))) fun n => k s pos str n := by
  unfold c_cstl_wstring_insert_str
  cases libcLen 4 s.esz (cview str) with
  | error e => rfl
  | ok n => simp only [bindF_some_ok]; exact eff_eta _

/-- `append_str(s, str)` = `insert_str(s, size(s), str)` -/
theorem appendStr_args (k : Vector → Nat → List Nat → Nat → Eff) (s : Vector) (str : List Nat) (hc : s.count ≤ W) :
    c_cstl_string_append_str k s str = c_cstl_string_insert_str k s (strSize s) str := by
  unfold c_cstl_string_append_str
  rw [strSize_tie2 s hc]
  exact eff_eta _

theorem wappendStr_args (k : Vector → Nat → List Nat → Nat → Eff) (s : Vector) (str : List Nat) (hc : s.count ≤ W) :
    c_cstl_wstring_append_str k s str = c_cstl_wstring_insert_str k s (strSize s) str := by
  unfold c_cstl_wstring_append_str
  rw [wstrSize_tie2 s hc]
  exact eff_eta _

/-- `set_str(s, str)` = `resize(s, 0)` then `append_str(s, str)` on the resized object; the events of
both, in order -/
theorem setStr_args (kr : Vector → Nat → Eff) (ki : Vector → Nat → List Nat → Nat → Eff) (s : Vector) (str : List Nat) :
    c_cstl_string_set_str kr ki s str =
      bindF (kr s 0) fun r1 => bindF (c_cstl_string_append_str ki r1.1 str) fun r2 =>
        some (.ok (r2.1, r1.2 ++ r2.2)) := by
  unfold c_cstl_string_set_str
  simp only [List.nil_append]

theorem wsetStr_args (kr : Vector → Nat → Eff) (ki : Vector → Nat → List Nat → Nat → Eff) (s : Vector) (str : List Nat) :
    c_cstl_wstring_set_str kr ki s str =
      bindF (kr s 0) fun r1 => bindF (c_cstl_wstring_append_str ki r1.1 str) fun r2 =>
        some (.ok (r2.1, r1.2 ++ r2.2)) := by
  unfold c_cstl_wstring_set_str
  simp only [List.nil_append]

theorem libcLen_ok {w cw : Nat} {str view : List Nat} (hw : cw = w) (hn : cview str = .ok view) :
    libcLen w cw (cview str) = .ok view.length := by
  unfold libcLen
  rw [if_neg (by omega), hn]; rfl

/-- with the model's `insertStrN` as the callee: `insert_str` is `insertStrN` with the length of the
caller's string -/
theorem insertStr_tie (ans : Nat → Bool) (id : Nat) (s : Vector) (pos : Nat) (str view : List Nat)
    (hw : s.esz = 1) (hn : cview str = .ok view) :
    c_cstl_string_insert_str (fun v p a n => some (insertStrN ans id v p a n)) s pos str =
      some (insertStrN ans id s pos str view.length) := by
  rw [insertStr_args, libcLen_ok hw hn]; rfl

theorem winsertStr_tie (ans : Nat → Bool) (id : Nat) (s : Vector) (pos : Nat) (str view : List Nat)
    (hw : s.esz = 4) (hn : cview str = .ok view) :
    c_cstl_wstring_insert_str (fun v p a n => some (insertStrN ans id v p a n)) s pos str =
      some (insertStrN ans id s pos str view.length) := by
  rw [winsertStr_args, libcLen_ok hw hn]; rfl

theorem appendStr_tie (ans : Nat → Bool) (id : Nat) (s : Vector) (str view : List Nat)
    (hw : s.esz = 1) (hc : s.count ≤ W) (hn : cview str = .ok view) :
    c_cstl_string_append_str (fun v p a n => some (insertStrN ans id v p a n)) s str =
      some (insertStrN ans id s (strSize s) str view.length) := by
  rw [appendStr_args _ s str hc, insertStr_tie ans id s _ str view hw hn]

theorem wappendStr_tie (ans : Nat → Bool) (id : Nat) (s : Vector) (str view : List Nat)
    (hw : s.esz = 4) (hc : s.count ≤ W) (hn : cview str = .ok view) :
    c_cstl_wstring_append_str (fun v p a n => some (insertStrN ans id v p a n)) s str =
      some (insertStrN ans id s (strSize s) str view.length) := by
  rw [wappendStr_args _ s str hc, winsertStr_tie ans id s _ str view hw hn]

/-- `set_str` on the model: `strResize 0`, then `insertStrN` at the (new) size with `strlen(str)`;
`s` represents a string (`StrRep`, the C10 invariant) -/
theorem setStr_tie (ans ans2 : Nat → Bool) (id id2 : Nat) (s : Vector) (rep str view : List Nat)
    (hrep : StrRep s rep) (hw : s.esz = 1) (hn : cview str = .ok view) :
    c_cstl_string_set_str (fun v n => some (strResize ans id v n)) (fun v p a n => some (insertStrN ans2 id2 v p a n)) s str =
      some (andThen (strResize ans id s 0) fun r1 =>
            andThen (insertStrN ans2 id2 r1.1 (strSize r1.1) str view.length) fun r2 =>
            .ok (r2.1, r1.2 ++ r2.2)) := by
  rw [setStr_args]
  cases hr : strResize ans id s 0 with
  | error e => rfl
  | ok r1 =>
    obtain ⟨v1, e1⟩ := r1
    obtain ⟨hrep1, hesz, hpos⟩ := strResize_refines hrep (by rw [W_eq]; omega) hr
    have hc1 : v1.count ≤ W := by have := hrep1.ok.inv.count_le_cap; have := hrep1.ok.inv.cap_lt_W; omega
    simp only [bindF_some_ok, andThen_ok]
    rw [appendStr_tie ans2 id2 v1 str view (by omega) hc1 hn]
    cases insertStrN ans2 id2 v1 (strSize v1) str view.length <;> rfl

theorem wsetStr_tie (ans ans2 : Nat → Bool) (id id2 : Nat) (s : Vector) (rep str view : List Nat)
    (hrep : StrRep s rep) (hw : s.esz = 4) (hn : cview str = .ok view) :
    c_cstl_wstring_set_str (fun v n => some (strResize ans id v n)) (fun v p a n => some (insertStrN ans2 id2 v p a n)) s str =
      some (andThen (strResize ans id s 0) fun r1 =>
            andThen (insertStrN ans2 id2 r1.1 (strSize r1.1) str view.length) fun r2 =>
            .ok (r2.1, r1.2 ++ r2.2)) := by
  rw [wsetStr_args]
  cases hr : strResize ans id s 0 with
  | error e => rfl
  | ok r1 =>
    obtain ⟨v1, e1⟩ := r1
    obtain ⟨hrep1, hesz, hpos⟩ := strResize_refines hrep (by rw [W_eq]; omega) hr
    have hc1 : v1.count ≤ W := by have := hrep1.ok.inv.count_le_cap; have := hrep1.ok.inv.cap_lt_W; omega
    simp only [bindF_some_ok, andThen_ok]
    rw [wappendStr_tie ans2 id2 v1 str view (by omega) hc1 hn]
    cases insertStrN ans2 id2 v1 (strSize v1) str view.length <;> rfl


/-! ### … with the translations of Cstl/Gen/VecC.lean as the callees -/

theorem insertStr_tie_c (fuel : Nat) (ans : Nat → Bool) (newId : Nat) (v : Vector) (pos : Nat) (str view : List Nat)
    (hw : v.esz = 1) (hn : cview str = .ok view)
    (hc : v.count < W) (hl : v.elems.length = v.count) (hf : W ≤ fuel) :
    c_cstl_string_insert_str (Cstl.Gen.VecC.c_cstl_string_insert_str_n fuel ans newId) v pos str =
      some (insertStrN ans newId v pos str view.length) := by
  rw [insertStr_args, libcLen_ok hw hn, bindF_some_ok]
  exact Tie.insertStrN_tie fuel ans newId v pos str view.length hc hl hf

theorem winsertStr_tie_c (fuel : Nat) (ans : Nat → Bool) (newId : Nat) (v : Vector) (pos : Nat) (str view : List Nat)
    (hw : v.esz = 4) (hn : cview str = .ok view)
    (hc : v.count < W) (hl : v.elems.length = v.count) (hf : W ≤ fuel) :
    c_cstl_wstring_insert_str (Cstl.Gen.VecC.c_cstl_wstring_insert_str_n fuel ans newId) v pos str =
      some (insertStrN ans newId v pos str view.length) := by
  rw [winsertStr_args, libcLen_ok hw hn, bindF_some_ok]
  exact Tie.winsertStrN_tie fuel ans newId v pos str view.length hc hl hf

theorem appendStr_tie_c (fuel : Nat) (ans : Nat → Bool) (newId : Nat) (v : Vector) (str view : List Nat)
    (hw : v.esz = 1) (hn : cview str = .ok view)
    (hc : v.count < W) (hl : v.elems.length = v.count) (hf : W ≤ fuel) :
    c_cstl_string_append_str (Cstl.Gen.VecC.c_cstl_string_insert_str_n fuel ans newId) v str =
      some (insertStrN ans newId v (strSize v) str view.length) := by
  rw [appendStr_args _ v str (Nat.le_of_lt hc)]
  exact insertStr_tie_c fuel ans newId v _ str view hw hn hc hl hf

theorem wappendStr_tie_c (fuel : Nat) (ans : Nat → Bool) (newId : Nat) (v : Vector) (str view : List Nat)
    (hw : v.esz = 4) (hn : cview str = .ok view)
    (hc : v.count < W) (hl : v.elems.length = v.count) (hf : W ≤ fuel) :
    c_cstl_wstring_append_str (Cstl.Gen.VecC.c_cstl_wstring_insert_str_n fuel ans newId) v str =
      some (insertStrN ans newId v (strSize v) str view.length) := by
  rw [wappendStr_args _ v str (Nat.le_of_lt hc)]
  exact winsertStr_tie_c fuel ans newId v _ str view hw hn hc hl hf

theorem setStr_tie_c (fuel : Nat) (ans : Nat → Bool) (newId : Nat) (s : Vector) (rep str view : List Nat)
    (hrep : StrRep s rep) (hw : s.esz = 1) (hn : cview str = .ok view) (hf : W ≤ fuel) :
    c_cstl_string_set_str (Cstl.Gen.VecC.c_cstl_string_resize fuel ans newId)
        (Cstl.Gen.VecC.c_cstl_string_insert_str_n fuel ans newId) s str =
      some (andThen (strResize ans newId s 0) fun r1 =>
            andThen (insertStrN ans newId r1.1 (strSize r1.1) str view.length) fun r2 =>
            .ok (r2.1, r1.2 ++ r2.2)) := by
  have hc : s.count < W := by have := hrep.ok.inv.count_le_cap; have := hrep.ok.inv.cap_lt_W; omega
  rw [setStr_args, Tie.strResize_tie fuel ans newId s 0 (by rw [W_eq]; omega) hc hrep.ok.inv.len hf]
  cases hr : strResize ans newId s 0 with
  | error e => rfl
  | ok r1 =>
    obtain ⟨v1, e1⟩ := r1
    obtain ⟨hrep1, hesz, hpos⟩ := strResize_refines hrep (by rw [W_eq]; omega) hr
    have hc1 : v1.count < W := by have := hrep1.ok.inv.count_le_cap; have := hrep1.ok.inv.cap_lt_W; omega
    simp only [bindF_some_ok, andThen_ok]
    rw [appendStr_tie_c fuel ans newId v1 str view (by omega) hn hc1 hrep1.ok.inv.len hf]
    cases insertStrN ans newId v1 (strSize v1) str view.length <;> rfl

theorem wsetStr_tie_c (fuel : Nat) (ans : Nat → Bool) (newId : Nat) (s : Vector) (rep str view : List Nat)
    (hrep : StrRep s rep) (hw : s.esz = 4) (hn : cview str = .ok view) (hf : W ≤ fuel) :
    c_cstl_wstring_set_str (Cstl.Gen.VecC.c_cstl_wstring_resize fuel ans newId)
        (Cstl.Gen.VecC.c_cstl_wstring_insert_str_n fuel ans newId) s str =
      some (andThen (strResize ans newId s 0) fun r1 =>
            andThen (insertStrN ans newId r1.1 (strSize r1.1) str view.length) fun r2 =>
            .ok (r2.1, r1.2 ++ r2.2)) := by
  have hc : s.count < W := by have := hrep.ok.inv.count_le_cap; have := hrep.ok.inv.cap_lt_W; omega
  rw [wsetStr_args, Tie.wstrResize_tie fuel ans newId s 0 (by rw [W_eq]; omega) hc hrep.ok.inv.len hf]
  cases hr : strResize ans newId s 0 with
  | error e => rfl
  | ok r1 =>
    obtain ⟨v1, e1⟩ := r1
    obtain ⟨hrep1, hesz, hpos⟩ := strResize_refines hrep (by rw [W_eq]; omega) hr
    have hc1 : v1.count < W := by have := hrep1.ok.inv.count_le_cap; have := hrep1.ok.inv.cap_lt_W; omega
    simp only [bindF_some_ok, andThen_ok]
    rw [wappendStr_tie_c fuel ans newId v1 str view (by omega) hn hc1 hrep1.ok.inv.len hf]
    cases insertStrN ans newId v1 (strSize v1) str view.length <;> rfl

/-! ### where the model and the C function part: an index that does not fit `ssize_t` -/

/-- the `ssize_t` the find functions would return for an index `k ≥ 2^63` is negative, while the
model's `findCh` / `findStr` return `some k` (such an object cannot exist: hypothesis
`v.count < 2^63` of the find ties) -/
theorem toSsize_large {k : Nat} (h1 : 2 ^ 63 ≤ k) (h2 : k < 2 ^ 64) : toSsize k < 0 := by
  unfold toSsize; rw [if_neg (by omega)]; omega

/-! ### concrete objects: the hypotheses are satisfiable, the translated functions compute -/

/-- the narrow string "abca" with capacity 7 -/
def demoStr : Vector :=
  { base := some (1, 8), esz := 1, count := 5, cap := 7, cons := false, dest := false, elems := [97, 98, 99, 97, 0] }

theorem demoStr_inv : Inv demoStr where
  count_le_cap := by decide
  none_cap := by intro h; cases h
  bytes := by intro b n h; cases h; rfl
  bytes_lt := by intro b n h; cases h; decide
  esz_pos := by decide
  len := rfl

theorem demo_find_ch_hit : c_cstl_string_find_ch demoStr 97 1 = .ok 3 := by rfl
theorem demo_find_ch_miss : c_cstl_string_find_ch demoStr 100 0 = .ok (-1) := by rfl
theorem demo_find_ch_nul : c_cstl_string_find_ch demoStr 0 0 = .ok (-1) := by rfl
theorem demo_find_ch_abort : c_cstl_string_find_ch demoStr 97 4 = .error .abort := by rfl
theorem demo_find_str_hit : c_cstl_string_find_str demoStr [99, 97, 0] 0 = .ok 2 := by rfl
theorem demo_find_str_miss : c_cstl_string_find_str demoStr [98, 98, 0] 0 = .ok (-1) := by rfl
theorem demo_compare_str : c_cstl_string_compare_str demoStr [97, 98, 100, 0] = .ok (-1) := by rfl
theorem demo_compare : c_cstl_string_compare demoStr demoStr = .ok 0 := by rfl
theorem demo_str : c_cstl_string_str (Vector.init 1 false false) = SPtr.nul 0 ∧ c_cstl_string_str demoStr = SPtr.stor 0 := by decide
theorem demo_compare_empty : c_cstl_string_compare_str (Vector.init 1 false false) [0] = .ok 0 := by rfl
theorem demo_model_find_ch : (findCh demoStr 97 1).map optIdx = .ok 3 := by rfl

/-- a vector of three 4-byte elements, capacity 3 (+ the scratch slot) -/
def demoVec : Vector :=
  { base := some (1, 16), esz := 4, count := 3, cap := 3, cons := false, dest := false, elems := [30, 10, 20] }

theorem demoVec_inv : Inv demoVec where
  count_le_cap := by decide
  none_cap := by intro h; cases h
  bytes := by intro b n h; cases h; rfl
  bytes_lt := by intro b n h; cases h; decide
  esz_pos := by decide
  len := rfl

theorem demo_scratch : c_priv_cstl_vector_at demoVec demoVec.cap = SPtr.stor 12 := by decide
theorem demo_sort : (c_priv_cstl_vector_sort (rawSortOn 10 demoVec) demoVec 0 0 0 2).toOption.map (·.elems) = some [10, 20, 30] := by
  decide

end Cstl.Vec.Tie2
