import Cstl.Gen.VecC
import Cstl.Vec.LemmasStr
/-
Translator tie for vector / strings (C09, C10): the definitions in
`Cstl/Gen/VecC.lean` are regenerated from /repo's src/vector.c, src/string.c
(+ src/_string.c and the inline functions of the two headers) by
tools/c2lean_vec.py on every check run; the theorems below (hand-written,
fixed) state that the hand-written model functions of `Cstl/Vec/Model.lean`
are exactly those translations.  A change to the integer guards, the size
computations, the loop bounds or the order of the steps of one of these C
functions changes its translation and the corresponding equality stops
checking.

Hypotheses that occur:
* `x < W` for values that are `size_t` in C (arguments, `count`): the
  translation computes `size - pos`, `sz--`, `SIZE_MAX - size` with the wrapping
  `subW` where the model uses truncated subtraction on `Nat` under a guard;
* `v.elems.length = v.count` (part of the model's invariant `Inv`) where the
  constructor loop stores into the slot that `count++` has just made live;
* `fuel`: functions that contain a loop (or call one) are translated with
  fuel; the tie holds for every sufficient amount (`W ≤ fuel` always is).

Every function the translator translates is tied here (vector: size,
capacity, `__cstl_vector_at`, at_const, at, set_capacity, reserve,
shrink_to_fit, resize incl. both callback loops, clear, swap; string, both
instantiations: size, capacity, reserve, `__at`, at, at_const, `__resize`,
resize incl. the fill loop, prep_insert, insert_ch incl. its loop,
insert_str_n, substr_prep, substr, erase, clear, swap, insert, append,
append_ch, append_str_n).  Not translated (correspondence remains the only tie):
`__cstl_vector_sort` / search / find / `__cstl_vector_reverse` (callbacks, untyped
elements), the init functions, `str` (kept abstract as `objChars`), find_ch /
find_str / find / compare(_str) (C library calls, pointer comparisons),
insert_str / append_str / set_str (`strlen`).
-/
namespace Cstl.Vec.Tie
open Cstl.Vec Cstl.Gen.VecC

/-! ### arithmetic helpers -/

theorem addW_zero_mulW (a b : Nat) : addW 0 (mulW a b) = mulW a b := by
  unfold addW mulW
  simp

theorem subW_of_le {a b : Nat} (h : b ≤ a) (ha : a < W) : subW a b = a - b := by
  unfold subW
  rw [W_eq] at *
  omega

theorem subW_one {c : Nat} (h0 : 0 < c) (hc : c ≤ W) : subW c 1 = c - 1 := by
  unfold subW
  rw [W_eq] at *
  omega

theorem addW_of_lt {a b : Nat} (h : a + b < W) : addW a b = a + b := by
  unfold addW
  exact Nat.mod_eq_of_lt h

/-! ### src/vector.c -/

theorem vsize_tie (v : Vector) : c_cstl_vector_size v = v.count := rfl
theorem vcapacity_tie (v : Vector) : c_cstl_vector_capacity v = v.cap := rfl

/-- `__cstl_vector_at`: the offset `i * elem.size` (mod 2^64) from `elem.base` -/
theorem vatOffset_tie (v : Vector) (i : Nat) : c_priv_cstl_vector_at v i = mulW i v.esz := by
  simp only [c_priv_cstl_vector_at, addW_zero_mulW]

/-- `cstl_vector_at_const`: `i >= count` aborts, otherwise the offset -/
theorem vat_tie (v : Vector) (i : Nat) : c_cstl_vector_at_const v i = vat v i := by
  simp only [c_cstl_vector_at_const, vat, vatOffset_tie]

theorem vat_public_tie (v : Vector) (i : Nat) : c_cstl_vector_at v i = vat v i := by
  simp only [c_cstl_vector_at, vat_tie]
  cases vat v i <;> rfl

/-- `cstl_vector_set_capacity`: the overflow guard `n == 0 || (size != 0 && n > SIZE_MAX / size)`,
the requested byte count `(sz + 1) * size` (both mod 2^64), commit only on a non-NULL answer -/
theorem setCapacity_tie (ans : Nat → Bool) (newId : Nat) (v : Vector) (sz : Nat) :
    c_cstl_vector_set_capacity ans newId v sz = setCapacity ans newId v sz := by
  simp only [c_cstl_vector_set_capacity, setCapacity]
  split
  · rfl
  · cases reallocM ans newId v.base (mulW (addW sz 1) v.esz) <;>
      simp [reallocEv, RRes.isBlock, setBase]

theorem reserve_tie (ans : Nat → Bool) (newId : Nat) (v : Vector) (sz : Nat) :
    c_cstl_vector_reserve ans newId v sz = reserve ans newId v sz := by
  simp only [c_cstl_vector_reserve, reserve, setCapacity_tie]
  split <;> simp

theorem shrink_tie (ans : Nat → Bool) (newId : Nat) (v : Vector) :
    c_cstl_vector_shrink_to_fit ans newId v = shrink ans newId v := by
  simp only [c_cstl_vector_shrink_to_fit, shrink, setCapacity_tie]
  split <;> simp

theorem vswap_tie (a b : Vector) : c_cstl_vector_swap a b = vswap a b := rfl

theorem setCount_succ (v : Vector) :
    setCount v (v.count + 1) = { v with count := v.count + 1, elems := v.elems ++ [undefV] } := by
  unfold setCount
  rw [if_pos (by omega)]
  simp

theorem setCount_pred (v : Vector) (h : 0 < v.count) :
    setCount v (v.count - 1) = { v with count := v.count - 1, elems := v.elems.take (v.count - 1) } := by
  unfold setCount
  rw [if_neg (by omega), if_pos (by omega)]

/-- `do { xtor(__cstl_vector_at(v, v->count++), priv); } while (v->count < sz);` with the
constructor: `k = sz - count` iterations, slots `count … sz-1` upward -/
theorem consLoop_tie (sz : Nat) (hsz : sz < W) :
    ∀ (k fuel : Nat) (v : Vector) (ev : List Ev),
      v.count + k = sz → 0 < k → k ≤ fuel → v.elems.length = v.count →
      c_cstl_vector_resize_loop1 sz FnPtr.cons fuel v ev =
        some (.ok ({ v with count := sz, elems := v.elems ++ List.replicate k ctorV },
                   ev ++ consUp k v.count)) := by
  intro k
  induction k with
  | zero => intro _ _ _ _ h; omega
  | succ k ih =>
    intro fuel v ev hk _ hf hl
    obtain ⟨f, rfl⟩ : ∃ f, fuel = f + 1 := ⟨fuel - 1, by omega⟩
    have h1 : addW v.count 1 = v.count + 1 := addW_of_lt (by omega)
    simp only [c_cstl_vector_resize_loop1, h1, setCount_succ, callX, bindF_some_ok]
    have hset : (v.elems ++ [undefV]).set v.count ctorV = v.elems ++ [ctorV] := by
      rw [← hl]; simp
    rw [hset]
    by_cases hlt : v.count + 1 < sz
    · rw [if_pos hlt]
      rw [ih f _ _ (by simp; omega) (by omega) (by omega) (by simp [hl])]
      simp [consUp, List.replicate_succ]
    · rw [if_neg hlt]
      have : k = 0 := by omega
      subst this
      have : v.count + 1 = sz := by omega
      simp [consUp, this]

/-- `do { xtor(__cstl_vector_at(v, --v->count), priv); } while (v->count > sz);` with the
destructor: `k = count - sz` iterations, slots `count-1 … sz` downward -/
theorem destLoop_tie (sz : Nat) :
    ∀ (k fuel : Nat) (v : Vector) (ev : List Ev),
      sz + k = v.count → 0 < k → k ≤ fuel → v.count ≤ W →
      c_cstl_vector_resize_loop2 sz FnPtr.dest fuel v ev =
        some (.ok ({ v with count := sz, elems := v.elems.take sz }, ev ++ destDown k v.count)) := by
  intro k
  induction k with
  | zero => intro _ _ _ _ h; omega
  | succ k ih =>
    intro fuel v ev hk _ hf hW
    obtain ⟨f, rfl⟩ : ∃ f, fuel = f + 1 := ⟨fuel - 1, by omega⟩
    have h1 : subW v.count 1 = v.count - 1 := subW_one (by omega) hW
    simp only [c_cstl_vector_resize_loop2, h1, setCount_pred v (by omega), callX, bindF_some_ok]
    by_cases hgt : v.count - 1 > sz
    · rw [if_pos hgt]
      rw [ih f _ _ (by simp; omega) (by omega) (by omega) (by simp; omega)]
      simp [destDown, List.take_take]
      omega
    · rw [if_neg hgt]
      have : k = 0 := by omega
      subst this
      have : v.count - 1 = sz := by omega
      simp [destDown, this]

theorem reserve_elems_length (ans : Nat → Bool) (id : Nat) (v : Vector) (sz : Nat) :
    (reserve ans id v sz).1.elems.length = v.elems.length := by
  unfold reserve
  split
  · rcases setCapacity_cases ans id v sz with ⟨h1, _⟩ | ⟨_, _, h1, _⟩ <;> rw [h1]
    simp [copyInto_length]
  · rfl

/-- `cstl_vector_resize`: reserve, abort iff `cap < sz` afterwards, which callback is
chosen, `count = sz` without one, otherwise the constructor loop upward / the destructor
loop downward with exactly the model's bounds -/
theorem resize_tie (fuel : Nat) (ans : Nat → Bool) (newId : Nat) (v : Vector) (sz : Nat)
    (hsz : sz < W) (hc : v.count < W) (hl : v.elems.length = v.count)
    (hf1 : sz - v.count ≤ fuel) (hf2 : v.count - sz ≤ fuel) :
    c_cstl_vector_resize fuel ans newId v sz = some (resize ans newId v sz) := by
  rw [resize_unfold]
  simp only [c_cstl_vector_resize, reserve_tie, List.nil_append]
  obtain ⟨hcnt, _, _, _⟩ := reserve_frame ans newId v sz
  have hlen := reserve_elems_length ans newId v sz
  generalize (reserve ans newId v sz).1 = v1 at *
  generalize (reserve ans newId v sz).2 = e1 at *
  by_cases hcap : v1.cap < sz
  · simp [hcap]
  · simp only [hcap, if_false]
    by_cases hlt : v1.count < sz
    · simp only [hlt, if_true]
      by_cases hcons : v1.cons = true
      · have : consPtr v1 = FnPtr.cons := by simp [consPtr, hcons]
        simp only [this]
        rw [if_neg (by decide), if_pos hcons,
          consLoop_tie sz hsz (sz - v1.count) fuel v1 e1 (by omega) (by omega) (by omega) (by omega)]
        rfl
      · have : consPtr v1 = FnPtr.null := by simp [consPtr, hcons]
        simp only [this]
        rw [if_pos trivial, if_neg hcons]
        simp [setCount, hlt]
    · simp only [hlt, if_false]
      by_cases hgt : v1.count > sz
      · simp only [hgt, if_true]
        by_cases hdest : v1.dest = true
        · have : destPtr v1 = FnPtr.dest := by simp [destPtr, hdest]
          simp only [this]
          rw [if_neg (by decide), if_pos hdest,
            destLoop_tie sz (v1.count - sz) fuel v1 e1 (by omega) (by omega) (by omega) (by omega)]
          rfl
        · have : destPtr v1 = FnPtr.null := by simp [destPtr, hdest]
          simp only [this]
          rw [if_pos trivial, if_neg hdest]
          simp [setCount, hlt, hgt]
      · simp [hgt, setCount, hlt]

/-- `resize(v, 0)` never asks the allocator -/
theorem resize_zero_ans (ans ans' : Nat → Bool) (id id' : Nat) (v : Vector) :
    resize ans id v 0 = resize ans' id' v 0 := by
  have h : ∀ a i, reserve a i v 0 = (v, []) := by
    intro a i; unfold reserve; rw [if_neg (by omega)]
  rw [resize_unfold, resize_unfold, h, h]

/-- `cstl_vector_clear`: `resize(v, 0)`, `free(base)`, `base = NULL`, `cap = 0` -/
theorem clear_tie (fuel : Nat) (ans : Nat → Bool) (newId : Nat) (v : Vector)
    (hc : v.count < W) (hl : v.elems.length = v.count) (hf : v.count ≤ fuel) :
    c_cstl_vector_clear fuel ans newId v = some (clear v) := by
  have hW : 0 < W := by rw [W_eq]; omega
  simp only [c_cstl_vector_clear, clear, resize_tie fuel ans newId v 0 hW hc hl (by omega) (by omega),
    resize_zero_ans ans (fun _ => false) newId 0 v]
  cases resize (fun _ => false) 0 v 0 with
  | error s => rfl
  | ok r =>
    obtain ⟨v1, e1⟩ := r
    simp only [bindF_some_ok, List.nil_append, freeEv, clearBase]
    cases v1.base with
    | none => rfl
    | some p => rfl

/-! ### src/_string.c, include/cstl/_string.h: narrow instantiation -/

/-- `cstl_STRING_size`: `sz = count; if (sz > 0) sz--;` -/
theorem strSize_tie (v : Vector) (hc : v.count ≤ W) : c_cstl_string_size v = strSize v := by
  simp only [c_cstl_string_size, c_cstl_vector_size, strSize]
  by_cases h : v.count > 0
  · simp only [h, if_true]; exact subW_one h hc
  · simp only [h, if_false]; omega

theorem strCap_tie (v : Vector) (hc : v.cap ≤ W) : c_cstl_string_capacity v = strCap v := by
  simp only [c_cstl_string_capacity, c_cstl_vector_capacity, strCap]
  by_cases h : v.cap > 0
  · simp only [h, if_true]; exact subW_one h hc
  · simp only [h, if_false]; omega

/-- `cstl_STRING_reserve`: `cstl_vector_reserve(&s->v, sz + 1)` with the wrapping `sz + 1` -/
theorem strReserve_tie (ans : Nat → Bool) (newId : Nat) (v : Vector) (sz : Nat) :
    c_cstl_string_reserve ans newId v sz = strReserve ans newId v sz := by
  simp [c_cstl_string_reserve, strReserve, reserve_tie]

/-- `STRF(__at, s, i)` = `data + i`: byte offset `i * sizeof(char_t)` mod 2^64 -/
theorem strAtOffset_tie (v : Vector) (i : Nat) : c_cstl_string___at v i = mulW i v.esz := by
  simp only [c_cstl_string___at, c_cstl_string_data, c_cstl_vector_data, addW_zero_mulW]

theorem strAt_tie (v : Vector) (i : Nat) (hc : v.count ≤ W) : c_cstl_string_at v i = strAt v i := by
  simp only [c_cstl_string_at, strAt, strSize_tie v hc, strAtOffset_tie]

theorem strAtConst_tie (v : Vector) (i : Nat) (hc : v.count ≤ W) : c_cstl_string_at_const v i = strAt v i := by
  simp only [c_cstl_string_at_const, strAt_tie v i hc]
  cases strAt v i <;> rfl

/-- `STRF(substr_prep)`: `pos >= size` aborts; the clamp `*len > size - pos` -/
theorem substrPrep_tie (v : Vector) (pos len : Nat) (hc : v.count ≤ W) :
    c_cstl_string_substr_prep v pos len = substrPrep v pos len := by
  simp only [c_cstl_string_substr_prep, substrPrep, strSize_tie v hc]
  have hs : strSize v < W := by
    unfold strSize; split <;> (rw [W_eq] at *; omega)
  split
  · rfl
  · rw [subW_of_le (by omega) hs]
    split <;> rfl

theorem substrPrep_lt_W {v : Vector} {pos len l : Nat} (h : substrPrep v pos len = .ok l)
    (hlen : len < W) (hc : v.count ≤ W) : l < W := by
  have hs : strSize v < W := by
    unfold strSize; split <;> (rw [W_eq] at *; omega)
  unfold substrPrep at h
  split at h
  · cases h
  · split at h <;> (cases h; omega)

theorem strSize_lt_W (v : Vector) (hc : v.count ≤ W) : strSize v < W := by
  unfold strSize; split <;> (rw [W_eq] at *; omega)

theorem addW_lt_W (a b : Nat) : addW a b < W := by
  unfold addW; exact Nat.mod_lt _ (by rw [W_eq]; omega)

theorem subW_lt_W (a b : Nat) : subW a b < W := by
  unfold subW; exact Nat.mod_lt _ (by rw [W_eq]; omega)

/-- `STRF(__resize)`: the guard `n == SIZE_MAX` (no room for the terminator), then
`cstl_vector_resize(&s->v, n + 1)` and the terminator store at offset `n * sizeof(char_t)` -/
theorem strResize0_tie (fuel : Nat) (ans : Nat → Bool) (newId : Nat) (v : Vector) (n : Nat)
    (hn : n < W) (hc : v.count < W) (hl : v.elems.length = v.count) (hf : W ≤ fuel) :
    c_cstl_string___resize fuel ans newId v n = some (strResize0 ans newId v n) := by
  simp only [c_cstl_string___resize, strResize0, ← addW_one_eq_zero_iff hn]
  split
  · rfl
  · have h1 := addW_lt_W n 1
    rw [resize_tie fuel ans newId v (addW n 1) h1 hc hl (by omega) (by omega)]
    apply bindF_some
    intro r
    simp only [List.nil_append, strAtOffset_tie, ← rawSet_eq]
    apply bindF_some
    intro v2
    rfl

/-- `while (sz < n) { *STRF(__at, s, sz++) = nul; }`: `n - sz` stores at `sz, sz+1, …` -/
theorem fillNulLoop_tie (n : Nat) (hn : n < W) :
    ∀ (k fuel : Nat) (s : Vector) (sz : Nat), n - sz = k → k < fuel →
      c_cstl_string_resize_loop1 n fuel s sz =
        some (andThen (fillLoop k s sz 0) fun s' => .ok (s', max sz n)) := by
  intro k
  induction k with
  | zero =>
    intro fuel s sz hk hf
    obtain ⟨f, rfl⟩ : ∃ f, fuel = f + 1 := ⟨fuel - 1, by omega⟩
    rw [c_cstl_string_resize_loop1, if_neg (by omega)]
    simp only [fillLoop, andThen_ok]
    rw [Nat.max_eq_left (by omega)]
  | succ k ih =>
    intro fuel s sz hk hf
    obtain ⟨f, rfl⟩ : ∃ f, fuel = f + 1 := ⟨fuel - 1, by omega⟩
    rw [c_cstl_string_resize_loop1, if_pos (by omega)]
    simp only [strAtOffset_tie, ← rawSet_eq, fillLoop]
    have h1 : addW sz 1 = sz + 1 := addW_of_lt (by omega)
    cases rawSet s sz 0 with
    | error e => rfl
    | ok s1 =>
      simp only [bindF_some_ok, andThen, h1]
      rw [ih f s1 (sz + 1) (by omega) (by omega)]
      rw [Nat.max_eq_right (by omega), Nat.max_eq_right (by omega)]
      rfl

/-- `cstl_STRING_resize`: `__resize`, then NUL-fill of the new characters -/
theorem strResize_tie (fuel : Nat) (ans : Nat → Bool) (newId : Nat) (v : Vector) (n : Nat)
    (hn : n < W) (hc : v.count < W) (hl : v.elems.length = v.count) (hf : W ≤ fuel) :
    c_cstl_string_resize fuel ans newId v n = some (strResize ans newId v n) := by
  simp only [c_cstl_string_resize, strResize, strSize_tie v (Nat.le_of_lt hc),
    strResize0_tie fuel ans newId v n hn hc hl hf]
  apply bindF_some
  intro r
  rw [fillNulLoop_tie n hn (n - strSize v) fuel r.1 (strSize v) rfl (by omega)]
  cases fillLoop (n - strSize v) r.1 (strSize v) 0 <;> rfl

/-- `STRF(prep_insert)`: `pos > size` aborts; `len > SIZE_MAX - size` aborts; `__resize(size + len)`;
`memmove` of `(size - pos) * sizeof(char_t)` bytes from offset `pos` to offset `pos + len` -/
theorem prepInsert_tie (fuel : Nat) (ans : Nat → Bool) (newId : Nat) (v : Vector) (pos len : Nat)
    (hc : v.count < W) (hl : v.elems.length = v.count) (hf : W ≤ fuel) :
    c_cstl_string_prep_insert fuel ans newId v pos len = some (prepInsert ans newId v pos len) := by
  have hs := strSize_lt_W v (Nat.le_of_lt hc)
  have hsub : subW SIZE_MAX (strSize v) = SIZE_MAX - strSize v :=
    subW_of_le (by rw [SIZE_MAX_eq]; rw [W_eq] at hs; omega) (by rw [SIZE_MAX_eq, W_eq]; omega)
  simp only [c_cstl_string_prep_insert, prepInsert, strSize_tie v (Nat.le_of_lt hc), hsub]
  split
  · rfl
  · split
    · split
      · rfl
      · rw [strResize0_tie fuel ans newId v _ (addW_lt_W _ _) hc hl hf]
        apply bindF_some
        intro r
        simp only [List.nil_append, strAtOffset_tie, ← rawMove_eq]
        apply bindF_some
        intro v2
        rfl
    · rfl

def idxAfter : Nat → Nat → Nat
  | i, 0 => i
  | i, k + 1 => idxAfter (addW i 1) k

/-- `while (cnt-- > 0) { *STRF(__at, s, idx++) = ch; }`: `cnt` stores at `idx, idx+1, …` -/
theorem fillChLoop_tie (ch : Nat) :
    ∀ (cnt fuel : Nat) (s : Vector) (idx : Nat), cnt < fuel → cnt < W →
      c_cstl_string_insert_ch_loop1 ch fuel s idx cnt =
        some (andThen (fillLoop cnt s idx ch) fun s' => .ok (s', idxAfter idx cnt, W - 1)) := by
  intro cnt
  induction cnt with
  | zero =>
    intro fuel s idx hf _
    obtain ⟨f, rfl⟩ : ∃ f, fuel = f + 1 := ⟨fuel - 1, by omega⟩
    rw [c_cstl_string_insert_ch_loop1]
    simp only [Nat.lt_irrefl, if_false, fillLoop, andThen_ok, idxAfter]
    have : subW 0 1 = W - 1 := by unfold subW; rw [W_eq]
    rw [this]
  | succ k ih =>
    intro fuel s idx hf hW
    obtain ⟨f, rfl⟩ : ∃ f, fuel = f + 1 := ⟨fuel - 1, by omega⟩
    rw [c_cstl_string_insert_ch_loop1]
    have h1 : subW (k + 1) 1 = k := by rw [subW_one (by omega) (by omega)]; omega
    simp only [h1, Nat.zero_lt_succ, if_true, strAtOffset_tie, ← rawSet_eq, fillLoop, idxAfter]
    cases rawSet s idx ch with
    | error e => rfl
    | ok s1 =>
      simp only [bindF_some_ok, andThen]
      rw [ih f s1 (addW idx 1) (by omega) (by omega)]
      rfl

/-- `cstl_STRING_insert_ch` -/
theorem insertCh_tie (fuel : Nat) (ans : Nat → Bool) (newId : Nat) (v : Vector) (idx cnt ch : Nat)
    (hcnt : cnt < W) (hc : v.count < W) (hl : v.elems.length = v.count) (hf : W ≤ fuel) :
    c_cstl_string_insert_ch fuel ans newId v idx cnt ch = some (insertCh ans newId v idx cnt ch) := by
  simp only [c_cstl_string_insert_ch, insertCh, prepInsert_tie fuel ans newId v idx cnt hc hl hf]
  apply bindF_some
  intro r
  rw [fillChLoop_tie ch cnt fuel r.1 idx (by omega) hcnt]
  cases fillLoop cnt r.1 idx ch <;> rfl

/-- `cstl_STRING_insert_str_n`: `memcpy` of `len * sizeof(char_t)` bytes to offset `idx` -/
theorem insertStrN_tie (fuel : Nat) (ans : Nat → Bool) (newId : Nat) (v : Vector) (idx : Nat)
    (src : List Nat) (len : Nat)
    (hc : v.count < W) (hl : v.elems.length = v.count) (hf : W ≤ fuel) :
    c_cstl_string_insert_str_n fuel ans newId v idx src len = some (insertStrN ans newId v idx src len) := by
  simp only [c_cstl_string_insert_str_n, insertStrN, prepInsert_tie fuel ans newId v idx len hc hl hf]
  apply bindF_some
  intro r
  simp only [List.nil_append, strAtOffset_tie, ← rawWrite_eq]
  apply bindF_some
  intro v2
  rfl

/-- `cstl_STRING_substr`: the clamp, `__resize(sub, len)`, `memcpy` of `len * sizeof(char_t)`
bytes from offset `idx` of `s` to offset 0 of `sub` -/
theorem substr_tie (fuel : Nat) (ans : Nat → Bool) (newId : Nat) (s : Vector) (idx len : Nat) (sub : Vector)
    (hlen : len < W) (hs : s.count ≤ W) (hc : sub.count < W) (hl : sub.elems.length = sub.count)
    (hf : W ≤ fuel) :
    c_cstl_string_substr fuel ans newId s idx len sub = some (substr ans newId s idx len sub) := by
  simp only [c_cstl_string_substr, substr, substrPrep_tie s idx len hs]
  cases h : substrPrep s idx len with
  | error e => rfl
  | ok len1 =>
    have h1 : len1 < W := substrPrep_lt_W h hlen hs
    rw [bindF_some_ok, andThen_ok, strResize0_tie fuel ans newId sub len1 h1 hc hl hf]
    apply bindF_some
    intro r
    simp only [List.nil_append, strAtOffset_tie, ← rawRead_eq, ← rawWrite_eq]
    apply bindF_some
    intro src
    apply bindF_some
    intro v2
    rfl

theorem rawMove_frame {v v1 : Vector} {d s b : Nat} (h : rawMove v d s b = .ok v1) :
    v1.count = v.count ∧ v1.elems.length = v.elems.length := by
  unfold rawMove at h
  split at h
  · cases h; exact ⟨rfl, rfl⟩
  · split at h
    · cases h
    · dsimp only at h
      split at h
      · cases h; exact ⟨rfl, by simp [writeAt_length]⟩
      · cases h

/-- `cstl_STRING_erase`: the clamp, `memmove` of `(size - (idx + len)) * sizeof(char_t)` bytes
from offset `idx + len` to offset `idx`, `__resize(size - len)` -/
theorem erase_tie (fuel : Nat) (ans : Nat → Bool) (newId : Nat) (v : Vector) (idx len : Nat)
    (hc : v.count < W) (hl : v.elems.length = v.count) (hf : W ≤ fuel) :
    c_cstl_string_erase fuel ans newId v idx len = some (erase ans newId v idx len) := by
  simp only [c_cstl_string_erase, erase, substrPrep_tie v idx len (Nat.le_of_lt hc),
    strSize_tie v (Nat.le_of_lt hc)]
  apply bindF_some
  intro len1
  simp only [List.nil_append, strAtOffset_tie, ← rawMove_eq]
  cases h : rawMove v idx (addW idx len1) (mulW (subW (strSize v) (addW idx len1)) v.esz) with
  | error e => rfl
  | ok v1 =>
    obtain ⟨h1, h2⟩ := rawMove_frame h
    rw [bindF_some_ok, andThen_ok,
      strResize0_tie fuel ans newId v1 _ (subW_lt_W _ _) (by omega) (by omega) hf]
    cases strResize0 ans newId v1 (subW (strSize v) len1) with
    | error e => rfl
    | ok r => rfl

theorem strClear_tie (fuel : Nat) (ans : Nat → Bool) (newId : Nat) (v : Vector)
    (hc : v.count < W) (hl : v.elems.length = v.count) (hf : v.count ≤ fuel) :
    c_cstl_string_clear fuel ans newId v = some (clear v) := by
  simp only [c_cstl_string_clear, clear_tie fuel ans newId v hc hl hf]
  cases clear v with
  | error e => rfl
  | ok r => rfl

theorem strSwap_tie (a b : Vector) : c_cstl_string_swap a b = vswap a b := rfl

/-- `cstl_STRING_insert(s, pos, ins)` = `insert_str_n(s, pos, str(ins), size(ins))` -/
theorem insertObj_tie (fuel : Nat) (ans : Nat → Bool) (newId : Nat) (v : Vector) (pos : Nat) (ins : Vector)
    (hi : ins.count ≤ W) (hc : v.count < W) (hl : v.elems.length = v.count) (hf : W ≤ fuel) :
    c_cstl_string_insert fuel ans newId v pos ins =
      some (insertStrN ans newId v pos (objChars ins) (strSize ins)) := by
  simp only [c_cstl_string_insert, strSize_tie ins hi,
    insertStrN_tie fuel ans newId v pos (objChars ins) (strSize ins) hc hl hf]
  cases insertStrN ans newId v pos (objChars ins) (strSize ins) with
  | error e => rfl
  | ok r => rfl

/-- `cstl_STRING_append(s1, s2)` = `insert(s1, size(s1), s2)` -/
theorem append_tie (fuel : Nat) (ans : Nat → Bool) (newId : Nat) (v ins : Vector)
    (hi : ins.count ≤ W) (hc : v.count < W) (hl : v.elems.length = v.count) (hf : W ≤ fuel) :
    c_cstl_string_append fuel ans newId v ins =
      some (insertStrN ans newId v (strSize v) (objChars ins) (strSize ins)) := by
  simp only [c_cstl_string_append, strSize_tie v (Nat.le_of_lt hc),
    insertObj_tie fuel ans newId v (strSize v) ins hi hc hl hf]
  cases insertStrN ans newId v (strSize v) (objChars ins) (strSize ins) with
  | error e => rfl
  | ok r => rfl

/-- `cstl_STRING_append_ch(s, cnt, ch)` = `insert_ch(s, size(s), cnt, ch)` -/
theorem appendCh_tie (fuel : Nat) (ans : Nat → Bool) (newId : Nat) (v : Vector) (cnt ch : Nat)
    (hcnt : cnt < W) (hc : v.count < W) (hl : v.elems.length = v.count) (hf : W ≤ fuel) :
    c_cstl_string_append_ch fuel ans newId v cnt ch = some (insertCh ans newId v (strSize v) cnt ch) := by
  simp only [c_cstl_string_append_ch, strSize_tie v (Nat.le_of_lt hc),
    insertCh_tie fuel ans newId v (strSize v) cnt ch hcnt hc hl hf]
  cases insertCh ans newId v (strSize v) cnt ch with
  | error e => rfl
  | ok r => rfl

/-- `cstl_STRING_append_str_n(s, str, len)` = `insert_str_n(s, size(s), str, len)` -/
theorem appendStrN_tie (fuel : Nat) (ans : Nat → Bool) (newId : Nat) (v : Vector) (src : List Nat) (len : Nat)
    (hc : v.count < W) (hl : v.elems.length = v.count) (hf : W ≤ fuel) :
    c_cstl_string_append_str_n fuel ans newId v src len =
      some (insertStrN ans newId v (strSize v) src len) := by
  simp only [c_cstl_string_append_str_n, strSize_tie v (Nat.le_of_lt hc),
    insertStrN_tie fuel ans newId v (strSize v) src len hc hl hf]
  cases insertStrN ans newId v (strSize v) src len with
  | error e => rfl
  | ok r => rfl

/-! ### the wide instantiation (`cstl_wstring_*`, `wchar_t`)

`src/string.c` includes the template twice.  Each function of the wide
instantiation is translated on its own; the theorems `wide_*` state that its
translation coincides with that of the narrow instantiation (the code-unit
width enters only through `.esz`), so every tie above holds for both.  The ties
of the repaired guards are restated for the wide functions explicitly. -/

set_option linter.unusedSimpArgs false

theorem wide_resize_loop1 (n fuel : Nat) (s : Vector) (sz : Nat) :
    c_cstl_wstring_resize_loop1 n fuel s sz = c_cstl_string_resize_loop1 n fuel s sz := by
  induction fuel generalizing s sz with
  | zero => rfl
  | succ f ih =>
    rw [c_cstl_wstring_resize_loop1, c_cstl_string_resize_loop1]
    simp only [ih, show @c_cstl_wstring___at = @c_cstl_string___at from rfl]

theorem wide_insert_ch_loop1 (ch fuel : Nat) (s : Vector) (idx cnt : Nat) :
    c_cstl_wstring_insert_ch_loop1 ch fuel s idx cnt = c_cstl_string_insert_ch_loop1 ch fuel s idx cnt := by
  induction fuel generalizing s idx cnt with
  | zero => rfl
  | succ f ih =>
    rw [c_cstl_wstring_insert_ch_loop1, c_cstl_string_insert_ch_loop1]
    simp only [ih, show @c_cstl_wstring___at = @c_cstl_string___at from rfl]

theorem wide_size : @c_cstl_wstring_size = @c_cstl_string_size := by
  unfold c_cstl_wstring_size c_cstl_string_size
  simp only []

theorem wide_capacity : @c_cstl_wstring_capacity = @c_cstl_string_capacity := by
  unfold c_cstl_wstring_capacity c_cstl_string_capacity
  simp only [wide_size]

theorem wide_reserve : @c_cstl_wstring_reserve = @c_cstl_string_reserve := by
  unfold c_cstl_wstring_reserve c_cstl_string_reserve
  simp only [wide_size , wide_capacity]

theorem wide_data : @c_cstl_wstring_data = @c_cstl_string_data := by
  unfold c_cstl_wstring_data c_cstl_string_data
  simp only [wide_size , wide_capacity , wide_reserve]

theorem wide___at : @c_cstl_wstring___at = @c_cstl_string___at := by
  unfold c_cstl_wstring___at c_cstl_string___at
  simp only [wide_size , wide_capacity , wide_reserve , wide_data]

theorem wide_at : @c_cstl_wstring_at = @c_cstl_string_at := by
  unfold c_cstl_wstring_at c_cstl_string_at
  simp only [wide_size , wide_capacity , wide_reserve , wide_data , wide___at]

theorem wide_at_const : @c_cstl_wstring_at_const = @c_cstl_string_at_const := by
  unfold c_cstl_wstring_at_const c_cstl_string_at_const
  simp only [wide_size , wide_capacity , wide_reserve , wide_data , wide___at , wide_at]

theorem wide___resize : @c_cstl_wstring___resize = @c_cstl_string___resize := by
  unfold c_cstl_wstring___resize c_cstl_string___resize
  simp only [wide_size , wide_capacity , wide_reserve , wide_data , wide___at , wide_at , wide_at_const]

theorem wide_resize : @c_cstl_wstring_resize = @c_cstl_string_resize := by
  unfold c_cstl_wstring_resize c_cstl_string_resize
  simp only [wide_size , wide_capacity , wide_reserve , wide_data , wide___at , wide_at , wide_at_const , wide___resize, wide_resize_loop1]

theorem wide_prep_insert : @c_cstl_wstring_prep_insert = @c_cstl_string_prep_insert := by
  unfold c_cstl_wstring_prep_insert c_cstl_string_prep_insert
  simp only [wide_size , wide_capacity , wide_reserve , wide_data , wide___at , wide_at , wide_at_const , wide___resize , wide_resize]

theorem wide_insert_ch : @c_cstl_wstring_insert_ch = @c_cstl_string_insert_ch := by
  unfold c_cstl_wstring_insert_ch c_cstl_string_insert_ch
  simp only [wide_size , wide_capacity , wide_reserve , wide_data , wide___at , wide_at , wide_at_const , wide___resize , wide_resize , wide_prep_insert, wide_insert_ch_loop1]

theorem wide_insert_str_n : @c_cstl_wstring_insert_str_n = @c_cstl_string_insert_str_n := by
  unfold c_cstl_wstring_insert_str_n c_cstl_string_insert_str_n
  simp only [wide_size , wide_capacity , wide_reserve , wide_data , wide___at , wide_at , wide_at_const , wide___resize , wide_resize , wide_prep_insert , wide_insert_ch]

theorem wide_substr_prep : @c_cstl_wstring_substr_prep = @c_cstl_string_substr_prep := by
  unfold c_cstl_wstring_substr_prep c_cstl_string_substr_prep
  simp only [wide_size , wide_capacity , wide_reserve , wide_data , wide___at , wide_at , wide_at_const , wide___resize , wide_resize , wide_prep_insert , wide_insert_ch , wide_insert_str_n]

theorem wide_substr : @c_cstl_wstring_substr = @c_cstl_string_substr := by
  unfold c_cstl_wstring_substr c_cstl_string_substr
  simp only [wide_size , wide_capacity , wide_reserve , wide_data , wide___at , wide_at , wide_at_const , wide___resize , wide_resize , wide_prep_insert , wide_insert_ch , wide_insert_str_n , wide_substr_prep]

theorem wide_erase : @c_cstl_wstring_erase = @c_cstl_string_erase := by
  unfold c_cstl_wstring_erase c_cstl_string_erase
  simp only [wide_size , wide_capacity , wide_reserve , wide_data , wide___at , wide_at , wide_at_const , wide___resize , wide_resize , wide_prep_insert , wide_insert_ch , wide_insert_str_n , wide_substr_prep , wide_substr]

theorem wide_clear : @c_cstl_wstring_clear = @c_cstl_string_clear := by
  unfold c_cstl_wstring_clear c_cstl_string_clear
  simp only [wide_size , wide_capacity , wide_reserve , wide_data , wide___at , wide_at , wide_at_const , wide___resize , wide_resize , wide_prep_insert , wide_insert_ch , wide_insert_str_n , wide_substr_prep , wide_substr , wide_erase]

theorem wide_swap : @c_cstl_wstring_swap = @c_cstl_string_swap := by
  unfold c_cstl_wstring_swap c_cstl_string_swap
  simp only [wide_size , wide_capacity , wide_reserve , wide_data , wide___at , wide_at , wide_at_const , wide___resize , wide_resize , wide_prep_insert , wide_insert_ch , wide_insert_str_n , wide_substr_prep , wide_substr , wide_erase , wide_clear]

theorem wide_insert : @c_cstl_wstring_insert = @c_cstl_string_insert := by
  unfold c_cstl_wstring_insert c_cstl_string_insert
  simp only [wide_size , wide_capacity , wide_reserve , wide_data , wide___at , wide_at , wide_at_const , wide___resize , wide_resize , wide_prep_insert , wide_insert_ch , wide_insert_str_n , wide_substr_prep , wide_substr , wide_erase , wide_clear , wide_swap]

theorem wide_append : @c_cstl_wstring_append = @c_cstl_string_append := by
  unfold c_cstl_wstring_append c_cstl_string_append
  simp only [wide_size , wide_capacity , wide_reserve , wide_data , wide___at , wide_at , wide_at_const , wide___resize , wide_resize , wide_prep_insert , wide_insert_ch , wide_insert_str_n , wide_substr_prep , wide_substr , wide_erase , wide_clear , wide_swap , wide_insert]

theorem wide_append_ch : @c_cstl_wstring_append_ch = @c_cstl_string_append_ch := by
  unfold c_cstl_wstring_append_ch c_cstl_string_append_ch
  simp only [wide_size , wide_capacity , wide_reserve , wide_data , wide___at , wide_at , wide_at_const , wide___resize , wide_resize , wide_prep_insert , wide_insert_ch , wide_insert_str_n , wide_substr_prep , wide_substr , wide_erase , wide_clear , wide_swap , wide_insert , wide_append]

theorem wide_append_str_n : @c_cstl_wstring_append_str_n = @c_cstl_string_append_str_n := by
  unfold c_cstl_wstring_append_str_n c_cstl_string_append_str_n
  simp only [wide_size , wide_capacity , wide_reserve , wide_data , wide___at , wide_at , wide_at_const , wide___resize , wide_resize , wide_prep_insert , wide_insert_ch , wide_insert_str_n , wide_substr_prep , wide_substr , wide_erase , wide_clear , wide_swap , wide_insert , wide_append , wide_append_ch]

theorem wstrResize0_tie (fuel : Nat) (ans : Nat → Bool) (newId : Nat) (v : Vector) (n : Nat)
    (hn : n < W) (hc : v.count < W) (hl : v.elems.length = v.count) (hf : W ≤ fuel) :
    c_cstl_wstring___resize fuel ans newId v n = some (strResize0 ans newId v n) := by
  rw [wide___resize]; exact strResize0_tie fuel ans newId v n hn hc hl hf

theorem wprepInsert_tie (fuel : Nat) (ans : Nat → Bool) (newId : Nat) (v : Vector) (pos len : Nat)
    (hc : v.count < W) (hl : v.elems.length = v.count) (hf : W ≤ fuel) :
    c_cstl_wstring_prep_insert fuel ans newId v pos len = some (prepInsert ans newId v pos len) := by
  rw [wide_prep_insert]; exact prepInsert_tie fuel ans newId v pos len hc hl hf

theorem wsubstrPrep_tie (v : Vector) (pos len : Nat) (hc : v.count ≤ W) :
    c_cstl_wstring_substr_prep v pos len = substrPrep v pos len := by
  rw [wide_substr_prep]; exact substrPrep_tie v pos len hc

theorem wsubstr_tie (fuel : Nat) (ans : Nat → Bool) (newId : Nat) (s : Vector) (idx len : Nat) (sub : Vector)
    (hlen : len < W) (hs : s.count ≤ W) (hc : sub.count < W) (hl : sub.elems.length = sub.count)
    (hf : W ≤ fuel) :
    c_cstl_wstring_substr fuel ans newId s idx len sub = some (substr ans newId s idx len sub) := by
  rw [wide_substr]; exact substr_tie fuel ans newId s idx len sub hlen hs hc hl hf

theorem werase_tie (fuel : Nat) (ans : Nat → Bool) (newId : Nat) (v : Vector) (idx len : Nat)
    (hc : v.count < W) (hl : v.elems.length = v.count) (hf : W ≤ fuel) :
    c_cstl_wstring_erase fuel ans newId v idx len = some (erase ans newId v idx len) := by
  rw [wide_erase]; exact erase_tie fuel ans newId v idx len hc hl hf

theorem wstrResize_tie (fuel : Nat) (ans : Nat → Bool) (newId : Nat) (v : Vector) (n : Nat)
    (hn : n < W) (hc : v.count < W) (hl : v.elems.length = v.count) (hf : W ≤ fuel) :
    c_cstl_wstring_resize fuel ans newId v n = some (strResize ans newId v n) := by
  rw [wide_resize]; exact strResize_tie fuel ans newId v n hn hc hl hf

theorem winsertCh_tie (fuel : Nat) (ans : Nat → Bool) (newId : Nat) (v : Vector) (idx cnt ch : Nat)
    (hcnt : cnt < W) (hc : v.count < W) (hl : v.elems.length = v.count) (hf : W ≤ fuel) :
    c_cstl_wstring_insert_ch fuel ans newId v idx cnt ch = some (insertCh ans newId v idx cnt ch) := by
  rw [wide_insert_ch]; exact insertCh_tie fuel ans newId v idx cnt ch hcnt hc hl hf

theorem winsertStrN_tie (fuel : Nat) (ans : Nat → Bool) (newId : Nat) (v : Vector) (idx : Nat)
    (src : List Nat) (len : Nat)
    (hc : v.count < W) (hl : v.elems.length = v.count) (hf : W ≤ fuel) :
    c_cstl_wstring_insert_str_n fuel ans newId v idx src len = some (insertStrN ans newId v idx src len) := by
  rw [wide_insert_str_n]; exact insertStrN_tie fuel ans newId v idx src len hc hl hf

theorem wstrAt_tie (v : Vector) (i : Nat) (hc : v.count ≤ W) : c_cstl_wstring_at v i = strAt v i := by
  rw [wide_at]; exact strAt_tie v i hc

end Cstl.Vec.Tie
