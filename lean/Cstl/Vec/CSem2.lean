import Cstl.Vec.CSem
/-
Vocabulary of the second C-to-Lean translation of src/vector.c and src/_string.c
(tools/c2lean_vec2.py; generated file Cstl/Gen/VecC2.lean, ties Cstl/Vec/Tie2.lean): the vector
wrappers of the raw-array algorithms, `str`, the find / compare functions (C library calls, pointer
comparisons, the `-1` convention) and the `strlen`-based entry points.

Pointers.  A pointer value is an `SPtr`: NULL, a byte offset from the object's `elem.base`
(non-NULL), or a byte offset from the instantiation's static NUL `cstl_STRING_nul`.  Pointer
arithmetic wraps like the `uintptr_t` / scaled `char_t *` expression the C code computes
(`addW`); equality of pointers is equality of `SPtr`s; `(uintptr_t)p - (uintptr_t)q` for two
pointers into the same object is the difference of their offsets (mod 2^64).

C library.  `strchr`/`strstr`/`strcmp`/`strlen` (unit width 1) and `wcschr`/`wcsstr`/`wcscmp`/
`wcslen` (unit width 4) read NUL-terminated strings: `cview` is what they see in an array of units
(`Stop.oob` when no NUL is stored — the read runs off), `viewAt` what they see at a pointer into a
string object.  Their results are the model's `strchrM` / `strstrM` / `strcmpM` of
Cstl/Vec/Model.lean, returned the way the C function returns them (a pointer into the first
argument or NULL; a sign).  A function of unit width `w` applied to an object whose units are not
`w` bytes wide is outside what is modelled and is a stop.

Functions that are translated elsewhere (Cstl/Gen/VecC.lean: `insert_str_n`, `resize`; Cstl/Gen/SortC.lean:
`cstl_raw_array_*`) are PARAMETERS `k_<name>` of the translated callers here: a tie theorem then
states with which arguments they are called, for every such callee.

Hand-written and fixed; core Lean only.
-/
namespace Cstl.Vec

inductive SPtr where
  | null
  | nul (off : Nat)       -- `(char *)&cstl_STRING_nul + off`
  | stor (off : Nat)      -- `(char *)elem.base + off`, `elem.base ≠ NULL`
deriving DecidableEq, Repr, Inhabited

/-- `v->elem.base` -/
def basePtr (v : Vector) : SPtr :=
  match v.base with
  | none => .null
  | some _ => .stor 0

/-- `p + n` bytes; an offset from NULL stays an invalid pointer -/
def SPtr.add : SPtr → Nat → SPtr
  | .null, _ => .null
  | .nul o, n => .nul (addW o n)
  | .stor o, n => .stor (addW o n)

/-- `(uintptr_t)p - (uintptr_t)q` (meaningful for pointers into the same object) -/
def SPtr.diff : SPtr → SPtr → Nat
  | .stor a, .stor b => subW a b
  | .nul a, .nul b => subW a b
  | _, _ => 0

/-- an opaque argument passed through unchanged (`cmp`, `priv`, `swap`, the sought element) -/
abbrev Opq := Nat

/-- `(ssize_t)x` for a `size_t` value -/
def toSsize (x : Nat) : Int := if x < 2 ^ 63 then (x : Int) else (x : Int) - 2 ^ 64

/-- what a translated function that edits a string object (and may allocate) returns -/
abbrev Eff := Option (Except Stop (Vector × List Ev))

/-! ### what the C library reads -/

/-- the units stored from `p` to the end of the live slots of the object `v` that `p` points into -/
def unitsAt (v : Vector) : SPtr → List Nat
  | .null => []
  | .nul o => if o = 0 then [0] else []
  | .stor o =>
    match v.base with
    | none => []
    | some _ => if o % v.esz = 0 then v.elems.drop (o / v.esz) else []

/-- a NUL-terminated read of an array of units: the units before the first NUL -/
def cview (units : List Nat) : Except Stop (List Nat) :=
  if units.any (· == 0) then .ok (units.takeWhile (· != 0)) else .error .oob

/-- a NUL-terminated read at a pointer into `v` -/
def viewAt (v : Vector) (p : SPtr) : Except Stop (List Nat) :=
  match p with
  | .null => .error .nullDeref
  | p => cview (unitsAt v p)

/-- `strchr(p, c)` (`w = 1`) / `wcschr(p, c)` (`w = 4`), `p` into `v` -/
def libcChr (w : Nat) (v : Vector) (p : SPtr) (c : Nat) : Except Stop SPtr :=
  if w ≠ v.esz then .error .oob
  else andThen (viewAt v p) fun view =>
    match strchrM view c with
    | none => .ok .null
    | some i => .ok (p.add (mulW i v.esz))

/-- `strstr(p, n)` / `wcsstr(p, n)`, `p` into `v`, `ndl` = what is read at `n` -/
def libcStr (w : Nat) (v : Vector) (p : SPtr) (ndl : Except Stop (List Nat)) : Except Stop SPtr :=
  if w ≠ v.esz then .error .oob
  else andThen (viewAt v p) fun hay =>
    andThen ndl fun n =>
    match strstrM n hay with
    | none => .ok .null
    | some i => .ok (p.add (mulW i v.esz))

/-- sign of `strcmp(p, b)` / `wcscmp(p, b)`, `p` into `v` -/
def libcCmp (w : Nat) (v : Vector) (p : SPtr) (b : Except Stop (List Nat)) : Except Stop Int :=
  if w ≠ v.esz then .error .oob
  else andThen (viewAt v p) fun a =>
    andThen b fun b =>
    .ok (strcmpM (unitKey w) a b)

/-- `strlen(p)` / `wcslen(p)` on a caller's array, inside a function of an object with units of
`cw` bytes -/
def libcLen (w cw : Nat) (a : Except Stop (List Nat)) : Except Stop Nat :=
  if w ≠ cw then .error .oob
  else andThen a fun view => .ok view.length

/-! ### facts the tie proofs use -/

/-- `-1` / index as the `ssize_t` the find functions return -/
def optIdx : Option Nat → Int
  | none => -1
  | some k => (k : Int)

theorem toSsize_small {x : Nat} (h : x < 2 ^ 63) : toSsize x = (x : Int) := by
  unfold toSsize; rw [if_pos h]

theorem andThen_assoc_ok {α : Type} (x : Except Stop α) : andThen x (fun r => .ok r) = x := by
  cases x <;> rfl

end Cstl.Vec
