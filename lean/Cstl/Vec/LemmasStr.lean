import Cstl.Vec.Props
/-
Helper lemmas for the string layer (C10): list algebra of the raw accesses
(`writeAt` / `readAt`), in-range behaviour of `rawSet` / `rawMove` /
`rawRead` / `rawWrite` / `fillLoop` under the storage invariant.
-/
namespace Cstl.Vec

theorem padTo_of_le {xs : List Nat} {n : Nat} (h : n ≤ xs.length) : padTo xs n = xs := by
  unfold padTo
  simp [Nat.sub_eq_zero_of_le h]

theorem padTo_length (xs : List Nat) (n : Nat) : (padTo xs n).length = max xs.length n := by
  unfold padTo
  simp
  omega

theorem writeAt_length (xs : List Nat) (d : Nat) (ys : List Nat) : (writeAt xs d ys).length = xs.length := by
  unfold writeAt
  simp [padTo_length]
  omega

theorem writeAt_in {xs : List Nat} {d : Nat} {ys : List Nat} (h : d + ys.length ≤ xs.length) :
    writeAt xs d ys = xs.take d ++ ys ++ xs.drop (d + ys.length) := by
  unfold writeAt
  rw [padTo_of_le h]
  apply List.take_of_length_le
  simp
  omega

theorem writeAt_split {pre mid post ys : List Nat} (h : mid.length = ys.length) :
    writeAt (pre ++ mid ++ post) pre.length ys = pre ++ ys ++ post := by
  rw [writeAt_in (by simp; omega)]
  simp [← h]

theorem writeAt_nil (xs : List Nat) (d : Nat) : writeAt xs d [] = xs := by
  unfold writeAt
  simp
  unfold padTo
  simp

theorem readAt_in {xs : List Nat} {s k : Nat} (h : s + k ≤ xs.length) :
    readAt xs s k = (xs.drop s).take k := by
  unfold readAt
  rw [padTo_of_le h]

theorem readAt_length (xs : List Nat) (s k : Nat) : (readAt xs s k).length = k := by
  unfold readAt
  simp [padTo_length]
  omega

theorem readAt_split {pre mid post : List Nat} :
    readAt (pre ++ mid ++ post) pre.length mid.length = mid := by
  rw [readAt_in (by simp)]
  simp

/-! ### raw accesses inside the live slots -/

/-- under the invariant, `k` slots starting at `i` inside `[0, count)` are
inside the block, and the C address arithmetic does not wrap -/
theorem Inv.slots_ok {v : Vector} (h : Inv v) {i k : Nat} (hk : 0 < k) (hik : i + k ≤ v.count) :
    ∃ b n, v.base = some (b, n) ∧ mulW i v.esz = i * v.esz ∧ mulW k v.esz = k * v.esz ∧
      i * v.esz + k * v.esz ≤ n ∧ i * v.esz / v.esz = i ∧ k * v.esz / v.esz = k := by
  have hcap : 0 < v.cap := by have := h.count_le_cap; omega
  cases hb : v.base with
  | none => have := h.none_cap hb; omega
  | some p =>
    obtain ⟨b, n⟩ := p
    have hn := h.bytes b n hb
    have hlt := h.bytes_lt b n hb
    have hle : (i + k) * v.esz ≤ (v.cap + 1) * v.esz :=
      Nat.mul_le_mul_right _ (by have := h.count_le_cap; omega)
    have hexp : (i + k) * v.esz = i * v.esz + k * v.esz := Nat.add_mul _ _ _
    refine ⟨b, n, rfl, mulW_of_lt (by omega), mulW_of_lt (by omega), by omega,
            Nat.mul_div_cancel _ h.esz_pos, Nat.mul_div_cancel _ h.esz_pos⟩

theorem inv_with_elems {v : Vector} (h : Inv v) {xs : List Nat} (hl : xs.length = v.count) :
    Inv { v with elems := xs } :=
  ⟨h.count_le_cap, h.none_cap, h.bytes, h.bytes_lt, h.esz_pos, hl⟩

theorem rawSet_in {v : Vector} (h : Inv v) {i x : Nat} (hi : i < v.count) :
    rawSet v i x = .ok { v with elems := writeAt v.elems i [x] } := by
  obtain ⟨b, n, hb, hm, hm1, hle, hd, _⟩ := h.slots_ok (i := i) (k := 1) (by omega) (by omega)
  unfold rawSet
  simp only [hb]
  rw [hm, hd, if_pos (by omega)]

theorem rawMove_in {v : Vector} (h : Inv v) {dst src k : Nat}
    (hs : src + k ≤ v.count) (hd : dst + k ≤ v.count) :
    rawMove v dst src (k * v.esz) = .ok { v with elems := writeAt v.elems dst (readAt v.elems src k) } := by
  unfold rawMove
  by_cases hk : k = 0
  · subst hk
    simp [readAt, writeAt_nil]
  · have hkp : 0 < k := Nat.pos_of_ne_zero hk
    have hne : k * v.esz ≠ 0 := Nat.ne_of_gt (Nat.mul_pos hkp h.esz_pos)
    rw [if_neg hne]
    obtain ⟨b, n, hb, hm, _, hle, hdv, hkd⟩ := h.slots_ok (i := src) hkp hs
    obtain ⟨b', n', hb', hm', _, hle', hdv', _⟩ := h.slots_ok (i := dst) hkp hd
    rw [hb] at hb'
    injection hb' with hb'; injection hb' with _ hn; subst hn
    simp only [hb]
    rw [hm, hm', hdv, hdv', hkd, if_pos ⟨hle, hle'⟩]

theorem rawRead_in {v : Vector} (h : Inv v) {idx k : Nat} (hs : idx + k ≤ v.count) :
    rawRead v idx (k * v.esz) = .ok (readAt v.elems idx k) := by
  unfold rawRead
  by_cases hk : k = 0
  · subst hk
    simp [readAt]
  · have hkp : 0 < k := Nat.pos_of_ne_zero hk
    have hne : k * v.esz ≠ 0 := Nat.ne_of_gt (Nat.mul_pos hkp h.esz_pos)
    rw [if_neg hne]
    obtain ⟨b, n, hb, hm, _, hle, hdv, hkd⟩ := h.slots_ok (i := idx) hkp hs
    simp only [hb]
    rw [hm, hdv, hkd, if_pos hle]

theorem rawWrite_in {v : Vector} (h : Inv v) {idx k : Nat} {src : List Nat}
    (hd : idx + k ≤ v.count) (hsrc : k ≤ src.length) :
    rawWrite v idx src (k * v.esz) = .ok { v with elems := writeAt v.elems idx (src.take k) } := by
  unfold rawWrite
  by_cases hk : k = 0
  · subst hk
    simp [writeAt_nil]
  · have hkp : 0 < k := Nat.pos_of_ne_zero hk
    have hne : k * v.esz ≠ 0 := Nat.ne_of_gt (Nat.mul_pos hkp h.esz_pos)
    rw [if_neg hne]
    obtain ⟨b, n, hb, hm, _, hle, hdv, hkd⟩ := h.slots_ok (i := idx) hkp hd
    simp only [hb]
    rw [hm, hdv, hkd, if_neg (by omega), if_pos hle]

/-- the caller's array is shorter than the count it passed: the `memcpy`
reads past its end (outside the domain of `insert_str_n`) -/
theorem rawWrite_overread {v : Vector} (h : Inv v) {idx k : Nat} {src : List Nat}
    (hd : idx + k ≤ v.count) (hsrc : src.length < k) :
    rawWrite v idx src (k * v.esz) = .error .oob := by
  unfold rawWrite
  have hkp : 0 < k := by omega
  have hne : k * v.esz ≠ 0 := Nat.ne_of_gt (Nat.mul_pos hkp h.esz_pos)
  rw [if_neg hne]
  obtain ⟨b, n, hb, hm, _, hle, hdv, hkd⟩ := h.slots_ok (i := idx) hkp hd
  simp only [hb]
  rw [hkd, if_pos hsrc]

/-- `k` stores of `x` upward from slot `pre.length` -/
theorem fillLoop_in {v : Vector} (h : Inv v) {x : Nat} (k : Nat) {pre mid post : List Nat}
    (he : v.elems = pre ++ mid ++ post) (hk : mid.length = k) :
    fillLoop k v pre.length x = .ok { v with elems := pre ++ List.replicate k x ++ post } := by
  induction k generalizing v pre mid with
  | zero =>
    have : mid = [] := List.eq_nil_of_length_eq_zero hk
    subst this
    have he' : pre ++ post = v.elems := by rw [he]; simp
    simp only [fillLoop, List.replicate_zero, List.append_nil]
    rw [he']
  | succ k ih =>
    match mid, hk with
    | m :: mid', hk =>
      have hlen := h.len
      rw [he] at hlen
      simp at hlen hk
      have hi : pre.length < v.count := by omega
      unfold fillLoop
      rw [rawSet_in h hi]
      dsimp only
      have hw : writeAt v.elems pre.length [x] = (pre ++ [x]) ++ mid' ++ post := by
        rw [he]
        have : pre ++ m :: mid' ++ post = pre ++ [m] ++ (mid' ++ post) := by simp
        rw [this, writeAt_split (by simp)]
        simp
      rw [hw]
      have hadd : addW pre.length 1 = (pre ++ [x]).length := by
        have hcw := h.count_lt_W
        unfold addW
        rw [Nat.mod_eq_of_lt (by omega)]
        simp
      rw [hadd]
      have hinv : Inv { v with elems := (pre ++ [x]) ++ mid' ++ post } :=
        inv_with_elems h (by simp; omega)
      rw [ih hinv rfl hk]
      simp [List.replicate_succ]

end Cstl.Vec
