import Cstl.DList.Props
import Cstl.SList.SortL
/-
Link-level model of `cstl_dlist_sort` (src/dlist.c) and the theorem that it
refines the sequence-level model (`Cstl.SList.msort` + relink) of
`Model.lean`.

As for slist (see `Cstl/SList/SortL.lean`): the two temporary list heads
`_l[2]` of the activation at recursion depth `d` live at the addresses
`(tmp d).1`, `(tmp d).2`; both recursive calls of an activation run at depth
`d + 1`.  One `upd` per C assignment.  In the two chained assignments
`_l[i].h.n->p = _l[i].h.p->n = &_l[i].h` the right-hand assignment is
performed first and the left-hand lvalue is evaluated afterwards (the order
the translator `tools/c2lean_lists.py` emits; the refinement theorem shows
that it closes both rings).
-/
namespace Cstl.DList
open Cstl.SList (Mem upd msort merge Seg lastOr Scratch Fresh SortedBy)

/-- the merge loop: while both halves are non-empty, unlink the front node of
the half whose front compares `<= 0` (left on ties) with `__cstl_dlist_erase`
and append it to the output with `__cstl_dlist_insert(l, l->h.p, n)`. -/
def mergeLoop (cmp : Nat → Nat → Int) : Nat → M2 → Hd → Hd → Hd → Option (M2 × Hd × Hd × Hd)
  | 0, m, l, a, b => if a.size > 0 ∧ b.size > 0 then none else some (m, l, a, b)
  | fuel + 1, m, l, a, b =>
    if a.size > 0 ∧ b.size > 0 then
      if cmp (m.nx a.h) (m.nx b.h) ≤ 0 then
        let n := m.nx a.h                         -- n = ol->h.n
        let r1 := erase m a n                     -- __cstl_dlist_erase(ol, n)
        let r2 := insert r1.1 l (r1.1.pv l.h) n   -- __cstl_dlist_insert(l, l->h.p, n)
        mergeLoop cmp fuel r2.1 r2.2 r1.2 b
      else
        let n := m.nx b.h
        let r1 := erase m b n
        let r2 := insert r1.1 l (r1.1.pv l.h) n
        mergeLoop cmp fuel r2.1 r2.2 a r1.2
    else some (m, l, a, b)

/-- the assignments between the split loop and the recursive calls; `a`, `b`
are the (initialised) temporary headers, `t` the last node of the first half -/
def splitLinks (m : M2) (l a b : Hd) (t : Nat) : M2 × Hd × Hd × Hd :=
  let nx1 := upd m.nx a.h (m.nx l.h)          -- _l[0].h.n = l->h.n
  let pv1 := upd m.pv a.h t                   -- _l[0].h.p = t
  let nx2 := upd nx1 b.h (nx1 t)              -- _l[1].h.n = t->n
  let pv2 := upd pv1 b.h (pv1 l.h)            -- _l[1].h.p = l->h.p
  let nx3 := upd nx2 (pv2 a.h) a.h            -- _l[0].h.p->n = &_l[0].h
  let pv3 := upd pv2 (nx3 a.h) a.h            -- _l[0].h.n->p = &_l[0].h
  let nx4 := upd nx3 (pv3 b.h) b.h            -- _l[1].h.p->n = &_l[1].h
  let pv4 := upd pv3 (nx4 b.h) b.h            -- _l[1].h.n->p = &_l[1].h
  let b1 := { b with size := l.size - a.size }        -- _l[1].size = l->size - _l[0].size
  let r := init { nx := nx4, pv := pv4 } l.h          -- cstl_dlist_init(l, l->off)
  (r.1, r.2, a, b1)

/-- `cstl_dlist_sort` at link level (`fuel` bounds recursion depth and loop
iterations, `d` is the recursion depth) -/
def sortL (cmp : Nat → Nat → Int) (tmp : Nat → Nat × Nat) : Nat → Nat → M2 → Hd → Option (M2 × Hd)
  | 0, _, _, _ => none
  | fuel + 1, d, m, l =>
    if l.size > 1 then
      let ra := init m (tmp d).1                -- cstl_dlist_init(&_l[0], l->off)
      let rb := init ra.1 (tmp d).2             -- cstl_dlist_init(&_l[1], l->off)
      match Cstl.SList.splitLoop fuel rb.1.nx (l.size / 2) ra.2.size l.h with
      | none => none
      | some (cnt, t) =>
        let s := splitLinks rb.1 l { ra.2 with size := cnt } rb.2 t
        match sortL cmp tmp fuel (d + 1) s.1 s.2.2.1 with          -- cstl_dlist_sort(&_l[0], …)
        | none => none
        | some (m1, a1) =>
          match sortL cmp tmp fuel (d + 1) m1 s.2.2.2 with         -- cstl_dlist_sort(&_l[1], …)
          | none => none
          | some (m2, b1) =>
            match mergeLoop cmp fuel m2 s.2.1 a1 b1 with
            | none => none
            | some (m3, l3, a3, b3) =>
              if a3.size > 0 then
                let r := concat m3 l3 a3
                some (r.1, r.2.1)
              else
                let r := concat m3 l3 b3
                some (r.1, r.2.1)
    else some (m, l)

/-- closing a sub-chain `x, ys…` on a new head node `s`: `s` links to `x`,
the last node links to `s`, the other links are unchanged -/
theorem Seg_rehead {f f' : Mem} {x z s : Nat} {ys : List Nat} (h : Seg f x ys z) (hx : x ≠ 0)
    (hnd : (x :: ys).Nodup) (hs : f' s = x) (hl : f' (lastOr x ys) = s)
    (ho : ∀ a ∈ x :: ys, a ≠ lastOr x ys → f' a = f a) : Seg f' s (x :: ys) s := by
  refine ⟨hs, hx, ?_⟩
  have s1 := Cstl.SList.Seg_upd_last (v := s) h hnd
  refine Cstl.SList.Seg_transfer s1 ?_ ?_
  · by_cases e : x = lastOr x ys
    · rw [← e] at hl ⊢; rw [hl, Cstl.SList.upd_same]
    · rw [Cstl.SList.upd_other _ _ _ _ e]; exact ho x (by simp) e
  · intro a ha
    by_cases e : a = lastOr x ys
    · rw [e, hl, Cstl.SList.upd_same]
    · rw [Cstl.SList.upd_other _ _ _ _ e]; exact ho a (by simp [ha]) e

/-- what `splitLinks` writes, node by node (`pk` = last node of the first
half, `qj` = last node of the list, `p1`/`q1` = first nodes of the halves) -/
theorem splitLinks_mem (m : M2) (l a b : Hd) (p1 pk q1 qj : Nat)
    (hnl : m.nx l.h = p1) (hnk : m.nx pk = q1) (hpl : m.pv l.h = qj)
    (d1 : a.h ≠ b.h) (d2 : a.h ≠ l.h) (d3 : b.h ≠ l.h)
    (d4 : pk ≠ a.h) (d5 : pk ≠ b.h) (d6 : pk ≠ l.h)
    (d7 : qj ≠ a.h) (d8 : qj ≠ b.h) (d9 : qj ≠ l.h)
    (d10 : p1 ≠ a.h) (d11 : p1 ≠ b.h) (d12 : p1 ≠ l.h)
    (d13 : q1 ≠ a.h) (d14 : q1 ≠ b.h) (d15 : q1 ≠ l.h)
    (d16 : pk ≠ qj) (d17 : p1 ≠ q1) :
    let r := splitLinks m l a b pk
    r.1.nx a.h = p1 ∧ r.1.nx b.h = q1 ∧ r.1.nx pk = a.h ∧ r.1.nx qj = b.h ∧ r.1.nx l.h = l.h
    ∧ (∀ x, x ≠ a.h → x ≠ b.h → x ≠ pk → x ≠ qj → x ≠ l.h → r.1.nx x = m.nx x)
    ∧ r.1.pv a.h = pk ∧ r.1.pv b.h = qj ∧ r.1.pv p1 = a.h ∧ r.1.pv q1 = b.h ∧ r.1.pv l.h = l.h
    ∧ (∀ x, x ≠ a.h → x ≠ b.h → x ≠ p1 → x ≠ q1 → x ≠ l.h → r.1.pv x = m.pv x) := by
  simp only [splitLinks, init, upd]
  grind

theorem splitLinks_spec {m : M2} {l a b : Hd} {pre post : List Nat}
    (h : IsDL m l (pre ++ post)) (hpre : pre ≠ []) (hpost : post ≠ [])
    (ha : a.h ∉ l.h :: (pre ++ post)) (hb : b.h ∉ l.h :: (pre ++ post)) (hab : a.h ≠ b.h)
    (haz : a.h ≠ 0) (hbz : b.h ≠ 0) (hac : a.size = pre.length) :
    let r := splitLinks m l a b (lastOr l.h pre)
    IsDL r.1 r.2.1 [] ∧ r.2.1.h = l.h ∧ IsDL r.1 r.2.2.1 pre ∧ r.2.2.1.h = a.h
    ∧ IsDL r.1 r.2.2.2 post ∧ r.2.2.2.h = b.h
    ∧ ∀ x, x ∉ l.h :: (pre ++ post) → x ≠ a.h → x ≠ b.h → r.1.nx x = m.nx x ∧ r.1.pv x = m.pv x := by
  obtain ⟨p1, pre', rfl⟩ := List.exists_cons_of_ne_nil hpre
  obtain ⟨q1, post', rfl⟩ := List.exists_cons_of_ne_nil hpost
  obtain ⟨hf, hbw, hnd, hhz, hsz⟩ := h
  have hnd' : (l.h :: p1 :: (pre' ++ q1 :: post')).Nodup := by simpa using hnd
  have hndApp : ((l.h :: p1 :: pre') ++ q1 :: post').Nodup := by simpa using hnd'
  have hndA : (p1 :: pre').Nodup := (List.nodup_cons.mp (List.nodup_append.mp hndApp).1).2
  have hndB : (q1 :: post').Nodup := (List.nodup_append.mp hndApp).2.1
  have hdisj := (List.nodup_append.mp hndApp).2.2
  have hlA : l.h ∉ p1 :: pre' := (List.nodup_cons.mp (List.nodup_append.mp hndApp).1).1
  -- forward chain
  have hf' : Seg m.nx l.h (p1 :: (pre' ++ q1 :: post')) l.h := by simpa using hf
  obtain ⟨hnl, hp1z, hf2⟩ := hf'
  rw [Cstl.SList.Seg_append] at hf2
  obtain ⟨fA, hq1z, fB⟩ := hf2
  obtain ⟨pk, hpk⟩ : ∃ t, t = lastOr p1 pre' := ⟨_, rfl⟩
  obtain ⟨qj, hqj⟩ : ∃ t, t = lastOr q1 post' := ⟨_, rfl⟩
  have hpkm : pk ∈ p1 :: pre' := hpk ▸ Cstl.SList.lastOr_mem _ _
  have hqjm : qj ∈ q1 :: post' := hqj ▸ Cstl.SList.lastOr_mem _ _
  have hnk : m.nx pk = q1 := hpk ▸ Cstl.SList.Seg_last fA
  -- backward chain
  have hbw' : Seg m.pv l.h ((q1 :: post').reverse ++ (p1 :: pre').reverse) l.h := by simpa using hbw
  rw [Cstl.SList.Seg_append', lastOr_reverse] at hbw'
  simp only [headOr_cons] at hbw'
  obtain ⟨bB, bA⟩ := hbw'
  obtain ⟨pk', r2, hr2⟩ := List.exists_cons_of_ne_nil (show (p1 :: pre').reverse ≠ [] by simp)
  obtain ⟨qj', r1, hr1⟩ := List.exists_cons_of_ne_nil (show (q1 :: post').reverse ≠ [] by simp)
  have epk : pk' = pk := by
    have := headOr_reverse 0 (p1 :: pre'); rw [hr2] at this; rw [hpk]; simpa using this
  have eqj : qj' = qj := by
    have := headOr_reverse 0 (q1 :: post'); rw [hr1] at this; rw [hqj]; simpa using this
  subst epk eqj
  have el2 : lastOr pk' r2 = p1 := by
    have := lastOr_reverse 0 (p1 :: pre'); rw [hr2] at this; simpa using this
  have el1 : lastOr qj' r1 = q1 := by
    have := lastOr_reverse 0 (q1 :: post'); rw [hr1] at this; simpa using this
  rw [hr1] at bB; rw [hr2] at bA
  obtain ⟨hpl, hqjz, bB2⟩ := bB
  obtain ⟨_, hpkz, bA2⟩ := bA
  have hndA' : (pk' :: r2).Nodup := hr2 ▸ (List.reverse_perm _).nodup_iff.mpr hndA
  have hndB' : (qj' :: r1).Nodup := hr1 ▸ (List.reverse_perm _).nodup_iff.mpr hndB
  have memA : ∀ x, x ∈ pk' :: r2 ↔ x ∈ p1 :: pre' := by intro x; rw [← hr2]; exact List.mem_reverse
  have memB : ∀ x, x ∈ qj' :: r1 ↔ x ∈ q1 :: post' := by intro x; rw [← hr1]; exact List.mem_reverse
  -- disequalities
  have nA : ∀ x ∈ p1 :: pre', x ≠ a.h ∧ x ≠ b.h ∧ x ≠ l.h ∧ x ∉ q1 :: post' := by
    intro x hx
    refine ⟨fun e => ha (by rw [← e]; simp only [List.mem_cons, List.mem_append] at hx ⊢; grind),
      fun e => hb (by rw [← e]; simp only [List.mem_cons, List.mem_append] at hx ⊢; grind),
      fun e => hlA (e ▸ hx), fun hm => hdisj x (List.mem_cons_of_mem _ hx) x hm rfl⟩
  have nB : ∀ x ∈ q1 :: post', x ≠ a.h ∧ x ≠ b.h ∧ x ≠ l.h ∧ x ∉ p1 :: pre' := by
    intro x hx
    refine ⟨fun e => ha (by rw [← e]; simp only [List.mem_cons, List.mem_append] at hx ⊢; grind),
      fun e => hb (by rw [← e]; simp only [List.mem_cons, List.mem_append] at hx ⊢; grind),
      fun e => hdisj l.h (by simp) x hx e.symm, fun hm => (nA x hm).2.2.2 hx⟩
  have hal : a.h ≠ l.h := fun e => ha (by simp [e])
  have hbl : b.h ≠ l.h := fun e => hb (by simp [e])
  have hp1m : p1 ∈ p1 :: pre' := by simp
  have hq1m : q1 ∈ q1 :: post' := by simp
  obtain ⟨v1, v2, v3, v4, v5, v6, w1, w2, w3, w4, w5, w6⟩ :=
    splitLinks_mem m l a b p1 pk' q1 qj' hnl hnk hpl hab hal hbl
      (nA _ hpkm).1 (nA _ hpkm).2.1 (nA _ hpkm).2.2.1 (nB _ hqjm).1 (nB _ hqjm).2.1 (nB _ hqjm).2.2.1
      (nA _ hp1m).1 (nA _ hp1m).2.1 (nA _ hp1m).2.2.1 (nB _ hq1m).1 (nB _ hq1m).2.1 (nB _ hq1m).2.2.1
      (fun e => (nA _ hpkm).2.2.2 (e ▸ hqjm)) (fun e => (nA _ hp1m).2.2.2 (e ▸ hq1m))
  have et : lastOr l.h (p1 :: pre') = pk' := by rw [hpk]; rfl
  rw [et]
  intro r
  replace v1 : r.1.nx a.h = p1 := v1
  replace v2 : r.1.nx b.h = q1 := v2
  replace v3 : r.1.nx pk' = a.h := v3
  replace v4 : r.1.nx qj' = b.h := v4
  replace v5 : r.1.nx l.h = l.h := v5
  replace v6 : ∀ x, x ≠ a.h → x ≠ b.h → x ≠ pk' → x ≠ qj' → x ≠ l.h → r.1.nx x = m.nx x := v6
  replace w1 : r.1.pv a.h = pk' := w1
  replace w2 : r.1.pv b.h = qj' := w2
  replace w3 : r.1.pv p1 = a.h := w3
  replace w4 : r.1.pv q1 = b.h := w4
  replace w5 : r.1.pv l.h = l.h := w5
  replace w6 : ∀ x, x ≠ a.h → x ≠ b.h → x ≠ p1 → x ≠ q1 → x ≠ l.h → r.1.pv x = m.pv x := w6
  have h1 : r.2.1 = { h := l.h, size := 0 } := rfl
  have h2 : r.2.2.1 = a := rfl
  have h3 : r.2.2.2 = { b with size := l.size - a.size } := rfl
  clear_value r
  rw [h1, h2, h3]
  refine ⟨⟨by simpa using v5, by simpa using w5, by simp, hhz, rfl⟩, rfl, ⟨?_, ?_, ?_, haz, hac⟩, rfl,
    ⟨?_, ?_, ?_, hbz, ?_⟩, rfl, ?_⟩
  · -- forward, first half
    refine Seg_rehead fA hp1z hndA v1 (by rw [← hpk]; exact v3) ?_
    intro x hx hne
    rw [← hpk] at hne
    exact v6 x (nA x hx).1 (nA x hx).2.1 hne (fun e => (nA x hx).2.2.2 (e ▸ hqjm)) (nA x hx).2.2.1
  · -- backward, first half
    show Seg r.1.pv a.h (p1 :: pre').reverse a.h
    rw [hr2]
    refine Seg_rehead bA2 hpkz hndA' w1 (by rw [el2]; exact w3) ?_
    intro x hx hne
    rw [el2] at hne
    have hx' := (memA x).mp hx
    exact w6 x (nA x hx').1 (nA x hx').2.1 hne (fun e => (nA x hx').2.2.2 (e ▸ hq1m)) (nA x hx').2.2.1
  · exact List.nodup_cons.mpr ⟨fun hm => (nA _ hm).1 rfl, hndA⟩
  · -- forward, second half
    refine Seg_rehead fB hq1z hndB v2 (by rw [← hqj]; exact v4) ?_
    intro x hx hne
    rw [← hqj] at hne
    exact v6 x (nB x hx).1 (nB x hx).2.1 (fun e => (nB x hx).2.2.2 (e ▸ hpkm)) hne (nB x hx).2.2.1
  · -- backward, second half
    show Seg r.1.pv b.h (q1 :: post').reverse b.h
    rw [hr1]
    refine Seg_rehead bB2 hqjz hndB' w2 (by rw [el1]; exact w4) ?_
    intro x hx hne
    rw [el1] at hne
    have hx' := (memB x).mp hx
    exact w6 x (nB x hx').1 (nB x hx').2.1 (fun e => (nB x hx').2.2.2 (e ▸ hp1m)) hne (nB x hx').2.2.1
  · exact List.nodup_cons.mpr ⟨fun hm => (nB _ hm).2.1 rfl, hndB⟩
  · show l.size - a.size = (q1 :: post').length
    rw [hsz, hac]; simp
  · intro x hx hxa hxb
    have hxl : x ≠ l.h := fun e => hx (by simp [e])
    have hxA : x ∉ p1 :: pre' := fun hm => hx (by simp only [List.mem_cons, List.mem_append] at hm ⊢; grind)
    have hxB : x ∉ q1 :: post' := fun hm => hx (by simp only [List.mem_cons, List.mem_append] at hm ⊢; grind)
    exact ⟨v6 x hxa hxb (fun e => hxA (e ▸ hpkm)) (fun e => hxB (e ▸ hqjm)) hxl,
      w6 x hxa hxb (fun e => hxA (e ▸ hp1m)) (fun e => hxB (e ▸ hq1m)) hxl⟩

/-- loop invariant of the merge loop -/
theorem mergeLoop_spec (cmp : Nat → Nat → Int) (key : Nat → Int) (hck : ∀ x y, cmp x y ≤ 0 ↔ key x ≤ key y)
    (fuel : Nat) {m : M2} {l a b : Hd} {out as bs : List Nat}
    (hl : IsDL m l out) (ha : IsDL m a as) (hb : IsDL m b bs)
    (dla : Disjoint l out a as) (dlb : Disjoint l out b bs) (dab : Disjoint a as b bs)
    (hf : as.length + bs.length ≤ fuel) :
    ∃ m' l' a' b' out' as' bs', mergeLoop cmp fuel m l a b = some (m', l', a', b')
      ∧ IsDL m' l' out' ∧ IsDL m' a' as' ∧ IsDL m' b' bs'
      ∧ l'.h = l.h ∧ a'.h = a.h ∧ b'.h = b.h
      ∧ (as' = [] ∨ bs' = []) ∧ out' ++ as' ++ bs' = out ++ merge key as bs
      ∧ Disjoint l' out' a' as' ∧ Disjoint l' out' b' bs'
      ∧ (∀ x, x ∉ l.h :: out → x ∉ a.h :: as → x ∉ b.h :: bs → m'.nx x = m.nx x ∧ m'.pv x = m.pv x) := by
  induction fuel generalizing m l a b out as bs with
  | zero =>
    have h1 : as = [] := List.length_eq_zero_iff.mp (by omega)
    have h2 : bs = [] := List.length_eq_zero_iff.mp (by omega)
    subst h1 h2
    have hc : a.size = 0 := ha.size
    refine ⟨m, l, a, b, out, [], [], by simp [mergeLoop, hc], hl, ha, hb, rfl, rfl, rfl, Or.inl rfl,
      by simp [merge], dla, dlb, fun _ _ _ _ => ⟨rfl, rfl⟩⟩
  | succ f ih =>
    by_cases hex : as = [] ∨ bs = []
    · have hc : ¬ (a.size > 0 ∧ b.size > 0) := by
        rcases hex with h | h
        · subst h; have := ha.size; simp at this; omega
        · subst h; have := hb.size; simp at this; omega
      refine ⟨m, l, a, b, out, as, bs, by simp only [mergeLoop, hc, if_false], hl, ha, hb, rfl, rfl, rfl, hex,
        ?_, dla, dlb, fun _ _ _ _ => ⟨rfl, rfl⟩⟩
      rcases hex with h | h
      · subst h; simp [merge]
      · subst h; simp [Cstl.SList.merge_nil_right]
    · obtain ⟨x, as1, rfl⟩ := List.exists_cons_of_ne_nil (fun h => hex (Or.inl h))
      obtain ⟨y, bs1, rfl⟩ := List.exists_cons_of_ne_nil (fun h => hex (Or.inr h))
      have hc : a.size > 0 ∧ b.size > 0 := by
        have h1 := ha.size; have h2 := hb.size; simp at h1 h2; omega
      have hax : m.nx a.h = x := ha.fwd.1
      have hby : m.nx b.h = y := hb.fwd.1
      have hlt : lastOr l.h out ∈ l.h :: out := Cstl.SList.lastOr_mem _ _
      by_cases hle : key x ≤ key y
      · -- take from the left half
        have hcmp : cmp x y ≤ 0 := (hck x y).mpr hle
        obtain ⟨ha1, fn1, fp1⟩ := erase_spec (pre := []) (post := as1) (n := x) ha
        simp only [List.nil_append, Cstl.SList.lastOr_nil] at ha1 fn1
        have hho : headOr a.h as1 ∈ a.h :: as1 := headOr_mem _ _
        have hxa : x ∉ a.h :: as1 := by
          have := ha.nodup
          simp only [List.nodup_cons, List.mem_cons] at this ⊢; grind
        have hxl : x ∉ l.h :: out := fun hm => dla x hm (by simp)
        have hxb : x ∉ b.h :: y :: bs1 := dab x (by simp)
        have hsubA : ∀ z, z ∈ a.h :: as1 → z ∈ a.h :: x :: as1 := by
          intro z hz; simp only [List.mem_cons] at hz ⊢; grind
        have hl1 : IsDL (erase m a x).1 l out := by
          refine hl.transfer (fun z hz => fn1 z (fun e => ?_)) (fun z hz => fp1 z (fun e => ?_))
          · exact dla z hz (by rw [e]; simp)
          · exact dla z hz (hsubA _ (e ▸ hho))
        have hb1 : IsDL (erase m a x).1 b (y :: bs1) := by
          refine hb.transfer (fun z hz => fn1 z (fun e => ?_)) (fun z hz => fp1 z (fun e => ?_))
          · exact dab a.h (by simp) (e ▸ hz)
          · exact dab z (hsubA _ (e ▸ hho)) hz
        obtain ⟨hl2, fn2, fp2⟩ := pushBack_spec hl1 hxl (ha.nonzero x (by simp))
        have e2 : pushBack (erase m a x).1 l x = insert (erase m a x).1 l ((erase m a x).1.pv l.h) x := rfl
        rw [e2] at hl2 fn2 fp2
        obtain ⟨r2, hr2⟩ : ∃ r, r = insert (erase m a x).1 l ((erase m a x).1.pv l.h) x := ⟨_, rfl⟩
        rw [← hr2] at hl2 fn2 fp2
        have hl2h : r2.2.h = l.h := by rw [hr2]; rfl
        have ha1h : (erase m a x).2.h = a.h := rfl
        have ha2 : IsDL r2.1 (erase m a x).2 as1 := by
          refine ha1.transfer (fun z hz => fn2 z (fun e => ?_) (fun e => ?_)) (fun z hz => fp2 z (fun e => ?_) (fun e => ?_))
          · exact dla _ hlt (hsubA _ (e ▸ hz))
          · exact hxa (e ▸ hz)
          · exact dla l.h (by simp) (hsubA _ (e ▸ hz))
          · exact hxa (e ▸ hz)
        have hb2 : IsDL r2.1 b (y :: bs1) := by
          refine hb1.transfer (fun z hz => fn2 z (fun e => ?_) (fun e => ?_)) (fun z hz => fp2 z (fun e => ?_) (fun e => ?_))
          · exact dlb _ hlt (e ▸ hz)
          · exact hxb (e ▸ hz)
          · exact dlb l.h (by simp) (e ▸ hz)
          · exact hxb (e ▸ hz)
        have dla2 : Disjoint r2.2 (out ++ [x]) (erase m a x).2 as1 := by
          intro z hz hm
          rw [hl2h] at hz; rw [ha1h] at hm
          have := dla z
          simp only [List.mem_cons, List.mem_append, List.not_mem_nil, or_false] at hz hm this hxa
          grind
        have dlb2 : Disjoint r2.2 (out ++ [x]) b (y :: bs1) := by
          intro z hz hm
          rw [hl2h] at hz
          have := dlb z
          simp only [List.mem_cons, List.mem_append, List.not_mem_nil, or_false] at hz hm this hxb
          grind
        have dab2 : Disjoint (erase m a x).2 as1 b (y :: bs1) := by
          intro z hz
          rw [ha1h] at hz
          exact dab z (hsubA z hz)
        obtain ⟨m', l', a', b', out', as', bs', e3, i1, i2, i3, i4, i5, i6, i7, i8, i9, i10, i11⟩ :=
          ih hl2 ha2 hb2 dla2 dlb2 dab2 (by simp at hf ⊢; omega)
        refine ⟨m', l', a', b', out', as', bs', ?_, i1, i2, i3, by rw [i4, hl2h], by rw [i5, ha1h], i6, i7, ?_, i9, i10, ?_⟩
        · simp only [mergeLoop, hc, and_self, if_true, hax, hby, hcmp]
          rw [← hr2]; exact e3
        · rw [i8]; simp [merge, hle]
        · intro z h1 h2 h3
          have hz1 : z ∉ r2.2.h :: (out ++ [x]) := by
            rw [hl2h]; simp only [List.mem_cons, List.mem_append, List.not_mem_nil, or_false] at h1 h2 ⊢; grind
          have hz2 : z ∉ (erase m a x).2.h :: as1 := fun hm => h2 (hsubA z hm)
          obtain ⟨g1, g2⟩ := i11 z hz1 hz2 h3
          rw [g1, g2, fn2 z (fun e => h1 (e ▸ hlt)) (fun e => h2 (by simp [e])),
            fp2 z (fun e => h1 (by simp [e])) (fun e => h2 (by simp [e])),
            fn1 z (fun e => h2 (by simp [e])), fp1 z (fun e => h2 (hsubA _ (e ▸ hho)))]
          exact ⟨rfl, rfl⟩
      · -- take from the right half
        have hcmp : ¬ cmp x y ≤ 0 := fun h => hle ((hck x y).mp h)
        obtain ⟨hb1, fn1, fp1⟩ := erase_spec (pre := []) (post := bs1) (n := y) hb
        simp only [List.nil_append, Cstl.SList.lastOr_nil] at hb1 fn1
        have hho : headOr b.h bs1 ∈ b.h :: bs1 := headOr_mem _ _
        have hyb : y ∉ b.h :: bs1 := by
          have := hb.nodup
          simp only [List.nodup_cons, List.mem_cons] at this ⊢; grind
        have hyl : y ∉ l.h :: out := fun hm => dlb y hm (by simp)
        have hya : y ∉ a.h :: x :: as1 := fun hm => dab y hm (by simp)
        have hsubB : ∀ z, z ∈ b.h :: bs1 → z ∈ b.h :: y :: bs1 := by
          intro z hz; simp only [List.mem_cons] at hz ⊢; grind
        have hl1 : IsDL (erase m b y).1 l out := by
          refine hl.transfer (fun z hz => fn1 z (fun e => ?_)) (fun z hz => fp1 z (fun e => ?_))
          · exact dlb z hz (by rw [e]; simp)
          · exact dlb z hz (hsubB _ (e ▸ hho))
        have ha1 : IsDL (erase m b y).1 a (x :: as1) := by
          refine ha.transfer (fun z hz => fn1 z (fun e => ?_)) (fun z hz => fp1 z (fun e => ?_))
          · exact dab z hz (by rw [e]; simp)
          · exact dab z hz (hsubB _ (e ▸ hho))
        obtain ⟨hl2, fn2, fp2⟩ := pushBack_spec hl1 hyl (hb.nonzero y (by simp))
        have e2 : pushBack (erase m b y).1 l y = insert (erase m b y).1 l ((erase m b y).1.pv l.h) y := rfl
        rw [e2] at hl2 fn2 fp2
        obtain ⟨r2, hr2⟩ : ∃ r, r = insert (erase m b y).1 l ((erase m b y).1.pv l.h) y := ⟨_, rfl⟩
        rw [← hr2] at hl2 fn2 fp2
        have hl2h : r2.2.h = l.h := by rw [hr2]; rfl
        have hb1h : (erase m b y).2.h = b.h := rfl
        have hb2 : IsDL r2.1 (erase m b y).2 bs1 := by
          refine hb1.transfer (fun z hz => fn2 z (fun e => ?_) (fun e => ?_)) (fun z hz => fp2 z (fun e => ?_) (fun e => ?_))
          · exact dlb _ hlt (hsubB _ (e ▸ hz))
          · exact hyb (e ▸ hz)
          · exact dlb l.h (by simp) (hsubB _ (e ▸ hz))
          · exact hyb (e ▸ hz)
        have ha2 : IsDL r2.1 a (x :: as1) := by
          refine ha1.transfer (fun z hz => fn2 z (fun e => ?_) (fun e => ?_)) (fun z hz => fp2 z (fun e => ?_) (fun e => ?_))
          · exact dla _ hlt (e ▸ hz)
          · exact hya (e ▸ hz)
          · exact dla l.h (by simp) (e ▸ hz)
          · exact hya (e ▸ hz)
        have dla2 : Disjoint r2.2 (out ++ [y]) a (x :: as1) := by
          intro z hz hm
          rw [hl2h] at hz
          have := dla z
          simp only [List.mem_cons, List.mem_append, List.not_mem_nil, or_false] at hz hm this hya
          grind
        have dlb2 : Disjoint r2.2 (out ++ [y]) (erase m b y).2 bs1 := by
          intro z hz hm
          rw [hl2h] at hz; rw [hb1h] at hm
          have := dlb z
          simp only [List.mem_cons, List.mem_append, List.not_mem_nil, or_false] at hz hm this hyb
          grind
        have dab2 : Disjoint a (x :: as1) (erase m b y).2 bs1 := by
          intro z hz hm
          rw [hb1h] at hm
          exact dab z hz (hsubB z hm)
        obtain ⟨m', l', a', b', out', as', bs', e3, i1, i2, i3, i4, i5, i6, i7, i8, i9, i10, i11⟩ :=
          ih hl2 ha2 hb2 dla2 dlb2 dab2 (by simp at hf ⊢; omega)
        refine ⟨m', l', a', b', out', as', bs', ?_, i1, i2, i3, by rw [i4, hl2h], i5, by rw [i6, hb1h], i7, ?_, i9, i10, ?_⟩
        · simp only [mergeLoop, hc, and_self, if_true, hax, hby, hcmp, if_false]
          rw [← hr2]; exact e3
        · rw [i8]; simp [merge, hle]
        · intro z h1 h2 h3
          have hz1 : z ∉ r2.2.h :: (out ++ [y]) := by
            rw [hl2h]; simp only [List.mem_cons, List.mem_append, List.not_mem_nil, or_false] at h1 h3 ⊢; grind
          have hz3 : z ∉ (erase m b y).2.h :: bs1 := fun hm => h3 (hsubB z hm)
          obtain ⟨g1, g2⟩ := i11 z hz1 h2 hz3
          rw [g1, g2, fn2 z (fun e => h1 (e ▸ hlt)) (fun e => h3 (by simp [e])),
            fp2 z (fun e => h1 (by simp [e])) (fun e => h3 (by simp [e])),
            fn1 z (fun e => h3 (by simp [e])), fp1 z (fun e => h3 (hsubB _ (e ▸ hho)))]
          exact ⟨rfl, rfl⟩

/-- **Refinement.**  On a represented list with fresh temporary heads and
enough fuel the link-level sort finishes, keeps the list's head node, and ends
in a state that represents — in both directions — exactly the sequence
computed by the sequence-level model `msort`.  It writes only the list's own
nodes and temporary heads of depth `d` or deeper. -/
theorem sortL_refines (cmp : Nat → Nat → Int) (key : Nat → Int) (hck : ∀ x y, cmp x y ≤ 0 ↔ key x ≤ key y)
    (tmp : Nat → Nat × Nat) (fuel d : Nat) {m : M2} {l : Hd} {xs : List Nat}
    (h : IsDL m l xs) (hfr : Fresh tmp d (l.h :: xs)) (hf : xs.length < fuel) :
    ∃ m' l', sortL cmp tmp fuel d m l = some (m', l') ∧ l'.h = l.h
      ∧ IsDL m' l' (msort key xs.length xs)
      ∧ ∀ x, x ∉ l.h :: xs → ¬ Scratch tmp d x → m'.nx x = m.nx x ∧ m'.pv x = m.pv x := by
  induction fuel generalizing d m l xs with
  | zero => omega
  | succ f ih =>
    by_cases hc : l.size > 1
    · have hn : xs.length > 1 := by rw [← h.size]; exact hc
      obtain ⟨pre, post, hxs, hk⟩ : ∃ pre post, xs = pre ++ post ∧ pre.length = xs.length / 2 :=
        ⟨xs.take (xs.length / 2), xs.drop (xs.length / 2), (List.take_append_drop _ _).symm, by simp; omega⟩
      subst hxs
      have hlen : (pre ++ post).length = pre.length + post.length := by simp
      have hpre : pre ≠ [] := by intro e; subst e; simp at hk hn; omega
      have hpost : post ≠ [] := by intro e; subst e; simp at hk hn; omega
      obtain ⟨s0, hs0⟩ : ∃ s, s = (tmp d).1 := ⟨_, rfl⟩
      obtain ⟨s1, hs1⟩ : ∃ s, s = (tmp d).2 := ⟨_, rfl⟩
      have hs0z : s0 ≠ 0 := hs0 ▸ (hfr.nz d (Nat.le_refl _)).1
      have hs1z : s1 ≠ 0 := hs1 ▸ (hfr.nz d (Nat.le_refl _)).2
      have hs01 : s0 ≠ s1 := hs0 ▸ hs1 ▸ hfr.ne d (Nat.le_refl _)
      have hs0u : s0 ∉ l.h :: (pre ++ post) := hfr.dis s0 (hs0 ▸ Scratch.here1 tmp d)
      have hs1u : s1 ∉ l.h :: (pre ++ post) := hfr.dis s1 (hs1 ▸ Scratch.here2 tmp d)
      have hsc0 : ¬ Scratch tmp (d + 1) s0 := by
        rintro ⟨e, he, h1⟩
        have := hfr.inj d e (Nat.le_refl _) (by omega) (by omega)
        rw [← hs0, ← hs1] at this
        rcases h1 with h1 | h1
        · exact this.1 h1
        · exact this.2.1 h1
      have hsc1 : ¬ Scratch tmp (d + 1) s1 := by
        rintro ⟨e, he, h1⟩
        have := hfr.inj d e (Nat.le_refl _) (by omega) (by omega)
        rw [← hs0, ← hs1] at this
        rcases h1 with h1 | h1
        · exact this.2.2.1 h1
        · exact this.2.2.2 h1
      have hscu : ∀ x, x ∈ l.h :: (pre ++ post) → ¬ Scratch tmp (d + 1) x :=
        fun x hx hsc => hfr.dis x hsc.mono hx
      -- after the two `init`s
      let m2 : M2 := { nx := upd (upd m.nx s0 s0) s1 s1, pv := upd (upd m.pv s0 s0) s1 s1 }
      have m2o : ∀ z, z ≠ s0 → z ≠ s1 → m2.nx z = m.nx z ∧ m2.pv z = m.pv z := by
        intro z h0 h1
        constructor
        · show upd (upd m.nx s0 s0) s1 s1 z = m.nx z
          rw [Cstl.SList.upd_other _ _ _ _ h1, Cstl.SList.upd_other _ _ _ _ h0]
        · show upd (upd m.pv s0 s0) s1 s1 z = m.pv z
          rw [Cstl.SList.upd_other _ _ _ _ h1, Cstl.SList.upd_other _ _ _ _ h0]
      have hm2 : IsDL m2 l (pre ++ post) :=
        h.transfer (fun z hz => (m2o z (fun e => hs0u (by rw [← e]; exact hz)) (fun e => hs1u (by rw [← e]; exact hz))).1)
          (fun z hz => (m2o z (fun e => hs0u (by rw [← e]; exact hz)) (fun e => hs1u (by rw [← e]; exact hz))).2)
      have hsplit : Cstl.SList.splitLoop f m2.nx (l.size / 2) 0 l.h = some (l.size / 2, lastOr l.h pre) :=
        Cstl.SList.splitLoop_spec f (l.size / 2) 0 hm2.fwd (by rw [h.size]; omega) (by omega)
      let a0 : Hd := { h := s0, size := l.size / 2 }
      let b0 : Hd := { h := s1, size := 0 }
      obtain ⟨j1, j2, j3, j4, j5, j6, j7⟩ := splitLinks_spec (a := a0) (b := b0) hm2 hpre hpost hs0u hs1u hs01 hs0z hs1z
        (by show l.size / 2 = pre.length; rw [h.size]; omega)
      obtain ⟨r, hr⟩ : ∃ r, r = splitLinks m2 l a0 b0 (lastOr l.h pre) := ⟨_, rfl⟩
      rw [← hr] at j1 j2 j3 j4 j5 j6 j7
      replace j4 : r.2.2.1.h = s0 := j4
      replace j6 : r.2.2.2.h = s1 := j6
      have hnd := h.nodup
      have hndApp : ((l.h :: pre) ++ post).Nodup := by simpa using hnd
      have hdisj := (List.nodup_append.mp hndApp).2.2
      have hlx : l.h ∉ pre ++ post := (List.nodup_cons.mp hnd).1
      have permA := Cstl.SList.msort_perm key pre.length pre
      have permB := Cstl.SList.msort_perm key post.length post
      -- first recursive call
      have hfrA : Fresh tmp (d + 1) (r.2.2.1.h :: pre) := by
        refine hfr.sub (fun x hx => ?_)
        rw [j4] at hx
        simp only [List.mem_cons, List.mem_append] at hx ⊢
        rw [← hs0]; grind
      obtain ⟨m3, a1, ea, a1h, hA, frA⟩ := ih (d + 1) j3 hfrA (by omega)
      rw [j4] at a1h frA
      have zB : ∀ z, z ∈ s1 :: post → z ∉ s0 :: pre ∧ ¬ Scratch tmp (d + 1) z := by
        intro z hz
        constructor
        · simp only [List.mem_cons, List.mem_append] at hz hs1u ⊢
          grind
        · rcases List.mem_cons.mp hz with e | hz
          · rw [e]; exact hsc1
          · exact hscu z (by simp [hz])
      have zL : l.h ∉ s0 :: pre ∧ l.h ∉ s1 :: post ∧ ¬ Scratch tmp (d + 1) l.h := by
        refine ⟨?_, ?_, hscu _ (by simp)⟩
        · simp only [List.mem_cons, List.mem_append] at hlx hs0u ⊢; grind
        · simp only [List.mem_cons, List.mem_append] at hlx hs1u ⊢; grind
      have hB3 : IsDL m3 r.2.2.2 post := by
        refine j5.transfer (fun z hz => ?_) (fun z hz => ?_)
        · rw [j6] at hz; exact (frA z (zB z hz).1 (zB z hz).2).1
        · rw [j6] at hz; exact (frA z (zB z hz).1 (zB z hz).2).2
      have hL3 : IsDL m3 r.2.1 [] := by
        refine j1.transfer (fun z hz => ?_) (fun z hz => ?_)
        · rw [j2] at hz; have : z = l.h := by simpa using hz
          subst this; exact (frA _ zL.1 zL.2.2).1
        · rw [j2] at hz; have : z = l.h := by simpa using hz
          subst this; exact (frA _ zL.1 zL.2.2).2
      -- second recursive call
      have hfrB : Fresh tmp (d + 1) (r.2.2.2.h :: post) := by
        refine hfr.sub (fun x hx => ?_)
        rw [j6] at hx
        simp only [List.mem_cons, List.mem_append] at hx ⊢
        rw [← hs1]; grind
      obtain ⟨m4, b1, eb, b1h, hB, frB⟩ := ih (d + 1) hB3 hfrB (by omega)
      rw [j6] at b1h frB
      have zA : ∀ z, z ∈ s0 :: msort key pre.length pre → z ∉ s1 :: post ∧ ¬ Scratch tmp (d + 1) z := by
        intro z hz
        have hp := permA.mem_iff (a := z)
        constructor
        · simp only [List.mem_cons, List.mem_append] at hz hs0u ⊢
          grind
        · rcases List.mem_cons.mp hz with e | hz
          · rw [e]; exact hsc0
          · exact hscu z (by simp [permA.mem_iff.mp hz])
      have hA4 : IsDL m4 a1 (msort key pre.length pre) := by
        refine hA.transfer (fun z hz => ?_) (fun z hz => ?_)
        · rw [a1h] at hz; exact (frB z (zA z hz).1 (zA z hz).2).1
        · rw [a1h] at hz; exact (frB z (zA z hz).1 (zA z hz).2).2
      have hL4 : IsDL m4 r.2.1 [] := by
        refine hL3.transfer (fun z hz => ?_) (fun z hz => ?_)
        · rw [j2] at hz; have : z = l.h := by simpa using hz
          subst this; exact (frB _ zL.2.1 zL.2.2).1
        · rw [j2] at hz; have : z = l.h := by simpa using hz
          subst this; exact (frB _ zL.2.1 zL.2.2).2
      -- the merge loop
      have dla : Disjoint r.2.1 [] a1 (msort key pre.length pre) := by
        intro z hz hm
        rw [j2] at hz; rw [a1h] at hm
        have : z = l.h := by simpa using hz
        subst this
        have hp := permA.mem_iff (a := l.h)
        simp only [List.mem_cons, List.mem_append] at hlx hs0u hm
        grind
      have dlb : Disjoint r.2.1 [] b1 (msort key post.length post) := by
        intro z hz hm
        rw [j2] at hz; rw [b1h] at hm
        have : z = l.h := by simpa using hz
        subst this
        have hp := permB.mem_iff (a := l.h)
        simp only [List.mem_cons, List.mem_append] at hlx hs1u hm
        grind
      have dab : Disjoint a1 (msort key pre.length pre) b1 (msort key post.length post) := by
        intro z hz hm
        rw [a1h] at hz; rw [b1h] at hm
        have hp := permA.mem_iff (a := z)
        have hq := permB.mem_iff (a := z)
        simp only [List.mem_cons, List.mem_append] at hz hm hs0u hs1u
        grind
      obtain ⟨m5, l5, a5, b5, out', as', bs', em, k1, k2, k3, k4, k5, k6, k7, k8, k9, k10, k11⟩ :=
        mergeLoop_spec cmp key hck f hL4 hA4 hB dla dlb dab (by rw [permA.length_eq, permB.length_eq]; omega)
      rw [j2] at k4; rw [a1h] at k5; rw [b1h] at k6
      simp only [List.nil_append] at k8
      have hres : merge key (msort key pre.length pre) (msort key post.length post)
          = msort key (pre ++ post).length (pre ++ post) := (Cstl.SList.msort_split key pre post hk hn).symm
      rw [hres] at k8
      have permX := Cstl.SList.msort_perm key (pre ++ post).length (pre ++ post)
      have hsub : ∀ z, z ∈ out' ++ as' ++ bs' → z ∈ pre ++ post := by
        intro z hz
        exact permX.mem_iff.mp (k8 ▸ hz)
      have eS : sortL cmp tmp (f + 1) d m l =
          (if a5.size > 0 then some ((concat m5 l5 a5).1, (concat m5 l5 a5).2.1)
           else some ((concat m5 l5 b5).1, (concat m5 l5 b5).2.1)) := by
        have e0 : Cstl.SList.splitLoop f (init (init m (tmp d).1).1 (tmp d).2).1.nx (l.size / 2) (init m (tmp d).1).2.size l.h
            = some (l.size / 2, lastOr l.h pre) := by
          rw [← hs0, ← hs1]; exact hsplit
        have e1 : splitLinks (init (init m (tmp d).1).1 (tmp d).2).1 l
            { (init m (tmp d).1).2 with size := l.size / 2 } (init (init m (tmp d).1).1 (tmp d).2).2 (lastOr l.h pre) = r := by
          rw [hr, ← hs0, ← hs1]; rfl
        simp only [sortL, hc, if_true, e0, e1, ea, eb, em]
      have frame5 : ∀ x, x ∉ l.h :: (pre ++ post) → ¬ Scratch tmp d x → m5.nx x = m.nx x ∧ m5.pv x = m.pv x := by
        intro x hx hsx
        have hx0 : x ≠ s0 := fun e => hsx (by rw [e, hs0]; exact Scratch.here1 tmp d)
        have hx1 : x ≠ s1 := fun e => hsx (by rw [e, hs1]; exact Scratch.here2 tmp d)
        have hsx' : ¬ Scratch tmp (d + 1) x := fun hh => hsx hh.mono
        have hxa : x ∉ s0 :: pre := by
          simp only [List.mem_cons, List.mem_append] at hx ⊢; grind
        have hxb : x ∉ s1 :: post := by
          simp only [List.mem_cons, List.mem_append] at hx ⊢; grind
        obtain ⟨g1, g2⟩ := k11 x (by rw [j2]; simp only [List.mem_cons, List.mem_append] at hx ⊢; grind)
          (by rw [a1h]; have hp := permA.mem_iff (a := x); simp only [List.mem_cons] at hxa ⊢; grind)
          (by rw [b1h]; have hp := permB.mem_iff (a := x); simp only [List.mem_cons] at hxb ⊢; grind)
        rw [g1, g2, (frB x hxb hsx').1, (frB x hxb hsx').2, (frA x hxa hsx').1, (frA x hxa hsx').2,
          (j7 x hx hx0 hx1).1, (j7 x hx hx0 hx1).2]
        exact m2o x hx0 hx1
      rw [eS]
      by_cases hca : a5.size > 0
      · have has : as' ≠ [] := by intro e; subst e; have := k2.size; simp at this; omega
        have hbs : bs' = [] := by rcases k7 with e | e; exact absurd e has; exact e
        subst hbs
        obtain ⟨c1, _, c3, _, c5⟩ := concat_spec k1 k2 k9
        simp only [List.append_nil] at k8 hsub
        rw [k8] at c1
        refine ⟨_, _, by simp only [hca, if_true], by rw [c3, k4], c1, ?_⟩
        intro x hx hsx
        have hm1 : x ∉ l5.h :: out' := by
          intro hm; apply hx
          rw [k4] at hm
          rcases List.mem_cons.mp hm with e | hm
          · simp [e]
          · exact List.mem_cons_of_mem _ (hsub x (by simp [hm]))
        have hm2 : x ∉ a5.h :: as' := by
          intro hm
          rw [k5] at hm
          rcases List.mem_cons.mp hm with e | hm
          · exact hsx (by rw [e, hs0]; exact Scratch.here1 tmp d)
          · exact hx (List.mem_cons_of_mem _ (hsub x (by simp [hm])))
        obtain ⟨g1, g2⟩ := c5 x hm1 hm2
        rw [g1, g2]; exact frame5 x hx hsx
      · have has : as' = [] := by
          cases as' with
          | nil => rfl
          | cons _ _ => have := k2.size; simp at this; omega
        subst has
        obtain ⟨c1, _, c3, _, c5⟩ := concat_spec k1 k3 k10
        simp only [List.append_nil] at k8 hsub
        rw [k8] at c1
        refine ⟨_, _, by simp only [hca, if_false], by rw [c3, k4], c1, ?_⟩
        intro x hx hsx
        have hm1 : x ∉ l5.h :: out' := by
          intro hm; apply hx
          rw [k4] at hm
          rcases List.mem_cons.mp hm with e | hm
          · simp [e]
          · exact List.mem_cons_of_mem _ (hsub x (by simp [hm]))
        have hm2 : x ∉ b5.h :: bs' := by
          intro hm
          rw [k6] at hm
          rcases List.mem_cons.mp hm with e | hm
          · exact hsx (by rw [e, hs1]; exact Scratch.here2 tmp d)
          · exact hx (List.mem_cons_of_mem _ (hsub x (by simp [hm])))
        obtain ⟨g1, g2⟩ := c5 x hm1 hm2
        rw [g1, g2]; exact frame5 x hx hsx
    · have hn : xs.length ≤ 1 := by rw [← h.size]; omega
      refine ⟨m, l, by simp only [sortL, hc, if_false], rfl, ?_, fun _ _ _ => ⟨rfl, rfl⟩⟩
      rw [Cstl.SList.msort_short key xs hn]; exact h

/-- **C12, sort at link level.**  The conclusion of `sort_spec` holds for the
link-level model of the C function: the result represents, in both
directions, an ordered permutation of the same nodes; only the list's nodes
and the temporary heads are written. -/
theorem sortL_spec (cmp : Nat → Nat → Int) (key : Nat → Int) (hck : ∀ x y, cmp x y ≤ 0 ↔ key x ≤ key y)
    (tmp : Nat → Nat × Nat) (d : Nat) {m : M2} {l : Hd} {xs : List Nat}
    (h : IsDL m l xs) (hfr : Fresh tmp d (l.h :: xs)) :
    ∃ m' l', sortL cmp tmp (xs.length + 1) d m l = some (m', l') ∧
      let ys := if l.size > 1 then msort key xs.length xs else xs
      IsDL m' l' ys ∧ ys.Perm xs ∧ SortedBy key ys ∧ l'.h = l.h
      ∧ ∀ a, a ∉ l.h :: xs → ¬ Scratch tmp d a → m'.nx a = m.nx a ∧ m'.pv a = m.pv a := by
  obtain ⟨m', l', e, hh, hs, fr⟩ := sortL_refines cmp key hck tmp (xs.length + 1) d h hfr (by omega)
  refine ⟨m', l', e, ?_⟩
  intro ys
  have hys : ys = msort key xs.length xs := by
    by_cases hc : l.size > 1
    · simp [ys, hc]
    · have : xs.length ≤ 1 := by rw [← h.size]; omega
      simp [ys, hc, Cstl.SList.msort_short key xs this]
  rw [hys]
  exact ⟨hs, Cstl.SList.msort_perm key _ xs, Cstl.SList.msort_sorted key _ xs (Nat.le_refl _), hh, fr⟩

/-- **link-level sort = sequence-level model.**  The link-level sort ends with
the same header as the sequence-level model `sort` of `Model.lean` and with
the same two link memories everywhere except on the temporary heads. -/
theorem sortL_eq_sort (cmp : Nat → Nat → Int) (key : Nat → Int) (hck : ∀ x y, cmp x y ≤ 0 ↔ key x ≤ key y)
    (tmp : Nat → Nat × Nat) (d : Nat) {m : M2} {l : Hd} {xs : List Nat}
    (h : IsDL m l xs) (hfr : Fresh tmp d (l.h :: xs)) :
    ∃ m' l', sortL cmp tmp (xs.length + 1) d m l = some (m', l') ∧ l' = (sort m l key).2
      ∧ ∀ a, ¬ Scratch tmp d a → m'.nx a = (sort m l key).1.nx a ∧ m'.pv a = (sort m l key).1.pv a := by
  obtain ⟨m', l', e, s1, _, _, hh, fr⟩ := sortL_spec cmp key hck tmp d h hfr
  obtain ⟨t1, tp, _, tfr⟩ := sort_spec h key
  have hh2 : (sort m l key).2.h = l.h := by simp only [sort]; split <;> rfl
  refine ⟨m', l', e, ?_, ?_⟩
  · have c1 := s1.size; have c2 := t1.size
    cases hl' : l' with
    | mk h1 c1' =>
      cases hs : (sort m l key).2 with
      | mk h2 c2' =>
        rw [hl'] at c1 hh; rw [hs] at c2 hh2
        simp only at c1 hh c2 hh2
        rw [hh, hh2, c1, c2]
  · intro a ha
    by_cases hm : a ∈ l.h :: xs
    · have p1 := s1.fwd; have p2 := t1.fwd; have q1 := s1.bwd; have q2 := t1.bwd
      rw [hh] at p1 q1; rw [hh2] at p2 q2
      have hm' : a ∈ l.h :: (if l.size > 1 then msort key xs.length xs else xs) := by
        rcases List.mem_cons.mp hm with e | hm
        · simp [e]
        · exact List.mem_cons_of_mem _ (tp.mem_iff.mpr hm)
      refine ⟨Cstl.SList.Seg_unique p1 p2 a hm', Cstl.SList.Seg_unique q1 q2 a ?_⟩
      rcases List.mem_cons.mp hm' with e | hm'
      · simp [e]
      · exact List.mem_cons_of_mem _ (List.mem_reverse.mpr hm')
    · rw [(fr a hm ha).1, (fr a hm ha).2, (tfr a hm).1, (tfr a hm).2]
      exact ⟨rfl, rfl⟩

/-- non-vacuity, and the model runs: the four-element list `[12, 10, 13, 11]`
(keys = addresses) is sorted by the link-level function; both walks agree -/
example :
    let s0 := init { nx := fun _ => 0, pv := fun _ => 0 } 1
    let s1 := pushBack s0.1 s0.2 12
    let s2 := pushBack s1.1 s1.2 10
    let s3 := pushBack s2.1 s2.2 13
    let s4 := pushBack s3.1 s3.2 11
    (sortL (fun a b => (a : Int) - b) (fun e => (100 + 2 * e, 101 + 2 * e)) 5 0 s4.1 s4.2).map
        (fun r => (walk r.1.nx r.2.h 5 r.2.h, walk r.1.pv r.2.h 5 r.2.h, r.2.size))
      = some ([10, 11, 12, 13], [13, 12, 11, 10], 4) := by
  decide

end Cstl.DList
