import Cstl.SList.Lemmas
import Cstl.DList.Model
/-
Helper lemmas for the link-level dlist model.  A circular doubly-linked list
is two `Seg` chains (see SList/Lemmas): the `n` links lead from the head node
through `xs` back to the head node, the `p` links through `xs.reverse`.
-/
namespace Cstl.DList
open Cstl.SList

def headOr (a : Nat) : List Nat → Nat
  | [] => a
  | x :: _ => x

@[simp] theorem headOr_nil (a : Nat) : headOr a [] = a := rfl
@[simp] theorem headOr_cons (a x : Nat) (xs : List Nat) : headOr a (x :: xs) = x := rfl

theorem lastOr_reverse (a : Nat) (xs : List Nat) : lastOr a xs.reverse = headOr a xs := by
  cases xs with
  | nil => rfl
  | cons x xs => simp [lastOr_append_singleton]

theorem headOr_reverse (a : Nat) (xs : List Nat) : headOr a xs.reverse = lastOr a xs := by
  have := lastOr_reverse a xs.reverse
  simpa using this.symm

theorem headOr_append_cons (a y : Nat) (xs ys : List Nat) : headOr a (xs ++ y :: ys) = headOr y xs := by
  cases xs <;> rfl

/-- in a chain, the link of the node at a position is the next node (or the
terminal) -/
theorem Seg_link {f : Mem} {h n z : Nat} {pre post : List Nat} (hs : Seg f h (pre ++ n :: post) z) :
    f n = headOr z post ∧ f (lastOr h pre) = n := by
  rw [Seg_append'] at hs
  obtain ⟨h1, h2, _, h3⟩ := hs
  refine ⟨?_, h2⟩
  cases post with
  | nil => simpa using h3
  | cons y ys => exact h3.1

/-- insert `n` after position `pre` in a duplicate-free chain -/
theorem Seg_insert {f : Mem} {h n z : Nat} {pre post : List Nat}
    (hs : Seg f h (pre ++ post) z) (hnd : (h :: (pre ++ post)).Nodup)
    (hn : n ∉ h :: (pre ++ post)) (hnz : n ≠ 0) :
    Seg (upd (upd f n (f (lastOr h pre))) (lastOr h pre) n) h (pre ++ n :: post) z := by
  obtain ⟨hnd1, _, hdisj⟩ := nodup_split hnd
  have hi_mem : lastOr h pre ∈ h :: pre := lastOr_mem _ _
  have hnn1 : n ∉ h :: pre := fun hc => hn (by
    rcases List.mem_cons.mp hc with rfl | hc
    · simp
    · simp [hc])
  have hnn2 : n ∉ post := fun hc => hn (by simp [hc])
  have hine : lastOr h pre ≠ n := fun e => hnn1 (e ▸ hi_mem)
  rw [Seg_append'] at hs
  obtain ⟨hp1, hp2⟩ := hs
  rw [Seg_append']
  constructor
  · have s1 : Seg (upd f n (f (lastOr h pre))) h pre (f (lastOr h pre)) := by
      refine Seg_transfer hp1 ?_ ?_
      · exact upd_other _ _ _ _ (fun e => hnn1 (by simp [e]))
      · intro a ha; exact upd_other _ _ _ _ (fun e => hnn1 (by simp [← e, ha]))
    have s2 := Seg_upd_last (v := n) s1 hnd1
    simpa using s2
  · refine ⟨by simp, hnz, ?_⟩
    refine Seg_transfer hp2 ?_ ?_
    · rw [upd_other _ _ _ _ (Ne.symm hine)]; simp
    · intro a ha
      have h1 : a ≠ lastOr h pre := fun e => hdisj _ hi_mem (e ▸ ha)
      have h2 : a ≠ n := fun e => hnn2 (e ▸ ha)
      rw [upd_other _ _ _ _ h1, upd_other _ _ _ _ h2]

/-- remove `n` from a duplicate-free chain -/
theorem Seg_erase {f : Mem} {h n z : Nat} {pre post : List Nat}
    (hs : Seg f h (pre ++ n :: post) z) (hnd : (h :: (pre ++ n :: post)).Nodup) :
    Seg (upd f (lastOr h pre) (f n)) h (pre ++ post) z := by
  obtain ⟨hnd', hn_notin⟩ := nodup_remove_mid hnd
  obtain ⟨hnd1, _, hdisj⟩ := nodup_split hnd'
  have he_mem : lastOr h pre ∈ h :: pre := lastOr_mem _ _
  rw [Seg_append'] at hs
  obtain ⟨hp1, hme, hnz, hp3⟩ := hs
  rw [Seg_append']
  constructor
  · have := Seg_upd_last (v := f n) hp1 hnd1
    simpa using this
  · refine Seg_transfer hp3 (by simp) ?_
    intro a ha
    exact upd_other _ _ _ _ (fun e2 => hdisj _ he_mem (e2 ▸ ha))

/-- Abstraction: header `l` in memory `m` represents the sequence `xs` (both
directions). -/
structure IsDL (m : M2) (l : Hd) (xs : List Nat) : Prop where
  fwd : Seg m.nx l.h xs l.h
  bwd : Seg m.pv l.h xs.reverse l.h
  nodup : (l.h :: xs).Nodup
  hnz : l.h ≠ 0
  size : l.size = xs.length

theorem IsDL.transfer {m m' : M2} {l : Hd} {xs : List Nat} (h : IsDL m l xs)
    (hn : ∀ a ∈ l.h :: xs, m'.nx a = m.nx a) (hp : ∀ a ∈ l.h :: xs, m'.pv a = m.pv a) : IsDL m' l xs :=
  { h with
    fwd := Seg_transfer h.fwd (hn _ (by simp)) (fun a ha => hn a (by simp [ha]))
    bwd := Seg_transfer h.bwd (hp _ (by simp)) (fun a ha => hp a (by simp at ha; simp [ha])) }

theorem nodup_reverse_cons {h : Nat} {xs : List Nat} (hnd : (h :: xs).Nodup) : (h :: xs.reverse).Nodup :=
  ((List.reverse_perm xs).cons h).nodup_iff.mpr hnd

theorem IsDL_init (m : M2) (h : Nat) (hnz : h ≠ 0) : IsDL (init m h).1 (init m h).2 [] :=
  { fwd := by simp [init], bwd := by simp [init], nodup := by simp [init],
    hnz := by simpa [init] using hnz, size := by simp [init] }

/-- links of a node of the ring -/
theorem IsDL.links {m : M2} {l : Hd} {pre post : List Nat} {n : Nat} (h : IsDL m l (pre ++ n :: post)) :
    m.nx n = headOr l.h post ∧ m.pv n = lastOr l.h pre
    ∧ m.nx (lastOr l.h pre) = n ∧ m.pv (headOr l.h post) = n := by
  have h1 := Seg_link h.fwd
  have hb : Seg m.pv l.h (post.reverse ++ n :: pre.reverse) l.h := by
    have := h.bwd; simpa using this
  have h2 := Seg_link hb
  refine ⟨h1.1, ?_, h1.2, ?_⟩
  · rw [h2.1, headOr_reverse]
  · rw [← lastOr_reverse]; exact h2.2

theorem IsDL.head_links {m : M2} {l : Hd} {xs : List Nat} (h : IsDL m l xs) :
    m.nx l.h = headOr l.h xs ∧ m.pv l.h = lastOr l.h xs := by
  constructor
  · cases xs with
    | nil => simpa using h.fwd
    | cons x xs => exact h.fwd.1
  · have hb := h.bwd
    rw [← headOr_reverse]
    cases hr : xs.reverse with
    | nil => rw [hr] at hb; simpa using hb
    | cons y ys => rw [hr] at hb; exact hb.1

theorem IsDL.nonzero {m : M2} {l : Hd} {xs : List Nat} (h : IsDL m l xs) : ∀ x ∈ xs, x ≠ 0 :=
  Seg_nonzero h.fwd

end Cstl.DList

namespace Cstl.DList
open Cstl.SList

/-- the link of the last node of a prefix is the first node of the rest -/
theorem Seg_at {f : Mem} {h z : Nat} {pre post : List Nat} (hs : Seg f h (pre ++ post) z) :
    f (lastOr h pre) = headOr z post := by
  rw [Seg_append'] at hs
  cases post with
  | nil => simpa using hs.2
  | cons y ys => exact hs.2.1

theorem headOr_mem (a : Nat) (xs : List Nat) : headOr a xs ∈ a :: xs := by
  cases xs <;> simp

end Cstl.DList

namespace Cstl.DList
open Cstl.SList

/-- exchanging two non-adjacent nodes `i`, `j` of a chain (one link field):
if `f'` sends the predecessor of `i` to `j`, `j` to the first node of the
middle part, the last node of the middle part to `i`, `i` to the old successor
of `j`, and agrees with `f` elsewhere on the chain, then `f'` represents the
chain with `i` and `j` exchanged. -/
theorem Seg_swap_nonadj {f f' : Mem} {h i j z : Nat} {A M B : List Nat}
    (hs : Seg f h (A ++ i :: (M ++ j :: B)) z)
    (hnd : (h :: (A ++ i :: (M ++ j :: B))).Nodup) (hM : M ≠ [])
    (ha : f' (lastOr h A) = j) (hj : f' j = headOr j M) (hc : f' (lastOr i M) = i)
    (hi : f' i = headOr z B)
    (ho : ∀ x, x ∈ h :: (A ++ i :: (M ++ j :: B)) → x ≠ lastOr h A → x ≠ j → x ≠ lastOr i M → x ≠ i → f' x = f x) :
    Seg f' h (A ++ j :: (M ++ i :: B)) z := by
  rw [Seg_append] at hs
  obtain ⟨sA, hiz, s2⟩ := hs
  rw [Seg_append] at s2
  obtain ⟨sM, hjz, sB⟩ := s2
  have hndA : (h :: A).Nodup := by
    have : ((h :: A) ++ i :: (M ++ j :: B)).Nodup := by simpa using hnd
    exact (List.nodup_append.mp this).1
  have hndM : (i :: M).Nodup := by
    have h1 : (i :: (M ++ j :: B)).Nodup := by
      have : ((h :: A) ++ i :: (M ++ j :: B)).Nodup := by simpa using hnd
      exact (List.nodup_append.mp this).2.1
    have : ((i :: M) ++ j :: B).Nodup := by simpa using h1
    exact (List.nodup_append.mp this).1
  obtain ⟨b, M', rfl⟩ := List.exists_cons_of_ne_nil hM
  have hcmem : lastOr i (b :: M') ∈ b :: M' := by simpa using lastOr_mem b M'
  have hamem : lastOr h A ∈ h :: A := lastOr_mem _ _
  rw [Seg_append]
  refine ⟨?_, hjz, ?_⟩
  · -- h … A, last link now to j
    have s1 := Seg_upd_last (v := j) sA hndA
    refine Seg_transfer s1 ?_ ?_
    · by_cases e : h = lastOr h A
      · rw [← e] at ha ⊢; rw [ha]; simp
      · rw [upd_other _ _ _ _ e]
        exact ho h (by simp) e (by grind) (by grind) (by grind)
    · intro x hx
      by_cases e : x = lastOr h A
      · rw [e, ha]; simp
      · rw [upd_other _ _ _ _ e]
        exact ho x (by simp [hx]) e (by grind) (by grind) (by grind)
  · rw [Seg_append]
    refine ⟨?_, hiz, ?_⟩
    · -- j … M, last link now to i
      have s1 := Seg_upd_last (v := i) sM hndM
      refine Seg_transfer s1 ?_ ?_
      · have e : i ≠ lastOr i (b :: M') := by grind
        rw [upd_other _ _ _ _ e, hj]
        exact sM.1.symm
      · intro x hx
        by_cases e : x = lastOr i (b :: M')
        · rw [e, hc]; simp
        · rw [upd_other _ _ _ _ e]
          exact ho x (by simp only [List.mem_cons, List.mem_append]; grind) (by grind) (by grind) e (by grind)
    · -- i … B
      refine Seg_transfer sB ?_ ?_
      · rw [hi]
        cases B with
        | nil => exact (show f j = z from sB).symm
        | cons y ys => exact sB.1.symm
      · intro x hx
        exact ho x (by simp only [List.mem_cons, List.mem_append]; grind) (by grind) (by grind) (by grind) (by grind)

/-- exchanging two adjacent nodes of a chain (one link field) -/
theorem Seg_swap_adj {f f' : Mem} {h i j z : Nat} {A B : List Nat}
    (hs : Seg f h (A ++ i :: j :: B) z) (hnd : (h :: (A ++ i :: j :: B)).Nodup)
    (ha : f' (lastOr h A) = j) (hj : f' j = i) (hi : f' i = headOr z B)
    (ho : ∀ x, x ∈ h :: (A ++ i :: j :: B) → x ≠ lastOr h A → x ≠ j → x ≠ i → f' x = f x) :
    Seg f' h (A ++ j :: i :: B) z := by
  rw [Seg_append] at hs
  obtain ⟨sA, hiz, hij, hjz, sB⟩ := hs
  have hndA : (h :: A).Nodup := by
    have : ((h :: A) ++ i :: j :: B).Nodup := by simpa using hnd
    exact (List.nodup_append.mp this).1
  have hamem : lastOr h A ∈ h :: A := lastOr_mem _ _
  rw [Seg_append]
  refine ⟨?_, hjz, hj, hiz, ?_⟩
  · have s1 := Seg_upd_last (v := j) sA hndA
    refine Seg_transfer s1 ?_ ?_
    · by_cases e : h = lastOr h A
      · rw [← e] at ha ⊢; rw [ha]; simp
      · rw [upd_other _ _ _ _ e]
        exact ho h (by simp) e (by grind) (by grind)
    · intro x hx
      by_cases e : x = lastOr h A
      · rw [e, ha]; simp
      · rw [upd_other _ _ _ _ e]
        exact ho x (by simp [hx]) e (by grind) (by grind)
  · refine Seg_transfer sB ?_ ?_
    · rw [hi]
      cases B with
      | nil => exact (show f j = z from sB).symm
      | cons y ys => exact sB.1.symm
    · intro x hx
      exact ho x (by simp only [List.mem_cons, List.mem_append]; grind) (by grind) (by grind) (by grind)

end Cstl.DList
