import Cstl.Gen.DListC2
import Cstl.DList.SortL
/-
Translator tie, second part (dlist): `Cstl/Gen/DListC2.lean` is regenerated
from /repo's src/dlist.c by tools/c2lean_lists.py on every check run; the
fixed theorems below state that the link-level models of `cstl_dlist_sort`
(`SortL.lean`), `cstl_dlist_foreach`, `cstl_dlist_find` and `cstl_dlist_swap`
(`Model.lean`) are those translations.

`sort_tie`, `mergeLoop_tie`, `splitLoop_tie` are equalities.  `foreach_tie`,
`find_tie`: whenever the translated loop finishes, the model returns the same
state / visited elements / result (the model's loop is total: it stops when
its fuel is used up, the translation then yields `none`).  `swap_tie`: an
equality on represented lists — the translator and the model order the two
halves of the chained assignment in the fix-up macro differently, which is
immaterial exactly when the head's links are not self-links
(`swap_tie_raw`), i.e. in the branch `size != 0` of a represented list.
-/
namespace Cstl.DList.Tie2
open Cstl.SList (Mem upd lastOr)
open Cstl.DList Cstl.Gen.DListC2

theorem insert_tie (m : M2) (l : Hd) (p n : Nat) :
    c_priv_cstl_dlist_insert m.nx m.pv l p n = ((insert m l p n).1.nx, (insert m l p n).1.pv, (insert m l p n).2) := rfl

theorem erase_tie (m : M2) (l : Hd) (n : Nat) :
    c_priv_cstl_dlist_erase m.nx m.pv l n = ((erase m l n).1.nx, (erase m l n).1.pv, (erase m l n).2, n) := rfl

theorem concat_tie (m : M2) (d s : Hd) :
    c_cstl_dlist_concat m.nx m.pv d s
      = ((concat m d s).1.nx, (concat m d s).1.pv, (concat m d s).2.1, (concat m d s).2.2) := by
  simp only [c_cstl_dlist_concat, concat]
  split <;> split <;> simp_all

/-- the split loop `for (t = &l->h; _l[0].size < l->size / 2; t = t->n, _l[0].size++) ;` -/
theorem splitLoop_tie (cmp : Nat → Nat → Int) (tmp : Nat → Nat × Nat) (fuel : Nat) (nx pv : Mem) (l l0 l1 : Hd) (t : Nat) :
    c_cstl_dlist_sort_loop1 cmp tmp fuel nx pv l l0 l1 t
      = (Cstl.SList.splitLoop fuel nx (l.size / 2) l0.size t).map
          (fun r => (nx, pv, l, { l0 with size := r.1 }, l1, r.2)) := by
  induction fuel generalizing l0 t with
  | zero =>
    simp only [c_cstl_dlist_sort_loop1, Cstl.SList.splitLoop]
    split <;> simp_all
  | succ f ih =>
    simp only [c_cstl_dlist_sort_loop1, Cstl.SList.splitLoop]
    split
    · rw [ih]
    · simp_all

/-- the merge loop -/
theorem mergeLoop_tie (cmp : Nat → Nat → Int) (tmp : Nat → Nat × Nat) (fuel : Nat) (nx pv : Mem) (l a b : Hd) (t : Nat) :
    c_cstl_dlist_sort_loop2 cmp tmp fuel nx pv l a b t
      = (mergeLoop cmp fuel { nx := nx, pv := pv } l a b).map
          (fun r => (r.1.nx, r.1.pv, r.2.1, r.2.2.1, r.2.2.2, t)) := by
  induction fuel generalizing nx pv l a b with
  | zero =>
    simp only [c_cstl_dlist_sort_loop2, mergeLoop]
    split <;> simp_all
  | succ f ih =>
    simp only [c_cstl_dlist_sort_loop2, mergeLoop]
    split
    · split
      · simp only [c_priv_cstl_dlist_erase, c_priv_cstl_dlist_insert]
        rw [ih]; rfl
      · simp only [c_priv_cstl_dlist_erase, c_priv_cstl_dlist_insert]
        rw [ih]; rfl
    · simp_all

/-- **`cstl_dlist_sort`** = the link-level model `sortL` -/
theorem sort_tie (cmp : Nat → Nat → Int) (tmp : Nat → Nat × Nat) (fuel d : Nat) (nx pv : Mem) (l : Hd) :
    c_cstl_dlist_sort cmp tmp fuel d nx pv l
      = (sortL cmp tmp fuel d { nx := nx, pv := pv } l).map (fun r => (r.1.nx, r.1.pv, r.2)) := by
  induction fuel generalizing d nx pv l with
  | zero => simp [sortL, c_cstl_dlist_sort]
  | succ f ih =>
    simp only [sortL, c_cstl_dlist_sort]
    split
    · rename_i hc
      simp only [init, splitLoop_tie]
      cases hs : Cstl.SList.splitLoop f (upd (upd nx (tmp d).fst (tmp d).fst) (tmp d).snd (tmp d).snd) (l.size / 2) 0 l.h with
      | none => simp
      | some p =>
        obtain ⟨cnt, t⟩ := p
        simp only [Option.map_some, splitLinks, init, ih]
        generalize sortL cmp tmp f (d + 1) _ _ = oA
        cases oA with
        | none => rfl
        | some rA =>
          obtain ⟨mA, a1⟩ := rA
          simp only [Option.map_some]
          generalize sortL cmp tmp f (d + 1) _ _ = oB
          cases oB with
          | none => rfl
          | some rB =>
            obtain ⟨mB, b1⟩ := rB
            simp only [Option.map_some, mergeLoop_tie]
            generalize mergeLoop cmp f _ _ _ _ = oC
            cases oC with
            | none => rfl
            | some rC =>
              obtain ⟨mC, l3, a3, b3⟩ := rC
              simp only [Option.map_some]
              have e1 := concat_tie mC l3 a3
              have e2 := concat_tie mC l3 b3
              simp only [e1, e2]
              split <;> rfl
    · rfl

/-! ### `cstl_dlist_foreach` -/

/-- the model's visit function (result, "did it remove the element") in the
vocabulary of the translation: the private state is the call counter and the
visited elements; a removing visit unlinks the element with `eraseP` -/
def erasingVisit (poison : Nat → Nat) (visit : Nat → Nat → Int × Bool) :
    (Nat × List Nat) → Mem → Mem → Hd → Nat → Int × (Nat × List Nat) × Mem × Mem × Hd :=
  fun s nx pv l c =>
    let v := visit s.1 c
    let ml := if v.2 then eraseP poison { nx := nx, pv := pv } l c else ({ nx := nx, pv := pv }, l)
    (v.1, (s.1 + 1, c :: s.2), ml.1.nx, ml.1.pv, ml.2)

/-- the value of the local function pointer `next` -/
def sel (fwd : Bool) : Mem → Mem → Nat → Nat :=
  if fwd then (fun nx _ a => nx a) else (fun _ pv a => pv a)

theorem foreachLoop_stop {σ : Type} (vis : σ → Mem → Mem → Hd → Nat → Int × σ × Mem × Mem × Hd) (dir fuel : Nat)
    (vs : σ) (nx pv : Mem) (l : Hd) (next : Mem → Mem → Nat → Nat) (c n : Nat) (res : Int) (hr : res ≠ 0) :
    c_cstl_dlist_foreach_loop1 vis dir fuel vs nx pv l next c n res = some (vs, nx, pv, l, next, c, n, res) := by
  cases fuel <;> simp [c_cstl_dlist_foreach_loop1, hr]

/-- the loop of `cstl_dlist_foreach`: whenever the translated loop finishes,
the model's loop ends with the same memory, header, visited elements, result -/
theorem foreachLoop_tie (poison : Nat → Nat) (visit : Nat → Nat → Int × Bool) (fwd : Bool) (dir fuel : Nat)
    (nx pv : Mem) (l : Hd) (c n k : Nat) (acc : List Nat)
    (out : (Nat × List Nat) × Mem × Mem × Hd × (Mem → Mem → Nat → Nat) × Nat × Nat × Int)
    (h : c_cstl_dlist_foreach_loop1 (erasingVisit poison visit) dir fuel (k, acc) nx pv l (sel fwd) c n 0 = some out) :
    foreachLoop poison fwd visit fuel { nx := nx, pv := pv } l c n k acc
      = ({ nx := out.2.1, pv := out.2.2.1 }, out.2.2.2.1, out.1.2.reverse, out.2.2.2.2.2.2.2) := by
  induction fuel generalizing nx pv l c n k acc with
  | zero =>
    simp only [c_cstl_dlist_foreach_loop1] at h
    split at h
    · cases h
    · cases h; simp [foreachLoop]
  | succ f ih =>
    simp only [c_cstl_dlist_foreach_loop1] at h
    split at h
    · rename_i hc
      have hc0 : c ≠ l.h := hc.2
      simp only [erasingVisit] at h
      by_cases hv : (visit k c).1 = 0
      · rw [hv] at h
        have := ih _ _ _ _ _ _ _ h
        simp only [foreachLoop, hc0, if_false, hv, ne_eq, not_true_eq_false]
        rw [← this]
        cases fwd <;> rfl
      · rw [foreachLoop_stop _ _ _ _ _ _ _ _ _ _ _ hv] at h
        cases h
        simp [foreachLoop, hc0, hv]
    · rename_i hc
      have hc0 : c = l.h := by simpa using hc
      cases h
      simp [foreachLoop, hc0]

/-- **`cstl_dlist_foreach`**, both directions: `dir = 1`
(`CSTL_DLIST_FOREACH_DIR_REV`) walks backwards, every other value forwards -/
theorem foreach_tie (poison : Nat → Nat) (visit : Nat → Nat → Int × Bool) (dir : Nat) (m : M2) (l : Hd)
    (out : (Nat × List Nat) × Mem × Mem × Hd × Int)
    (h : c_cstl_dlist_foreach (erasingVisit poison visit) dir (l.size + 1) (0, []) m.nx m.pv l = some out) :
    foreach m l (dir != 1) visit poison
      = ({ nx := out.2.1, pv := out.2.2.1 }, out.2.2.2.1, out.1.2.reverse, out.2.2.2.2) := by
  simp only [c_cstl_dlist_foreach] at h
  by_cases hd : dir = 1
  · subst hd
    simp only [if_true] at h
    split at h
    · cases h
    · rename_i vs nx' pv' l' nxt c' n' res' heq
      have := foreachLoop_tie poison visit false 1 (l.size + 1) m.nx m.pv l (m.pv l.h) (m.pv (m.pv l.h)) 0 [] _ heq
      cases h
      simpa [foreach] using this
  · simp only [hd, if_false] at h
    split at h
    · cases h
    · rename_i vs nx' pv' l' nxt c' n' res' heq
      have := foreachLoop_tie poison visit true dir (l.size + 1) m.nx m.pv l (m.nx l.h) (m.nx (m.nx l.h)) 0 [] _ heq
      cases h
      have hb : (dir != 1) = true := by simp [hd]
      simpa [foreach, hb] using this

/-! ### `cstl_dlist_find` -/

/-- a comparison function that compares keys: the probe has key `probe` -/
def keyCmp (key : Nat → Int) (probe : Int) : Nat → Nat → Int := fun _ b => key b - probe

/-- how `cstl_dlist_find` hands `cstl_dlist_find_visit` to `cstl_dlist_foreach`:
the private state is the field `lfp.e` -/
def findVis (cmp : Nat → Nat → Int) : Nat → Mem → Mem → Hd → Nat → Int × Nat × Mem × Mem × Hd :=
  fun s nx pv l e => let r := c_cstl_dlist_find_visit cmp s e; (r.2, r.1, nx, pv, l)

theorem findLoop_tie (poison : Nat → Nat) (key : Nat → Int) (probe : Int) (fwd : Bool) (dir fuel : Nat)
    (nx pv : Mem) (l : Hd) (c n k : Nat) (acc : List Nat) (s : Nat)
    (out : Nat × Mem × Mem × Hd × (Mem → Mem → Nat → Nat) × Nat × Nat × Int)
    (h : c_cstl_dlist_foreach_loop1 (findVis (keyCmp key probe)) dir fuel s nx pv l (sel fwd) c n 0 = some out) :
    (foreachLoop poison fwd (findVisit key probe) fuel { nx := nx, pv := pv } l c n k acc).2.2.2 = out.2.2.2.2.2.2.2
    ∧ (out.2.2.2.2.2.2.2 ≠ 0 →
        (foreachLoop poison fwd (findVisit key probe) fuel { nx := nx, pv := pv } l c n k acc).2.2.1.getLast? = some out.1)
    ∧ (out.2.2.2.2.2.2.2 = 0 → out.1 = s)
    ∧ out.2.1 = nx ∧ out.2.2.1 = pv ∧ out.2.2.2.1 = l := by
  induction fuel generalizing c n k acc with
  | zero =>
    simp only [c_cstl_dlist_foreach_loop1] at h
    split at h
    · cases h
    · cases h; simp [foreachLoop]
  | succ f ih =>
    simp only [c_cstl_dlist_foreach_loop1] at h
    split at h
    · rename_i hc
      have hc0 : c ≠ l.h := hc.2
      simp only [findVis, c_cstl_dlist_find_visit, keyCmp] at h
      by_cases hk : key c = probe
      · have hz : key c - probe = 0 := by omega
        simp only [hz, if_true] at h
        rw [foreachLoop_stop _ _ _ _ _ _ _ _ _ _ _ (by decide)] at h
        cases h
        simp [foreachLoop, hc0, findVisit, hk]
      · have hz : ¬ key c - probe = 0 := by omega
        simp only [hz, if_false] at h
        have := ih _ _ (k + 1) (c :: acc) h
        simp only [foreachLoop, hc0, if_false, findVisit, hk, ne_eq, not_true_eq_false, Bool.false_eq_true]
        cases fwd <;> exact this
    · rename_i hc
      have hc0 : c = l.h := by simpa using hc
      cases h
      simp [foreachLoop, hc0]

theorem findForeach_tie (key : Nat → Int) (probe : Int) (dir : Nat) (m : M2) (l : Hd) (s : Nat)
    (out : Nat × Mem × Mem × Hd × Int)
    (h : c_cstl_dlist_foreach (findVis (keyCmp key probe)) dir (l.size + 1) s m.nx m.pv l = some out) :
    (foreach m l (dir != 1) (findVisit key probe)).2.2.2 = out.2.2.2.2
    ∧ (out.2.2.2.2 ≠ 0 → (foreach m l (dir != 1) (findVisit key probe)).2.2.1.getLast? = some out.1)
    ∧ (out.2.2.2.2 = 0 → out.1 = s)
    ∧ out.2.1 = m.nx ∧ out.2.2.1 = m.pv ∧ out.2.2.2.1 = l := by
  simp only [c_cstl_dlist_foreach] at h
  by_cases hd : dir = 1
  · subst hd
    simp only [if_true] at h
    split at h
    · cases h
    · rename_i vs nx' pv' l' nxt c' n' res' heq
      have := findLoop_tie (fun _ => 0) key probe false 1 (l.size + 1) m.nx m.pv l (m.pv l.h) (m.pv (m.pv l.h)) 0 [] s _ heq
      cases h
      simpa [foreach] using this
  · simp only [hd, if_false] at h
    split at h
    · cases h
    · rename_i vs nx' pv' l' nxt c' n' res' heq
      have := findLoop_tie (fun _ => 0) key probe true dir (l.size + 1) m.nx m.pv l (m.nx l.h) (m.nx (m.nx l.h)) 0 [] s _ heq
      cases h
      have hb : (dir != 1) = true := by simp [hd]
      simpa [foreach, hb] using this

/-- **`cstl_dlist_find`**: whenever the translation finishes it leaves the list
untouched and returns what the model's `find` returns (NULL for `none`) -/
theorem find_tie (key : Nat → Int) (probe : Int) (e dir : Nat) (m : M2) (l : Hd) (out : Mem × Mem × Hd × Nat)
    (h : c_cstl_dlist_find (keyCmp key probe) e dir (l.size + 1) m.nx m.pv l = some out) :
    out = (m.nx, m.pv, l, (find m l (dir != 1) key probe).getD 0) := by
  simp only [c_cstl_dlist_find] at h
  split at h
  · cases h
  · rename_i s' nx' pv' l' r1 heq
    obtain ⟨i1, i2, i3, i4, i5, i6⟩ := findForeach_tie key probe dir m l e _ heq
    simp only at i1 i2 i3 i4 i5 i6
    subst i4 i5 i6
    have ef : find m l' (dir != 1) key probe
        = if (foreach m l' (dir != 1) (findVisit key probe)).2.2.2 > 0
          then (foreach m l' (dir != 1) (findVisit key probe)).2.2.1.getLast? else none := rfl
    rw [ef, i1]
    split at h
    · rename_i hr
      cases h
      have : r1 ≠ 0 := by omega
      simp [hr, i2 this]
    · rename_i hr
      cases h
      simp [hr]

/-! ### `cstl_dlist_swap` -/

/-- In the fix-up macro's chained assignment `L->h.n->p = L->h.p->n = &L->h`
the translator performs the right-hand assignment first and then evaluates
`L->h.n`; the model `swapFix` evaluates `L->h.n` first.  Both agree as soon as
the head's links are not self-links, which the branch `size != 0` guarantees
on represented lists (`swap_tie`). -/
theorem swap_tie_raw (m : M2) (a b : Hd) (hab : a.h ≠ b.h)
    (hA : a.size ≠ 0 → m.nx a.h ≠ a.h ∧ m.nx a.h ≠ b.h ∧ m.pv a.h ≠ a.h ∧ m.pv a.h ≠ b.h)
    (hB : b.size ≠ 0 → m.nx b.h ≠ a.h ∧ m.nx b.h ≠ b.h ∧ m.pv b.h ≠ a.h ∧ m.pv b.h ≠ b.h) :
    c_cstl_dlist_swap m.nx m.pv a b
      = ((swap m a b).1.nx, (swap m a b).1.pv, (swap m a b).2.1, (swap m a b).2.2) := by
  simp only [c_cstl_dlist_swap, swap, swapFix]
  by_cases ha : a.size = 0 <;> by_cases hb : b.size = 0
  · simp [ha, hb]
  · obtain ⟨b1, b2, b3, b4⟩ := hB hb
    simp only [ha, hb, if_true, if_false, Prod.mk.injEq, and_true]
    constructor <;> funext x <;> simp only [upd] <;> grind
  · obtain ⟨a1, a2, a3, a4⟩ := hA ha
    simp only [ha, hb, if_true, if_false, Prod.mk.injEq, and_true]
    constructor <;> funext x <;> simp only [upd] <;> grind
  · obtain ⟨a1, a2, a3, a4⟩ := hA ha
    obtain ⟨b1, b2, b3, b4⟩ := hB hb
    simp only [ha, hb, if_false, Prod.mk.injEq, and_true]
    constructor <;> funext x <;> simp only [upd] <;> grind

theorem head_links_ne {m : M2} {a b : Hd} {xs ys : List Nat} (ha : IsDL m a xs) (hdis : Disjoint a xs b ys)
    (hs : a.size ≠ 0) : m.nx a.h ≠ a.h ∧ m.nx a.h ≠ b.h ∧ m.pv a.h ≠ a.h ∧ m.pv a.h ≠ b.h := by
  cases xs with
  | nil => have := ha.size; simp at this; omega
  | cons x xs' =>
    have h1 : m.nx a.h = x := ha.fwd.1
    have h2 : m.pv a.h = lastOr x xs' := ha.head_links.2
    have hm : lastOr x xs' ∈ x :: xs' := Cstl.SList.lastOr_mem _ _
    have hn : ∀ z ∈ x :: xs', z ≠ a.h ∧ z ≠ b.h := by
      intro z hz
      refine ⟨fun e => ?_, fun e => hdis z (List.mem_cons_of_mem _ hz) (by simp [e])⟩
      have := ha.nodup; rw [← e] at this; exact (List.nodup_cons.mp this).1 hz
    rw [h1, h2]
    exact ⟨(hn x (by simp)).1, (hn x (by simp)).2, (hn _ hm).1, (hn _ hm).2⟩

/-- **`cstl_dlist_swap`** on represented lists: the translation is the model `swap` -/
theorem swap_tie {m : M2} {a b : Hd} {xs ys : List Nat} (ha : IsDL m a xs) (hb : IsDL m b ys)
    (hdis : Disjoint a xs b ys) :
    c_cstl_dlist_swap m.nx m.pv a b
      = ((swap m a b).1.nx, (swap m a b).1.pv, (swap m a b).2.1, (swap m a b).2.2) := by
  have hab : a.h ≠ b.h := fun e => hdis a.h (by simp) (by simp [e])
  have hdis' : Disjoint b ys a xs := fun z hz hm => hdis z hm hz
  refine swap_tie_raw m a b hab (fun hs => head_links_ne ha hdis hs) (fun hs => ?_)
  obtain ⟨h1, h2, h3, h4⟩ := head_links_ne hb hdis' hs
  exact ⟨h2, h1, h4, h3⟩


/-- **the translated C function sorts.**  `sort_tie` composed with the
refinement theorem: on every represented list with fresh temporary heads the
translation of `cstl_dlist_sort` finishes and leaves, in both directions, an
ordered permutation of the same nodes. -/
theorem c_sort_spec (cmp : Nat → Nat → Int) (key : Nat → Int) (hck : ∀ x y, cmp x y ≤ 0 ↔ key x ≤ key y)
    (tmp : Nat → Nat × Nat) (d : Nat) {m : M2} {l : Hd} {xs : List Nat}
    (h : IsDL m l xs) (hfr : Cstl.SList.Fresh tmp d (l.h :: xs)) :
    ∃ m' l', c_cstl_dlist_sort cmp tmp (xs.length + 1) d m.nx m.pv l = some (m'.nx, m'.pv, l') ∧
      let ys := if l.size > 1 then Cstl.SList.msort key xs.length xs else xs
      IsDL m' l' ys ∧ ys.Perm xs ∧ Cstl.SList.SortedBy key ys ∧ l'.h = l.h
      ∧ ∀ a, a ∉ l.h :: xs → ¬ Cstl.SList.Scratch tmp d a → m'.nx a = m.nx a ∧ m'.pv a = m.pv a := by
  obtain ⟨m', l', e, rest⟩ := sortL_spec cmp key hck tmp d h hfr
  refine ⟨m', l', ?_, rest⟩
  rw [sort_tie]
  show Option.map _ (sortL cmp tmp (xs.length + 1) d m l) = _
  rw [e]; rfl

end Cstl.DList.Tie2
